import OQ.Lemmas.C16_Gates
set_option linter.unusedSectionVars false
namespace OQ.C16
open Matrix OQ.Spec OQ.Pauli
variable {R : Type} [CommRing R] [StarRing R] {ι : Type} [Fintype ι] [DecidableEq ι] {T : Type}

/-- the matrix of one operation of a model circuit on the register ι; `e` names the register's qubits -/
def gateSem (k : Scal R) (ang : T → Ang R) (e : ℕ → ι) (o : GOp T) : Matrix (BV ι) (BV ι) R :=
  gateOn (gateMatrix k ang o.g) (o.qs.map e)

/-- the matrix of a model circuit: the first operation acts first (is the rightmost factor) -/
def circSem (k : Scal R) (ang : T → Ang R) (e : ℕ → ι) : Circ T → Matrix (BV ι) (BV ι) R
  | [] => 1
  | o :: rest => circSem k ang e rest * gateSem k ang e o

@[simp] theorem circSem_nil (k : Scal R) (ang : T → Ang R) (e : ℕ → ι) : circSem k ang e ([] : Circ T) = 1 := rfl
@[simp] theorem circSem_cons (k : Scal R) (ang : T → Ang R) (e : ℕ → ι) (o : GOp T) (c : Circ T) :
    circSem k ang e (o :: c) = circSem k ang e c * gateSem k ang e o := rfl

theorem circSem_append (k : Scal R) (ang : T → Ang R) (e : ℕ → ι) (a b : Circ T) :
    circSem k ang e (a ++ b) = circSem k ang e b * circSem k ang e a := by
  induction a with
  | nil => simp
  | cons o a ih => simp [ih, Matrix.mul_assoc]

theorem inverse_cons (o : GOp T) (c : Circ T) : inverse (o :: c) = inverse c ++ [⟨o.g.dagger, o.qs⟩] := by
  simp [inverse]

@[simp] theorem inverse_nil : inverse ([] : Circ T) = [] := rfl

/-! ### tensors -/

theorem on1_one (q : ι) : on1 q (1 : Matrix Bool Bool R) = 1 := by
  unfold on1
  rw [Function.update_eq_self_iff.mpr rfl]  
  exact tensor_one

theorem tensor_update (g : ι → Matrix Bool Bool R) (q : ι) (m : Matrix Bool Bool R) (hg : g q = 1) :
    tensor (Function.update g q m) = tensor g * on1 q m := by
  unfold on1
  rw [tensor_mul]
  congr 1
  funext p
  by_cases hp : p = q
  · subst hp; simp [hg]
  · simp [Function.update_of_ne hp]

theorem tensor_update' (g : ι → Matrix Bool Bool R) (q : ι) (m : Matrix Bool Bool R) (hg : g q = 1) :
    tensor (Function.update g q m) = on1 q m * tensor g := by
  unfold on1
  rw [tensor_mul]
  congr 1
  funext p
  by_cases hp : p = q
  · subst hp; simp [hg]
  · simp [Function.update_of_ne hp]

/-! ### Z strings -/

/-- the sign (−1)^{parity of x on S} -/
def zfun (S : List ι) (x : BV ι) : R := (S.map (fun q => sgn (x q))).prod
/-- Z on every qubit of `S` -/
def Zstr (S : List ι) : Matrix (BV ι) (BV ι) R := Matrix.diagonal (zfun S)

theorem on1_σz (q : ι) : on1 q (σz : Matrix Bool Bool R) = Zstr [q] := by
  ext x y
  rw [on1_apply]
  simp only [Zstr, zfun, Matrix.diagonal_apply, σz, List.map_cons, List.map_nil, List.prod_cons, List.prod_nil, mul_one]
  by_cases h : x = y
  · subst h; simp
  · rw [if_neg h]
    split_ifs with h1 h2
    · exfalso; apply h; funext p
      by_cases hp : p = q
      · subst hp; exact h2
      · exact h1 p hp
    · rfl
    · rfl

theorem sgn_xor (a b : Bool) : (sgn (xor a b) : R) = sgn a * sgn b := by
  cases a <;> cases b <;> simp [sgn]

theorem zfun_cnot (a b : ι) (rest : List ι) (hb : b ∉ rest) (x : BV ι) :
    (zfun (b :: rest) (cnotMap a b x) : R) = zfun (a :: b :: rest) x := by
  simp only [zfun, List.map_cons, List.prod_cons]
  have h1 : (cnotMap a b x) b = xor (x a) (x b) := by simp [cnotMap]
  have h2 : rest.map (fun q => (sgn (cnotMap a b x q) : R)) = rest.map (fun q => sgn (x q)) := by
    apply List.map_congr_left
    intro q hq
    have : q ≠ b := fun h => hb (h ▸ hq)
    simp [cnotMap, Function.update_of_ne this]
  rw [h1, h2, sgn_xor, mul_assoc]

theorem on1_sub_smul (q : ι) (a b : R) (m : Matrix Bool Bool R) :
    on1 q (a • (1 : Matrix Bool Bool R) - b • m) = a • (1 : Matrix (BV ι) (BV ι) R) - b • on1 q m := by
  ext x y
  rw [Matrix.sub_apply, Matrix.smul_apply, Matrix.smul_apply, ← on1_one (R := R) q]
  simp only [on1_apply, Matrix.sub_apply, Matrix.smul_apply, smul_eq_mul]
  split_ifs <;> simp

theorem gateSem_rz (k : Scal R) (ang : T → Ang R) (e : ℕ → ι) (θ : T) (q : ℕ) :
    gateSem k ang e ⟨.RZ θ, [q]⟩ = (ang θ).ch • (1 : Matrix (BV ι) (BV ι) R) - (k.i * (ang θ).sh) • Zstr [e q] := by
  unfold gateSem
  simp only [gateMatrix, List.map_cons, List.map_nil]
  rw [gateOn_single, rz_eq, on1_sub_smul, on1_σz]

theorem gateSem_cnot (k : Scal R) (ang : T → Ang R) (e : ℕ → ι) (a b : ℕ) (hab : e a ≠ e b) :
    gateSem k ang e ⟨.CNOT, [a, b]⟩ = permM (cnotMap (e a) (e b)) := by
  unfold gateSem
  simp only [gateMatrix, List.map_cons, List.map_nil]
  exact gateOn_cnot _ _ hab

theorem ladder_cons_cons (q q' : ℕ) (rest : List ℕ) :
    (ladder (q :: q' :: rest) : Circ T) = ⟨.CNOT, [q, q']⟩ :: ladder (q' :: rest) := rfl

/-- the CNOT ladder is undone by its inverse -/
theorem ladder_inverse_mul (k : Scal R) (ang : T → Ang R) (e : ℕ → ι) (qs : List ℕ) (hnd : (qs.map e).Nodup) :
    circSem k ang e (inverse (ladder qs : Circ T)) * circSem k ang e (ladder qs : Circ T) = 1 := by
  induction qs with
  | nil => simp [ladder]
  | cons q rest ih =>
    cases rest with
    | nil => simp [ladder]
    | cons q' rest =>
      have hnd' : ((q' :: rest).map e).Nodup := (List.nodup_cons.mp hnd).2
      have hab : e q ≠ e q' := by
        intro h
        have := (List.nodup_cons.mp hnd).1
        apply this; simp [h]
      rw [ladder_cons_cons, inverse_cons, circSem_append, circSem_cons, circSem_cons, circSem_nil, Matrix.one_mul]
      simp only [GateK.dagger]
      rw [gateSem_cnot k ang e q q' hab]
      have ih' := ih hnd'
      calc permM (cnotMap (e q) (e q')) * circSem k ang e (inverse (ladder (q' :: rest)))
            * (circSem k ang e (ladder (q' :: rest)) * permM (cnotMap (e q) (e q')))
          = permM (cnotMap (e q) (e q')) * (circSem k ang e (inverse (ladder (q' :: rest)))
            * circSem k ang e (ladder (q' :: rest))) * permM (cnotMap (e q) (e q')) := by
              simp only [Matrix.mul_assoc]
        _ = 1 := by rw [ih', Matrix.mul_one, permM_mul_self _ (cnotMap_involutive _ _ hab)]

/-- conjugating Z on the last qubit by the CNOT ladder gives Z on every qubit of the ladder -/
theorem ladder_conj_z (k : Scal R) (ang : T → Ang R) (e : ℕ → ι) (qs : List ℕ) (hnd : (qs.map e).Nodup)
    (last : ℕ) (hl : qs.getLast? = some last) :
    circSem k ang e (inverse (ladder qs : Circ T)) * Zstr [e last] * circSem k ang e (ladder qs : Circ T)
      = Zstr (qs.map e) := by
  induction qs with
  | nil => simp at hl
  | cons q rest ih =>
    cases rest with
    | nil =>
      simp only [List.getLast?_singleton, Option.some.injEq] at hl
      subst hl
      simp [ladder]
    | cons q' rest =>
      have hnd' : ((q' :: rest).map e).Nodup := (List.nodup_cons.mp hnd).2
      have hab : e q ≠ e q' := by
        intro h
        have := (List.nodup_cons.mp hnd).1
        apply this; simp [h]
      have hq' : e q' ∉ rest.map e := by
        have := (List.nodup_cons.mp hnd').1
        simpa using this
      have hl' : (q' :: rest).getLast? = some last := by
        rw [← hl]; simp [List.getLast?_cons_cons]
      rw [ladder_cons_cons, inverse_cons, circSem_append, circSem_cons, circSem_cons, circSem_nil, Matrix.one_mul]
      simp only [GateK.dagger]
      rw [gateSem_cnot k ang e q q' hab]
      have ih' := ih hnd' hl'
      calc permM (cnotMap (e q) (e q')) * circSem k ang e (inverse (ladder (q' :: rest))) * Zstr [e last]
            * (circSem k ang e (ladder (q' :: rest)) * permM (cnotMap (e q) (e q')))
          = permM (cnotMap (e q) (e q')) * (circSem k ang e (inverse (ladder (q' :: rest))) * Zstr [e last]
            * circSem k ang e (ladder (q' :: rest))) * permM (cnotMap (e q) (e q')) := by
              simp only [Matrix.mul_assoc]
        _ = Zstr ((q :: q' :: rest).map e) := by
              rw [ih']
              unfold Zstr
              rw [permM_conj_diagonal _ (cnotMap_involutive _ _ hab)]
              congr 1
              funext x
              simp only [Function.comp, List.map_cons]
              exact zfun_cnot (e q) (e q') (rest.map e) hq' x

/-- cnot ladder, central RZ, ladder undone:  cos·1 − i sin·Z_S  for every support size -/
theorem zrot_sem (k : Scal R) (ang : T → Ang R) (e : ℕ → ι) (qs : List ℕ) (hnd : (qs.map e).Nodup)
    (last : ℕ) (hl : qs.getLast? = some last) (θ : T) :
    circSem k ang e ((ladder qs : Circ T) ++ [⟨.RZ θ, [last]⟩] ++ inverse (ladder qs))
      = (ang θ).ch • (1 : Matrix (BV ι) (BV ι) R) - (k.i * (ang θ).sh) • Zstr (qs.map e) := by
  rw [circSem_append, circSem_append, circSem_cons, circSem_nil, Matrix.one_mul, gateSem_rz]
  rw [Matrix.sub_mul, Matrix.mul_sub, Matrix.smul_mul, Matrix.mul_smul, Matrix.smul_mul, Matrix.mul_smul,
    Matrix.one_mul, ladder_inverse_mul k ang e qs hnd]
  rw [← Matrix.mul_assoc, ladder_conj_z k ang e qs hnd last hl]


/-- the basis-change matrix for a Pauli letter: H for X, RX(π/2) for Y, nothing otherwise -/
def bMat (k : Scal R) : Option P → Matrix Bool Bool R
  | some .X => toB (Gates.h k)
  | some .Y => toB (Gates.rx k ⟨k.r, k.r⟩)
  | _ => 1
/-- … and the matrix the inverse circuit applies: H again (flagged hermitian), Dagger(RX(π/2)) -/
def bInv (k : Scal R) : Option P → Matrix Bool Bool R
  | some .X => toB (Gates.h k)
  | some .Y => (toB (Gates.rx k ⟨k.r, k.r⟩))ᴴ
  | _ => 1

theorem halfPi_laws (k : Scal R) (hk : ScalLaws k) : AngLaws (⟨k.r, k.r⟩ : Ang R) :=
  ⟨by have := hk.rr; linear_combination this, hk.star_r, hk.star_r⟩

theorem bInv_mul_bMat (k : Scal R) (hk : ScalLaws k) (p : Option P) : bInv k p * bMat k p = 1 := by
  match p with
  | none => simp [bInv, bMat]
  | some .X => exact h_mul_h k hk
  | some .Y => exact rxdg_mul_rx k hk _ (halfPi_laws k hk)
  | some .Z => simp [bInv, bMat]

/-- `basis_change_conj` at the level of one qubit: H·Z·H = X, RX(π/2)ᴴ·Z·RX(π/2) = Y, Z stays -/
theorem bInv_z_bMat (k : Scal R) (hk : ScalLaws k) (p : P) :
    bInv k (some p) * σz * bMat k (some p) = pauliB k (some p) := by
  match p with
  | .X => rw [pauliB_X]; exact h_conj_z k hk
  | .Y => rw [pauliB_Y]; exact rx_conj_z k hk
  | .Z => rw [pauliB_Z]; simp [bInv, bMat]

variable {C : Type}

/-- ⊗ over the listed qubits of `f (letter of the term at that qubit)`, identity elsewhere -/
def upd (f : Option P → Matrix Bool Bool R) (t : Term C) (e : ℕ → ι) : List ℕ → ι → Matrix Bool Bool R
  | [] => fun _ => 1
  | q :: rest => Function.update (upd f t e rest) (e q) (f (t.opAt q))

theorem upd_not_mem (f : Option P → Matrix Bool Bool R) (t : Term C) (e : ℕ → ι) (qs : List ℕ) (p : ι)
    (hp : p ∉ qs.map e) : upd f t e qs p = 1 := by
  induction qs with
  | nil => rfl
  | cons q rest ih =>
    simp only [List.map_cons, List.mem_cons, not_or] at hp
    simp only [upd]
    rw [Function.update_of_ne hp.1]
    exact ih hp.2

theorem upd_mul (f g : Option P → Matrix Bool Bool R) (t : Term C) (e : ℕ → ι) (qs : List ℕ) (p : ι) :
    upd f t e qs p * upd g t e qs p = upd (fun o => f o * g o) t e qs p := by
  induction qs with
  | nil => simp [upd]
  | cons q rest ih =>
    simp only [upd]
    by_cases hp : p = e q
    · subst hp; simp
    · simp only [Function.update_of_ne hp]; exact ih

theorem upd_congr (f g : Option P → Matrix Bool Bool R) (t : Term C) (e : ℕ → ι) (qs : List ℕ)
    (h : ∀ q ∈ qs, f (t.opAt q) = g (t.opAt q)) : upd f t e qs = upd g t e qs := by
  induction qs with
  | nil => rfl
  | cons q rest ih =>
    simp only [upd]
    rw [ih (fun q' hq' => h q' (List.mem_cons_of_mem _ hq')), h q (List.mem_cons_self)]

theorem upd_one (t : Term C) (e : ℕ → ι) (qs : List ℕ) :
    upd (fun _ => (1 : Matrix Bool Bool R)) t e qs = fun _ => 1 := by
  induction qs with
  | nil => rfl
  | cons q rest ih => simp only [upd]; rw [ih]; funext p; simp [Function.update_apply]

/-- reading `upd` through a labelling of the register -/
theorem upd_apply (f : Option P → Matrix Bool Bool R) (hf : f none = 1) (t : Term C) (e : ℕ → ι) (qs : List ℕ)
    (pa : ι → Option P) (h1 : ∀ q ∈ qs, pa (e q) = t.opAt q) (h2 : ∀ p, p ∉ qs.map e → pa p = none) (p : ι) :
    upd f t e qs p = f (pa p) := by
  by_cases hp : p ∈ qs.map e
  · clear h2
    induction qs with
    | nil => simp at hp
    | cons q rest ih =>
      simp only [upd]
      by_cases hpq : p = e q
      · subst hpq; simp [h1 q (List.mem_cons_self)]
      · rw [Function.update_of_ne hpq]
        apply ih (fun q' hq' => h1 q' (List.mem_cons_of_mem _ hq'))
        simpa [hpq] using hp
  · rw [upd_not_mem f t e qs p hp, h2 p hp, hf]

/-- Z on the listed qubits as a tensor product -/
theorem Zstr_eq_tensor (t : Term C) (e : ℕ → ι) (qs : List ℕ) (hnd : (qs.map e).Nodup) :
    (Zstr (qs.map e) : Matrix (BV ι) (BV ι) R) = tensor (upd (fun _ => σz) t e qs) := by
  induction qs with
  | nil =>
    simp only [upd, List.map_nil]
    rw [tensor_one]; unfold Zstr zfun; simp
  | cons q rest ih =>
    have hq : e q ∉ rest.map e := (List.nodup_cons.mp hnd).1
    simp only [upd]
    rw [tensor_update' _ _ _ (upd_not_mem _ t e rest _ hq), ← ih (List.nodup_cons.mp hnd).2, on1_σz]
    unfold Zstr
    rw [Matrix.diagonal_mul_diagonal]
    congr 1
    funext x
    simp [zfun]

variable {Q : Type} [One Q] [Mul Q] [Div Q] [Neg Q] [NatCast Q] [DecidableEq Q]

theorem gateSem_h (k : Scal R) (ang : T → Ang R) (e : ℕ → ι) (q : ℕ) :
    gateSem k ang e ⟨.H, [q]⟩ = on1 (e q) (toB (Gates.h k)) := by
  unfold gateSem; simp only [gateMatrix, List.map_cons, List.map_nil]; rw [gateOn_single]

theorem gateSem_rx (k : Scal R) (ang : T → Ang R) (e : ℕ → ι) (θ : T) (q : ℕ) :
    gateSem k ang e ⟨.RX θ, [q]⟩ = on1 (e q) (toB (Gates.rx k (ang θ))) := by
  unfold gateSem; simp only [gateMatrix, List.map_cons, List.map_nil]; rw [gateOn_single]

theorem gateSem_rxdg (k : Scal R) (hk : ScalLaws k) (ang : T → Ang R) (e : ℕ → ι) (θ : T) (q : ℕ) :
    gateSem k ang e ⟨.RXdg θ, [q]⟩ = on1 (e q) (toB (Gates.rx k (ang θ)))ᴴ := by
  unfold gateSem; simp only [gateMatrix, List.map_cons, List.map_nil]; rw [gateOn_single, toB_adjoint2 k hk]

/-- the basis-change circuit is the tensor product of the per-qubit basis changes -/
theorem basis_sem (k : Scal R) (alg : TimeAlg Q T) (ang : T → Ang R)
    (hpi : ang (alg.smul (1 / ((2 : Nat) : Q)) alg.pi) = ⟨k.r, k.r⟩)
    (e : ℕ → ι) (t : Term (Q × Q)) (qs : List ℕ) (hnd : (qs.map e).Nodup) :
    circSem k ang e (basisChange alg t qs) = tensor (upd (bMat k) t e qs) := by
  induction qs with
  | nil => simp [basisChange, upd, tensor_one]
  | cons q rest ih =>
    have hq : e q ∉ rest.map e := (List.nodup_cons.mp hnd).1
    have ih' := ih (List.nodup_cons.mp hnd).2
    have h1 := upd_not_mem (bMat k) t e rest _ hq
    simp only [upd, basisChange]
    rcases h : t.opAt q with _ | p
    · simp only [bMat]
      rw [Function.update_eq_self_iff.mpr h1.symm]; exact ih'
    · cases p
      · simp only [circSem_cons, gateSem_h, ih', bMat]
        rw [tensor_update _ _ _ h1]
      · simp only [circSem_cons, gateSem_rx, ih', bMat, hpi]
        rw [tensor_update _ _ _ h1]
      · simp only [bMat]
        rw [Function.update_eq_self_iff.mpr h1.symm]; exact ih'

theorem basis_inv_sem (k : Scal R) (hk : ScalLaws k) (alg : TimeAlg Q T) (ang : T → Ang R)
    (hpi : ang (alg.smul (1 / ((2 : Nat) : Q)) alg.pi) = ⟨k.r, k.r⟩)
    (e : ℕ → ι) (t : Term (Q × Q)) (qs : List ℕ) (hnd : (qs.map e).Nodup) :
    circSem k ang e (inverse (basisChange alg t qs)) = tensor (upd (bInv k) t e qs) := by
  induction qs with
  | nil => simp [basisChange, upd, tensor_one]
  | cons q rest ih =>
    have hq : e q ∉ rest.map e := (List.nodup_cons.mp hnd).1
    have ih' := ih (List.nodup_cons.mp hnd).2
    have h1 := upd_not_mem (bInv k) t e rest _ hq
    simp only [upd, basisChange]
    rcases h : t.opAt q with _ | p
    · simp only [bInv]
      rw [Function.update_eq_self_iff.mpr h1.symm]; exact ih'
    · cases p
      · simp only [inverse_cons, circSem_append, circSem_cons, circSem_nil, Matrix.one_mul, GateK.dagger,
          gateSem_h, ih', bInv]
        rw [tensor_update' _ _ _ h1]
      · simp only [inverse_cons, circSem_append, circSem_cons, circSem_nil, Matrix.one_mul, GateK.dagger,
          gateSem_rxdg k hk, ih', bInv, hpi]
        rw [tensor_update' _ _ _ h1]
      · simp only [bInv]
        rw [Function.update_eq_self_iff.mpr h1.symm]; exact ih'


/-- the Pauli string ⊗_p σ(pa p) on the register ι (Kronecker definition on the bit-assignment basis) -/
def pauliString (k : Scal R) (pa : ι → Option P) : Matrix (BV ι) (BV ι) R := tensor (fun p => pauliB k (pa p))

theorem insertNat_perm (a : ℕ) (l : List ℕ) : (insertNat a l).Perm (a :: l) := by
  induction l with
  | nil => simp [insertNat]
  | cons b l ih =>
    simp only [insertNat]
    split_ifs
    · exact List.Perm.refl _
    · exact (List.Perm.cons b ih).trans (List.Perm.swap a b l)

theorem sortNat_perm (l : List ℕ) : (sortNat l).Perm l := by
  induction l with
  | nil => simp [sortNat]
  | cons a l ih => exact (insertNat_perm a _).trans (List.Perm.cons a ih)

theorem sortedQubits_perm {C : Type} (t : Term C) : (sortedQubits t).Perm (t.ops.map (·.1)) :=
  sortNat_perm _

theorem opAt_ne_none {C : Type} (t : Term C) (q : ℕ) (hq : q ∈ t.ops.map (·.1)) : t.opAt q ≠ none := by
  unfold Term.opAt
  simp only [ne_eq, Option.map_eq_none_iff, List.find?_eq_none, not_forall]
  obtain ⟨p, hp, rfl⟩ := List.mem_map.mp hq
  exact ⟨p, hp, by simp⟩

theorem opAt_eq_none {C : Type} (t : Term C) (q : ℕ) (hq : q ∉ t.ops.map (·.1)) : t.opAt q = none := by
  unfold Term.opAt
  simp only [Option.map_eq_none_iff, List.find?_eq_none]
  intro p hp h
  apply hq
  have : p.1 = q := by simpa using h
  exact this ▸ List.mem_map_of_mem hp

/-- what `time_evolution_for_term` returns for a non-constant accepted term -/
theorem evolutionForTerm_ok (alg : TimeAlg Q T) (negl : Q → Bool) (t : Term (Q × Q)) (time : T) (c : Circ T)
    (hne : t.ops ≠ []) (hc : evolutionForTerm alg negl t time = .ok c) :
    negl t.coeff.2 = true ∧ ∃ last, (sortedQubits t).getLast? = some last ∧
      c = basisChange alg t (sortedQubits t) ++
          ((ladder (sortedQubits t) : Circ T) ++
            [⟨.RZ (alg.smul t.coeff.1 (alg.smul ((2 : Nat) : Q) time)), [last]⟩] ++ inverse (ladder (sortedQubits t))) ++
          inverse (basisChange alg t (sortedQubits t)) := by
  unfold evolutionForTerm at hc
  have h0 : t.ops.isEmpty = false := by simpa using hne
  simp only [h0, Bool.false_eq_true, if_false] at hc
  by_cases hn : negl t.coeff.2 = true
  · simp only [hn, Bool.not_true, Bool.false_eq_true, if_false] at hc
    refine ⟨hn, ?_⟩
    rcases hl : (sortedQubits t).getLast? with _ | last
    · exfalso
      have : sortedQubits t = [] := by simpa using hl
      have hp := sortedQubits_perm t
      rw [this] at hp
      have := hp.symm.eq_nil
      simp at this; exact hne this
    · rw [hl] at hc
      simp only [Except.ok.injEq] at hc
      exact ⟨last, rfl, hc.symm⟩
  · simp [hn] at hc


/-- a register: the qubit numbered `m` by the code is `e m`; `lab` reads the number back -/
structure Register (ι : Type) where
  lab : ι → ℕ
  e : ℕ → ι
  lab_inj : Function.Injective lab

/-- the term only addresses qubits of the register -/
def Register.Covers (rg : Register ι) {C : Type} (t : Term C) : Prop := ∀ q ∈ t.ops.map (·.1), rg.lab (rg.e q) = q

theorem Register.nodup_map (rg : Register ι) {C : Type} (t : Term C) (hcov : rg.Covers t) (qs : List ℕ)
    (hsub : ∀ q ∈ qs, q ∈ t.ops.map (·.1)) (hnd : qs.Nodup) : (qs.map rg.e).Nodup := by
  apply List.Nodup.map_on _ hnd
  intro a ha b hb hab
  rw [← hcov a (hsub a ha), ← hcov b (hsub b hb), hab]

/-- basis change ∘ Z-rotation ∘ inverse basis change  =  cos·1 − i sin·P -/
theorem conj_sem (k : Scal R) (hk : ScalLaws k) (alg : TimeAlg Q T) (ang : T → Ang R)
    (hpi : ang (alg.smul (1 / ((2 : Nat) : Q)) alg.pi) = ⟨k.r, k.r⟩)
    (rg : Register ι) (t : Term (Q × Q)) (hcov : rg.Covers t) (hnd : (t.ops.map (·.1)).Nodup)
    (qs : List ℕ) (hperm : qs.Perm (t.ops.map (·.1))) (last : ℕ) (hl : qs.getLast? = some last) (θ : T) :
    circSem k ang rg.e (basisChange alg t qs ++ ((ladder qs : Circ T) ++ [⟨.RZ θ, [last]⟩] ++ inverse (ladder qs))
        ++ inverse (basisChange alg t qs))
      = (ang θ).ch • (1 : Matrix (BV ι) (BV ι) R)
        - (k.i * (ang θ).sh) • pauliString k (fun p => t.opAt (rg.lab p)) := by
  have hmem : ∀ q ∈ qs, q ∈ t.ops.map (·.1) := fun q hq => hperm.mem_iff.mp hq
  have hnd' : (qs.map rg.e).Nodup := rg.nodup_map t hcov qs hmem (hperm.nodup_iff.mpr hnd)
  rw [circSem_append, circSem_append, zrot_sem k ang rg.e qs hnd' last hl θ,
    basis_sem k alg ang hpi rg.e t qs hnd', basis_inv_sem k hk alg ang hpi rg.e t qs hnd',
    Zstr_eq_tensor t rg.e qs hnd']
  rw [Matrix.sub_mul, Matrix.mul_sub, Matrix.smul_mul, Matrix.smul_mul, Matrix.mul_smul, Matrix.mul_smul,
    Matrix.one_mul, tensor_mul, tensor_mul, tensor_mul]
  have e1 : (fun p => upd (bInv k) t rg.e qs p * upd (bMat k) t rg.e qs p) = fun _ => (1 : Matrix Bool Bool R) := by
    funext p
    rw [upd_mul]
    have : (fun o => bInv k o * bMat k o) = fun _ => (1 : Matrix Bool Bool R) := by
      funext o; exact bInv_mul_bMat k hk o
    rw [this, upd_one]
  have e2 : (fun p => upd (bInv k) t rg.e qs p * (upd (fun _ => σz) t rg.e qs p * upd (bMat k) t rg.e qs p))
      = fun p => pauliB k (t.opAt (rg.lab p)) := by
    funext p
    rw [← mul_assoc, upd_mul, upd_mul]
    rw [upd_congr _ (pauliB k) t rg.e qs]
    · apply upd_apply (pauliB k) (pauliB_none k) t rg.e qs (fun p => t.opAt (rg.lab p))
      · intro q hq; show t.opAt (rg.lab (rg.e q)) = t.opAt q; rw [hcov q (hmem q hq)]
      · intro p' hp'
        by_contra hne
        have hin : rg.lab p' ∈ t.ops.map (·.1) := by
          by_contra hnot; exact hne (opAt_eq_none t _ hnot)
        apply hp'
        have : rg.e (rg.lab p') = p' := rg.lab_inj (hcov _ hin)
        rw [← this]
        exact List.mem_map_of_mem (hperm.mem_iff.mpr hin)
    · intro q hq
      rcases h : t.opAt q with _ | p0
      · exact absurd h (opAt_ne_none t q (hmem q hq))
      · exact bInv_z_bMat k hk p0
  rw [e1, e2, tensor_one]
  rfl


theorem bind2_ok {ε α β γ : Type} (x : Except ε α) (y : Except ε β) (f : α → β → γ) (c : γ) :
    (x >>= fun a => y >>= fun b => pure (f a b)) = Except.ok c ↔ ∃ a b, x = .ok a ∧ y = .ok b ∧ f a b = c := by
  cases x <;> cases y <;> simp [bind, Except.bind, pure, Except.pure]

theorem stepCircuit_cons (alg : TimeAlg Q T) (negl : Q → Bool) (time : T) (t : Term (Q × Q)) (ts : PSum (Q × Q)) :
    stepCircuit alg negl time (t :: ts) =
      (evolutionForTerm alg negl t time >>= fun a => stepCircuit alg negl time ts >>= fun b => pure (a ++ b)) := rfl

theorem stepCircuit_ok (alg : TimeAlg Q T) (negl : Q → Bool) (time : T) (h : PSum (Q × Q)) (c : Circ T) :
    stepCircuit alg negl time h = .ok c ↔
      ∃ cs, List.Forall₂ (fun t ct => evolutionForTerm alg negl t time = .ok ct) h cs ∧ c = cs.flatten := by
  induction h generalizing c with
  | nil =>
    simp only [stepCircuit, Except.ok.injEq, List.forall₂_nil_left_iff, exists_eq_left, List.flatten_nil]
    exact eq_comm
  | cons t ts ih =>
    rw [stepCircuit_cons, bind2_ok]
    constructor
    · rintro ⟨a, b, ha, hb, rfl⟩
      obtain ⟨cs, hcs, rfl⟩ := (ih b).mp hb
      exact ⟨a :: cs, List.Forall₂.cons ha hcs, by simp⟩
    · rintro ⟨cs, hf, rfl⟩
      cases hf with
      | cons ha hb => exact ⟨_, _, ha, (ih _).mpr ⟨_, hb, rfl⟩, by simp⟩

theorem repeatStep_succ (step : Except Err (Circ T)) (n : ℕ) :
    repeatStep step (n + 1) = (step >>= fun a => repeatStep step n >>= fun b => pure (a ++ b)) := rfl

theorem repeatStep_ok (step : Except Err (Circ T)) (n : ℕ) (c : Circ T) :
    repeatStep step n = .ok c ↔ (n = 0 ∧ c = []) ∨ (0 < n ∧ ∃ s, step = .ok s ∧ c = (List.replicate n s).flatten) := by
  induction n generalizing c with
  | zero => simp [repeatStep, eq_comm]
  | succ n ih =>
    rw [repeatStep_succ, bind2_ok]
    constructor
    · rintro ⟨a, b, ha, hb, rfl⟩
      refine Or.inr ⟨by omega, a, ha, ?_⟩
      rcases (ih b).mp hb with ⟨rfl, rfl⟩ | ⟨_, s', hs', rfl⟩
      · simp
      · rw [ha] at hs'; cases hs'; simp [List.replicate_succ]
    · rintro (⟨h0, _⟩ | ⟨_, s, hs, rfl⟩)
      · omega
      · refine ⟨s, (List.replicate n s).flatten, hs, ?_, by simp [List.replicate_succ]⟩
        apply (ih _).mpr
        cases n with
        | zero => left; simp
        | succ n' => right; exact ⟨by omega, s, hs, rfl⟩

theorem circSem_flatten (k : Scal R) (ang : T → Ang R) (e : ℕ → ι) (cs : List (Circ T)) :
    circSem k ang e cs.flatten = (cs.reverse.map (circSem k ang e)).prod := by
  induction cs with
  | nil => simp
  | cons c cs ih => simp [circSem_append, ih]

theorem circSem_replicate (k : Scal R) (ang : T → Ang R) (e : ℕ → ι) (s : Circ T) (n : ℕ) :
    circSem k ang e (List.replicate n s).flatten = (circSem k ang e s) ^ n := by
  induction n with
  | zero => simp
  | succ n ih => simp [List.replicate_succ, circSem_append, ih, pow_succ]


/-- the register of qubits 0 … n, numbered as the code numbers them -/
def Register.fin (n : ℕ) : Register (Fin (n + 1)) :=
  ⟨fun p => p.val, fun q => Fin.ofNat (n + 1) q, Fin.val_injective⟩

theorem Register.fin_covers (n : ℕ) {C : Type} (t : Term C) (h : ∀ q ∈ t.ops.map (·.1), q ≤ n) :
    (Register.fin n).Covers t := by
  intro q hq
  simp only [Register.fin, Fin.ofNat, Nat.mod_eq_of_lt (Nat.lt_succ_of_le (h q hq))]

theorem term_sem (k : Scal R) (hk : ScalLaws k) (alg : TimeAlg Q T) (negl : Q → Bool) (ang : T → Ang R)
    (hpi : ang (alg.smul (1 / ((2 : Nat) : Q)) alg.pi) = ⟨k.r, k.r⟩)
    (rg : Register ι) (t : Term (Q × Q)) (hcov : rg.Covers t) (hnd : (t.ops.map (·.1)).Nodup) (hne : t.ops ≠ [])
    (time : T) (c : Circ T) (hc : evolutionForTerm alg negl t time = .ok c) :
    circSem k ang rg.e c
      = (ang (alg.smul t.coeff.1 (alg.smul ((2 : Nat) : Q) time))).ch • (1 : Matrix (BV ι) (BV ι) R)
        - (k.i * (ang (alg.smul t.coeff.1 (alg.smul ((2 : Nat) : Q) time))).sh)
            • pauliString k (fun p => t.opAt (rg.lab p)) := by
  obtain ⟨_, last, hl, rfl⟩ := evolutionForTerm_ok alg negl t time c hne hc
  exact conj_sem k hk alg ang hpi rg t hcov hnd _ (sortedQubits_perm t) last hl _

theorem basis_conj_lifted (k : Scal R) (hk : ScalLaws k) (alg : TimeAlg Q T) (ang : T → Ang R)
    (hpi : ang (alg.smul (1 / ((2 : Nat) : Q)) alg.pi) = ⟨k.r, k.r⟩)
    (rg : Register ι) (t : Term (Q × Q)) (hcov : rg.Covers t) (hnd : (t.ops.map (·.1)).Nodup) :
    let qs := sortedQubits t
    circSem k ang rg.e (inverse (basisChange alg t qs)) * Zstr (qs.map rg.e) * circSem k ang rg.e (basisChange alg t qs)
      = pauliString k (fun p => t.opAt (rg.lab p)) ∧
    circSem k ang rg.e (inverse (basisChange alg t qs)) * circSem k ang rg.e (basisChange alg t qs) = 1 := by
  intro qs
  have hperm : qs.Perm (t.ops.map (·.1)) := sortedQubits_perm t
  have hmem : ∀ q ∈ qs, q ∈ t.ops.map (·.1) := fun q hq => hperm.mem_iff.mp hq
  have hnd' : (qs.map rg.e).Nodup := rg.nodup_map t hcov qs hmem (hperm.nodup_iff.mpr hnd)
  rw [basis_sem k alg ang hpi rg.e t qs hnd', basis_inv_sem k hk alg ang hpi rg.e t qs hnd',
    Zstr_eq_tensor t rg.e qs hnd', tensor_mul, tensor_mul, tensor_mul]
  constructor
  · unfold pauliString
    congr 1
    funext p
    rw [upd_mul, upd_mul, upd_congr _ (pauliB k) t rg.e qs]
    · apply upd_apply (pauliB k) (pauliB_none k) t rg.e qs (fun p => t.opAt (rg.lab p))
      · intro q hq; show t.opAt (rg.lab (rg.e q)) = t.opAt q; rw [hcov q (hmem q hq)]
      · intro p' hp'
        by_contra hne
        have hin : rg.lab p' ∈ t.ops.map (·.1) := by
          by_contra hnot; exact hne (opAt_eq_none t _ hnot)
        apply hp'
        have : rg.e (rg.lab p') = p' := rg.lab_inj (hcov _ hin)
        rw [← this]
        exact List.mem_map_of_mem (hperm.mem_iff.mpr hin)
    · intro q hq
      rcases h : t.opAt q with _ | p0
      · exact absurd h (opAt_ne_none t q (hmem q hq))
      · exact bInv_z_bMat k hk p0
  · have : (fun p => upd (bInv k) t rg.e qs p * upd (bMat k) t rg.e qs p) = fun _ => (1 : Matrix Bool Bool R) := by
      funext p
      rw [upd_mul]
      have : (fun o => bInv k o * bMat k o) = fun _ => (1 : Matrix Bool Bool R) := by
        funext o; exact bInv_mul_bMat k hk o
      rw [this, upd_one]
    rw [this, tensor_one]

theorem timeEvolution_ok (k : Scal R) (alg : TimeAlg Q T) (negl : Q → Bool) (ang : T → Ang R) (e : ℕ → ι)
    (h : PSum (Q × Q)) (time : T) (n : ℕ) (hn : 1 ≤ n) (c : Circ T) :
    timeEvolution alg negl h time n = .ok c ↔
      ∃ cs : List (Circ T),
        List.Forall₂ (fun t ct => evolutionForTerm alg negl t (alg.smul (1 / (n : Q)) time) = .ok ct) h cs ∧
        c = (List.replicate n cs.flatten).flatten ∧
        circSem k ang e c = ((cs.reverse.map (circSem k ang e)).prod) ^ n := by
  unfold timeEvolution
  rw [repeatStep_ok]
  constructor
  · rintro (⟨h0, _⟩ | ⟨_, s, hs, rfl⟩)
    · omega
    · obtain ⟨cs, hcs, rfl⟩ := (stepCircuit_ok alg negl _ h s).mp hs
      exact ⟨cs, hcs, rfl, by rw [circSem_replicate, circSem_flatten]⟩
  · rintro ⟨cs, hcs, rfl, _⟩
    exact Or.inr ⟨by omega, cs.flatten, (stepCircuit_ok alg negl _ h _).mpr ⟨cs, hcs, rfl⟩, rfl⟩

theorem flatMap_const_of_ne (rep diff : Circ T) (pos : ℕ) (l : List ℕ) (hl : ∀ i ∈ l, i ≠ pos) :
    l.flatMap (fun i => if i ≠ pos then rep else diff) = (List.replicate l.length rep).flatten := by
  induction l with
  | nil => rfl
  | cons a l ih =>
    simp only [List.flatMap_cons, List.length_cons, List.replicate_succ, List.flatten_cons]
    rw [if_pos (hl a List.mem_cons_self), ih (fun i hi => hl i (List.mem_cons_of_mem _ hi))]

theorem generateCircuitSequence_ok (rep diff : Circ T) (len pos : ℕ) (h : pos < len) :
    generateCircuitSequence rep diff len pos
      = .ok ((List.replicate pos rep).flatten ++ diff ++ (List.replicate (len - pos - 1) rep).flatten) := by
  unfold generateCircuitSequence
  rw [if_neg (by omega)]
  congr 1
  have hr : List.range len = List.range' 0 pos ++ pos :: List.range' (pos + 1) (len - pos - 1) := by
    rw [List.range_eq_range']
    have : len = pos + (1 + (len - pos - 1)) := by omega
    conv_lhs => rw [this]
    rw [← List.range'_append_1, ← List.range'_append_1]
    simp
  rw [hr, List.flatMap_append, List.flatMap_cons]
  rw [flatMap_const_of_ne rep diff pos _ (by intro i hi; have := List.mem_range'_1.mp hi; omega)]
  rw [flatMap_const_of_ne rep diff pos _ (by intro i hi; have := List.mem_range'_1.mp hi; omega)]
  simp


end OQ.C16
