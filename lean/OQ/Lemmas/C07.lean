/-
  C07 — helper lemmas: structure of the modifier methods (shape invariant `Canon`, commutation with
  re-parameterisation), bridges of the executable matrix operations to Mathlib (`blockDiag`, adjoint, powers).
-/
import OQ.Model.C07
import OQ.Lemmas.Bridge
import Mathlib.Data.Matrix.Block
import Mathlib.LinearAlgebra.Matrix.Reindex
import Mathlib.LinearAlgebra.Matrix.ConjTranspose
import Mathlib.Logic.Equiv.Fin.Basic
import Mathlib.Tactic.Ring
import Mathlib.Tactic.Linarith
namespace OQ.C07
namespace Gate
variable {P R : Type}

@[simp] theorem numQubits_powerM (g : Gate P R) (e : Rat) : (g.powerM e).numQubits = g.numQubits := by
  induction g with
  | controlled g k ih => simp [powerM, numQubits, ih]
  | _ => simp [powerM, numQubits]

@[simp] theorem params_powerM (g : Gate P R) (e : Rat) : (g.powerM e).params = g.params := by
  induction g with
  | controlled g k ih => simp [powerM, params, ih]
  | _ => simp [powerM, params]

@[simp] theorem numQubits_expM (g : Gate P R) : g.expM.numQubits = g.numQubits := rfl
@[simp] theorem params_expM (g : Gate P R) : g.expM.params = g.params := rfl

@[simp] theorem numQubits_daggerM (g : Gate P R) : g.daggerM.numQubits = g.numQubits := by
  induction g with
  | base b => simp only [daggerM]; split <;> simp [numQubits]
  | controlled g k ih => simp [daggerM, numQubits, ih]
  | dagger g ih => simp [daggerM, numQubits]
  | power g e ih => simp [daggerM, numQubits, ih]
  | exponential g ih => simp [daggerM, numQubits, ih]

@[simp] theorem params_daggerM (g : Gate P R) : g.daggerM.params = g.params := by
  induction g with
  | base b => simp only [daggerM]; split <;> simp [params]
  | controlled g k ih => simp [daggerM, params, ih]
  | dagger g ih => simp [daggerM, params]
  | power g e ih => simp [daggerM, params, ih]
  | exponential g ih => simp [daggerM, params, ih]

@[simp] theorem numQubits_ctlP (g : Gate P R) (m : Nat) : (g.ctlP m).numQubits = g.numQubits + (m + 1) := by
  induction g with
  | base b => simp [ctlP, numQubits]
  | controlled g k ih => simp [ctlP, numQubits]; omega
  | dagger g ih => simp [ctlP, numQubits, ih]
  | power g e ih => simp [ctlP, numQubits, ih]
  | exponential g ih => simp [ctlP, numQubits]

@[simp] theorem params_ctlP (g : Gate P R) (m : Nat) : (g.ctlP m).params = g.params := by
  induction g with
  | base b => simp [ctlP, params]
  | controlled g k ih => simp [ctlP, params]
  | dagger g ih => simp [ctlP, params, ih]
  | power g e ih => simp [ctlP, params, ih]
  | exponential g ih => simp [ctlP, params]

/-- for a valid count the checked method is the unchecked one -/
theorem ctlI_pos (g : Gate P R) (n : Int) (hn : 1 ≤ n) : g.ctlI n = .ok (g.ctlP (n - 1).toNat) := by
  induction g with
  | base b => simp [ctlI, ctlP, mkControlled]; omega
  | controlled g k ih =>
    simp only [ctlI, ctlP, mkControlled]
    rw [if_neg (by omega)]
    congr 2; omega
  | dagger g ih => simp [ctlI, ctlP, ih, Except.map]
  | power g e ih => simp [ctlI, ctlP, ih, Except.map]
  | exponential g ih => simp [ctlI, ctlP, mkControlled]; omega

/-- a count below one on a gate that is not already controlled raises ValueError -/
theorem ctlI_nonpos_base (b : Base P R) (n : Int) (hn : n < 1) : (base b).ctlI n = .error .value := by
  simp [ctlI, mkControlled, hn]

/-- is the object a `ControlledGate`? -/
def isCtl : Gate P R → Bool
  | controlled _ _ => true
  | _ => false

/-- Shape invariant of every object the modifier METHODS can build:
    `Dagger` only ever wraps a `MatrixFactoryGate` that is not flagged hermitian (l.226 is its only construction site),
    `Power` never directly wraps a `ControlledGate` (l.317 pushes the power inside),
    `ControlledGate` never directly wraps a `ControlledGate` (l.300 adds the counts). -/
def Canon : Gate P R → Prop
  | base _ => True
  | controlled g _ => Canon g ∧ g.isCtl = false
  | dagger g => ∃ b, g = base b ∧ b.hermitian = false
  | power g _ => Canon g ∧ g.isCtl = false
  | exponential g => Canon g

theorem powerM_of_not_ctl (g : Gate P R) (e : Rat) (h : g.isCtl = false) : g.powerM e = power g e := by
  cases g <;> simp_all [powerM, isCtl]

theorem canon_powerM (g : Gate P R) (e : Rat) (h : Canon g) : Canon (g.powerM e) := by
  cases g with
  | controlled y k =>
    obtain ⟨hy, hc⟩ := h
    simp only [powerM, powerM_of_not_ctl y e hc]
    exact ⟨⟨hy, hc⟩, rfl⟩
  | base b => exact ⟨h, rfl⟩
  | dagger y => exact ⟨h, rfl⟩
  | power y e' => exact ⟨h, rfl⟩
  | exponential y => exact ⟨h, rfl⟩

theorem isCtl_powerM (g : Gate P R) (e : Rat) : (g.powerM e).isCtl = g.isCtl := by
  cases g <;> simp [powerM, isCtl]

theorem canon_daggerM (g : Gate P R) (h : Canon g) : Canon g.daggerM ∧ g.daggerM.isCtl = g.isCtl := by
  induction g with
  | base b =>
    simp only [daggerM]
    split
    · exact ⟨trivial, rfl⟩
    · rename_i hb; exact ⟨⟨b, rfl, by simpa using hb⟩, rfl⟩
  | controlled y k ih =>
    obtain ⟨hy, hc⟩ := h
    obtain ⟨h1, h2⟩ := ih hy
    exact ⟨⟨h1, by rw [h2, hc]⟩, rfl⟩
  | dagger y ih =>
    obtain ⟨b, rfl, hb⟩ := h
    exact ⟨trivial, rfl⟩
  | power y e ih =>
    obtain ⟨hy, hc⟩ := h
    obtain ⟨h1, h2⟩ := ih hy
    refine ⟨canon_powerM _ e h1, ?_⟩
    simp only [daggerM]
    rw [isCtl_powerM, h2, hc]; rfl
  | exponential y ih =>
    exact ⟨(ih h).1, rfl⟩

/-- on method-built objects `.controlled(m+1)` wraps, merging with an existing `ControlledGate` -/
theorem ctlP_of_not_ctl (g : Gate P R) (m : Nat) (h : Canon g) (hc : g.isCtl = false) :
    g.ctlP m = controlled g m := by
  induction g with
  | base b => rfl
  | controlled y k ih => simp [isCtl] at hc
  | dagger y ih =>
    obtain ⟨b, rfl, hb⟩ := h
    simp [ctlP, daggerM, hb]
  | power y e ih =>
    obtain ⟨hy, hcy⟩ := h
    simp only [ctlP]
    rw [ih hy hcy, powerM, powerM_of_not_ctl y e hcy]
  | exponential y ih => rfl

theorem canon_ctlP (g : Gate P R) (m : Nat) (h : Canon g) : Canon (g.ctlP m) := by
  cases hg : g.isCtl with
  | false => rw [ctlP_of_not_ctl g m h hg]; exact ⟨h, hg⟩
  | true =>
    cases g with
    | controlled y k => exact h
    | _ => simp [isCtl] at hg

/-- structural re-parameterisation: the same wrappers around the base gate with new `params` -/
def mapParams : Gate P R → List P → Gate P R
  | base b, ps => base { b with params := ps }
  | controlled g k, ps => controlled (mapParams g ps) k
  | dagger g, ps => dagger (mapParams g ps)
  | power g e, ps => power (mapParams g ps) e
  | exponential g, ps => exponential (mapParams g ps)

theorem isCtl_mapParams (g : Gate P R) (ps : List P) : (g.mapParams ps).isCtl = g.isCtl := by
  cases g <;> rfl

theorem canon_mapParams (g : Gate P R) (ps : List P) (h : Canon g) : Canon (g.mapParams ps) := by
  induction g with
  | base b => trivial
  | controlled y k ih => exact ⟨ih h.1, by rw [isCtl_mapParams]; exact h.2⟩
  | dagger y ih =>
    obtain ⟨b, rfl, hb⟩ := h
    exact ⟨{ b with params := ps }, rfl, hb⟩
  | power y e ih => exact ⟨ih h.1, by rw [isCtl_mapParams]; exact h.2⟩
  | exponential y ih => exact ih h

theorem mapParams_powerM (g : Gate P R) (e : Rat) (ps : List P) :
    (g.powerM e).mapParams ps = (g.mapParams ps).powerM e := by
  induction g with
  | controlled y k ih => simp [powerM, mapParams, ih]
  | _ => simp [powerM, mapParams]

theorem mapParams_daggerM (g : Gate P R) (ps : List P) :
    g.daggerM.mapParams ps = (g.mapParams ps).daggerM := by
  induction g with
  | base b => simp only [daggerM, mapParams]; split <;> simp [mapParams]
  | controlled y k ih => simp [daggerM, mapParams, ih]
  | dagger y ih => simp [daggerM, mapParams]
  | power y e ih => simp [daggerM, mapParams, mapParams_powerM, ih]
  | exponential y ih => simp [daggerM, mapParams, expM, ih]

theorem mapParams_ctlP (g : Gate P R) (m : Nat) (ps : List P) :
    (g.ctlP m).mapParams ps = (g.mapParams ps).ctlP m := by
  induction g with
  | base b => simp [ctlP, mapParams]
  | controlled y k ih => simp [ctlP, mapParams]
  | dagger y ih => simp [ctlP, mapParams, mapParams_daggerM, ih]
  | power y e ih => simp [ctlP, mapParams, mapParams_powerM, ih]
  | exponential y ih => simp [ctlP, mapParams]

/-- on method-built objects `replace_params` is the structural re-parameterisation -/
theorem replaceParams_eq_mapParams (g : Gate P R) (ps : List P) (h : Canon g) :
    g.replaceParams ps = g.mapParams ps := by
  induction g with
  | base b => rfl
  | controlled y k ih =>
    simp only [replaceParams, mapParams, ih h.1]
    exact ctlP_of_not_ctl _ k (canon_mapParams y ps h.1) (by rw [isCtl_mapParams]; exact h.2)
  | dagger y ih =>
    obtain ⟨b, rfl, hb⟩ := h
    simp [replaceParams, mapParams, daggerM, hb]
  | power y e ih =>
    simp only [replaceParams, mapParams, ih h.1]
    exact powerM_of_not_ctl _ e (by rw [isCtl_mapParams]; exact h.2)
  | exponential y ih => simp [replaceParams, mapParams, expM, ih h]

end Gate

open Matrix
variable {R : Type}

/-- specification of `diag(eye(d0), A)` -/
def blockDiag [Zero R] [One R] (d0 : Nat) {d : Nat} (A : Matrix (Fin d) (Fin d) R) :
    Matrix (Fin (d0 + d)) (Fin (d0 + d)) R :=
  Matrix.reindex finSumFinEquiv finSumFinEquiv (Matrix.fromBlocks 1 0 0 A)

theorem blockDiag_mul [CommRing R] (d0 : Nat) {d : Nat} (A B : Matrix (Fin d) (Fin d) R) :
    blockDiag d0 (A * B) = blockDiag d0 A * blockDiag d0 B := by
  unfold blockDiag
  rw [Matrix.reindex_apply, Matrix.reindex_apply, Matrix.reindex_apply, Matrix.submatrix_mul_equiv,
    Matrix.fromBlocks_multiply]
  simp

theorem blockDiag_one [CommRing R] (d0 d : Nat) :
    blockDiag d0 (1 : Matrix (Fin d) (Fin d) R) = 1 := by
  unfold blockDiag
  rw [Matrix.fromBlocks_one]
  simp

theorem blockDiag_pow [CommRing R] (d0 : Nat) {d : Nat} (A : Matrix (Fin d) (Fin d) R) (n : Nat) :
    blockDiag d0 (A ^ n) = blockDiag d0 A ^ n := by
  induction n with
  | zero => simp [blockDiag_one]
  | succ n ih => rw [pow_succ, pow_succ, blockDiag_mul, ih]

theorem blockDiag_conjTranspose [CommRing R] [StarRing R] (d0 : Nat) {d : Nat} (A : Matrix (Fin d) (Fin d) R) :
    blockDiag d0 Aᴴ = (blockDiag d0 A)ᴴ := by
  unfold blockDiag
  rw [Matrix.reindex_apply, Matrix.reindex_apply, Matrix.conjTranspose_submatrix, Matrix.fromBlocks_conjTranspose]
  simp

/-- entries: identity on the first `d0` basis states, then `A` -/
theorem blockDiag_apply [Zero R] [One R] (d0 : Nat) {d : Nat} (A : Matrix (Fin d) (Fin d) R) (i j : Fin (d0 + d)) :
    blockDiag d0 A i j =
      if h : i.val < d0 ∧ j.val < d0 then (if i = j then 1 else 0)
      else if h' : d0 ≤ i.val ∧ d0 ≤ j.val then A ⟨i.val - d0, by omega⟩ ⟨j.val - d0, by omega⟩
      else 0 := by
  obtain ⟨si, rfl⟩ := finSumFinEquiv.surjective i
  obtain ⟨sj, rfl⟩ := finSumFinEquiv.surjective j
  unfold blockDiag
  cases si with
  | inl a =>
    cases sj with
    | inl b =>
      have ha := a.2; have hb := b.2
      simp [Matrix.one_apply, Fin.ext_iff, ha, hb]
    | inr b =>
      have ha := a.2
      simp [ha]
  | inr a =>
    cases sj with
    | inl b =>
      have hb := b.2
      simp [hb]
    | inr b =>
      simp

theorem bind_eq_ok {ε α β : Type} (x : Except ε α) (f : α → Except ε β) (b : β) :
    x.bind f = .ok b ↔ ∃ a, x = .ok a ∧ f a = .ok b := by
  cases x <;> simp [Except.bind]

theorem toM_ctlMatrix [Zero R] [One R] [Add R] [Mul R] (d0 d : Nat) (M : Mat R) (hr : M.r = d) (hc : M.c = d) :
    Mat.toM (d0 + d) (d0 + d) (ctlMatrix d0 M) = blockDiag d0 (Mat.toM d d M) := by
  subst hr
  funext i j
  rw [blockDiag_apply]
  simp only [Mat.toM, ctlMatrix]
  rw [hc, Mat.get_ofFn _ _ _ _ _ i.2 j.2]
  by_cases h1 : i.val < d0 ∧ j.val < d0
  · simp [h1, Fin.ext_iff]
  · rw [if_neg h1, dif_neg h1]
    by_cases h2 : d0 ≤ i.val ∧ d0 ≤ j.val
    · rw [if_pos h2, dif_pos h2]
    · rw [if_neg h2, dif_neg h2]

theorem ctlMatrix_r [Zero R] [One R] (d0 : Nat) (M : Mat R) : (ctlMatrix d0 M).r = d0 + M.r := rfl
theorem ctlMatrix_c [Zero R] [One R] (d0 : Nat) (M : Mat R) : (ctlMatrix d0 M).c = d0 + M.c := rfl

theorem toM_adjointWith [Zero R] [Star R] (M : Mat R) :
    Mat.toM M.c M.r (adjointWith star M) = (Mat.toM M.r M.c M)ᴴ := by
  funext i j
  simp only [Mat.toM, adjointWith, Matrix.conjTranspose_apply]
  rw [Mat.get_ofFn _ _ _ _ _ i.2 j.2]

theorem npow_r [Zero R] [One R] [Add R] [Mul R] (M : Mat R) (n : Nat) : (npow M n).r = M.r := by
  cases n <;> rfl

theorem npow_c [Zero R] [One R] [Add R] [Mul R] (M : Mat R) (n : Nat) (h : M.c = M.r) : (npow M n).c = M.r := by
  induction n with
  | zero => rfl
  | succ n ih => simp [npow, Mat.mul, ih]

theorem toM_npow [Semiring R] (d : Nat) (M : Mat R) (hr : M.r = d) (hc : M.c = d) (n : Nat) :
    Mat.toM d d (npow M n) = (Mat.toM d d M) ^ n := by
  induction n with
  | zero => subst hr; simp [npow, Mat.toM_identity]
  | succ n ih =>
    rw [pow_succ', ← ih]
    exact Mat.toM_mul M (npow M n) d d d hr hc (by rw [npow_r, hr]) (by rw [npow_c M n (by rw [hc, hr]), hr])

variable {P : Type}

/-- the assumed laws of the externals (sympy), stated on the Mathlib views of the matrices -/
structure ExtLaws [CommRing R] (x : Ext R) : Prop where
  inv_dim : ∀ A B, x.minv A = .ok B → B.r = A.r ∧ B.c = A.c
  inv_mul : ∀ d A B, A.r = d → A.c = d → x.minv A = .ok B →
    Mat.toM d d B * Mat.toM d d A = 1 ∧ Mat.toM d d A * Mat.toM d d B = 1
  frac_dim : ∀ A e B, x.mfrac A e = .ok B → B.r = A.r ∧ B.c = A.c
  root : ∀ d A (e : Rat) B, e.num = 1 → 2 ≤ e.den → A.r = d → A.c = d → x.mfrac A e = .ok B →
    Mat.toM d d B ^ e.den = Mat.toM d d A
  exp_dim : ∀ A B, x.mexp A = .ok B → B.r = A.r ∧ B.c = A.c

/-- every base gate's factory returns a `2^num_qubits` square matrix (docstring requirement of MatrixFactoryGate;
    enforced by `_n_qubits` for custom gates) -/
def WellDim [Zero R] : Gate P R → Prop
  | .base b => ∀ M, b.factory b.params = .ok M → M.r = 2 ^ b.numQubits ∧ M.c = 2 ^ b.numQubits
  | .controlled g _ => WellDim g
  | .dagger g => WellDim g
  | .power g _ => WellDim g
  | .exponential g => WellDim g

section
variable [CommRing R] {x : Ext R}

theorem npow_dims (M : Mat R) (n : Nat) (d : Nat) (hr : M.r = d) (hc : M.c = d) :
    (npow M n).r = d ∧ (npow M n).c = d := by
  constructor
  · rw [npow_r, hr]
  · rw [npow_c M n (by rw [hc, hr]), hr]

theorem mpow_dims (hx : ExtLaws x) (M M' : Mat R) (e : Rat) (d : Nat) (hr : M.r = d) (hc : M.c = d)
    (h : mpow x M e = .ok M') : M'.r = d ∧ M'.c = d := by
  unfold mpow at h
  split at h
  · unfold ipow at h
    split at h
    · cases h; exact npow_dims M _ d hr hc
    · rw [bind_eq_ok] at h
      obtain ⟨Mi, h1, h2⟩ := h
      cases h2
      obtain ⟨a, b⟩ := hx.inv_dim _ _ h1
      exact npow_dims Mi _ d (by rw [a, hr]) (by rw [b, hc])
  · obtain ⟨a, b⟩ := hx.frac_dim _ _ _ h
    exact ⟨by rw [a, hr], by rw [b, hc]⟩

theorem two_pow_split (n k : Nat) : 2 ^ (n + (k + 1)) - 2 ^ n + 2 ^ n = 2 ^ (n + (k + 1)) := by
  have : 2 ^ n ≤ 2 ^ (n + (k + 1)) := Nat.pow_le_pow_right (by norm_num) (by omega)
  omega

end
section
variable [CommRing R] [StarRing R] {x : Ext R}

/-- every computed matrix is `2^num_qubits` square -/
theorem gateMatrix_dim (hx : ExtLaws x) (g : Gate P R) (hw : WellDim g) (M : Mat R)
    (h : gateMatrix star x g = .ok M) : M.r = 2 ^ g.numQubits ∧ M.c = 2 ^ g.numQubits := by
  induction g generalizing M with
  | base b => exact hw M h
  | controlled y k ih =>
    simp only [gateMatrix, bind_eq_ok] at h
    obtain ⟨Y, hY, h2⟩ := h
    cases h2
    obtain ⟨a, b⟩ := ih hw Y hY
    simp only [ctlMatrix_r, ctlMatrix_c, a, b, Gate.numQubits]
    exact ⟨two_pow_split _ _, two_pow_split _ _⟩
  | dagger y ih =>
    simp only [gateMatrix, bind_eq_ok] at h
    obtain ⟨Y, hY, h2⟩ := h
    cases h2
    obtain ⟨a, b⟩ := ih hw Y hY
    exact ⟨b, a⟩
  | power y e ih =>
    simp only [gateMatrix, bind_eq_ok] at h
    obtain ⟨Y, hY, h2⟩ := h
    obtain ⟨a, b⟩ := ih hw Y hY
    exact mpow_dims hx Y M e _ a b h2
  | exponential y ih =>
    simp only [gateMatrix, bind_eq_ok] at h
    obtain ⟨Y, hY, h2⟩ := h
    obtain ⟨a, b⟩ := ih hw Y hY
    obtain ⟨c, d⟩ := hx.exp_dim _ _ h2
    exact ⟨by rw [c, a]; rfl, by rw [d, b]; rfl⟩

theorem ok_bind {ε α β : Type} (a : α) (f : α → Except ε β) : (Except.ok a : Except ε α).bind f = f a := rfl

/-- Lifting a relation between a matrix and its `** e` through the controls that `ControlledGate.power` keeps outside:
    any relation that is compatible with `diag(1, ·)` and holds for sympy's `**` holds for `.power(e)` of every gate. -/
theorem powerM_lift (hx : ExtLaws x) (e : Rat)
    (Rel : ∀ d, Matrix (Fin d) (Fin d) R → Matrix (Fin d) (Fin d) R → Prop)
    (hblock : ∀ d0 d A B, Rel d A B → Rel (d0 + d) (blockDiag d0 A) (blockDiag d0 B))
    (hnode : ∀ d (M M' : Mat R), M.r = d → M.c = d → mpow x M e = .ok M' → Rel d (Mat.toM d d M) (Mat.toM d d M'))
    (g : Gate P R) : ∀ (M M' : Mat R) (D : Nat), gateMatrix star x g = .ok M → gateMatrix star x (g.powerM e) = .ok M' →
      M.r = D → M.c = D → M'.r = D ∧ M'.c = D ∧ Rel D (Mat.toM D D M) (Mat.toM D D M') := by
  have node : ∀ (h : Gate P R) (M M' : Mat R) (D : Nat), gateMatrix star x h = .ok M →
      gateMatrix star x (.power h e) = .ok M' → M.r = D → M.c = D →
      M'.r = D ∧ M'.c = D ∧ Rel D (Mat.toM D D M) (Mat.toM D D M') := by
    intro h M M' D hM hM' hr hc
    simp only [gateMatrix, hM, ok_bind] at hM'
    obtain ⟨a, b⟩ := mpow_dims hx M M' e D hr hc hM'
    exact ⟨a, b, hnode D M M' hr hc hM'⟩
  induction g with
  | base b => exact node _
  | dagger y _ => exact node _
  | power y e' _ => exact node _
  | exponential y _ => exact node _
  | controlled y k ih =>
    intro M M' D hM hM' hr hc
    simp only [Gate.powerM, gateMatrix, bind_eq_ok, Gate.numQubits_powerM] at hM hM'
    obtain ⟨Y, hY, h2⟩ := hM
    obtain ⟨N, hN, h3⟩ := hM'
    cases h2; cases h3
    simp only [ctlMatrix_r, ctlMatrix_c] at hr hc
    subst hr
    have hYc : Y.c = Y.r := by omega
    obtain ⟨a, b, c⟩ := ih Y N Y.r hY hN rfl hYc
    refine ⟨by rw [ctlMatrix_r, a], by rw [ctlMatrix_c, b], ?_⟩
    rw [toM_ctlMatrix _ _ Y rfl hYc, toM_ctlMatrix _ _ N a b]
    exact hblock _ _ _ _ c

/-- if `.power(e)` of a gate has a matrix, so has the gate -/
theorem powerM_ok_inv (e : Rat) (g : Gate P R) : ∀ (M' : Mat R), gateMatrix star x (g.powerM e) = .ok M' →
    ∃ M, gateMatrix star x g = .ok M := by
  induction g with
  | controlled y k ih =>
    intro M' h
    simp only [Gate.powerM, gateMatrix, bind_eq_ok] at h
    obtain ⟨N, hN, _⟩ := h
    obtain ⟨Y, hY⟩ := ih N hN
    exact ⟨_, by simp only [gateMatrix, hY, ok_bind]; rfl⟩
  | base b => intro M' h; simp only [Gate.powerM, gateMatrix, bind_eq_ok] at h; obtain ⟨M, hM, _⟩ := h; exact ⟨M, hM⟩
  | dagger y _ => intro M' h; simp only [Gate.powerM, gateMatrix, bind_eq_ok] at h; obtain ⟨M, hM, _⟩ := h; exact ⟨M, by simpa [gateMatrix, bind_eq_ok] using hM⟩
  | power y e' _ => intro M' h; simp only [Gate.powerM, gateMatrix, bind_eq_ok] at h; obtain ⟨M, hM, _⟩ := h; exact ⟨M, by simpa [gateMatrix, bind_eq_ok] using hM⟩
  | exponential y _ => intro M' h; simp only [Gate.powerM, gateMatrix, bind_eq_ok] at h; obtain ⟨M, hM, _⟩ := h; exact ⟨M, by simpa [gateMatrix, bind_eq_ok] using hM⟩

omit [StarRing R] in
theorem mpow_nat (M M' : Mat R) (e : Rat) (he : e.den = 1) (hn : 0 ≤ e.num) (h : mpow x M e = .ok M') :
    M' = npow M e.num.toNat := by
  simp only [mpow, he, if_true, ipow, hn] at h
  cases h; rfl

omit [StarRing R] in
theorem mpow_neg (M M' : Mat R) (e : Rat) (he : e.den = 1) (hn : e.num < 0) (h : mpow x M e = .ok M') :
    ∃ Mi, x.minv M = .ok Mi ∧ M' = npow Mi (-e.num).toNat := by
  have : ¬ (0 ≤ e.num) := by omega
  simp only [mpow, he, if_true, ipow, this, if_false, bind_eq_ok] at h
  obtain ⟨Mi, h1, h2⟩ := h
  cases h2
  exact ⟨Mi, h1, rfl⟩

omit [StarRing R] in
theorem mpow_frac (M M' : Mat R) (e : Rat) (he : e.den ≠ 1) (h : mpow x M e = .ok M') :
    x.mfrac M e = .ok M' := by
  simpa only [mpow, he, if_false] using h

/-- `.power(n)`, `n ≥ 0` an integer: the `n`-fold product -/
theorem powerM_nat (hx : ExtLaws x) (g : Gate P R) (e : Rat) (he : e.den = 1) (hn : 0 ≤ e.num)
    (M M' : Mat R) (D : Nat) (hM : gateMatrix star x g = .ok M) (hM' : gateMatrix star x (g.powerM e) = .ok M')
    (hr : M.r = D) (hc : M.c = D) :
    M'.r = D ∧ M'.c = D ∧ Mat.toM D D M' = Mat.toM D D M ^ e.num.toNat := by
  refine powerM_lift hx e (fun d A B => B = A ^ e.num.toNat) ?_ ?_ g M M' D hM hM' hr hc
  · intro d0 d A B h; rw [h, blockDiag_pow]
  · intro d M M' hr hc h
    rw [mpow_nat M M' e he hn h, toM_npow d M hr hc]

/-- `.power(-n)`: the `n`-fold product of the (two-sided) inverse -/
theorem powerM_neg (hx : ExtLaws x) (g : Gate P R) (e : Rat) (he : e.den = 1) (hn : e.num < 0)
    (M M' : Mat R) (D : Nat) (hM : gateMatrix star x g = .ok M) (hM' : gateMatrix star x (g.powerM e) = .ok M')
    (hr : M.r = D) (hc : M.c = D) :
    M'.r = D ∧ M'.c = D ∧ ∃ W : Matrix (Fin D) (Fin D) R,
      W * Mat.toM D D M = 1 ∧ Mat.toM D D M * W = 1 ∧ Mat.toM D D M' = W ^ (-e.num).toNat := by
  refine powerM_lift hx e (fun d A B => ∃ W : Matrix (Fin d) (Fin d) R, W * A = 1 ∧ A * W = 1 ∧ B = W ^ (-e.num).toNat)
    ?_ ?_ g M M' D hM hM' hr hc
  · rintro d0 d A B ⟨W, h1, h2, h3⟩
    refine ⟨blockDiag d0 W, ?_, ?_, ?_⟩
    · rw [← blockDiag_mul, h1, blockDiag_one]
    · rw [← blockDiag_mul, h2, blockDiag_one]
    · rw [h3, blockDiag_pow]
  · intro d M M' hr hc h
    obtain ⟨Mi, h1, h2⟩ := mpow_neg M M' e he hn h
    obtain ⟨a, b⟩ := hx.inv_mul d M Mi hr hc h1
    obtain ⟨c, c'⟩ := hx.inv_dim _ _ h1
    exact ⟨Mat.toM d d Mi, a, b, by rw [h2, toM_npow d Mi (by rw [c, hr]) (by rw [c', hc])]⟩

/-- `.power(1/q)`: a matrix whose `q`-th power is the original -/
theorem powerM_root (hx : ExtLaws x) (g : Gate P R) (e : Rat) (he : e.num = 1) (hq : 2 ≤ e.den)
    (M M' : Mat R) (D : Nat) (hM : gateMatrix star x g = .ok M) (hM' : gateMatrix star x (g.powerM e) = .ok M')
    (hr : M.r = D) (hc : M.c = D) :
    M'.r = D ∧ M'.c = D ∧ Mat.toM D D M' ^ e.den = Mat.toM D D M := by
  refine powerM_lift hx e (fun d A B => B ^ e.den = A) ?_ ?_ g M M' D hM hM' hr hc
  · intro d0 d A B h; rw [← blockDiag_pow, h]
  · intro d M M' hr hc h
    exact hx.root d M e M' he hq hr hc (mpow_frac M M' e (by omega) h)

/-- no `Power` with a non-integer exponent anywhere in the gate -/
def NoFrac : Gate P R → Prop
  | .base _ => True
  | .controlled g _ => NoFrac g
  | .dagger g => NoFrac g
  | .power g e => e.den = 1 ∧ NoFrac g
  | .exponential g => NoFrac g

/-- the `is_hermitian` flags are truthful: a flagged base gate has a self-adjoint matrix -/
def HermOK : Gate P R → Prop
  | .base b => b.hermitian = true → ∀ (M : Mat R) (d : Nat), b.factory b.params = .ok M → M.r = d → M.c = d →
      (Mat.toM d d M)ᴴ = Mat.toM d d M
  | .controlled g _ => HermOK g
  | .dagger g => HermOK g
  | .power g _ => HermOK g
  | .exponential g => HermOK g

/-- law of `Matrix.exp`: it is the function `E` (at ℂ: the matrix exponential) -/
def ExpLaw (x : Ext R) (E : ∀ d, Matrix (Fin d) (Fin d) R → Matrix (Fin d) (Fin d) R) : Prop :=
  ∀ d (A B : Mat R), A.r = d → A.c = d → x.mexp A = .ok B → Mat.toM d d B = E d (Mat.toM d d A)

theorem toM_adjointWith' (d : Nat) (M : Mat R) (hr : M.r = d) (hc : M.c = d) :
    Mat.toM d d (adjointWith star M) = (Mat.toM d d M)ᴴ := by
  subst hr
  funext i j
  simp only [Mat.toM, adjointWith, Matrix.conjTranspose_apply]
  rw [Mat.get_ofFn _ _ _ _ _ (by rw [hc]; exact i.2) j.2]

theorem inv_unique {d : Nat} (A B W : Matrix (Fin d) (Fin d) R) (h1 : B * A = 1) (_h2 : A * B = 1)
    (h3 : W * Aᴴ = 1) : W = Bᴴ := by
  have : Aᴴ * Bᴴ = 1 := by rw [← Matrix.conjTranspose_mul, h1, Matrix.conjTranspose_one]
  calc W = W * (Aᴴ * Bᴴ) := by rw [this, Matrix.mul_one]
    _ = (W * Aᴴ) * Bᴴ := by rw [Matrix.mul_assoc]
    _ = Bᴴ := by rw [h3, Matrix.one_mul]

theorem daggerM_adjoint (hx : ExtLaws x) (E : ∀ d, Matrix (Fin d) (Fin d) R → Matrix (Fin d) (Fin d) R)
    (hE : ExpLaw x E) (hEs : ∀ d A, E d Aᴴ = (E d A)ᴴ)
    (g : Gate P R) (hw : WellDim g) (hnf : NoFrac g) (hh : HermOK g) :
    ∀ (M M' : Mat R) (D : Nat), gateMatrix star x g = .ok M → gateMatrix star x g.daggerM = .ok M' →
      M.r = D → M.c = D → M'.r = D ∧ M'.c = D ∧ Mat.toM D D M' = (Mat.toM D D M)ᴴ := by
  induction g with
  | base b =>
    intro M M' D hM hM' hr hc
    simp only [Gate.daggerM] at hM'
    split at hM'
    · rename_i hb
      rw [hM] at hM'; cases hM'
      exact ⟨hr, hc, (hh hb M D hM hr hc).symm⟩
    · have hM2 : b.factory b.params = .ok M := hM
      simp only [gateMatrix, hM2, ok_bind] at hM'
      cases hM'
      exact ⟨hc, hr, toM_adjointWith' D M hr hc⟩
  | controlled y k ih =>
    intro M M' D hM hM' hr hc
    simp only [Gate.daggerM, gateMatrix, bind_eq_ok, Gate.numQubits_daggerM] at hM hM'
    obtain ⟨Y, hY, h2⟩ := hM
    obtain ⟨N, hN, h3⟩ := hM'
    cases h2; cases h3
    simp only [ctlMatrix_r, ctlMatrix_c] at hr hc
    subst hr
    have hYc : Y.c = Y.r := by omega
    obtain ⟨a, b, c⟩ := ih hw hnf hh Y N Y.r hY hN rfl hYc
    refine ⟨by rw [ctlMatrix_r, a], by rw [ctlMatrix_c, b], ?_⟩
    rw [toM_ctlMatrix _ _ Y rfl hYc, toM_ctlMatrix _ _ N a b, c, blockDiag_conjTranspose]
  | dagger y _ =>
    intro M M' D hM hM' hr hc
    simp only [Gate.daggerM] at hM'
    simp only [gateMatrix, hM', ok_bind] at hM
    cases hM
    have hr' : M'.c = D := hr
    have hc' : M'.r = D := hc
    refine ⟨hc', hr', ?_⟩
    rw [toM_adjointWith' D M' hc' hr', Matrix.conjTranspose_conjTranspose]
  | power y e ih =>
    intro M M' D hM hM' hr hc
    obtain ⟨he, hnf'⟩ := hnf
    simp only [Gate.daggerM] at hM'
    obtain ⟨Y', hY'⟩ := powerM_ok_inv e y.daggerM M' hM'
    have hMfull := hM
    simp only [gateMatrix, bind_eq_ok] at hM
    obtain ⟨Y, hY, h2⟩ := hM
    obtain ⟨d1, d2⟩ := gateMatrix_dim hx y hw Y hY
    obtain ⟨d3, d4⟩ := gateMatrix_dim hx (.power y e) hw M hMfull
    have hYr : Y.r = D := by rw [d1, ← hr, d3]; rfl
    have hYc : Y.c = D := by rw [d2, ← hr, d3]; rfl
    obtain ⟨a, b, c⟩ := ih hw hnf' hh Y Y' D hY hY' hYr hYc
    by_cases hn : 0 ≤ e.num
    · obtain ⟨p, q, r⟩ := powerM_nat hx y.daggerM e he hn Y' M' D hY' hM' a b
      refine ⟨p, q, ?_⟩
      rw [r, c, mpow_nat Y M e he hn h2, toM_npow D Y hYr hYc, Matrix.conjTranspose_pow]
    · have hn' : e.num < 0 := by omega
      obtain ⟨p, q, W, w1, _, w3⟩ := powerM_neg hx y.daggerM e he hn' Y' M' D hY' hM' a b
      obtain ⟨Yi, i1, i2⟩ := mpow_neg Y M e he hn' h2
      obtain ⟨j1, j2⟩ := hx.inv_mul D Y Yi hYr hYc i1
      obtain ⟨k1, k2⟩ := hx.inv_dim _ _ i1
      refine ⟨p, q, ?_⟩
      rw [c] at w1
      rw [w3, inv_unique _ _ W j1 j2 w1, i2, toM_npow D Yi (by rw [k1, hYr]) (by rw [k2, hYc]),
        Matrix.conjTranspose_pow]
  | exponential y ih =>
    intro M M' D hM hM' hr hc
    have hMfull := hM
    simp only [Gate.daggerM, Gate.expM, gateMatrix, bind_eq_ok] at hM hM'
    obtain ⟨Y, hY, h2⟩ := hM
    obtain ⟨Y', hY', h3⟩ := hM'
    obtain ⟨d1, d2⟩ := gateMatrix_dim hx y hw Y hY
    obtain ⟨d3, d4⟩ := gateMatrix_dim hx (.exponential y) hw M hMfull
    have hYr : Y.r = D := by rw [d1, ← hr, d3]; rfl
    have hYc : Y.c = D := by rw [d2, ← hr, d3]; rfl
    obtain ⟨a, b, c⟩ := ih hw hnf hh Y Y' D hY hY' hYr hYc
    obtain ⟨e1, e2⟩ := hx.exp_dim _ _ h3
    refine ⟨by rw [e1, a], by rw [e2, b], ?_⟩
    rw [hE D Y' M' a b h3, c, hEs, hE D Y M hYr hYc h2]

omit [StarRing R] in
theorem ctlMatrix_get (d0 : Nat) (M : Mat R) (i j : Nat) (hi : i < d0 + M.r) (hj : j < d0 + M.c) :
    (ctlMatrix d0 M).get i j =
      if i < d0 ∧ j < d0 then (if i = j then 1 else 0)
      else if d0 ≤ i ∧ d0 ≤ j then M.get (i - d0) (j - d0) else 0 := by
  unfold ctlMatrix; rw [Mat.get_ofFn _ _ _ _ _ hi hj]

theorem pow_block (n m : Nat) : 2 ^ (n + (m + 1)) - 2 ^ n = 2 ^ n * (2 ^ (m + 1) - 1) := by
  rw [Nat.mul_sub_one, pow_add]

/-- `.controlled(m+1)` of a method-built gate: identity on the first `2^n (2^(m+1) − 1)` basis states, then the
    original matrix -/
theorem ctlP_matrix_block (hx : ExtLaws x) (g : Gate P R) (hcn : g.Canon) (hw : WellDim g) (m : Nat)
    (M M' : Mat R) (hM : gateMatrix star x g = .ok M) (hM' : gateMatrix star x (g.ctlP m) = .ok M') :
    let d := 2 ^ g.numQubits
    let d0 := 2 ^ g.numQubits * (2 ^ (m + 1) - 1)
    M'.r = d0 + d ∧ M'.c = d0 + d ∧ ∀ i j, i < d0 + d → j < d0 + d →
      M'.get i j = if i < d0 ∧ j < d0 then (if i = j then 1 else 0)
        else if d0 ≤ i ∧ d0 ≤ j then M.get (i - d0) (j - d0) else 0 := by
  intro d d0
  obtain ⟨hr, hc⟩ := gateMatrix_dim hx g hw M hM
  cases hg : g.isCtl with
  | false =>
    rw [Gate.ctlP_of_not_ctl g m hcn hg] at hM'
    simp only [gateMatrix, hM, ok_bind] at hM'
    cases hM'
    rw [pow_block]
    refine ⟨by rw [ctlMatrix_r, hr], by rw [ctlMatrix_c, hc], ?_⟩
    intro i j hi hj
    exact ctlMatrix_get _ M i j (by rw [hr]; exact hi) (by rw [hc]; exact hj)
  | true =>
    cases g with
    | controlled w k =>
      simp only [Gate.ctlP, gateMatrix, bind_eq_ok] at hM hM'
      obtain ⟨W, hW, h2⟩ := hM
      obtain ⟨W', hW', h3⟩ := hM'
      rw [hW] at hW'; cases hW'
      cases h2; cases h3
      obtain ⟨wr, wc⟩ := gateMatrix_dim hx w hw W hW
      -- the three block sizes
      have e1 : 2 ^ (w.numQubits + (k + m + 1 + 1)) - 2 ^ w.numQubits
          = d0 + (2 ^ (w.numQubits + (k + 1)) - 2 ^ w.numQubits) := by
        have ha : 2 ^ w.numQubits ≤ 2 ^ (w.numQubits + (k + 1)) := Nat.pow_le_pow_right (by norm_num) (by omega)
        have hb : 2 ^ (w.numQubits + (k + 1)) * 2 ^ (m + 1) = 2 ^ (w.numQubits + (k + m + 1 + 1)) := by
          rw [← pow_add]; congr 1; omega
        have hc' : 1 ≤ 2 ^ (m + 1) := Nat.one_le_two_pow
        show _ = 2 ^ (w.numQubits + (k + 1)) * (2 ^ (m + 1) - 1) + _
        rw [Nat.mul_sub_one, ← hb]
        have : 2 ^ (w.numQubits + (k + 1)) ≤ 2 ^ (w.numQubits + (k + 1)) * 2 ^ (m + 1) :=
          Nat.le_mul_of_pos_right _ (by omega)
        omega
      have hd : d = (2 ^ (w.numQubits + (k + 1)) - 2 ^ w.numQubits) + 2 ^ w.numQubits := by
        show 2 ^ (w.numQubits + (k + 1)) = _
        have ha : 2 ^ w.numQubits ≤ 2 ^ (w.numQubits + (k + 1)) := Nat.pow_le_pow_right (by norm_num) (by omega)
        omega
      generalize 2 ^ (w.numQubits + (k + m + 1 + 1)) - 2 ^ w.numQubits = D1 at e1 ⊢
      generalize 2 ^ (w.numQubits + (k + 1)) - 2 ^ w.numQubits = D2 at e1 hd hr hc ⊢
      subst e1
      rw [hd]
      refine ⟨by rw [ctlMatrix_r, wr]; omega, by rw [ctlMatrix_c, wc]; omega, ?_⟩
      intro i j hi hj
      have hpos : 0 < 2 ^ w.numQubits := Nat.pos_of_ne_zero (by positivity)
      rw [ctlMatrix_get _ W i j (by rw [wr]; omega) (by rw [wc]; omega),
        ctlMatrix_get _ W (i - d0) (j - d0) (by rw [wr]; omega) (by rw [wc]; omega)]
      clear hr hc
      split_ifs <;> first | rfl | (exfalso; omega) | (congr 1 <;> omega)
    | _ => simp [Gate.isCtl] at hg

/-- `|1…1⟩⟨1…1|` on `k` control qubits -/
def projAll (k : Nat) : Mat R := Mat.ofFn (2 ^ k) (2 ^ k) (fun a b => if a = 2 ^ k - 1 ∧ b = 2 ^ k - 1 then 1 else 0)
/-- `1 − |1…1⟩⟨1…1|` on `k` control qubits -/
def projRest (k : Nat) : Mat R := Mat.ofFn (2 ^ k) (2 ^ k) (fun a b => if a = b ∧ a ≠ 2 ^ k - 1 then 1 else 0)

omit [StarRing R] in
theorem projRest_eq (k : Nat) : Mat.toM (2 ^ k) (2 ^ k) (projRest (R := R) k) = 1 - Mat.toM (2 ^ k) (2 ^ k) (projAll k) := by
  funext a b
  simp only [Mat.toM, projRest, projAll, Matrix.sub_apply, Matrix.one_apply]
  rw [Mat.get_ofFn _ _ _ _ _ a.2 b.2, Mat.get_ofFn _ _ _ _ _ a.2 b.2]
  by_cases h : a = b
  · subst h
    by_cases h2 : a.val = 2 ^ k - 1 <;> simp [h2]
  · have : ¬ (a.val = b.val) := fun hh => h (Fin.ext hh)
    have h3 : ¬ (a.val = 2 ^ k - 1 ∧ b.val = 2 ^ k - 1) := fun hh => this (hh.1.trans hh.2.symm)
    simp [h, this, h3]

omit [StarRing R] in
theorem controlled_proj_entries (k d : Nat) (M : Mat R) (hr : M.r = d) (hc : M.c = d) (i j : Nat)
    (hi : i < 2 ^ k * d) (hj : j < 2 ^ k * d) :
    (ctlMatrix (d * (2 ^ k - 1)) M).get i j =
      (((projAll k).kron M).add ((projRest k).kron (Mat.identity d))).get i j := by
  have hd : 0 < d := by
    rcases Nat.eq_zero_or_pos d with h | h
    · subst h; simp at hi
    · exact h
  have h2k : 1 ≤ 2 ^ k := Nat.one_le_two_pow
  have hsplit : d * (2 ^ k - 1) + d = 2 ^ k * d := by
    rw [Nat.mul_sub_one, Nat.mul_comm d]; have := Nat.le_mul_of_pos_left d h2k; omega
  have hqi : i / d < 2 ^ k := (Nat.div_lt_iff_lt_mul hd).2 hi
  have hqj : j / d < 2 ^ k := (Nat.div_lt_iff_lt_mul hd).2 hj
  have hri : i % d < d := Nat.mod_lt _ hd
  have hrj : j % d < d := Nat.mod_lt _ hd
  have hei := Nat.div_add_mod i d
  have hej := Nat.div_add_mod j d
  have lti : i < d * (2 ^ k - 1) ↔ i / d < 2 ^ k - 1 := by
    rw [Nat.div_lt_iff_lt_mul hd, Nat.mul_comm]
  have ltj : j < d * (2 ^ k - 1) ↔ j / d < 2 ^ k - 1 := by
    rw [Nat.div_lt_iff_lt_mul hd, Nat.mul_comm]
  rw [ctlMatrix_get _ M i j (by rw [hr, hsplit]; exact hi) (by rw [hc, hsplit]; exact hj)]
  have hAr : ((projAll (R := R) k).kron M).r = 2 ^ k * d := by simp [Mat.kron, projAll, hr]
  have hAc : ((projAll (R := R) k).kron M).c = 2 ^ k * d := by simp [Mat.kron, projAll, hc]
  unfold Mat.add
  rw [Mat.get_ofFn _ _ _ _ _ (by rw [hAr]; exact hi) (by rw [hAc]; exact hj)]
  rw [Mat.kron_get _ _ _ _ (by simpa [projAll, hr] using hi) (by simpa [projAll, hc] using hj),
    Mat.kron_get _ _ _ _ (by simpa [projRest, Mat.identity] using hi) (by simpa [projRest, Mat.identity] using hj)]
  simp only [hr, hc, Mat.identity, Mat.ofFn_r, Mat.ofFn_c]
  rw [Mat.get_ofFn _ _ _ _ _ hri hrj]
  simp only [projAll, projRest]
  rw [Mat.get_ofFn _ _ _ _ _ hqi hqj, Mat.get_ofFn _ _ _ _ _ hqi hqj]
  have L1 : (i < d * (2 ^ k - 1) ∧ j < d * (2 ^ k - 1)) ↔ (i / d < 2 ^ k - 1 ∧ j / d < 2 ^ k - 1) := by
    rw [lti, ltj]
  have L2 : (d * (2 ^ k - 1) ≤ i ∧ d * (2 ^ k - 1) ≤ j) ↔ (i / d = 2 ^ k - 1 ∧ j / d = 2 ^ k - 1) := by
    constructor
    · rintro ⟨a, b⟩
      have a' : ¬ i / d < 2 ^ k - 1 := fun h => by have := lti.2 h; omega
      have b' : ¬ j / d < 2 ^ k - 1 := fun h => by have := ltj.2 h; omega
      omega
    · rintro ⟨a, b⟩
      have a' : ¬ i < d * (2 ^ k - 1) := fun h => by have := lti.1 h; omega
      have b' : ¬ j < d * (2 ^ k - 1) := fun h => by have := ltj.1 h; omega
      omega
  have L3 : i = j ↔ (i / d = j / d ∧ i % d = j % d) := by
    constructor
    · rintro rfl; exact ⟨rfl, rfl⟩
    · rintro ⟨a, b⟩; rw [← hei, ← hej, a, b]
  have S1 : i / d = 2 ^ k - 1 → i - d * (2 ^ k - 1) = i % d := by
    intro h; rw [← h]; omega
  have S2 : j / d = 2 ^ k - 1 → j - d * (2 ^ k - 1) = j % d := by
    intro h; rw [← h]; omega
  rw [if_congr L1 (if_congr L3 rfl rfl) (if_congr L2 rfl rfl)]
  by_cases c1 : i / d = 2 ^ k - 1
  · by_cases c2 : j / d = 2 ^ k - 1
    · rw [S1 c1, S2 c2]; simp [c1, c2]
    · have : j / d < 2 ^ k - 1 := by omega
      have hne : ¬ (2 ^ k - 1 = j / d) := fun h => c2 h.symm
      simp [c1, c2, hne]
  · have c1' : i / d < 2 ^ k - 1 := by omega
    by_cases c2 : j / d = 2 ^ k - 1
    · have hne : ¬ (i / d = 2 ^ k - 1) := c1
      simp [c1, c2]
    · have c2' : j / d < 2 ^ k - 1 := by omega
      simp only [c1', c2', and_self, if_true, c1, c2, if_false, zero_mul, zero_add, ne_eq,
        not_false_eq_true, and_true]
      by_cases c3 : i / d = j / d
      · by_cases c4 : i % d = j % d <;> simp [c3, c4]
      · simp [c3]

end
namespace Gate
variable {P R : Type}

/-- `g.power(e).controlled(n) = g.controlled(n).power(e)` (pinned by tests/…/_gates_test.py:265) -/
theorem ctlP_powerM (g : Gate P R) (e : Rat) (m : Nat) : (g.powerM e).ctlP m = (g.ctlP m).powerM e := by
  cases g <;> simp [powerM, ctlP]

/-- `g.dagger.controlled(n) = g.controlled(n).dagger` on method-built gates (test l.255) -/
theorem ctlP_daggerM (g : Gate P R) (m : Nat) (h : Canon g) : g.daggerM.ctlP m = (g.ctlP m).daggerM := by
  cases hg : g.isCtl with
  | false =>
    obtain ⟨h1, h2⟩ := canon_daggerM g h
    rw [ctlP_of_not_ctl g m h hg, ctlP_of_not_ctl g.daggerM m h1 (by rw [h2, hg])]
    rfl
  | true =>
    cases g with
    | controlled y k => rfl
    | _ => simp [isCtl] at hg

/-- `.dagger` is an involution on method-built gates (test l.156: `gate.dagger.dagger is gate`) -/
theorem daggerM_daggerM (g : Gate P R) (h : Canon g) : g.daggerM.daggerM = g := by
  induction g with
  | base b =>
    simp only [daggerM]
    split
    · rename_i hb; simp [daggerM, hb]
    · simp [daggerM]
  | controlled y k ih => simp [daggerM, ih h.1]
  | dagger y ih =>
    obtain ⟨b, rfl, hb⟩ := h
    simp [daggerM, hb]
  | power y e ih =>
    obtain ⟨hy, hc⟩ := h
    obtain ⟨h1, h2⟩ := canon_daggerM y hy
    simp only [daggerM]
    rw [powerM_of_not_ctl _ e (by rw [h2, hc])]
    simp only [daggerM]
    rw [ih hy, powerM_of_not_ctl _ e hc]
  | exponential y ih => simp [daggerM, expM, ih h]

/-- one call of a modifier method with a valid argument -/
inductive Mod where
  | dagger
  | controlled (m : Nat)   -- `.controlled(m + 1)`
  | power (e : Rat)
  | exp

def Mod.apply : Mod → Gate P R → Gate P R
  | .dagger, g => g.daggerM
  | .controlled m, g => g.ctlP m
  | .power e, g => g.powerM e
  | .exp, g => g.expM

/-- any nesting of the modifiers, applied left to right -/
def applyChain (g : Gate P R) (ms : List Mod) : Gate P R := ms.foldl (fun g m => m.apply g) g

theorem canon_apply (m : Mod) (g : Gate P R) (h : Canon g) : Canon (m.apply g) := by
  cases m with
  | dagger => exact (canon_daggerM g h).1
  | controlled k => exact canon_ctlP g k h
  | power e => exact canon_powerM g e h
  | exp => exact h

theorem canon_applyChain (g : Gate P R) (ms : List Mod) (h : Canon g) : Canon (applyChain g ms) := by
  induction ms generalizing g with
  | nil => exact h
  | cons m ms ih => exact ih _ (canon_apply m g h)

theorem mapParams_apply (m : Mod) (g : Gate P R) (ps : List P) :
    (m.apply g).mapParams ps = m.apply (g.mapParams ps) := by
  cases m with
  | dagger => exact mapParams_daggerM g ps
  | controlled k => exact mapParams_ctlP g k ps
  | power e => exact mapParams_powerM g e ps
  | exp => rfl

theorem mapParams_applyChain (g : Gate P R) (ms : List Mod) (ps : List P) :
    (applyChain g ms).mapParams ps = applyChain (g.mapParams ps) ms := by
  induction ms generalizing g with
  | nil => rfl
  | cons m ms ih => simp only [applyChain, List.foldl_cons] at ih ⊢; rw [ih, mapParams_apply]

end Gate
end OQ.C07
