import OQ.Lemmas.C16_Spec
import Mathlib.Algebra.Star.Basic
import Mathlib.Tactic.LinearCombination
set_option linter.unusedSectionVars false
namespace OQ.C16
open Matrix OQ.Spec OQ.Pauli
variable {R : Type} [CommRing R] [StarRing R]

/-- the laws of the ring constants (the `Scal` record is data; these are its intended equations) -/
structure ScalLaws (k : Scal R) : Prop where
  ii : k.i * k.i = -1
  rr : 2 * k.r * k.r = 1
  cj : k.cj = star
  star_i : star k.i = -k.i
  star_r : star k.r = k.r

/-- a half-angle point of a REAL angle: on the unit circle, fixed by conjugation -/
structure AngLaws (a : Ang R) : Prop where
  circle : a.ch * a.ch + a.sh * a.sh = 1
  star_ch : star a.ch = a.ch
  star_sh : star a.sh = a.sh

theorem toB_m2 (a b c d : R) (x y : Bool) :
    toB (Gates.m2 a b c d) x y = if x then (if y then d else c) else (if y then b else a) := by
  unfold toB
  rw [get_m2 _ _ _ _ _ _ (by split_ifs <;> omega) (by split_ifs <;> omega)]
  cases x <;> cases y <;> simp

def sgn (b : Bool) : R := if b then -1 else 1
def σz : Matrix Bool Bool R := Matrix.diagonal sgn
def σx : Matrix Bool Bool R := fun a b => if a = b then 0 else 1
def σy (k : Scal R) : Matrix Bool Bool R := fun a b => if a = b then 0 else if a then k.i else -k.i

/-- the 2×2 Pauli matrix of the shared model (`OQ.Pauli.pauliMat`) read on Booleans -/
def pauliB (k : Scal R) (p : Option P) : Matrix Bool Bool R := toB (pauliMat k p)

theorem pauliB_none (k : Scal R) : pauliB k none = 1 := by
  ext x y; show toB (Gates.m2 1 0 0 1) x y = _; rw [toB_m2]; cases x <;> cases y <;> simp
theorem pauliB_X (k : Scal R) : pauliB k (some .X) = σx := by
  ext x y; show toB (Gates.m2 0 1 1 0) x y = _; rw [toB_m2]; cases x <;> cases y <;> simp [σx]
theorem pauliB_Y (k : Scal R) : pauliB k (some .Y) = σy k := by
  ext x y; show toB (Gates.m2 0 (-k.i) k.i 0) x y = _; rw [toB_m2]; cases x <;> cases y <;> simp [σy]
theorem pauliB_Z (k : Scal R) : pauliB k (some .Z) = σz := by
  ext x y; show toB (Gates.m2 1 0 0 (-1)) x y = _; rw [toB_m2]; cases x <;> cases y <;> simp [σz, sgn]

theorem h_conj_z (k : Scal R) (hk : ScalLaws k) : toB (Gates.h k) * σz * toB (Gates.h k) = σx := by
  have := hk.rr
  ext x y
  simp only [Matrix.mul_apply, Fintype.univ_bool, Gates.h, toB_m2, σz, σx, sgn, Matrix.diagonal_apply]
  cases x <;> cases y <;> simp <;> linear_combination this

theorem h_mul_h (k : Scal R) (hk : ScalLaws k) : toB (Gates.h k) * toB (Gates.h k) = 1 := by
  have := hk.rr
  ext x y
  simp only [Matrix.mul_apply, Fintype.univ_bool, Gates.h, toB_m2, Matrix.one_apply]
  cases x <;> cases y <;> simp <;> linear_combination this

theorem toB_adjoint2 (k : Scal R) (hk : ScalLaws k) (M : Mat R) : toB (adjoint2 k M) = (toB M)ᴴ := by
  ext x y
  unfold adjoint2 toB
  rw [Mat.get_ofFn _ _ _ _ _ (by split_ifs <;> omega) (by split_ifs <;> omega), hk.cj]
  rfl

theorem rz_eq (k : Scal R) (a : Ang R) :
    toB (Gates.rz k a) = a.ch • (1 : Matrix Bool Bool R) - (k.i * a.sh) • σz := by
  ext x y
  simp only [Gates.rz, toB_m2, Ang.ehm, Ang.ehp, σz, sgn, Matrix.sub_apply, Matrix.smul_apply, Matrix.one_apply,
    Matrix.diagonal_apply, smul_eq_mul]
  cases x <;> cases y <;> simp
  all_goals ring

theorem rx_eq (k : Scal R) (a : Ang R) :
    toB (Gates.rx k a) = a.ch • (1 : Matrix Bool Bool R) - (k.i * a.sh) • σx := by
  ext x y
  simp only [Gates.rx, toB_m2, σx, Matrix.sub_apply, Matrix.smul_apply, Matrix.one_apply, smul_eq_mul]
  cases x <;> cases y <;> simp

theorem rxdg_mul_rx (k : Scal R) (hk : ScalLaws k) (a : Ang R) (ha : AngLaws a) :
    (toB (Gates.rx k a))ᴴ * toB (Gates.rx k a) = 1 := by
  have h1 := hk.ii; have h2 := ha.circle
  ext x y
  simp only [Matrix.mul_apply, Fintype.univ_bool, Gates.rx, toB_m2, Matrix.one_apply, Matrix.conjTranspose_apply]
  cases x <;> cases y <;> simp [hk.star_i, ha.star_ch, ha.star_sh]
  all_goals first | ring1 | linear_combination h2 - a.sh * a.sh * h1

/-- RX(π/2)ᴴ · Z · RX(π/2) = Y   (the half-angle point of π/2 is (1/√2, 1/√2)) -/
theorem rx_conj_z (k : Scal R) (hk : ScalLaws k) :
    (toB (Gates.rx k ⟨k.r, k.r⟩))ᴴ * σz * toB (Gates.rx k ⟨k.r, k.r⟩) = σy k := by
  have h1 := hk.ii; have h2 := hk.rr
  ext x y
  simp only [Matrix.mul_apply, Fintype.univ_bool, Gates.rx, toB_m2, σz, σy, sgn, Matrix.diagonal_apply,
    Matrix.conjTranspose_apply]
  cases x <;> cases y <;> simp [hk.star_i, hk.star_r]
  · linear_combination k.r * k.r * h1
  · linear_combination (-k.i) * h2
  · linear_combination k.i * h2
  · linear_combination -(k.r * k.r) * h1

end OQ.C16
