import OQ.Lemmas.C01_Add

namespace OQ.C01
open OQ.Lift OQ OQ.Spec Matrix
variable {R : Type} [CommRing R]

theorem isPermutation_false_of_dup (sh : List Nat) (span : Nat) (hlt : ∀ j ∈ sh, j < span) (hdup : ¬ sh.Nodup) :
    isPermutation (permMakingAdjacent sh span) = false := by
  rw [List.nodup_iff_count_le_one] at hdup
  push Not at hdup
  obtain ⟨j, hj⟩ := hdup
  have hjm : j ∈ sh := by
    by_contra hn
    rw [List.count_eq_zero_of_not_mem hn] at hj; omega
  have hsub : List.range span ⊆ permMakingAdjacent sh span := by
    intro i hi
    unfold permMakingAdjacent
    by_cases hm : i ∈ sh
    · exact List.mem_append_left _ hm
    · exact List.mem_append_right _ (List.mem_filter.mpr ⟨hi, by simp [hm]⟩)
  have hlen : span ≤ (permMakingAdjacent sh span).length := by
    have := (List.subperm_of_subset List.nodup_range hsub).length_le
    simpa using this
  unfold isPermutation
  rw [List.all_eq_false]
  refine ⟨j, List.mem_range.mpr (lt_of_lt_of_le (hlt j hjm) hlen), ?_⟩
  have : 2 ≤ List.count j (permMakingAdjacent sh span) := by
    unfold permMakingAdjacent
    rw [List.count_append]; omega
  simp only [beq_iff_eq]
  omega

/-- duplicated qubit indices are rejected (`ValueError("Not all qubits given in permutation.")`) -/
theorem liftMatrix_none_of_dup (m : Mat R) (qs : List Nat) (n : Nat) (hdup : ¬ qs.Nodup) :
    liftMatrix m qs n = none := by
  unfold liftMatrix
  by_cases h1 : qs.isEmpty = true
  · simp [h1]
  · by_cases h2 : n ≤ listMax qs
    · simp [h1, h2]
    · by_cases h3 : listMax qs - listMin qs + 1 < qs.length
      · simp [h1, h2, h3]
      · have hsh : ¬ (qs.map (fun q => q - listMin qs)).Nodup := by
          intro hnd
          exact hdup (List.Nodup.of_map _ hnd)
        have hlt : ∀ j ∈ qs.map (fun q => q - listMin qs), j < listMax qs - listMin qs + 1 := by
          intro j hj
          obtain ⟨q, hq, rfl⟩ := List.mem_map.mp hj
          have := le_listMax qs q hq
          omega
        have hP : permutationMatrix (R := R) (permMakingAdjacent (qs.map (fun q => q - listMin qs))
            (listMax qs - listMin qs + 1)) = none := by
          unfold permutationMatrix
          rw [isPermutation_false_of_dup _ _ hlt hsh]; rfl
        simp only [h1, h2, h3, Bool.false_eq_true, if_false, hP]

/-- the embedding is accepted EXACTLY on the valid operations: at least one index, distinct indices, all
    inside the register, a `2^k × 2^k` matrix -/
theorem gateLift_isSome_iff (n : Nat) (o : Op R) : (gateLift o n).isSome ↔ OpValid n o := by
  constructor
  · intro h
    by_contra hv
    have : gateLift o n = none := by
      unfold gateLift
      by_cases hs : o.m.r = 2 ^ o.qs.length ∧ o.m.c = 2 ^ o.qs.length
      · rw [if_pos hs]
        by_cases hd : o.qs.Nodup
        · by_cases he : o.qs = []
          · unfold liftMatrix; simp [he]
          · by_cases hl : ∀ q ∈ o.qs, q < n
            · exact absurd ⟨he, hd, hl, hs.1, hs.2⟩ hv
            · push Not at hl
              obtain ⟨q, hq, hqn⟩ := hl
              have := le_listMax o.qs q hq
              unfold liftMatrix
              have h2 : n ≤ listMax o.qs := by omega
              simp [h2]
        · exact liftMatrix_none_of_dup _ _ _ hd
      · rw [if_neg hs]
    rw [this] at h; simp at h
  · intro h
    obtain ⟨L, hL, _⟩ := gateLift_spec n o h
    rw [hL]; rfl

end OQ.C01
