import OQ.Lemmas.C01_Bits

namespace OQ.C01
open OQ.Lift

theorem bit_window (n s span t j row : Nat) (hn : n = s + span + t) (hj : j < span) :
    bit span j (row / 2 ^ t % 2 ^ span) = bit n (s + j) row := by
  rw [bit_eq_testBit, bit_eq_testBit, Nat.testBit_mod_two_pow, Nat.testBit_div_two_pow]
  have h1 : span - 1 - j < span := by omega
  have h2 : span - 1 - j + t = n - 1 - (s + j) := by omega
  simp [h1, h2]

theorem high_eq_iff (n s w row col : Nat) (hn : n = s + w) (hrow : row < 2 ^ n) (hcol : col < 2 ^ n) :
    row / 2 ^ w = col / 2 ^ w ↔ ∀ q, q < s → bit n q row = bit n q col := by
  constructor
  · intro h q hq
    rw [bit_eq_iff]
    have := congrArg (fun x => x.testBit (s - 1 - q)) h
    simp only [Nat.testBit_div_two_pow] at this
    have e : s - 1 - q + w = n - 1 - q := by omega
    rwa [e] at this
  · intro h
    apply Nat.eq_of_testBit_eq
    intro i
    rw [Nat.testBit_div_two_pow, Nat.testBit_div_two_pow]
    by_cases hi : i < s
    · have := (bit_eq_iff n (s - 1 - i) row col).mp (h (s - 1 - i) (by omega))
      have e : n - 1 - (s - 1 - i) = i + w := by omega
      rwa [e] at this
    · have hge : n ≤ i + w := by omega
      rw [Nat.testBit_lt_two_pow (lt_of_lt_of_le hrow (Nat.pow_le_pow_right (by decide) hge)),
          Nat.testBit_lt_two_pow (lt_of_lt_of_le hcol (Nat.pow_le_pow_right (by decide) hge))]

theorem low_eq_iff (n t row col : Nat) (ht : t ≤ n) :
    row % 2 ^ t = col % 2 ^ t ↔ ∀ q, n - t ≤ q → q < n → bit n q row = bit n q col := by
  constructor
  · intro h q hq1 hq2
    rw [bit_eq_iff]
    have := congrArg (fun x => x.testBit (n - 1 - q)) h
    simp only [Nat.testBit_mod_two_pow] at this
    have e : n - 1 - q < t := by omega
    simpa [e] using this
  · intro h
    apply Nat.eq_of_testBit_eq
    intro i
    rw [Nat.testBit_mod_two_pow, Nat.testBit_mod_two_pow]
    by_cases hi : i < t
    · have := (bit_eq_iff n (n - 1 - i) row col).mp (h (n - 1 - i) (by omega) (by omega))
      have e : n - 1 - (n - 1 - i) = i := by omega
      rw [e] at this
      simp [hi, this]
    · simp [hi]

end OQ.C01
