/-
  C02 / T10 — helper lemmas for the tie between the REGENERATED gate matrices (OQ/Generated/TranslatedC02.lean, written by
  harness/translate_t10.py from circuits/_matrices.py on every run) and the hand-written model OQ/Model/Gates.lean:
  equality of executable matrices from equality of their Mathlib views, the views of matrix literals / scalar multiples, and the
  link between `gateMatrix` and `Gates.builtinMatrix` on the rows of the generated gate table.
-/
import OQ.Lemmas.C02
import OQ.Generated.TranslatedC02

namespace OQ.C02
open OQ OQ.Mat Matrix

/-! ### equality of executable matrices -/

theorem ofFn_congr {R : Type} (r c : Nat) (f g : Nat → Nat → R)
    (h : ∀ i, i < r → ∀ j, j < c → f i j = g i j) : Mat.ofFn r c f = Mat.ofFn r c g := by
  unfold Mat.ofFn
  congr 1
  apply congrArg
  funext k
  have hc : 0 < c := by
    rcases Nat.eq_zero_or_pos c with h0 | h0
    · have := k.2; simp [h0] at this
    · exact h0
  apply h
  · exact (Nat.div_lt_iff_lt_mul hc).mpr k.2
  · exact Nat.mod_lt _ hc

/-- the matrix is stored canonically: it is `ofFn` of its own entries (true of every result of `ofFn`, hence of `ofLists`,
    `smul`, `mul` – everything the translated factories are built from) -/
def IsOfFn {R : Type} [Zero R] (A : Mat R) : Prop := A = Mat.ofFn A.r A.c A.get

theorem isOfFn_ofFn {R : Type} [Zero R] (r c : Nat) (f : Nat → Nat → R) : IsOfFn (Mat.ofFn r c f) := by
  unfold IsOfFn
  simp only [ofFn_r, ofFn_c]
  exact ofFn_congr r c _ _ (fun i hi j hj => (get_ofFn r c f i j hi hj).symm)

theorem isOfFn_ofLists {R : Type} [Zero R] (rows : List (List R)) : IsOfFn (Mat.ofLists rows) := by
  unfold Mat.ofLists; exact isOfFn_ofFn _ _ _
theorem isOfFn_smul {R : Type} [Zero R] [Mul R] (x : R) (A : Mat R) : IsOfFn (Mat.smul x A) := isOfFn_ofFn _ _ _
theorem isOfFn_mul {R : Type} [Zero R] [Add R] [Mul R] (A B : Mat R) : IsOfFn (Mat.mul A B) := isOfFn_ofFn _ _ _

/-- two canonically stored `r × c` matrices with the same Mathlib view are EQUAL (as executable objects: same array) -/
theorem eq_of_toM {R : Type} [Zero R] {A B : Mat R} (r c : Nat) (hA : IsOfFn A) (hB : IsOfFn B)
    (hAr : A.r = r) (hAc : A.c = c) (hBr : B.r = r) (hBc : B.c = c) (h : toM r c A = toM r c B) : A = B := by
  rw [hA, hB, hAr, hAc, hBr, hBc]
  apply ofFn_congr
  intro i hi j hj
  exact congrFun (congrFun h ⟨i, hi⟩) ⟨j, hj⟩

/-! ### Mathlib views of what the translated factories are built from -/

theorem toM_lit2 {R : Type} [Zero R] (a b c d : R) : toM 2 2 (Mat.ofLists [[a, b], [c, d]]) = !![a, b; c, d] := toM_m2 a b c d

theorem toM_lit4 {R : Type} [Zero R] (a00 a01 a02 a03 a10 a11 a12 a13 a20 a21 a22 a23 a30 a31 a32 a33 : R) :
    toM 4 4 (Mat.ofLists [[a00,a01,a02,a03],[a10,a11,a12,a13],[a20,a21,a22,a23],[a30,a31,a32,a33]])
      = !![a00,a01,a02,a03; a10,a11,a12,a13; a20,a21,a22,a23; a30,a31,a32,a33] := toM_m4 ..

/-- the view of a scalar multiple, for ANY window `r × c` (outside the matrix both sides are 0) -/
theorem toM_smul_any {R : Type} [MulZeroClass R] (x : R) (A : Mat R) (r c : Nat) :
    toM r c (Mat.smul x A) = x • toM r c A := by
  funext i j
  simp only [toM, Matrix.smul_apply, smul_eq_mul]
  by_cases h : i.val < A.r ∧ j.val < A.c
  · unfold Mat.smul; rw [get_ofFn _ _ _ _ _ h.1 h.2]
  · rw [get_out _ _ _ (by simpa [Mat.smul] using h), get_out _ _ _ h, mul_zero]

/-- `wf`: the goal `IsOfFn M` for a matrix whose head symbol is `ofLists` / `smul` / `mul` -/
macro "wf" : tactic =>
  `(tactic| with_reducible (first | exact isOfFn_ofLists _ | exact isOfFn_smul _ _ | exact isOfFn_mul _ _))

/-- reduce an equality of two `d × d` executable matrices (heads `ofLists` / `smul` / `mul`) to the equality of their views -/
macro "tie_setup" d:num : tactic => `(tactic| (refine eq_of_toM $d $d (by wf) (by wf) rfl rfl rfl rfl ?_))

/-- rewrite the views of literals and scalar multiples into `!![…]` notation -/
macro "tie_simp" "[" ts:Lean.Parser.Tactic.simpLemma,* "]" : tactic =>
  `(tactic| simp only [toM_smul_any, toM_lit2, toM_lit4, toM_m2, toM_m4, $ts,*])

/-! ### `gateMatrix` on the rows of the table is `Gates.builtinMatrix` -/

theorem gateMatrix_row {R : Type} [Zero R] [One R] [Add R] [Mul R] [Neg R] (k : Scal R) (row : Row)
    (hrow : row ∈ Generated.gateTable) (ps : List (Ang R)) (hl : ps.length = Row.numParams row) (M : Mat R) :
    gateMatrix Generated.gateTable k (Row.name row) ps = .ok M ↔ Gates.builtinMatrix k (Row.name row) ps = some M := by
  unfold gateMatrix
  rw [show lookup Generated.gateTable (Row.name row) = some row from lookup_row row hrow]
  simp only [hl, ne_eq, not_true_eq_false, if_false]
  cases Gates.builtinMatrix k (Row.name row) ps with
  | none => simp
  | some m => simp

end OQ.C02
