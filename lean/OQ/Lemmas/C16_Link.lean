/-
  C16 ↔ C01 / C03 / C09 — LINK lemmas: the spec semantics used by OQ/Props/C16.lean (`circSem` = products of
  `gateOn` = `Spec.lift` along the subtype partition; `pauliString` = ⊗ on the bit-assignment basis) coincide with
  what OQ/Props/C01.lean proves about the EXECUTABLE `Lift.liftMatrix` / `toUnitary` (`Spec.lift` along `sigmaOf`,
  `toBV`) and with the executable Kronecker denotation `Pauli.stringMatrix` / `Term.denote` characterised in
  OQ/Lemmas/C09_Entries.lean, C09_Ops.lean (`stringMatrix_spec`, `strEntry_prod`, the lemmas behind C09's
  `denote_entry_msb`).  No existing file is modified.
-/
import OQ.Props.C01
import OQ.Props.C16
import OQ.Lemmas.C09_Ops
import OQ.Lemmas.C02_Cyc8
set_option linter.unusedSectionVars false
namespace OQ.C16.Link
open Matrix OQ OQ.Spec OQ.Pauli OQ.Lift

variable {R : Type} [CommRing R] [StarRing R] {T : Type}

/-! ### bit assignments ↔ basis indices -/

/-- the basis index read off a bit assignment at the positions `qs` (C01's `bvEquiv`, MSB first) is
    C16's `bitIndex` -/
theorem bvEquiv_symm_bitIndex (n : Nat) (qs : List Nat) (hlt : ∀ q ∈ qs, q < n) (e : ℕ → Fin n)
    (he : ∀ q ∈ qs, (e q).val = q) (x : BV (Fin n)) :
    ((C01.bvEquiv qs.length).symm (fun j => x ⟨qs[j.val], hlt _ (List.getElem_mem _)⟩)).val
      = bitIndex (qs.map e) x := by
  have hb : ∀ b ∈ (qs.map e).map (fun q => if x q then 1 else 0), b < 2 := by
    intro b hb
    simp only [List.mem_map] at hb
    obtain ⟨q, _, rfl⟩ := hb
    split_ifs <;> omega
  have hlen : ((qs.map e).map (fun q => if x q then 1 else 0)).length = qs.length := by simp
  have hlt' : bitIndex (qs.map e) x < 2 ^ qs.length := by
    have := C01.bitsToIndex_lt _ hb
    rwa [hlen] at this
  have : (C01.bvEquiv qs.length).symm (fun j => x ⟨qs[j.val], hlt _ (List.getElem_mem _)⟩)
      = ⟨bitIndex (qs.map e) x, hlt'⟩ := by
    rw [Equiv.symm_apply_eq]
    funext j
    rw [C01.bvEquiv_apply]
    have := C01.testBit_bitsToIndex _ hb j.val (by rw [hlen]; exact j.2)
    simp only [List.length_map, List.getElem_map] at this
    show _ = (bitIndex (qs.map e) x).testBit (qs.length - 1 - j.val)
    unfold bitIndex
    rw [this]
    have hq : e qs[j.val] = ⟨qs[j.val], hlt _ (List.getElem_mem _)⟩ := Fin.ext (he _ (List.getElem_mem _))
    rw [hq]
    cases x ⟨qs[j.val], hlt _ (List.getElem_mem _)⟩ <;> simp
  rw [this]

/-- C01's specification of a gate operation (`Spec.lift` along `sigmaOf`) is C16's `gateOn` (`Spec.lift` along the
    subtype partition): the two spec semantics of "this matrix on these qubits" coincide -/
theorem opSem_eq_gateOn (n : Nat) (o : Lift.Op R) (h : C01.OpValid n o) (e : ℕ → Fin n)
    (he : ∀ q, q < n → (e q).val = q) : C01.opSem n o = gateOn o.m (o.qs.map e) := by
  ext x y
  rw [C01.opSem_pointwise n o h, gateOn_apply]
  have hmem : ∀ q : Fin n, q ∈ o.qs.map e ↔ q.val ∈ o.qs := by
    intro q
    constructor
    · intro hq
      obtain ⟨q', hq', rfl⟩ := List.mem_map.mp hq
      rw [he q' (h.lt q' hq')]; exact hq'
    · intro hq
      exact List.mem_map.mpr ⟨q.val, hq, Fin.ext (he q.val q.2)⟩
  have hcond : (∀ q : Fin n, q.val ∉ o.qs → x q = y q) ↔ (∀ m, m ∉ o.qs.map e → x m = y m) :=
    ⟨fun hh m hm => hh m (fun hc => hm ((hmem m).mpr hc)), fun hh q hq => hh q (fun hc => hq ((hmem q).mp hc))⟩
  have he' : ∀ q ∈ o.qs, (e q).val = q := fun q hq => he q (h.lt q hq)
  by_cases c : (∀ q : Fin n, q.val ∉ o.qs → x q = y q)
  · rw [if_pos c, if_pos (hcond.mp c), C01.toBV_apply, bvEquiv_symm_bitIndex n o.qs h.lt e he' x,
      bvEquiv_symm_bitIndex n o.qs h.lt e he' y]
  · rw [if_neg c, if_neg (fun hh => c (hcond.mpr hh))]

/-! ### accepted operations; C01's circuit semantics = C16's circuit semantics -/

/-- number of qubits a gate of the evolution circuits acts on -/
def arity : GateK T → Nat
  | .CNOT => 2
  | _ => 1

/-- an operation of a model circuit the library accepts on an `n`-qubit register: distinct indices `< n`, as many as
    the gate's arity (k-independent form of C01's `OpValid`) -/
structure GOpOK (n : Nat) (o : GOp T) : Prop where
  nodup : o.qs.Nodup
  lt : ∀ q ∈ o.qs, q < n
  len : o.qs.length = arity o.g

theorem arity_dagger (g : GateK T) : arity g.dagger = arity g := by cases g <;> rfl

theorem gateMatrix_dims (k : Scal R) (ang : T → Ang R) (g : GateK T) :
    (gateMatrix k ang g).r = 2 ^ arity g ∧ (gateMatrix k ang g).c = 2 ^ arity g := by
  cases g <;> exact ⟨rfl, rfl⟩

theorem opValid_of_ok (k : Scal R) (ang : T → Ang R) (n : Nat) (o : GOp T) (h : GOpOK n o) :
    C01.OpValid n (⟨gateMatrix k ang o.g, o.qs⟩ : Lift.Op R) := by
  refine ⟨?_, h.nodup, h.lt, ?_, ?_⟩
  · intro h0
    have := h.len
    simp only at h0
    rw [h0] at this
    cases hg : o.g <;> simp [hg, arity] at this
  · simp only; rw [h.len]; exact (gateMatrix_dims k ang o.g).1
  · simp only; rw [h.len]; exact (gateMatrix_dims k ang o.g).2

/-- C01's circuit semantics of the executable operation list of a model circuit is C16's circuit semantics -/
theorem circSem_link (k : Scal R) (ang : T → Ang R) (n : Nat) (e : ℕ → Fin n) (he : ∀ q, q < n → (e q).val = q)
    (c : Circ T) (hok : ∀ o ∈ c, GOpOK n o) :
    C01.circSem n ((toOps k ang c).map C01.Oper.gate) = circSem k ang e c := by
  induction c with
  | nil => simp [toOps, C01.circSem_nil]
  | cons o c ih =>
    have ih' := ih (fun o' ho' => hok o' (List.mem_cons_of_mem _ ho'))
    unfold toOps at ih' ⊢
    rw [List.map_cons, List.map_cons, C01.circSem_cons, circSem_cons, ih']
    congr 1
    show C01.opSem n _ = _
    rw [opSem_eq_gateOn n _ (opValid_of_ok k ang n o (hok o List.mem_cons_self)) e he]
    rfl

theorem mapM_lifted (n : Nat) (l : List (Lift.Op R))
    (h : ∀ o ∈ l, o.m.r = 2 ^ o.qs.length ∧ o.m.c = 2 ^ o.qs.length) :
    (l.map C01.Oper.gate).mapM (C01.Oper.lifted n) = l.mapM (fun o => liftMatrix o.m o.qs n) := by
  induction l with
  | nil => rfl
  | cons o l ih =>
    have ho := h o List.mem_cons_self
    simp only [List.map_cons, List.mapM_cons, C01.Oper.lifted, C01.gateLift, ho.1, ho.2, and_self, if_true]
    rw [ih (fun o' ho' => h o' (List.mem_cons_of_mem _ ho'))]

/-- the shared `Lift.toUnitary` (what C16's driver runs) is C01's `toUnitary` on well-shaped gate operations -/
theorem lift_toUnitary_eq (n : Nat) (ops : List (Lift.Op R))
    (h : ∀ o ∈ ops, o.m.r = 2 ^ o.qs.length ∧ o.m.c = 2 ^ o.qs.length) :
    Lift.toUnitary n ops = C01.toUnitary ⟨n, ops.map C01.Oper.gate⟩ := by
  unfold Lift.toUnitary C01.toUnitary
  simp only
  rw [← List.map_reverse, mapM_lifted n ops.reverse (fun o ho => h o (List.mem_reverse.mp ho))]
  cases List.mapM (fun o => liftMatrix o.m o.qs n) ops.reverse <;> rfl

theorem toBV_identity (n : Nat) : C01.toBV n (Mat.identity (R := R) (2 ^ n)) = 1 := by
  unfold C01.toBV
  rw [Mat.toM_identity]
  simp

/-- the EXECUTABLE unitary of a model circuit of accepted operations exists, is `2^n × 2^n`, and is the spec
    semantics `circSem` of OQ/Lemmas/C16.lean on the register `Fin n` -/
theorem unitary_spec (k : Scal R) (ang : T → Ang R) (n : Nat) (e : ℕ → Fin n) (he : ∀ q, q < n → (e q).val = q)
    (c : Circ T) (hok : ∀ o ∈ c, GOpOK n o) :
    ∃ U, unitary k ang n c = some U ∧ U.r = 2 ^ n ∧ U.c = 2 ^ n ∧ C01.toBV n U = circSem k ang e c := by
  cases c with
  | nil => exact ⟨_, rfl, rfl, rfl, by rw [toBV_identity]; rfl⟩
  | cons o c =>
    have hval : ∀ o' ∈ toOps k ang (o :: c), C01.OpValid n o' := by
      intro o' ho'
      obtain ⟨g, hg, rfl⟩ := List.mem_map.mp ho'
      exact opValid_of_ok k ang n g (hok g hg)
    obtain ⟨U, hU, hr, hc, hs⟩ := C01.toUnitary_ordered_product n (toOps k ang (o :: c)) (by simp [toOps]) hval
    refine ⟨U, ?_, hr, hc, ?_⟩
    · show Lift.toUnitary n (toOps k ang (o :: c)) = some U
      rw [lift_toUnitary_eq n _ (fun o' ho' => ⟨(hval o' ho').mr, (hval o' ho').mc⟩), hU]
    · rw [hs, circSem_link k ang n e he _ hok]

/-! ### the evolution circuits only contain accepted operations -/

variable {Q : Type} [One Q] [Mul Q] [Div Q] [Neg Q] [NatCast Q] [DecidableEq Q]

theorem basisChange_ok (alg : TimeAlg Q T) (t : Term (Q × Q)) (n : Nat) (qs : List Nat) (hlt : ∀ q ∈ qs, q < n) :
    ∀ o ∈ basisChange alg t qs, GOpOK n o := by
  induction qs with
  | nil => intro o ho; simp [basisChange] at ho
  | cons q rest ih =>
    have ih' := ih (fun q' hq' => hlt q' (List.mem_cons_of_mem _ hq'))
    have hq : q < n := hlt q List.mem_cons_self
    intro o ho
    unfold basisChange at ho
    split at ho
    · rcases List.mem_cons.mp ho with rfl | ho
      · exact ⟨by simp, by simpa using hq, rfl⟩
      · exact ih' o ho
    · rcases List.mem_cons.mp ho with rfl | ho
      · exact ⟨by simp, by simpa using hq, rfl⟩
      · exact ih' o ho
    · exact ih' o ho

theorem ladder_ok (n : Nat) (qs : List Nat) (hnd : qs.Nodup) (hlt : ∀ q ∈ qs, q < n) :
    ∀ o ∈ (ladder qs : Circ T), GOpOK n o := by
  induction qs with
  | nil => intro o ho; simp [ladder] at ho
  | cons q rest ih =>
    cases rest with
    | nil => intro o ho; simp [ladder] at ho
    | cons q' rest =>
      intro o ho
      rw [ladder_cons_cons] at ho
      rcases List.mem_cons.mp ho with rfl | ho
      · refine ⟨?_, ?_, rfl⟩
        · have := (List.nodup_cons.mp hnd).1
          simp only [List.mem_cons, not_or] at this
          simp [this.1]
        · intro x hx
          simp only [List.mem_cons, List.not_mem_nil, or_false] at hx
          rcases hx with rfl | rfl
          · exact hlt _ (by simp)
          · exact hlt _ (by simp)
      · exact ih (List.nodup_cons.mp hnd).2 (fun x hx => hlt x (List.mem_cons_of_mem _ hx)) o ho

theorem inverse_ok (n : Nat) (c : Circ T) (h : ∀ o ∈ c, GOpOK n o) : ∀ o ∈ inverse c, GOpOK n o := by
  intro o ho
  unfold inverse at ho
  obtain ⟨o', ho', rfl⟩ := List.mem_map.mp ho
  have := h o' (List.mem_reverse.mp ho')
  exact ⟨this.nodup, this.lt, by rw [arity_dagger]; exact this.len⟩

/-- every operation of the circuit `time_evolution_for_term` returns is accepted by the library on any register
    that contains the term's qubits -/
theorem evolution_ok (alg : TimeAlg Q T) (negl : Q → Bool) (t : Term (Q × Q)) (time : T) (c : Circ T)
    (hc : evolutionForTerm alg negl t time = .ok c) (hnd : (t.ops.map (·.1)).Nodup)
    (n : Nat) (hlt : ∀ q ∈ t.ops.map (·.1), q < n) : ∀ o ∈ c, GOpOK n o := by
  by_cases hne : t.ops = []
  · rw [constant_term_empty alg negl t time hne] at hc
    cases hc
    intro o ho; simp at ho
  · obtain ⟨_, last, hl, rfl⟩ := evolutionForTerm_ok alg negl t time c hne hc
    have hperm := sortedQubits_perm t
    have hnd' : (sortedQubits t).Nodup := hperm.nodup_iff.mpr hnd
    have hlt' : ∀ q ∈ sortedQubits t, q < n := fun q hq => hlt q (hperm.mem_iff.mp hq)
    have hb := basisChange_ok alg t n (sortedQubits t) hlt'
    have hl' := ladder_ok (T := T) n (sortedQubits t) hnd' hlt'
    intro o ho
    simp only [List.mem_append, List.mem_cons, List.not_mem_nil, or_false] at ho
    rcases ho with (ho | (ho | rfl) | ho) | ho
    · exact hb o ho
    · exact hl' o ho
    · exact ⟨by simp, by simpa using hlt' last (List.mem_of_getLast? hl), rfl⟩
    · exact inverse_ok n _ hl' o ho
    · exact inverse_ok n _ hb o ho

theorem forall₂_mem_right {α β : Type} (r : α → β → Prop) (l : List α) (l' : List β) (h : List.Forall₂ r l l') :
    ∀ b ∈ l', ∃ a ∈ l, r a b := by
  induction h with
  | nil => intro b hb; simp at hb
  | cons hab _ ih =>
    intro b hb
    rcases List.mem_cons.mp hb with rfl | hb
    · exact ⟨_, List.mem_cons_self, hab⟩
    · obtain ⟨a, ha, hr⟩ := ih b hb
      exact ⟨a, List.mem_cons_of_mem _ ha, hr⟩

/-- … and so is every operation of the circuit `time_evolution` returns -/
theorem timeEvolution_ops_ok (alg : TimeAlg Q T) (negl : Q → Bool) (h : PSum (Q × Q)) (time : T) (steps : Nat)
    (cs : List (Circ T))
    (hcs : List.Forall₂ (fun t ct => evolutionForTerm alg negl t time = .ok ct) h cs)
    (hnd : ∀ t ∈ h, (t.ops.map (·.1)).Nodup) (n : Nat) (hlt : ∀ t ∈ h, ∀ q ∈ t.ops.map (·.1), q < n) :
    (∀ ct ∈ cs, ∀ o ∈ ct, GOpOK n o) ∧ ∀ o ∈ (List.replicate steps cs.flatten).flatten, GOpOK n o := by
  have h1 : ∀ ct ∈ cs, ∀ o ∈ ct, GOpOK n o := by
    intro ct hct
    obtain ⟨t, ht, hr⟩ := forall₂_mem_right _ h cs hcs ct hct
    exact evolution_ok alg negl t time ct hr (hnd t ht) n (hlt t ht)
  refine ⟨h1, ?_⟩
  intro o ho
  obtain ⟨l, hl, hol⟩ := List.mem_flatten.mp ho
  rw [(List.mem_replicate.mp hl).2] at hol
  obtain ⟨ct, hct, hoct⟩ := List.mem_flatten.mp hol
  exact h1 ct hct o hoct

/-! ### Pauli strings: spec operator = executable Kronecker matrix -/

theorem list_range_prod (n : Nat) (f : ℕ → R) : ((List.range n).map f).prod = ∏ i : Fin n, f i.val := by
  rw [← Finset.prod_range]
  induction n with
  | zero => simp
  | succ n ih => rw [List.range_succ, List.map_append, List.prod_append, ih, Finset.prod_range_succ]; simp

/-- a basis index and its bit assignment: bit `q` (MSB first) of the index is the Boolean at qubit `q` -/
theorem bit_of_bv (n : Nat) (x : BV (Fin n)) (q : Fin n) :
    ((C01.bvEquiv n).symm x).val / 2 ^ (n - 1 - q.val) % 2 = if x q then 1 else 0 := by
  have h1 := C01.bit_eq_testBit n q.val ((C01.bvEquiv n).symm x).val
  rw [C01.bit_bv n x q] at h1
  unfold C01.bit at h1
  rw [h1]
  cases x q <;> rfl

/-- (4) BRIDGE: the spec-level Pauli string operator of OQ/Lemmas/C16.lean (⊗ over the register `Fin n` on the
    bit-assignment basis) IS the executable Kronecker matrix `Pauli.stringMatrix` (qubit 0 leftmost) re-indexed by
    bit assignments, for every width and every string. -/
theorem pauliString_eq_toBV (k : Scal R) (n : Nat) (at_ : ℕ → Option P) :
    pauliString k (fun p : Fin n => at_ p.val) = C01.toBV n (stringMatrix k n at_) := by
  ext x y
  rw [C01.toBV_apply, (C09.stringMatrix_spec k at_ n).2.2 _ _ (Fin.isLt _) (Fin.isLt _), C09.strEntry_prod,
    list_range_prod]
  unfold pauliString tensor
  apply Finset.prod_congr rfl
  intro q _
  rw [bit_of_bv, bit_of_bv]
  unfold pauliB toB
  beta_reduce
  rw [C09.pauliMat_get _ _ _ _ (by split_ifs <;> omega) (by split_ifs <;> omega)]

/-- the matrix exponential commutes with re-indexing -/
theorem exp_reindex {m n : Type} [Fintype m] [DecidableEq m] [Fintype n] [DecidableEq n] (e : m ≃ n)
    (A : Matrix m m ℂ) :
    NormedSpace.exp (Matrix.reindex e e A) = Matrix.reindex e e (NormedSpace.exp A) := by
  open scoped Matrix.Norms.Operator in
  exact (NormedSpace.map_exp (Matrix.reindexAlgEquiv ℂ ℂ e) (continuous_id.matrix_reindex e e) A).symm

/-! ### registers, re-indexing, the per-term statement -/

/-- the register `Fin n` (n ≥ 1), qubits numbered as the code numbers them -/
def regN (n : Nat) (hn : 0 < n) : Register (Fin n) :=
  ⟨fun p => p.val, fun q => ⟨q % n, Nat.mod_lt _ hn⟩, Fin.val_injective⟩

theorem regN_e (n : Nat) (hn : 0 < n) (q : Nat) (hq : q < n) : ((regN n hn).e q).val = q := Nat.mod_eq_of_lt hq

theorem regN_covers (n : Nat) (hn : 0 < n) {C : Type} (t : Term C) (hlt : ∀ q ∈ t.ops.map (·.1), q < n) :
    (regN n hn).Covers t := fun q hq => Nat.mod_eq_of_lt (hlt q hq)

/-- the algebra isomorphism `Matrix (Fin 2^n) ≃ Matrix (BV (Fin n))` behind `toBV` -/
noncomputable def φ (R : Type) [CommRing R] (n : Nat) :
    Matrix (Fin (2 ^ n)) (Fin (2 ^ n)) R ≃ₐ[R] Matrix (BV (Fin n)) (BV (Fin n)) R :=
  Matrix.reindexAlgEquiv R R (C01.bvEquiv n)

theorem φ_toM (n : Nat) (A : Mat R) : φ R n (Mat.toM (2 ^ n) (2 ^ n) A) = C01.toBV n A := rfl

/-- the executable denotation of a string with coefficient 1 is the executable Kronecker matrix of the string -/
theorem toM_denote_one (k : Scal R) (n : Nat) (ops : List (Nat × P)) :
    Mat.toM (2 ^ n) (2 ^ n) (Term.denote k n (⟨ops, 1⟩ : Term R))
      = Mat.toM (2 ^ n) (2 ^ n) (stringMatrix k n (Term.opAt (⟨ops, 1⟩ : Term R))) := by
  funext i j
  simp only [Mat.toM]
  rw [(C09.termDenote_spec k n _).2.2 i j i.2 j.2, (C09.stringMatrix_spec k _ n).2.2 i j i.2 j.2, one_mul]

theorem pos_of_ne {C : Type} (t : Term C) (hne : t.ops ≠ []) (n : Nat) (hlt : ∀ q ∈ t.ops.map (·.1), q < n) : 0 < n := by
  cases h : t.ops with
  | nil => exact absurd h hne
  | cons p _ => have := hlt p.1 (by simp [h]); omega

/-- core of (1): executable unitary, re-indexed, = cos·1 − i sin·(executable string matrix, re-indexed) -/
theorem term_exec_toBV (k : Scal R) (hk : ScalLaws k) (alg : TimeAlg Q T) (negl : Q → Bool) (ang : T → Ang R)
    (hpi : ang (alg.smul (1 / ((2 : Nat) : Q)) alg.pi) = ⟨k.r, k.r⟩)
    (t : Term (Q × Q)) (hnd : (t.ops.map (·.1)).Nodup) (hne : t.ops ≠ [])
    (n : Nat) (hlt : ∀ q ∈ t.ops.map (·.1), q < n)
    (time : T) (c : Circ T) (hc : evolutionForTerm alg negl t time = .ok c) :
    ∃ U, unitary k ang n c = some U ∧ U.r = 2 ^ n ∧ U.c = 2 ^ n ∧
      C01.toBV n U
        = (ang (alg.smul t.coeff.1 (alg.smul ((2 : Nat) : Q) time))).ch • (1 : Matrix (BV (Fin n)) (BV (Fin n)) R)
          - (k.i * (ang (alg.smul t.coeff.1 (alg.smul ((2 : Nat) : Q) time))).sh)
              • C01.toBV n (stringMatrix k n t.opAt) := by
  have hn := pos_of_ne t hne n hlt
  obtain ⟨U, hU, hr, hcc, hs⟩ := unitary_spec k ang n (regN n hn).e (regN_e n hn) c
    (evolution_ok alg negl t time c hc hnd n hlt)
  refine ⟨U, hU, hr, hcc, ?_⟩
  rw [hs, term_evolution k hk alg negl ang hpi (regN n hn) t (regN_covers n hn t hlt) hnd hne time c hc,
    ← pauliString_eq_toBV k n t.opAt]
  rfl

/-! ### the whole Trotter circuit -/

theorem not_ok_zero (o : GOp T) : ¬ GOpOK 0 o := by
  intro h
  cases hq : o.qs with
  | nil =>
    have := h.len
    rw [hq] at this
    cases hg : o.g <;> simp [hg, arity] at this
  | cons q _ => have := h.lt q (by simp [hq]); omega

/-- core of (2) on a register with at least one qubit -/
theorem evolution_exec_toBV (k : Scal R) (hk : ScalLaws k) (alg : TimeAlg Q T) (negl : Q → Bool) (ang : T → Ang R)
    (hpi : ang (alg.smul (1 / ((2 : Nat) : Q)) alg.pi) = ⟨k.r, k.r⟩)
    (h : PSum (Q × Q)) (hnd : ∀ t ∈ h, (t.ops.map (·.1)).Nodup)
    (N : Nat) (hN : 0 < N) (hlt : ∀ t ∈ h, ∀ q ∈ t.ops.map (·.1), q < N)
    (time : T) (n : ℕ) (hn : 1 ≤ n) (c : Circ T) (hc : timeEvolution alg negl h time n = .ok c) :
    ∃ U, unitary k ang N c = some U ∧ U.r = 2 ^ N ∧ U.c = 2 ^ N ∧
      C01.toBV N U = (((h.map (fun t => if t.ops = [] then (1 : Matrix (BV (Fin N)) (BV (Fin N)) R) else
          (ang (alg.smul t.coeff.1 (alg.smul ((2 : Nat) : Q) (alg.smul (1 / (n : Q)) time)))).ch
              • (1 : Matrix (BV (Fin N)) (BV (Fin N)) R)
            - (k.i * (ang (alg.smul t.coeff.1 (alg.smul ((2 : Nat) : Q) (alg.smul (1 / (n : Q)) time)))).sh)
              • C01.toBV N (stringMatrix k N t.opAt))).reverse).prod) ^ n := by
  obtain ⟨cs, hcs, rfl, hsem⟩ := (evolution_product_order k alg negl ang (regN N hN).e h time n hn c).mp hc
  have hok := (timeEvolution_ops_ok alg negl h (alg.smul (1 / (n : Q)) time) n cs hcs hnd N hlt).2
  obtain ⟨U, hU, hr, hcc, hs⟩ := unitary_spec k ang N (regN N hN).e (regN_e N hN) _ hok
  refine ⟨U, hU, hr, hcc, ?_⟩
  rw [hs, hsem, List.map_reverse]
  congr 3
  apply map_eq_of_forall₂ _ _ _ h cs hcs
  intro t ct ht hr
  by_cases h0 : t.ops = []
  · rw [if_pos h0]
    rw [constant_term_empty alg negl t _ h0] at hr
    cases hr; rfl
  · rw [if_neg h0, term_evolution k hk alg negl ang hpi (regN N hN) t (regN_covers N hN t (hlt t ht)) (hnd t ht) h0 _ ct hr,
      ← pauliString_eq_toBV k N t.opAt]
    rfl

/-- on the empty register every term is constant and `time_evolution` returns the empty circuit -/
theorem evolution_exec_zero (alg : TimeAlg Q T) (negl : Q → Bool)
    (h : PSum (Q × Q)) (hnd : ∀ t ∈ h, (t.ops.map (·.1)).Nodup)
    (hlt : ∀ t ∈ h, ∀ q ∈ t.ops.map (·.1), q < 0)
    (time : T) (n : ℕ) (hn : 1 ≤ n) (c : Circ T) (hc : timeEvolution alg negl h time n = .ok c) :
    c = [] ∧ ∀ t ∈ h, t.ops = [] := by
  constructor
  · obtain ⟨cs, hcs, rfl, _⟩ :=
      (evolution_product_order (R := ℤ) (ι := Fin 1) ⟨0, 0, 0, 0, id⟩ alg negl (fun _ => ⟨0, 0⟩) (fun _ => 0) h time n hn c).mp hc
    have hok := (timeEvolution_ops_ok alg negl h (alg.smul (1 / (n : Q)) time) n cs hcs hnd 0 hlt).2
    apply List.eq_nil_iff_forall_not_mem.mpr
    intro o ho
    exact not_ok_zero o (hok o ho)
  · intro t ht
    cases h0 : t.ops with
    | nil => rfl
    | cons p _ => have := hlt t ht p.1 (by simp [h0]); omega

/-! ### the derivative circuits only contain accepted operations -/

/-- the circuit `time_evolution_for_term` builds (guard aside) only contains accepted operations -/
theorem evoCirc_ok (alg : TimeAlg Q T) (t : Term (Q × Q)) (τ : T) (hnd : (t.ops.map (·.1)).Nodup)
    (n : Nat) (hlt : ∀ q ∈ t.ops.map (·.1), q < n) : ∀ o ∈ evoCirc alg t τ, GOpOK n o := by
  have hperm := sortedQubits_perm t
  have hnd' : (sortedQubits t).Nodup := hperm.nodup_iff.mpr hnd
  have hlt' : ∀ q ∈ sortedQubits t, q < n := fun q hq => hlt q (hperm.mem_iff.mp hq)
  have hb := basisChange_ok alg t n (sortedQubits t) hlt'
  have hl' := ladder_ok (T := T) n (sortedQubits t) hnd' hlt'
  unfold evoCirc
  split_ifs with h0
  · intro o ho; simp at ho
  · cases hl : (sortedQubits t).getLast? with
    | none => intro o ho; simp at ho
    | some last =>
      intro o ho
      simp only [List.mem_append, List.mem_cons, List.not_mem_nil, or_false] at ho
      rcases ho with (ho | (ho | rfl) | ho) | ho
      · exact hb o ho
      · exact hl' o ho
      · exact ⟨by simp, by simpa using hlt' last (List.mem_of_getLast? hl), rfl⟩
      · exact inverse_ok n _ hl' o ho
      · exact inverse_ok n _ hb o ho

theorem flatMap_evo_ok (alg : TimeAlg Q T) (ts : PSum (Q × Q)) (τ : T) (hnd : ∀ t ∈ ts, (t.ops.map (·.1)).Nodup)
    (n : Nat) (hlt : ∀ t ∈ ts, ∀ q ∈ t.ops.map (·.1), q < n) :
    ∀ o ∈ ts.flatMap (fun t => evoCirc alg t τ), GOpOK n o := by
  intro o ho
  obtain ⟨t, ht, hot⟩ := List.mem_flatMap.mp ho
  exact evoCirc_ok alg t τ (hnd t ht) n (hlt t ht) o hot

theorem spliceCirc_ok (n : Nat) (rep d : Circ T) (steps p : Nat) (hrep : ∀ o ∈ rep, GOpOK n o)
    (hd : ∀ o ∈ d, GOpOK n o) : ∀ o ∈ spliceCirc rep steps p d, GOpOK n o := by
  intro o ho
  unfold spliceCirc at ho
  have hr : ∀ m, ∀ o ∈ (List.replicate m rep).flatten, GOpOK n o := by
    intro m o ho
    obtain ⟨l, hl, hol⟩ := List.mem_flatten.mp ho
    rw [(List.mem_replicate.mp hl).2] at hol
    exact hrep o hol
  rcases List.mem_append.mp ho with ho | ho
  · rcases List.mem_append.mp ho with ho | ho
    · exact hr _ o ho
    · exact hd o ho
  · exact hr _ o ho

/-- every operation of every derivative circuit `time_evolution_derivatives` returns is accepted by the library on
    any register that contains the Hamiltonian's qubits -/
theorem derivatives_ops_ok (alg : TimeAlg Q T) (negl : Q → Bool) (h : PSum (Q × Q)) (time : T) (steps : ℕ)
    (hs : 1 ≤ steps) (l : List (Q × Circ T)) (hl : derivatives alg negl h time steps = .ok l)
    (hnd : ∀ t ∈ h, (t.ops.map (·.1)).Nodup) (n : Nat) (hlt : ∀ t ∈ h, ∀ q ∈ t.ops.map (·.1), q < n) :
    ∀ x ∈ l, ∀ o ∈ x.2, GOpOK n o := by
  rw [derivatives_shape alg negl h time steps hs l hl]
  intro x hx
  simp only [List.mem_flatMap, List.mem_range, List.mem_map] at hx
  obtain ⟨p, _, y, hy, rfl⟩ := hx
  apply spliceCirc_ok
  · exact flatMap_evo_ok alg h _ hnd n hlt
  · unfold singleList at hy
    obtain ⟨s, hs', hys⟩ := List.mem_flatMap.mp hy
    have hsp := splits_spec h s hs'
    have hsub : ∀ t, (t ∈ s.1 ∨ t = s.2.1 ∨ t ∈ s.2.2) → t ∈ h := by
      intro t ht
      rw [hsp]
      simp only [List.mem_append, List.mem_cons]
      tauto
    have key : ∀ f, ∀ o ∈ (derivCirc alg time steps s.1 s.2.1 s.2.2 f).2, GOpOK n o := by
      intro f o ho
      unfold derivCirc at ho
      simp only [List.mem_append] at ho
      rcases ho with ho | ho | ho
      · exact flatMap_evo_ok alg s.1 _ (fun t ht => hnd t (hsub t (Or.inl ht))) n
          (fun t ht => hlt t (hsub t (Or.inl ht))) o ho
      · exact evoCirc_ok alg s.2.1 _ (hnd _ (hsub _ (Or.inr (Or.inl rfl)))) n (hlt _ (hsub _ (Or.inr (Or.inl rfl)))) o ho
      · exact flatMap_evo_ok alg s.2.2 _ (fun t ht => hnd t (hsub t (Or.inr (Or.inr ht)))) n
          (fun t ht => hlt t (hsub t (Or.inr (Or.inr ht)))) o ho
    unfold derivTwo at hys
    split_ifs at hys
    · simp at hys
    · simp only [List.mem_cons, List.not_mem_nil, or_false] at hys
      rcases hys with rfl | rfl
      · exact key 1
      · exact key (-1)

/-! ### over ℂ: exp and expectations under re-indexing; the derivative statement on executable unitaries -/
section complex
open Complex

theorem φ_exp (n : Nat) (A : Matrix (Fin (2 ^ n)) (Fin (2 ^ n)) ℂ) :
    φ ℂ n (NormedSpace.exp A) = NormedSpace.exp (φ ℂ n A) := (exp_reindex (C01.bvEquiv n) A).symm

theorem expect_reindex {m n : Type} [Fintype m] [DecidableEq m] [Fintype n] [DecidableEq n] (e : m ≃ n)
    (O A : Matrix m m ℂ) (ψ : m → ℂ) :
    star (Matrix.reindex e e A *ᵥ (ψ ∘ e.symm)) ⬝ᵥ (Matrix.reindex e e O *ᵥ (Matrix.reindex e e A *ᵥ (ψ ∘ e.symm)))
      = star (A *ᵥ ψ) ⬝ᵥ (O *ᵥ (A *ᵥ ψ)) := by
  have h1 : ∀ (B : Matrix m m ℂ) (v : m → ℂ), Matrix.reindex e e B *ᵥ (v ∘ e.symm) = (B *ᵥ v) ∘ e.symm := by
    intro B v
    rw [Matrix.reindex_apply, Matrix.submatrix_mulVec_equiv]
    simp [Function.comp_assoc]
  rw [h1, h1]
  have h2 : star ((A *ᵥ ψ) ∘ e.symm) = star (A *ᵥ ψ) ∘ e.symm := rfl
  rw [h2, dotProduct_comp_equiv_symm]
  simp [Function.comp_assoc]

theorem exists_forall₂ {α β : Type} (r : α → β → Prop) (l : List α) (h : ∀ a ∈ l, ∃ b, r a b) :
    ∃ l', List.Forall₂ r l l' := by
  induction l with
  | nil => exact ⟨[], List.Forall₂.nil⟩
  | cons a l ih =>
    obtain ⟨b, hb⟩ := h a List.mem_cons_self
    obtain ⟨l', hl'⟩ := ih (fun a' ha' => h a' (List.mem_cons_of_mem _ ha'))
    exact ⟨b :: l', List.Forall₂.cons hb hl'⟩


theorem derivative_exec_pos [DecidableEq ℝ] (negl : ℝ → Bool) (h : PSum (ℝ × ℝ))
    (hnd : ∀ t ∈ h, (t.ops.map (·.1)).Nodup) (N : Nat) (hN : 0 < N) (hlt : ∀ t ∈ h, ∀ q ∈ t.ops.map (·.1), q < N)
    (time : ℝ) (n : ℕ) (hn : 1 ≤ n) (C0 : Circ ℝ) (hev : timeEvolution realAlg negl h time n = .ok C0)
    (l : List (ℝ × Circ ℝ)) (hl : derivatives realAlg negl h time n = .ok l)
    (O : Matrix (Fin (2 ^ N)) (Fin (2 ^ N)) ℂ) (ψ : Fin (2 ^ N) → ℂ) :
    ∃ (Us : ℝ → Mat ℂ) (Ul : List (ℝ × Mat ℂ)),
      (∀ s, ∃ C, timeEvolution realAlg negl h s n = .ok C ∧ unitary Scal.complex angReal N C = some (Us s)) ∧
      List.Forall₂ (fun x y => y.1 = x.1 ∧ unitary Scal.complex angReal N x.2 = some y.2) l Ul ∧
      HasDerivAt (fun s => star (Mat.toM (2 ^ N) (2 ^ N) (Us s) *ᵥ ψ) ⬝ᵥ (O *ᵥ (Mat.toM (2 ^ N) (2 ^ N) (Us s) *ᵥ ψ)))
        ((Ul.map (fun y => (y.1 : ℂ) *
            (star (Mat.toM (2 ^ N) (2 ^ N) y.2 *ᵥ ψ) ⬝ᵥ (O *ᵥ (Mat.toM (2 ^ N) (2 ^ N) y.2 *ᵥ ψ))))).sum)
        time := by
  set rg := regN N hN with hrg
  have hcov : ∀ t ∈ h, rg.Covers t := fun t ht => regN_covers N hN t (hlt t ht)
  obtain ⟨U, hU, hder⟩ := derivative_correct negl rg h hcov hnd time n hn C0 hev l hl
    (Matrix.reindex (C01.bvEquiv N) (C01.bvEquiv N) O) (ψ ∘ (C01.bvEquiv N).symm)
  -- the executable unitary of the evolution circuit at every time
  have hexec : ∀ s, ∃ Ue : Mat ℂ, ∃ C, timeEvolution realAlg negl h s n = .ok C ∧
      unitary Scal.complex angReal N C = some Ue ∧ C01.toBV N Ue = U s := by
    intro s
    obtain ⟨C, hC, hCU⟩ := hU s
    obtain ⟨cs, hcs, rfl, _⟩ := (evolution_product_order Scal.complex realAlg negl angReal rg.e h s n hn C).mp hC
    have hok := (timeEvolution_ops_ok realAlg negl h (realAlg.smul (1 / (n : ℝ)) s) n cs hcs hnd N hlt).2
    obtain ⟨Ue, hUe, _, _, hs⟩ := unitary_spec Scal.complex angReal N rg.e (regN_e N hN) _ hok
    exact ⟨Ue, _, hC, hUe, hs.trans hCU⟩
  choose Us hUs using hexec
  -- the executable unitaries of the derivative circuits
  have hlok := derivatives_ops_ok realAlg negl h time n hn l hl hnd N hlt
  obtain ⟨Ul, hUl⟩ := exists_forall₂ (fun (x : ℝ × Circ ℝ) (y : ℝ × Mat ℂ) => y.1 = x.1 ∧
      unitary Scal.complex angReal N x.2 = some y.2 ∧ C01.toBV N y.2 = circSem Scal.complex angReal rg.e x.2) l (by
    intro x hx
    obtain ⟨Ue, hUe, _, _, hs⟩ := unitary_spec Scal.complex angReal N rg.e (regN_e N hN) x.2 (hlok x hx)
    exact ⟨(x.1, Ue), rfl, hUe, hs⟩)
  refine ⟨Us, Ul, ?_, ?_, ?_⟩
  · intro s
    obtain ⟨C, hC, hCe, _⟩ := hUs s
    exact ⟨C, hC, hCe⟩
  · exact List.Forall₂.imp (fun _ _ hxy => ⟨hxy.1, hxy.2.1⟩) hUl
  · have hf : (fun s => star (Mat.toM (2 ^ N) (2 ^ N) (Us s) *ᵥ ψ) ⬝ᵥ (O *ᵥ (Mat.toM (2 ^ N) (2 ^ N) (Us s) *ᵥ ψ)))
        = fun s => star (U s *ᵥ (ψ ∘ (C01.bvEquiv N).symm)) ⬝ᵥ
            (Matrix.reindex (C01.bvEquiv N) (C01.bvEquiv N) O *ᵥ (U s *ᵥ (ψ ∘ (C01.bvEquiv N).symm))) := by
      funext s
      obtain ⟨C, _, _, hCs⟩ := hUs s
      rw [← hCs]
      exact (expect_reindex (C01.bvEquiv N) O (Mat.toM (2 ^ N) (2 ^ N) (Us s)) ψ).symm
    have hsum : (Ul.map (fun y => (y.1 : ℂ) *
            (star (Mat.toM (2 ^ N) (2 ^ N) y.2 *ᵥ ψ) ⬝ᵥ (O *ᵥ (Mat.toM (2 ^ N) (2 ^ N) y.2 *ᵥ ψ)))))
        = l.map (fun x => (x.1 : ℂ) *
            (star (circSem Scal.complex angReal rg.e x.2 *ᵥ (ψ ∘ (C01.bvEquiv N).symm)) ⬝ᵥ
              (Matrix.reindex (C01.bvEquiv N) (C01.bvEquiv N) O *ᵥ
                (circSem Scal.complex angReal rg.e x.2 *ᵥ (ψ ∘ (C01.bvEquiv N).symm))))) := by
      apply map_eq_of_forall₂ _ _ _ l Ul hUl
      intro x y _ hxy
      rw [hxy.1, ← hxy.2.2]
      congr 1
      exact (expect_reindex (C01.bvEquiv N) O (Mat.toM (2 ^ N) (2 ^ N) y.2) ψ).symm
    rw [hf, hsum]
    exact hder


theorem forall₂_map_right {α β : Type} (r : α → β → Prop) (f : α → β) (l : List α) (h : ∀ a ∈ l, r a (f a)) :
    List.Forall₂ r l (l.map f) := by
  induction l with
  | nil => exact List.Forall₂.nil
  | cons a l ih =>
    exact List.Forall₂.cons (h a List.mem_cons_self) (ih (fun a' ha' => h a' (List.mem_cons_of_mem _ ha')))

theorem derivative_exec_zero [DecidableEq ℝ] (negl : ℝ → Bool) (h : PSum (ℝ × ℝ))
    (hnd : ∀ t ∈ h, (t.ops.map (·.1)).Nodup) (hlt : ∀ t ∈ h, ∀ q ∈ t.ops.map (·.1), q < 0)
    (time : ℝ) (n : ℕ) (hn : 1 ≤ n) (C0 : Circ ℝ) (hev : timeEvolution realAlg negl h time n = .ok C0)
    (l : List (ℝ × Circ ℝ)) (hl : derivatives realAlg negl h time n = .ok l)
    (O : Matrix (Fin (2 ^ 0)) (Fin (2 ^ 0)) ℂ) (ψ : Fin (2 ^ 0) → ℂ) :
    ∃ (Us : ℝ → Mat ℂ) (Ul : List (ℝ × Mat ℂ)),
      (∀ s, ∃ C, timeEvolution realAlg negl h s n = .ok C ∧ unitary Scal.complex angReal 0 C = some (Us s)) ∧
      List.Forall₂ (fun x y => y.1 = x.1 ∧ unitary Scal.complex angReal 0 x.2 = some y.2) l Ul ∧
      HasDerivAt (fun s => star (Mat.toM (2 ^ 0) (2 ^ 0) (Us s) *ᵥ ψ) ⬝ᵥ (O *ᵥ (Mat.toM (2 ^ 0) (2 ^ 0) (Us s) *ᵥ ψ)))
        ((Ul.map (fun y => (y.1 : ℂ) *
            (star (Mat.toM (2 ^ 0) (2 ^ 0) y.2 *ᵥ ψ) ⬝ᵥ (O *ᵥ (Mat.toM (2 ^ 0) (2 ^ 0) y.2 *ᵥ ψ))))).sum)
        time := by
  have hlt1 : ∀ t ∈ h, ∀ q ∈ t.ops.map (·.1), q < 1 := fun t ht q hq => by have := hlt t ht q hq; omega
  obtain ⟨Us1, Ul1, hUs1, hUl1, hder1⟩ := derivative_exec_pos negl h hnd 1 (by omega) hlt1 time n hn C0 hev l hl
    1 (fun _ => 1)
  -- every circuit involved is empty
  have hC : ∀ s C, timeEvolution realAlg negl h s n = .ok C → C = [] :=
    fun s C hC => (evolution_exec_zero realAlg negl h hnd hlt s n hn C hC).1
  have hlnil : ∀ x ∈ l, x.2 = [] := by
    intro x hx
    apply List.eq_nil_iff_forall_not_mem.mpr
    intro o ho
    exact not_ok_zero o (derivatives_ops_ok realAlg negl h time n hn l hl hnd 0 hlt x hx o ho)
  -- the factors sum to 0
  have hUs1' : ∀ s, Us1 s = Mat.identity (2 ^ 1) := by
    intro s
    obtain ⟨C, hCs, hCu⟩ := hUs1 s
    rw [hC s C hCs] at hCu
    exact (Option.some.inj hCu).symm
  set c0 : ℂ := star ((1 : Matrix (Fin (2 ^ 1)) (Fin (2 ^ 1)) ℂ) *ᵥ (fun _ => (1 : ℂ))) ⬝ᵥ
      ((1 : Matrix (Fin (2 ^ 1)) (Fin (2 ^ 1)) ℂ) *ᵥ ((1 : Matrix (Fin (2 ^ 1)) (Fin (2 ^ 1)) ℂ) *ᵥ (fun _ => (1 : ℂ)))) with hc0
  have hc0' : c0 ≠ 0 := by
    rw [hc0]
    simp [dotProduct]
  have hf1 : (fun s => star (Mat.toM (2 ^ 1) (2 ^ 1) (Us1 s) *ᵥ (fun _ => (1 : ℂ))) ⬝ᵥ
      ((1 : Matrix (Fin (2 ^ 1)) (Fin (2 ^ 1)) ℂ) *ᵥ (Mat.toM (2 ^ 1) (2 ^ 1) (Us1 s) *ᵥ (fun _ => (1 : ℂ))))) = fun _ => c0 := by
    funext s
    rw [hUs1' s, Mat.toM_identity]
  have hs1 : (Ul1.map (fun y => (y.1 : ℂ) * (star (Mat.toM (2 ^ 1) (2 ^ 1) y.2 *ᵥ (fun _ => (1 : ℂ))) ⬝ᵥ
      ((1 : Matrix (Fin (2 ^ 1)) (Fin (2 ^ 1)) ℂ) *ᵥ (Mat.toM (2 ^ 1) (2 ^ 1) y.2 *ᵥ (fun _ => (1 : ℂ)))))))
      = l.map (fun x => (x.1 : ℂ) * c0) := by
    apply map_eq_of_forall₂ _ _ _ l Ul1 hUl1
    intro x y hx hxy
    have hy : y.2 = Mat.identity (2 ^ 1) := by
      have := hxy.2
      rw [hlnil x hx] at this
      exact (Option.some.inj this).symm
    rw [hxy.1, hy, Mat.toM_identity]
  rw [hf1, hs1] at hder1
  have hsum0 : (l.map (fun x => (x.1 : ℂ))).sum = 0 := by
    have h0 := hder1.unique (hasDerivAt_const time c0)
    rw [List.sum_map_mul_right] at h0
    exact (mul_eq_zero.mp h0).resolve_right hc0'
  refine ⟨fun _ => Mat.identity (2 ^ 0), l.map (fun x => (x.1, Mat.identity (2 ^ 0))), ?_, ?_, ?_⟩
  · intro s
    obtain ⟨C, hCs, _⟩ := hUs1 s
    refine ⟨C, hCs, ?_⟩
    rw [hC s C hCs]; rfl
  · apply forall₂_map_right
    intro x hx
    refine ⟨rfl, ?_⟩
    rw [hlnil x hx]; rfl
  · rw [List.map_map]
    have : (l.map ((fun (y : ℝ × Mat ℂ) => (y.1 : ℂ) * (star (Mat.toM (2 ^ 0) (2 ^ 0) y.2 *ᵥ ψ) ⬝ᵥ
        (O *ᵥ (Mat.toM (2 ^ 0) (2 ^ 0) y.2 *ᵥ ψ)))) ∘ (fun (x : ℝ × Circ ℝ) => (x.1, Mat.identity (2 ^ 0))))).sum = 0 := by
      show (l.map (fun x => (x.1 : ℂ) * (star (Mat.toM (2 ^ 0) (2 ^ 0) (Mat.identity (2 ^ 0)) *ᵥ ψ) ⬝ᵥ
        (O *ᵥ (Mat.toM (2 ^ 0) (2 ^ 0) (Mat.identity (2 ^ 0)) *ᵥ ψ))))).sum = 0
      rw [List.sum_map_mul_right, hsum0, zero_mul]
    rw [this]
    exact hasDerivAt_const time _

end complex

/-! ### the driver's ring ℚ(ζ₈) and angle interpretation -/

theorem scalLaws_cyc8 : ScalLaws Scal.cyc8 where
  ii := by decide +kernel
  rr := by decide +kernel
  cj := rfl
  star_i := by decide +kernel
  star_r := by decide +kernel

/-- the angle interpretation of the driver (OQ/Driver/C16.lean): half-angle points in ℚ(ζ₈) of a·τ + b·π -/
def driverAng (base : Ang Cyc8) (θ : Rat × Rat) : Ang Cyc8 := (evalAng base θ).getD Ang.zero

theorem driverAng_half_pi (base : Ang Cyc8) :
    driverAng base (ratAlg.smul (1 / ((2 : ℕ) : ℚ)) ratAlg.pi) = ⟨Scal.cyc8.r, Scal.cyc8.r⟩ := by
  have h1 : ratAlg.smul (1 / ((2 : ℕ) : ℚ)) ratAlg.pi = (0, 1 / 2) := by decide +kernel
  rw [h1]
  have h2 : evalAng base (0, 1 / 2) = some (Ang.add (angZsmul base 0) (angZsmul ⟨Cyc8.rsqrt2, Cyc8.rsqrt2⟩ 1)) := by
    unfold evalAng
    rw [if_pos (by decide +kernel)]
    have e1 : ((0 : ℚ), (1 / 2 : ℚ)).1.num = 0 := by decide +kernel
    have e2 : (((0 : ℚ), (1 / 2 : ℚ)).2 * 2).num = 1 := by decide +kernel
    rw [e1, e2]
  unfold driverAng
  rw [h2]
  have h3 : angZsmul base 0 = Ang.zero := rfl
  rw [h3, Option.getD_some]
  have hext : ∀ a b : Ang Cyc8, a.ch = b.ch → a.sh = b.sh → a = b := by
    intro a b h1 h2; cases a; cases b; simp_all
  apply hext <;> decide +kernel

end OQ.C16.Link
