/- helper lemmas for C11 (not property theorems) -/
import OQ.Model.C11
import Mathlib.Algebra.BigOperators.Group.List.Basic
import Mathlib.Tactic.Ring
import Mathlib.Tactic.Abel
import Mathlib.Tactic.Linarith
import Mathlib.Data.List.Perm.Basic
import Mathlib.Data.List.Nodup
import Mathlib.Data.Complex.Basic
import Mathlib.Data.Matrix.Basic
import Mathlib.Algebra.BigOperators.Group.Finset.Basic
namespace OQ.C11

/-- the value of a sum under an interpretation `φ ops re im` of a term (e.g. the matrix
    `(re + i·im) · P(ops)`), for coefficient objects valued by `val`. -/
def denote {κ M : Type} [AddCommMonoid M] (φ : Ops → Rat → Rat → M) (val : κ → Rat × Rat) (s : PSum κ) : M :=
  (s.map (fun t => φ t.ops (val t.coef).1 (val t.coef).2)).sum

def Coef.val (c : Coef) : Rat × Rat := (c.re, c.im)

@[simp] theorem Coef.re_real (r : Rat) : (Coef.real r).re = r := rfl
@[simp] theorem Coef.re_cplx (r i : Rat) : (Coef.cplx r i).re = r := rfl
@[simp] theorem Coef.im_real (r : Rat) : (Coef.real r).im = 0 := rfl
@[simp] theorem Coef.im_cplx (r i : Rat) : (Coef.cplx r i).im = i := rfl
theorem Coef.add_re (a b : Coef) : (a.add b).re = a.re + b.re := by
  cases a <;> cases b <;> simp [Coef.add]
theorem Coef.add_im (a b : Coef) : (a.add b).im = a.im + b.im := by
  cases a <;> cases b <;> simp [Coef.add]

/-- what is used of the matrix semantics: it depends only on the *set* of (qubit, operator) pairs and is
    additive in the coefficient. -/
structure Interp {M : Type} [AddCommMonoid M] (φ : Ops → Rat → Rat → M) : Prop where
  perm : ∀ a b : Ops, a.Perm b → φ a = φ b
  add : ∀ k a b c d, φ k (a + b) (c + d) = φ k a c + φ k b d
  zero : ∀ k, φ k 0 0 = 0

section
variable {M : Type} [AddCommMonoid M] (φ : Ops → Rat → Rat → M)

theorem denote_nil {κ} (val : κ → Rat × Rat) : denote φ val ([] : PSum κ) = 0 := by simp [denote]
theorem denote_cons {κ} (val : κ → Rat × Rat) (t : Term κ) (s : PSum κ) :
    denote φ val (t :: s) = φ t.ops (val t.coef).1 (val t.coef).2 + denote φ val s := by simp [denote]
theorem denote_append {κ} (val : κ → Rat × Rat) (a b : PSum κ) :
    denote φ val (a ++ b) = denote φ val a + denote φ val b := by simp [denote]

def gsum (gs : List (List (Term Coef))) : M := (gs.map (denote φ Coef.val)).sum

theorem gsum_insertGroup (gs : List (List (Term Coef))) (t : Term Coef) :
    gsum φ (insertGroup gs t) = gsum φ gs + φ t.ops t.coef.re t.coef.im := by
  induction gs with
  | nil => simp [insertGroup, gsum, denote, Coef.val]
  | cons g rest ih =>
    cases g with
    | nil =>
      simp only [insertGroup]
      simp only [gsum, List.map_cons, List.sum_cons] at ih ⊢
      rw [ih]; abel
    | cons h tl =>
      simp only [insertGroup]
      split
      · simp only [gsum, List.map_cons, List.sum_cons, denote_append]
        simp [denote, Coef.val]; abel
      · simp only [gsum, List.map_cons, List.sum_cons] at ih ⊢
        rw [ih]; abel

theorem gsum_groups_aux (s : PSum Coef) (gs : List (List (Term Coef))) :
    gsum φ (s.foldl insertGroup gs) = gsum φ gs + denote φ Coef.val s := by
  induction s generalizing gs with
  | nil => simp [denote]
  | cons t s ih =>
    simp only [List.foldl_cons]
    rw [ih, gsum_insertGroup, denote_cons]; simp [Coef.val]; abel

theorem gsum_groups (s : PSum Coef) : gsum φ (groups s) = denote φ Coef.val s := by
  unfold groups; rw [gsum_groups_aux]; simp [gsum]


/-! ### groups of like terms -/

/-- every group is non-empty and all its members carry the key of its head -/
def GoodGroups (gs : List (List (Term Coef))) : Prop :=
  ∀ g ∈ gs, ∃ h tl, g = h :: tl ∧ ∀ t ∈ g, h.ops.Perm t.ops

theorem sameKey_iff (a b : Ops) : sameKey a b = true ↔ a.Perm b := by
  unfold sameKey; exact List.isPerm_iff

theorem goodGroups_insert (gs : List (List (Term Coef))) (t : Term Coef) (hg : GoodGroups gs) :
    GoodGroups (insertGroup gs t) := by
  induction gs with
  | nil =>
    intro g hgm
    simp only [insertGroup, List.mem_singleton] at hgm
    subst hgm
    exact ⟨t, [], rfl, by simp⟩
  | cons g rest ih =>
    have hrest : GoodGroups rest := fun g' hg' => hg g' (List.mem_cons_of_mem _ hg')
    cases g with
    | nil =>
      simp only [insertGroup]
      intro g' hg'
      rcases List.mem_cons.mp hg' with h | h
      · exact hg g' (by simp [h])
      · exact ih hrest g' h
    | cons h tl =>
      simp only [insertGroup]
      split
      · rename_i hk
        intro g' hg'
        rcases List.mem_cons.mp hg' with h' | h'
        · subst h'
          obtain ⟨h0, tl0, e, hall⟩ := hg (h :: tl) (by simp)
          have e1 : h0 = h := by simp at e; exact e.1.symm
          subst e1
          refine ⟨h0, tl ++ [t], by simp, ?_⟩
          intro x hx
          rw [List.mem_append, List.mem_singleton] at hx
          rcases hx with hx | hx
          · exact hall x hx
          · subst hx; exact (sameKey_iff _ _).mp hk
        · exact hrest g' h'
      · intro g' hg'
        rcases List.mem_cons.mp hg' with h' | h'
        · exact hg g' (by simp [h'])
        · exact ih hrest g' h'

theorem goodGroups_foldl (s : PSum Coef) (gs : List (List (Term Coef))) (hg : GoodGroups gs) :
    GoodGroups (s.foldl insertGroup gs) := by
  induction s generalizing gs with
  | nil => exact hg
  | cons t s ih => exact ih _ (goodGroups_insert gs t hg)

theorem goodGroups_groups (s : PSum Coef) : GoodGroups (groups s) :=
  goodGroups_foldl s [] (fun _ h => by simp at h)

theorem sumCoef_aux (g : List (Term Coef)) (acc : Coef) :
    (g.foldl (fun acc t => acc.add t.coef) acc).re = acc.re + (g.map (fun t => t.coef.re)).sum ∧
    (g.foldl (fun acc t => acc.add t.coef) acc).im = acc.im + (g.map (fun t => t.coef.im)).sum := by
  induction g generalizing acc with
  | nil => simp
  | cons t g ih =>
    simp only [List.foldl_cons, List.map_cons, List.sum_cons]
    obtain ⟨h1, h2⟩ := ih (acc.add t.coef)
    rw [h1, h2]
    rw [Coef.add_re, Coef.add_im]; constructor <;> ring

theorem sumCoef_val (g : List (Term Coef)) :
    (sumCoef g).re = (g.map (fun t => t.coef.re)).sum ∧ (sumCoef g).im = (g.map (fun t => t.coef.im)).sum := by
  have := sumCoef_aux g Coef.zeroInt
  simpa [sumCoef, Coef.zeroInt] using this

variable {φ}

/-- a group of like terms denotes its head key with the summed coefficient -/
theorem denote_group (hφ : Interp φ) (h : Term Coef) (g : List (Term Coef))
    (hall : ∀ t ∈ g, h.ops.Perm t.ops) :
    denote φ Coef.val g = φ h.ops (g.map (fun t => t.coef.re)).sum (g.map (fun t => t.coef.im)).sum := by
  induction g with
  | nil => simp [denote, hφ.zero]
  | cons t g ih =>
    rw [denote_cons, ih (fun x hx => hall x (List.mem_cons_of_mem _ hx))]
    simp only [List.map_cons, List.sum_cons, Coef.val]
    rw [hφ.add, hφ.perm _ _ (hall t (by simp))]

/-- what `simplify` drops from one group: the summed coefficient when it is negligible -/
def droppedGroup (negl : Rat → Rat → Bool) (g : List (Term Coef)) : Option (Term Coef) :=
  match g with
  | [] => none
  | first :: rest =>
    if rest.isEmpty && !negl first.coef.re first.coef.im then none
    else
      let coeff := sumCoef g
      if !negl coeff.re coeff.im then none else some ⟨first.ops, coeff⟩

/-- everything `simplify` drops -/
def simplifyDropped (negl : Rat → Rat → Bool) (s : PSum Coef) : PSum Coef :=
  (groups s).filterMap (droppedGroup negl)

/-- everything dropped while the terms of `s` are added one by one to `acc` -/
def foldDropped (negl : Rat → Rat → Bool) : PSum Coef → PSum Coef → PSum Coef
  | _, [] => []
  | acc, t :: s => simplifyDropped negl (acc ++ [t]) ++ foldDropped negl (addTerm negl acc t) s

theorem droppedGroup_negl (negl : Rat → Rat → Bool) (g : List (Term Coef)) (d : Term Coef)
    (h : droppedGroup negl g = some d) : negl d.coef.re d.coef.im = true := by
  cases g with
  | nil => simp [droppedGroup] at h
  | cons first rest =>
    simp only [droppedGroup] at h
    split at h
    · simp at h
    · split at h
      · simp at h
      · rename_i hn
        simp only [Option.some.injEq] at h; subst h
        simpa using hn

/-- one group: what `simplify` keeps plus what it drops is the group -/
theorem simplifyGroup_denote (hφ : Interp φ) (negl : Rat → Rat → Bool) (g : List (Term Coef))
    (hg : ∃ h tl, g = h :: tl ∧ ∀ t ∈ g, h.ops.Perm t.ops) :
    denote φ Coef.val (simplifyGroup negl g).toList + denote φ Coef.val (droppedGroup negl g).toList =
      denote φ Coef.val g := by
  obtain ⟨h, tl, e, hall⟩ := hg
  subst e
  have hd := denote_group hφ h (h :: tl) hall
  have hs := sumCoef_val (h :: tl)
  simp only [simplifyGroup, droppedGroup]
  split
  · rename_i hc
    simp only [Bool.and_eq_true, List.isEmpty_iff] at hc
    rw [hc.1]
    simp [denote]
  · split
    · rw [hd]
      simp [denote, Coef.val, hs.1, hs.2]
    · rw [hd]
      simp [denote, Coef.val, hs.1, hs.2]

theorem filterMap_denote (hφ : Interp φ) (negl : Rat → Rat → Bool) (gs : List (List (Term Coef)))
    (hg : GoodGroups gs) :
    denote φ Coef.val (gs.filterMap (simplifyGroup negl)) + denote φ Coef.val (gs.filterMap (droppedGroup negl)) =
      gsum φ gs := by
  induction gs with
  | nil => simp [denote, gsum]
  | cons g rest ih =>
    have e1 := simplifyGroup_denote hφ negl g (hg g (by simp))
    have e2 := ih (fun g' hg' => hg g' (List.mem_cons_of_mem _ hg'))
    have h1 : (g :: rest).filterMap (simplifyGroup negl) =
        (simplifyGroup negl g).toList ++ rest.filterMap (simplifyGroup negl) := by
      cases hsg : simplifyGroup negl g <;> simp [hsg]
    have h2 : (g :: rest).filterMap (droppedGroup negl) =
        (droppedGroup negl g).toList ++ rest.filterMap (droppedGroup negl) := by
      cases hsg : droppedGroup negl g <;> simp [hsg]
    rw [h1, h2, denote_append, denote_append]
    simp only [gsum, List.map_cons, List.sum_cons] at e2 ⊢
    rw [← e1, ← e2]; abel

/-- `simplify` changes the denoted value only by the negligible coefficients it drops -/
theorem simplify_denote (hφ : Interp φ) (negl : Rat → Rat → Bool) (s : PSum Coef) :
    denote φ Coef.val (simplify negl s) + denote φ Coef.val (simplifyDropped negl s) = denote φ Coef.val s := by
  rw [← gsum_groups φ s]
  exact filterMap_denote hφ negl (groups s) (goodGroups_groups s)

theorem simplifyDropped_negl (negl : Rat → Rat → Bool) (s : PSum Coef) :
    ∀ d ∈ simplifyDropped negl s, negl d.coef.re d.coef.im = true := by
  intro d hd
  simp only [simplifyDropped, List.mem_filterMap] at hd
  obtain ⟨g, _, hg⟩ := hd
  exact droppedGroup_negl negl g d hg

/-! ### `convert_dict_to_op ∘ convert_op_to_dict` -/

/-- the term rebuilt by `convert_dict_to_op` from the dictionary of `t`: same value, operations in
    frozenset order, `complex` only if the imaginary part is non-zero -/
def rebuilt (order : Ops → Ops) (t : Term Coef) : Term Coef :=
  ⟨order t.ops, if t.coef.im ≠ 0 then .cplx t.coef.re t.coef.im else .real t.coef.re⟩

theorem coefOfDict_termToDict (order : Ops → Ops) (t : Term Coef) :
    coefOfDict (termToDict order t).coefficient = (rebuilt order t).coef := by
  unfold termToDict coefOfDict rebuilt
  cases hc : t.coef with
  | real r => simp
  | cplx r i =>
    by_cases hi : i = 0
    · simp [hi]
    · simp [hi, cmul]

theorem rebuilt_val (order : Ops → Ops) (t : Term Coef) :
    (rebuilt order t).coef.re = t.coef.re ∧ (rebuilt order t).coef.im = t.coef.im := by
  unfold rebuilt
  by_cases hi : t.coef.im = 0
  · simp [hi]
  · simp [hi]

theorem allDistinct_iff {α : Type} [DecidableEq α] (l : List α) : allDistinct l = true ↔ l.Nodup := by
  induction l with
  | nil => simp [allDistinct]
  | cons x xs ih => simp [allDistinct, ih, List.nodup_cons]

theorem wf_order (order : Ops → Ops) (hord : ∀ o, (order o).Perm o) {κ : Type} (t : Term κ) (ht : t.WF) :
    ((order t.ops).map (fun p => p.1)).Nodup ∧ ∀ p ∈ order t.ops, p.2 ≠ Pauli.I := by
  constructor
  · exact ((hord t.ops).map _).nodup_iff.mpr ht.1
  · intro p hp; exact ht.2 p ((hord t.ops).mem_iff.mp hp)

theorem fromIterable_ops (l : Ops) (h1 : (l.map (fun p => p.1)).Nodup) (h2 : ∀ p ∈ l, p.2 ≠ Pauli.I) (c : Coef) :
    fromIterable (l.map (fun o => (o.2, (o.1 : Int)))) c = .ok ⟨l, c⟩ := by
  have hd : allDistinct ((l.map (fun o => (o.2, (o.1 : Int)))).map (fun p => p.2)) = true := by
    rw [allDistinct_iff, List.map_map]
    have : ((fun p : Pauli × Int => p.2) ∘ fun o : Nat × Pauli => (o.2, (o.1 : Int))) =
        (fun n : Nat => (n : Int)) ∘ (fun p : Nat × Pauli => p.1) := by funext o; rfl
    rw [this, ← List.map_map]
    exact List.Nodup.map (fun a b h => by simpa using h) h1
  have hf : (l.map (fun o => (o.2, (o.1 : Int)))).filter (fun p => p.1 ≠ Pauli.I) =
      l.map (fun o => (o.2, (o.1 : Int))) := by
    rw [List.filter_eq_self]
    intro p hp
    simp only [List.mem_map] at hp
    obtain ⟨o, ho, rfl⟩ := hp
    simpa using h2 o ho
  have ha : (((l.map (fun o => (o.2, (o.1 : Int)))).map (fun p : Pauli × Int => (p.2, p.1))).any
      (fun p => decide (p.1 < 0))) = false := by
    simp [List.any_eq_false]
  have hm : (((l.map (fun o => (o.2, (o.1 : Int)))).map (fun p : Pauli × Int => (p.2, p.1))).map
      (fun p => (p.1.toNat, p.2))) = l := by
    simp [List.map_map, Function.comp_def]
  unfold fromIterable
  rw [hd]
  simp only [Bool.not_true, Bool.false_eq_true, if_false]
  rw [hf, ha]
  simp only [Bool.false_eq_true, if_false]
  rw [hm]

theorem fromIterable_termToDict (order : Ops → Ops) (hord : ∀ o, (order o).Perm o) (t : Term Coef)
    (ht : t.WF) (c : Coef) :
    fromIterable ((termToDict order t).pauliOps.map (fun p => (p.op, p.qubit))) c = .ok ⟨order t.ops, c⟩ := by
  obtain ⟨h1, h2⟩ := wf_order order hord t ht
  have e : (termToDict order t).pauliOps.map (fun p => (p.op, p.qubit)) =
      (order t.ops).map (fun o => (o.2, (o.1 : Int))) := by
    simp [termToDict, List.map_map, Function.comp_def]
  rw [e]
  exact fromIterable_ops _ h1 h2 c

theorem dictToOp_aux (negl : Rat → Rat → Bool) (order : Ops → Ops) (hord : ∀ o, (order o).Perm o)
    (s : PSum Coef) (hs : ∀ t ∈ s, t.WF) (acc : PSum Coef) :
    (s.map (termToDict order)).foldlM (fun full td => do
      let operator := td.pauliOps.map (fun p => (p.op, p.qubit))
      let t ← fromIterable operator (coefOfDict td.coefficient)
      pure (addTerm negl full t)) acc
    = (Except.ok ((s.map (rebuilt order)).foldl (addTerm negl) acc) : Except Err (PSum Coef)) := by
  induction s generalizing acc with
  | nil => rfl
  | cons t s ih =>
    simp only [List.map_cons, List.foldlM_cons, List.foldl_cons]
    rw [fromIterable_termToDict order hord t (hs t (by simp)), coefOfDict_termToDict]
    simp only [bind, Except.bind, pure, Except.pure]
    exact ih (fun x hx => hs x (List.mem_cons_of_mem _ hx)) _

theorem dictToOp_opToDict (negl : Rat → Rat → Bool) (order : Ops → Ops) (hord : ∀ o, (order o).Perm o)
    (s : PSum Coef) (hs : ∀ t ∈ s, t.WF) :
    dictToOp negl (opToDict order s) = .ok ((s.map (rebuilt order)).foldl (addTerm negl) []) :=
  dictToOp_aux negl order hord s hs []

theorem denote_rebuilt (hφ : Interp φ) (order : Ops → Ops) (hord : ∀ o, (order o).Perm o) (s : PSum Coef) :
    denote φ Coef.val (s.map (rebuilt order)) = denote φ Coef.val s := by
  induction s with
  | nil => rfl
  | cons t s ih =>
    rw [List.map_cons, denote_cons, denote_cons, ih]
    simp [Coef.val, (rebuilt_val order t).1, (rebuilt_val order t).2]
    simp [rebuilt, hφ.perm _ _ (hord t.ops)]

theorem foldDropped_negl (negl : Rat → Rat → Bool) (s acc : PSum Coef) :
    ∀ d ∈ foldDropped negl acc s, negl d.coef.re d.coef.im = true := by
  induction s generalizing acc with
  | nil => intro d hd; simp [foldDropped] at hd
  | cons t s ih =>
    intro d hd
    simp only [foldDropped, List.mem_append] at hd
    rcases hd with h | h
    · exact simplifyDropped_negl negl _ d h
    · exact ih _ d h

theorem foldl_addTerm_denote (hφ : Interp φ) (negl : Rat → Rat → Bool) (s acc : PSum Coef) :
    denote φ Coef.val (s.foldl (addTerm negl) acc) + denote φ Coef.val (foldDropped negl acc s) =
      denote φ Coef.val acc + denote φ Coef.val s := by
  induction s generalizing acc with
  | nil => simp [denote, foldDropped]
  | cons t s ih =>
    have e1 := simplify_denote hφ negl (acc ++ [t])
    have e2 := ih (addTerm negl acc t)
    simp only [List.foldl_cons, foldDropped]
    rw [denote_append, add_comm (denote φ Coef.val (simplifyDropped negl (acc ++ [t]))), ← add_assoc, e2]
    have e3 : addTerm negl acc t = simplify negl (acc ++ [t]) := rfl
    rw [e3, add_right_comm, e1, denote_append, denote_cons, denote_cons, denote_nil]
    abel

/-! ### simplified sums are fixed points -/

/-- a simplified sum: pairwise different keys and no negligible coefficient -/
def Simplified (negl : Rat → Rat → Bool) (s : PSum Coef) : Prop :=
  s.Pairwise (fun a b => ¬ a.ops.Perm b.ops) ∧ ∀ t ∈ s, negl t.coef.re t.coef.im = false

theorem insertGroup_singletons (s : PSum Coef) (t : Term Coef) (h : ∀ a ∈ s, ¬ a.ops.Perm t.ops) :
    insertGroup (s.map (fun a => [a])) t = (s ++ [t]).map (fun a => [a]) := by
  induction s with
  | nil => simp [insertGroup]
  | cons a s ih =>
    have hk : sameKey a.ops t.ops = false := by
      rw [Bool.eq_false_iff]; intro hk; exact h a (by simp) ((sameKey_iff _ _).mp hk)
    simp only [List.map_cons, insertGroup, hk, Bool.false_eq_true, if_false, List.cons_append]
    rw [ih (fun x hx => h x (List.mem_cons_of_mem _ hx))]

theorem groups_aux (s pre : PSum Coef) (h : (pre ++ s).Pairwise (fun a b => ¬ a.ops.Perm b.ops)) :
    s.foldl insertGroup (pre.map (fun a => [a])) = (pre ++ s).map (fun a => [a]) := by
  induction s generalizing pre with
  | nil => simp
  | cons t s ih =>
    simp only [List.foldl_cons]
    have h1 : ∀ a ∈ pre, ¬ a.ops.Perm t.ops := by
      intro a ha
      exact (List.pairwise_append.mp h).2.2 a ha t (by simp)
    rw [insertGroup_singletons pre t h1]
    have := ih (pre ++ [t]) (by simpa using h)
    simpa using this

theorem groups_of_distinct (s : PSum Coef) (h : s.Pairwise (fun a b => ¬ a.ops.Perm b.ops)) :
    groups s = s.map (fun a => [a]) := by
  have := groups_aux s [] (by simpa using h)
  simpa [groups] using this

theorem simplify_of_simplified (negl : Rat → Rat → Bool) (s : PSum Coef) (h : Simplified negl s) :
    simplify negl s = s := by
  unfold simplify
  rw [groups_of_distinct s h.1]
  have h2 := h.2
  clear h
  induction s with
  | nil => rfl
  | cons t s ih =>
    have ht : negl t.coef.re t.coef.im = false := h2 t (by simp)
    simp only [List.map_cons, List.filterMap_cons, simplifyGroup, List.isEmpty_nil, ht, Bool.not_false,
      Bool.and_self, if_true]
    rw [ih (fun x hx => h2 x (List.mem_cons_of_mem _ hx))]

theorem simplified_prefix (negl : Rat → Rat → Bool) (a b : PSum Coef) (h : Simplified negl (a ++ b)) :
    Simplified negl a :=
  ⟨(List.pairwise_append.mp h.1).1, fun t ht => h.2 t (List.mem_append_left _ ht)⟩

theorem foldl_addTerm_simplified (negl : Rat → Rat → Bool) (s pre : PSum Coef)
    (h : Simplified negl (pre ++ s)) : s.foldl (addTerm negl) pre = pre ++ s := by
  induction s generalizing pre with
  | nil => simp
  | cons t s ih =>
    simp only [List.foldl_cons]
    have hp : Simplified negl (pre ++ [t]) := by
      apply simplified_prefix negl (pre ++ [t]) s; simpa using h
    have e : addTerm negl pre t = pre ++ [t] := by
      unfold addTerm; exact simplify_of_simplified negl _ hp
    rw [e]
    have := ih (pre ++ [t]) (by simpa using h)
    simpa using this

theorem simplified_rebuilt (negl : Rat → Rat → Bool) (order : Ops → Ops) (hord : ∀ o, (order o).Perm o)
    (s : PSum Coef) (h : Simplified negl s) : Simplified negl (s.map (rebuilt order)) := by
  constructor
  · rw [List.pairwise_map]
    refine h.1.imp ?_
    intro a b hab hp
    apply hab
    exact ((hord a.ops).symm.trans hp).trans (hord b.ops)
  · intro t ht
    simp only [List.mem_map] at ht
    obtain ⟨a, ha, rfl⟩ := ht
    rw [(rebuilt_val order a).1, (rebuilt_val order a).2]
    exact h.2 a ha

/-! ### the output of `simplify` is simplified -/

def DistinctHeads (gs : List (List (Term Coef))) : Prop :=
  gs.Pairwise (fun g g' => ∀ a ∈ g.head?, ∀ b ∈ g'.head?, ¬ a.ops.Perm b.ops)

theorem insertGroup_heads (gs : List (List (Term Coef))) (t : Term Coef) :
    ∀ g' ∈ insertGroup gs t, g'.head? = some t ∨ ∃ g0 ∈ gs, g'.head? = g0.head? := by
  induction gs with
  | nil => intro g' hg'; simp [insertGroup] at hg'; subst hg'; simp
  | cons g rest ih =>
    intro g' hg'
    cases g with
    | nil =>
      simp only [insertGroup, List.mem_cons] at hg'
      rcases hg' with h | h
      · right; exact ⟨[], by simp, by rw [h]⟩
      · rcases ih g' h with h1 | ⟨g0, hg0, e⟩
        · left; exact h1
        · right; exact ⟨g0, List.mem_cons_of_mem _ hg0, e⟩
    | cons hd tl =>
      simp only [insertGroup] at hg'
      split at hg'
      · rcases List.mem_cons.mp hg' with h | h
        · right; exact ⟨hd :: tl, by simp, by rw [h]; simp⟩
        · right; exact ⟨g', List.mem_cons_of_mem _ h, rfl⟩
      · rcases List.mem_cons.mp hg' with h | h
        · right; exact ⟨hd :: tl, by simp, by rw [h]⟩
        · rcases ih g' h with h1 | ⟨g0, hg0, e⟩
          · left; exact h1
          · right; exact ⟨g0, List.mem_cons_of_mem _ hg0, e⟩

theorem distinctHeads_insert (gs : List (List (Term Coef))) (t : Term Coef) (hd : DistinctHeads gs) :
    DistinctHeads (insertGroup gs t) := by
  induction gs with
  | nil => simp [insertGroup, DistinctHeads]
  | cons g rest ih =>
    have hd' := List.pairwise_cons.mp hd
    cases g with
    | nil =>
      simp only [insertGroup]
      refine List.pairwise_cons.mpr ⟨?_, ih hd'.2⟩
      intro g' _ a ha; simp at ha
    | cons h tl =>
      simp only [insertGroup]
      split
      · refine List.pairwise_cons.mpr ⟨?_, hd'.2⟩
        intro g' hg' a ha b hb
        simp only [List.head?_append, List.head?_cons, Option.some_or, Option.mem_def, Option.some.injEq] at ha
        exact hd'.1 g' hg' a (by simp [ha]) b hb
      · rename_i hk
        refine List.pairwise_cons.mpr ⟨?_, ih hd'.2⟩
        intro g' hg' a ha b hb
        simp only [List.head?_cons, Option.mem_def, Option.some.injEq] at ha
        subst ha
        rcases insertGroup_heads rest t g' hg' with h1 | ⟨g0, hg0, e⟩
        · rw [h1] at hb; simp only [Option.mem_def, Option.some.injEq] at hb; subst hb
          intro hp; exact hk ((sameKey_iff _ _).mpr hp)
        · rw [e] at hb
          exact hd'.1 g0 hg0 h (by simp) b hb

theorem distinctHeads_groups (s : PSum Coef) : DistinctHeads (groups s) := by
  unfold groups
  have : ∀ gs, DistinctHeads gs → DistinctHeads (s.foldl insertGroup gs) := by
    induction s with
    | nil => intro gs h; exact h
    | cons t s ih => intro gs h; exact ih _ (distinctHeads_insert gs t h)
  exact this [] (by simp [DistinctHeads])

theorem simplifyGroup_spec (negl : Rat → Rat → Bool) (g : List (Term Coef)) (b : Term Coef)
    (hb : simplifyGroup negl g = some b) :
    (∃ a, g.head? = some a ∧ b.ops = a.ops) ∧ negl b.coef.re b.coef.im = false := by
  cases g with
  | nil => simp [simplifyGroup] at hb
  | cons first rest =>
    simp only [simplifyGroup] at hb
    split at hb
    · rename_i hc
      simp only [Option.some.injEq] at hb; subst hb
      simp only [Bool.and_eq_true, Bool.not_eq_eq_eq_not, Bool.not_true] at hc
      exact ⟨⟨first, rfl, rfl⟩, hc.2⟩
    · split at hb
      · rename_i hc
        simp only [Option.some.injEq] at hb; subst hb
        exact ⟨⟨first, rfl, rfl⟩, by simpa using hc⟩
      · simp at hb

theorem simplify_simplified (negl : Rat → Rat → Bool) (s : PSum Coef) : Simplified negl (simplify negl s) := by
  unfold simplify
  constructor
  · refine List.Pairwise.filterMap _ ?_ (distinctHeads_groups s)
    intro g g' hgg b hb b' hb'
    obtain ⟨⟨a, ha, ea⟩, _⟩ := simplifyGroup_spec negl g b hb
    obtain ⟨⟨a', ha', ea'⟩, _⟩ := simplifyGroup_spec negl g' b' hb'
    rw [ea, ea']
    exact hgg a ha a' ha'
  · intro t ht
    simp only [List.mem_filterMap] at ht
    obtain ⟨g, _, hg⟩ := ht
    exact (simplifyGroup_spec negl g t hg).2

end

/-! ## Text: digits -/

theorem digitVal_digitChar (d : Nat) (h : d < 10) : digitVal (digitChar d) = some d := by
  have : d = 0 ∨ d = 1 ∨ d = 2 ∨ d = 3 ∨ d = 4 ∨ d = 5 ∨ d = 6 ∨ d = 7 ∨ d = 8 ∨ d = 9 := by omega
  rcases this with rfl | rfl | rfl | rfl | rfl | rfl | rfl | rfl | rfl | rfl <;> decide

def valLE : List Char → Nat
  | [] => 0
  | c :: rest => (digitVal c).getD 0 + 10 * valLE rest

theorem readNat_reverse (l : List Char) : readNat l.reverse = valLE l := by
  unfold readNat
  rw [List.foldl_reverse]
  induction l with
  | nil => rfl
  | cons c l ih => simp only [List.foldr_cons, valLE, ih]; omega

theorem digitsLE_val (fuel n : Nat) (h : n ≤ fuel) : valLE (digitsLE fuel n) = n := by
  induction fuel generalizing n with
  | zero =>
    have : n = 0 := by omega
    subst this; decide
  | succ f ih =>
    unfold digitsLE
    by_cases hn : n < 10
    · simp [hn, valLE, digitVal_digitChar n hn]
    · simp only [hn, if_false, valLE]
      rw [digitVal_digitChar _ (Nat.mod_lt _ (by omega)), ih (n / 10) (by omega)]
      simp only [Option.getD_some]; omega

theorem digitsLE_digits (fuel n : Nat) : ∀ c ∈ digitsLE fuel n, (digitVal c).isSome = true := by
  induction fuel generalizing n with
  | zero =>
    intro c hc
    simp only [digitsLE, List.mem_singleton] at hc
    subst hc; rw [digitVal_digitChar _ (Nat.mod_lt _ (by omega))]; rfl
  | succ f ih =>
    intro c hc
    unfold digitsLE at hc
    by_cases hn : n < 10
    · simp only [hn, if_true, List.mem_singleton] at hc
      subst hc; rw [digitVal_digitChar _ hn]; rfl
    · simp only [hn, if_false, List.mem_cons] at hc
      rcases hc with hc | hc
      · subst hc; rw [digitVal_digitChar _ (Nat.mod_lt _ (by omega))]; rfl
      · exact ih _ c hc

theorem digitsLE_ne_nil (fuel n : Nat) : digitsLE fuel n ≠ [] := by
  cases fuel with
  | zero => simp [digitsLE]
  | succ f => unfold digitsLE; split <;> simp

theorem readNat_showNat (n : Nat) : readNat (showNat n) = n := by
  unfold showNat; rw [readNat_reverse]; exact digitsLE_val n n (le_refl _)

theorem showNat_digits (n : Nat) : ∀ c ∈ showNat n, (digitVal c).isSome = true := by
  intro c hc
  unfold showNat at hc
  exact digitsLE_digits n n c (List.mem_reverse.mp hc)

theorem showNat_ne_nil (n : Nat) : showNat n ≠ [] := by
  unfold showNat
  intro h
  exact digitsLE_ne_nil n n (List.reverse_eq_nil_iff.mp h)

/-- characters that never occur in the operator part of a printed term -/
def Plain (c : Char) : Prop := c ≠ '+' ∧ c ≠ '(' ∧ c ≠ ')' ∧ isWhite c = false

theorem digit_plain (c : Char) (h : (digitVal c).isSome = true) : Plain c ∧ c ≠ '*' ∧ c ≠ '\n' := by
  refine ⟨⟨?_, ?_, ?_, ?_⟩, ?_, ?_⟩
  · rintro rfl; exact absurd h (by decide)
  · rintro rfl; exact absurd h (by decide)
  · rintro rfl; exact absurd h (by decide)
  · simp only [isWhite, Bool.decide_or, Bool.or_eq_false_iff, decide_eq_false_iff_not]
    refine ⟨?_, ?_, ?_, ?_, ?_, ?_, ?_, ?_, ?_, ?_⟩ <;> (rintro rfl; exact absurd h (by decide))
  · rintro rfl; exact absurd h (by decide)
  · rintro rfl; exact absurd h (by decide)

theorem pauliChar_plain (p : Pauli) : Plain (pauliChar p) ∧ pauliChar p ≠ '*' := by
  cases p <;> (refine ⟨⟨?_, ?_, ?_, ?_⟩, ?_⟩ <;> decide)

theorem pauliOfChar_pauliChar (p : Pauli) : pauliOfChar (pauliChar p) = some p := by
  cases p <;> decide

/-- `_parse_operator` reads back what `__repr__` prints for one operator -/
theorem parseOperator_repr (n : Nat) (p : Pauli) : parseOperator (pauliChar p :: showNat n) = some (n, p) := by
  unfold parseOperator
  simp only [pauliOfChar_pauliChar]
  have hl : (showNat n).getLast? ≠ some '\n' := by
    intro h
    obtain ⟨ys, hy⟩ := List.getLast?_eq_some_iff.mp h
    have : '\n' ∈ showNat n := by rw [hy]; simp
    exact (digit_plain _ (showNat_digits n _ this)).2.2 rfl
  have hall : (showNat n).all (fun d => (digitVal d).isSome) = true := by
    rw [List.all_eq_true]; exact showNat_digits n
  have hne : (showNat n).isEmpty = false := by
    cases h : showNat n with
    | nil => exact absurd h (showNat_ne_nil n)
    | cons a b => rfl
  simp [hl, hall, hne, readNat_showNat]

/-! ## Text: splitting -/

theorem splitStar_ne_nil (s : List Char) : splitStar s ≠ [] := by
  cases s with
  | nil => simp [splitStar]
  | cons c rest =>
    unfold splitStar
    split
    · simp
    · split <;> simp

theorem splitStar_plain (a : List Char) (h : ∀ c ∈ a, c ≠ '*') : splitStar a = [a] := by
  induction a with
  | nil => rfl
  | cons c a ih =>
    unfold splitStar
    rw [ih (fun x hx => h x (List.mem_cons_of_mem _ hx))]
    simp [h c (by simp)]

theorem splitStar_append (a rest : List Char) (h : ∀ c ∈ a, c ≠ '*') :
    splitStar (a ++ '*' :: rest) = a :: splitStar rest := by
  induction a with
  | nil => simp [splitStar]
  | cons c a ih =>
    rw [List.cons_append]
    simp only [splitStar]
    rw [ih (fun x hx => h x (List.mem_cons_of_mem _ hx))]
    simp [h c (by simp)]

theorem splitStar_join (strs : List (List Char)) (hne : strs ≠ []) (h : ∀ s ∈ strs, ∀ c ∈ s, c ≠ '*') :
    splitStar (joinWith ['*'] strs) = strs := by
  induction strs with
  | nil => exact absurd rfl hne
  | cons x rest ih =>
    cases rest with
    | nil => simp only [joinWith]; exact splitStar_plain x (h x (by simp))
    | cons y rest' =>
      simp only [joinWith, List.append_assoc, List.singleton_append]
      rw [splitStar_append x _ (h x (by simp))]
      rw [ih (by simp) (fun s hs => h s (List.mem_cons_of_mem _ hs))]

theorem dropWhile_none (p : Char → Bool) (s : List Char) (h : ∀ c ∈ s, p c = false) : s.dropWhile p = s := by
  cases s with
  | nil => rfl
  | cons c s => simp [List.dropWhile, h c (by simp)]

theorem dropWhile_all (p : Char → Bool) (pre s : List Char) (h : ∀ c ∈ pre, p c = true) :
    (pre ++ s).dropWhile p = s.dropWhile p := by
  induction pre with
  | nil => rfl
  | cons c pre ih =>
    simp only [List.cons_append, List.dropWhile, h c (by simp)]
    exact ih (fun x hx => h x (List.mem_cons_of_mem _ hx))

theorem stripBy_none (p : Char → Bool) (s : List Char) (h : ∀ c ∈ s, p c = false) : stripBy p s = s := by
  unfold stripBy
  rw [dropWhile_none p s h, dropWhile_none p s.reverse (fun c hc => h c (List.mem_reverse.mp hc))]
  simp

theorem stripBy_pad (p : Char → Bool) (pre T post : List Char) (hpre : ∀ c ∈ pre, p c = true)
    (hpost : ∀ c ∈ post, p c = true) (hT : ∀ c ∈ T, p c = false) (hne : T ≠ []) :
    stripBy p (pre ++ T ++ post) = T := by
  unfold stripBy
  rw [List.append_assoc, dropWhile_all p pre _ hpre]
  have h1 : (T ++ post).dropWhile p = T ++ post := by
    cases T with
    | nil => exact absurd rfl hne
    | cons c T => simp [hT c (by simp)]
  rw [h1, List.reverse_append, dropWhile_all p post.reverse _ (fun c hc => hpost c (List.mem_reverse.mp hc))]
  rw [dropWhile_none p T.reverse (fun c hc => hT c (List.mem_reverse.mp hc))]
  simp

theorem firstBracket_append (a b : List Char) :
    firstBracket (a ++ b) = (firstBracket a).or (firstBracket b) := by
  induction a with
  | nil => simp [firstBracket]
  | cons c a ih =>
    simp only [List.cons_append, firstBracket]
    split
    · simp
    · exact ih

theorem firstBracket_plain (a : List Char) (h : ∀ c ∈ a, c ≠ '(' ∧ c ≠ ')') : firstBracket a = none := by
  induction a with
  | nil => rfl
  | cons c a ih =>
    simp only [firstBracket]
    have := h c (by simp)
    simp [this.1, this.2, ih (fun x hx => h x (List.mem_cons_of_mem _ hx))]

theorem splitPlus_ne_nil (s : List Char) : splitPlus s ≠ [] := by
  cases s with
  | nil => simp [splitPlus]
  | cons c rest =>
    unfold splitPlus
    split
    · simp
    · split <;> simp

/-- a text whose `+` are all bracketed is never cut, whatever follows it -/
theorem splitPlus_closed (T rest : List Char) (hT : plusClosed T = true) (h : List Char) (t : List (List Char))
    (hr : splitPlus rest = h :: t) : splitPlus (T ++ rest) = (T ++ h) :: t := by
  induction T with
  | nil => simpa using hr
  | cons c T ih =>
    simp only [plusClosed, Bool.and_eq_true, Bool.or_eq_true, decide_eq_true_eq] at hT
    rw [List.cons_append]
    simp only [splitPlus]
    rw [ih hT.2]
    have hno : ¬ (c = '+' ∧ ¬ closesFirst (T ++ rest) = true) := by
      rintro ⟨hc, hcl⟩
      apply hcl
      rcases hT.1 with h1 | h1
      · exact absurd hc h1
      · unfold closesFirst at h1 ⊢
        simp only [decide_eq_true_eq] at h1 ⊢
        rw [firstBracket_append, h1]; rfl
    rw [if_neg hno]
    rfl

theorem plusClosed_append (a b : List Char) (ha : plusClosed a = true) (hb : ∀ c ∈ b, c ≠ '+') :
    plusClosed (a ++ b) = true := by
  induction a with
  | nil =>
    induction b with
    | nil => rfl
    | cons c b ihb =>
      simp only [List.nil_append, plusClosed, Bool.and_eq_true, Bool.or_eq_true, decide_eq_true_eq]
      exact ⟨Or.inl (hb c (by simp)), by simpa using ihb (fun x hx => hb x (List.mem_cons_of_mem _ hx))⟩
  | cons c a ih =>
    simp only [plusClosed, Bool.and_eq_true, Bool.or_eq_true, decide_eq_true_eq, List.cons_append] at ha ⊢
    refine ⟨?_, ih ha.2⟩
    rcases ha.1 with h1 | h1
    · exact Or.inl h1
    · right
      unfold closesFirst at h1 ⊢
      simp only [decide_eq_true_eq] at h1 ⊢
      rw [firstBracket_append, h1]; rfl


/-! ## Text: one term -/

/-- the laws of `str(c)` and `complex(text)` assumed for a coefficient object `c`
    (they hold for Python ints, floats and complex numbers of magnitude below 1e15; the
    correspondence run re-checks `ok` and `brackets` on every coefficient it generates) -/
structure CoefLaw {κ : Type} (showC : κ → List Char) (readC : List Char → Option (Rat × Rat))
    (val : κ → Rat × Rat) (c : κ) : Prop where
  ok : coefTextOK (showC c) = true
  read : readC (showC c) = some (val c)
  brackets : (val c).1 ≠ 0 → (val c).2 ≠ 0 → isInBrackets (showC c) = true

theorem coefTextOK_unpack (s : List Char) (h : coefTextOK s = true) :
    (∀ c ∈ s, c ≠ '*' ∧ isWhite c = false) ∧ plusClosed s = true ∧ firstBracket s ≠ some ')' := by
  unfold coefTextOK at h
  simp only [Bool.and_eq_true, List.all_eq_true, decide_eq_true_eq, Bool.not_eq_true', ne_eq] at h
  exact ⟨fun c hc => by simpa using h.1.1 c hc, h.1.2, by simpa using h.2⟩

theorem isSpace_white (c : Char) (h : isWhite c = false) : isSpace c = false := by
  unfold isWhite at h; unfold isSpace
  simp only [Bool.decide_or, Bool.or_eq_false_iff, decide_eq_false_iff_not] at h
  simp [h.1]

theorem reprOps_chars (ops : Ops) : ∀ s ∈ reprOps ops, ∀ c ∈ s, Plain c ∧ c ≠ '*' := by
  intro s hs c hc
  simp only [reprOps, List.mem_map] at hs
  obtain ⟨p, _, rfl⟩ := hs
  rcases List.mem_cons.mp hc with h | h
  · subst h; exact pauliChar_plain p.2
  · have := digit_plain c (showNat_digits p.1 c h); exact ⟨this.1, this.2.1⟩

theorem reprOps_ne_I (ops : Ops) : ∀ s ∈ reprOps ops, s ≠ ['I'] := by
  intro s hs
  simp only [reprOps, List.mem_map] at hs
  obtain ⟨p, _, rfl⟩ := hs
  intro h
  simp only [List.cons.injEq] at h
  exact showNat_ne_nil p.1 h.2

theorem mapM_parseOperator_reprOps (ops : Ops) : (reprOps ops).mapM parseOperator = some ops := by
  induction ops with
  | nil => rfl
  | cons p ops ih =>
    simp only [reprOps, List.map_cons, List.mapM_cons] at ih ⊢
    rw [parseOperator_repr, ih]; rfl

/-- `termStrs` of `__repr__` -/
def termStrs (ops : Ops) : List (List Char) := if (reprOps ops).isEmpty then [['I']] else reprOps ops

theorem termStrs_ne_nil (ops : Ops) : termStrs ops ≠ [] := by
  unfold termStrs; split
  · simp
  · rename_i h; intro h'; rw [h'] at h; simp at h

theorem termStrs_chars (ops : Ops) : ∀ s ∈ termStrs ops, ∀ c ∈ s, Plain c ∧ c ≠ '*' := by
  unfold termStrs; split
  · intro s hs c hc
    simp only [List.mem_singleton] at hs; subst hs
    simp only [List.mem_singleton] at hc; subst hc
    refine ⟨⟨?_, ?_, ?_, ?_⟩, ?_⟩ <;> decide
  · exact reprOps_chars ops

theorem termStrs_filter (ops : Ops) : (termStrs ops).filter (fun s => s ≠ ['I']) = reprOps ops := by
  unfold termStrs; split
  · rename_i h
    rw [List.isEmpty_iff] at h
    rw [h]; decide
  · rw [List.filter_eq_self]
    intro s hs; simpa using reprOps_ne_I ops s hs

theorem upsert_fresh (d : Ops) (k : Nat) (v : Pauli) (h : k ∉ d.map (fun p => p.1)) :
    upsert d k v = d ++ [(k, v)] := by
  induction d with
  | nil => rfl
  | cons p d ih =>
    obtain ⟨k', v'⟩ := p
    simp only [List.map_cons, List.mem_cons, not_or] at h
    simp only [upsert, List.cons_append]
    rw [if_neg (fun e => h.1 e.symm), ih h.2]

theorem dictOf_aux (l acc : Ops) (h : ((acc ++ l).map (fun p => p.1)).Nodup) :
    l.foldl (fun d p => upsert d p.1 p.2) acc = acc ++ l := by
  induction l generalizing acc with
  | nil => simp
  | cons p l ih =>
    simp only [List.foldl_cons]
    have hfresh : p.1 ∉ acc.map (fun p => p.1) := by
      rw [List.map_append, List.map_cons] at h
      have := (List.nodup_append.mp h).2.2
      intro hm
      exact this _ hm _ (by simp) rfl
    rw [upsert_fresh acc p.1 p.2 hfresh, ih (acc ++ [(p.1, p.2)]) (by simpa using h)]
    simp

theorem dictOf_nodup (l : Ops) (h : (l.map (fun p => p.1)).Nodup) : dictOf l = l := by
  unfold dictOf; simpa using dictOf_aux l [] (by simpa using h)

section
variable {κ : Type} (showC : κ → List Char) (readC : List Char → Option (Rat × Rat)) (val : κ → Rat × Rat)

theorem reprTerm_eq (t : Term κ) : reprTerm showC t = showC t.coef ++ '*' :: joinWith ['*'] (termStrs t.ops) := rfl

theorem joinWith_chars (sep : List Char) (strs : List (List Char)) (P : Char → Prop)
    (hs : ∀ c ∈ sep, P c) (h : ∀ s ∈ strs, ∀ c ∈ s, P c) : ∀ c ∈ joinWith sep strs, P c := by
  induction strs with
  | nil => intro c hc; simp [joinWith] at hc
  | cons x rest ih =>
    cases rest with
    | nil => simpa [joinWith] using h x (by simp)
    | cons y rest' =>
      intro c hc
      simp only [joinWith, List.mem_append] at hc
      rcases hc with (hc | hc) | hc
      · exact h x (by simp) c hc
      · exact hs c hc
      · exact ih (fun s hs' => h s (List.mem_cons_of_mem _ hs')) c hc

/-- the operator part `*X0*Y12` of a printed term: stars and plain characters only -/
theorem opsPart_chars (ops : Ops) : ∀ c ∈ '*' :: joinWith ['*'] (termStrs ops), Plain c := by
  intro c hc
  rcases List.mem_cons.mp hc with h | h
  · subst h; refine ⟨?_, ?_, ?_, ?_⟩ <;> decide
  · refine joinWith_chars ['*'] (termStrs ops) Plain ?_ (fun s hs c hc => (termStrs_chars ops s hs c hc).1) c h
    intro c hc; simp only [List.mem_singleton] at hc; subst hc
    refine ⟨?_, ?_, ?_, ?_⟩ <;> decide

variable {showC readC val}

theorem reprTerm_white (t : Term κ) (hl : CoefLaw showC readC val t.coef) :
    ∀ c ∈ reprTerm showC t, isWhite c = false := by
  intro c hc
  rw [reprTerm_eq, List.mem_append] at hc
  rcases hc with h | h
  · exact ((coefTextOK_unpack _ hl.ok).1 c h).2
  · exact (opsPart_chars t.ops c h).2.2.2

theorem reprTerm_ne_nil (t : Term κ) : reprTerm showC t ≠ [] := by
  rw [reprTerm_eq]; simp

theorem reprTerm_plusClosed (t : Term κ) (hl : CoefLaw showC readC val t.coef) :
    plusClosed (reprTerm showC t) = true := by
  rw [reprTerm_eq]
  exact plusClosed_append _ _ (coefTextOK_unpack _ hl.ok).2.1 (fun c hc => (opsPart_chars t.ops c hc).1)

theorem reprTerm_firstBracket (t : Term κ) (hl : CoefLaw showC readC val t.coef) :
    firstBracket (reprTerm showC t) ≠ some ')' := by
  rw [reprTerm_eq, firstBracket_append,
    firstBracket_plain ('*' :: joinWith ['*'] (termStrs t.ops))
      (fun c hc => ⟨(opsPart_chars t.ops c hc).2.1, (opsPart_chars t.ops c hc).2.2.1⟩)]
  have := (coefTextOK_unpack _ hl.ok).2.2
  cases h : firstBracket (showC t.coef) <;> simp_all

theorem parseComplex_show (c : κ) (hl : CoefLaw showC readC val c) :
    parseComplex readC (showC c) = some (val c) := by
  unfold parseComplex
  have hf : (showC c).filter (fun ch => ch ≠ ' ') = showC c := by
    rw [List.filter_eq_self]
    intro ch hch
    have := isSpace_white ch ((coefTextOK_unpack _ hl.ok).1 ch hch).2
    simpa [isSpace] using this
  rw [hf, hl.read]
  simp only
  split
  · rename_i h
    exact absurd (hl.brackets h.1 h.2.1) (by simpa using h.2.2)
  · rfl

/-- `PauliTerm(str(t))` has the operations of `t` (same order) and the coefficient `complex(str(c))` -/
theorem parseTerm_reprTerm (t : Term κ) (ht : t.WF) (hl : CoefLaw showC readC val t.coef) :
    parseTerm readC (reprTerm showC t) = some ⟨t.ops, val t.coef⟩ := by
  have hw := reprTerm_white t hl
  have hstrip : stripBy isSpace (reprTerm showC t) = reprTerm showC t :=
    stripBy_none _ _ (fun c hc => isSpace_white c (hw c hc))
  have hsplit : splitStar (reprTerm showC t) = showC t.coef :: termStrs t.ops := by
    rw [reprTerm_eq, splitStar_append _ _ (fun c hc => ((coefTextOK_unpack _ hl.ok).1 c hc).1)]
    rw [splitStar_join _ (termStrs_ne_nil _) (fun s hs c hc => (termStrs_chars t.ops s hs c hc).2)]
  have hparts : (splitStar (stripBy isSpace (reprTerm showC t))).map (stripBy isSpace) =
      showC t.coef :: termStrs t.ops := by
    rw [hstrip, hsplit, List.map_cons]
    congr 1
    · exact stripBy_none _ _ (fun c hc => isSpace_white c ((coefTextOK_unpack _ hl.ok).1 c hc).2)
    · rw [List.map_congr_left (g := id)]
      · simp
      · intro s hs
        exact stripBy_none _ _ (fun c hc => isSpace_white c (termStrs_chars t.ops s hs c hc).1.2.2.2)
  have hd := dictOf_nodup t.ops ht.1
  have hfil : t.ops.filter (fun p => p.2 ≠ Pauli.I) = t.ops := by
    rw [List.filter_eq_self]; intro p hp; simpa using ht.2 p hp
  unfold parseTerm parseOpsAndCoef
  simp only [hparts, parseComplex_show t.coef hl, termStrs_filter, mapM_parseOperator_reprOps, hd]
  simp only [reprOps, List.length_map, ne_eq, not_true_eq_false, if_false, Option.getD_some]
  congr 2

end


/-! ## Text: sums -/

section
variable {κ : Type} {showC : κ → List Char} {readC : List Char → Option (Rat × Rat)} {val : κ → Rat × Rat}

theorem stripBy_cons_white (p : Char → Bool) (c : Char) (h : List Char) (hp : p c = true) :
    stripBy p (c :: h) = stripBy p h := by
  unfold stripBy; simp [List.dropWhile, hp]

theorem firstBracket_sep (J : List Char) : firstBracket (' ' :: '+' :: ' ' :: J) = firstBracket J := by
  simp [firstBracket]

theorem firstBracket_join (ts : PSum κ) (hne : ts ≠ []) (hl : ∀ t ∈ ts, CoefLaw showC readC val t.coef) :
    firstBracket (joinWith [' ', '+', ' '] (ts.map (reprTerm showC))) ≠ some ')' := by
  induction ts with
  | nil => exact absurd rfl hne
  | cons t rest ih =>
    cases rest with
    | nil => simpa [joinWith] using reprTerm_firstBracket t (hl t (by simp))
    | cons u rest' =>
      simp only [List.map_cons, joinWith, List.append_assoc, List.cons_append, List.nil_append]
      rw [firstBracket_append, firstBracket_sep]
      have h1 := reprTerm_firstBracket t (hl t (by simp))
      have h2 := ih (by simp) (fun x hx => hl x (List.mem_cons_of_mem _ hx))
      simp only [List.map_cons] at h2
      cases h : firstBracket (reprTerm showC t) with
      | none => simpa using h2
      | some x => rw [h] at h1; simpa using h1

theorem splitPlus_join (ts : PSum κ) (hne : ts ≠ []) (hl : ∀ t ∈ ts, CoefLaw showC readC val t.coef) :
    (splitPlus (joinWith [' ', '+', ' '] (ts.map (reprTerm showC)))).map (stripBy isWhite) =
      ts.map (reprTerm showC) := by
  induction ts with
  | nil => exact absurd rfl hne
  | cons t rest ih =>
    have hlt := hl t (by simp)
    cases rest with
    | nil =>
      simp only [List.map_cons, List.map_nil, joinWith]
      have := splitPlus_closed (reprTerm showC t) [] (reprTerm_plusClosed t hlt) [] [] rfl
      rw [List.append_nil] at this
      rw [this]
      simp [stripBy_none isWhite _ (reprTerm_white t hlt)]
    | cons u rest' =>
      have ih' := ih (by simp) (fun x hx => hl x (List.mem_cons_of_mem _ hx))
      have hfb := firstBracket_join (u :: rest') (by simp) (fun x hx => hl x (List.mem_cons_of_mem _ hx))
      generalize hJ : joinWith [' ', '+', ' '] ((u :: rest').map (reprTerm showC)) = J at ih' hfb
      have hjoin : joinWith [' ', '+', ' '] ((t :: u :: rest').map (reprTerm showC)) =
          (reprTerm showC t ++ [' ']) ++ ('+' :: ' ' :: J) := by
        simp only [List.map_cons, joinWith] at hJ ⊢
        rw [hJ]; simp
      rw [hjoin]
      obtain ⟨h, tl, hsp⟩ : ∃ h tl, splitPlus J = h :: tl := by
        cases hs : splitPlus J with
        | nil => exact absurd hs (splitPlus_ne_nil J)
        | cons h tl => exact ⟨h, tl, rfl⟩
      have hsp1 : splitPlus (' ' :: J) = (' ' :: h) :: tl := by
        simp only [splitPlus, hsp]
        rw [if_neg (fun hc => absurd hc.1 (by decide))]
      have hsp2 : splitPlus ('+' :: ' ' :: J) = [] :: (' ' :: h) :: tl := by
        rw [splitPlus, hsp1]
        have : ¬ closesFirst (' ' :: J) = true := by
          unfold closesFirst
          simp only [decide_eq_true_eq]
          have : firstBracket (' ' :: J) = firstBracket J := by simp [firstBracket]
          rw [this]; exact hfb
        rw [if_pos ⟨rfl, this⟩]
      have hpc : plusClosed (reprTerm showC t ++ [' ']) = true :=
        plusClosed_append _ _ (reprTerm_plusClosed t hlt) (by intro c hc; simp at hc; subst hc; decide)
      rw [splitPlus_closed _ _ hpc [] _ hsp2, List.append_nil]
      rw [hsp] at ih'
      simp only [List.map_cons] at ih' ⊢
      rw [stripBy_cons_white isWhite ' ' h (by decide)]
      rw [← ih']
      congr 1
      have := stripBy_pad isWhite [] (reprTerm showC t) [' '] (by simp) (by intro c hc; simp at hc; subst hc; decide)
        (reprTerm_white t hlt) (reprTerm_ne_nil t)
      simpa using this

theorem mapM_parseTerm (ts : PSum κ) (hwf : ∀ t ∈ ts, t.WF) (hl : ∀ t ∈ ts, CoefLaw showC readC val t.coef) :
    (ts.map (reprTerm showC)).mapM (parseTerm readC) =
      some (ts.map (fun t => (⟨t.ops, val t.coef⟩ : Term (Rat × Rat)))) := by
  induction ts with
  | nil => rfl
  | cons t rest ih =>
    simp only [List.map_cons, List.mapM_cons]
    rw [parseTerm_reprTerm t (hwf t (by simp)) (hl t (by simp)),
      ih (fun x hx => hwf x (List.mem_cons_of_mem _ hx)) (fun x hx => hl x (List.mem_cons_of_mem _ hx))]
    rfl

theorem parseSum_join (ts : PSum κ) (hne : ts ≠ []) (hwf : ∀ t ∈ ts, t.WF)
    (hl : ∀ t ∈ ts, CoefLaw showC readC val t.coef) :
    parseSum readC (joinWith [' ', '+', ' '] (ts.map (reprTerm showC))) =
      some (ts.map (fun t => (⟨t.ops, val t.coef⟩ : Term (Rat × Rat)))) := by
  unfold parseSum
  rw [splitPlus_join ts hne hl, mapM_parseTerm ts hwf hl]

end


/-! ## Arrays and frames -/

section
variable {A L : Type} (toL : A → L) (ofL : L → A) (truthy : L → Bool)

theorem array_roundtrip_aux (hback : ∀ a, ofL (toL a) = a) (htruthy : ∀ a, truthy (toL a) = true) (a : CArr A) :
    dictToArray ofL truthy (arrayToDict toL a) = a := by
  obtain ⟨re, im⟩ := a
  cases im with
  | none => simp [arrayToDict, dictToArray, hback]
  | some i => simp [arrayToDict, dictToArray, hback, htruthy]

theorem array_list_roundtrip_aux (hback : ∀ a, ofL (toL a) = a) (htruthy : ∀ a, truthy (toL a) = true)
    (l : List (CArr A)) : (l.map (arrayToDict toL)).map (dictToArray ofL truthy) = l := by
  rw [List.map_map]
  conv_rhs => rw [← List.map_id l]
  exact List.map_congr_left (fun a _ => array_roundtrip_aux toL ofL truthy hback htruthy a)

end


/-! ## The matrix semantics is an interpretation -/

section
open Complex

/-- entries of the 2×2 Pauli matrices (rows/columns indexed by the bit) -/
def pauliEntry : Pauli → Bool → Bool → ℂ
  | .I, a, b => if a = b then 1 else 0
  | .X, a, b => if a = b then 0 else 1
  | .Y, a, b => if a = b then 0 else (if a then I else -I)
  | .Z, a, b => if a = b then (if a then -1 else 1) else 0

/-- the factor contributed by qubit `q` to the entry `(i, j)` of the Kronecker product: the Pauli stored
    for `q`, or the identity when `q` is idle -/
noncomputable def qubitFactor (ops : Ops) (q : Nat) (a b : Bool) : ℂ :=
  let l := ops.filter (fun p => p.1 = q)
  if l = [] then pauliEntry .I a b else (l.map (fun p => pauliEntry p.2 a b)).prod

/-- the `2ⁿ × 2ⁿ` matrix of the Pauli string `ops` on `n` qubits: entrywise Kronecker product -/
noncomputable def pauliMatrix (n : Nat) (ops : Ops) : Matrix (Fin n → Bool) (Fin n → Bool) ℂ :=
  fun i j => ∏ q : Fin n, qubitFactor ops q.1 (i q) (j q)

/-- the matrix denoted by one term: `(re + i·im) · P(ops)` -/
noncomputable def termMatrix (n : Nat) (ops : Ops) (re im : Rat) : Matrix (Fin n → Bool) (Fin n → Bool) ℂ :=
  ((re : ℂ) + (im : ℂ) * I) • pauliMatrix n ops

theorem qubitFactor_perm (a b : Ops) (h : a.Perm b) (q : Nat) (x y : Bool) :
    qubitFactor a q x y = qubitFactor b q x y := by
  unfold qubitFactor
  have hf := h.filter (fun p => p.1 = q)
  simp only
  by_cases h1 : a.filter (fun p => decide (p.1 = q)) = []
  · have h2 : b.filter (fun p => decide (p.1 = q)) = [] := by
      rw [h1] at hf; exact List.Perm.eq_nil hf.symm
    simp [h1, h2]
  · have h2 : b.filter (fun p => decide (p.1 = q)) ≠ [] := by
      intro h2; rw [h2] at hf; exact h1 (List.Perm.eq_nil hf)
    simp only [h1, h2, if_false]
    exact (hf.map _).prod_eq

/-- the matrix semantics is an interpretation in the sense of `Interp` -/
theorem termMatrix_interp (n : Nat) : Interp (termMatrix n) := by
  refine ⟨?_, ?_, ?_⟩
  · intro a b h
    funext re im
    unfold termMatrix pauliMatrix
    congr 1
    funext i j
    exact Finset.prod_congr rfl (fun q _ => qubitFactor_perm a b h q.1 (i q) (j q))
  · intro k a b c d
    unfold termMatrix
    rw [← add_smul]
    congr 1
    push_cast; ring
  · intro k
    unfold termMatrix
    simp

theorem qubitFactor_stored (q : Nat) (p : Pauli) (a b : Bool) : qubitFactor [(q, p)] q a b = pauliEntry p a b := by
  simp [qubitFactor]

theorem qubitFactor_idle (ops : Ops) (q : Nat) (h : ∀ p ∈ ops, p.1 ≠ q) (a b : Bool) :
    qubitFactor ops q a b = pauliEntry .I a b := by
  unfold qubitFactor
  have : ops.filter (fun p => decide (p.1 = q)) = [] := by
    rw [List.filter_eq_nil_iff]; intro p hp; simpa using h p hp
  simp [this]

/-- the matrix of a whole operator -/
noncomputable def opMatrix {κ : Type} (n : Nat) (val : κ → Rat × Rat) (s : PSum κ) :
    Matrix (Fin n → Bool) (Fin n → Bool) ℂ := denote (termMatrix n) val s

end

end OQ.C11
