/- helper lemmas for `OQ/Props/C11_TranslatedPrinter.lean` (T19): the regular-expression split of the term parser against the model's split-and-strip; not property theorems -/
import OQ.Lemmas.C11_TranslatedT9Parser
import OQ.Props.C11_TranslatedParser
import OQ.Generated.TranslatedC11Text
namespace OQ.C11
open OQ.Py OQ.Generated
open OQ.Py OQ.Generated

/-! ### `re.split(r"\ *\*\ *", s.strip(" "))` = split at `*`, every part stripped of blanks -/

theorem split1_star (s : List Char) : split1 '*' s = splitStar s := by
  induction s with
  | nil => rfl
  | cons c cs ih =>
    simp only [split1, splitStar, ih]
    by_cases h : c = '*'
    · simp [h]
    · simp only [h, if_false]
      cases splitStar cs <;> rfl

theorem stripChars_space (s : List Char) : stripChars s [' '] = stripBy isSpace s := by
  have h : (fun c => [' '].contains c) = isSpace := by
    funext c
    by_cases hc : c = ' ' <;> simp [isSpace, hc]
  simp only [stripChars, stripBy, h]

theorem dropSpacesL_eq (p : List Char) : dropSpacesL p = p.dropWhile isSpace := by
  have h : (fun c : Char => c == ' ') = isSpace := by
    funext c
    by_cases hc : c = ' ' <;> simp [isSpace, hc]
  simp only [dropSpacesL, h]

theorem dropSpacesR_eq (p : List Char) : dropSpacesR p = (p.reverse.dropWhile isSpace).reverse := by
  have h : (fun c : Char => c == ' ') = isSpace := by
    funext c
    by_cases hc : c = ' ' <;> simp [isSpace, hc]
  simp only [dropSpacesR, h]

theorem stripBy_eq_RL (p : List Char) : stripBy isSpace p = dropSpacesR (dropSpacesL p) := by
  rw [dropSpacesR_eq, dropSpacesL_eq]; rfl

/-- no blank at the front / at the end -/
def NoLead (p : List Char) : Prop := p.head? ≠ some ' '
def NoTrail (p : List Char) : Prop := p.getLast? ≠ some ' '

theorem dropSpacesL_of_noLead (p : List Char) (h : NoLead p) : dropSpacesL p = p := by
  rw [dropSpacesL_eq]
  cases p with
  | nil => rfl
  | cons c cs =>
    have : c ≠ ' ' := fun e => h (by simp [e])
    simp [List.dropWhile, isSpace, this]

theorem dropSpacesR_of_noTrail (p : List Char) (h : NoTrail p) : dropSpacesR p = p := by
  rw [dropSpacesR_eq]
  have : NoLead p.reverse := by
    unfold NoLead; rw [List.head?_reverse]; exact h
  have h2 := dropSpacesL_of_noLead p.reverse this
  rw [dropSpacesL_eq] at h2
  rw [h2, List.reverse_reverse]

theorem noLead_dropWhile (p : List Char) : NoLead (p.dropWhile isSpace) := by
  induction p with
  | nil => simp [NoLead]
  | cons c cs ih =>
    by_cases hc : c = ' '
    · simpa [List.dropWhile, isSpace, hc] using ih
    · simp [List.dropWhile, isSpace, hc, NoLead]

theorem noTrail_dropWhile (p : List Char) (h : NoTrail p) : NoTrail (p.dropWhile isSpace) := by
  induction p with
  | nil => simpa using h
  | cons c cs ih =>
    by_cases hc : c = ' '
    · simp only [List.dropWhile, isSpace, hc, decide_true]
      apply ih
      intro e
      apply h
      cases cs with
      | nil => simp at e
      | cons d ds => simpa [List.getLast?_cons_cons] using e
    · simpa [List.dropWhile, isSpace, hc] using h

theorem noLead_stripBy (s : List Char) : NoLead (stripBy isSpace s) := by
  unfold stripBy
  have h1 := noLead_dropWhile s
  have h2 : NoTrail (s.dropWhile isSpace).reverse := by
    unfold NoTrail; rw [List.getLast?_reverse]; exact h1
  have h3 := noTrail_dropWhile _ h2
  unfold NoTrail at h3
  unfold NoLead
  rw [List.head?_reverse]; exact h3

theorem noTrail_stripBy (s : List Char) : NoTrail (stripBy isSpace s) := by
  unfold stripBy NoTrail
  rw [List.getLast?_reverse]
  exact noLead_dropWhile _

/-- `"*".join(s.split("*")) == s` -/
theorem joinWith_splitStar (s : List Char) : joinWith ['*'] (splitStar s) = s := by
  induction s with
  | nil => rfl
  | cons c cs ih =>
    unfold splitStar
    by_cases h : c = '*'
    · simp only [h, if_true]
      cases hs : splitStar cs with
      | nil => exact absurd hs (splitStar_ne_nil cs)
      | cons y rest => rw [hs] at ih; simp [joinWith, ih]
    · simp only [h, if_false]
      cases hs : splitStar cs with
      | nil => exact absurd hs (splitStar_ne_nil cs)
      | cons y rest =>
        rw [hs] at ih
        cases rest with
        | nil => simpa [joinWith] using ih
        | cons z rest' => simp only [joinWith, List.cons_append] at ih ⊢; rw [ih]

theorem head_splitStar (s : List Char) (p : List Char) (rest : List (List Char)) (h : splitStar s = p :: rest)
    (hs : NoLead s) : NoLead p := by
  cases s with
  | nil => simp [splitStar] at h; have h1 := h.1; subst h1; simp [NoLead]
  | cons c cs =>
    unfold splitStar at h
    by_cases hc : c = '*'
    · simp only [hc, if_true, List.cons.injEq] at h; rw [← h.1]; simp [NoLead]
    · simp only [hc, if_false] at h
      have hc' : c ≠ ' ' := fun e => hs (by simp [e])
      cases hh : splitStar cs with
      | nil => rw [hh] at h; simp at h; rw [← h.1]; simp [NoLead, hc']
      | cons y r => rw [hh] at h; simp at h; rw [← h.1]; simp [NoLead, hc']

theorem getLast_joinWith (sep : List Char) (ps : List (List Char)) (q : List Char) (hq : ps.getLast? = some q) (c : Char)
    (h : q.getLast? = some c) : (joinWith sep ps).getLast? = some c := by
  induction ps with
  | nil => simp at hq
  | cons x rest ih =>
    cases rest with
    | nil => simp at hq; subst hq; simpa [joinWith] using h
    | cons y rest' =>
      simp only [joinWith]
      have := ih (by simpa [List.getLast?_cons_cons] using hq)
      rw [List.getLast?_append, this]; rfl

theorem last_splitStar (s : List Char) (hs : NoTrail s) (q : List Char) (hq : (splitStar s).getLast? = some q) : NoTrail q := by
  intro e
  apply hs
  have := getLast_joinWith ['*'] (splitStar s) q hq ' ' e
  rwa [joinWith_splitStar] at this

theorem reSplitStarGo_eq (parts : List (List Char)) (first : Bool)
    (hf : first = true → ∀ p, parts.head? = some p → NoLead p) (hl : ∀ q, parts.getLast? = some q → NoTrail q) :
    reSplitStarGo first parts = parts.map (stripBy isSpace) := by
  induction parts generalizing first with
  | nil => rfl
  | cons p rest ih =>
    cases rest with
    | nil =>
      simp only [reSplitStarGo, List.map_cons, List.map_nil, stripBy_eq_RL]
      have hl' : NoTrail p := hl p (by simp)
      cases first with
      | true =>
        simp only [if_true]
        rw [dropSpacesL_of_noLead p (hf rfl p (by simp)), dropSpacesR_of_noTrail p hl']
      | false =>
        simp only [Bool.false_eq_true, if_false]
        rw [dropSpacesR_of_noTrail]
        rw [dropSpacesL_eq]
        exact noTrail_dropWhile p hl'
    | cons q rest' =>
      simp only [reSplitStarGo, List.map_cons]
      rw [ih false (by simp) (fun r hr => hl r (by simpa [List.getLast?_cons_cons] using hr))]
      simp only [List.map_cons, List.cons.injEq, and_true]
      rw [stripBy_eq_RL]
      cases first with
      | true => simp only [if_true]; rw [dropSpacesL_of_noLead p (hf rfl p (by simp))]
      | false => simp

theorem reSplitStar_strip (s : List Char) :
    reSplitStar (stripChars s [' ']) = (splitStar (stripBy isSpace s)).map (stripBy isSpace) := by
  rw [stripChars_space]
  unfold reSplitStar
  rw [split1_star]
  apply reSplitStarGo_eq _ true
  · intro _ p hp
    cases h : splitStar (stripBy isSpace s) with
    | nil => exact absurd h (splitStar_ne_nil _)
    | cons p' rest =>
      rw [h] at hp; simp at hp; subst hp
      exact head_splitStar _ p' rest h (noLead_stripBy s)
  · exact last_splitStar _ (noTrail_stripBy s)

/-! ### `dict(pairs)` across `Int` / `Nat` keys and `str` / `Pauli` values; the comprehension over `_parse_operator` -/

/-- a parsed factor as the translated code holds it: `(int index, upper-case letter)` -/
def convPair (r : Nat × Pauli) : Int × List Char := ((r.1 : Int), [pauliChar r.2])

theorem dictSet_convPair (d : Ops) (k : Nat) (v : Pauli) :
    dictSet (d.map convPair) ((k : Nat) : Int) [pauliChar v] = (upsert d k v).map convPair := by
  induction d with
  | nil => rfl
  | cons a rest ih =>
    obtain ⟨k', v'⟩ := a
    simp only [List.map_cons, convPair, dictSet, upsert]
    by_cases h : k' = k
    · subst h; simp [convPair]
    · have : ((k' : Int) == (k : Int)) = false := by simpa using h
      simp only [this, h, if_false, Bool.false_eq_true, List.map_cons]
      rw [← ih]; rfl

theorem dictOfPairs_convPair (pairs : List (Nat × Pauli)) :
    dictOfPairs (pairs.map convPair) = (dictOf pairs).map convPair := by
  unfold dictOfPairs dictOf
  suffices H : ∀ acc : Ops, (pairs.map convPair).foldl (fun d p => dictSet d p.1 p.2) (acc.map convPair)
      = (pairs.foldl (fun d p => upsert d p.1 p.2) acc).map convPair from H []
  induction pairs with
  | nil => intro acc; rfl
  | cons p ps ih =>
    intro acc
    simp only [List.map_cons, List.foldl_cons]
    rw [← ih]
    congr 1
    exact dictSet_convPair acc p.1 p.2


theorem mapExc_parse_operator (strs : List (List Char)) :
    mapExc (fun op_str => Except.bind (Translated.parse_operator op_str) (fun r => Except.ok r)) strs
      = liftO ((strs.mapM parseOperator).map (List.map convPair)) := by
  have h : (fun op_str => Except.bind (Translated.parse_operator op_str) (fun r => Except.ok r))
      = fun op_str => liftO ((parseOperator op_str).map convPair) := by
    funext s
    rw [translated_parse_operator_eq]
    cases parseOperator s <;> rfl
  rw [h, mapExc_liftO]
  congr 1
  induction strs with
  | nil => rfl
  | cons x xs ih =>
    simp only [List.mapM_cons] at ih ⊢
    cases parseOperator x with
    | none => rfl
    | some v =>
      simp only [Option.map_some, Option.bind_eq_bind, Option.bind_some] at ih ⊢
      rw [ih]
      cases xs.mapM parseOperator <;> rfl

def convRes (r : Option (Rat × Rat) × Ops) : Option Num × List (Int × List Char) :=
  (r.1.map (fun v => Num.cplx v.1 v.2), r.2.map convPair)

/-- the common tail of both branches (after the `try`) -/
theorem parse_tail (co : Option Num) (c : Option (Rat × Rat)) (hc : co = c.map (fun v => Num.cplx v.1 v.2)) (strs : List (List Char)) :
    (let operators_strs : List (List Char) := ((strs.filter (fun (op_str : List Char) => (op_str != (['I'] : List Char)))).map (fun (op_str : List Char) => op_str))
     Except.bind (OQ.Py.mapExc (fun (op_str : List Char) => Except.bind (Translated.parse_operator op_str) (fun (r4 : Int × (List Char)) => (Except.ok r4))) operators_strs) (fun (xs5 : List (Int × (List Char))) =>
      let operators_dict : List (Int × (List Char)) := (OQ.Py.dictOfPairs xs5)
      (if (((operators_dict.length : Nat) : Int) != ((operators_strs.length : Nat) : Int)) then
        (Except.error OQ.Py.Exc.ValueError)
      else
        Except.bind (OQ.Py.mapExc (fun (op_str : List Char) => Except.bind (Translated.parse_operator op_str) (fun (r6 : Int × (List Char)) => (Except.ok r6))) operators_strs) (fun (xs7 : List (Int × (List Char))) =>
        (Except.ok (co, (OQ.Py.dictOfPairs xs7))))))) =
    liftO ((match (strs.filter (fun s => s ≠ ['I'])).mapM parseOperator with
      | none => none
      | some pairs => if (dictOf pairs).length ≠ (strs.filter (fun s => s ≠ ['I'])).length then none else some (c, dictOf pairs)).map convRes) := by
  have hf : (strs.filter (fun (op_str : List Char) => (op_str != (['I'] : List Char)))) = strs.filter (fun s => s ≠ ['I']) := by
    congr 1; funext s; by_cases h : s = ['I'] <;> simp [h]
  simp only [List.map_id', hf, mapExc_parse_operator]
  generalize strs.filter (fun s => decide (s ≠ ['I'])) = fs
  cases hm : fs.mapM parseOperator with
  | none => rfl
  | some pairs =>
    simp only [Option.map_some, liftO, Except.bind, dictOfPairs_convPair, List.length_map]
    by_cases hl : (dictOf pairs).length = fs.length
    · simp [hl, convRes, hc]
    · have : ((dictOf pairs).length : Int) ≠ (fs.length : Int) := by exact_mod_cast hl
      simp [hl]

/-! ### printing: `str(int)`, `"*".join`, `self[index]` -/

theorem digitChar_eq (d : Nat) (h : d < 10) : OQ.Py.digitChar d = digitChar d := by
  have : d = 0 ∨ d = 1 ∨ d = 2 ∨ d = 3 ∨ d = 4 ∨ d = 5 ∨ d = 6 ∨ d = 7 ∨ d = 8 ∨ d = 9 := by omega
  rcases this with h | h | h | h | h | h | h | h | h | h <;> subst h <;> rfl

theorem decDigits_digitsLE (f n : Nat) (h : n ≤ f) :
    (decDigitsFuel f n).map OQ.Py.digitChar = (digitsLE f n).reverse := by
  induction f generalizing n with
  | zero =>
    have : n = 0 := by omega
    subst this; rfl
  | succ f ih =>
    simp only [decDigitsFuel, digitsLE]
    split
    · rename_i hlt
      simp [digitChar_eq n hlt]
    · rw [List.map_append, ih (n / 10) (by omega)]
      simp [digitChar_eq (n % 10) (Nat.mod_lt _ (by decide))]

theorem strOfInt_nat (n : Nat) : strOfInt (n : Int) = showNat n := by
  unfold strOfInt showNat
  have : ¬ ((n : Int) < 0) := by omega
  simp only [this, if_false, Int.toNat_natCast]
  exact decDigits_digitsLE n n (le_refl _)

theorem join_eq_joinWith (sep : List Char) (parts : List (List Char)) : OQ.Py.join sep parts = joinWith sep parts := by
  induction parts with
  | nil => rfl
  | cons p rest ih =>
    cases rest with
    | nil => rfl
    | cons q rest' => simp only [OQ.Py.join, joinWith, ih]

theorem dictGetD_convPair (ops : Ops) (h : (ops.map (fun p => p.1)).Nodup) (q : Nat) (p : Pauli) (hm : (q, p) ∈ ops) :
    dictGetD (ops.map convPair) ((q : Nat) : Int) ['I'] = [pauliChar p] := by
  induction ops with
  | nil => simp at hm
  | cons a rest ih =>
    obtain ⟨k', v'⟩ := a
    simp only [List.map_cons, List.nodup_cons] at h
    simp only [List.map_cons, convPair, dictGetD]
    rcases List.mem_cons.mp hm with heq | hin
    · cases heq; simp
    · have hne : k' ≠ q := by
        intro e; subst e
        exact h.1 (List.mem_map.mpr ⟨(k', p), hin, rfl⟩)
      have : ((k' : Int) == (q : Int)) = false := by simpa using hne
      simp only [this, Bool.false_eq_true, if_false]
      exact ih h.2 hin

/-! ### the dict returned by `_parse_operators_and_coefficient` and what `PauliTerm.__init__` does with it -/

theorem mem_keys_upsert (d : Ops) (k : Nat) (v : Pauli) (x : Nat) (h : x ∈ (upsert d k v).map (fun p => p.1)) :
    x ∈ d.map (fun p => p.1) ∨ x = k := by
  induction d with
  | nil => simp [upsert] at h; exact .inr h
  | cons a rest ih =>
    obtain ⟨k', v'⟩ := a
    unfold upsert at h
    by_cases hk : k' = k
    · simp only [hk, if_true, List.map_cons, List.mem_cons] at h
      rcases h with h | h
      · exact .inr h
      · exact .inl (by simp [h])
    · simp only [hk, if_false, List.map_cons, List.mem_cons] at h
      rcases h with h | h
      · exact .inl (by simp [h])
      · rcases ih h with h' | h'
        · exact .inl (by simp [h'])
        · exact .inr h'

theorem upsert_keys_nodup (d : Ops) (k : Nat) (v : Pauli) (h : (d.map (fun p => p.1)).Nodup) :
    ((upsert d k v).map (fun p => p.1)).Nodup := by
  induction d with
  | nil => simp [upsert]
  | cons a rest ih =>
    obtain ⟨k', v'⟩ := a
    simp only [List.map_cons, List.nodup_cons] at h
    unfold upsert
    by_cases hk : k' = k
    · simp only [hk, if_true, List.map_cons, List.nodup_cons]; rw [← hk]; exact h
    · simp only [hk, if_false, List.map_cons, List.nodup_cons]
      refine ⟨?_, ih h.2⟩
      intro hm
      rcases mem_keys_upsert rest k v k' hm with h' | h'
      · exact h.1 h'
      · exact hk h'

theorem dictOf_keys_nodup (l : List (Nat × Pauli)) : ((dictOf l).map (fun p => p.1)).Nodup := by
  unfold dictOf
  suffices H : ∀ acc : Ops, (acc.map (fun p => p.1)).Nodup → ((l.foldl (fun d p => upsert d p.1 p.2) acc).map (fun p => p.1)).Nodup from
    H [] (by simp)
  induction l with
  | nil => intro acc h; exact h
  | cons p ps ih => intro acc h; exact ih _ (upsert_keys_nodup acc p.1 p.2 h)

theorem parseOpsAndCoef_keys (readC : List Char → Option (Rat × Rat)) (s : List Char) (coef : Option (Rat × Rat)) (ops : Ops)
    (h : parseOpsAndCoef readC s = some (coef, ops)) : (ops.map (fun p => p.1)).Nodup := by
  unfold parseOpsAndCoef at h
  simp only at h
  repeat' split at h
  all_goals first
    | (injection h with h; injection h with h1 h2; rw [← h2]; exact dictOf_keys_nodup _)
    | cases h

theorem filter_convPair (ops : Ops) :
    (ops.map convPair).filter (fun p4 => p4.2 != ['I']) = (ops.filter (fun p => p.2 ≠ Pauli.I)).map convPair := by
  rw [List.filter_map]
  congr 1
  apply List.filter_congr
  intro a _
  obtain ⟨q, p⟩ := a
  cases p <;> simp [convPair, pauliChar]

theorem nodup_filter_keys (ops : Ops) (h : (ops.map (fun p => p.1)).Nodup) (f : Nat × Pauli → Bool) :
    ((ops.filter f).map (fun p => p.1)).Nodup :=
  (List.filter_sublist.map _).nodup h

/-! ### `str.strip()` and the sum-splitting regular expression against the model's `stripBy isWhite` / `splitPlus` -/

theorem isPyWhite_eq (c : Char) : isPyWhite c = isWhite c := by
  have hd : c = Char.ofNat c.toNat := (Char.ofNat_toNat c).symm
  by_cases hw : c.toNat = 32 ∨ (9 ≤ c.toNat ∧ c.toNat ≤ 13) ∨ (28 ≤ c.toNat ∧ c.toNat ≤ 31)
  · generalize c.toNat = n at *
    subst hd
    have : n = 32 ∨ n = 9 ∨ n = 10 ∨ n = 11 ∨ n = 12 ∨ n = 13 ∨ n = 28 ∨ n = 29 ∨ n = 30 ∨ n = 31 := by omega
    rcases this with h | h | h | h | h | h | h | h | h | h <;> subst h <;> decide
  · have h1 : isPyWhite c = false := by
      unfold isPyWhite
      have h32 : c ≠ ' ' := by intro e; apply hw; left; rw [e]; decide
      simp only [Bool.or_eq_false_iff, Bool.and_eq_false_iff, decide_eq_false_iff_not, beq_eq_false_iff_ne, ne_eq]
      refine ⟨⟨h32, ?_⟩, ?_⟩ <;> omega
    have h2 : isWhite c = false := by
      unfold isWhite
      simp only [Bool.decide_or, Bool.or_eq_false_iff, decide_eq_false_iff_not]
      refine ⟨?_, ?_, ?_, ?_, ?_, ?_, ?_, ?_, ?_, ?_⟩ <;> (intro e; apply hw; rw [e]; decide)
    rw [h1, h2]

theorem stripWs_eq (s : List Char) : stripWs s = stripBy isWhite s := by
  have : isPyWhite = isWhite := funext isPyWhite_eq
  unfold stripWs stripBy; rw [this]

theorem closesBeforeOpen_eq (s : List Char) : closesBeforeOpen s = closesFirst s := by
  unfold closesFirst
  induction s with
  | nil => simp [closesBeforeOpen, firstBracket]
  | cons c rest ih =>
    unfold closesBeforeOpen firstBracket
    by_cases h1 : c = ')'
    · subst h1; simp
    · by_cases h2 : c = '('
      · subst h2; simp
      · simp [h1, h2, ih]

theorem reSplitPlus_eq (s : List Char) : reSplitPlus s = splitPlus s := by
  induction s with
  | nil => rfl
  | cons c rest ih =>
    unfold reSplitPlus splitPlus
    rw [ih, closesBeforeOpen_eq]
    by_cases h : c = '+' ∧ ¬ closesFirst rest = true
    · have : (c == '+' && !closesFirst rest) = true := by simp [h.1, h.2]
      simp [h]
    · have : (c == '+' && !closesFirst rest) = false := by
        by_cases hc : c = '+'
        · have := fun hh => h ⟨hc, hh⟩
          simp [hc] at this ⊢; exact this
        · simp [hc]
      simp only [this, h, Bool.false_eq_true, if_false]
      cases splitPlus rest <;> rfl

theorem mapExc_comp {α β γ : Type} (f : β → Except Exc γ) (g : α → β) (l : List α) :
    mapExc (fun x => f (g x)) l = mapExc f (l.map g) := by
  induction l with
  | nil => rfl
  | cons x xs ih => simp only [mapExc, List.map_cons, ih]

theorem mapM_map_congr {α β β' γ : Type} (f : α → Option β) (f' : α → Option β') (g : β → γ) (g' : β' → γ)
    (h : ∀ x, (f x).map g = (f' x).map g') (l : List α) :
    (l.mapM f).map (List.map g) = (l.mapM f').map (List.map g') := by
  induction l with
  | nil => rfl
  | cons x xs ih =>
    simp only [List.mapM_cons]
    have hx := h x
    cases hf : f x with
    | none =>
      rw [hf] at hx
      cases hf' : f' x with
      | none => rfl
      | some b => rw [hf'] at hx; simp at hx
    | some a =>
      rw [hf] at hx
      cases hf' : f' x with
      | none => rw [hf'] at hx; simp at hx
      | some b =>
        rw [hf'] at hx
        simp only [Option.map_some, Option.some.injEq] at hx
        simp only [Option.bind_eq_bind, Option.bind_some]
        cases h1 : xs.mapM f with
        | none =>
          rw [h1] at ih
          cases h2 : xs.mapM f' with
          | none => rfl
          | some bs => rw [h2] at ih; simp at ih
        | some as =>
          rw [h1] at ih
          cases h2 : xs.mapM f' with
          | none => rw [h2] at ih; simp at ih
          | some bs =>
            rw [h2] at ih
            simp only [Option.map_some, Option.some.injEq] at ih
            simp [hx, ih]

/-! ### the ties of `OQ/Props/C11_TranslatedText.lean` (stated and documented there) -/

theorem parse_operators_and_coefficient_core (readC : List Char → Option (Rat × Rat)) (s : List Char) :
    Translated.parse_operators_and_coefficient (readNum readC) s = liftO ((parseOpsAndCoef readC s).map convRes) := by
  unfold Translated.parse_operators_and_coefficient parseOpsAndCoef
  simp only [reSplitStar_strip]
  generalize hp : (splitStar (stripBy isSpace s)).map (stripBy isSpace) = parts
  have hne : parts ≠ [] := by
    rw [← hp]; intro h; exact splitStar_ne_nil _ (List.map_eq_nil_iff.mp h)
  cases parts with
  | nil => exact absurd rfl hne
  | cons p0 rest =>
    have hi : indexExc (p0 :: rest) 0 = .ok p0 := rfl
    have hs : sliceFrom (p0 :: rest) 1 = rest := rfl
    have hb : ∀ {α β : Type} (a : α) (f : α → Except Exc β), (Except.ok a : Except Exc α).bind f = f a := fun _ _ => rfl
    simp only [hi, hs, hb, translated_parse_complex_eq]
    cases hc : parseComplex readC p0 with
    | none =>
      simp only [Option.map_none, liftO]
      exact parse_tail none none rfl (p0 :: rest)
    | some c =>
      simp only [Option.map_some, liftO, hb]
      exact parse_tail (some (Num.cplx c.1 c.2)) (some c) rfl rest


/-- a model term (coefficient = a Python number) as the object the translated code works on -/
def pyOf (t : Term Num) : Translated.PyTerm := ⟨t.ops.map convPair, t.coef⟩

theorem term_getitem_core (t : Translated.PyTerm) (i : Int) :
    Translated.term_getitem t i = dictGetD t._ops i ['I'] := by
  unfold Translated.term_getitem
  split <;> rfl

theorem term_getitem_stored_core (t : Term Num) (h : (t.ops.map (fun p => p.1)).Nodup) (q : Nat) (p : Pauli)
    (hm : (q, p) ∈ t.ops) : Translated.term_getitem (pyOf t) (q : Int) = [pauliChar p] := by
  rw [term_getitem_core]; exact dictGetD_convPair t.ops h q p hm

theorem term_strs_eq (t : Term Num) (h : (t.ops.map (fun p => p.1)).Nodup) :
    (dictKeys (pyOf t)._ops).map (fun index => Translated.term_getitem (pyOf t) index ++ strOfInt index) = reprOps t.ops := by
  unfold dictKeys reprOps pyOf
  simp only [List.map_map]
  apply List.map_congr_left
  intro a ha
  obtain ⟨q, p⟩ := a
  simp only [Function.comp, convPair]
  have := term_getitem_stored_core t h q p ha
  unfold pyOf at this
  rw [this, strOfInt_nat]
  rfl

theorem term_repr_core (showC : Num → List Char) (t : Term Num) (h : (t.ops.map (fun p => p.1)).Nodup) :
    Translated.term_repr showC (pyOf t) = reprTerm showC t := by
  unfold Translated.term_repr
  simp only [term_strs_eq t h, join_eq_joinWith]
  unfold reprTerm
  cases hr : reprOps t.ops with
  | nil => simp [pyOf, joinWith]
  | cons a rest =>
    have : ¬ ((rest.length : Int) + 1 = 0) := by omega
    simp [pyOf, this]


/-- the object `PauliTerm(text, coefficient)` builds from what `_parse_operators_and_coefficient` returned -/
def pyOfParsed (r : Option (Rat × Rat) × Ops) (co : Option Num) : Translated.PyTerm :=
  ⟨(r.2.filter (fun p => p.2 ≠ Pauli.I)).map convPair,
   match r.1 with
   | some v => Num.cplx v.1 v.2
   | none => co.getD (Num.real 1)⟩

theorem keys_nonneg (ops : Ops) : ((dictKeys (ops.map convPair)).map (fun (q : Int) => decide (q ≥ 0))).all id = true := by
  simp [dictKeys, convPair, List.all_eq_true]

theorem values_allowed (ops : Ops) :
    ((dictValues (ops.map convPair)).map (fun op => Translated.ALLOWED_OPERATORS.contains op)).all id = true := by
  simp only [dictValues, List.map_map, List.all_eq_true, List.mem_map, Function.comp]
  rintro b ⟨a, _, rfl⟩
  obtain ⟨q, p⟩ := a
  cases p <;> simp [convPair, pauliChar, Translated.ALLOWED_OPERATORS]

theorem init_ops (ops : Ops) (h : (ops.map (fun p => p.1)).Nodup) :
    dictOfPairs (((dictItems (ops.map convPair)).filter (fun p4 => p4.2 != ['I'])).map (fun p4 => (p4.1, p4.2)))
      = (ops.filter (fun p => p.2 ≠ Pauli.I)).map convPair := by
  have : (fun (p4 : Int × List Char) => (p4.1, p4.2)) = id := by funext p; rfl
  rw [this, List.map_id]
  unfold dictItems
  rw [filter_convPair, dictOfPairs_convPair, dictOf_nodup _ (nodup_filter_keys ops h _)]

theorem term_init_core (readC : List Char → Option (Rat × Rat)) (s : List Char) (co : Option Num) :
    Translated.term_init_str (readNum readC) s co
      = liftO ((parseOpsAndCoef readC s).bind (fun r => if r.1.isSome && co.isSome then none else some (pyOfParsed r co))) := by
  unfold Translated.term_init_str
  rw [parse_operators_and_coefficient_core]
  cases hp : parseOpsAndCoef readC s with
  | none => rfl
  | some r =>
    obtain ⟨coef, ops⟩ := r
    have hk := parseOpsAndCoef_keys readC s coef ops hp
    have hb : ∀ {α β : Type} (a : α) (f : α → Except Exc β), (Except.ok a : Except Exc α).bind f = f a := fun _ _ => rfl
    simp only [Option.map_some, liftO, hb, convRes, Option.bind_some, keys_nonneg, values_allowed, init_ops ops hk]
    cases coef with
    | none => cases co <;> simp [pyOfParsed]
    | some v => cases co <;> simp [pyOfParsed]



/-- what the model and the translated code are compared on: the operations and the VALUE of the coefficient -/
def viewT (t : Term (Rat × Rat)) : List (Int × List Char) × (Rat × Rat) := (t.ops.map convPair, t.coef)
def viewPy (t : Translated.PyTerm) : List (Int × List Char) × (Rat × Rat) := (t._ops, (t.coefficient.re, t.coefficient.im))

theorem view_parsed (r : Option (Rat × Rat) × Ops) :
    viewPy (pyOfParsed r none) = viewT ⟨r.2.filter (fun p => p.2 ≠ Pauli.I), r.1.getD (1, 0)⟩ := by
  obtain ⟨c, ops⟩ := r
  cases c <;> simp [viewPy, viewT, pyOfParsed, Num.re, Num.im]

theorem term_init_parseTerm_core (readC : List Char → Option (Rat × Rat)) (s : List Char) :
    ((Translated.term_init_str (readNum readC) s none).toOption).map viewPy = (parseTerm readC s).map viewT := by
  rw [term_init_core]
  unfold parseTerm
  cases parseOpsAndCoef readC s with
  | none => rfl
  | some r =>
    obtain ⟨c, ops⟩ := r
    simp only [Option.bind_some, Option.isSome_none, Bool.and_false, Bool.false_eq_true, if_false, liftO, Except.toOption,
      Option.map_some, view_parsed]

theorem sum_init_core (readC : List Char → Option (Rat × Rat)) (s : List Char) :
    Translated.sum_init_str (readNum readC) s
      = liftO ((((splitPlus s).map (stripBy isWhite)).mapM
          (fun piece => (parseOpsAndCoef readC piece).map (fun r => pyOfParsed r none))).map Translated.PySum.mk) := by
  unfold Translated.sum_init_str
  have hf : (fun (s : List Char) => Except.bind (Translated.term_init_str (readNum readC) (stripWs s) none) (fun r1 => Except.ok r1))
      = fun s => liftO ((parseOpsAndCoef readC (stripBy isWhite s)).map (fun r => pyOfParsed r none)) := by
    funext p
    rw [term_init_core, stripWs_eq]
    cases parseOpsAndCoef readC (stripBy isWhite p) <;> simp [liftO, Except.bind]
  rw [hf, reSplitPlus_eq]
  rw [mapExc_comp (fun p => liftO ((parseOpsAndCoef readC p).map (fun r => pyOfParsed r none))) (stripBy isWhite), mapExc_liftO]
  cases ((splitPlus s).map (stripBy isWhite)).mapM (fun piece => (parseOpsAndCoef readC piece).map (fun r => pyOfParsed r none)) with
  | none => rfl
  | some ts =>
    have : (ts.map (fun (_ : Translated.PyTerm) => true)).all id = true := by simp
    simp [liftO, Except.bind]

theorem sum_init_parseSum_core (readC : List Char → Option (Rat × Rat)) (s : List Char) :
    ((Translated.sum_init_str (readNum readC) s).toOption).map (fun ps => ps.terms.map viewPy)
      = (parseSum readC s).map (List.map viewT) := by
  rw [sum_init_core]
  unfold parseSum
  have h := mapM_map_congr (fun piece => (parseOpsAndCoef readC piece).map (fun r => pyOfParsed r none)) (parseTerm readC) viewPy viewT
    (by
      intro x
      unfold parseTerm
      cases parseOpsAndCoef readC x with
      | none => rfl
      | some r => obtain ⟨c, ops⟩ := r; simp only [Option.map_some, view_parsed])
    ((splitPlus s).map (stripBy isWhite))
  rw [← h]
  cases ((splitPlus s).map (stripBy isWhite)).mapM (fun piece => (parseOpsAndCoef readC piece).map (fun r => pyOfParsed r none)) with
  | none => rfl
  | some ts => rfl


section text
variable {showC : Num → List Char} {readC : List Char → Option (Rat × Rat)} {val : Num → Rat × Rat}

/-- what `PauliTerm("I0", 0)` is when `complex("I0")` raises ValueError -/
theorem parse_I0 (hI0 : readC "I0".toList = none) : parseOpsAndCoef readC "I0".toList = some (none, [(0, Pauli.I)]) := by
  unfold parseOpsAndCoef parseComplex
  have h1 : (splitStar (stripBy isSpace "I0".toList)).map (stripBy isSpace) = ["I0".toList] := by decide
  have h2 : ("I0".toList.filter (fun c => c ≠ ' ')) = "I0".toList := by decide
  simp only [h1, h2, hI0]
  decide

theorem sum_repr_core (hI0 : readC "I0".toList = none) (s : PSum Num)
    (hs : ∀ t ∈ s, (t.ops.map (fun p => p.1)).Nodup) :
    Translated.sum_repr (readNum readC) showC ⟨s.map pyOf⟩ = .ok (reprSum showC (Num.real 0) s) := by
  unfold Translated.sum_repr Translated.sum_len reprSum
  cases s with
  | nil =>
    have h0 : Translated.term_init_str (readNum readC) ['I', '0'] (some (Num.real (((0 : Int) : Int) : Rat)))
        = .ok (pyOf ⟨[], Num.real 0⟩) := by
      have : (['I', '0'] : List Char) = "I0".toList := by decide
      rw [this, term_init_core, parse_I0 hI0]
      simp [liftO, pyOfParsed, pyOf]
    simp only [List.map_nil, List.length_nil, h0]
    simp [Except.bind, term_repr_core]
  | cons t rest =>
    have hne : ¬ ((((t :: rest).map pyOf).length : Nat) : Int) = 0 := by simp; omega
    have hm : ((t :: rest).map pyOf).map (fun term => Translated.term_repr showC term) = (t :: rest).map (reprTerm showC) := by
      rw [List.map_map]
      apply List.map_congr_left
      intro a ha
      exact term_repr_core showC a (hs a ha)
    simp only [beq_iff_eq, hne, if_false, hm, join_eq_joinWith]
    simp

/-- the finer form of `parseTerm_reprTerm`: the coefficient IS found in the text (so `PauliTerm(text, c)` with a second coefficient is
    rejected and the parsed coefficient is a `complex`) -/
theorem parseOpsAndCoef_reprTerm (t : Term Num) (ht : t.WF) (hl : CoefLaw showC readC val t.coef) :
    parseOpsAndCoef readC (reprTerm showC t) = some (some (val t.coef), t.ops) := by
  have hw := reprTerm_white t hl
  have hstrip : stripBy isSpace (reprTerm showC t) = reprTerm showC t :=
    stripBy_none _ _ (fun c hc => isSpace_white c (hw c hc))
  have hsplit : splitStar (reprTerm showC t) = showC t.coef :: termStrs t.ops := by
    rw [reprTerm_eq, splitStar_append _ _ (fun c hc => ((coefTextOK_unpack _ hl.ok).1 c hc).1)]
    rw [splitStar_join _ (termStrs_ne_nil _) (fun s hs c hc => (termStrs_chars t.ops s hs c hc).2)]
  have hparts : (splitStar (stripBy isSpace (reprTerm showC t))).map (stripBy isSpace) =
      showC t.coef :: termStrs t.ops := by
    rw [hstrip, hsplit, List.map_cons]
    congr 1
    · exact stripBy_none _ _ (fun c hc => isSpace_white c ((coefTextOK_unpack _ hl.ok).1 c hc).2)
    · rw [List.map_congr_left (g := id)]
      · simp
      · intro s hs
        exact stripBy_none _ _ (fun c hc => isSpace_white c (termStrs_chars t.ops s hs c hc).1.2.2.2)
  have hd := dictOf_nodup t.ops ht.1
  unfold parseOpsAndCoef
  simp only [hparts, parseComplex_show t.coef hl, termStrs_filter, mapM_parseOperator_reprOps, hd]
  simp only [reprOps, List.length_map, ne_eq, not_true_eq_false, if_false]

/-- the object the string constructor returns for the text of `t` -/
def parsedPy (val : Num → Rat × Rat) (t : Term Num) : Translated.PyTerm :=
  ⟨t.ops.map convPair, Num.cplx (val t.coef).1 (val t.coef).2⟩

theorem parsed_reprTerm (t : Term Num) (ht : t.WF) (hl : CoefLaw showC readC val t.coef) :
    (parseOpsAndCoef readC (reprTerm showC t)).map (fun r => pyOfParsed r none) = some (parsedPy val t) := by
  rw [parseOpsAndCoef_reprTerm t ht hl]
  have hfil : t.ops.filter (fun p => p.2 ≠ Pauli.I) = t.ops := by
    rw [List.filter_eq_self]; intro p hp; simpa using ht.2 p hp
  simp only [Option.map_some, pyOfParsed, parsedPy, hfil]

theorem parse_repr_term_core (t : Term Num) (ht : t.WF) (hl : CoefLaw showC readC val t.coef) :
    Translated.term_init_str (readNum readC) (Translated.term_repr showC (pyOf t)) none = .ok (parsedPy val t) := by
  rw [term_repr_core showC t ht.1, term_init_core]
  have := parsed_reprTerm t ht hl
  cases hp : parseOpsAndCoef readC (reprTerm showC t) with
  | none => rw [hp] at this; simp at this
  | some r =>
    rw [hp] at this
    simp only [Option.map_some, Option.some.injEq] at this
    simp [liftO, this]

theorem mapM_parsed (ts : PSum Num) (hwf : ∀ t ∈ ts, t.WF) (hl : ∀ t ∈ ts, CoefLaw showC readC val t.coef) :
    (ts.map (reprTerm showC)).mapM (fun piece => (parseOpsAndCoef readC piece).map (fun r => pyOfParsed r none))
      = some (ts.map (parsedPy val)) := by
  induction ts with
  | nil => rfl
  | cons t rest ih =>
    simp only [List.map_cons, List.mapM_cons]
    rw [parsed_reprTerm t (hwf t (by simp)) (hl t (by simp)),
      ih (fun x hx => hwf x (List.mem_cons_of_mem _ hx)) (fun x hx => hl x (List.mem_cons_of_mem _ hx))]
    rfl

theorem parse_repr_sum_core (hI0 : readC "I0".toList = none) (s : PSum Num) (hs : ∀ t ∈ s, t.WF)
    (hl : ∀ t ∈ s, CoefLaw showC readC val t.coef) (hz : CoefLaw showC readC val (Num.real 0)) :
    (Translated.sum_repr (readNum readC) showC ⟨s.map pyOf⟩).bind (Translated.sum_init_str (readNum readC))
      = .ok ⟨(if s.isEmpty then [⟨[], Num.real 0⟩] else s).map (parsedPy val)⟩ := by
  rw [sum_repr_core hI0 s (fun t ht => (hs t ht).1)]
  show Translated.sum_init_str (readNum readC) (reprSum showC (Num.real 0) s) = _
  rw [sum_init_core]
  generalize hts : (if s.isEmpty then [(⟨[], Num.real 0⟩ : Term Num)] else s) = ts
  have hne : ts ≠ [] := by
    rw [← hts]; cases s <;> simp
  have hwf : ∀ t ∈ ts, t.WF := by
    rw [← hts]; cases s with
    | nil => intro t ht; simp at ht; subst ht; exact ⟨by simp, by simp⟩
    | cons a r => simpa using hs
  have hl' : ∀ t ∈ ts, CoefLaw showC readC val t.coef := by
    rw [← hts]; cases s with
    | nil => intro t ht; simp at ht; subst ht; exact hz
    | cons a r => simpa using hl
  have hrepr : reprSum showC (Num.real 0) s = joinWith [' ', '+', ' '] (ts.map (reprTerm showC)) := by
    rw [← hts]; unfold reprSum
    cases s <;> simp [joinWith]
  rw [hrepr, splitPlus_join ts hne hl', mapM_parsed ts hwf hl']
  rfl

end text

end OQ.C11
