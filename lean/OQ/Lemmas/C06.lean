/- helper lemmas for C06 (not property theorems) -/
import OQ.Model.C06
import Mathlib.Data.String.Basic
import Mathlib.Data.List.Basic
import Mathlib.Data.List.Pairwise
import Mathlib.Data.List.Forall2
import Mathlib.Data.List.Nodup
namespace OQ.C06

/-! ### Res / mapRes -/
@[simp] theorem Res.bind_ok {α β} (a : α) (f : α → Res β) : (Res.ok a).bind f = f a := rfl
@[simp] theorem Res.bind_err {α β} (e : Err) (f : α → Res β) : (Res.err e : Res α).bind f = .err e := rfl
@[simp] theorem Res.map_ok {α β} (a : α) (f : α → β) : (Res.ok a).map f = .ok (f a) := rfl
@[simp] theorem Res.map_err {α β} (e : Err) (f : α → β) : (Res.err e : Res α).map f = .err e := rfl

theorem Res.bind_eq_ok {α β} {r : Res α} {f : α → Res β} {b : β} (h : r.bind f = .ok b) :
    ∃ a, r = .ok a ∧ f a = .ok b := by
  cases r with
  | ok a => exact ⟨a, rfl, h⟩
  | err e => simp at h

theorem Res.map_eq_ok {α β} {r : Res α} {f : α → β} {b : β} (h : r.map f = .ok b) :
    ∃ a, r = .ok a ∧ f a = b := by
  cases r with
  | ok a => exact ⟨a, rfl, by simpa using h⟩
  | err e => simp at h

/-! ### lookup, substitution, evaluation -/

theorem lookup_append (m1 m2 : SymMap) (s : String) :
    lookup (m1 ++ m2) s = match lookup m1 s with | some v => some v | none => lookup m2 s := by
  induction m1 with
  | nil => simp [lookup]
  | cons kv r ih =>
    obtain ⟨k, v⟩ := kv
    by_cases h : k = s <;> simp [lookup, h, ih]

theorem lookup_isSome_iff (m : SymMap) (s : String) : (lookup m s).isSome ↔ s ∈ keys m := by
  induction m with
  | nil => simp [lookup, keys]
  | cons kv r ih =>
    obtain ⟨k, v⟩ := kv
    by_cases h : k = s
    · simp [lookup, keys, h]
    · simp only [lookup, h, if_false, ih, keys, List.map_cons, List.mem_cons]
      constructor
      · intro h'; exact Or.inr h'
      · rintro (h' | h')
        · exact absurd h'.symm h
        · exact h'

theorem lookup_eq_none_iff (m : SymMap) (s : String) : lookup m s = none ↔ s ∉ keys m := by
  rw [← lookup_isSome_iff]; cases lookup m s <;> simp

theorem lookup_mapValues (f : Param → Param) (m : SymMap) (s : String) :
    lookup (m.map (fun kv => (kv.1, f kv.2))) s = (lookup m s).map f := by
  induction m with
  | nil => simp [lookup]
  | cons kv r ih =>
    obtain ⟨k, v⟩ := kv
    by_cases h : k = s <;> simp [lookup, h, ih]

theorem toExpr_symbols (v : Param) : v.toExpr.symbols = v.symbols := by
  cases v <;> rfl

theorem toExpr_eval {V} (A : Alg V) (ρ : String → V) (v : Param) : eval A ρ v.toExpr = v.eval A ρ := by
  cases v <;> rfl

theorem eval_subst {V} (A : Alg V) (ρ : String → V) (m : SymMap) (e : PExpr) :
    eval A ρ (subst m e) = eval A (comp A ρ m) e := by
  induction e with
  | num q => rfl
  | sym s =>
    simp only [subst, eval, comp]
    cases lookup m s with
    | none => rfl
    | some v => exact toExpr_eval A ρ v
  | add a b iha ihb => simp only [subst, eval, iha, ihb]
  | mul a b iha ihb => simp only [subst, eval, iha, ihb]
  | pow a b iha ihb => simp only [subst, eval, iha, ihb]
  | fn f a iha => simp only [subst, eval, iha]

theorem subSymbols_toExpr (m : SymMap) (e : PExpr) : (subSymbols m (.expr e)).toExpr = subst m e := by
  cases e with
  | sym s =>
    simp only [subSymbols, subst]
    cases lookup m s <;> rfl
  | _ => rfl

theorem eval_subSymbols {V} (A : Alg V) (ρ : String → V) (m : SymMap) (p : Param) :
    (subSymbols m p).eval A ρ = p.eval A (comp A ρ m) := by
  cases p with
  | number q => rfl
  | expr e =>
    rw [← toExpr_eval, subSymbols_toExpr, eval_subst]; rfl

theorem eval_congr {V} (A : Alg V) (ρ ρ' : String → V) (e : PExpr)
    (h : ∀ s ∈ e.symbols, ρ s = ρ' s) : eval A ρ e = eval A ρ' e := by
  induction e with
  | num q => rfl
  | sym s => exact h s (by simp [PExpr.symbols])
  | add a b iha ihb =>
    simp only [eval]; rw [iha (fun s hs => h s (by simp [PExpr.symbols, hs])), ihb (fun s hs => h s (by simp [PExpr.symbols, hs]))]
  | mul a b iha ihb =>
    simp only [eval]; rw [iha (fun s hs => h s (by simp [PExpr.symbols, hs])), ihb (fun s hs => h s (by simp [PExpr.symbols, hs]))]
  | pow a b iha ihb =>
    simp only [eval]; rw [iha (fun s hs => h s (by simp [PExpr.symbols, hs])), ihb (fun s hs => h s (by simp [PExpr.symbols, hs]))]
  | fn f a iha =>
    simp only [eval]; rw [iha (fun s hs => h s (by simp [PExpr.symbols, hs]))]

theorem Param.eval_congr {V} (A : Alg V) (ρ ρ' : String → V) (p : Param)
    (h : ∀ s ∈ p.symbols, ρ s = ρ' s) : p.eval A ρ = p.eval A ρ' := by
  cases p with
  | number q => rfl
  | expr e => exact OQ.C06.eval_congr A ρ ρ' e h

theorem subst_congr (m m' : SymMap) (e : PExpr) (h : ∀ s ∈ e.symbols, lookup m s = lookup m' s) :
    subst m e = subst m' e := by
  induction e with
  | num q => rfl
  | sym s => simp only [subst, h s (by simp [PExpr.symbols])]
  | add a b iha ihb =>
    simp only [subst]; rw [iha (fun s hs => h s (by simp [PExpr.symbols, hs])), ihb (fun s hs => h s (by simp [PExpr.symbols, hs]))]
  | mul a b iha ihb =>
    simp only [subst]; rw [iha (fun s hs => h s (by simp [PExpr.symbols, hs])), ihb (fun s hs => h s (by simp [PExpr.symbols, hs]))]
  | pow a b iha ihb =>
    simp only [subst]; rw [iha (fun s hs => h s (by simp [PExpr.symbols, hs])), ihb (fun s hs => h s (by simp [PExpr.symbols, hs]))]
  | fn f a iha =>
    simp only [subst]; rw [iha (fun s hs => h s (by simp [PExpr.symbols, hs]))]

theorem subSymbols_congr (m m' : SymMap) (p : Param) (h : ∀ s ∈ p.symbols, lookup m s = lookup m' s) :
    subSymbols m p = subSymbols m' p := by
  cases p with
  | number q => rfl
  | expr e =>
    cases e with
    | sym s => simp only [subSymbols, h s (by simp [Param.symbols, PExpr.symbols])]
    | num q => rfl
    | add a b => simp only [subSymbols]; rw [subst_congr m m' _ h]
    | mul a b => simp only [subSymbols]; rw [subst_congr m m' _ h]
    | pow a b => simp only [subSymbols]; rw [subst_congr m m' _ h]
    | fn f a => simp only [subSymbols]; rw [subst_congr m m' _ h]

theorem subst_nil (e : PExpr) : subst [] e = e := by
  induction e with
  | num q => rfl
  | sym s => rfl
  | add a b iha ihb => simp only [subst, iha, ihb]
  | mul a b iha ihb => simp only [subst, iha, ihb]
  | pow a b iha ihb => simp only [subst, iha, ihb]
  | fn f a iha => simp only [subst, iha]

theorem subSymbols_nil (p : Param) : subSymbols [] p = p := by
  cases p with
  | number q => rfl
  | expr e => cases e <;> simp [subSymbols, subst_nil, lookup]

theorem subSymbols_eq_self (m : SymMap) (p : Param) (h : ∀ s ∈ p.symbols, lookup m s = none) :
    subSymbols m p = p := by
  rw [subSymbols_congr m [] p (fun s hs => by rw [h s hs]; rfl), subSymbols_nil]

theorem mem_symbols_subst (m : SymMap) (e : PExpr) (s : String) :
    s ∈ (subst m e).symbols ↔
      (s ∈ e.symbols ∧ lookup m s = none) ∨ ∃ k ∈ e.symbols, ∃ v, lookup m k = some v ∧ s ∈ v.symbols := by
  induction e with
  | num q => simp [subst, PExpr.symbols]
  | sym t =>
    simp only [subst, PExpr.symbols, List.mem_singleton, exists_eq_left]
    cases hl : lookup m t with
    | none =>
      simp only [PExpr.symbols, List.mem_singleton]
      constructor
      · intro h; subst h; exact Or.inl ⟨rfl, hl⟩
      · rintro (⟨h, _⟩ | ⟨v, hv, _⟩)
        · exact h
        · simp at hv
    | some v =>
      simp only [toExpr_symbols]
      constructor
      · intro h; exact Or.inr ⟨v, rfl, h⟩
      · rintro (⟨h, h2⟩ | ⟨v', hv, h'⟩)
        · subst h; rw [hl] at h2; simp at h2
        · simp only [Option.some.injEq] at hv; subst hv; exact h'
  | add a b iha ihb =>
    simp only [subst, PExpr.symbols, List.mem_append, iha, ihb]
    constructor
    · rintro ((⟨h1, h2⟩ | ⟨k, hk, v, hv, hs⟩) | (⟨h1, h2⟩ | ⟨k, hk, v, hv, hs⟩))
      · exact Or.inl ⟨Or.inl h1, h2⟩
      · exact Or.inr ⟨k, Or.inl hk, v, hv, hs⟩
      · exact Or.inl ⟨Or.inr h1, h2⟩
      · exact Or.inr ⟨k, Or.inr hk, v, hv, hs⟩
    · rintro (⟨h1 | h1, h2⟩ | ⟨k, hk | hk, v, hv, hs⟩)
      · exact Or.inl (Or.inl ⟨h1, h2⟩)
      · exact Or.inr (Or.inl ⟨h1, h2⟩)
      · exact Or.inl (Or.inr ⟨k, hk, v, hv, hs⟩)
      · exact Or.inr (Or.inr ⟨k, hk, v, hv, hs⟩)
  | mul a b iha ihb =>
    simp only [subst, PExpr.symbols, List.mem_append, iha, ihb]
    constructor
    · rintro ((⟨h1, h2⟩ | ⟨k, hk, v, hv, hs⟩) | (⟨h1, h2⟩ | ⟨k, hk, v, hv, hs⟩))
      · exact Or.inl ⟨Or.inl h1, h2⟩
      · exact Or.inr ⟨k, Or.inl hk, v, hv, hs⟩
      · exact Or.inl ⟨Or.inr h1, h2⟩
      · exact Or.inr ⟨k, Or.inr hk, v, hv, hs⟩
    · rintro (⟨h1 | h1, h2⟩ | ⟨k, hk | hk, v, hv, hs⟩)
      · exact Or.inl (Or.inl ⟨h1, h2⟩)
      · exact Or.inr (Or.inl ⟨h1, h2⟩)
      · exact Or.inl (Or.inr ⟨k, hk, v, hv, hs⟩)
      · exact Or.inr (Or.inr ⟨k, hk, v, hv, hs⟩)
  | pow a b iha ihb =>
    simp only [subst, PExpr.symbols, List.mem_append, iha, ihb]
    constructor
    · rintro ((⟨h1, h2⟩ | ⟨k, hk, v, hv, hs⟩) | (⟨h1, h2⟩ | ⟨k, hk, v, hv, hs⟩))
      · exact Or.inl ⟨Or.inl h1, h2⟩
      · exact Or.inr ⟨k, Or.inl hk, v, hv, hs⟩
      · exact Or.inl ⟨Or.inr h1, h2⟩
      · exact Or.inr ⟨k, Or.inr hk, v, hv, hs⟩
    · rintro (⟨h1 | h1, h2⟩ | ⟨k, hk | hk, v, hv, hs⟩)
      · exact Or.inl (Or.inl ⟨h1, h2⟩)
      · exact Or.inr (Or.inl ⟨h1, h2⟩)
      · exact Or.inl (Or.inr ⟨k, hk, v, hv, hs⟩)
      · exact Or.inr (Or.inr ⟨k, hk, v, hv, hs⟩)
  | fn f a iha => simp only [subst, PExpr.symbols, iha]

theorem mem_symbols_subSymbols (m : SymMap) (p : Param) (s : String) :
    s ∈ (subSymbols m p).symbols ↔
      (s ∈ p.symbols ∧ lookup m s = none) ∨ ∃ k ∈ p.symbols, ∃ v, lookup m k = some v ∧ s ∈ v.symbols := by
  cases p with
  | number q => simp [subSymbols, Param.symbols]
  | expr e =>
    rw [← toExpr_symbols, subSymbols_toExpr]
    exact mem_symbols_subst m e s

/-- the values of `m1` do not mention the keys of `m2` -/
def NoMention (m1 m2 : SymMap) : Prop :=
  ∀ k v, lookup m1 k = some v → ∀ s ∈ v.symbols, lookup m2 s = none

theorem subst_subst (m1 m2 : SymMap) (h : NoMention m1 m2) (e : PExpr) :
    subst m2 (subst m1 e) = subst (m1 ++ m2) e := by
  induction e with
  | num q => rfl
  | sym s =>
    simp only [subst, lookup_append]
    cases hl : lookup m1 s with
    | none => simp only [subst]
    | some v =>
      simp only
      have := subst_congr m2 [] v.toExpr (fun t ht => by
        rw [toExpr_symbols] at ht; rw [h s v hl t ht]; rfl)
      rw [this, subst_nil]
  | add a b iha ihb => simp only [subst, iha, ihb]
  | mul a b iha ihb => simp only [subst, iha, ihb]
  | pow a b iha ihb => simp only [subst, iha, ihb]
  | fn f a iha => simp only [subst, iha]

theorem subSymbols_subSymbols (m1 m2 : SymMap) (h : NoMention m1 m2) (p : Param) :
    subSymbols m2 (subSymbols m1 p) = subSymbols (m1 ++ m2) p := by
  cases p with
  | number q => rfl
  | expr e =>
    cases e with
    | sym s =>
      simp only [subSymbols, lookup_append]
      cases hl : lookup m1 s with
      | none => rfl
      | some v => exact subSymbols_eq_self m2 v (h s v hl)
    | num q => rfl
    | add a b => simp only [subSymbols, subst, subst_subst m1 m2 h]
    | mul a b => simp only [subSymbols, subst, subst_subst m1 m2 h]
    | pow a b => simp only [subSymbols, subst, subst_subst m1 m2 h]
    | fn f a => simp only [subSymbols, subst, subst_subst m1 m2 h]


/-! ### sorted(set(...), key=str) -/
theorem mem_insertSym (s x : String) (l : List String) : x ∈ insertSym s l ↔ x = s ∨ x ∈ l := by
  induction l with
  | nil => simp [insertSym]
  | cons t ts ih =>
    simp only [insertSym]
    split
    · simp
    · split
      · rename_i h; subst h; simp
      · simp only [List.mem_cons, ih]; tauto

theorem mem_sortSyms (x : String) (l : List String) : x ∈ sortSyms l ↔ x ∈ l := by
  induction l with
  | nil => simp [sortSyms]
  | cons t ts ih =>
    have : sortSyms (t :: ts) = insertSym t (sortSyms ts) := rfl
    rw [this, mem_insertSym, ih]; simp

theorem sorted_insertSym (s : String) (l : List String) (h : l.Pairwise (· < ·)) :
    (insertSym s l).Pairwise (· < ·) := by
  induction l with
  | nil => simp [insertSym]
  | cons t ts ih =>
    rw [List.pairwise_cons] at h
    simp only [insertSym]
    split
    · rename_i hst
      rw [List.pairwise_cons]
      refine ⟨?_, List.pairwise_cons.mpr h⟩
      intro a ha
      rcases List.mem_cons.mp ha with rfl | ha
      · exact hst
      · exact lt_trans hst (h.1 a ha)
    · split
      · exact List.pairwise_cons.mpr h
      · rename_i h1 h2
        have hts : t < s := by
          rcases lt_trichotomy s t with h3 | h3 | h3
          · exact absurd h3 h1
          · exact absurd h3 h2
          · exact h3
        rw [List.pairwise_cons]
        refine ⟨?_, ih h.2⟩
        intro a ha
        rcases (mem_insertSym s a ts).mp ha with rfl | ha
        · exact hts
        · exact h.1 a ha

theorem sorted_sortSyms (l : List String) : (sortSyms l).Pairwise (· < ·) := by
  induction l with
  | nil => simp [sortSyms]
  | cons t ts ih => exact sorted_insertSym t _ ih

theorem mem_getFreeSymbols (s : String) (ps : List Param) :
    s ∈ getFreeSymbols ps ↔ ∃ p ∈ ps, s ∈ p.symbols := by
  simp [getFreeSymbols, mem_sortSyms, List.mem_flatMap]

theorem sortSyms_eq_nil (l : List String) : sortSyms l = [] ↔ l = [] := by
  constructor
  · intro h
    cases l with
    | nil => rfl
    | cons t ts =>
      have : t ∈ sortSyms (t :: ts) := (mem_sortSyms t _).mpr (by simp)
      rw [h] at this; simp at this
  · rintro rfl; rfl

theorem getFreeSymbols_eq_nil (ps : List Param) :
    getFreeSymbols ps = [] ↔ ∀ p ∈ ps, p.symbols = [] := by
  simp [getFreeSymbols, sortSyms_eq_nil, List.flatMap_eq_nil_iff]

/-- two strictly ascending lists with the same members are equal -/
theorem sorted_ext (l l' : List String) (h : l.Pairwise (· < ·)) (h' : l'.Pairwise (· < ·))
    (hm : ∀ x, x ∈ l ↔ x ∈ l') : l = l' := by
  induction l generalizing l' with
  | nil =>
    cases l' with
    | nil => rfl
    | cons b bs => have := (hm b).mpr (by simp); simp at this
  | cons a as ih =>
    cases l' with
    | nil => have := (hm a).mp (by simp); simp at this
    | cons b bs =>
      rw [List.pairwise_cons] at h h'
      have hab : a = b := by
        have h1 : a ∈ b :: bs := (hm a).mp (by simp)
        have h2 : b ∈ a :: as := (hm b).mpr (by simp)
        rcases List.mem_cons.mp h1 with h1 | h1
        · exact h1
        · rcases List.mem_cons.mp h2 with h2 | h2
          · exact h2.symm
          · exact absurd (lt_trans (h.1 b h2) (h'.1 a h1)) (lt_irrefl a)
      subst hab
      congr 1
      apply ih _ h.2 h'.2
      intro x
      constructor
      · intro hx
        have := (hm x).mp (by simp [hx])
        rcases List.mem_cons.mp this with rfl | h3
        · exact absurd (h.1 _ hx) (lt_irrefl _)
        · exact h3
      · intro hx
        have := (hm x).mpr (by simp [hx])
        rcases List.mem_cons.mp this with rfl | h3
        · exact absurd (h'.1 _ hx) (lt_irrefl _)
        · exact h3

theorem getFreeSymbols_congr (ps ps' : List Param)
    (h : ∀ s, (∃ p ∈ ps, s ∈ p.symbols) ↔ (∃ p ∈ ps', s ∈ p.symbols)) :
    getFreeSymbols ps = getFreeSymbols ps' := by
  apply sorted_ext _ _ (sorted_sortSyms _) (sorted_sortSyms _)
  intro x; exact (mem_getFreeSymbols x ps).trans ((h x).trans (mem_getFreeSymbols x ps').symm)


/-! ### gates: params through the smart constructors -/
theorem params_mkPow {g g' : Gate} {e : Rat} (h : mkPow g e = .ok g') : g'.params = g.params := by
  unfold mkPow at h; split at h
  · injection h with h; subst h; rfl
  · simp at h

theorem params_mkExp {g g' : Gate} (h : mkExp g = .ok g') : g'.params = g.params := by
  unfold mkExp at h; split at h
  · injection h with h; subst h; rfl
  · simp at h

theorem params_power {g g' : Gate} {e : Rat} (h : g.power e = .ok g') : g'.params = g.params := by
  induction g generalizing g' with
  | ctrl w k ih =>
    simp only [Gate.power] at h
    obtain ⟨w', hw, rfl⟩ := Res.map_eq_ok h
    simp only [Gate.params]; exact ih hw
  | mf nm fac ps nq herm => exact params_mkPow h
  | dag w _ => exact params_mkPow h
  | exp w _ => exact params_mkPow h
  | pow w e' _ => exact params_mkPow h

theorem params_dagger {g g' : Gate} (h : g.dagger = .ok g') : g'.params = g.params := by
  induction g generalizing g' with
  | mf nm fac ps nq herm =>
    simp only [Gate.dagger] at h; injection h with h; subst h
    cases herm <;> rfl
  | ctrl w k ih =>
    simp only [Gate.dagger] at h
    obtain ⟨w', hw, rfl⟩ := Res.map_eq_ok h
    simp only [Gate.params]; exact ih hw
  | dag w _ => simp only [Gate.dagger] at h; injection h with h; subst h; rfl
  | exp w ih =>
    simp only [Gate.dagger] at h
    obtain ⟨w', hw, h2⟩ := Res.bind_eq_ok h
    rw [params_mkExp h2]; exact ih hw
  | pow w e ih =>
    simp only [Gate.dagger] at h
    obtain ⟨w', hw, h2⟩ := Res.bind_eq_ok h
    rw [params_power h2]; exact ih hw

theorem params_controlled {g g' : Gate} {n : Nat} (h : g.controlled n = .ok g') : g'.params = g.params := by
  induction g generalizing g' with
  | mf nm fac ps nq herm => simp only [Gate.controlled] at h; injection h with h; subst h; rfl
  | ctrl w k _ => simp only [Gate.controlled] at h; injection h with h; subst h; rfl
  | dag w ih =>
    simp only [Gate.controlled] at h
    obtain ⟨w', hw, h2⟩ := Res.bind_eq_ok h
    rw [params_dagger h2]; exact ih hw
  | exp w _ => simp only [Gate.controlled] at h; injection h with h; subst h; rfl
  | pow w e ih =>
    simp only [Gate.controlled] at h
    obtain ⟨w', hw, h2⟩ := Res.bind_eq_ok h
    rw [params_power h2]; exact ih hw

theorem params_replaceParams {g g' : Gate} {ps : List Param} (h : g.replaceParams ps = .ok g') :
    g'.params = ps := by
  induction g generalizing g' with
  | mf nm fac ps0 nq herm => simp only [Gate.replaceParams] at h; injection h with h; subst h; rfl
  | ctrl w k ih =>
    simp only [Gate.replaceParams] at h
    obtain ⟨w', hw, h2⟩ := Res.bind_eq_ok h
    rw [params_controlled h2]; exact ih hw
  | dag w ih =>
    simp only [Gate.replaceParams] at h
    obtain ⟨w', hw, h2⟩ := Res.bind_eq_ok h
    rw [params_dagger h2]; exact ih hw
  | exp w ih =>
    simp only [Gate.replaceParams] at h
    obtain ⟨w', hw, h2⟩ := Res.bind_eq_ok h
    rw [params_mkExp h2]; exact ih hw
  | pow w e ih =>
    simp only [Gate.replaceParams] at h
    obtain ⟨w', hw, h2⟩ := Res.bind_eq_ok h
    rw [params_power h2]; exact ih hw

theorem params_bind {m : SymMap} {g g' : Gate} (h : g.bind m = .ok g') :
    g'.params = g.params.map (subSymbols m) := by
  induction g generalizing g' with
  | mf nm fac ps nq herm => exact params_replaceParams h
  | ctrl w k ih =>
    simp only [Gate.bind] at h
    obtain ⟨w', hw, h2⟩ := Res.bind_eq_ok h
    rw [params_controlled h2]; exact ih hw
  | dag w ih =>
    simp only [Gate.bind] at h
    obtain ⟨w', hw, h2⟩ := Res.bind_eq_ok h
    rw [params_dagger h2]; exact ih hw
  | exp w _ => simp [Gate.bind] at h
  | pow w e _ => simp [Gate.bind] at h

/-- bind is replace_params with the substituted params, whenever it does not refuse -/
theorem bind_eq_replaceParams {m : SymMap} {g g' : Gate} (h : g.bind m = .ok g') :
    g.replaceParams (g.params.map (subSymbols m)) = .ok g' := by
  induction g generalizing g' with
  | mf nm fac ps nq herm => exact h
  | ctrl w k ih =>
    simp only [Gate.bind] at h
    obtain ⟨w', hw, h2⟩ := Res.bind_eq_ok h
    simp only [Gate.replaceParams, Gate.params, ih hw, Res.bind_ok, h2]
  | dag w ih =>
    simp only [Gate.bind] at h
    obtain ⟨w', hw, h2⟩ := Res.bind_eq_ok h
    simp only [Gate.replaceParams, Gate.params, ih hw, Res.bind_ok, h2]
  | exp w _ => simp [Gate.bind] at h
  | pow w e _ => simp [Gate.bind] at h

/-! ### gates without Power / Exponential: the smart constructors never fail -/
theorem dagger_cd {g : Gate} (h : g.isCD = true) : ∃ g', g.dagger = .ok g' ∧ g'.isCD = true := by
  induction g with
  | mf nm fac ps nq herm => cases herm <;> exact ⟨_, rfl, rfl⟩
  | ctrl w k ih =>
    obtain ⟨w', hw, hcd⟩ := ih h
    exact ⟨.ctrl w' k, by simp [Gate.dagger, hw], hcd⟩
  | dag w _ => exact ⟨w, rfl, h⟩
  | exp w _ => simp [Gate.isCD] at h
  | pow w e _ => simp [Gate.isCD] at h

theorem controlled_cd {g : Gate} (n : Nat) (h : g.isCD = true) :
    ∃ g', g.controlled n = .ok g' ∧ g'.isCD = true := by
  induction g with
  | mf nm fac ps nq herm => exact ⟨_, rfl, rfl⟩
  | ctrl w k _ => exact ⟨_, rfl, h⟩
  | dag w ih =>
    obtain ⟨w', hw, hcd⟩ := ih h
    obtain ⟨w'', hw', hcd'⟩ := dagger_cd hcd
    exact ⟨w'', by simp [Gate.controlled, hw, hw'], hcd'⟩
  | exp w _ => simp [Gate.isCD] at h
  | pow w e _ => simp [Gate.isCD] at h

theorem bind_cd (m : SymMap) {g : Gate} (h : g.isCD = true) :
    ∃ g', g.bind m = .ok g' ∧ g'.isCD = true := by
  induction g with
  | mf nm fac ps nq herm => exact ⟨_, rfl, rfl⟩
  | ctrl w k ih =>
    obtain ⟨w', hw, hcd⟩ := ih h
    obtain ⟨w'', hw', hcd'⟩ := controlled_cd k hcd
    exact ⟨w'', by simp [Gate.bind, hw, hw'], hcd'⟩
  | dag w ih =>
    obtain ⟨w', hw, hcd⟩ := ih h
    obtain ⟨w'', hw', hcd'⟩ := dagger_cd hcd
    exact ⟨w'', by simp [Gate.bind, hw, hw'], hcd'⟩
  | exp w _ => simp [Gate.isCD] at h
  | pow w e _ => simp [Gate.isCD] at h

theorem bind_not_cd (m : SymMap) {g : Gate} (h : g.isCD = false) : g.bind m = .err .notimpl := by
  induction g with
  | mf nm fac ps nq herm => simp [Gate.isCD] at h
  | ctrl w k ih => simp [Gate.bind, ih h]
  | dag w ih => simp [Gate.bind, ih h]
  | exp w _ => rfl
  | pow w e _ => rfl


/-! ### matrices -/

/-- the laws of the real wrappers used by the re-association rules of `.controlled` / `.dagger`
    (block-diagonal controls add up, the adjoint is an involution and commutes with the control block) -/
structure Laws {V M : Type} (S : Sem V M) : Prop where
  ctrl_ctrl : ∀ a b X, S.ctrl b (S.ctrl a X) = S.ctrl (a + b) X
  dag_dag : ∀ X, S.dag (S.dag X) = X
  dag_ctrl : ∀ n X, S.dag (S.ctrl n X) = S.ctrl n (S.dag X)

/-- the `is_hermitian` flag of every factory gate in the chain tells the truth (for all parameter values) -/
def HermOK {V M : Type} (S : Sem V M) : Gate → Prop
  | .mf _ fac _ _ herm => herm = true → ∀ ps ρ, S.dag (mfMatrix S ρ fac ps) = mfMatrix S ρ fac ps
  | .ctrl g _ => HermOK S g
  | .dag g => HermOK S g
  | .exp g => HermOK S g
  | .pow g _ => HermOK S g

/-- a custom gate is applied to at least as many params as its definition orders, and the stored
    matrix mentions only the ordered symbols -/
def CustomOK : Gate → Prop
  | .mf _ (.custom mat ord) ps _ _ => ord.length ≤ ps.length ∧ ∀ row ∈ mat, ∀ e ∈ row, ∀ s ∈ e.symbols, s ∈ ord
  | .mf _ (.builtin _) _ _ _ => True
  | .ctrl g _ => CustomOK g
  | .dag g => CustomOK g
  | .exp g => CustomOK g
  | .pow g _ => CustomOK g

theorem dagger_matrix {V M : Type} (S : Sem V M) (L : Laws S) (ρ : String → V) {g g' : Gate}
    (hcd : g.isCD = true) (hh : HermOK S g) (h : g.dagger = .ok g') :
    gateMatrix S ρ g' = S.dag (gateMatrix S ρ g) ∧ HermOK S g' := by
  induction g generalizing g' with
  | mf nm fac ps nq herm =>
    simp only [Gate.dagger] at h; injection h with h; subst h
    cases herm with
    | true => exact ⟨(hh rfl ps ρ).symm, hh⟩
    | false => exact ⟨rfl, hh⟩
  | ctrl w k ih =>
    simp only [Gate.dagger] at h
    obtain ⟨w', hw, rfl⟩ := Res.map_eq_ok h
    obtain ⟨h1, h2⟩ := ih hcd hh hw
    refine ⟨?_, h2⟩
    simp only [gateMatrix, h1, L.dag_ctrl]
  | dag w _ =>
    simp only [Gate.dagger] at h; injection h with h; subst h
    exact ⟨by simp only [gateMatrix, L.dag_dag], hh⟩
  | exp w _ => simp [Gate.isCD] at hcd
  | pow w e _ => simp [Gate.isCD] at hcd

theorem controlled_matrix {V M : Type} (S : Sem V M) (L : Laws S) (ρ : String → V) {g g' : Gate} {n : Nat}
    (hcd : g.isCD = true) (hh : HermOK S g) (h : g.controlled n = .ok g') :
    gateMatrix S ρ g' = S.ctrl n (gateMatrix S ρ g) ∧ HermOK S g' ∧ g'.isCD = true := by
  induction g generalizing g' with
  | mf nm fac ps nq herm =>
    simp only [Gate.controlled] at h; injection h with h; subst h
    exact ⟨rfl, hh, rfl⟩
  | ctrl w k _ =>
    simp only [Gate.controlled] at h; injection h with h; subst h
    exact ⟨by simp only [gateMatrix, L.ctrl_ctrl], hh, hcd⟩
  | dag w ih =>
    simp only [Gate.controlled] at h
    obtain ⟨w', hw, h2⟩ := Res.bind_eq_ok h
    obtain ⟨h1, hh', hcd'⟩ := ih hcd hh hw
    obtain ⟨h3, hh''⟩ := dagger_matrix S L ρ hcd' hh' h2
    obtain ⟨g'', hg'', hcd''⟩ := dagger_cd hcd'
    rw [h2] at hg''; injection hg'' with hg''; subst hg''
    refine ⟨?_, hh'', hcd''⟩
    simp only [gateMatrix, h3, h1, L.dag_ctrl]
  | exp w _ => simp [Gate.isCD] at hcd
  | pow w e _ => simp [Gate.isCD] at hcd

theorem customDict_map (f : Param → Param) (ord : List String) (ps : List Param) :
    customDict ord (ps.map f) = (customDict ord ps).map (fun kv => (kv.1, f kv.2)) := by
  unfold customDict
  rw [List.zip_map_right, List.map_reverse]
  congr 1

theorem keys_customDict (ord : List String) (ps : List Param) (h : ord.length ≤ ps.length) :
    keys (customDict ord ps) = ord.reverse := by
  unfold keys customDict
  rw [List.map_reverse]
  congr 1
  induction ord generalizing ps with
  | nil => simp
  | cons a as ih =>
    cases ps with
    | nil => simp at h
    | cons p ps => simp [ih ps (by simpa using h)]

theorem mfMatrix_bind {V M : Type} (S : Sem V M) (ρ : String → V) (m : SymMap) (nm : String)
    (fac : Factory) (ps : List Param) (nq : Nat) (herm : Bool) (hc : CustomOK (.mf nm fac ps nq herm)) :
    mfMatrix S ρ fac (ps.map (subSymbols m)) = mfMatrix S (comp S.alg ρ m) fac ps := by
  cases fac with
  | builtin b =>
    simp only [mfMatrix, List.map_map]
    congr 1
    apply List.map_congr_left
    intro p _; exact eval_subSymbols S.alg ρ m p
  | custom mat ord =>
    obtain ⟨hlen, hclosed⟩ := hc
    simp only [mfMatrix, customEntries, List.map_map]
    congr 1
    apply List.map_congr_left
    intro row hrow
    simp only [Function.comp, List.map_map]
    apply List.map_congr_left
    intro e he
    simp only [Function.comp]
    rw [eval_subst, eval_subst]
    apply eval_congr
    intro s hs
    have hsord : s ∈ ord := hclosed row hrow e he s hs
    have hk : s ∈ keys (customDict ord ps) := by
      rw [keys_customDict ord ps hlen]; simpa using hsord
    obtain ⟨v, hv⟩ := Option.isSome_iff_exists.mp ((lookup_isSome_iff _ s).mpr hk)
    simp only [comp, customDict_map, lookup_mapValues, hv, Option.map_some]
    exact eval_subSymbols S.alg ρ m v

/-- binding then evaluating the matrix = evaluating the matrix at the composed environment -/
theorem gateMatrix_bind_aux {V M : Type} (S : Sem V M) (L : Laws S) (ρ : String → V) (m : SymMap)
    {g g' : Gate} (hh : HermOK S g) (hc : CustomOK g) (h : g.bind m = .ok g') :
    gateMatrix S ρ g' = gateMatrix S (comp S.alg ρ m) g ∧ HermOK S g' ∧ g'.isCD = true := by
  induction g generalizing g' with
  | mf nm fac ps nq herm =>
    simp only [Gate.bind, Gate.replaceParams] at h; injection h with h; subst h
    exact ⟨mfMatrix_bind S ρ m nm fac ps nq herm hc, hh, rfl⟩
  | ctrl w k ih =>
    simp only [Gate.bind] at h
    obtain ⟨w', hw, h2⟩ := Res.bind_eq_ok h
    obtain ⟨h1, hh', hcd'⟩ := ih hh hc hw
    obtain ⟨h3, hh'', hcd''⟩ := controlled_matrix S L ρ hcd' hh' h2
    exact ⟨by simp only [gateMatrix, h3, h1], hh'', hcd''⟩
  | dag w ih =>
    simp only [Gate.bind] at h
    obtain ⟨w', hw, h2⟩ := Res.bind_eq_ok h
    obtain ⟨h1, hh', hcd'⟩ := ih hh hc hw
    obtain ⟨h3, hh''⟩ := dagger_matrix S L ρ hcd' hh' h2
    obtain ⟨g'', hg'', hcd''⟩ := dagger_cd hcd'
    rw [h2] at hg''; injection hg'' with hg''; subst hg''
    exact ⟨by simp only [gateMatrix, h3, h1], hh'', hcd''⟩
  | exp w _ => simp [Gate.bind] at h
  | pow w e _ => simp [Gate.bind] at h

/-- the matrix depends on the environment only through the reported free symbols -/
theorem gateMatrix_congr {V M : Type} (S : Sem V M) (ρ ρ' : String → V) (g : Gate) (hc : CustomOK g)
    (h : ∀ s ∈ g.freeSymbols, ρ s = ρ' s) : gateMatrix S ρ g = gateMatrix S ρ' g := by
  induction g with
  | mf nm fac ps nq herm =>
    have hp : ∀ p ∈ ps, p.eval S.alg ρ = p.eval S.alg ρ' := by
      intro p hp
      apply Param.eval_congr
      intro s hs
      exact h s ((mem_getFreeSymbols s ps).mpr ⟨p, hp, hs⟩)
    cases fac with
    | builtin b =>
      simp only [gateMatrix, mfMatrix]
      congr 1
      exact List.map_congr_left hp
    | custom mat ord =>
      obtain ⟨hlen, hclosed⟩ := hc
      simp only [gateMatrix, mfMatrix, customEntries, List.map_map]
      congr 1
      apply List.map_congr_left
      intro row hrow
      simp only [Function.comp, List.map_map]
      apply List.map_congr_left
      intro e he
      simp only [Function.comp]
      rw [eval_subst, eval_subst]
      apply eval_congr
      intro s hs
      have hsord : s ∈ ord := hclosed row hrow e he s hs
      have hk : s ∈ keys (customDict ord ps) := by
        rw [keys_customDict ord ps hlen]; simpa using hsord
      obtain ⟨v, hv⟩ := Option.isSome_iff_exists.mp ((lookup_isSome_iff _ s).mpr hk)
      simp only [comp, hv]
      apply hp
      -- the value looked up is one of the params
      have : (s, v) ∈ customDict ord ps := by
        clear hk hsord hs he hrow hclosed hlen hp h
        generalize customDict ord ps = d at hv
        induction d with
        | nil => simp [lookup] at hv
        | cons kv r ih =>
          obtain ⟨k, v'⟩ := kv
          by_cases hks : k = s
          · simp only [lookup, hks, if_true, Option.some.injEq] at hv
            subst hv; subst hks; simp
          · simp only [lookup, hks, if_false] at hv
            exact List.mem_cons_of_mem _ (ih hv)
      unfold customDict at this
      rw [List.mem_reverse] at this
      exact (List.of_mem_zip this).2
  | ctrl w k ih => simp only [gateMatrix]; rw [ih hc h]
  | dag w ih => simp only [gateMatrix]; rw [ih hc h]
  | exp w ih => simp only [gateMatrix]; rw [ih hc h]
  | pow w e ih => simp only [gateMatrix]; rw [ih hc h]


/-! ### list comprehensions with exceptions -/
theorem mapRes_ok {α β} {f : α → Res β} {l : List α} {l' : List β} (h : mapRes f l = .ok l') :
    List.Forall₂ (fun a b => f a = .ok b) l l' := by
  induction l generalizing l' with
  | nil => simp only [mapRes] at h; injection h with h; subst h; exact List.Forall₂.nil
  | cons a as ih =>
    simp only [mapRes] at h
    cases hfa : f a with
    | err e => rw [hfa] at h; simp at h
    | ok b =>
      rw [hfa] at h
      cases hr : mapRes f as with
      | err e => rw [hr] at h; simp at h
      | ok bs =>
        rw [hr] at h; injection h with h; subst h
        exact List.Forall₂.cons hfa (ih hr)

theorem mapRes_of_forall₂ {α β} {f : α → Res β} {l : List α} {l' : List β}
    (h : List.Forall₂ (fun a b => f a = .ok b) l l') : mapRes f l = .ok l' := by
  induction h with
  | nil => rfl
  | cons hab _ ih => simp only [mapRes, hab, ih]

theorem mapRes_all_ok {α β} (f : α → Res β) (l : List α) (h : ∀ a ∈ l, ∃ b, f a = .ok b) :
    ∃ l', mapRes f l = .ok l' := by
  induction l with
  | nil => exact ⟨[], rfl⟩
  | cons a as ih =>
    obtain ⟨b, hb⟩ := h a (by simp)
    obtain ⟨bs, hbs⟩ := ih (fun x hx => h x (by simp [hx]))
    exact ⟨b :: bs, by simp only [mapRes, hb, hbs]⟩

theorem mapRes_err_mem {α β} {f : α → Res β} {l : List α} {e : Err} (h : mapRes f l = .err e) :
    ∃ a ∈ l, f a = .err e := by
  induction l with
  | nil => simp [mapRes] at h
  | cons a as ih =>
    simp only [mapRes] at h
    cases hfa : f a with
    | err e' => rw [hfa] at h; injection h with h; subst h; exact ⟨a, by simp, hfa⟩
    | ok b =>
      rw [hfa] at h
      cases hr : mapRes f as with
      | err e' =>
        rw [hr] at h; injection h with h; subst h
        obtain ⟨x, hx, hfx⟩ := ih hr
        exact ⟨x, by simp [hx], hfx⟩
      | ok bs => rw [hr] at h; simp at h

theorem mapRes_congr₂ {α α' β} {f : α → Res β} {g : α' → Res β} {l : List α} {l' : List α'}
    (h : List.Forall₂ (fun a b => f a = g b) l l') : mapRes f l = mapRes g l' := by
  induction h with
  | nil => rfl
  | cons hab _ ih => simp only [mapRes, hab, ih]

/-! ### first-appearance order -/

/-- specification: keep the first occurrence of every symbol -/
def firstAppearance : List String → List String
  | [] => []
  | x :: xs => x :: (firstAppearance xs).filter (fun y => y ≠ x)

theorem addUnseen_eq (acc l : List String) :
    addUnseen acc l = acc ++ (firstAppearance l).filter (fun y => y ∉ acc) := by
  induction l generalizing acc with
  | nil => simp [addUnseen, firstAppearance]
  | cons x xs ih =>
    have hstep : addUnseen acc (x :: xs) = addUnseen (if x ∈ acc then acc else acc ++ [x]) xs := rfl
    rw [hstep, ih]
    by_cases hx : x ∈ acc
    · simp only [hx, if_true, firstAppearance, List.filter_cons, not_true_eq_false, decide_false,
        Bool.false_eq_true, if_false, List.filter_filter]
      congr 1
      apply List.filter_congr
      intro y _
      by_cases hy : y ∈ acc
      · simp [hy]
      · have : y ≠ x := fun h => hy (h ▸ hx)
        simp [hy, this]
    · simp only [hx, if_false, firstAppearance, List.filter_cons, not_false_eq_true, decide_true,
        if_true, List.filter_filter, List.append_assoc, List.singleton_append]
      congr 2
      apply List.filter_congr
      intro y _
      simp only [List.mem_append, List.mem_singleton, not_or, ne_eq]
      by_cases hy : y ∈ acc <;> by_cases hyx : y = x <;> simp [hy, hyx]

theorem addUnseen_nil (l : List String) : addUnseen [] l = firstAppearance l := by
  rw [addUnseen_eq]; simp

theorem foldl_addUnseen (acc : List String) (ls : List (List String)) :
    ls.foldl addUnseen acc = addUnseen acc ls.flatten := by
  induction ls generalizing acc with
  | nil => rfl
  | cons l ls ih =>
    simp only [List.foldl_cons, ih, List.flatten_cons]
    unfold addUnseen
    rw [List.foldl_append]

theorem mem_firstAppearance (x : String) (l : List String) : x ∈ firstAppearance l ↔ x ∈ l := by
  induction l with
  | nil => simp [firstAppearance]
  | cons a as ih =>
    simp only [firstAppearance, List.mem_cons, List.mem_filter, ih, decide_eq_true_eq]
    by_cases h : x = a <;> simp [h]

theorem nodup_firstAppearance (l : List String) : (firstAppearance l).Nodup := by
  induction l with
  | nil => simp [firstAppearance]
  | cons a as ih =>
    simp only [firstAppearance, List.nodup_cons, List.mem_filter, decide_eq_true_eq]
    exact ⟨fun h => h.2 rfl, ih.filter _⟩

theorem sublist_firstAppearance (l : List String) : (firstAppearance l).Sublist l := by
  induction l with
  | nil => simp [firstAppearance]
  | cons a as ih =>
    simp only [firstAppearance]
    exact List.Sublist.cons_cons a ((List.filter_sublist).trans ih)

/-- the reported order is the order of first occurrence -/
theorem firstAppearance_order (l : List String) :
    (firstAppearance l).Pairwise (fun a b => l.idxOf a < l.idxOf b) := by
  induction l with
  | nil => simp [firstAppearance]
  | cons x xs ih =>
    simp only [firstAppearance, List.pairwise_cons]
    constructor
    · intro b hb
      simp only [List.mem_filter, decide_eq_true_eq] at hb
      rw [List.idxOf_cons_self, List.idxOf_cons_ne _ (Ne.symm hb.2)]
      omega
    · apply (ih.filter _).imp_of_mem
      intro a b ha hb hab
      simp only [List.mem_filter, decide_eq_true_eq] at ha hb
      rw [List.idxOf_cons_ne _ (Ne.symm ha.2), List.idxOf_cons_ne _ (Ne.symm hb.2)]
      omega

theorem circuit_freeSymbols_eq (c : Circuit) :
    c.freeSymbols = firstAppearance (c.ops.flatMap Op.freeSymbols) := by
  unfold Circuit.freeSymbols
  have : ∀ acc : List String, c.ops.foldl (fun acc op => addUnseen acc op.freeSymbols) acc
      = (c.ops.map Op.freeSymbols).foldl addUnseen acc := by
    intro acc; rw [List.foldl_map]
  rw [this, foldl_addUnseen, addUnseen_nil, List.flatMap_def]


/-! ### CustomOK through the smart constructors -/
theorem customOK_dagger {g g' : Gate} (hcd : g.isCD = true) (hc : CustomOK g) (h : g.dagger = .ok g') :
    CustomOK g' := by
  induction g generalizing g' with
  | mf nm fac ps nq herm =>
    simp only [Gate.dagger] at h; injection h with h; subst h
    cases herm <;> exact hc
  | ctrl w k ih =>
    simp only [Gate.dagger] at h
    obtain ⟨w', hw, rfl⟩ := Res.map_eq_ok h
    exact ih (g' := w') hcd hc hw
  | dag w _ => simp only [Gate.dagger] at h; injection h with h; subst h; exact hc
  | exp w _ => simp [Gate.isCD] at hcd
  | pow w e _ => simp [Gate.isCD] at hcd

theorem customOK_controlled {g g' : Gate} {n : Nat} (hcd : g.isCD = true) (hc : CustomOK g)
    (h : g.controlled n = .ok g') : CustomOK g' := by
  induction g generalizing g' with
  | mf nm fac ps nq herm => simp only [Gate.controlled] at h; injection h with h; subst h; exact hc
  | ctrl w k _ => simp only [Gate.controlled] at h; injection h with h; subst h; exact hc
  | dag w ih =>
    simp only [Gate.controlled] at h
    obtain ⟨w', hw, h2⟩ := Res.bind_eq_ok h
    obtain ⟨w'', hw'', hcd'⟩ := controlled_cd (g := w) n hcd
    rw [hw] at hw''; injection hw'' with hw''; subst hw''
    exact customOK_dagger hcd' (ih hcd hc hw) h2
  | exp w _ => simp [Gate.isCD] at hcd
  | pow w e _ => simp [Gate.isCD] at hcd

theorem customOK_bind {m : SymMap} {g g' : Gate} (hc : CustomOK g) (h : g.bind m = .ok g') :
    CustomOK g' ∧ g'.isCD = true := by
  induction g generalizing g' with
  | mf nm fac ps nq herm =>
    simp only [Gate.bind, Gate.replaceParams] at h; injection h with h; subst h
    refine ⟨?_, rfl⟩
    cases fac with
    | builtin b => trivial
    | custom mat ord => exact ⟨by simpa using hc.1, hc.2⟩
  | ctrl w k ih =>
    simp only [Gate.bind] at h
    obtain ⟨w', hw, h2⟩ := Res.bind_eq_ok h
    obtain ⟨hc', hcd'⟩ := ih hc hw
    obtain ⟨w'', hw'', hcd''⟩ := controlled_cd k hcd'
    rw [h2] at hw''; injection hw'' with hw''; subst hw''
    exact ⟨customOK_controlled hcd' hc' h2, hcd''⟩
  | dag w ih =>
    simp only [Gate.bind] at h
    obtain ⟨w', hw, h2⟩ := Res.bind_eq_ok h
    obtain ⟨hc', hcd'⟩ := ih hc hw
    obtain ⟨w'', hw'', hcd''⟩ := dagger_cd hcd'
    rw [h2] at hw''; injection hw'' with hw''; subst hw''
    exact ⟨customOK_dagger hcd' hc' h2, hcd''⟩
  | exp w _ => simp [Gate.bind] at h
  | pow w e _ => simp [Gate.bind] at h

/-- composing environments: first `m1` then `m2` is `m1 ++ m2` when `m1`'s values avoid `m2`'s keys -/
theorem comp_comp {V} (A : Alg V) (ρ : String → V) (m1 m2 : SymMap) (h : NoMention m1 m2) :
    comp A (comp A ρ m2) m1 = comp A ρ (m1 ++ m2) := by
  funext s
  simp only [comp, lookup_append]
  cases hl : lookup m1 s with
  | none => rfl
  | some v =>
    simp only
    apply Param.eval_congr
    intro t ht
    simp only [comp, h s v hl t ht]

theorem bind_congr (m m' : SymMap) (g : Gate) (h : ∀ s ∈ g.freeSymbols, lookup m s = lookup m' s) :
    g.bind m = g.bind m' := by
  induction g with
  | mf nm fac ps nq herm =>
    simp only [Gate.bind]
    congr 1
    apply List.map_congr_left
    intro p hp
    apply subSymbols_congr
    intro s hs
    exact h s ((mem_getFreeSymbols s ps).mpr ⟨p, hp, hs⟩)
  | ctrl w k ih => simp only [Gate.bind]; rw [ih h]
  | dag w ih => simp only [Gate.bind]; rw [ih h]
  | exp w _ => rfl
  | pow w e _ => rfl

/-! ### operations and circuits -/
def Op.HermOK {V M : Type} (S : Sem V M) : Op → Prop
  | .gate g _ => OQ.C06.HermOK S g
  | _ => True

def Op.CustomOK : Op → Prop
  | .gate g _ => OQ.C06.CustomOK g
  | _ => True

/-- every circuit the constructor can produce -/
def Circuit.WF (c : Circuit) : Prop := c.nQubits ≠ 0 ∨ c.nQubits = sizeByOps c.ops

theorem mkCircuit_wf (ops : List Op) (n : Nat) : (mkCircuit ops n).WF := by
  unfold mkCircuit Circuit.WF
  by_cases h : n ≠ 0
  · rw [if_pos h]; exact Or.inl h
  · rw [if_neg h]; exact Or.inr rfl

theorem op_qubits_bind {m : SymMap} {o o' : Op} (h : o.bind m = .ok o') : o'.qubits = o.qubits := by
  cases o with
  | gate g qs =>
    simp only [Op.bind] at h
    obtain ⟨g', _, rfl⟩ := Res.map_eq_ok h
    rfl
  | multiPhase ps =>
    simp only [Op.bind] at h; injection h with h; subst h
    simp [Op.qubits]
  | reset q => simp only [Op.bind] at h; injection h with h; subst h; rfl

theorem op_params_bind {m : SymMap} {o o' : Op} (h : o.bind m = .ok o') :
    o'.params = o.params.map (subSymbols m) := by
  cases o with
  | gate g qs =>
    simp only [Op.bind] at h
    obtain ⟨g', hg, rfl⟩ := Res.map_eq_ok h
    exact params_bind hg
  | multiPhase ps =>
    simp only [Op.bind] at h; injection h with h; subst h; rfl
  | reset q => simp only [Op.bind] at h; injection h with h; subst h; rfl

theorem flatMap_qubits_of_forall₂ {m : SymMap} {l l' : List Op}
    (h : List.Forall₂ (fun a b => Op.bind m a = .ok b) l l') :
    l'.flatMap Op.qubits = l.flatMap Op.qubits := by
  induction h with
  | nil => rfl
  | cons hab _ ih => simp only [List.flatMap_cons, ih, op_qubits_bind hab]

theorem circuit_bind_ops {m : SymMap} {c c' : Circuit} (hwf : c.WF) (h : c.bind m = .ok c') :
    List.Forall₂ (fun a b => Op.bind m a = .ok b) c.ops c'.ops ∧ c'.nQubits = c.nQubits := by
  unfold Circuit.bind at h
  obtain ⟨ops', hops, rfl⟩ := Res.map_eq_ok h
  have hf := mapRes_ok hops
  unfold mkCircuit
  by_cases hn : c.nQubits ≠ 0
  · rw [if_pos hn]; exact ⟨hf, rfl⟩
  · rw [if_neg hn]
    refine ⟨hf, ?_⟩
    rcases hwf with h1 | h1
    · exact absurd h1 hn
    · rw [h1]; unfold sizeByOps; rw [flatMap_qubits_of_forall₂ hf]

theorem liftedOp_bind {V M : Type} (S : Sem V M) (L : Laws S) (ρ : String → V) (m : SymMap) (n : Nat)
    {o o' : Op} (hh : o.HermOK S) (hc : o.CustomOK) (h : o.bind m = .ok o') :
    liftedOp S ρ n o' = liftedOp S (comp S.alg ρ m) n o := by
  cases o with
  | gate g qs =>
    simp only [Op.bind] at h
    obtain ⟨g', hg, rfl⟩ := Res.map_eq_ok h
    simp only [liftedOp, (gateMatrix_bind_aux S L ρ m hh hc hg).1]
  | multiPhase ps =>
    simp only [Op.bind] at h; injection h with h; subst h; rfl
  | reset q => simp only [Op.bind] at h; injection h with h; subst h; rfl

theorem forall₂_lifted {V M : Type} (S : Sem V M) (L : Laws S) (ρ : String → V) (m : SymMap) (n : Nat)
    {l l' : List Op} (h : List.Forall₂ (fun a b => Op.bind m a = .ok b) l l')
    (hh : ∀ o ∈ l, o.HermOK S) (hc : ∀ o ∈ l, o.CustomOK) :
    List.Forall₂ (fun a b => liftedOp S ρ n a = liftedOp S (comp S.alg ρ m) n b) l' l := by
  induction h with
  | nil => exact List.Forall₂.nil
  | cons hab _ ih =>
    refine List.Forall₂.cons (liftedOp_bind S L ρ m n (hh _ (by simp)) (hc _ (by simp)) hab) ?_
    exact ih (fun o ho => hh o (by simp [ho])) (fun o ho => hc o (by simp [ho]))

theorem circuitMatrix_bind_aux {V M : Type} (S : Sem V M) (L : Laws S) (ρ : String → V) (m : SymMap)
    {c c' : Circuit} (hwf : c.WF) (hh : ∀ o ∈ c.ops, o.HermOK S) (hc : ∀ o ∈ c.ops, o.CustomOK)
    (h : c.bind m = .ok c') :
    circuitMatrix S ρ c' = circuitMatrix S (comp S.alg ρ m) c := by
  obtain ⟨hf, hn⟩ := circuit_bind_ops hwf h
  unfold circuitMatrix
  rw [hn]
  have : mapRes (liftedOp S ρ c.nQubits) c'.ops.reverse
      = mapRes (liftedOp S (comp S.alg ρ m) c.nQubits) c.ops.reverse := by
    apply mapRes_congr₂
    exact List.forall₂_reverse_iff.mpr (forall₂_lifted S L ρ m c.nQubits hf hh hc)
  rw [this]


/-! ### a concrete lawful interpretation (used for the non-vacuity examples) -/

/-- free matrices: a base matrix (name + evaluated entries) under a number of controls and an
    adjoint mark; other constructions are kept as terms -/
inductive FM
  | g (ctrls : Nat) (dagged : Bool) (name : String) (entries : List (List (Option Rat)))
  | exp (x : FM)
  | pow (x : FM) (e : Rat)
  | lift (x : FM) (qs : List Nat) (n : Nat)
  | mul (x y : FM)
deriving DecidableEq, Repr

def hermNames : List String := ["X", "Y", "Z", "H", "I", "CNOT", "CZ", "SWAP"]

def freeSem : Sem (Option Rat) FM where
  alg := ratAlg
  builtin nm vs := .g 0 false nm [vs]
  ofEntries es := .g 0 false "custom" es
  ctrl n X := match X with
    | .g c d nm es => .g (c + n) d nm es
    | X => X
  dag X := match X with
    | .g c d nm es => if nm ∈ hermNames then .g c d nm es else .g c (!d) nm es
    | X => X
  exp := .exp
  pow := .pow
  lift := .lift
  mul := .mul

theorem freeSem_laws : Laws freeSem where
  ctrl_ctrl a b X := by
    cases X <;> simp [freeSem, Nat.add_assoc]
  dag_dag X := by
    cases X with
    | g c d nm es =>
      by_cases h : nm ∈ hermNames <;> simp [freeSem, h]
    | _ => rfl
  dag_ctrl n X := by
    cases X with
    | g c d nm es =>
      by_cases h : nm ∈ hermNames <;> simp [freeSem, h]
    | _ => rfl


theorem zip_fst_sublist (ord : List String) (ps : List Param) :
    ((List.zip ord ps).map (fun kv => kv.1)).Sublist ord := by
  induction ord generalizing ps with
  | nil => simp
  | cons a as ih =>
    cases ps with
    | nil => simp
    | cons p ps => simp only [List.zip_cons_cons, List.map_cons]; exact (ih ps).cons_cons a

theorem keys_customDict_nodup (ord : List String) (ps : List Param) (hn : ord.Nodup) :
    (keys (customDict ord ps)).Nodup := by
  unfold keys customDict
  rw [List.map_reverse, List.nodup_reverse]
  exact hn.sublist (zip_fst_sublist ord ps)

theorem lookup_of_mem_nodup (d : SymMap) (k : String) (v : Param) (hmem : (k, v) ∈ d)
    (hnd : (keys d).Nodup) : lookup d k = some v := by
  induction d with
  | nil => simp at hmem
  | cons kv r ih =>
    obtain ⟨k', v'⟩ := kv
    simp only [keys, List.map_cons, List.nodup_cons] at hnd
    rcases List.mem_cons.mp hmem with heq | hin
    · injection heq with h1 h2; simp [lookup, h1, h2]
    · have hk : k' ≠ k := by
        intro hk; apply hnd.1; rw [hk]
        exact List.mem_map.mpr ⟨(k, v), hin, rfl⟩
      simp only [lookup, hk, if_false]
      exact ih hin hnd.2

theorem bind_ok_isCD {m : SymMap} {g g' : Gate} (h : g.bind m = .ok g') : g.isCD = true := by
  cases hg : g.isCD with
  | true => rfl
  | false => rw [bind_not_cd m hg] at h; simp at h

theorem op_bind_bind {m1 m2 : SymMap} (hnm : NoMention m1 m2) {o o1 o2 : Op}
    (h1 : o.bind m1 = .ok o1) (h2 : o1.bind m2 = .ok o2) :
    ∃ o12, o.bind (m1 ++ m2) = .ok o12 ∧ o12.params = o2.params := by
  have hp : (o.params.map (subSymbols m1)).map (subSymbols m2) = o.params.map (subSymbols (m1 ++ m2)) := by
    rw [List.map_map]
    apply List.map_congr_left
    intro p _; exact subSymbols_subSymbols m1 m2 hnm p
  cases o with
  | gate g qs =>
    simp only [Op.bind] at h1
    obtain ⟨g1, hg1, rfl⟩ := Res.map_eq_ok h1
    obtain ⟨g12, h12, _⟩ := bind_cd (m1 ++ m2) (bind_ok_isCD hg1)
    refine ⟨.gate g12 qs, by simp [Op.bind, h12], ?_⟩
    rw [op_params_bind h2]
    simp only [Op.params, params_bind h12, params_bind hg1]
    exact hp.symm
  | multiPhase ps =>
    simp only [Op.bind] at h1; injection h1 with h1; subst h1
    refine ⟨_, rfl, ?_⟩
    rw [op_params_bind h2]; exact hp.symm
  | reset q =>
    simp only [Op.bind] at h1; injection h1 with h1; subst h1
    simp only [Op.bind] at h2; injection h2 with h2; subst h2
    exact ⟨_, rfl, rfl⟩

theorem forall₂_bind_bind {m1 m2 : SymMap} (hnm : NoMention m1 m2) {l l1 l2 : List Op}
    (h1 : List.Forall₂ (fun a b => Op.bind m1 a = .ok b) l l1)
    (h2 : List.Forall₂ (fun a b => Op.bind m2 a = .ok b) l1 l2) :
    ∃ l12, mapRes (Op.bind (m1 ++ m2)) l = .ok l12 ∧ l12.map Op.params = l2.map Op.params := by
  induction h1 generalizing l2 with
  | nil => cases h2; exact ⟨[], rfl, rfl⟩
  | cons hab _ ih =>
    cases h2 with
    | cons hbc hrest =>
      obtain ⟨o12, ho12, hp⟩ := op_bind_bind hnm hab hbc
      obtain ⟨l12, hl12, hps⟩ := ih hrest
      exact ⟨o12 :: l12, by simp only [mapRes, ho12, hl12], by simp only [List.map_cons, hp, hps]⟩

theorem circuit_bind_wf {m : SymMap} {c c' : Circuit} (h : c.bind m = .ok c') : c'.WF := by
  unfold Circuit.bind at h
  obtain ⟨ops', _, rfl⟩ := Res.map_eq_ok h
  exact mkCircuit_wf _ _

end OQ.C06
