/- C09 helper lemmas, part 1: entries of Pauli-string matrices (`stringMatrix`, `denote`). -/
import OQ.Model.C09
import OQ.Lemmas.Bridge
import Mathlib.Algebra.BigOperators.Group.List.Basic
import Mathlib.Algebra.Ring.Basic
import Mathlib.Tactic.Ring
import Mathlib.Tactic.Linarith
import Mathlib.Tactic.IntervalCases

namespace OQ.C09
open OQ OQ.Pauli

variable {R : Type} [CommRing R]

/-- entry of a 2×2 Pauli matrix in closed form -/
def pe (k : Scal R) : Option P → Nat → Nat → R
  | none, a, b => if a = b then 1 else 0
  | some .X, a, b => if a = b then 0 else 1
  | some .Y, a, b => if a = b then 0 else if a = 0 then -k.i else k.i
  | some .Z, a, b => if a = b then (if a = 0 then 1 else -1) else 0

theorem pauliMat_r (k : Scal R) (o : Option P) : (pauliMat k o).r = 2 := by
  rcases o with _ | p
  · rfl
  · cases p <;> rfl

theorem pauliMat_c (k : Scal R) (o : Option P) : (pauliMat k o).c = 2 := by
  rcases o with _ | p
  · rfl
  · cases p <;> rfl

theorem pauliMat_get (k : Scal R) (o : Option P) (a b : Nat) (ha : a < 2) (hb : b < 2) :
    (pauliMat k o).get a b = pe k o a b := by
  rcases o with _ | p
  · interval_cases a <;> interval_cases b <;>
      (simp only [pauliMat, Mat.ofLists]; rw [Mat.get_ofFn _ _ _ _ _ (by simp) (by simp)]; simp [pe])
  · cases p <;> interval_cases a <;> interval_cases b <;>
      (simp only [pauliMat, Mat.ofLists]; rw [Mat.get_ofFn _ _ _ _ _ (by simp) (by simp)]; simp [pe])

/-- entry `(i, j)` of `σ_{at 0} ⊗ … ⊗ σ_{at (n-1)}`: the last qubit is the least significant bit -/
def strEntry (k : Scal R) (at_ : Nat → Option P) : Nat → Nat → Nat → R
  | 0, _, _ => 1
  | n + 1, i, j => strEntry k at_ n (i / 2) (j / 2) * pe k (at_ n) (i % 2) (j % 2)

theorem kron_r (A B : Mat R) : (A.kron B).r = A.r * B.r := rfl
theorem kron_c (A B : Mat R) : (A.kron B).c = A.c * B.c := rfl

theorem stringMatrix_succ (k : Scal R) (n : Nat) (at_ : Nat → Option P) :
    stringMatrix k (n + 1) at_ = (stringMatrix k n at_).kron (pauliMat k (at_ n)) := by
  unfold stringMatrix
  rw [List.range_succ, List.foldl_append]
  rfl

theorem stringMatrix_spec (k : Scal R) (at_ : Nat → Option P) (n : Nat) :
    (stringMatrix k n at_).r = 2 ^ n ∧ (stringMatrix k n at_).c = 2 ^ n ∧
    ∀ i j, i < 2 ^ n → j < 2 ^ n → (stringMatrix k n at_).get i j = strEntry k at_ n i j := by
  induction n with
  | zero =>
    refine ⟨rfl, rfl, ?_⟩
    intro i j hi hj
    have hi0 : i = 0 := by simpa using hi
    have hj0 : j = 0 := by simpa using hj
    subst hi0 hj0
    simp only [stringMatrix, List.range_zero, List.foldl_nil, Mat.identity, strEntry]
    rw [Mat.get_ofFn _ _ _ _ _ (by decide) (by decide)]; simp
  | succ n ih =>
    obtain ⟨hr, hc, he⟩ := ih
    rw [stringMatrix_succ]
    refine ⟨?_, ?_, ?_⟩
    · rw [kron_r, hr, pauliMat_r, pow_succ]
    · rw [kron_c, hc, pauliMat_c, pow_succ]
    · intro i j hi hj
      rw [Mat.kron_get _ _ _ _ (by rw [hr, pauliMat_r, ← pow_succ]; exact hi)
        (by rw [hc, pauliMat_c, ← pow_succ]; exact hj)]
      rw [pauliMat_r, pauliMat_c]
      have hi2 : i / 2 < 2 ^ n := by rw [pow_succ] at hi; omega
      have hj2 : j / 2 < 2 ^ n := by rw [pow_succ] at hj; omega
      rw [he _ _ hi2 hj2, pauliMat_get _ _ _ _ (Nat.mod_lt _ (by decide)) (Nat.mod_lt _ (by decide))]
      rfl


/-- entry `(i, j)` of the matrix a sum denotes on `n` qubits -/
def dEntry (k : Scal R) (n : Nat) (s : PSum R) (i j : Nat) : R :=
  (s.map (fun t => t.coeff * strEntry k t.opAt n i j)).sum

theorem dEntry_nil (k : Scal R) (n i j : Nat) : dEntry k n ([] : PSum R) i j = 0 := rfl

theorem dEntry_cons (k : Scal R) (n : Nat) (t : Term R) (s : PSum R) (i j : Nat) :
    dEntry k n (t :: s) i j = t.coeff * strEntry k t.opAt n i j + dEntry k n s i j := by
  simp [dEntry]

theorem dEntry_append (k : Scal R) (n : Nat) (a b : PSum R) (i j : Nat) :
    dEntry k n (a ++ b) i j = dEntry k n a i j + dEntry k n b i j := by
  simp [dEntry]

theorem termDenote_spec (k : Scal R) (n : Nat) (t : Term R) :
    (t.denote k n).r = 2 ^ n ∧ (t.denote k n).c = 2 ^ n ∧
    ∀ i j, i < 2 ^ n → j < 2 ^ n → (t.denote k n).get i j = t.coeff * strEntry k t.opAt n i j := by
  obtain ⟨hr, hc, he⟩ := stringMatrix_spec k t.opAt n
  refine ⟨?_, ?_, ?_⟩
  · simp only [Term.denote, Mat.smul, Mat.ofFn_r, hr]
  · simp only [Term.denote, Mat.smul, Mat.ofFn_c, hc]
  · intro i j hi hj
    simp only [Term.denote, Mat.smul]
    rw [Mat.get_ofFn _ _ _ _ _ (by rw [hr]; exact hi) (by rw [hc]; exact hj), he _ _ hi hj]

theorem foldl_add_spec (k : Scal R) (n : Nat) (s : PSum R) (acc : Mat R)
    (hr : acc.r = 2 ^ n) (hc : acc.c = 2 ^ n) :
    let M := s.foldl (fun acc t => Mat.add acc (t.denote k n)) acc
    M.r = 2 ^ n ∧ M.c = 2 ^ n ∧
    ∀ i j, i < 2 ^ n → j < 2 ^ n → M.get i j = acc.get i j + dEntry k n s i j := by
  induction s generalizing acc with
  | nil => simp [dEntry_nil, hr, hc]
  | cons t s ih =>
    obtain ⟨_, _, he⟩ := termDenote_spec k n t
    have h := ih (Mat.add acc (t.denote k n)) (by simp [Mat.add, hr]) (by simp [Mat.add, hc])
    simp only [List.foldl_cons]
    refine ⟨h.1, h.2.1, ?_⟩
    intro i j hi hj
    rw [h.2.2 i j hi hj, dEntry_cons]
    simp only [Mat.add]
    rw [Mat.get_ofFn _ _ _ _ _ (by rw [hr]; exact hi) (by rw [hc]; exact hj), he _ _ hi hj]
    ring

/-- the matrix a sum denotes, entry by entry -/
theorem denote_spec (k : Scal R) (n : Nat) (s : PSum R) :
    (PSum.denote k n s).r = 2 ^ n ∧ (PSum.denote k n s).c = 2 ^ n ∧
    ∀ i j, i < 2 ^ n → j < 2 ^ n → (PSum.denote k n s).get i j = dEntry k n s i j := by
  have h := foldl_add_spec k n s (Mat.ofFn (2 ^ n) (2 ^ n) (fun _ _ => (0 : R))) rfl rfl
  refine ⟨h.1, h.2.1, ?_⟩
  intro i j hi hj
  have := h.2.2 i j hi hj
  rw [Mat.get_ofFn _ _ _ _ _ hi hj, zero_add] at this
  exact this

/-- identity padding: idle qubits `m … m+g-1` contribute a Kronecker delta on the low `g` bits -/
theorem strEntry_pad (k : Scal R) (at_ : Nat → Option P) (m g : Nat)
    (hnone : ∀ q, m ≤ q → q < m + g → at_ q = none) (i j : Nat) :
    strEntry k at_ (m + g) i j =
      strEntry k at_ m (i / 2 ^ g) (j / 2 ^ g) * (if i % 2 ^ g = j % 2 ^ g then 1 else 0) := by
  induction g generalizing i j with
  | zero => simp [Nat.mod_one]
  | succ g ih =>
    have h1 := ih (fun q h1 h2 => hnone q h1 (by omega)) (i / 2) (j / 2)
    rw [← Nat.add_assoc]
    simp only [strEntry]
    rw [h1, hnone (m + g) (by omega) (by omega)]
    simp only [pe]
    have e1 : i / 2 / 2 ^ g = i / 2 ^ (g + 1) := by rw [Nat.div_div_eq_div_mul, pow_succ, Nat.mul_comm]
    have e2 : j / 2 / 2 ^ g = j / 2 ^ (g + 1) := by rw [Nat.div_div_eq_div_mul, pow_succ, Nat.mul_comm]
    rw [e1, e2]
    have key : (i % 2 ^ (g + 1) = j % 2 ^ (g + 1)) ↔ ((i / 2) % 2 ^ g = (j / 2) % 2 ^ g ∧ i % 2 = j % 2) := by
      have hi : i % 2 ^ (g + 1) = 2 * ((i / 2) % 2 ^ g) + i % 2 := by
        rw [pow_succ, Nat.mul_comm, Nat.mod_mul]; omega
      have hj : j % 2 ^ (g + 1) = 2 * ((j / 2) % 2 ^ g) + j % 2 := by
        rw [pow_succ, Nat.mul_comm, Nat.mod_mul]; omega
      rw [hi, hj]; omega
    by_cases hA : (i / 2) % 2 ^ g = (j / 2) % 2 ^ g <;> by_cases hB : i % 2 = j % 2 <;>
      simp [hA, hB, key]

/-- `strEntry` only looks at the letters of the qubits below `n` -/
theorem strEntry_congr (k : Scal R) (a b : Nat → Option P) (n : Nat) (h : ∀ q, q < n → a q = b q) (i j : Nat) :
    strEntry k a n i j = strEntry k b n i j := by
  induction n generalizing i j with
  | zero => rfl
  | succ n ih =>
    simp only [strEntry]
    rw [ih (fun q hq => h q (by omega)), h n (by omega)]

end OQ.C09
