/- helper lemmas for the translation ties of `utils.scale_and_discretize` and
   `Measurements.get_measurements_representing_distribution` (`OQ/Props/C13_TranslatedShots.lean`): the prelude's loops
   (`foldlE`, `indexE`, `listSet`, `listRemoveE`, `dictGetE`, `dictSet`) against the model's `bumpAt`, `roundedSamples`,
   `representing` (not property theorems) -/
import OQ.Lemmas.C13_Iter
import OQ.Lemmas.PyT4
import OQ.Props.C13
import OQ.Generated.TranslatedC13
namespace OQ.C13
open OQ.Py OQ.Generated

theorem foldlE_append {σ α : Type} (f : σ → α → Except Exc4 σ) (s : σ) (xs ys : List α) :
    foldlE f s (xs ++ ys) = (foldlE f s xs).bind (fun s' => foldlE f s' ys) := by
  induction xs generalizing s with
  | nil => rfl
  | cons x xs ih =>
    simp only [List.cons_append, foldlE]
    cases f s x with
    | error e => rfl
    | ok s' => simp only [bind_ok]; exact ih s'

/-- `np.floor` on an exact value -/
def npFloor (q : Rat) : Rat := ((ratFloor q : Int) : Rat)

def castL (l : List Int) : List Rat := l.map (fun (k : Int) => (k : Rat))

theorem indexE_nat {α : Type} (xs : List α) (m : Nat) (h : m < xs.length) : indexE xs (m : Int) = .ok xs[m] := by
  rw [indexE_eq]
  simp [h]

theorem listSet_nat {α : Type} (xs : List α) (m : Nat) (v : α) : listSet xs (m : Int) v = xs.set m v := by
  unfold listSet
  simp

theorem castL_bump (l : List Int) (m : Nat) (h : m < l.length) :
    (castL l).set m ((castL l)[m]'(by simpa [castL] using h) + 1) = castL (bumpAt l m) := by
  induction l generalizing m with
  | nil => simp at h
  | cons x xs ih =>
    cases m with
    | zero => simp [castL, bumpAt]
    | succ m =>
      have := ih m (by simpa using h)
      simp only [castL, List.map_cons, List.set_cons_succ, bumpAt, List.getElem_cons_succ] at this ⊢
      rw [this]

theorem foldl_bump_length (js : List Nat) (fl : List Int) : (js.foldl bumpAt fl).length = fl.length := by
  induction js generalizing fl with
  | nil => rfl
  | cons j js ihj => simp only [List.foldl_cons]; rw [ihj]; exact bumpAt_length fl j

/-- the bump loop of `scale_and_discretize` on the translated side is the model's fold of `bumpAt` -/
theorem foldlE_bump (idxs : List Int) (fl : List Int) (hr : ∀ i ∈ idxs, 0 ≤ i ∧ i < fl.length) :
    ∀ k, k ≤ idxs.length →
    foldlE (fun (st : List Rat) (index : Int) =>
        Except.bind (indexE idxs index) (fun (t3 : Int) =>
        Except.bind (indexE st t3) (fun (t4 : Rat) =>
        Except.ok (listSet st t3 (t4 + ((1 : Int) : Rat)))))) (castL fl) ((List.range k).map Int.ofNat)
      = .ok (castL (((idxs.take k).map Int.toNat).foldl bumpAt fl)) := by
  intro k
  induction k with
  | zero => intro _; rfl
  | succ k ih =>
    intro hk
    have hk' : k < idxs.length := by omega
    rw [List.range_succ, List.map_append, foldlE_append, ih (by omega)]
    simp only [bind_ok, List.map_cons, List.map_nil, foldlE]
    have e1 : indexE idxs (Int.ofNat k) = .ok idxs[k] := indexE_nat idxs k hk'
    rw [e1]
    simp only [bind_ok]
    obtain ⟨h0, h1⟩ := hr idxs[k] (List.getElem_mem hk')
    set L := ((idxs.take k).map Int.toNat).foldl bumpAt fl with hL
    have hLlen : L.length = fl.length := by rw [hL]; exact foldl_bump_length _ _
    obtain ⟨m, hm⟩ := Int.eq_ofNat_of_zero_le h0
    have hmL : m < L.length := by rw [hLlen]; omega
    have hmc : m < (castL L).length := by simpa [castL] using hmL
    rw [hm, indexE_nat (castL L) m hmc]
    simp only [bind_ok, listSet_nat]
    have : (List.take (k + 1) idxs) = List.take k idxs ++ [idxs[k]] := by
      rw [List.take_succ_eq_append_getElem hk']
    rw [this, List.map_append, List.foldl_append]
    simp only [List.map_cons, List.map_nil, List.foldl_cons, List.foldl_nil, hm, Int.toNat_natCast]
    rw [← hL, ← castL_bump L m hmL]
    simp

/-- the order in which `scale_and_discretize` hands out the left-over units: `np.argsort(remainders)[::-1]` -/
def bumpOrder (argsort : List Rat → List Int) (values : List Rat) (total : Int) : List Nat :=
  ((argsort (shareRemainders values total)).reverse).map Int.toNat

theorem castL_sum (l : List Int) : (castL l).sum = ((l.sum : Int) : Rat) := by
  induction l with
  | nil => simp [castL]
  | cons x xs ih => simp only [castL, List.map_cons, List.sum_cons] at ih ⊢; rw [ih]; push_cast; ring


abbrev Outcome := List Int

theorem beq_unique {α : Type} (i1 i2 : BEq α) [@LawfulBEq α i1] [@LawfulBEq α i2] : i1 = i2 := by
  cases i1 with | mk b1 => cases i2 with | mk b2 =>
  congr; funext a b
  have h1 : ∀ a b, b1 a b = true ↔ a = b := fun a b => @beq_iff_eq α ⟨b1⟩ _ a b
  have h2 : ∀ a b, b2 a b = true ↔ a = b := fun a b => @beq_iff_eq α ⟨b2⟩ _ a b
  rw [Bool.eq_iff_iff, h1, h2]

theorem mapE_id (xs : List Int) : mapE (fun (mv : Int) => (Except.ok mv : Except Exc4 Int)) xs = .ok xs := by
  have := mapE_ok (fun (x : Int) => x) xs
  simpa using this

/-- `for key in d: acc += [tuple(int(b) for b in key)] * cnt(d[key])` -/
theorem foldlE_extend {β : Type} (d : Dict Outcome β) (hn : (dictKeys d).Nodup) (cnt : β → Nat)
    (todo : Dict Outcome β) (hsub : ∀ p ∈ todo, p ∈ d) (acc : List Outcome) :
    foldlE (fun (st : List Outcome) (key : Outcome) =>
        Except.bind (dictGetE d key) (fun v =>
        Except.ok (st ++ (List.replicate (cnt v) [key]).flatten))) acc (dictKeys todo)
      = .ok (acc ++ todo.flatMap (fun p => List.replicate (cnt p.2) p.1)) := by
  induction todo generalizing acc with
  | nil => simp [dictKeys, foldlE]
  | cons p todo ih =>
    simp only [dictKeys, List.map_cons, foldlE]
    rw [dictGetE_of_mem d hn p.1 p.2 (hsub p (by simp))]
    simp only [bind_ok]
    have := ih (fun q hq => hsub q (by simp [hq])) (acc ++ (List.replicate (cnt p.2) [p.1]).flatten)
    simp only [dictKeys] at this
    rw [this, replicate_singleton_flatten]
    simp [List.flatMap_cons]

/-- `{k: g(d[k]) for k in d.keys()}` -/
theorem foldlE_dictcomp (d : Dict Outcome Rat) (hn : (dictKeys d).Nodup) (g : Rat → Rat)
    (todo : Dict Outcome Rat) (hsub : ∀ p ∈ todo, p ∈ d) (done : Dict Outcome Rat)
    (hfresh : (dictKeys done ++ dictKeys todo).Nodup) :
    foldlE (fun (acc : Dict Outcome Rat) (k : Outcome) =>
       Except.bind (dictGetE d k) (fun v => Except.ok (dictSet acc k (g v)))) done (dictKeys todo)
    = .ok (done ++ todo.map (fun p => (p.1, g p.2))) := by
  induction todo generalizing done with
  | nil => simp [dictKeys, foldlE]
  | cons p todo ih =>
    simp only [dictKeys, List.map_cons, foldlE]
    rw [dictGetE_of_mem d hn p.1 p.2 (hsub p (by simp))]
    simp only [bind_ok]
    have hp : p.1 ∉ dictKeys done := by
      intro h
      simp only [dictKeys, List.map_cons] at hfresh
      have := (List.nodup_append.mp hfresh).2.2 _ h p.1 (by simp)
      exact this rfl
    rw [dictSet_of_not_mem done p.1 (g p.2) hp]
    have := ih (fun q hq => hsub q (by simp [hq])) (done ++ [(p.1, g p.2)]) (by
      simp only [dictKeys, List.map_cons, List.map_append, List.map_nil] at hfresh ⊢
      simpa [List.append_assoc] using hfresh)
    simp only [dictKeys] at this
    rw [this]; simp

theorem count_erase_times {α : Type} [BEq α] [LawfulBEq α] (x : α) (k : Nat) (l : List α) :
    ∀ y, y ≠ x → ((List.range k).foldl (fun a _ => a.erase x) l).count y = l.count y := by
  induction k generalizing l with
  | zero => simp
  | succ k ih =>
    intro y hy
    rw [List.range_succ_eq_map, List.foldl_cons, List.foldl_map, ih (l.erase x) y hy, List.count_erase_of_ne hy]

/-- `for _ in range(k): l.remove(x)` when `x` occurs at least `k` times -/
theorem foldlE_remove_times (x : Outcome) (is : List Int) (js : List Nat) (hij : is.length = js.length) (l : List Outcome)
    (h : is.length ≤ l.count x) :
    foldlE (fun (st : List Outcome) (_ : Int) =>
      Except.bind (listRemoveE st x) (fun st' => Except.ok st')) l is
    = .ok (js.foldl (fun a _ => a.erase x) l) := by
  induction is generalizing js l with
  | nil => cases js with
    | nil => rfl
    | cons _ _ => simp at hij
  | cons i is ih => cases js with
    | nil => simp at hij
    | cons j js =>
      have hx : x ∈ l := List.count_pos_iff.mp (by simp at h; omega)
      have hr : listRemoveE l x = .ok (l.erase x) := by simp [listRemoveE, hx]
      simp only [foldlE, List.foldl_cons]
      rw [hr]
      simp only [bind_ok]
      exact ih js (by simpa using hij) (l.erase x) (by rw [List.count_erase_self]; simp at h; omega)

def toExtra (s : Dict Outcome Int) : List (Outcome × Nat) := s.map (fun p => (p.1, p.2.toNat))

theorem toExtra_keys (s : Dict Outcome Int) : (toExtra s).map (fun p => p.1) = dictKeys s := by
  simp [toExtra, dictKeys, Function.comp_def]

/-- the elimination loop: `for sample in samples: for _ in range(samples[sample]): l.remove(sample)` -/
theorem foldlE_eliminate (s : Dict Outcome Int) (hn : (dictKeys s).Nodup)
    (todo : Dict Outcome Int) (hsub : ∀ p ∈ todo, p ∈ s) (htn : (dictKeys todo).Nodup)
    (acc : List Outcome) (hc : ∀ p ∈ todo, p.2.toNat ≤ acc.count p.1) :
    foldlE (fun (st : List Outcome) (sample : Outcome) =>
      Except.bind (dictGetE s sample) (fun c =>
      Except.bind (foldlE (fun (st : List Outcome) (_ : Int) =>
        Except.bind (listRemoveE st sample) (fun st' => Except.ok st')) st ((List.range (Int.toNat c)).map Int.ofNat))
        (fun st => Except.ok st))) acc (dictKeys todo)
    = .ok ((toExtra todo).foldl (fun acc p => (List.range p.2).foldl (fun a _ => a.erase p.1) acc) acc) := by
  induction todo generalizing acc with
  | nil => simp [dictKeys, foldlE, toExtra]
  | cons p todo ih =>
    simp only [dictKeys, List.map_cons, foldlE, toExtra, List.foldl_cons]
    rw [dictGetE_of_mem s hn p.1 p.2 (hsub p (by simp))]
    simp only [bind_ok]
    rw [foldlE_remove_times p.1 _ (List.range p.2.toNat) (by simp) acc (by simpa using hc p (by simp))]
    simp only [bind_ok]
    have hk' : p.1 ∉ dictKeys todo ∧ (dictKeys todo).Nodup := by
      simp only [dictKeys, List.map_cons] at htn; exact List.nodup_cons.mp htn
    have := ih (fun q hq => hsub q (by simp [hq])) hk'.2
      ((List.range p.2.toNat).foldl (fun a _ => a.erase p.1) acc) (by
        intro q hq
        have hne : q.1 ≠ p.1 := by
          intro he; apply hk'.1; rw [← he]; exact List.mem_map_of_mem (f := fun p => p.1) hq
        rw [count_erase_times p.1 _ acc q.1 hne]; exact hc q (by simp [hq]))
    simp only [dictKeys, toExtra] at this
    exact this

/-- the weights of the leftover distribution: `0.5 - abs(0.5 - (p * n) % 1)` per outcome -/
def leftoverDict (fmod : Rat → Rat → Rat) (dist : Dict Outcome Rat) (n : Int) : Dict Outcome Rat :=
  dist.map (fun p => (p.1, (1 : Rat) / 2 - absNum ((1 : Rat) / 2 - fmod (p.2 * (n : Rat)) 1)))

/-- what the random stage hands to the final loops: the sampler's draw when shots are added, the corrected draw of
    `_check_sample_elimination` when shots are removed -/
def drawn (sample : Dict Outcome Rat → Int → Dict Outcome Int)
    (elim : Dict Outcome Int → List Outcome → Dict Outcome Rat → Dict Outcome Int)
    (dist : Dict Outcome Rat) (n : Int) (L : Dict Outcome Rat) : Dict Outcome Int :=
  let base := roundedSamples dist n
  let s := sample L (absInt (n - (base.length : Int)))
  if n - (base.length : Int) > 0 then s else elim s base L


end OQ.C13
