/-
  C06 ⟷ C07 ⟷ C02 — helper lemmas for OQ/Props/C06_Link.lean.
  * extensionality of the executable `Mat` on well-formed matrices,
  * the carrier `SqMat R` (well-formed square matrices) with C07's `ctlMatrix` / `adjointWith star` on it and the three
    wrapper laws of C06 (`ctl_ctl`, `adj_adj`, `adj_ctl`),
  * the concrete interpretation `cSem` of C06's `Sem` and its `Laws`,
  * truthfulness of the library's `is_hermitian` flags for `cSem` from C02's `flag_hermitian`,
  * the translation `toC07` of a C06 gate (at an assignment) into a C07 gate object and agreement of the matrices.
-/
import OQ.Lemmas.C06
import OQ.Lemmas.C07
import OQ.Props.C02
import OQ.Model.Lift
namespace OQ.C06.Link
open OQ

variable {R : Type}

theorem ofFn_congr (r c r' c' : Nat) (f g : Nat → Nat → R) (hr : r = r') (hc : c = c')
    (h : ∀ i j, i < r → j < c → f i j = g i j) : Mat.ofFn r c f = Mat.ofFn r' c' g := by
  subst hr hc
  unfold Mat.ofFn
  congr 1
  congr 1
  funext k
  have hk := k.2
  have hc0 : 0 < c := by
    rcases Nat.eq_zero_or_pos c with h0 | h0
    · subst h0; simp at hk
    · exact h0
  exact h _ _ ((Nat.div_lt_iff_lt_mul hc0).2 hk) (Nat.mod_lt _ hc0)

def WF (A : Mat R) : Prop := A.a.size = A.r * A.c

theorem wf_ofFn (r c : Nat) (f : Nat → Nat → R) : WF (Mat.ofFn r c f) := by
  simp [WF, Mat.ofFn]

theorem wf_canon [Zero R] (A : Mat R) (h : WF A) : Mat.ofFn A.r A.c A.get = A := by
  obtain ⟨r, c, a⟩ := A
  simp only [WF] at h
  unfold Mat.ofFn
  congr 1
  apply Array.ext (by simp [h])
  intro i h1 h2
  have hi : i < r * c := by simpa using h1
  have hc0 : 0 < c := by
    rcases Nat.eq_zero_or_pos c with h0 | h0
    · subst h0; simp at hi
    · exact h0
  have h3 : i / c < r := (Nat.div_lt_iff_lt_mul hc0).2 hi
  have h4 : i % c < c := Nat.mod_lt _ hc0
  have h5 : i / c * c + i % c = i := Nat.div_add_mod' i c
  simp only [Array.getElem_ofFn, Mat.get, h3, h4, and_self, if_true, h5]
  simp [Array.getD, h2]

theorem mat_ext [Zero R] (A B : Mat R) (hA : WF A) (hB : WF B) (hr : A.r = B.r) (hc : A.c = B.c)
    (h : ∀ i j, i < A.r → j < A.c → A.get i j = B.get i j) : A = B := by
  rw [← wf_canon A hA, ← wf_canon B hB]
  exact ofFn_congr _ _ _ _ _ _ hr hc h

/-- a well-formed square matrix -/
def Sq (A : Mat R) : Prop := WF A ∧ A.c = A.r

instance (A : Mat R) : Decidable (Sq A) := by unfold Sq WF; infer_instance

/-- the carrier of the concrete interpretation: well-formed square executable matrices -/
abbrev SqMat (R : Type) := { A : Mat R // Sq A }

/-- shape check of a matrix handed back by a factory / an external: a non-square answer is an error -/
def check (A : Mat R) : Except C07.Err (SqMat R) :=
  if h : Sq A then .ok ⟨A, h⟩ else .error (.ext "shape")

section Ops
variable [CommRing R] [StarRing R]

/-- the size of the identity block of `ControlledGate.matrix` for `n` controls over a `d × d` matrix: `2^n·d − d` -/
def ctlBlock (n d : Nat) : Nat := d * (2 ^ n - 1)

/-- `Matrix.diag(eye(2^(N+n) − 2^N), M)` through C07's `ctlMatrix` -/
def ctl (n : Nat) (A : SqMat R) : SqMat R :=
  ⟨C07.ctlMatrix (ctlBlock n A.1.r) A.1, wf_ofFn _ _ _, by
    show ctlBlock n A.1.r + A.1.c = ctlBlock n A.1.r + A.1.r
    rw [A.2.2]⟩

/-- `M.adjoint()` through C07's `adjointWith star` -/
def adj (A : SqMat R) : SqMat R :=
  ⟨C07.adjointWith star A.1, wf_ofFn _ _ _, by
    show A.1.r = A.1.c
    rw [A.2.2]⟩

theorem ctlBlock_add (a b d : Nat) : ctlBlock b (ctlBlock a d + d) + ctlBlock a d = ctlBlock (a + b) d := by
  unfold ctlBlock
  obtain ⟨p, hp⟩ : ∃ p, 2 ^ a = p + 1 := ⟨2 ^ a - 1, by have := Nat.one_le_two_pow (n := a); omega⟩
  obtain ⟨q, hq⟩ : ∃ q, 2 ^ b = q + 1 := ⟨2 ^ b - 1, by have := Nat.one_le_two_pow (n := b); omega⟩
  rw [pow_add, hp, hq]
  simp only [Nat.add_sub_cancel]
  have : (p + 1) * (q + 1) - 1 = p * q + p + q := by
    have : (p + 1) * (q + 1) = p * q + p + q + 1 := by ring
    omega
  rw [this]; ring

omit [StarRing R] in
theorem ctl_ctl (a b : Nat) (X : SqMat R) : ctl b (ctl a X) = ctl (a + b) X := by
  apply Subtype.ext
  obtain ⟨X, hwf, hsq⟩ := X
  show C07.ctlMatrix (ctlBlock b (ctlBlock a X.r + X.r)) (C07.ctlMatrix (ctlBlock a X.r) X) = C07.ctlMatrix (ctlBlock (a + b) X.r) X
  rw [← ctlBlock_add a b X.r]
  generalize ctlBlock b (ctlBlock a X.r + X.r) = D1
  generalize ctlBlock a X.r = D2
  unfold C07.ctlMatrix
  apply ofFn_congr
  · simp only [Mat.ofFn_r]; omega
  · simp only [Mat.ofFn_c]; omega
  · intro i j hi hj
    simp only [Mat.ofFn_r, Mat.ofFn_c] at hi hj
    by_cases h1 : i < D1 ∧ j < D1
    · have : i < D1 + D2 ∧ j < D1 + D2 := by omega
      simp only [h1, this, and_self, if_true]
    · simp only [h1, if_false]
      by_cases h2 : D1 ≤ i ∧ D1 ≤ j
      · simp only [h2, and_self, if_true]
        rw [Mat.get_ofFn _ _ _ _ _ (by omega) (by omega)]
        split_ifs <;> first | rfl | (exfalso; omega) | (congr 1 <;> omega)
      · simp only [h2, if_false]
        split_ifs <;> first | rfl | (exfalso; omega)

theorem adj_adj (X : SqMat R) : adj (adj X) = X := by
  apply Subtype.ext
  obtain ⟨X, hwf, hsq⟩ := X
  show C07.adjointWith star (C07.adjointWith star X) = X
  refine mat_ext _ _ (wf_ofFn _ _ _) hwf rfl rfl ?_
  intro i j hi hj
  have hi' : i < X.r := hi
  have hj' : j < X.c := hj
  unfold C07.adjointWith
  simp only [Mat.ofFn_r, Mat.ofFn_c]
  rw [Mat.get_ofFn _ _ _ _ _ hi' hj', Mat.get_ofFn _ _ _ _ _ hj' hi', star_star]

theorem adj_ctl (n : Nat) (X : SqMat R) : adj (ctl n X) = ctl n (adj X) := by
  apply Subtype.ext
  obtain ⟨X, hwf, hsq⟩ := X
  show C07.adjointWith star (C07.ctlMatrix (ctlBlock n X.r) X) = C07.ctlMatrix (ctlBlock n X.c) (C07.adjointWith star X)
  rw [hsq]
  generalize ctlBlock n X.r = D
  unfold C07.adjointWith C07.ctlMatrix
  apply ofFn_congr
  · simp only [Mat.ofFn_r, Mat.ofFn_c]
  · simp only [Mat.ofFn_r, Mat.ofFn_c]
  · intro i j hi hj
    simp only [Mat.ofFn_r, Mat.ofFn_c] at hi hj
    rw [Mat.get_ofFn _ _ _ _ _ (by omega) (by omega)]
    by_cases h1 : i < D ∧ j < D
    · have h1' : j < D ∧ i < D := ⟨h1.2, h1.1⟩
      simp only [h1, and_self, if_true]
      by_cases h : i = j
      · subst h; simp
      · have : ¬ j = i := fun e => h e.symm
        simp [h, this]
    · have h1' : ¬ (j < D ∧ i < D) := fun e => h1 ⟨e.2, e.1⟩
      simp only [h1, h1', if_false]
      by_cases h2 : D ≤ i ∧ D ≤ j
      · have h2' : D ≤ j ∧ D ≤ i := ⟨h2.2, h2.1⟩
        simp only [h2, and_self, if_true]
        rw [Mat.get_ofFn _ _ _ _ _ (by omega) (by omega)]
      · have h2' : ¬ (D ≤ j ∧ D ≤ i) := fun e => h2 ⟨e.2, e.1⟩
        simp only [h2, h2', if_false, star_zero]

end Ops

section Herm
variable [CommRing R] [StarRing R] {k : Scal R}

theorem flagged_of_row (hk : C02.Laws k) (row : C02.Row) (hrow : row ∈ Generated.gateTable)
    (hf : C02.Row.isHermitian row = true) (angs : List (Ang R)) (hl : angs.length = C02.Row.numParams row)
    (hv : ∀ a ∈ angs, C02.Valid a) (m : Mat R) (h : Gates.builtinMatrix k (C02.Row.name row) angs = some m) :
    C02.IsSelfAdjointOf (2 ^ C02.Row.numQubits row) m := by
  obtain ⟨M, hM, hs⟩ := C02.flag_hermitian hk row hrow hf angs hl hv
  unfold C02.gateMatrix at hM
  rw [show C02.lookup Generated.gateTable (C02.Row.name row) = some row from C02.lookup_row row hrow] at hM
  simp only [hl, ne_eq, not_true_eq_false, if_false, h] at hM
  cases hM
  exact hs

theorem hermitianName_selfadjoint (hk : C02.Laws k) (nm : String) (hnm : nm ∈ C07.hermitianNames)
    (angs : List (Ang R)) (hv : ∀ a ∈ angs, C02.Valid a) (m : Mat R)
    (h : Gates.builtinMatrix k nm angs = some m) : ∃ d, C02.IsSelfAdjointOf d m := by
  simp only [C07.hermitianNames, List.mem_cons, List.not_mem_nil, or_false] at hnm
  rcases hnm with rfl | rfl | rfl | rfl | rfl | rfl | rfl | rfl | rfl | rfl
  · cases angs with
    | nil => exact ⟨_, flagged_of_row hk ("X", 1, 0, true) (by decide) rfl [] rfl hv m h⟩
    | cons a as => simp [Gates.builtinMatrix] at h
  · cases angs with
    | nil => exact ⟨_, flagged_of_row hk ("Y", 1, 0, true) (by decide) rfl [] rfl hv m h⟩
    | cons a as => simp [Gates.builtinMatrix] at h
  · cases angs with
    | nil => exact ⟨_, flagged_of_row hk ("Z", 1, 0, true) (by decide) rfl [] rfl hv m h⟩
    | cons a as => simp [Gates.builtinMatrix] at h
  · cases angs with
    | nil => exact ⟨_, flagged_of_row hk ("H", 1, 0, true) (by decide) rfl [] rfl hv m h⟩
    | cons a as => simp [Gates.builtinMatrix] at h
  · cases angs with
    | nil => exact ⟨_, flagged_of_row hk ("I", 1, 0, true) (by decide) rfl [] rfl hv m h⟩
    | cons a as => simp [Gates.builtinMatrix] at h
  · cases angs with
    | nil => simp [Gates.builtinMatrix] at h
    | cons a as =>
      cases as with
      | nil => exact ⟨_, flagged_of_row hk ("GPi", 1, 1, true) (by decide) rfl [a] rfl hv m h⟩
      | cons b bs => simp [Gates.builtinMatrix] at h
  · cases angs with
    | nil => exact ⟨_, flagged_of_row hk ("CNOT", 2, 0, true) (by decide) rfl [] rfl hv m h⟩
    | cons a as => simp [Gates.builtinMatrix] at h
  · cases angs with
    | nil => exact ⟨_, flagged_of_row hk ("CZ", 2, 0, true) (by decide) rfl [] rfl hv m h⟩
    | cons a as => simp [Gates.builtinMatrix] at h
  · cases angs with
    | nil => exact ⟨_, flagged_of_row hk ("SWAP", 2, 0, true) (by decide) rfl [] rfl hv m h⟩
    | cons a as => simp [Gates.builtinMatrix] at h
  · have : m = Gates.delay := by
      simp [Gates.builtinMatrix] at h
      exact h.symm
    subst this
    exact ⟨2, C02.delay_selfadjoint⟩

/-- a self-adjoint well-formed matrix is literally its own executable adjoint -/
theorem adjointWith_eq_self (m : Mat R) (hm : Sq m) (d : Nat) (hs : C02.IsSelfAdjointOf d m) :
    C07.adjointWith star m = m := by
  obtain ⟨hr, hc, hs⟩ := hs
  refine mat_ext _ _ (wf_ofFn _ _ _) hm.1 ?_ ?_ ?_
  · show m.c = m.r
    exact hm.2
  · show m.r = m.c
    exact hm.2.symm
  · intro i j hi hj
    have hi' : i < m.c := hi
    have hj' : j < m.r := hj
    unfold C07.adjointWith
    rw [Mat.get_ofFn _ _ _ _ _ hi' hj']
    have := congrFun (congrFun hs ⟨i, by omega⟩) ⟨j, by omega⟩
    simpa [Mat.toM, Matrix.conjTranspose_apply] using this

end Herm

/-! ### the concrete interpretation -/

/-- how the value of a parameter expression is read: as an angle (half-angle point) by the built-in
    factories, as a scalar by the entries of a custom gate's matrix -/
structure Interp (V R : Type) where
  alg : Alg V
  toAng : V → Ang R
  toVal : V → R

section Sem
variable {V : Type} [CommRing R] [StarRing R]

/-- the carrier of matrices: a raised exception, or a well-formed square matrix -/
abbrev CM (R : Type) := Except C07.Err (SqMat R)

/-- C06's abstract interpretation instantiated with the matrix functions of C07 (`ctlMatrix`, `adjointWith star`,
    `mpow`, the externals `x`), the factories of `OQ.Gates` and the lifting of `OQ.Lift` -/
def cSem (I : Interp V R) (k : Scal R) (x : C07.Ext R) : Sem V (CM R) where
  alg := I.alg
  builtin nm vs := match Gates.builtinMatrix k nm (vs.map I.toAng) with
    | some m => check m
    | none => .error .type
  ofEntries rows := check (Mat.ofLists (rows.map (fun row => row.map I.toVal)))
  ctrl n X := X.map (ctl n)
  dag X := X.map adj
  exp X := X.bind (fun A => (x.mexp A.1).bind check)
  pow X e := X.bind (fun A => (C07.mpow x A.1 e).bind check)
  lift X qs n := X.bind (fun A => match Lift.liftMatrix A.1 qs n with
    | some L => check L
    | none => .error .value)
  mul X Y := X.bind (fun A => Y.bind (fun B => check (Mat.mul A.1 B.1)))

theorem cSem_laws (I : Interp V R) (k : Scal R) (x : C07.Ext R) : Laws (cSem I k x) where
  ctrl_ctrl a b X := by
    cases X with
    | error e => rfl
    | ok A => simp only [cSem, Except.map, ctl_ctl]
  dag_dag X := by
    cases X with
    | error e => rfl
    | ok A => simp only [cSem, Except.map, adj_adj]
  dag_ctrl n X := by
    cases X with
    | error e => rfl
    | ok A => simp only [cSem, Except.map, adj_ctl]

/-- the `is_hermitian` flags that are set are flags the library sets: a built-in factory gate is flagged only
    if its name is in the table of flagged gates, a custom gate never -/
def LibFlags : Gate → Prop
  | .mf _ (.builtin nm) _ _ herm => herm = true → nm ∈ C07.hermitianNames
  | .mf _ (.custom _ _) _ _ herm => herm = false
  | .ctrl g _ => LibFlags g
  | .dag g => LibFlags g
  | .exp g => LibFlags g
  | .pow g _ => LibFlags g

instance LibFlags.dec : (g : Gate) → Decidable (LibFlags g)
  | .mf _ (.builtin _) _ _ _ => by unfold LibFlags; infer_instance
  | .mf _ (.custom _ _) _ _ _ => by unfold LibFlags; infer_instance
  | .ctrl g _ => by unfold LibFlags; exact LibFlags.dec g
  | .dag g => by unfold LibFlags; exact LibFlags.dec g
  | .exp g => by unfold LibFlags; exact LibFlags.dec g
  | .pow g _ => by unfold LibFlags; exact LibFlags.dec g

theorem builtin_selfadj (I : Interp V R) (k : Scal R) (x : C07.Ext R) (hk : C02.Laws k)
    (hv : ∀ v, C02.Valid (I.toAng v)) (nm : String) (hnm : nm ∈ C07.hermitianNames) (vs : List V) :
    (cSem I k x).dag ((cSem I k x).builtin nm vs) = (cSem I k x).builtin nm vs := by
  simp only [cSem]
  cases h : Gates.builtinMatrix k nm (vs.map I.toAng) with
  | none => rfl
  | some m =>
    simp only [check]
    split
    · rename_i hsq
      simp only [Except.map]
      congr 1
      apply Subtype.ext
      have hva : ∀ a ∈ vs.map I.toAng, C02.Valid a := by
        intro a ha
        obtain ⟨v, _, rfl⟩ := List.mem_map.mp ha
        exact hv v
      obtain ⟨d, hs⟩ := hermitianName_selfadjoint hk nm hnm _ hva m h
      exact adjointWith_eq_self m hsq d hs
    · rfl

theorem hermOK_of_libFlags (I : Interp V R) (k : Scal R) (x : C07.Ext R) (hk : C02.Laws k)
    (hv : ∀ v, C02.Valid (I.toAng v)) (g : Gate) (hf : LibFlags g) : HermOK (cSem I k x) g := by
  induction g with
  | mf nm fac ps nq herm =>
    cases fac with
    | builtin b =>
      intro hh ps' ρ
      exact builtin_selfadj I k x hk hv b (hf hh) _
    | custom mat ord =>
      intro hh
      simp only [LibFlags] at hf
      rw [hf] at hh; cases hh
  | ctrl g n ih => exact ih hf
  | dag g ih => exact ih hf
  | exp g ih => exact ih hf
  | pow g e ih => exact ih hf

end Sem

/-! ### agreement with C07's gate objects -/

section Agree
variable {R V : Type} [CommRing R] [StarRing R]

/-- every `ControlledGate` in the chain has at least one control (the constructor guard of the real class) -/
def PosCtl : Gate → Prop
  | .mf _ _ _ _ _ => True
  | .ctrl g n => 1 ≤ n ∧ PosCtl g
  | .dag g => PosCtl g
  | .exp g => PosCtl g
  | .pow g _ => PosCtl g

/-- the C07 gate object of a C06 gate at the assignment `ρ`: the same wrapper chain over the base gate whose
    factory is the concrete factory and whose parameters are the evaluated parameters.  (For a custom gate the
    symbolic substitution has already happened in C06's `mfMatrix`, so the factory handed to C07 is constant.) -/
def toC07 (I : Interp V R) (k : Scal R) (x : C07.Ext R) (ρ : String → V) : Gate → C07.Gate V R
  | .mf nm (.builtin b) ps nq herm =>
    .base { name := nm, factory := fun vs => ((cSem I k x).builtin b vs).map Subtype.val,
            params := ps.map (Param.eval I.alg ρ), numQubits := nq, hermitian := herm }
  | .mf nm (.custom mat ord) ps nq herm =>
    .base { name := nm, factory := fun _ => (mfMatrix (cSem I k x) ρ (.custom mat ord) ps).map Subtype.val,
            params := ps.map (Param.eval I.alg ρ), numQubits := nq, hermitian := herm }
  | .ctrl g n => .controlled (toC07 I k x ρ g) (n - 1)
  | .dag g => .dagger (toC07 I k x ρ g)
  | .exp g => .exponential (toC07 I k x ρ g)
  | .pow g e => .power (toC07 I k x ρ g) e

theorem ctlBlock_two_pow (q m : Nat) : ctlBlock (m + 1) (2 ^ q) = 2 ^ (q + (m + 1)) - 2 ^ q := by
  unfold ctlBlock; rw [C07.pow_block]

theorem agree_aux (I : Interp V R) (k : Scal R) (x : C07.Ext R) (ρ : String → V) (g : Gate)
    (hcd : g.isCD = true) (hp : PosCtl g) (hw : C07.WellDim (toC07 I k x ρ g)) :
    (gateMatrix (cSem I k x) ρ g).map Subtype.val = C07.gateMatrix star x (toC07 I k x ρ g) ∧
    ∀ A, gateMatrix (cSem I k x) ρ g = .ok A → A.1.r = 2 ^ (toC07 I k x ρ g).numQubits := by
  induction g with
  | mf nm fac ps nq herm =>
    cases fac with
    | builtin b =>
      refine ⟨rfl, ?_⟩
      intro A hA
      have := hw A.1 (by
        show Except.map Subtype.val ((cSem I k x).builtin b (ps.map (Param.eval I.alg ρ))) = .ok A.1
        have hA' : (cSem I k x).builtin b (ps.map (Param.eval (cSem I k x).alg ρ)) = .ok A := hA
        rw [show (cSem I k x).alg = I.alg from rfl] at hA'
        rw [hA']; rfl)
      exact this.1
    | custom mat ord =>
      refine ⟨rfl, ?_⟩
      intro A hA
      have := hw A.1 (by
        show Except.map Subtype.val (mfMatrix (cSem I k x) ρ (.custom mat ord) ps) = .ok A.1
        have hA' : mfMatrix (cSem I k x) ρ (.custom mat ord) ps = .ok A := hA
        rw [hA']; rfl)
      exact this.1
  | ctrl g n ih =>
    obtain ⟨hn, hp⟩ := hp
    obtain ⟨m, rfl⟩ : ∃ m, n = m + 1 := ⟨n - 1, by omega⟩
    obtain ⟨ih1, ih2⟩ := ih hcd hp hw
    simp only [gateMatrix, toC07, C07.gateMatrix, Nat.add_sub_cancel, C07.Gate.numQubits]
    rw [← ih1]
    cases hg : gateMatrix (cSem I k x) ρ g with
    | error e =>
      refine ⟨rfl, ?_⟩
      intro A hA; cases hA
    | ok A =>
      have hr := ih2 A hg
      constructor
      · show Except.ok (C07.ctlMatrix (ctlBlock (m + 1) A.1.r) A.1) = Except.ok (C07.ctlMatrix _ A.1)
        rw [hr, ctlBlock_two_pow]
      · intro B hB
        have : B = ctl (m + 1) A := by
          have : (Except.ok (ctl (m + 1) A) : CM R) = .ok B := hB
          cases this; rfl
        subst this
        show ctlBlock (m + 1) A.1.r + A.1.r = _
        rw [hr, ctlBlock_two_pow]
        have : 2 ^ (toC07 I k x ρ g).numQubits ≤ 2 ^ ((toC07 I k x ρ g).numQubits + (m + 1)) :=
          Nat.pow_le_pow_right (by norm_num) (by omega)
        omega
  | dag g ih =>
    obtain ⟨ih1, ih2⟩ := ih hcd hp hw
    simp only [gateMatrix, toC07, C07.gateMatrix, C07.Gate.numQubits]
    rw [← ih1]
    cases hg : gateMatrix (cSem I k x) ρ g with
    | error e =>
      refine ⟨rfl, ?_⟩
      intro A hA; cases hA
    | ok A =>
      refine ⟨rfl, ?_⟩
      intro B hB
      have : B = adj A := by
        have : (Except.ok (adj A) : CM R) = .ok B := hB
        cases this; rfl
      subst this
      show A.1.c = _
      rw [A.2.2]; exact ih2 A hg
  | exp g _ => simp [Gate.isCD] at hcd
  | pow g e _ => simp [Gate.isCD] at hcd

end Agree

section Inv
variable {R V : Type}
/-- every factory gate of the chain returns a `2^num_qubits` square matrix at `ρ` (whenever it returns) -/
def DimOK (S : Sem V (CM R)) (ρ : String → V) : Gate → Prop
  | .mf _ fac ps nq _ => ∀ A, mfMatrix S ρ fac ps = .ok A → A.1.r = 2 ^ nq
  | .ctrl g _ => DimOK S ρ g
  | .dag g => DimOK S ρ g
  | .exp g => DimOK S ρ g
  | .pow g _ => DimOK S ρ g

theorem isCD_of_ok {g g' : Gate} (hcd : g.isCD = true) : (g.dagger = .ok g' → g'.isCD = true) ∧
    (∀ n, g.controlled n = .ok g' → g'.isCD = true) := by
  constructor
  · intro h
    obtain ⟨g'', h2, h3⟩ := dagger_cd hcd
    rw [h] at h2; injection h2 with h2; subst h2; exact h3
  · intro n h
    obtain ⟨g'', h2, h3⟩ := controlled_cd n hcd
    rw [h] at h2; injection h2 with h2; subst h2; exact h3

theorem dagger_inv (S : Sem V (CM R)) (ρ : String → V) {g g' : Gate} (hcd : g.isCD = true)
    (h : g.dagger = .ok g') (hp : PosCtl g) (hd : DimOK S ρ g) : PosCtl g' ∧ DimOK S ρ g' := by
  induction g generalizing g' with
  | mf nm fac ps nq herm =>
    simp only [Gate.dagger] at h; injection h with h; subst h
    cases herm <;> exact ⟨hp, hd⟩
  | ctrl w k ih =>
    simp only [Gate.dagger] at h
    obtain ⟨w', hw, rfl⟩ := Res.map_eq_ok h
    obtain ⟨a, b⟩ := ih hcd hw hp.2 hd
    exact ⟨⟨hp.1, a⟩, b⟩
  | dag w _ =>
    simp only [Gate.dagger] at h; injection h with h; subst h
    exact ⟨hp, hd⟩
  | exp w _ => simp [Gate.isCD] at hcd
  | pow w e _ => simp [Gate.isCD] at hcd

theorem controlled_inv (S : Sem V (CM R)) (ρ : String → V) {g g' : Gate} {n : Nat} (hn : 1 ≤ n)
    (hcd : g.isCD = true) (h : g.controlled n = .ok g') (hp : PosCtl g) (hd : DimOK S ρ g) :
    PosCtl g' ∧ DimOK S ρ g' := by
  induction g generalizing g' with
  | mf nm fac ps nq herm =>
    simp only [Gate.controlled] at h; injection h with h; subst h
    exact ⟨⟨hn, hp⟩, hd⟩
  | ctrl w k _ =>
    simp only [Gate.controlled] at h; injection h with h; subst h
    exact ⟨⟨by omega, hp.2⟩, hd⟩
  | dag w ih =>
    simp only [Gate.controlled] at h
    obtain ⟨w', hw, h2⟩ := Res.bind_eq_ok h
    obtain ⟨a, b⟩ := ih hcd hw hp hd
    exact dagger_inv S ρ ((isCD_of_ok (show w.isCD = true from hcd)).2 n hw) h2 a b
  | exp w _ => simp [Gate.isCD] at hcd
  | pow w e _ => simp [Gate.isCD] at hcd

theorem bind_inv (S : Sem V (CM R)) (ρ : String → V) (m : SymMap) {g g' : Gate} (hc : CustomOK g)
    (h : g.bind m = .ok g') (hp : PosCtl g) (hd : DimOK S (comp S.alg ρ m) g) :
    PosCtl g' ∧ DimOK S ρ g' := by
  induction g generalizing g' with
  | mf nm fac ps nq herm =>
    simp only [Gate.bind, Gate.replaceParams] at h; injection h with h; subst h
    refine ⟨trivial, ?_⟩
    intro A hA
    rw [mfMatrix_bind S ρ m nm fac ps nq herm hc] at hA
    exact hd A hA
  | ctrl w k ih =>
    simp only [Gate.bind] at h
    obtain ⟨w', hw, h2⟩ := Res.bind_eq_ok h
    obtain ⟨a, b⟩ := ih hc hw hp.2 hd
    exact controlled_inv S ρ hp.1 (customOK_bind (show CustomOK w from hc) hw).2 h2 a b
  | dag w ih =>
    simp only [Gate.bind] at h
    obtain ⟨w', hw, h2⟩ := Res.bind_eq_ok h
    obtain ⟨a, b⟩ := ih hc hw hp hd
    exact dagger_inv S ρ (customOK_bind (show CustomOK w from hc) hw).2 h2 a b
  | exp w _ => simp [Gate.bind] at h
  | pow w e _ => simp [Gate.bind] at h

end Inv

section WD
variable {R V : Type} [CommRing R] [StarRing R]

theorem wellDim_toC07 (I : Interp V R) (k : Scal R) (x : C07.Ext R) (ρ : String → V) (g : Gate)
    (hd : DimOK (cSem I k x) ρ g) : C07.WellDim (toC07 I k x ρ g) := by
  induction g with
  | mf nm fac ps nq herm =>
    cases fac with
    | builtin b =>
      intro M hM
      have hM' : Except.map Subtype.val (mfMatrix (cSem I k x) ρ (.builtin b) ps) = .ok M := hM
      cases hA : mfMatrix (cSem I k x) ρ (.builtin b) ps with
      | error e => rw [hA] at hM'; cases hM'
      | ok A =>
        rw [hA] at hM'; cases hM'
        have := hd A hA
        exact ⟨this, by rw [A.2.2]; exact this⟩
    | custom mat ord =>
      intro M hM
      have hM' : Except.map Subtype.val (mfMatrix (cSem I k x) ρ (.custom mat ord) ps) = .ok M := hM
      cases hA : mfMatrix (cSem I k x) ρ (.custom mat ord) ps with
      | error e => rw [hA] at hM'; cases hM'
      | ok A =>
        rw [hA] at hM'; cases hM'
        have := hd A hA
        exact ⟨this, by rw [A.2.2]; exact this⟩
  | ctrl g n ih => exact ih hd
  | dag g ih => exact ih hd
  | exp g ih => exact ih hd
  | pow g e ih => exact ih hd

end WD

end OQ.C06.Link
