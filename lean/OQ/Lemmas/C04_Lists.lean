/- helper lemmas for the translation ties of `utils.convert_bitstrings_to_tuples`, `convert_tuples_to_bitstrings`,
   `get_ordered_list_of_bitstrings` (`OQ/Props/C04_TranslatedLists.lean`; not property theorems) -/
import OQ.Generated.TranslatedC04
import OQ.Lemmas.Translated
import OQ.Lemmas.C04
namespace OQ.C04
open OQ.Generated OQ.Py OQ.Tr

/-- one round of the translated `while len(bitstring) < num_qubits: bitstring = "0" + bitstring` -/
def padStep (n : Int) (s : List Char) : Option (Bool × List Char) :=
  if (decide (((s.length : Nat) : Int) < n)) then some (true, (['0'] : List Char) ++ s) else some (false, s)

theorem whileFuel_pad (n : Nat) (fuel : Nat) : ∀ (s : List Char), n - s.length < fuel →
    whileFuel (padStep n) fuel s = some (List.replicate (n - s.length) '0' ++ s) := by
  induction fuel with
  | zero => intro s h; omega
  | succ f ih =>
    intro s h
    by_cases hlt : s.length < n
    · have hd : decide (((s.length : Nat) : Int) < (n : Int)) = true := by simp; omega
      simp only [whileFuel, padStep, hd, if_true, Option.bind_some]
      rw [ih _ (by simp only [List.length_append, List.length_cons, List.length_nil]; omega)]
      have : n - s.length = (n - (['0'] ++ s).length) + 1 := by
        simp only [List.length_append, List.length_cons, List.length_nil]; omega
      rw [this, List.replicate_succ']
      simp
    · have hd : decide (((s.length : Nat) : Int) < (n : Int)) = false := by simp; omega
      have h0 : n - s.length = 0 := by omega
      simp [whileFuel, padStep, hlt, h0]

theorem foldlOpt_append {σ α : Type} (g : α → Option σ) (g' : α → σ) (l : List α) : ∀ (init : List σ),
    (∀ x ∈ l, g x = some (g' x)) →
    foldlOpt (fun (st : List σ) (x : α) => (g x).bind (fun y => some (st ++ [y]))) init l = some (init ++ l.map g') := by
  induction l with
  | nil => intro init _; simp [foldlOpt]
  | cons x xs ih =>
    intro init h
    simp only [foldlOpt, h x (by simp), Option.bind_some]
    rw [ih _ (fun y hy => h y (by simp [hy]))]
    simp

theorem formatB_ofNat (i : Nat) : formatB (Int.ofNat i) = (OQ.C04.binDigits i).map digitChar := by
  have : ¬ (Int.ofNat i) < 0 := by simp
  simp only [formatB, this, if_false, binDigits_eq]
  rfl

end OQ.C04
