/- helper lemmas about the T4 part of the Python prelude (`OQ/Exec/Py.lean`: exceptions, numeric values at `Rat`, dictionaries as
   association lists); used by the translation ties `OQ/Props/C17_TranslatedDist.lean`, `OQ/Props/C10_TranslatedCounts.lean`
   (not property theorems) -/
import OQ.Exec.Py
import Mathlib.Algebra.Order.Field.Rat
import Mathlib.Algebra.BigOperators.Group.List.Basic
import Mathlib.Data.List.Nodup
import Mathlib.Tactic.Ring
import Mathlib.Tactic.Linarith
namespace OQ.Py

/-! ### numeric values at `Rat` -/

@[simp] theorem rat_le (a b : Rat) : PyNum.le a b = decide (a ≤ b) := rfl
@[simp] theorem rat_lt (a b : Rat) : PyNum.lt a b = decide (a < b) := rfl
@[simp] theorem rat_beq (a b : Rat) : (@BEq.beq Rat PyNum.toBEq a b) = decide (a = b) := rfl
@[simp] theorem rat_add (a b : Rat) : (@HAdd.hAdd Rat Rat Rat (@instHAdd Rat PyNum.toAdd) a b) = a + b := rfl
@[simp] theorem rat_mul (a b : Rat) : (@HMul.hMul Rat Rat Rat (@instHMul Rat PyNum.toMul) a b) = a * b := rfl
@[simp] theorem rat_div (a b : Rat) : (@HDiv.hDiv Rat Rat Rat (@instHDiv Rat PyNum.toDiv) a b) = a / b := rfl
@[simp] theorem rat_sub (a b : Rat) : (@HSub.hSub Rat Rat Rat (@instHSub Rat PyNum.toSub) a b) = a - b := rfl
@[simp] theorem rat_cast (n : Int) : (@IntCast.intCast Rat PyNum.toIntCast n) = (n : Rat) := rfl

theorem sumNum_rat_aux (xs : List Rat) (a : Rat) : xs.foldl (· + ·) a = a + xs.sum := by
  induction xs generalizing a with
  | nil => simp
  | cons x xs ih => simp only [List.foldl_cons, List.sum_cons, ih]; ring

theorem sumNum_rat (xs : List Rat) : sumNum xs = xs.sum := by
  unfold sumNum
  have := sumNum_rat_aux xs 0
  simpa using this

theorem divE_rat (a b : Rat) (h : b ≠ 0) : divE a b = .ok (a / b) := by
  unfold divE
  simp [h]

theorem divIntE_rat (a b : Int) (h : b ≠ 0) : divIntE (ν := Rat) a b = .ok ((a : Rat) / (b : Rat)) := by
  unfold divIntE
  simp [h]

/-! ### `Except` plumbing -/

/-- an optional value as a result that raises `e` when absent -/
def ofOpt {α : Type} (e : Exc4) : Option α → Except Exc4 α
  | some a => .ok a
  | none => .error e

@[simp] theorem ofOpt_some {α : Type} (e : Exc4) (a : α) : ofOpt e (some a) = .ok a := rfl
@[simp] theorem ofOpt_none {α : Type} (e : Exc4) : ofOpt e (none : Option α) = .error e := rfl
@[simp] theorem bind_ok {α β : Type} (a : α) (f : α → Except Exc4 β) : Except.bind (.ok a) f = f a := rfl
@[simp] theorem bind_error {α β : Type} (e : Exc4) (f : α → Except Exc4 β) : Except.bind (.error e) f = .error e := rfl

theorem mapE_ofOpt {α β : Type} (e : Exc4) (g : α → Option β) (xs : List α) :
    mapE (fun x => ofOpt e (g x)) xs = ofOpt e (xs.mapM g) := by
  induction xs with
  | nil => rfl
  | cons x xs ih =>
    simp only [mapE, List.mapM_cons, ih]
    cases g x with
    | none => rfl
    | some y =>
      cases xs.mapM g with
      | none => rfl
      | some ys => rfl

theorem mapE_congr {α β : Type} (f g : α → Except Exc4 β) (xs : List α) (h : ∀ x ∈ xs, f x = g x) : mapE f xs = mapE g xs := by
  induction xs with
  | nil => rfl
  | cons x xs ih =>
    simp only [mapE, h x (by simp), ih (fun y hy => h y (by simp [hy]))]

theorem mapE_ok {α β : Type} (f : α → β) (xs : List α) : mapE (fun x => .ok (f x)) xs = .ok (xs.map f) := by
  induction xs with
  | nil => rfl
  | cons x xs ih => simp [mapE, ih]

/-! ### lists -/

theorem indexE_eq {α : Type} (xs : List α) (i : Int) :
    indexE xs i = ofOpt .index (if 0 ≤ i then xs[i.toNat]? else if 0 ≤ i + xs.length then xs[(i + xs.length).toNat]? else none) := by
  unfold indexE
  split <;> simp_all

theorem indexE_zero_cons {α : Type} (x : α) (xs : List α) : indexE (x :: xs) 0 = .ok x := rfl
theorem indexE_zero_nil {α : Type} : indexE ([] : List α) 0 = .error .index := rfl

theorem distinctCount_le {α : Type} [BEq α] (xs : List α) : distinctCount xs ≤ xs.length := by
  induction xs with
  | nil => simp [distinctCount]
  | cons x xs ih => simp only [distinctCount, List.length_cons]; split <;> omega

theorem distinctCount_eq_length_iff {α : Type} [BEq α] [LawfulBEq α] (xs : List α) :
    distinctCount xs = xs.length ↔ xs.Nodup := by
  induction xs with
  | nil => simp [distinctCount]
  | cons x xs ih =>
    have hle := distinctCount_le xs
    simp only [distinctCount, List.length_cons, List.nodup_cons, List.contains_iff_mem]
    by_cases hx : x ∈ xs
    · simp only [hx, if_true, not_true_eq_false, false_and, iff_false]; omega
    · simp only [hx, if_false, not_false_eq_true, true_and, ← ih]; omega

theorem replicate_singleton_flatten {α : Type} (n : Nat) (x : α) : (List.replicate n [x]).flatten = List.replicate n x := by
  induction n with
  | zero => rfl
  | succ n ih => simp [List.replicate_succ, ih]

/-! ### dictionaries (association lists, keys compared with a lawful `==`) -/

section dict
variable {κ ν : Type} [BEq κ] [LawfulBEq κ]

theorem dictGetE_of_mem (d : Dict κ ν) (hn : (dictKeys d).Nodup) (k : κ) (v : ν) (h : (k, v) ∈ d) : dictGetE d k = .ok v := by
  induction d with
  | nil => cases h
  | cons p rest ih =>
    obtain ⟨k', v'⟩ := p
    simp only [dictKeys, List.map_cons, List.nodup_cons] at hn
    simp only [dictGetE]
    rcases List.mem_cons.mp h with h | h
    · cases h; simp
    · have hne : ¬ (k' == k) = true := by
        intro he
        have : k' = k := eq_of_beq he
        subst this
        exact hn.1 (List.mem_map_of_mem (f := fun p => p.1) h)
      rw [if_neg hne]
      exact ih hn.2 h

theorem dictGetE_of_not_mem (d : Dict κ ν) (k : κ) (h : k ∉ dictKeys d) : dictGetE d k = .error .key := by
  induction d with
  | nil => rfl
  | cons p rest ih =>
    obtain ⟨k', v'⟩ := p
    simp only [dictKeys, List.map_cons, List.mem_cons, not_or] at h
    have hne : ¬ (k' == k) = true := fun he => h.1 (eq_of_beq he).symm
    simp only [dictGetE]
    rw [if_neg hne]
    exact ih h.2

theorem dictSet_of_not_mem (d : Dict κ ν) (k : κ) (v : ν) (h : k ∉ dictKeys d) : dictSet d k v = d ++ [(k, v)] := by
  induction d with
  | nil => rfl
  | cons p rest ih =>
    obtain ⟨k', v'⟩ := p
    simp only [dictKeys, List.map_cons, List.mem_cons, not_or] at h
    have hne : ¬ (k' == k) = true := fun he => h.1 (eq_of_beq he).symm
    simp only [dictSet, List.cons_append]
    rw [if_neg hne, ih h.2]

theorem dictSet_append_mid (a b : Dict κ ν) (k : κ) (v w : ν) (h : k ∉ dictKeys a) :
    dictSet (a ++ (k, v) :: b) k w = a ++ (k, w) :: b := by
  induction a with
  | nil => simp [dictSet]
  | cons p rest ih =>
    obtain ⟨k', v'⟩ := p
    simp only [dictKeys, List.map_cons, List.mem_cons, not_or] at h
    have hne : ¬ (k' == k) = true := fun he => h.1 (eq_of_beq he).symm
    simp only [List.cons_append, dictSet]
    rw [if_neg hne, ih h.2]

theorem dictGetE_append_mid (a b : Dict κ ν) (k : κ) (v : ν) (h : k ∉ dictKeys a) :
    dictGetE (a ++ (k, v) :: b) k = .ok v := by
  induction a with
  | nil => simp [dictGetE]
  | cons p rest ih =>
    obtain ⟨k', v'⟩ := p
    simp only [dictKeys, List.map_cons, List.mem_cons, not_or] at h
    have hne : ¬ (k' == k) = true := fun he => h.1 (eq_of_beq he).symm
    simp only [List.cons_append, dictGetE]
    rw [if_neg hne]
    exact ih h.2

/-- a map on keys that is injective commutes with item assignment -/
theorem dictSet_mapKeys {κ' : Type} [BEq κ'] [LawfulBEq κ'] (f : κ → κ') (hf : Function.Injective f) (d : Dict κ ν) (k : κ) (v : ν) :
    dictSet (d.map (fun p => (f p.1, p.2))) (f k) v = (dictSet d k v).map (fun p => (f p.1, p.2)) := by
  induction d with
  | nil => rfl
  | cons p rest ih =>
    obtain ⟨k', v'⟩ := p
    simp only [List.map_cons, dictSet]
    by_cases he : k' = k
    · subst he; simp
    · have h1 : ¬ (k' == k) = true := fun h => he (eq_of_beq h)
      have h2 : ¬ (f k' == f k) = true := fun h => he (hf (eq_of_beq h))
      rw [if_neg h1, if_neg h2, List.map_cons, ih]

end dict

/-- `for k in d: d[k] = d[k] * c` on a dict (distinct keys): every value is scaled, nothing raises -/
theorem foldlE_scale {κ : Type} [BEq κ] [LawfulBEq κ] (c : Rat) (todo done : Dict κ Rat)
    (hn : (dictKeys (done ++ todo)).Nodup) :
    foldlE (fun (st : Dict κ Rat) (key : κ) =>
      Except.bind (dictGetE st key) (fun old => Except.ok (dictSet st key (old * c))))
      (done ++ todo) (dictKeys todo) = .ok (done ++ todo.map (fun p => (p.1, p.2 * c))) := by
  induction todo generalizing done with
  | nil => simp [foldlE, dictKeys]
  | cons p rest ih =>
    obtain ⟨k, v⟩ := p
    have hk : k ∉ dictKeys done := by
      simp only [dictKeys, List.map_append, List.map_cons] at hn
      have := (List.nodup_append.mp hn).2.2
      intro hmem
      exact this k hmem k (by simp) rfl
    simp only [dictKeys, List.map_cons, foldlE]
    rw [dictGetE_append_mid done rest k v hk]
    simp only [bind_ok]
    rw [dictSet_append_mid done rest k v (v * c) hk]
    have e : done ++ (k, v * c) :: rest = (done ++ [(k, v * c)]) ++ rest := by simp
    rw [e]
    have hn' : (dictKeys ((done ++ [(k, v * c)]) ++ rest)).Nodup := by
      simpa [dictKeys] using hn
    have := ih (done ++ [(k, v * c)]) hn'
    simp only [dictKeys] at this
    rw [this]
    simp

end OQ.Py
