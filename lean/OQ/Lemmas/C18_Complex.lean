/-
  C18 — the ring constants and real angles at `R = ℂ`: the hypotheses of the generic theorems hold, and the
  phase `ehp φ · ehp λ` is the complex number e^{i(φ+λ)/2}.
-/
import OQ.Lemmas.C18
import Mathlib.Analysis.SpecialFunctions.Trigonometric.Basic
import Mathlib.Analysis.SpecialFunctions.Sqrt
set_option linter.unusedSectionVars false
namespace OQ.C18
open Complex Matrix OQ.Spec

/-- the ring constants in ℂ: i, 1/√2, e^{iπ/4}, 1/2, complex conjugation -/
noncomputable def scalC : Scal ℂ :=
  ⟨I, ((Real.sqrt 2 : ℝ) : ℂ)⁻¹, cexp (((Real.pi / 4 : ℝ) : ℂ) * I), 1 / 2, star⟩

/-- the half-angle point of a real angle -/
noncomputable def angOfReal (t : ℝ) : Ang ℂ := ⟨((Real.cos (t / 2) : ℝ) : ℂ), ((Real.sin (t / 2) : ℝ) : ℂ)⟩

theorem scalC_ii : scalC.i * scalC.i = -1 := I_mul_I
theorem scalC_star : star scalC.i = -scalC.i := conj_I

theorem realAng_ofReal (t : ℝ) : RealAng (angOfReal t) := by
  refine ⟨?_, conj_ofReal _, conj_ofReal _⟩
  simp only [angOfReal]
  rw [← ofReal_mul, ← ofReal_mul, ← ofReal_add, ← sq, ← sq, Real.cos_sq_add_sin_sq, ofReal_one]

/-- `ehp` of a real angle t is e^{it/2} -/
theorem ehp_ofReal (t : ℝ) : (angOfReal t).ehp scalC = cexp (((t / 2 : ℝ) : ℂ) * I) := by
  simp only [Ang.ehp, angOfReal, scalC]
  rw [exp_mul_I, ofReal_cos, ofReal_sin]; ring

/-- the phase of the U3 rule at real angles: e^{iφ/2} · e^{iλ/2} = e^{i(φ+λ)/2} -/
theorem phase_ofReal (ph la : ℝ) :
    (angOfReal ph).ehp scalC * (angOfReal la).ehp scalC = cexp ((((ph + la) / 2 : ℝ) : ℂ) * I) := by
  rw [ehp_ofReal, ehp_ofReal, ← Complex.exp_add]
  congr 1
  push_cast; ring

/-! ## data of the non-vacuity example of `decompose_up_to_phase_partial` -/
section Example

/-- gate index ↦ bit assignment of `m` qubits -/
def stdE (m : Nat) : Fin (2 ^ m) ≃ BV (Fin m) :=
  finFunctionFinEquiv.symm.trans (Equiv.arrowCongr (Equiv.refl (Fin m)) finTwoEquiv)

/-- a 3-qubit register `Fin 2 ⊕ Fin 1`; 1-qubit tuples sit on the first qubit, 2-qubit tuples on the first two -/
noncomputable def exPlacement : Placement ℂ (Fin 2 ⊕ Fin 1) :=
  Placement.ofLift (fun qs =>
    if h1 : qs.length = 1 then
      some (h1 ▸ (⟨Fin 1, Fin 1 ⊕ Fin 1,
        (Equiv.sumAssoc _ _ _).symm.trans (Equiv.sumCongr finSumFinEquiv (Equiv.refl _)), stdE 1⟩ :
          LiftData (Fin 2 ⊕ Fin 1) 1))
    else if h2 : qs.length = 2 then
      some (h2 ▸ (⟨Fin 2, Fin 1, Equiv.refl _, stdE 2⟩ : LiftData (Fin 2 ⊕ Fin 1) 2))
    else none)

noncomputable def a35 : Ang ℂ := ⟨3 / 5, 4 / 5⟩
noncomputable def a35n : Ang ℂ := ⟨3 / 5, -(4 / 5)⟩
noncomputable def a513 : Ang ℂ := ⟨5 / 13, 12 / 13⟩

theorem real_a35 : RealAng a35 := by
  refine ⟨by norm_num [a35], by simp [a35], by simp [a35]⟩
theorem real_a35n : RealAng a35n := by
  refine ⟨by norm_num [a35n], by simp [a35n], by simp [a35n]⟩
theorem real_a513 : RealAng a513 := by
  refine ⟨by norm_num [a513], by simp [a513], by simp [a513]⟩

theorem phase_a35 : a35.ehp scalC * a35n.ehp scalC = 1 := by
  simp only [Ang.ehp, a35, a35n, scalC]
  ring_nf
  rw [Complex.I_sq]; norm_num

/-- X(0); U3(θ,φ,λ)(0) with φ+λ ≠ 0; CU3(θ,φ,−φ)(0,1) -/
noncomputable def exOps : List (Operation (Ang ℂ) ℂ) :=
  [.gate (.mf "X" [] none) [0], .gate (.mf "U3" [a513, a35, a513] none) [0],
   .gate (.controlled (.mf "U3" [a513, a35, a35n] none) 1) [0, 1]]

end Example

end OQ.C18
