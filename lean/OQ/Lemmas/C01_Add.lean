import OQ.Lemmas.C01_Circ
import Mathlib.Logic.Equiv.Fin.Basic

namespace OQ.C01
open OQ.Lift OQ OQ.Spec Matrix
variable {R : Type} [CommRing R]

/-! ### (v) concatenation -/

omit [CommRing R] in
theorem mkCircuit_pos (ops : List (Oper R)) (n : Nat) (h : 0 < n) : mkCircuit ops (some n) = some ⟨n, ops⟩ := by
  cases n with
  | zero => omega
  | succ k => rfl

omit [CommRing R] in
theorem addCirc_eq (c d : Circ R) (hc : c.wf) (hd : d.wf) :
    addCirc c d = some ⟨max c.n d.n, c.ops ++ d.ops⟩ := by
  unfold addCirc
  by_cases h : 0 < max c.n d.n
  · exact mkCircuit_pos _ _ h
  · have h0 : max c.n d.n = 0 := by omega
    have hc0 : c.n = 0 := by omega
    have hd0 : d.n = 0 := by omega
    rw [h0, hc hc0, hd hd0]; rfl

omit [CommRing R] in
theorem addOp_gate_eq (c : Circ R) (o : Op R) (h : o.qs ≠ []) :
    addOp c (.gate o) = some ⟨max c.n (listMax o.qs + 1), c.ops ++ [.gate o]⟩ := by
  unfold addOp
  have : o.qs.isEmpty = false := by
    cases hq : o.qs with
    | nil => exact absurd hq h
    | cons _ _ => rfl
  simp only [this, Bool.false_eq_true, if_false]
  exact mkCircuit_pos _ _ (by omega)

omit [CommRing R] in
theorem addOp_mphase (c : Circ R) (fs : List R) : addOp c (.mphase fs) = none := rfl

omit [CommRing R] in
theorem mkCircuit_wf (ops : List (Oper R)) (d : Option Nat) (c : Circ R) (h : mkCircuit ops d = some c) : c.wf := by
  unfold mkCircuit at h
  intro hn
  split at h
  · simp only [Option.some.injEq] at h; subst h; simp at hn
  · split at h
    · simp only [Option.some.injEq] at h; subst h
      simpa using ‹ops.isEmpty = true›
    · simp only [] at h
      split at h
      · exact absurd h (by simp)
      · simp only [Option.some.injEq] at h; subst h; simp at hn

/-- the identification of an `N`-qubit register with an `n`-qubit one followed by `N − n` more qubits -/
def widenEquiv (n N : Nat) (h : n ≤ N) : Fin n ⊕ Fin (N - n) ≃ Fin N :=
  finSumFinEquiv.trans (finCongr (by omega))

@[simp] theorem widenEquiv_inl (n N : Nat) (h : n ≤ N) (i : Fin n) : (widenEquiv n N h (Sum.inl i)).val = i.val := by
  simp [widenEquiv]

@[simp] theorem widenEquiv_inr (n N : Nat) (h : n ≤ N) (j : Fin (N - n)) :
    (widenEquiv n N h (Sum.inr j)).val = n + j.val := by
  simp [widenEquiv]

omit [CommRing R] in
theorem OpValid.mono {n N : Nat} {o : Op R} (h : OpValid n o) (hn : n ≤ N) : OpValid N o :=
  ⟨h.ne, h.nodup, fun q hq => lt_of_lt_of_le (h.lt q hq) hn, h.mr, h.mc⟩

/-- pointwise form of the spec of one gate operation -/
theorem opSem_apply (n : Nat) (o : Op R) (h : OpValid n o) (x y : BV (Fin n)) :
    opSem n o x y = if (∀ q : Fin n, q.val ∉ o.qs → x q = y q)
      then toBV o.qs.length o.m (fun j => x ⟨o.qs[j.val], h.lt _ (List.getElem_mem _)⟩)
                                 (fun j => y ⟨o.qs[j.val], h.lt _ (List.getElem_mem _)⟩)
      else 0 := by
  unfold opSem
  rw [dif_pos h, Spec.lift_apply]
  have hcond : (∀ mm : {q : Fin n // q.val ∉ o.qs},
      x (sigmaOf o.qs n h.nodup h.lt (Sum.inr mm)) = y (sigmaOf o.qs n h.nodup h.lt (Sum.inr mm))) ↔
      (∀ q : Fin n, q.val ∉ o.qs → x q = y q) :=
    ⟨fun hh q hq => hh ⟨q, hq⟩, fun hh mm => hh mm.val mm.2⟩
  by_cases c : (∀ q : Fin n, q.val ∉ o.qs → x q = y q)
  · rw [if_pos c, if_pos (hcond.mpr c)]; rfl
  · rw [if_neg c, if_neg (fun hh => c (hcond.mp hh))]

/-- a gate on a wider register = the gate on the narrower register, identity on the added qubits -/
theorem opSem_widen (n N : Nat) (hn : n ≤ N) (o : Op R) (h : OpValid n o) :
    opSem N o = Spec.lift (widenEquiv n N hn) (opSem n o) := by
  ext x y
  rw [Spec.lift_apply, opSem_apply N o (h.mono hn), opSem_apply n o h]
  have hval : ∀ (z : BV (Fin N)) (j : Fin o.qs.length),
      z (widenEquiv n N hn (Sum.inl ⟨o.qs[j.val], h.lt _ (List.getElem_mem _)⟩)) =
      z ⟨o.qs[j.val], (h.mono hn).lt _ (List.getElem_mem _)⟩ := by
    intro z j
    have : widenEquiv n N hn (Sum.inl ⟨o.qs[j.val], h.lt _ (List.getElem_mem _)⟩) =
        ⟨o.qs[j.val], (h.mono hn).lt _ (List.getElem_mem _)⟩ := Fin.ext (by simp)
    rw [this]
  simp only [hval]
  have hcond : (∀ q : Fin N, q.val ∉ o.qs → x q = y q) ↔
      ((∀ j : Fin (N - n), x (widenEquiv n N hn (Sum.inr j)) = y (widenEquiv n N hn (Sum.inr j))) ∧
       (∀ q : Fin n, q.val ∉ o.qs → x (widenEquiv n N hn (Sum.inl q)) = y (widenEquiv n N hn (Sum.inl q)))) := by
    constructor
    · intro hh
      refine ⟨fun j => hh _ ?_, fun q hq => hh _ ?_⟩
      · rw [widenEquiv_inr]; intro hm; have := h.lt _ hm; omega
      · rw [widenEquiv_inl]; exact hq
    · rintro ⟨h1, h2⟩ q hq
      by_cases hqn : q.val < n
      · have := h2 ⟨q.val, hqn⟩ hq
        have e : widenEquiv n N hn (Sum.inl ⟨q.val, hqn⟩) = q := by apply Fin.ext; simp
        rwa [e] at this
      · have := h1 ⟨q.val - n, by omega⟩
        have e : widenEquiv n N hn (Sum.inr ⟨q.val - n, by omega⟩) = q := by apply Fin.ext; simp; omega
        rwa [e] at this
  by_cases c1 : (∀ j : Fin (N - n), x (widenEquiv n N hn (Sum.inr j)) = y (widenEquiv n N hn (Sum.inr j)))
  · by_cases c2 : (∀ q : Fin n, q.val ∉ o.qs → x (widenEquiv n N hn (Sum.inl q)) = y (widenEquiv n N hn (Sum.inl q)))
    · rw [if_pos (hcond.mpr ⟨c1, c2⟩), if_pos c1, if_pos c2]
    · rw [if_neg (fun hh => c2 (hcond.mp hh).2), if_pos c1, if_neg c2]
  · rw [if_neg (fun hh => c1 (hcond.mp hh).1), if_neg c1]

/-- a circuit of gates on a wider register acts as itself on its own qubits, identity on the added ones -/
theorem circSem_widen (n N : Nat) (hn : n ≤ N) (gs : List (Op R)) (h : ∀ o ∈ gs, OpValid n o) :
    circSem N (gs.map Oper.gate) = Spec.lift (widenEquiv n N hn) (circSem n (gs.map Oper.gate)) := by
  induction gs with
  | nil => simp [circSem_nil, Spec.lift_one]
  | cons o gs ih =>
    simp only [List.map_cons, circSem_cons, Spec.lift_mul]
    rw [ih (fun o' ho' => h o' (by simp [ho']))]
    congr 1
    exact opSem_widen n N hn o (h o (by simp))

end OQ.C01
