/- helper lemmas for C19 (not property theorems) -/
import OQ.Model.C19
import Mathlib.Algebra.Field.Basic
import Mathlib.Algebra.BigOperators.Group.List.Basic
import Mathlib.Data.Rat.Cast.Defs
import Mathlib.Tactic.Ring
import Mathlib.Analysis.SpecialFunctions.Pow.Complex
namespace OQ.C19

/-- interpretation of everything that is not field arithmetic -/
structure Sem (V : Type) where
  iu : V
  pw : V → V → V
  sq : V → V
  app : Bool → String → List V → V
  ext : String → V
  rho : String → V

variable {V : Type} [Field V]

def numV (S : Sem V) : NNum → V
  | .int n => (n : V)
  | .flt q => (q : V)
  | .cplx re im => (re : V) + (im : V) * S.iu
  | .ext t => S.ext t

def fieldOps (S : Sem V) : Ops V :=
  { add := (· + ·), mul := (· * ·), sub := (· - ·), div := (· / ·), pow := S.pw, sqrt := S.sq,
    fn := fun name a => S.app false name [a], num := numV S, sym := S.rho }

mutual
def evalS (S : Sem V) : SExpr → V
  | .integer n => (n : V)
  | .rational q => (q : V)
  | .float q => (q : V)
  | .imag => S.iu
  | .numOther t => S.ext t
  | .native n => numV S n
  | .symbol s => S.rho s
  | .add args => (evalList S args).sum
  | .mul args => (evalList S args).prod
  | .pow b e => S.pw (evalS S b) (evalS S e)
  | .func undef name args => S.app undef name (evalList S args)
  | .other t => S.ext t
def evalList (S : Sem V) : List SExpr → List V
  | [] => []
  | a :: as => evalS S a :: evalList S as
end

theorem evalList_eq_map (S : Sem V) (l : List SExpr) : evalList S l = l.map (evalS S) := by
  induction l with
  | nil => simp [evalList]
  | cons a as ih => simp [evalList, ih]

theorem numValue_eval (S : Sem V) (e : SExpr) (q : Rat) (h : numValue e = some q) : evalS S e = (q : V) := by
  cases e <;> simp only [numValue, Option.some.injEq, reduceCtorEq] at h <;> try (subst h; simp [evalS])
  case native n =>
    cases n <;> simp only [Option.some.injEq, reduceCtorEq] at h <;> subst h <;> simp [evalS, numV]


/-! ### list plumbing -/

theorem mem_size_lt {a : SExpr} {l : List SExpr} (h : a ∈ l) : a.size ≤ SExpr.sizeList l := by
  induction l with
  | nil => cases h
  | cons b bs ih =>
    simp only [SExpr.sizeList]
    rcases List.mem_cons.mp h with rfl | h'
    · omega
    · have := ih h'; omega

theorem size_pos (e : SExpr) : 0 < e.size := by
  cases e <;> simp [SExpr.size]

theorem supportedList_iff (l : List SExpr) : supportedList l = true ↔ ∀ a ∈ l, supported a = true := by
  induction l with
  | nil => simp [supportedList]
  | cons a as ih => simp [supportedList, ih]

theorem cleanList_iff (l : List SExpr) : cleanList l = true ↔ ∀ a ∈ l, clean a = true := by
  induction l with
  | nil => simp [cleanList]
  | cons a as ih => simp [cleanList, ih]

theorem numValue_leaf {e : SExpr} {q : Rat} (h : numValue e = some q) :
    supported e = true ∧ clean e = true ∧ e.size = 1 := by
  cases e <;> simp only [numValue, Option.some.injEq, reduceCtorEq] at h <;> simp [supported, clean, SExpr.size]
  case native n => cases n <;> simp only [Option.some.injEq, reduceCtorEq] at h <;> simp [supported, clean]

theorem isNegOne_iff (e : SExpr) : isNegOne e = true ↔ numValue e = some (-1) := by
  simp [isNegOne]

theorem isHalf_iff (e : SExpr) : isHalf e = true ↔ numValue e = some (1/2) := by
  simp [isHalf]

theorem addView_some {args : List SExpr} {a0 a1 : SExpr} (h : addView args = some (a0, a1)) :
    ∃ c rest, args = [a0, a1] ∧ a1 = .mul (c :: rest) ∧ isNegOne c = true := by
  unfold addView at h
  split at h
  · split at h
    · next hc => simp only [Option.some.injEq, Prod.mk.injEq] at h; obtain ⟨rfl, rfl⟩ := h; exact ⟨_, _, rfl, rfl, hc⟩
    · cases h
  · cases h

theorem recipView_some {args : List SExpr} {a0 b : SExpr} (h : recipView args = some (a0, b)) :
    ∃ e, args = [a0, .pow b e] ∧ isNegOne e = true := by
  unfold recipView at h
  split at h
  · split at h
    · next hc => simp only [Option.some.injEq, Prod.mk.injEq] at h; obtain ⟨rfl, rfl⟩ := h; exact ⟨_, rfl, hc⟩
    · cases h
  · cases h

theorem foldl_add_eq (v : V) (vs : List V) : vs.foldl (· + ·) v = v + vs.sum := by
  induction vs generalizing v with
  | nil => simp
  | cons w ws ih => simp [ih, add_assoc]

theorem foldl_mul_eq (v : V) (vs : List V) : vs.foldl (· * ·) v = v * vs.prod := by
  induction vs generalizing v with
  | nil => simp
  | cons w ws ih => simp [ih, mul_assoc]

theorem call1_ok {name : String} {r : Except Err NExpr} {t : NExpr} (h : call1 name r = .ok t) :
    ∃ a, r = .ok a ∧ t = .call name [a] := by
  cases r <;> simp [call1] at h; exact ⟨_, rfl, h.symm⟩

theorem call2_ok {name : String} {r1 r2 : Except Err NExpr} {t : NExpr} (h : call2 name r1 r2 = .ok t) :
    ∃ a b, r1 = .ok a ∧ r2 = .ok b ∧ t = .call name [a, b] := by
  cases r1 <;> cases r2 <;> simp [call2] at h; exact ⟨_, _, rfl, rfl, h.symm⟩

theorem callN_ok {name : String} {r : Except Err (List NExpr)} {t : NExpr} (h : callN name r = .ok t) :
    ∃ l, r = .ok l ∧ t = .call name l := by
  cases r <;> simp [callN] at h; exact ⟨_, rfl, h.symm⟩


/-! ### the laws of `· * (-1)` used by the theorems, and their proof for `negMul` -/

/-- what the theorems need of sympy's `expr * (-1)` on a product with leading coefficient −1 -/
structure NegLaw (neg : SExpr → SExpr) : Prop where
  size_le : ∀ c rest, isNegOne c = true → (neg (.mul (c :: rest))).size ≤ (SExpr.mul (c :: rest)).size
  supp_fwd : ∀ c rest, isNegOne c = true → supported (.mul (c :: rest)) = true →
    supported (neg (.mul (c :: rest))) = true
  supp_back : ∀ c rest, isNegOne c = true → supported (neg (.mul (c :: rest))) = true →
    supported (.mul (c :: rest)) = true
  clean_fwd : ∀ c rest, isNegOne c = true → clean (.mul (c :: rest)) = true →
    clean (neg (.mul (c :: rest))) = true

/-- … and its value: the negated expression denotes the negated number -/
def NegVal (neg : SExpr → SExpr) (S : Sem V) : Prop :=
  ∀ c rest, isNegOne c = true → evalS S (neg (.mul (c :: rest))) = - evalS S (.mul (c :: rest))

theorem negMul_law : NegLaw negMul := by
  refine ⟨?_, ?_, ?_, ?_⟩
  · intro c rest hc
    have hl := numValue_leaf ((isNegOne_iff c).mp hc)
    cases c <;> rcases rest with _ | ⟨r, _ | ⟨r2, rs⟩⟩ <;> simp [negMul, SExpr.size, SExpr.sizeList] <;> omega
  · intro c rest hc hs
    cases c <;> rcases rest with _ | ⟨r, _ | ⟨r2, rs⟩⟩ <;> simp_all [negMul, supported, supportedList]
  · intro c rest hc hs
    have hl := numValue_leaf ((isNegOne_iff c).mp hc)
    cases c <;> rcases rest with _ | ⟨r, _ | ⟨r2, rs⟩⟩ <;> simp_all [negMul, supported, supportedList]
  · intro c rest hc hs
    cases c <;> rcases rest with _ | ⟨r, _ | ⟨r2, rs⟩⟩ <;> simp_all [negMul, clean, cleanList]

theorem negMul_val (S : Sem V) : NegVal negMul S := by
  intro c rest hc
  have hv := numValue_eval S c (-1) ((isNegOne_iff c).mp hc)
  cases c <;> rcases rest with _ | ⟨r, _ | ⟨r2, rs⟩⟩ <;>
    simp [negMul, evalS, evalList] at hv ⊢ <;> simp [hv]


/-! ### `mapE` / `translateTuple` -/

theorem mapE_ok_of {α β : Type} (f : α → Except Err β) (g : α → β) (l : List α)
    (h : ∀ a ∈ l, f a = .ok (g a)) : mapE f l = .ok (l.map g) := by
  induction l with
  | nil => simp [mapE]
  | cons a as ih =>
    have ha := h a (by simp)
    have := ih (fun x hx => h x (by simp [hx]))
    simp [mapE, ha, this]

/-- if every element converts and its conversion translates to `g a`, the tuple translates to `map g` -/
theorem mapE_translate {α : Type} (D : Dialect α) (f : SExpr → Except Err NExpr) (g : SExpr → α)
    (l : List SExpr) (h : ∀ a ∈ l, ∃ t, f a = .ok t ∧ translate D t = .ok (g a)) :
    ∃ ts, mapE f l = .ok ts ∧ translateTuple D ts = .ok (l.map g) := by
  induction l with
  | nil => exact ⟨[], by simp [mapE], by simp [translateTuple]⟩
  | cons a as ih =>
    obtain ⟨t, h1, h2⟩ := h a (by simp)
    obtain ⟨ts, h3, h4⟩ := ih (fun x hx => h x (by simp [hx]))
    exact ⟨t :: ts, by simp [mapE, h1, h3], by simp [translateTuple, h2, h4]⟩

/-- converse: a converted tuple that translates was converted and translated element by element -/
theorem mapE_translate_inv {α : Type} (D : Dialect α) (f : SExpr → Except Err NExpr)
    (l : List SExpr) (ts : List NExpr) (vs : List α)
    (h1 : mapE f l = .ok ts) (h2 : translateTuple D ts = .ok vs) :
    l.length = vs.length ∧ ∀ a ∈ l, ∃ t v, f a = .ok t ∧ translate D t = .ok v := by
  induction l generalizing ts vs with
  | nil =>
    simp [mapE] at h1; subst h1
    simp [translateTuple] at h2; subst h2
    simp
  | cons a as ih =>
    simp only [mapE] at h1
    split at h1
    · cases h1
    · next b hb =>
      split at h1
      · cases h1
      · next bs hbs =>
        simp only [Except.ok.injEq] at h1; subst h1
        simp only [translateTuple] at h2
        split at h2
        · cases h2
        · next v hv =>
          split at h2
          · cases h2
          · next ws hws =>
            simp only [Except.ok.injEq] at h2; subst h2
            obtain ⟨hl, hall⟩ := ih bs ws hbs hws
            refine ⟨by simp [hl], ?_⟩
            intro x hx
            rcases List.mem_cons.mp hx with rfl | hx'
            · exact ⟨b, v, hb, hv⟩
            · exact hall x hx'

theorem mapE_error_mem {α β : Type} (f : α → Except Err β) (l : List α) (e : Err)
    (h : mapE f l = .error e) : ∃ a ∈ l, f a = .error e := by
  induction l with
  | nil => simp [mapE] at h
  | cons a as ih =>
    simp only [mapE] at h
    split at h
    · next e' he' => simp only [Except.error.injEq] at h; subst h; exact ⟨a, by simp, he'⟩
    · split at h
      · next e' he' =>
        simp only [Except.error.injEq] at h; subst h
        obtain ⟨x, hx, hfx⟩ := ih he'
        exact ⟨x, by simp [hx], hfx⟩
      · cases h

theorem translate_call {α : Type} (D : Dialect α) (name : String) (ts : List NExpr) (f : List α → Except Err α)
    (vs : List α) (hk : D.known name = some f) (ht : translateTuple D ts = .ok vs) :
    translate D (.call name ts) = f vs := by
  simp [translate, hk, ht]

theorem translate_call_ok {α : Type} (D : Dialect α) (name : String) (ts : List NExpr) (v : α)
    (h : translate D (.call name ts) = .ok v) :
    ∃ f vs, D.known name = some f ∧ translateTuple D ts = .ok vs ∧ f vs = .ok v := by
  simp only [translate] at h
  split at h
  · cases h
  · next f hf =>
    split at h
    · cases h
    · next vs hvs => exact ⟨f, vs, hf, hvs, h⟩

theorem translateTuple_two {α : Type} (D : Dialect α) (a b : NExpr) (va vb : α)
    (ha : translate D a = .ok va) (hb : translate D b = .ok vb) :
    translateTuple D [a, b] = .ok [va, vb] := by
  simp [translateTuple, ha, hb]

theorem translateTuple_one {α : Type} (D : Dialect α) (a : NExpr) (va : α)
    (ha : translate D a = .ok va) : translateTuple D [a] = .ok [va] := by
  simp [translateTuple, ha]


/-! ### the dialect table at the field interpretation, and soundness of the round trip -/

theorem known_add (S : Sem V) : (sympyDialect (fieldOps S)).known "add" = some (reduceE (· + ·)) := by
  simp [sympyDialect, sympyKnown, fieldOps]
theorem known_mul (S : Sem V) : (sympyDialect (fieldOps S)).known "mul" = some (reduceE (· * ·)) := by
  simp [sympyDialect, sympyKnown, fieldOps]
theorem known_sub (S : Sem V) : (sympyDialect (fieldOps S)).known "sub" = some (binE (· - ·)) := by
  simp [sympyDialect, sympyKnown, fieldOps]
theorem known_div (S : Sem V) : (sympyDialect (fieldOps S)).known "div" = some (binE (· / ·)) := by
  simp [sympyDialect, sympyKnown, fieldOps]
theorem known_pow (S : Sem V) : (sympyDialect (fieldOps S)).known "pow" = some (binE S.pw) := by
  simp [sympyDialect, sympyKnown, fieldOps]
theorem known_sqrt (S : Sem V) : (sympyDialect (fieldOps S)).known "sqrt" = some (unE S.sq) := by
  simp [sympyDialect, sympyKnown, fieldOps]
theorem known_elem (S : Sem V) (name : String) (h : elemFns.contains name = true) :
    (sympyDialect (fieldOps S)).known name = some (unE (fun a => S.app false name [a])) := by
  simp [elemFns] at h
  rcases h with rfl | rfl | rfl | rfl <;> simp [sympyDialect, sympyKnown, fieldOps]

theorem fromF_sound (S : Sem V) (neg : SExpr → SExpr) (hl : NegLaw neg) (hv : NegVal neg S)
    (hinv : ∀ v, S.pw v ((-1 : ℚ) : V) = v⁻¹) (hsqrt : ∀ v, S.sq v = S.pw v ((1/2 : ℚ) : V)) :
    ∀ fuel e, supported e = true → e.size < fuel →
      ∃ t, fromF neg fuel e = .ok t ∧ translate (sympyDialect (fieldOps S)) t = .ok (evalS S e) := by
  intro fuel
  induction fuel with
  | zero => intro e _ h; omega
  | succ fuel ih =>
    intro e hs hsz
    cases e with
    | integer n => exact ⟨.num (.int n), by simp [fromF], by simp [translate, sympyDialect, fieldOps, numV, evalS]⟩
    | rational q => exact ⟨.num (.flt q), by simp [fromF], by simp [translate, sympyDialect, fieldOps, numV, evalS]⟩
    | float q => exact ⟨.num (.flt q), by simp [fromF], by simp [translate, sympyDialect, fieldOps, numV, evalS]⟩
    | imag => exact ⟨.num (.cplx 0 1), by simp [fromF], by simp [translate, sympyDialect, fieldOps, numV, evalS]⟩
    | numOther t => simp [supported] at hs
    | native n => exact ⟨.num n, by simp [fromF], by simp [translate, sympyDialect, fieldOps, evalS]⟩
    | symbol s => exact ⟨.sym s, by simp [fromF], by simp [translate, sympyDialect, fieldOps, evalS]⟩
    | other t => simp [supported] at hs
    | add args =>
      simp only [supported, Bool.and_eq_true] at hs
      have hall := (supportedList_iff args).mp hs.2
      simp only [SExpr.size] at hsz
      simp only [fromF]
      cases hview : addView args with
      | some p =>
        obtain ⟨a0, a1⟩ := p
        obtain ⟨c, rest, rfl, rfl, hc⟩ := addView_some hview
        have h0 := hall a0 (by simp)
        have h1 := hall (.mul (c :: rest)) (by simp)
        simp only [SExpr.sizeList] at hsz
        have hsl := hl.size_le c rest hc
        obtain ⟨t0, e0, tr0⟩ := ih a0 h0 (by omega)
        obtain ⟨t1, e1, tr1⟩ := ih (neg (.mul (c :: rest))) (hl.supp_fwd c rest hc h1) (by omega)
        refine ⟨.call "sub" [t0, t1], by simp [e0, e1, call2], ?_⟩
        rw [translate_call _ "sub" _ _ _ (known_sub S) (translateTuple_two _ _ _ _ _ tr0 tr1)]
        simp only [binE, hv c rest hc]
        simp [evalS, evalList]
      | none =>
        obtain ⟨ts, hm, ht⟩ := mapE_translate (sympyDialect (fieldOps S)) (fromF neg fuel) (evalS S) args
          (fun a ha => ih a (hall a ha) (by have := mem_size_lt ha; omega))
        refine ⟨.call "add" ts, by simp [hm, callN], ?_⟩
        rw [translate_call _ "add" ts _ _ (known_add S) ht]
        cases args with
        | nil => simp at hs
        | cons a as => simp [reduceE, foldl_add_eq, evalS, evalList_eq_map]
    | mul args =>
      simp only [supported, Bool.and_eq_true] at hs
      have hall := (supportedList_iff args).mp hs.2
      simp only [SExpr.size] at hsz
      simp only [fromF]
      cases hview : recipView args with
      | some p =>
        obtain ⟨a0, b⟩ := p
        obtain ⟨e, rfl, hc⟩ := recipView_some hview
        have h0 := hall a0 (by simp)
        have h1 := hall (.pow b e) (by simp)
        simp only [supported, Bool.and_eq_true] at h1
        simp only [SExpr.sizeList, SExpr.size] at hsz
        obtain ⟨t0, e0, tr0⟩ := ih a0 h0 (by omega)
        obtain ⟨t1, e1, tr1⟩ := ih b h1.1 (by omega)
        refine ⟨.call "div" [t0, t1], by simp [e0, e1, call2], ?_⟩
        rw [translate_call _ "div" _ _ _ (known_div S) (translateTuple_two _ _ _ _ _ tr0 tr1)]
        have he := numValue_eval S e (-1) ((isNegOne_iff e).mp hc)
        simp only [binE, evalS, evalList, List.prod_cons, List.prod_nil, he, hinv, mul_one, div_eq_mul_inv]
      | none =>
        obtain ⟨ts, hm, ht⟩ := mapE_translate (sympyDialect (fieldOps S)) (fromF neg fuel) (evalS S) args
          (fun a ha => ih a (hall a ha) (by have := mem_size_lt ha; omega))
        refine ⟨.call "mul" ts, by simp [hm, callN], ?_⟩
        rw [translate_call _ "mul" ts _ _ (known_mul S) ht]
        cases args with
        | nil => simp at hs
        | cons a as => simp [reduceE, foldl_mul_eq, evalS, evalList_eq_map]
    | pow b e =>
      simp only [supported, Bool.and_eq_true] at hs
      simp only [SExpr.size] at hsz
      obtain ⟨tb, eb, trb⟩ := ih b hs.1 (by omega)
      simp only [fromF]
      by_cases h1 : isNegOne e = true
      · refine ⟨.call "div" [.num (.int 1), tb], by simp [h1, eb, call2], ?_⟩
        have tr1 : translate (sympyDialect (fieldOps S)) (.num (.int 1)) = .ok (1 : V) := by
          simp [translate, sympyDialect, fieldOps, numV]
        rw [translate_call _ "div" _ _ _ (known_div S) (translateTuple_two _ _ _ _ _ tr1 trb)]
        have he := numValue_eval S e (-1) ((isNegOne_iff e).mp h1)
        simp only [binE, evalS, he, hinv]
        simp
      · by_cases h2 : isHalf e = true
        · refine ⟨.call "sqrt" [tb], by simp [h1, h2, eb, call1], ?_⟩
          rw [translate_call _ "sqrt" _ _ _ (known_sqrt S) (translateTuple_one _ _ _ trb)]
          have he := numValue_eval S e (1/2) ((isHalf_iff e).mp h2)
          simp only [unE, evalS, he, hsqrt]
        · obtain ⟨te, ee, tre⟩ := ih e hs.2 (by omega)
          refine ⟨.call "pow" [tb, te], by simp [h1, h2, eb, ee, call2], ?_⟩
          rw [translate_call _ "pow" _ _ _ (known_pow S) (translateTuple_two _ _ _ _ _ trb tre)]
          simp [binE, evalS]
    | func undef name args =>
      match undef, args, hs, hsz with
      | false, [a], hs, hsz =>
        simp only [supported, Bool.and_eq_true] at hs
        simp only [SExpr.size, SExpr.sizeList] at hsz
        obtain ⟨ta, ea, tra⟩ := ih a hs.2 (by omega)
        refine ⟨.call name [ta], by simp [fromF, mapE, ea, callN], ?_⟩
        rw [translate_call _ name _ _ _ (known_elem S name hs.1) (translateTuple_one _ _ _ tra)]
        simp [unE, evalS, evalList]
      | false, [], hs, _ => simp [supported] at hs
      | false, _ :: _ :: _, hs, _ => simp [supported] at hs
      | true, _, hs, _ => simp [supported] at hs



/-! ### refusal: what the round trip accepts is in the grammar; the fuel is never exhausted -/

theorem translateTuple_two_inv {α : Type} (D : Dialect α) (a b : NExpr) (vs : List α)
    (h : translateTuple D [a, b] = .ok vs) :
    ∃ va vb, translate D a = .ok va ∧ translate D b = .ok vb ∧ vs = [va, vb] := by
  simp only [translateTuple] at h
  split at h
  · cases h
  · next va hva =>
    split at h
    · cases h
    · next ws hws =>
      split at hws
      · cases hws
      · next vb hvb =>
        simp only [Except.ok.injEq] at hws h
        subst hws; subst h
        exact ⟨va, vb, hva, hvb, rfl⟩

theorem translateTuple_one_inv {α : Type} (D : Dialect α) (a : NExpr) (vs : List α)
    (h : translateTuple D [a] = .ok vs) : ∃ va, translate D a = .ok va ∧ vs = [va] := by
  simp only [translateTuple] at h
  split at h
  · cases h
  · next va hva =>
    simp only [Except.ok.injEq] at h
    exact ⟨va, hva, h.symm⟩

theorem known_some_cases (S : Sem V) (name : String) (f : List V → Except Err V)
    (h : (sympyDialect (fieldOps S)).known name = some f) :
    collisionNames.contains name = true ∨
      (elemFns.contains name = true ∧ f = unE (fun a => S.app false name [a])) := by
  simp only [sympyDialect, sympyKnown] at h
  split_ifs at h with h1 h2 h3 h4 h5 h6 h7 h8 h9 h10 <;>
    first
    | (subst_vars; left; simp [collisionNames]; done)
    | (subst_vars; right; simp only [Option.some.injEq] at h; subst h; simp [elemFns, fieldOps])

theorem reduceE_ok {W : Type} (f : W → W → W) (vs : List W) (v : W) (h : reduceE f vs = .ok v) : vs ≠ [] := by
  cases vs <;> simp [reduceE] at h ⊢

theorem binE_ok {W : Type} (f : W → W → W) (vs : List W) (v : W) (h : binE f vs = .ok v) : vs.length = 2 := by
  rcases vs with _ | ⟨a, _ | ⟨b, _ | ⟨c, r⟩⟩⟩ <;> simp [binE] at h ⊢

theorem unE_ok {W : Type} (f : W → W) (vs : List W) (v : W) (h : unE f vs = .ok v) : vs.length = 1 := by
  rcases vs with _ | ⟨a, _ | ⟨b, r⟩⟩ <;> simp [unE] at h ⊢

/-- whatever the round trip accepts, among expressions free of colliding function names and
    passed-through number objects, lies in the supported grammar -/
theorem fromF_ok_supported (S : Sem V) (neg : SExpr → SExpr) (hl : NegLaw neg) :
    ∀ fuel e t v, fromF neg fuel e = .ok t → translate (sympyDialect (fieldOps S)) t = .ok v →
      clean e = true → supported e = true := by
  intro fuel
  induction fuel with
  | zero => intro e t v h; simp [fromF] at h
  | succ fuel ih =>
    intro e t v hf ht hc
    cases e with
    | integer n => simp [supported]
    | rational q => simp [supported]
    | float q => simp [supported]
    | imag => simp [supported]
    | numOther t => simp [clean] at hc
    | native n => cases n <;> simp [supported]; simp [clean] at hc
    | symbol s => simp [supported]
    | other t => simp [fromF] at hf
    | add args =>
      simp only [fromF] at hf
      simp only [clean] at hc
      have hcl := (cleanList_iff args).mp hc
      cases hview : addView args with
      | some p =>
        obtain ⟨a0, a1⟩ := p
        obtain ⟨c, rest, rfl, rfl, hcn⟩ := addView_some hview
        simp only [hview] at hf
        obtain ⟨t0, t1, e0, e1, rfl⟩ := call2_ok hf
        obtain ⟨f, vs, _, htt, _⟩ := translate_call_ok _ _ _ _ ht
        obtain ⟨v0, v1, tr0, tr1, _⟩ := translateTuple_two_inv _ _ _ _ htt
        have s0 := ih a0 t0 v0 e0 tr0 (hcl a0 (by simp))
        have s1 := ih _ t1 v1 e1 tr1 (hl.clean_fwd c rest hcn (hcl _ (by simp)))
        have s1' := hl.supp_back c rest hcn s1
        simp [supported, supportedList] at s1'
        simp [supported, supportedList, s0, s1']
      | none =>
        simp only [hview] at hf
        obtain ⟨ts, hm, rfl⟩ := callN_ok hf
        obtain ⟨f, vs, hk, htt, hfv⟩ := translate_call_ok _ _ _ _ ht
        rw [known_add] at hk
        simp only [Option.some.injEq] at hk; subst hk
        have hne := reduceE_ok _ _ _ hfv
        obtain ⟨hlen, hall⟩ := mapE_translate_inv _ _ _ _ _ hm htt
        have hsup : ∀ a ∈ args, supported a = true := by
          intro a ha
          obtain ⟨ta, va, ea, tra⟩ := hall a ha
          exact ih a ta va ea tra (hcl a ha)
        have : args ≠ [] := by intro h0; subst h0; simp at hlen; exact hne (List.eq_nil_of_length_eq_zero hlen.symm)
        simp [supported, (supportedList_iff args).mpr hsup, this]
    | mul args =>
      simp only [fromF] at hf
      simp only [clean] at hc
      have hcl := (cleanList_iff args).mp hc
      cases hview : recipView args with
      | some p =>
        obtain ⟨a0, b⟩ := p
        obtain ⟨e, rfl, hcn⟩ := recipView_some hview
        simp only [hview] at hf
        obtain ⟨t0, t1, e0, e1, rfl⟩ := call2_ok hf
        obtain ⟨f, vs, _, htt, _⟩ := translate_call_ok _ _ _ _ ht
        obtain ⟨v0, v1, tr0, tr1, _⟩ := translateTuple_two_inv _ _ _ _ htt
        have hcb := hcl (.pow b e) (by simp)
        simp only [clean, Bool.and_eq_true] at hcb
        have s0 := ih a0 t0 v0 e0 tr0 (hcl a0 (by simp))
        have s1 := ih b t1 v1 e1 tr1 hcb.1
        have s2 := (numValue_leaf ((isNegOne_iff e).mp hcn)).1
        simp [supported, supportedList, s0, s1, s2]
      | none =>
        simp only [hview] at hf
        obtain ⟨ts, hm, rfl⟩ := callN_ok hf
        obtain ⟨f, vs, hk, htt, hfv⟩ := translate_call_ok _ _ _ _ ht
        rw [known_mul] at hk
        simp only [Option.some.injEq] at hk; subst hk
        have hne := reduceE_ok _ _ _ hfv
        obtain ⟨hlen, hall⟩ := mapE_translate_inv _ _ _ _ _ hm htt
        have hsup : ∀ a ∈ args, supported a = true := by
          intro a ha
          obtain ⟨ta, va, ea, tra⟩ := hall a ha
          exact ih a ta va ea tra (hcl a ha)
        have : args ≠ [] := by intro h0; subst h0; simp at hlen; exact hne (List.eq_nil_of_length_eq_zero hlen.symm)
        simp [supported, (supportedList_iff args).mpr hsup, this]
    | pow b e =>
      simp only [fromF] at hf
      simp only [clean, Bool.and_eq_true] at hc
      by_cases h1 : isNegOne e = true
      · simp only [h1, if_true] at hf
        obtain ⟨t0, t1, e0, e1, rfl⟩ := call2_ok hf
        obtain ⟨f, vs, _, htt, _⟩ := translate_call_ok _ _ _ _ ht
        obtain ⟨v0, v1, _, tr1, _⟩ := translateTuple_two_inv _ _ _ _ htt
        have s1 := ih b t1 v1 e1 tr1 hc.1
        have s2 := (numValue_leaf ((isNegOne_iff e).mp h1)).1
        simp [supported, s1, s2]
      · by_cases h2 : isHalf e = true
        · simp only [h1, h2, if_true] at hf
          obtain ⟨t1, e1, rfl⟩ := call1_ok hf
          obtain ⟨f, vs, _, htt, _⟩ := translate_call_ok _ _ _ _ ht
          obtain ⟨v1, tr1, _⟩ := translateTuple_one_inv _ _ _ htt
          have s1 := ih b t1 v1 e1 tr1 hc.1
          have s2 := (numValue_leaf ((isHalf_iff e).mp h2)).1
          simp [supported, s1, s2]
        · simp only [h1, h2] at hf
          obtain ⟨t0, t1, e0, e1, rfl⟩ := call2_ok hf
          obtain ⟨f, vs, _, htt, _⟩ := translate_call_ok _ _ _ _ ht
          obtain ⟨v0, v1, tr0, tr1, _⟩ := translateTuple_two_inv _ _ _ _ htt
          simp [supported, ih b t0 v0 e0 tr0 hc.1, ih e t1 v1 e1 tr1 hc.2]
    | func undef name args =>
      simp only [fromF] at hf
      simp only [clean, Bool.and_eq_true, Bool.not_eq_true'] at hc
      have hcl := (cleanList_iff args).mp hc.2
      obtain ⟨ts, hm, rfl⟩ := callN_ok hf
      obtain ⟨f, vs, hk, htt, hfv⟩ := translate_call_ok _ _ _ _ ht
      rcases known_some_cases S name f hk with hcol | ⟨hel, rfl⟩
      · rw [hcol] at hc; simp at hc
      · have hu : undef = false := by
          cases undef with
          | false => rfl
          | true =>
            have hel' : name ∈ elemFns := by simpa using hel
            simp [hel'] at hc
        subst hu
        have h1 := unE_ok _ _ _ hfv
        obtain ⟨hlen, hall⟩ := mapE_translate_inv _ _ _ _ _ hm htt
        match args, hlen, hall, hcl with
        | [a], _, hall, hcl =>
          obtain ⟨ta, va, ea, tra⟩ := hall a (by simp)
          have hel' : name ∈ elemFns := by simpa using hel
          simp [supported, hel', ih a ta va ea tra (hcl a (by simp))]
        | [], hlen, _, _ => simp [h1] at hlen
        | _ :: _ :: _, hlen, _, _ => simp [h1] at hlen

theorem call2_error {name : String} {r1 r2 : Except Err NExpr} {e : Err} (h : call2 name r1 r2 = .error e) :
    r1 = .error e ∨ r2 = .error e := by
  cases r1 <;> cases r2 <;> simp [call2] at h; all_goals simp [h]

theorem call1_error {name : String} {r : Except Err NExpr} {e : Err} (h : call1 name r = .error e) :
    r = .error e := by
  cases r <;> simp [call1] at h; simp [h]

theorem callN_error {name : String} {r : Except Err (List NExpr)} {e : Err} (h : callN name r = .error e) :
    r = .error e := by
  cases r <;> simp [callN] at h; simp [h]

/-- the fuel never runs out when it exceeds the size of the expression -/
theorem fromF_no_fuel (neg : SExpr → SExpr) (hl : NegLaw neg) :
    ∀ fuel e, e.size < fuel → fromF neg fuel e ≠ .error .fuel := by
  intro fuel
  induction fuel with
  | zero => intro e h; omega
  | succ fuel ih =>
    intro e hsz hf
    cases e with
    | integer n => simp [fromF] at hf
    | rational q => simp [fromF] at hf
    | float q => simp [fromF] at hf
    | imag => simp [fromF] at hf
    | numOther t => simp [fromF] at hf
    | native n => simp [fromF] at hf
    | symbol s => simp [fromF] at hf
    | other t => simp [fromF] at hf
    | add args =>
      simp only [fromF] at hf
      simp only [SExpr.size] at hsz
      cases hview : addView args with
      | some p =>
        obtain ⟨a0, a1⟩ := p
        obtain ⟨c, rest, rfl, rfl, hcn⟩ := addView_some hview
        simp only [hview] at hf
        simp only [SExpr.sizeList] at hsz
        have := hl.size_le c rest hcn
        rcases call2_error hf with h | h
        · exact ih a0 (by omega) h
        · exact ih _ (by omega) h
      | none =>
        simp only [hview] at hf
        obtain ⟨a, ha, hfa⟩ := mapE_error_mem _ _ _ (callN_error hf)
        exact ih a (by have := mem_size_lt ha; omega) hfa
    | mul args =>
      simp only [fromF] at hf
      simp only [SExpr.size] at hsz
      cases hview : recipView args with
      | some p =>
        obtain ⟨a0, b⟩ := p
        obtain ⟨e, rfl, hcn⟩ := recipView_some hview
        simp only [hview] at hf
        simp only [SExpr.sizeList, SExpr.size] at hsz
        rcases call2_error hf with h | h
        · exact ih a0 (by omega) h
        · exact ih b (by omega) h
      | none =>
        simp only [hview] at hf
        obtain ⟨a, ha, hfa⟩ := mapE_error_mem _ _ _ (callN_error hf)
        exact ih a (by have := mem_size_lt ha; omega) hfa
    | pow b e =>
      simp only [fromF] at hf
      simp only [SExpr.size] at hsz
      by_cases h1 : isNegOne e = true
      · simp only [h1, if_true] at hf
        rcases call2_error hf with h | h
        · cases h
        · exact ih b (by omega) h
      · by_cases h2 : isHalf e = true
        · simp only [h1, h2, if_true] at hf
          exact ih b (by omega) (call1_error hf)
        · simp only [h1, h2] at hf
          rcases call2_error hf with h | h
          · exact ih b (by omega) h
          · exact ih e (by omega) h
    | func undef name args =>
      simp only [fromF] at hf
      simp only [SExpr.size] at hsz
      obtain ⟨a, ha, hfa⟩ := mapE_error_mem _ _ _ (callN_error hf)
      exact ih a (by have := mem_size_lt ha; omega) hfa



/-! ### natural sort keys -/

/-- the name does not end with a digit -/
def NoTrailingDigit (p : List Char) : Prop := ∀ c, p.getLast? = some c → isDig c = false
/-- the name does not start with a digit -/
def NoLeadingDigit (s : List Char) : Prop := ∀ c, s.head? = some c → isDig c = false

theorem splitGo_false_nondig (p acc rest : List Char) (h : ∀ c ∈ p, isDig c = false) :
    splitGo false acc (p ++ rest) = splitGo false (p.reverse ++ acc) rest := by
  induction p generalizing acc with
  | nil => simp
  | cons c cs ih =>
    have hc := h c (by simp)
    simp only [List.cons_append, splitGo, hc]
    rw [ih _ (fun x hx => h x (by simp [hx]))]
    simp

theorem splitGo_true_dig (d acc rest : List Char) (h : ∀ c ∈ d, isDig c = true) :
    splitGo true acc (d ++ rest) = splitGo true (d.reverse ++ acc) rest := by
  induction d generalizing acc with
  | nil => simp
  | cons c cs ih =>
    have hc := h c (by simp)
    simp only [List.cons_append, splitGo, hc]
    rw [ih _ (fun x hx => h x (by simp [hx]))]
    simp

theorem splitGo_true_end (acc sfx : List Char) (h : NoLeadingDigit sfx) :
    splitGo true acc sfx = acc.reverse :: splitGo false [] sfx := by
  cases sfx with
  | nil => simp [splitGo]
  | cons c cs =>
    have hc := h c (by simp)
    simp [splitGo, hc]

theorem splitGo_prefix (p : List Char) (hp : NoTrailingDigit p) :
    ∀ (mode : Bool) (acc : List Char), (mode = true → p ≠ []) →
      ∃ front acc', ∀ rest, splitGo mode acc (p ++ rest) = front ++ splitGo false acc' rest := by
  induction p with
  | nil =>
    intro mode acc hm
    cases mode with
    | false => exact ⟨[], acc, fun rest => by simp⟩
    | true => exact absurd rfl (hm rfl)
  | cons c cs ih =>
    intro mode acc _
    have hcs : cs ≠ [] → NoTrailingDigit cs := by
      intro hne x hx
      apply hp x
      cases cs with
      | nil => exact absurd rfl hne
      | cons c' cs' => simpa [List.getLast?_cons_cons] using hx
    by_cases hd : isDig c = true
    · have hne : cs ≠ [] := by
        intro h0; subst h0
        have := hp c (by simp)
        simp [this] at hd
      obtain ⟨front, acc', hf⟩ := ih (hcs hne) true (if mode then c :: acc else [c]) (fun _ => hne)
      cases mode with
      | false =>
        refine ⟨acc.reverse :: front, acc', fun rest => ?_⟩
        simp only [List.cons_append, splitGo, hd, if_true]
        simpa using hf rest
      | true =>
        refine ⟨front, acc', fun rest => ?_⟩
        simp only [List.cons_append, splitGo, hd, if_true]
        simpa using hf rest
    · have hd' : isDig c = false := by simpa using hd
      have hnt : NoTrailingDigit cs := by
        by_cases hne : cs = []
        · subst hne; intro x hx; simp at hx
        · exact hcs hne
      obtain ⟨front, acc', hf⟩ := ih hnt false (if mode then [c] else c :: acc) (fun h => by cases h)
      cases mode with
      | false =>
        refine ⟨front, acc', fun rest => ?_⟩
        simp only [List.cons_append, splitGo, hd']
        simpa using hf rest
      | true =>
        refine ⟨acc.reverse :: front, acc', fun rest => ?_⟩
        simp only [List.cons_append, splitGo, hd']
        simpa using hf rest

theorem convGroup_digits (d : List Char) (hne : d ≠ []) (hd : ∀ c ∈ d, isDig c = true) :
    convGroup d = .n (valDigits d) := by
  have h1 : d.isEmpty = false := by cases d <;> simp at hne ⊢
  have h2 : d.all isDig = true := by simpa using hd
  simp [convGroup, h1, h2]

/-- the key of `pfx ++ digits ++ sfx` is a fixed context around the value of the digit group -/
theorem naturalKey_decomp (pfx sfx : List Char) (hp : NoTrailingDigit pfx) (hs : NoLeadingDigit sfx) :
    ∃ A B, ∀ d, d ≠ [] → (∀ c ∈ d, isDig c = true) →
      naturalKey (pfx ++ d ++ sfx) = A ++ KeyItem.n (valDigits d) :: B := by
  obtain ⟨front, acc', hf⟩ := splitGo_prefix pfx hp false [] (fun h => by cases h)
  refine ⟨front.map convGroup ++ [convGroup acc'.reverse], naturalKey sfx, ?_⟩
  intro d hne hd
  cases d with
  | nil => exact absurd rfl hne
  | cons d0 ds =>
    have hd0 := hd d0 (by simp)
    have hds : ∀ c ∈ ds, isDig c = true := fun c hc => hd c (by simp [hc])
    unfold naturalKey splitGroups
    rw [List.append_assoc, hf]
    simp only [List.cons_append, splitGo, hd0, if_true]
    rw [splitGo_true_dig ds [d0] sfx hds, splitGo_true_end _ sfx hs]
    simp only [List.reverse_append, List.reverse_reverse, List.reverse_cons, List.reverse_nil,
      List.nil_append, List.singleton_append, List.map_append, List.map_cons]
    rw [convGroup_digits (d0 :: ds) (by simp) hd]
    simp

theorem cmpKey_refl (k : List KeyItem) : cmpKey k k = some .eq := by
  induction k with
  | nil => rfl
  | cons a as ih => simp [cmpKey, ih]

theorem cmpKey_append_left (A X Y : List KeyItem) : cmpKey (A ++ X) (A ++ Y) = cmpKey X Y := by
  induction A with
  | nil => rfl
  | cons a as ih => simp [cmpKey, ih]

theorem cmpKey_num (m n : Nat) (B : List KeyItem) :
    cmpKey (.n m :: B) (.n n :: B) = some (compare m n) := by
  by_cases h : m = n
  · subst h; simp [cmpKey, cmpKey_refl]
  · simp [cmpKey, h, cmpItem]

theorem cmpChars_refl (a : List Char) : cmpChars a a = .eq := by
  induction a with
  | nil => rfl
  | cons c cs ih => simp [cmpChars, ih]

/-- a name that is a digit-free stem followed by a number -/
theorem naturalKey_stem (a d : List Char) (ha : ∀ c ∈ a, isDig c = false) (hne : d ≠ [])
    (hd : ∀ c ∈ d, isDig c = true) :
    naturalKey (a ++ d) = [.s a, .n (valDigits d), .s []] := by
  cases d with
  | nil => exact absurd rfl hne
  | cons d0 ds =>
    have hd0 := hd d0 (by simp)
    have hds : ∀ c ∈ ds, isDig c = true := fun c hc => hd c (by simp [hc])
    unfold naturalKey splitGroups
    rw [splitGo_false_nondig a [] _ ha]
    simp only [splitGo, hd0, if_true]
    have := splitGo_true_dig ds [d0] [] hds
    simp only [List.append_nil] at this
    rw [this]
    simp only [splitGo, List.map_cons, List.map_nil, List.append_nil, List.reverse_reverse,
      List.reverse_append, List.reverse_cons, List.reverse_nil, List.nil_append, List.singleton_append]
    rw [convGroup_digits (d0 :: ds) (by simp) hd]
    have h1 : convGroup a = .s a := by
      unfold convGroup
      cases a with
      | nil => simp
      | cons c cs => simp [ha c (by simp)]
    rw [h1]; simp [convGroup]

/-! decimal numerals -/

theorem valDigits_foldl (cs : List Char) (a : Nat) :
    cs.foldl (fun a c => 10 * a + (c.toNat - '0'.toNat)) a = a * 10 ^ cs.length + valDigits cs := by
  induction cs generalizing a with
  | nil => simp [valDigits]
  | cons c cs ih =>
    simp only [List.foldl_cons, List.length_cons, valDigits]
    rw [ih, ih (10 * 0 + _)]
    ring

theorem valDigits_cons (c : Char) (cs : List Char) :
    valDigits (c :: cs) = (c.toNat - '0'.toNat) * 10 ^ cs.length + valDigits cs := by
  simp only [valDigits, List.foldl_cons]
  rw [valDigits_foldl]; simp [valDigits]

theorem digitChar_spec : ∀ k < 10, (Char.ofNat ('0'.toNat + k)).toNat - '0'.toNat = k ∧
    isDig (Char.ofNat ('0'.toNat + k)) = true := by decide

theorem decimalAux_spec : ∀ fuel n acc, n < fuel → (∀ c ∈ acc, isDig c = true) →
    valDigits (decimalAux fuel n acc) = n * 10 ^ acc.length + valDigits acc ∧
    (∀ c ∈ decimalAux fuel n acc, isDig c = true) ∧ decimalAux fuel n acc ≠ [] := by
  intro fuel
  induction fuel with
  | zero => intro n acc h; omega
  | succ fuel ih =>
    intro n acc hn hacc
    have hk := digitChar_spec (n % 10) (Nat.mod_lt _ (by omega))
    have hacc' : ∀ c ∈ Char.ofNat ('0'.toNat + n % 10) :: acc, isDig c = true := by
      intro c hc
      rcases List.mem_cons.mp hc with rfl | h
      · exact hk.2
      · exact hacc c h
    simp only [decimalAux]
    by_cases h0 : n / 10 = 0
    · simp only [h0, if_true]
      refine ⟨?_, hacc', by simp⟩
      rw [valDigits_cons, hk.1]
      have : n % 10 = n := by omega
      rw [this]
    · simp only [h0, if_false]
      have hlt : n / 10 < fuel := by omega
      obtain ⟨h1, h2, h3⟩ := ih (n / 10) _ hlt hacc'
      refine ⟨?_, h2, h3⟩
      rw [h1, valDigits_cons, hk.1, List.length_cons, pow_succ]
      have := Nat.div_add_mod n 10
      have e : n * 10 ^ acc.length = (10 * (n / 10) + n % 10) * 10 ^ acc.length := by rw [this]
      rw [e]; ring

theorem decimal_spec (n : Nat) :
    valDigits (decimal n) = n ∧ (∀ c ∈ decimal n, isDig c = true) ∧ decimal n ≠ [] := by
  have := decimalAux_spec (n + 1) n [] (by omega) (by simp)
  simpa [decimal, valDigits] using this



/-! ### every natural key has the shape text, (number, text)*: comparisons never mix int and str -/

/-- the shape of every natural key: text, (number, text)* -/
inductive OddShape : List KeyItem → Prop where
  | one (a : List Char) : OddShape [.s a]
  | step (a : List Char) (m : Nat) (k : List KeyItem) : OddShape k → OddShape (.s a :: .n m :: k)

inductive OddG : List (List Char) → Prop where
  | one (g : List Char) : (∀ c ∈ g, isDig c = false) → OddG [g]
  | step (g d : List Char) (r : List (List Char)) : (∀ c ∈ g, isDig c = false) → d ≠ [] →
      (∀ c ∈ d, isDig c = true) → OddG r → OddG (g :: d :: r)

theorem splitGo_odd : ∀ cs : List Char,
    (∀ acc, (∀ c ∈ acc, isDig c = false) → OddG (splitGo false acc cs)) ∧
    (∀ acc g, acc ≠ [] → (∀ c ∈ acc, isDig c = true) → (∀ c ∈ g, isDig c = false) →
      OddG (g :: splitGo true acc cs)) := by
  intro cs
  induction cs with
  | nil =>
    constructor
    · intro acc h; simp only [splitGo]; exact .one _ (by simpa using h)
    · intro acc g hne hd hg
      simp only [splitGo]
      exact .step g _ _ hg (by simpa using hne) (by simpa using hd) (.one [] (by simp))
  | cons c cs ih =>
    constructor
    · intro acc h
      by_cases hc : isDig c = true
      · simp only [splitGo, hc, if_true]
        exact ih.2 [c] _ (by simp) (by simpa using hc) (by simpa using h)
      · have hc' : isDig c = false := by simpa using hc
        simp only [splitGo, hc']
        exact ih.1 (c :: acc) (by intro x hx; rcases List.mem_cons.mp hx with rfl | hx; exact hc'; exact h x hx)
    · intro acc g hne hd hg
      by_cases hc : isDig c = true
      · simp only [splitGo, hc, if_true]
        exact ih.2 (c :: acc) g (by simp)
          (by intro x hx; rcases List.mem_cons.mp hx with rfl | hx; exact hc; exact hd x hx) hg
      · have hc' : isDig c = false := by simpa using hc
        simp only [splitGo, hc']
        exact .step g _ _ hg (by simpa using hne) (by simpa using hd)
          (ih.1 [c] (by simpa using hc'))

theorem convGroup_nondig (g : List Char) (h : ∀ c ∈ g, isDig c = false) : convGroup g = .s g := by
  unfold convGroup
  cases g with
  | nil => simp
  | cons c cs => simp [h c (by simp)]

theorem oddG_map (gs : List (List Char)) (h : OddG gs) : OddShape (gs.map convGroup) := by
  induction h with
  | one g hg => simp only [List.map_cons, List.map_nil, convGroup_nondig g hg]; exact .one g
  | step g d r hg hne hd _ ih =>
    simp only [List.map_cons, convGroup_nondig g hg, convGroup_digits d hne hd]
    exact .step _ _ _ ih

theorem naturalKey_shape (name : List Char) : OddShape (naturalKey name) :=
  oddG_map _ ((splitGo_odd name).1 [] (by simp))

theorem oddShape_snoc (k : List KeyItem) (h : OddShape k) (m : Nat) (a : List Char) :
    OddShape (k ++ [.n m, .s a]) := by
  induction h with
  | one b => exact .step b m _ (.one a)
  | step b m' k' _ ih => exact .step b m' _ ih

theorem oddShape_reverse (k : List KeyItem) (h : OddShape k) : OddShape k.reverse := by
  induction h with
  | one a => exact .one a
  | step a m k' _ ih =>
    simp only [List.reverse_cons, List.append_assoc, List.singleton_append]
    exact oddShape_snoc _ ih m a

theorem cmpKey_shape (k1 k2 : List KeyItem) (h1 : OddShape k1) (h2 : OddShape k2) :
    cmpKey k1 k2 ≠ none := by
  induction h1 generalizing k2 with
  | one a =>
    cases h2 with
    | one b => by_cases h : a = b <;> simp [cmpKey, cmpItem, h]
    | step b m k _ => by_cases h : a = b <;> simp [cmpKey, cmpItem, h]
  | step a m k _ ih =>
    cases h2 with
    | one b => by_cases h : a = b <;> simp [cmpKey, cmpItem, h]
    | step b m' k' hk' =>
      by_cases h : a = b <;> by_cases h' : m = m' <;> simp [cmpKey, cmpItem, h, h', ih k' hk']



/-! ### the intended interpretation: complex numbers with the principal-branch power -/

noncomputable def complexSem (rho : String → ℂ) (app : Bool → String → List ℂ → ℂ) (ext : String → ℂ) : Sem ℂ :=
  { iu := Complex.I, pw := fun a b => a ^ b, sq := fun a => a ^ ((1/2 : ℚ) : ℂ), app := app, ext := ext,
    rho := rho }

theorem complexSem_laws (rho : String → ℂ) (app : Bool → String → List ℂ → ℂ) (ext : String → ℂ) :
    (∀ v, (complexSem rho app ext).pw v ((-1 : ℚ) : ℂ) = v⁻¹) ∧
    (∀ v, (complexSem rho app ext).sq v = (complexSem rho app ext).pw v ((1/2 : ℚ) : ℂ)) := by
  constructor
  · intro v
    simp [complexSem, Complex.cpow_neg_one]
  · intro v; rfl

/-- a tiny concrete carrier to run the round trip on in examples: natural numbers, every symbol = 5 -/
def natOps : Ops Nat :=
  { add := (· + ·), mul := (· * ·), sub := (· - ·), div := (· / ·), pow := (· ^ ·), sqrt := Nat.sqrt,
    fn := fun _ a => a, num := fun n => match n with | .int k => k.toNat | _ => 0, sym := fun _ => 5 }

end OQ.C19
