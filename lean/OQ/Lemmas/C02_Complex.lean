/-
  C02 — the constants and the angle points at R = ℂ for REAL angles: the model's
  (cos θ/2, sin θ/2) parametrisation is the code's cos(θ/2), sin(θ/2), exp(±iθ/2), exp(±iθ).
-/
import OQ.Lemmas.C02
import Mathlib.Analysis.SpecialFunctions.Trigonometric.Basic
import Mathlib.Analysis.Real.Sqrt
import Mathlib.Analysis.Complex.Trigonometric
import Mathlib.Analysis.Complex.Exponential

namespace OQ.C02
open OQ Complex

/-- the constants of `_matrices.py` as complex numbers: `1j`, `1/np.sqrt(2)`, `exp(1j*pi/4)`, `1/2`, conjugation -/
noncomputable def kC : Scal ℂ :=
  ⟨Complex.I, ((1 / Real.sqrt 2 : ℝ) : ℂ), Complex.exp ((Real.pi / 4 : ℝ) * Complex.I), 1 / 2, star⟩

theorem kC_laws : Laws kC where
  ii := Complex.I_mul_I
  rr := by
    show (2 : ℂ) * ((1 / Real.sqrt 2 : ℝ) : ℂ) * ((1 / Real.sqrt 2 : ℝ) : ℂ) = 1
    have h : (2 : ℝ) * (1 / Real.sqrt 2) * (1 / Real.sqrt 2) = 1 := by
      have h2 : Real.sqrt 2 * Real.sqrt 2 = 2 := Real.mul_self_sqrt (by norm_num)
      have hne : Real.sqrt 2 ≠ 0 := by
        intro h0; rw [h0] at h2; norm_num at h2
      field_simp
      linarith
    exact_mod_cast h
  zz := by
    show Complex.exp ((Real.pi / 4 : ℝ) * Complex.I) * Complex.exp ((Real.pi / 4 : ℝ) * Complex.I) = Complex.I
    have h : ((Real.pi / 4 : ℝ) : ℂ) * Complex.I + ((Real.pi / 4 : ℝ) : ℂ) * Complex.I = (Real.pi : ℂ) / 2 * Complex.I := by
      push_cast; ring
    rw [← Complex.exp_add, h, Complex.exp_pi_div_two_mul_I]
  hh := by show (2 : ℂ) * (1 / 2) = 1; norm_num
  cj := rfl
  si := Complex.conj_I
  sr := Complex.conj_ofReal _
  sz := by
    show star (Complex.exp ((Real.pi / 4 : ℝ) * Complex.I)) * Complex.exp ((Real.pi / 4 : ℝ) * Complex.I) = 1
    have : star (Complex.exp ((Real.pi / 4 : ℝ) * Complex.I)) = Complex.exp (-((Real.pi / 4 : ℝ) * Complex.I)) := by
      show (starRingEnd ℂ) _ = _
      rw [← Complex.exp_conj]
      congr 1
      rw [map_mul, Complex.conj_ofReal, Complex.conj_I]; ring
    rw [this, ← Complex.exp_add, neg_add_cancel, Complex.exp_zero]

theorem two_ne_zero_C : (2 : ℂ) ≠ 0 := two_ne_zero

/-- the angle point of a real angle θ -/
noncomputable def angR (θ : ℝ) : Ang ℂ := ⟨(Real.cos (θ / 2) : ℂ), (Real.sin (θ / 2) : ℂ)⟩

theorem angR_valid (θ : ℝ) : Valid (angR θ) where
  circle := by
    show (Real.cos (θ / 2) : ℂ) * Real.cos (θ / 2) + (Real.sin (θ / 2) : ℂ) * Real.sin (θ / 2) = 1
    have h := Real.cos_sq_add_sin_sq (θ / 2)
    have : Real.cos (θ / 2) * Real.cos (θ / 2) + Real.sin (θ / 2) * Real.sin (θ / 2) = 1 := by
      rw [← h]; ring
    exact_mod_cast this
  sc := Complex.conj_ofReal _
  ss := Complex.conj_ofReal _

theorem angR_add (a b : ℝ) : Ang.add (angR a) (angR b) = angR (a + b) := by
  have hc : Real.cos ((a + b) / 2) = Real.cos (a / 2) * Real.cos (b / 2) - Real.sin (a / 2) * Real.sin (b / 2) := by
    rw [add_div, Real.cos_add]
  have hs : Real.sin ((a + b) / 2) = Real.sin (a / 2) * Real.cos (b / 2) + Real.cos (a / 2) * Real.sin (b / 2) := by
    rw [add_div, Real.sin_add]
  simp only [Ang.add, angR, hc, hs, Ang.mk.injEq]
  constructor <;> (push_cast; ring)

theorem angR_zero : angR 0 = Ang.zero := by
  simp [Ang.zero, angR]

theorem angR_neg (a : ℝ) : Ang.neg (angR a) = angR (-a) := by
  simp only [Ang.neg, angR, neg_div, Real.cos_neg, Real.sin_neg, Ang.mk.injEq]
  constructor <;> first | rfl | (push_cast; try rfl)

theorem angR_ch (θ : ℝ) : (angR θ).ch = Complex.cos ((θ : ℂ) / 2) := by
  show (Real.cos (θ / 2) : ℂ) = _
  rw [Complex.ofReal_cos]; push_cast; rfl

theorem angR_sh (θ : ℝ) : (angR θ).sh = Complex.sin ((θ : ℂ) / 2) := by
  show (Real.sin (θ / 2) : ℂ) = _
  rw [Complex.ofReal_sin]; push_cast; rfl

/-- `cos(θ/2) + i sin(θ/2) = exp(iθ/2)` -/
theorem angR_ehp (θ : ℝ) : (angR θ).ehp kC = Complex.exp ((θ : ℂ) / 2 * Complex.I) := by
  rw [Complex.exp_mul_I, ← angR_ch, ← angR_sh]
  show (angR θ).ch + Complex.I * (angR θ).sh = _
  ring

theorem angR_ehm (θ : ℝ) : (angR θ).ehm kC = Complex.exp (-((θ : ℂ) / 2 * Complex.I)) := by
  rw [← neg_mul, Complex.exp_mul_I, Complex.cos_neg, Complex.sin_neg, ← angR_ch, ← angR_sh]
  show (angR θ).ch + -(Complex.I * (angR θ).sh) = _
  ring

theorem angR_c (θ : ℝ) : (angR θ).c = Complex.cos θ := by
  have h : Real.cos θ = Real.cos (θ / 2) * Real.cos (θ / 2) - Real.sin (θ / 2) * Real.sin (θ / 2) := by
    rw [← Real.cos_add, add_halves]
  show (Real.cos (θ / 2) : ℂ) * Real.cos (θ / 2) + -((Real.sin (θ / 2) : ℂ) * Real.sin (θ / 2)) = _
  rw [← Complex.ofReal_cos, h]; push_cast; ring

theorem angR_s (θ : ℝ) : (angR θ).s = Complex.sin θ := by
  have h : Real.sin θ = Real.sin (θ / 2) * Real.cos (θ / 2) + Real.cos (θ / 2) * Real.sin (θ / 2) := by
    rw [← Real.sin_add, add_halves]
  show (Real.cos (θ / 2) : ℂ) * Real.sin (θ / 2) + (Real.cos (θ / 2) : ℂ) * Real.sin (θ / 2) = _
  rw [← Complex.ofReal_sin, h]; push_cast; ring

/-- `cos θ + i sin θ = exp(iθ)` -/
theorem angR_eip (θ : ℝ) : (angR θ).eip kC = Complex.exp ((θ : ℂ) * Complex.I) := by
  rw [Complex.exp_mul_I, ← angR_c, ← angR_s]
  show (angR θ).c + Complex.I * (angR θ).s = _
  ring

theorem angR_eim (θ : ℝ) : (angR θ).eim kC = Complex.exp (-((θ : ℂ) * Complex.I)) := by
  rw [← neg_mul, Complex.exp_mul_I, Complex.cos_neg, Complex.sin_neg, ← angR_c, ← angR_s]
  show (angR θ).c + -(Complex.I * (angR θ).s) = _
  ring

end OQ.C02
