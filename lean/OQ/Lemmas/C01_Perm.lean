import OQ.Lemmas.C01_Bits

namespace OQ.C01
open OQ.Lift

theorem foldl_min_le (l : List Nat) (a : Nat) : l.foldl min a ≤ a ∧ ∀ x ∈ l, l.foldl min a ≤ x := by
  induction l generalizing a with
  | nil => simp
  | cons y ys ih =>
    simp only [List.foldl_cons]
    have := ih (min a y)
    refine ⟨le_trans this.1 (Nat.min_le_left _ _), ?_⟩
    intro x hx
    rcases List.mem_cons.mp hx with rfl | hx
    · exact le_trans this.1 (Nat.min_le_right _ _)
    · exact this.2 x hx

theorem foldl_max_ge (l : List Nat) (a : Nat) : a ≤ l.foldl max a ∧ ∀ x ∈ l, x ≤ l.foldl max a := by
  induction l generalizing a with
  | nil => simp
  | cons y ys ih =>
    simp only [List.foldl_cons]
    have := ih (max a y)
    refine ⟨le_trans (Nat.le_max_left _ _) this.1, ?_⟩
    intro x hx
    rcases List.mem_cons.mp hx with rfl | hx
    · exact le_trans (Nat.le_max_right _ _) this.1
    · exact this.2 x hx

theorem foldl_max_mem (l : List Nat) (a : Nat) : l.foldl max a = a ∨ l.foldl max a ∈ l := by
  induction l generalizing a with
  | nil => simp
  | cons y ys ih =>
    simp only [List.foldl_cons]
    rcases ih (max a y) with h | h
    · rw [h]
      rcases Nat.le_total a y with hay | hay
      · right; rw [Nat.max_eq_right hay]; simp
      · left; exact Nat.max_eq_left hay
    · right; exact List.mem_cons_of_mem _ h

theorem listMin_le (qs : List Nat) : ∀ q ∈ qs, listMin qs ≤ q := by
  cases qs with
  | nil => simp
  | cons x xs =>
    intro q hq
    have := foldl_min_le xs x
    rcases List.mem_cons.mp hq with rfl | hq
    · exact this.1
    · exact this.2 q hq

theorem le_listMax (qs : List Nat) : ∀ q ∈ qs, q ≤ listMax qs := by
  cases qs with
  | nil => simp
  | cons x xs =>
    intro q hq
    have := foldl_max_ge xs x
    rcases List.mem_cons.mp hq with rfl | hq
    · exact this.1
    · exact this.2 q hq

theorem listMax_mem (qs : List Nat) (h : qs ≠ []) : listMax qs ∈ qs := by
  cases qs with
  | nil => exact absurd rfl h
  | cons x xs =>
    show List.foldl max x xs ∈ x :: xs
    rcases foldl_max_mem xs x with h | h
    · rw [h]; simp
    · exact List.mem_cons_of_mem _ h

/-- the inner permutation of `_lift_matrix` lists every position of the span exactly once -/
theorem order_perm (sh : List Nat) (span : Nat) (hd : sh.Nodup) (hlt : ∀ j ∈ sh, j < span) :
    (permMakingAdjacent sh span).Perm (List.range span) := by
  rw [List.perm_iff_count]
  intro a
  unfold permMakingAdjacent
  rw [List.count_append, List.count_range, hd.count]
  by_cases ha : a ∈ sh
  · have : a < span := hlt a ha
    simp only [ha, this, if_true]
    have : List.count a (List.filter (fun i => !sh.contains i) (List.range span)) = 0 := by
      rw [List.count_eq_zero]
      intro hmem
      have := (List.mem_filter.mp hmem).2
      simp [ha] at this
    omega
  · simp only [ha, if_false, zero_add]
    rw [List.count_filter (by simp [ha]), List.count_range]

theorem isPermutation_of_perm (order : List Nat) (h : order.Perm (List.range order.length)) :
    isPermutation order = true := by
  unfold isPermutation
  rw [List.all_eq_true]
  intro i hi
  have hi' : i < order.length := List.mem_range.mp hi
  have := (List.perm_iff_count.mp h) i
  rw [List.count_range] at this
  simp [this, hi']

end OQ.C01
