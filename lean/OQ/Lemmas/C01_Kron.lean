import OQ.Lemmas.C01_Mat

namespace OQ.C01
open OQ.Lift OQ
variable {R : Type} [CommRing R]

/-- `1_a ⊗ X ⊗ 1_b`: the block structure of the two outer Kronecker products of `_lift_matrix` -/
theorem sandwich_get (X : Mat R) (a d b : Nat) (hXr : X.r = d) (hXc : X.c = d)
    (row col : Nat) (hrow : row < a * d * b) (hcol : col < a * d * b) :
    (Mat.kron (Mat.kron (Mat.identity a) X) (Mat.identity b)).get row col =
      if row / (b * d) = col / (b * d) ∧ row % b = col % b then X.get (row / b % d) (col / b % d) else 0 := by
  have hb : 0 < b := by
    rcases Nat.eq_zero_or_pos b with h | h
    · subst h; simp at hrow
    · exact h
  have hd : 0 < d := by
    rcases Nat.eq_zero_or_pos d with h | h
    · subst h; simp at hrow
    · exact h
  have hI : ∀ k : Nat, (Mat.identity (R := R) k).r = k ∧ (Mat.identity (R := R) k).c = k := fun k => ⟨rfl, rfl⟩
  have hKr : (Mat.kron (Mat.identity (R := R) a) X).r = a * d := by simp [Mat.kron, hXr, (hI a).1]
  have hKc : (Mat.kron (Mat.identity (R := R) a) X).c = a * d := by simp [Mat.kron, hXc, (hI a).2]
  have hrb : row / b < a * d := Nat.div_lt_of_lt_mul (by rw [Nat.mul_comm]; exact hrow)
  have hcb : col / b < a * d := Nat.div_lt_of_lt_mul (by rw [Nat.mul_comm]; exact hcol)
  rw [Mat.kron_get _ _ _ _ (by rw [hKr, (hI b).1]; exact hrow) (by rw [hKc, (hI b).2]; exact hcol)]
  rw [(hI b).1, (hI b).2]
  rw [Mat.kron_get _ _ _ _ (by rw [(hI a).1, hXr]; exact hrb) (by rw [(hI a).2, hXc]; exact hcb)]
  rw [hXr, hXc]
  have h1 : row / b / d < a := Nat.div_lt_of_lt_mul (by rw [Nat.mul_comm]; exact hrb)
  have h2 : col / b / d < a := Nat.div_lt_of_lt_mul (by rw [Nat.mul_comm]; exact hcb)
  rw [identity_get _ _ _ h1 h2, identity_get _ _ _ (Nat.mod_lt _ hb) (Nat.mod_lt _ hb)]
  rw [Nat.div_div_eq_div_mul, Nat.div_div_eq_div_mul]
  by_cases c1 : row / (b * d) = col / (b * d) <;> by_cases c2 : row % b = col % b <;> simp [c1, c2]

/-- `M ⊗ 1_e` -/
theorem kron_id_get (m : Mat R) (k e : Nat) (hr : m.r = k) (hc : m.c = k) (a b : Nat)
    (ha : a < k * e) (hb : b < k * e) :
    (Mat.kron m (Mat.identity e)).get a b = if a % e = b % e then m.get (a / e) (b / e) else 0 := by
  have he : 0 < e := by
    rcases Nat.eq_zero_or_pos e with h | h
    · subst h; simp at ha
    · exact h
  have hI : (Mat.identity (R := R) e).r = e ∧ (Mat.identity (R := R) e).c = e := ⟨rfl, rfl⟩
  rw [Mat.kron_get _ _ _ _ (by rw [hr, hI.1]; exact ha) (by rw [hc, hI.2]; exact hb)]
  rw [hI.1, hI.2, identity_get _ _ _ (Nat.mod_lt _ he) (Nat.mod_lt _ he)]
  by_cases c : a % e = b % e <;> simp [c]

end OQ.C01
