/- C18 — helper definitions / lemmas of the translation tie `OQ/Props/C18_TranslatedDecompose.lean` (not property theorems):
   how the opaque rule / operation / gate objects of the translated definitions are read in the model `OQ.C18`. -/
import OQ.Lemmas.C18
namespace OQ.C18

/-- the model's `Rule` of a rule object `r` whose two methods are the total functions `pred r`, `prod r` -/
def totalRule {ρ ω : Type} (pred : ρ → ω → Bool) (prod : ρ → ω → List ω) (r : ρ) : Rule ω :=
  ⟨fun op => some (pred r op), fun op => some (prod r op)⟩

theorem flatMapM_total {α β : Type} (f : α → List β) (xs : List α) :
    flatMapM (fun a => some (f a)) xs = some (xs.flatMap f) := by
  induction xs with
  | nil => rfl
  | cons a as ih => rw [flatMapM_cons, ih]; rfl

/-- the gate-level reading of the opaque objects for `U3GateToRotation.predicate`: `isinstance(op, GateOperation)`,
    `op.gate` (the default is never read: the `and` short-circuits in Python and the model alike), `gate.name` as a
    Python `str`, `isinstance(gate, ControlledGate)`, `gate.wrapped_gate` -/
def opIsGate {α R : Type} : Operation α R → Bool
  | .gate _ _ => true
  | .other _ _ => false
def opGate {α R : Type} : Operation α R → Gate α R
  | .gate g _ => g
  | .other _ _ => .mf "" [] none
def gateWrapped {α R : Type} : Gate α R → Gate α R
  | .controlled w _ => w
  | .dagger w => w
  | g => g

end OQ.C18
