/-
  C02 — helper lemmas: executable gate matrices as Mathlib `!![…]` literals, the laws of the constants,
  and one unitarity / self-adjointness lemma per built-in gate.
-/
import OQ.Lemmas.Bridge
import OQ.Model.C02
import OQ.Generated.GateTable
import Mathlib.LinearAlgebra.Matrix.Notation
import Mathlib.LinearAlgebra.Matrix.ConjTranspose
import Mathlib.LinearAlgebra.Matrix.NonsingularInverse
import Mathlib.Algebra.Star.Basic
import Mathlib.Tactic.FinCases

namespace OQ.C02
open OQ OQ.Mat Matrix

/-! ### executable matrices as Mathlib matrices -/

theorem toM_ofLists {R : Type} [Zero R] (rows : List (List R)) (r c : Nat) (hr : rows.length = r)
    (hc : (rows.head?.map List.length).getD 0 = c) :
    toM r c (ofLists rows) = Matrix.of (fun (i : Fin r) (j : Fin c) => (rows.getD i []).getD j 0) := by
  subst hr hc; exact toM_ofFn _ _ _

theorem toM_m2 {R : Type} [Zero R] (a b c d : R) : toM 2 2 (Gates.m2 a b c d) = !![a, b; c, d] := by
  rw [Gates.m2, toM_ofLists _ 2 2 rfl rfl]
  ext i j
  fin_cases i <;> fin_cases j <;> rfl

theorem toM_m4 {R : Type} [Zero R] (a00 a01 a02 a03 a10 a11 a12 a13 a20 a21 a22 a23 a30 a31 a32 a33 : R) :
    toM 4 4 (Gates.m4 [[a00,a01,a02,a03],[a10,a11,a12,a13],[a20,a21,a22,a23],[a30,a31,a32,a33]])
      = !![a00,a01,a02,a03; a10,a11,a12,a13; a20,a21,a22,a23; a30,a31,a32,a33] := by
  rw [Gates.m4, toM_ofLists _ 4 4 rfl rfl]
  ext i j
  fin_cases i <;> fin_cases j <;> rfl

/-- the executable conjugate transpose is Mathlib's `ᴴ` as soon as `conj` is `star` -/
theorem toM_adjoint {R : Type} [Zero R] [Conj R] [Star R] (hc : ∀ x : R, conj x = star x) (A : Mat R) :
    toM A.c A.r A.adjoint = (toM A.r A.c A)ᴴ := by
  funext i j
  simp only [toM, adjoint, Matrix.conjTranspose_apply]
  rw [get_ofFn _ _ _ _ _ i.2 j.2, hc]

/-! ### the assumed laws of the constants and of an angle point -/

/-- laws of the ring constants used by the gate matrices (all true in ℂ and in ℚ(ζ₈)) -/
structure Laws {R : Type} [CommRing R] [StarRing R] (k : Scal R) : Prop where
  ii : k.i * k.i = -1
  rr : 2 * k.r * k.r = 1
  zz : k.z * k.z = k.i
  hh : 2 * k.half = 1
  cj : k.cj = star
  si : star k.i = -k.i
  /-- 1/√2 is real -/
  sr : star k.r = k.r
  /-- e^{iπ/4} has modulus one -/
  sz : star k.z * k.z = 1

theorem Laws.sh {R : Type} [CommRing R] [StarRing R] {k : Scal R} (hk : Laws k) : star k.half = k.half := by
  have h := congrArg star hk.hh
  simp only [star_mul', star_ofNat, star_one] at h
  have h2 := hk.hh
  calc star k.half = star k.half * (2 * k.half) := by rw [h2, mul_one]
    _ = (2 * star k.half) * k.half := by ring
    _ = k.half := by rw [h, one_mul]

/-- (cos θ/2, sin θ/2) of a REAL angle: on the unit circle, both coordinates self-conjugate -/
structure Valid {R : Type} [CommRing R] [StarRing R] (a : Ang R) : Prop where
  circle : a.ch * a.ch + a.sh * a.sh = 1
  sc : star a.ch = a.ch
  ss : star a.sh = a.sh

/-- `M` is a `d × d` unitary -/
def IsUnitaryOf {R : Type} [CommRing R] [StarRing R] (d : Nat) (M : Mat R) : Prop :=
  M.r = d ∧ M.c = d ∧ (toM d d M)ᴴ * toM d d M = 1 ∧ toM d d M * (toM d d M)ᴴ = 1

/-- `M` is `d × d` and equals its own conjugate transpose -/
def IsSelfAdjointOf {R : Type} [CommRing R] [StarRing R] (d : Nat) (M : Mat R) : Prop :=
  M.r = d ∧ M.c = d ∧ (toM d d M)ᴴ = toM d d M

theorem isUnitaryOf_of_left {R : Type} [CommRing R] [StarRing R] (d : Nat) (M : Mat R)
    (hr : M.r = d) (hc : M.c = d) (h : (toM d d M)ᴴ * toM d d M = 1) : IsUnitaryOf d M :=
  ⟨hr, hc, h, mul_eq_one_comm.mp h⟩

variable {R : Type} [CommRing R] [StarRing R] {k : Scal R}

/-- entry-wise proof of a 2×2 / 4×4 matrix identity: unfold to entries, remove `star`s, close by the
    commutative-ring solver of `grind` using the hypotheses in context -/
macro "gate_entries" "[" ts:Lean.Parser.Tactic.simpLemma,* "]" : tactic =>
  `(tactic| (ext i j; fin_cases i <;> fin_cases j <;>
      simp [Matrix.mul_apply, Fin.sum_univ_two, Fin.sum_univ_four, $ts,*] <;> grind))

/-! ### unitarity, gate by gate (`Mᴴ M = 1`; the other side follows for square matrices) -/

theorem x_unitary : IsUnitaryOf (R := R) 2 Gates.x := by
  refine isUnitaryOf_of_left 2 _ rfl rfl ?_
  simp only [Gates.x, toM_m2]
  gate_entries []

theorem y_unitary (hk : Laws k) : IsUnitaryOf 2 (Gates.y k) := by
  refine isUnitaryOf_of_left 2 _ rfl rfl ?_
  have := hk.ii
  simp only [Gates.y, toM_m2]
  gate_entries [hk.si]

theorem z_unitary : IsUnitaryOf (R := R) 2 Gates.z := by
  refine isUnitaryOf_of_left 2 _ rfl rfl ?_
  simp only [Gates.z, toM_m2]
  gate_entries []

theorem h_unitary (hk : Laws k) : IsUnitaryOf 2 (Gates.h k) := by
  refine isUnitaryOf_of_left 2 _ rfl rfl ?_
  have := hk.rr
  simp only [Gates.h, toM_m2]
  gate_entries [hk.sr]

theorem i_unitary : IsUnitaryOf (R := R) 2 Gates.i := by
  refine isUnitaryOf_of_left 2 _ rfl rfl ?_
  simp only [Gates.i, toM_m2]
  gate_entries []

theorem s_unitary (hk : Laws k) : IsUnitaryOf 2 (Gates.s k) := by
  refine isUnitaryOf_of_left 2 _ rfl rfl ?_
  have := hk.ii
  simp only [Gates.s, toM_m2]
  gate_entries [hk.si]

theorem t_unitary (hk : Laws k) : IsUnitaryOf 2 (Gates.t k) := by
  refine isUnitaryOf_of_left 2 _ rfl rfl ?_
  have := hk.sz
  simp only [Gates.t, toM_m2]
  gate_entries []

theorem sx_unitary (hk : Laws k) : IsUnitaryOf 2 (Gates.sx k) := by
  refine isUnitaryOf_of_left 2 _ rfl rfl ?_
  have := hk.ii; have := hk.hh
  simp only [Gates.sx, toM_m2]
  gate_entries [hk.si, hk.sh]

theorem rx_unitary (hk : Laws k) {a : Ang R} (ha : Valid a) : IsUnitaryOf 2 (Gates.rx k a) := by
  refine isUnitaryOf_of_left 2 _ rfl rfl ?_
  have := hk.ii; have := ha.circle
  simp only [Gates.rx, toM_m2]
  gate_entries [hk.si, ha.sc, ha.ss]

theorem ry_unitary {a : Ang R} (ha : Valid a) : IsUnitaryOf 2 (Gates.ry a) := by
  refine isUnitaryOf_of_left 2 _ rfl rfl ?_
  have := ha.circle
  simp only [Gates.ry, toM_m2]
  gate_entries [ha.sc, ha.ss]

theorem rz_unitary (hk : Laws k) {a : Ang R} (ha : Valid a) : IsUnitaryOf 2 (Gates.rz k a) := by
  refine isUnitaryOf_of_left 2 _ rfl rfl ?_
  have := hk.ii; have := ha.circle
  simp only [Gates.rz, toM_m2, Ang.ehp, Ang.ehm]
  gate_entries [hk.si, ha.sc, ha.ss]

theorem rh_unitary (hk : Laws k) {a : Ang R} (ha : Valid a) : IsUnitaryOf 2 (Gates.rh k a) := by
  refine isUnitaryOf_of_left 2 _ rfl rfl ?_
  have := hk.ii; have := hk.rr; have := ha.circle
  simp only [Gates.rh, toM_m2, Ang.ehp]
  gate_entries [hk.si, hk.sr, ha.sc, ha.ss]

theorem phase_unitary (hk : Laws k) {a : Ang R} (ha : Valid a) : IsUnitaryOf 2 (Gates.phase k a) := by
  refine isUnitaryOf_of_left 2 _ rfl rfl ?_
  have := hk.ii; have := ha.circle
  simp only [Gates.phase, toM_m2, Ang.eip, Ang.c, Ang.s]
  gate_entries [hk.si, ha.sc, ha.ss]

theorem u3_unitary (hk : Laws k) {th ph la : Ang R} (h1 : Valid th) (h2 : Valid ph) (h3 : Valid la) :
    IsUnitaryOf 2 (Gates.u3 k th ph la) := by
  refine isUnitaryOf_of_left 2 _ rfl rfl ?_
  have := hk.ii; have := h1.circle; have := h2.circle; have := h3.circle
  simp only [Gates.u3, toM_m2, Ang.eip, Ang.c, Ang.s]
  gate_entries [hk.si, h1.sc, h1.ss, h2.sc, h2.ss, h3.sc, h3.ss]

theorem gpi_unitary (hk : Laws k) {a : Ang R} (ha : Valid a) : IsUnitaryOf 2 (Gates.gpi k a) := by
  refine isUnitaryOf_of_left 2 _ rfl rfl ?_
  have := hk.ii; have := ha.circle
  simp only [Gates.gpi, toM_m2, Ang.eip, Ang.eim, Ang.c, Ang.s]
  gate_entries [hk.si, ha.sc, ha.ss]

theorem gpi2_unitary (hk : Laws k) {a : Ang R} (ha : Valid a) : IsUnitaryOf 2 (Gates.gpi2 k a) := by
  refine isUnitaryOf_of_left 2 _ rfl rfl ?_
  have := hk.ii; have := hk.rr; have := ha.circle
  simp only [Gates.gpi2, toM_m2, Ang.eip, Ang.eim, Ang.c, Ang.s]
  gate_entries [hk.si, hk.sr, ha.sc, ha.ss]

theorem cnot_unitary : IsUnitaryOf (R := R) 4 Gates.cnot := by
  refine isUnitaryOf_of_left 4 _ rfl rfl ?_
  simp only [Gates.cnot, toM_m4]
  gate_entries []

theorem cz_unitary : IsUnitaryOf (R := R) 4 Gates.cz := by
  refine isUnitaryOf_of_left 4 _ rfl rfl ?_
  simp only [Gates.cz, toM_m4]
  gate_entries []

theorem swap_unitary : IsUnitaryOf (R := R) 4 Gates.swap := by
  refine isUnitaryOf_of_left 4 _ rfl rfl ?_
  simp only [Gates.swap, toM_m4]
  gate_entries []

theorem iswap_unitary (hk : Laws k) : IsUnitaryOf 4 (Gates.iswap k) := by
  refine isUnitaryOf_of_left 4 _ rfl rfl ?_
  have := hk.ii
  simp only [Gates.iswap, toM_m4]
  gate_entries [hk.si]

theorem cphase_unitary (hk : Laws k) {a : Ang R} (ha : Valid a) : IsUnitaryOf 4 (Gates.cphase k a) := by
  refine isUnitaryOf_of_left 4 _ rfl rfl ?_
  have := hk.ii; have := ha.circle
  simp only [Gates.cphase, toM_m4, Ang.eip, Ang.c, Ang.s]
  gate_entries [hk.si, ha.sc, ha.ss]

theorem xx_unitary (hk : Laws k) {a : Ang R} (ha : Valid a) : IsUnitaryOf 4 (Gates.xx k a) := by
  refine isUnitaryOf_of_left 4 _ rfl rfl ?_
  have := hk.ii; have := ha.circle
  simp only [Gates.xx, toM_m4]
  gate_entries [hk.si, ha.sc, ha.ss]

theorem yy_unitary (hk : Laws k) {a : Ang R} (ha : Valid a) : IsUnitaryOf 4 (Gates.yy k a) := by
  refine isUnitaryOf_of_left 4 _ rfl rfl ?_
  have := hk.ii; have := ha.circle
  simp only [Gates.yy, toM_m4]
  gate_entries [hk.si, ha.sc, ha.ss]

theorem zz_unitary (hk : Laws k) {a : Ang R} (ha : Valid a) : IsUnitaryOf 4 (Gates.zz k a) := by
  refine isUnitaryOf_of_left 4 _ rfl rfl ?_
  have := hk.ii; have := ha.circle
  simp only [Gates.zz, toM_m4, Ang.ehp, Ang.ehm]
  gate_entries [hk.si, ha.sc, ha.ss]

theorem xy_unitary (hk : Laws k) {a : Ang R} (ha : Valid a) : IsUnitaryOf 4 (Gates.xy k a) := by
  refine isUnitaryOf_of_left 4 _ rfl rfl ?_
  have := hk.ii; have := ha.circle
  simp only [Gates.xy, toM_m4]
  gate_entries [hk.si, ha.sc, ha.ss]

theorem ms_unitary (hk : Laws k) {a b : Ang R} (ha : Valid a) (hb : Valid b) : IsUnitaryOf 4 (Gates.ms k a b) := by
  refine isUnitaryOf_of_left 4 _ rfl rfl ?_
  have := hk.ii; have := hk.rr; have := ha.circle; have := hb.circle
  simp only [Gates.ms, toM_m4, Ang.add, Ang.neg, Ang.eip, Ang.eim, Ang.c, Ang.s]
  gate_entries [hk.si, hk.sr, ha.sc, ha.ss, hb.sc, hb.ss]

theorem delay_unitary : IsUnitaryOf (R := R) 2 Gates.delay := i_unitary

/-! ### the flagged gates equal their own conjugate transpose -/

theorem x_selfadjoint : IsSelfAdjointOf (R := R) 2 Gates.x := by
  refine ⟨rfl, rfl, ?_⟩
  simp only [Gates.x, toM_m2]
  gate_entries []

theorem y_selfadjoint (hk : Laws k) : IsSelfAdjointOf 2 (Gates.y k) := by
  refine ⟨rfl, rfl, ?_⟩
  simp only [Gates.y, toM_m2]
  gate_entries [hk.si]

theorem z_selfadjoint : IsSelfAdjointOf (R := R) 2 Gates.z := by
  refine ⟨rfl, rfl, ?_⟩
  simp only [Gates.z, toM_m2]
  gate_entries []

theorem h_selfadjoint (hk : Laws k) : IsSelfAdjointOf 2 (Gates.h k) := by
  refine ⟨rfl, rfl, ?_⟩
  simp only [Gates.h, toM_m2]
  gate_entries [hk.sr]

theorem i_selfadjoint : IsSelfAdjointOf (R := R) 2 Gates.i := by
  refine ⟨rfl, rfl, ?_⟩
  simp only [Gates.i, toM_m2]
  gate_entries []

theorem gpi_selfadjoint (hk : Laws k) {a : Ang R} (ha : Valid a) : IsSelfAdjointOf 2 (Gates.gpi k a) := by
  refine ⟨rfl, rfl, ?_⟩
  simp only [Gates.gpi, toM_m2, Ang.eip, Ang.eim, Ang.c, Ang.s]
  gate_entries [hk.si, ha.sc, ha.ss]

theorem cnot_selfadjoint : IsSelfAdjointOf (R := R) 4 Gates.cnot := by
  refine ⟨rfl, rfl, ?_⟩
  simp only [Gates.cnot, toM_m4]
  gate_entries []

theorem cz_selfadjoint : IsSelfAdjointOf (R := R) 4 Gates.cz := by
  refine ⟨rfl, rfl, ?_⟩
  simp only [Gates.cz, toM_m4]
  gate_entries []

theorem swap_selfadjoint : IsSelfAdjointOf (R := R) 4 Gates.swap := by
  refine ⟨rfl, rfl, ?_⟩
  simp only [Gates.swap, toM_m4]
  gate_entries []

theorem delay_selfadjoint : IsSelfAdjointOf (R := R) 2 Gates.delay := i_selfadjoint

/-! ### the unflagged fixed gates are NOT self-adjoint (as soon as 2 ≠ 0) -/

theorem s_not_selfadjoint (hk : Laws k) (h2 : (2 : R) ≠ 0) : (toM 2 2 (Gates.s k))ᴴ ≠ toM 2 2 (Gates.s k) := by
  intro h
  have e := congrFun (congrFun h 1) 1
  simp only [Gates.s, toM_m2] at e
  simp [hk.si] at e
  have := hk.ii
  exact h2 (by grind)

theorem t_not_selfadjoint (hk : Laws k) (h2 : (2 : R) ≠ 0) : (toM 2 2 (Gates.t k))ᴴ ≠ toM 2 2 (Gates.t k) := by
  intro h
  have e := congrFun (congrFun h 1) 1
  simp only [Gates.t, toM_m2] at e
  simp at e
  have := hk.ii; have := hk.zz; have := hk.sz
  exact h2 (by grind)

theorem sx_not_selfadjoint (hk : Laws k) (h2 : (2 : R) ≠ 0) : (toM 2 2 (Gates.sx k))ᴴ ≠ toM 2 2 (Gates.sx k) := by
  intro h
  have e := congrFun (congrFun h 0) 0
  simp only [Gates.sx, toM_m2] at e
  simp [hk.si, hk.sh] at e
  have := hk.ii; have := hk.hh
  exact h2 (by grind)

theorem iswap_not_selfadjoint (hk : Laws k) (h2 : (2 : R) ≠ 0) :
    (toM 4 4 (Gates.iswap k))ᴴ ≠ toM 4 4 (Gates.iswap k) := by
  intro h
  have e := congrFun (congrFun h 1) 2
  simp only [Gates.iswap, toM_m4] at e
  simp [hk.si] at e
  have := hk.ii
  exact h2 (by grind)

/-! ### the table: every row is found under its own name -/

theorem lookup_row : ∀ row ∈ Generated.gateTable, lookup Generated.gateTable row.1 = some row := by decide

omit [StarRing R] in
/-- entries of the executable Kronecker product of two one-qubit matrices -/
theorem toM_kron22 (A B : Mat R) (hA : A.r = 2) (hA' : A.c = 2) (hB : B.r = 2) (hB' : B.c = 2) (i j : Fin 4) :
    toM 4 4 (A.kron B) i j = A.get (i.val / 2) (j.val / 2) * B.get (i.val % 2) (j.val % 2) := by
  have hi : i.val < A.r * B.r := by rw [hA, hB]; exact i.2
  have hj : j.val < A.c * B.c := by rw [hA', hB']; exact j.2
  simp only [toM]
  rw [kron_get A B _ _ hi hj, hB, hB']

/-! ### quantifying over parameter lists of a fixed length -/

theorem forall_len0 {α : Type} {P : List α → Prop} (h : P []) : ∀ ps : List α, ps.length = 0 → P ps := by
  intro ps hl; obtain rfl := List.length_eq_zero_iff.mp hl; exact h

theorem forall_len1 {α : Type} {P : List α → Prop} (h : ∀ a, P [a]) : ∀ ps : List α, ps.length = 1 → P ps := by
  intro ps hl; obtain ⟨a, rfl⟩ := List.length_eq_one_iff.mp hl; exact h a

theorem forall_len2 {α : Type} {P : List α → Prop} (h : ∀ a b, P [a, b]) : ∀ ps : List α, ps.length = 2 → P ps := by
  intro ps hl; obtain ⟨a, b, rfl⟩ := List.length_eq_two.mp hl; exact h a b

theorem forall_len3 {α : Type} {P : List α → Prop} (h : ∀ a b c, P [a, b, c]) :
    ∀ ps : List α, ps.length = 3 → P ps := by
  intro ps hl; obtain ⟨a, b, c, rfl⟩ := List.length_eq_three.mp hl; exact h a b c

set_option hygiene false in
/-- split a statement about every row of the generated table into its 27 rows, in table order -/
macro "table_rows" : tactic => `(tactic| (
  intro row hrow
  simp only [Generated.gateTable, List.mem_cons, List.not_mem_nil, or_false] at hrow
  rcases hrow with rfl | rfl | rfl | rfl | rfl | rfl | rfl | rfl | rfl | rfl | rfl | rfl | rfl | rfl |
    rfl | rfl | rfl | rfl | rfl | rfl | rfl | rfl | rfl | rfl | rfl | rfl | rfl))

end OQ.C02
