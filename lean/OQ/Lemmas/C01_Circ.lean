import OQ.Lemmas.C01_Spec
import OQ.Model.C01
import Mathlib.Algebra.BigOperators.Group.List.Basic

namespace OQ.C01
open OQ.Lift OQ OQ.Spec Matrix
variable {R : Type} [CommRing R]

/-- a gate operation the library accepts on an `n`-qubit register: at least one index, distinct indices
    inside the register, a `2^k × 2^k` matrix for `k` indices -/
structure OpValid (n : Nat) (o : Op R) : Prop where
  ne : o.qs ≠ []
  nodup : o.qs.Nodup
  lt : ∀ q ∈ o.qs, q < n
  mr : o.m.r = 2 ^ o.qs.length
  mc : o.m.c = 2 ^ o.qs.length

/-- SPEC of one gate operation: its own matrix on exactly its qubits, identity elsewhere -/
noncomputable def opSem (n : Nat) (o : Op R) : Matrix (BV (Fin n)) (BV (Fin n)) R :=
  open Classical in
  if h : OpValid n o then Spec.lift (sigmaOf o.qs n h.nodup h.lt) (toBV o.qs.length o.m) else 0

def OperValid (n : Nat) : Oper R → Prop
  | .gate o => OpValid n o
  | .mphase fs => fs.length = 2 ^ n

/-- SPEC of one operation: a gate as above; a phase-only operation is the diagonal of its factors -/
noncomputable def operSem (n : Nat) : Oper R → Matrix (BV (Fin n)) (BV (Fin n)) R
  | .gate o => opSem n o
  | .mphase fs => Matrix.diagonal (fun x => fs.getD ((bvEquiv n).symm x).val 0)

/-- SPEC of a circuit: the product of its operations in program order (first operation rightmost) -/
noncomputable def circSem (n : Nat) (ops : List (Oper R)) : Matrix (BV (Fin n)) (BV (Fin n)) R :=
  (ops.reverse.map (operSem n)).prod

theorem circSem_nil (n : Nat) : circSem (R := R) n [] = 1 := by simp [circSem]

theorem circSem_cons (n : Nat) (o : Oper R) (ops : List (Oper R)) :
    circSem n (o :: ops) = circSem n ops * operSem n o := by
  simp [circSem, List.prod_append]

theorem circSem_append (n : Nat) (a b : List (Oper R)) :
    circSem n (a ++ b) = circSem n b * circSem n a := by
  simp [circSem, List.prod_append]

/-- a state vector (`2^n × 1`) indexed by bit assignments -/
noncomputable def toBVv (n : Nat) (v : Mat R) : Matrix (BV (Fin n)) (Fin 1) R :=
  (Mat.toM (2 ^ n) 1 v).submatrix (bvEquiv n).symm id

theorem gateLift_spec (n : Nat) (o : Op R) (h : OpValid n o) :
    ∃ L, gateLift o n = some L ∧ L.r = 2 ^ n ∧ L.c = 2 ^ n ∧ toBV n L = opSem n o := by
  obtain ⟨L, hL, hr, hc, hs⟩ := liftMatrix_eq_lift o.m o.qs n h.ne h.nodup h.lt h.mr h.mc
  refine ⟨L, ?_, hr, hc, ?_⟩
  · unfold gateLift; rw [if_pos ⟨h.mr, h.mc⟩, hL]
  · rw [hs]; unfold opSem; rw [dif_pos h]

theorem log2Exact_pow (n : Nat) : log2Exact (2 ^ n) = some n := by
  unfold log2Exact; simp [Nat.log2_two_pow]

theorem toBV_mul (n : Nat) (A B : Mat R) (hAr : A.r = 2 ^ n) (hAc : A.c = 2 ^ n) (hBr : B.r = 2 ^ n) (hBc : B.c = 2 ^ n) :
    toBV n (A.mul B) = toBV n A * toBV n B := by
  unfold toBV
  rw [Mat.toM_mul A B (2 ^ n) (2 ^ n) (2 ^ n) hAr hAc hBr hBc]
  simp only [Matrix.reindex_apply]
  rw [Matrix.submatrix_mul_equiv]

theorem toBVv_mul (n : Nat) (A v : Mat R) (hAr : A.r = 2 ^ n) (hAc : A.c = 2 ^ n) (hvr : v.r = 2 ^ n) (hvc : v.c = 1) :
    toBVv n (A.mul v) = toBV n A * toBVv n v := by
  unfold toBV toBVv
  rw [Mat.toM_mul A v (2 ^ n) (2 ^ n) 1 hAr hAc hvr hvc]
  simp only [Matrix.reindex_apply]
  rw [Matrix.submatrix_mul_equiv]

/-- one step of (iv): applying one operation multiplies the state by the operation's matrix -/
theorem applyOper_spec (n : Nat) (op : Oper R) (h : OperValid n op) (v : Mat R) (hvr : v.r = 2 ^ n) (hvc : v.c = 1) :
    ∃ w, applyOper op v = some w ∧ w.r = 2 ^ n ∧ w.c = 1 ∧ toBVv n w = operSem n op * toBVv n v := by
  cases op with
  | gate o =>
    obtain ⟨L, hL, hr, hc, hs⟩ := gateLift_spec n o h
    refine ⟨L.mul v, ?_, ?_, ?_, ?_⟩
    · simp only [applyOper, hvr, log2Exact_pow, hL]
    · simp [Mat.mul, hr]
    · simp [Mat.mul, hvc]
    · rw [toBVv_mul n L v hr hc hvr hvc, hs]; rfl
  | mphase fs =>
    have hlen : fs.length = 2 ^ n := h
    refine ⟨Mat.ofFn v.r 1 (fun i _ => v.get i 0 * fs.getD i 0), ?_, ?_, ?_, ?_⟩
    · simp only [applyOper, hvr, hlen, ne_eq, not_true_eq_false, if_false]
    · simp [hvr]
    · simp
    · ext x j
      have hj : j = 0 := Subsingleton.elim _ _
      subst hj
      simp only [operSem, Matrix.diagonal_mul, toBVv, Matrix.submatrix_apply, id, Mat.toM]
      rw [hvr, Mat.get_ofFn _ _ _ _ _ (Fin.isLt _) (by decide)]
      simp [mul_comm]

theorem applyAll_nil (v : Mat R) : applyAll ([] : List (Oper R)) v = some v := rfl

theorem applyAll_cons (o : Oper R) (ops : List (Oper R)) (v : Mat R) :
    applyAll (o :: ops) v = (applyOper o v).bind (applyAll ops) := by
  simp [applyAll, List.foldlM_cons]; rfl

theorem applyAll_append (a b : List (Oper R)) (v : Mat R) :
    applyAll (a ++ b) v = (applyAll a v).bind (applyAll b) := by
  simp [applyAll, List.foldlM_append]; rfl

/-- (iv) applying the operations one at a time to any state = the circuit's matrix times the state
    (the empty circuit acts as the identity) -/
theorem applyAll_spec (n : Nat) (ops : List (Oper R)) (h : ∀ op ∈ ops, OperValid n op)
    (v : Mat R) (hvr : v.r = 2 ^ n) (hvc : v.c = 1) :
    ∃ w, applyAll ops v = some w ∧ w.r = 2 ^ n ∧ w.c = 1 ∧ toBVv n w = circSem n ops * toBVv n v := by
  induction ops generalizing v with
  | nil => exact ⟨v, rfl, hvr, hvc, by simp [circSem_nil]⟩
  | cons o ops ih =>
    obtain ⟨w1, h1, hr1, hc1, hs1⟩ := applyOper_spec n o (h o (by simp)) v hvr hvc
    obtain ⟨w, h2, hr2, hc2, hs2⟩ := ih (fun op hop => h op (by simp [hop])) w1 hr1 hc1
    refine ⟨w, ?_, hr2, hc2, ?_⟩
    · rw [applyAll_cons, h1]; exact h2
    · rw [hs2, hs1, circSem_cons, Matrix.mul_assoc]


/-! ### (iii) `to_unitary` -/

theorem foldl_mul_spec (n : Nat) (A : Mat R) (Ls : List (Mat R)) (hAr : A.r = 2 ^ n) (hAc : A.c = 2 ^ n)
    (hLs : ∀ L ∈ Ls, L.r = 2 ^ n ∧ L.c = 2 ^ n) :
    (Ls.foldl Mat.mul A).r = 2 ^ n ∧ (Ls.foldl Mat.mul A).c = 2 ^ n ∧
      toBV n (Ls.foldl Mat.mul A) = toBV n A * (Ls.map (toBV n)).prod := by
  induction Ls generalizing A with
  | nil => simp [hAr, hAc]
  | cons L Ls ih =>
    have hL := hLs L (by simp)
    have := ih (A.mul L) (by simp [Mat.mul, hAr]) (by simp [Mat.mul, hL.2]) (fun L' h' => hLs L' (by simp [h']))
    simp only [List.foldl_cons, List.map_cons, List.prod_cons]
    refine ⟨this.1, this.2.1, ?_⟩
    rw [this.2.2, toBV_mul n A L hAr hAc hL.1 hL.2, Matrix.mul_assoc]

theorem mapM_gateLift (n : Nat) (l : List (Op R)) (h : ∀ o ∈ l, OpValid n o) :
    ∃ Ls : List (Mat R), (l.map Oper.gate).mapM (Oper.lifted n) = some Ls ∧ (∀ L ∈ Ls, L.r = 2 ^ n ∧ L.c = 2 ^ n) ∧
      Ls.map (toBV n) = l.map (opSem n) ∧ Ls.length = l.length := by
  induction l with
  | nil => exact ⟨[], rfl, by simp, rfl, rfl⟩
  | cons o l ih =>
    obtain ⟨Ls, h1, h2, h3, h4⟩ := ih (fun o' ho' => h o' (by simp [ho']))
    obtain ⟨L, hL, hr, hc, hs⟩ := gateLift_spec n o (h o (by simp))
    refine ⟨L :: Ls, ?_, ?_, ?_, ?_⟩
    · simp only [List.map_cons, List.mapM_cons, Oper.lifted, hL, h1]; rfl
    · intro L' hL'
      rcases List.mem_cons.mp hL' with rfl | hm
      · exact ⟨hr, hc⟩
      · exact h2 L' hm
    · simp [hs, h3]
    · simp [h4]

/-- (iii) the matrix reported for a non-empty circuit of valid gate operations is the ordered product -/
theorem toUnitary_spec (n : Nat) (gs : List (Op R)) (hne : gs ≠ []) (h : ∀ o ∈ gs, OpValid n o) :
    ∃ U, toUnitary ⟨n, gs.map Oper.gate⟩ = some U ∧ U.r = 2 ^ n ∧ U.c = 2 ^ n ∧
      toBV n U = circSem n (gs.map Oper.gate) := by
  obtain ⟨Ls, h1, h2, h3, h4⟩ := mapM_gateLift n gs.reverse (fun o ho => h o (List.mem_reverse.mp ho))
  cases Ls with
  | nil =>
    exfalso
    simp only [List.length_nil, List.length_reverse] at h4
    exact hne (List.length_eq_zero_iff.mp h4.symm)
  | cons L Ls =>
    have hL := h2 L (by simp)
    have hf := foldl_mul_spec n L Ls hL.1 hL.2 (fun L' h' => h2 L' (by simp [h']))
    refine ⟨Ls.foldl Mat.mul L, ?_, hf.1, hf.2.1, ?_⟩
    · unfold toUnitary
      simp only
      rw [← List.map_reverse, h1]; rfl
    · rw [hf.2.2]
      have : toBV n L * (Ls.map (toBV n)).prod = ((L :: Ls).map (toBV n)).prod := by simp
      rw [this, h3]
      unfold circSem
      rw [← List.map_reverse, List.map_map]
      rfl

/-- the empty circuit has no matrix (`reduce` of an empty sequence raises) -/
theorem toUnitary_empty (n : Nat) : toUnitary (R := R) ⟨n, []⟩ = none := rfl

/-- a phase-only operation anywhere makes `to_unitary` raise -/
theorem toUnitary_mphase (n : Nat) (a b : List (Oper R)) (fs : List R) :
    toUnitary ⟨n, a ++ Oper.mphase fs :: b⟩ = none := by
  unfold toUnitary
  simp only [List.reverse_append, List.reverse_cons, List.append_assoc]
  have : ∀ (x y : List (Oper R)), (x ++ [Oper.mphase fs] ++ y).mapM (Oper.lifted n) = none := by
    intro x y
    induction x with
    | nil => simp [List.mapM_cons, Oper.lifted]
    | cons z x ih =>
      simp only [List.cons_append, List.mapM_cons, List.append_assoc] at ih ⊢
      rw [ih]; cases Oper.lifted n z <;> rfl
  have h2 := this b.reverse a.reverse
  simp only [List.append_assoc] at h2
  rw [h2]

/-! ### (vi) `split_circuit` and `get_wavefunction` -/

theorem groupBy_flatten {α : Type} (p : α → Bool) (l : List α) :
    (groupBy p l).flatMap (fun bg => bg.2) = l := by
  induction l with
  | nil => rfl
  | cons x xs ih =>
    unfold groupBy
    cases hg : groupBy p xs with
    | nil => rw [hg] at ih; simp at ih; simp [← ih]
    | cons bg rest =>
      obtain ⟨b, g⟩ := bg
      rw [hg] at ih
      simp only
      by_cases hp : p x = b
      · simp only [hp, if_true, List.flatMap_cons, List.cons_append] at ih ⊢
        rw [ih]
      · simp only [hp, if_false, List.flatMap_cons, List.cons_append, List.nil_append] at ih ⊢
        rw [ih]

/-- the pieces are non-empty runs on which the predicate is constant and equal to the tag -/
theorem groupBy_tags {α : Type} (p : α → Bool) (l : List α) :
    ∀ bg ∈ groupBy p l, bg.2 ≠ [] ∧ ∀ x ∈ bg.2, p x = bg.1 := by
  induction l with
  | nil => intro bg h; simp [groupBy] at h
  | cons x xs ih =>
    unfold groupBy
    cases hg : groupBy p xs with
    | nil => intro bg h; simp at h; subst h; simp
    | cons bg0 rest =>
      obtain ⟨b, g⟩ := bg0
      rw [hg] at ih
      simp only
      by_cases hp : p x = b
      · simp only [hp, if_true]
        intro bg h
        rcases List.mem_cons.mp h with rfl | h
        · refine ⟨by simp, ?_⟩
          intro y hy
          rcases List.mem_cons.mp hy with rfl | hy
          · exact hp
          · exact (ih (b, g) (by simp)).2 y hy
        · exact ih bg (by simp [h])
      · simp only [hp, if_false]
        intro bg h
        rcases List.mem_cons.mp h with rfl | h
        · simp
        · exact ih bg h

/-- consecutive pieces carry different tags -/
theorem groupBy_alternate {α : Type} (p : α → Bool) (l : List α) :
    List.IsChain (fun a b => a.1 ≠ b.1) (groupBy p l) := by
  induction l with
  | nil => simp [groupBy]
  | cons x xs ih =>
    unfold groupBy
    cases hg : groupBy p xs with
    | nil => simp
    | cons bg0 rest =>
      obtain ⟨b, g⟩ := bg0
      rw [hg] at ih
      simp only
      by_cases hp : p x = b
      · simp only [hp, if_true]
        cases rest with
        | nil => simp
        | cons r rest' =>
          simp only [List.isChain_cons_cons] at ih ⊢
          exact ih
      · simp only [hp, if_false]
        exact List.IsChain.cons_cons hp ih

theorem fold_segments (native : Circ R → Mat R → Option (Mat R))
    (hnative : ∀ sub st, native sub st = applyAll sub.ops st) (n : Nat)
    (segs : List (Bool × List (Oper R))) (v : Mat R) :
    (segs.map (fun bg => (bg.1, (⟨n, bg.2⟩ : Circ R)))).foldlM
      (fun st seg => if seg.1 then native seg.2 st else applyAll seg.2.ops st) v
      = applyAll (segs.flatMap (fun bg => bg.2)) v := by
  have hfun : (fun (st : Mat R) (seg : Bool × Circ R) =>
      if seg.1 then native seg.2 st else applyAll seg.2.ops st) = (fun st seg => applyAll seg.2.ops st) := by
    funext st seg; simp [hnative]
  rw [hfun]
  induction segs generalizing v with
  | nil => rfl
  | cons s segs ih =>
    simp only [List.map_cons, List.foldlM_cons, List.flatMap_cons, applyAll_append]
    cases applyAll s.2 v with
    | none => rfl
    | some w => exact ih w

/-- (vi) whatever the native predicate, and with phase-only operations interleaved, a simulator built on
    the base class whose native run acts like applying the operations returns what applying the
    operations one at a time returns (then wrapped by the `Wavefunction` constructor checks) -/
theorem getWavefunction_eq (isNative : Oper R → Bool) (native : Circ R → Mat R → Option (Mat R))
    (valid : Mat R → Bool) (hnative : ∀ sub st, native sub st = applyAll sub.ops st)
    (c : Circ R) (init : Option (Mat R)) :
    getWavefunction isNative native valid c init =
      (applyAll c.ops (init.getD (zeroState c.n))).bind (fun st => if valid st then some st else none) := by
  unfold getWavefunction splitCircuit
  simp only
  rw [fold_segments native hnative, groupBy_flatten]
  cases init with
  | none => simp only [Option.getD_none]; cases applyAll c.ops (zeroState c.n) <;> rfl
  | some v => simp only [Option.getD_some]; cases applyAll c.ops v <;> rfl

theorem symbolicWavefunction_eq (valid : Mat R → Bool) (c : Circ R) (init : Option (Mat R)) :
    symbolicWavefunction valid c init =
      (applyAll c.ops (init.getD (zeroState c.n))).bind (fun st => if valid st then some st else none) :=
  getWavefunction_eq _ _ valid (fun _ _ => rfl) c init

end OQ.C01
