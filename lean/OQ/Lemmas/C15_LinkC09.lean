/- helper lemmas linking C15 (estimation) with C09 (operator ↔ matrix) and C01 (circuit semantics);
   not property theorems.  The property theorems are in OQ/Props/C15_Link.lean. -/
import OQ.Props.C15
import OQ.Props.C09
import OQ.Props.C01
set_option linter.unusedSectionVars false
namespace OQ.C15.Link
open OQ OQ.C15 OQ.Pauli Matrix

variable {R : Type} [CommRing R] [StarRing R] [DecidableEq R]

/-! ### vocabulary: C15's data read as C09's / C01's data -/

/-- complex conjugation of C15's `numpy.conjugate` := the star operation C09 reasons with -/
@[reducible] def starConj : Conj R := ⟨star⟩
attribute [local instance] starConj

theorem conj_eq_star (x : R) : (conj x : R) = star x := rfl

def toP : C15.Pauli → P
  | .X => .X | .Y => .Y | .Z => .Z

/-- a C15 `PauliTerm` as a C09 term over `R` (`ofGQ` embeds the Gaussian-rational coefficients) -/
def toTerm (ofGQ : GQ → R) (t : C15.Term) : Pauli.Term R := ⟨t.ops.map (fun p => (p.1, toP p.2)), ofGQ t.coeff⟩
def toPSum (ofGQ : GQ → R) (o : Op) : PSum R := o.map (toTerm ofGQ)

/-- the operator-to-matrix map of C15 instantiated with C09's model of `get_sparse_operator`.
    (The `none` branch is dead inside `exactValue`: see `sparse_guard_agrees`.) -/
def sparseOpMat (k : Scal R) (ofGQ : GQ → R) (o : Op) (n a b : Nat) : R :=
  match C09.getSparseOperator k (toPSum ofGQ o) n with
  | some M => M.get a b
  | none => 0

/-- a wavefunction simulator of C15 built from a state-vector simulator of C01:
    the width is the circuit's, amplitude `a` is entry `(a, 0)` of the returned column -/
def simWf (sim : C01.Circ R → Option (Mat R)) (c : C01.Circ R) : Except Err (Nat × (Nat → R)) :=
  match sim c with
  | none => .error .runtime
  | some w => .ok (c.n, fun a => w.get a 0)

/-- the simulator: apply the operations one at a time (C01's `applyAll`) to `|0…0⟩` -/
def stepSim (c : C01.Circ R) : Option (Mat R) := C01.applyAll c.ops (C01.zeroState c.n)

/-- the same for a circuit given as a width and a list of gate operations, through `Lift.applyAll` -/
def liftSim (c : Nat × List (Lift.Op R)) : Option (Mat R) := Lift.applyAll c.2 (C01.zeroState c.1)

def liftWf (c : Nat × List (Lift.Op R)) : Except Err (Nat × (Nat → R)) :=
  match liftSim c with
  | none => .error .runtime
  | some w => .ok (c.1, fun a => w.get a 0)

/-- SPEC of the state a circuit prepares from `|0…0⟩`: C01's circuit matrix applied to the zero state,
    read at basis index `a` (qubit 0 = most significant bit) -/
noncomputable def specState (n : Nat) (ops : List (C01.Oper R)) : Fin (2 ^ n) → R :=
  fun a => (C01.circSem n ops * C01.toBVv n (C01.zeroState n) : Matrix (Spec.BV (Fin n)) (Fin 1) R) (C01.bvEquiv n a) 0

/-- SPEC of the matrix of an operator: C09's tensor-product definition on `n` qubits -/
def specMatrix (k : Scal R) (ofGQ : GQ → R) (n : Nat) (o : Op) : Matrix (Fin (2 ^ n)) (Fin (2 ^ n)) R :=
  Mat.toM (2 ^ n) (2 ^ n) (PSum.denote k n (toPSum ofGQ o))

/-- ⟨ψ|A|ψ⟩ -/
def quadForm {d : Nat} (A : Matrix (Fin d) (Fin d) R) (ψ : Fin d → R) : R := star ψ ⬝ᵥ A *ᵥ ψ

/-! ### operator side -/

theorem toTerm_fst (ofGQ : GQ → R) (t : C15.Term) : (toTerm ofGQ t).ops.map Prod.fst = t.qubits := by
  simp [toTerm, Term.qubits, List.map_map, Function.comp_def]

theorem sumWF_toPSum (ofGQ : GQ → R) (o : Op) (h : ∀ t ∈ o, t.qubits.Nodup) : C09.SumWF (toPSum ofGQ o) := by
  intro u hu
  obtain ⟨t, ht, rfl⟩ := List.mem_map.mp hu
  unfold C09.TermWF
  rw [toTerm_fst]; exact h t ht

theorem toPSum_ops_lt (ofGQ : GQ → R) (o : Op) (n : Nat) :
    (∀ u ∈ toPSum ofGQ o, ∀ x ∈ u.ops, x.1 < n) ↔ ∀ t ∈ o, ∀ q ∈ t.qubits, q < n := by
  constructor
  · intro h t ht q hq
    obtain ⟨p, hp, rfl⟩ := List.mem_map.mp hq
    exact h (toTerm ofGQ t) (List.mem_map_of_mem ht) (p.1, toP p.2) (List.mem_map_of_mem (f := fun p => (p.1, toP p.2)) hp)
  · intro h u hu x hx
    obtain ⟨t, ht, rfl⟩ := List.mem_map.mp hu
    obtain ⟨p, hp, rfl⟩ := List.mem_map.mp hx
    exact h t ht p.1 (List.mem_map_of_mem (f := fun p => p.1) hp)

theorem flatMap_nil_of_constant (o : Op) (h : o.isConstant = true) : o.flatMap Term.qubits = [] := by
  rw [List.flatMap_eq_nil_iff]
  intro t ht
  have := (List.all_eq_true.mp h) t ht
  simp only [Term.isConstant, List.isEmpty_iff] at this
  simp [Term.qubits, this]

theorem nQubits_le_iff (o : Op) (n : Nat) : o.nQubits ≤ n ↔ ∀ t ∈ o, ∀ q ∈ t.qubits, q < n := by
  have key : (o.flatMap Term.qubits).foldl (fun acc q => max acc (q + 1)) 0 ≤ n ↔
      ∀ t ∈ o, ∀ q ∈ t.qubits, q < n := by
    rw [C09.foldl_max_le (fun q : Nat => q + 1)]
    simp only [Nat.zero_le, true_and, List.mem_flatMap]
    constructor
    · intro h t ht q hq; have := h q ⟨t, ht, hq⟩; omega
    · rintro h q ⟨t, ht, hq⟩; have := h t ht q hq; omega
  unfold Op.nQubits
  split
  · rename_i hc
    rw [← key, flatMap_nil_of_constant o hc]; simp
  · exact key

/-- the two models compute the same operator width -/
theorem nQubits_toPSum (ofGQ : GQ → R) (o : Op) : PSum.nQubits (toPSum ofGQ o) = o.nQubits := by
  apply Nat.le_antisymm
  · rw [C09.sum_nQubits_le, toPSum_ops_lt, ← nQubits_le_iff]
  · rw [nQubits_le_iff, ← toPSum_ops_lt ofGQ, ← C09.sum_nQubits_le]


theorem sparse_guard (k : Scal R) (ofGQ : GQ → R) (o : Op) (n : Nat) :
    C09.getSparseOperator k (toPSum ofGQ o) n = none ↔ n < o.nQubits := by
  rw [C09.getSparseOperator_none, nQubits_toPSum]

/-- entries of the instantiated operator-matrix map are the entries of the tensor-product definition -/
theorem sparseOpMat_get (k : Scal R) (hi : k.i * k.i = -1) (ofGQ : GQ → R) (o : Op)
    (hwf : ∀ t ∈ o, t.qubits.Nodup) (n : Nat) (hn : o.nQubits ≤ n) (a b : Fin (2 ^ n)) :
    sparseOpMat k ofGQ o n a b = specMatrix k ofGQ n o a b := by
  obtain ⟨M, h1, _, _, h4⟩ := C09.sparse_eq_denote k hi (toPSum ofGQ o) (sumWF_toPSum ofGQ o hwf) n
    (by rw [nQubits_toPSum]; exact hn)
  unfold sparseOpMat specMatrix
  rw [h1, ← h4]; rfl

/-- `dot(conj ψ, A ψ)` with `A` from `get_sparse_operator` is ⟨ψ|A|ψ⟩ with `A` the tensor-product definition -/
theorem expectation_sparse (k : Scal R) (hi : k.i * k.i = -1) (ofGQ : GQ → R) (o : Op)
    (hwf : ∀ t ∈ o, t.qubits.Nodup) (n : Nat) (hn : o.nQubits ≤ n) (ψ : Nat → R) :
    expectation (2 ^ n) (sparseOpMat k ofGQ o n) ψ
      = quadForm (specMatrix k ofGQ n o) (fun a : Fin (2 ^ n) => ψ a) := by
  rw [C15.expectation_eq, Finset.sum_range]
  unfold quadForm
  simp only [dotProduct, Matrix.mulVec, Pi.star_apply]
  apply Finset.sum_congr rfl
  intro a _
  rw [Finset.sum_range, Finset.mul_sum]
  apply Finset.sum_congr rfl
  intro b _
  rw [sparseOpMat_get k hi ofGQ o hwf n hn a b, conj_eq_star, mul_assoc]

/-! ### state side -/

/-- the amplitudes of the column the step-wise simulator returns are the SPEC state -/
theorem stepSim_spec (n : Nat) (ops : List (C01.Oper R)) (h : ∀ op ∈ ops, C01.OperValid n op) :
    ∃ w, C01.applyAll ops (C01.zeroState n) = some w ∧ w.r = 2 ^ n ∧ w.c = 1 ∧
      (fun a : Fin (2 ^ n) => w.get a 0) = specState n ops := by
  obtain ⟨w, hw, hr, hc, hs⟩ := C01.applyAll_eq_circuit_matrix n ops h (C01.zeroState n) rfl rfl
  refine ⟨w, hw, hr, hc, ?_⟩
  funext a
  unfold specState
  rw [← hs]
  simp [C01.toBVv, Mat.toM]

/-- `Lift.applyAll` (no shape check) and C01's `applyAll` agree on gate operations whose matrix has the
    shape of its index tuple -/
theorem liftApplyAll_eq (gs : List (Lift.Op R)) (hs : ∀ o ∈ gs, o.m.r = 2 ^ o.qs.length ∧ o.m.c = 2 ^ o.qs.length)
    (v : Mat R) : Lift.applyAll gs v = C01.applyAll (gs.map C01.Oper.gate) v := by
  induction gs generalizing v with
  | nil => rfl
  | cons o gs ih =>
    have ho := hs o (by simp)
    have hstep : Lift.applyOp o v = C01.applyOper (.gate o) v := by
      simp only [Lift.applyOp, C01.applyOper, C01.gateLift, ho, and_self, if_true]
      cases Lift.log2Exact v.r with
      | none => rfl
      | some n => cases Lift.liftMatrix o.m o.qs n <;> rfl
    rw [List.map_cons, C01.applyAll_cons, ← hstep]
    simp only [Lift.applyAll, List.foldlM_cons]
    cases Lift.applyOp o v with
    | none => rfl
    | some v' => exact ih (fun o' h' => hs o' (by simp [h'])) v'


/-! ### the two models of `get_expectation_value` -/

/-- the amplitude list (`wavefunction.amplitudes`) of a `2^n × 1` column -/
def amps (n : Nat) (w : Mat R) : List R := (List.range (2 ^ n)).map (fun a => w.get a 0)

theorem amps_length (n : Nat) (w : Mat R) : (amps n w).length = 2 ^ n := by simp [amps]

theorem amps_getD (n : Nat) (w : Mat R) (a : Nat) (ha : a < 2 ^ n) : (amps n w).getD a 0 = w.get a 0 := by
  simp [amps, List.getD_eq_getElem?_getD, List.getElem?_map, List.getElem?_range ha]

/-- C09's `expectation(operator, state)` and C15's are the same double sum -/
theorem expectation_eq_C09 (k : Scal R) (hcj : k.cj = star) (M : Mat R) (n : Nat) (w : Mat R) :
    C09.expectation k M (amps n w) = C15.expectation (2 ^ n) (fun a b => M.get a b) (fun a => w.get a 0) := by
  unfold C09.expectation C15.expectation
  rw [amps_length, sumTo_eq, sumTo_eq]
  apply Finset.sum_congr rfl
  intro a ha
  rw [amps_getD n w a (Finset.mem_range.mp ha), hcj, sumTo_eq, sumTo_eq]
  congr 1
  apply Finset.sum_congr rfl
  intro b hb
  rw [amps_getD n w b (Finset.mem_range.mp hb)]

theorem exactValue_eq_C09 (k : Scal R) (hcj : k.cj = star) (tol : C09.Tol R) (ofGQ : GQ → R) (re : R → R)
    (sim : C01.Circ R → Option (Mat R)) (t : Task (C01.Circ R)) (w : Mat R) (hsim : sim t.circuit = some w) :
    exactValue (simWf sim) (sparseOpMat k ofGQ) re t =
      match C09.getExpectationValue k tol (toPSum ofGQ t.op) (amps t.circuit.n w) false with
      | none => .error .value
      | some v => .ok (re v) := by
  unfold exactValue simWf C09.getExpectationValue
  simp only [hsim, amps_length, Nat.log2_two_pow, Bool.false_eq_true, if_false]
  by_cases hn : t.circuit.n < t.op.nQubits
  · rw [if_pos hn, (sparse_guard k ofGQ t.op t.circuit.n).2 hn]
  · rw [if_neg hn]
    cases hM : C09.getSparseOperator k (toPSum ofGQ t.op) t.circuit.n with
    | none => exact absurd ((sparse_guard k ofGQ t.op t.circuit.n).1 hM) hn
    | some M =>
      simp only
      rw [expectation_eq_C09 k hcj M t.circuit.n w]
      congr 3
      funext a b
      simp only [sparseOpMat, hM]


/-! ### C15's own Kronecker-by-bits matrix `opMatrix` is C09's tensor-product definition -/

theorem opAt_toTerm (ofGQ : GQ → R) (t : C15.Term) (q : Nat) :
    (toTerm ofGQ t).opAt q = (lookupOp t.ops q).map toP := by
  unfold Pauli.Term.opAt lookupOp toTerm
  rw [List.find?_map, Option.map_map, Option.map_map]
  rfl

theorem pe_toP (k : Scal R) (p : C15.Pauli) (a b : Nat) (ha : a < 2) (hb : b < 2) :
    C09.pe k (some (toP p)) a b = pauliEntry k.i p a b := by
  cases p <;> interval_cases a <;> interval_cases b <;> simp [C09.pe, pauliEntry, toP]

theorem qubitFactor_eq_pe (k : Scal R) (ofGQ : GQ → R) (t : C15.Term) (n i j q : Nat) :
    qubitFactor k.i t.ops n i j q
      = C09.pe k ((toTerm ofGQ t).opAt q) (i / 2 ^ (n - 1 - q) % 2) (j / 2 ^ (n - 1 - q) % 2) := by
  rw [opAt_toTerm]
  unfold qubitFactor
  cases lookupOp t.ops q with
  | none => rfl
  | some p =>
    simp only [Option.map_some]
    rw [pe_toP k p _ _ (Nat.mod_lt _ (by decide)) (Nat.mod_lt _ (by decide))]
    rfl

theorem termEntry_eq_strEntry (k : Scal R) (ofGQ : GQ → R) (t : C15.Term) (n i j : Nat) :
    termEntry k.i ofGQ t n i j = (toTerm ofGQ t).coeff * C09.strEntry k (toTerm ofGQ t).opAt n i j := by
  unfold termEntry
  rw [foldl_mul_eq_prod (fun q => qubitFactor k.i t.ops n i j q), C09.strEntry_prod]
  congr 2
  apply List.map_congr_left
  intro q _
  exact qubitFactor_eq_pe k ofGQ t n i j q

theorem opMatrix_eq_dEntry (k : Scal R) (ofGQ : GQ → R) (o : Op) (n i j : Nat) :
    opMatrix k.i ofGQ o n i j = C09.dEntry k n (toPSum ofGQ o) i j := by
  unfold opMatrix C09.dEntry toPSum
  rw [foldl_add_eq_sum (fun t => termEntry k.i ofGQ t n i j), zero_add, List.map_map]
  congr 1
  apply List.map_congr_left
  intro t _
  exact termEntry_eq_strEntry k ofGQ t n i j

theorem expectation_congr {K : Type} [CommRing K] [Conj K] (d : Nat) (A B : Nat → Nat → K) (ψ : Nat → K)
    (h : ∀ a b, a < d → b < d → A a b = B a b) : expectation d A ψ = expectation d B ψ := by
  rw [C15.expectation_eq, C15.expectation_eq]
  apply Finset.sum_congr rfl
  intro a ha
  apply Finset.sum_congr rfl
  intro b hb
  rw [h a b (Finset.mem_range.mp ha) (Finset.mem_range.mp hb)]


/-! ### outcomes of non-zero probability, read off C01's simulation -/

/-- `supp c s`: `s` is the bitstring (qubit 0 first) of a basis index whose amplitude in the state that
    C01's step-wise simulation of `c` returns is non-zero -/
def ampSupp (c : C01.Circ R) (s : Bits) : Prop :=
  ∃ w a, stepSim c = some w ∧ a < 2 ^ c.n ∧ s = bitsOf c.n a ∧ w.get a 0 ≠ 0

theorem bitsOf_length (n x : Nat) : (bitsOf n x).length = n := by simp [bitsOf]

theorem bitsOf_getD_le_one (n x q : Nat) : (bitsOf n x).getD q 0 ≤ 1 := by
  by_cases hq : q < n
  · rw [bitsOf_getD n x q hq]; exact bitAt_le_one n q x
  · rw [List.getD_eq_getElem?_getD, List.getElem?_eq_none (by rw [bitsOf_length]; omega)]; simp

/-- a circuit that prepares the basis state of index `x` has exactly one outcome of non-zero probability -/
theorem ampSupp_basis (c : C01.Circ R) (hcirc : ∀ op ∈ c.ops, C01.OperValid c.n op) (x : Nat)
    (hprep : specState c.n c.ops = fun a => if a.val = x then 1 else 0) (s : Bits) (hs : ampSupp c s) :
    s = bitsOf c.n x := by
  obtain ⟨w, a, hw, ha, rfl, hne⟩ := hs
  obtain ⟨w', hw', _, _, hst⟩ := stepSim_spec c.n c.ops hcirc
  have : w = w' := by
    unfold stepSim at hw; rw [hw'] at hw; exact (Option.some.inj hw).symm
  subst this
  rw [hprep] at hst
  have hv := congrFun hst ⟨a, ha⟩
  simp only at hv
  by_cases hax : a = x
  · rw [hax]
  · rw [hv, if_neg hax] at hne; exact absurd rfl hne

/-- any per-circuit sampler whose shots lie in `supp` gives, wrapped in the batch validation of
    `BaseCircuitRunner`, a runner obeying the runner law -/
theorem baseRunBatch_law_of {C : Type} (run : Nat → C → Nat → Except Err Shots) (supp : C → Bits → Prop)
    (hrun : ∀ k c n s, run k c n = .ok s → ∀ x ∈ s, supp c x) : RunnerLaw (baseRunBatch run) supp := by
  constructor
  · intro cs ns meas h
    unfold baseRunBatch at h
    split at h
    · simp at h
    · rename_i hlen
      cases hv : validateShots ns with
      | error e => rw [hv] at h; simp at h
      | ok u =>
        rw [hv] at h
        have := (runEach_spec _ _ _ _ h).1
        rw [this, List.length_zip]
        have : ns.length = cs.length := by simpa using hlen
        omega
  · intro cs ns meas h k c hc s hs
    unfold baseRunBatch at h
    split at h
    · simp at h
    · rename_i hlen
      have hlen' : ns.length = cs.length := by simpa using hlen
      cases hv : validateShots ns with
      | error e => rw [hv] at h; simp at h
      | ok u =>
        rw [hv] at h
        have hk : k < cs.length := by
          by_contra hn
          rw [List.getElem?_eq_none (by omega)] at hc; simp at hc
        have hkz : k < (cs.zip ns).length := by rw [List.length_zip]; omega
        have hrun' := (runEach_spec _ _ _ _ h).2 k hkz
        have hck : cs[k] = c := by
          rw [List.getElem?_eq_getElem hk] at hc; simpa using hc
        simp only [List.getElem_zip, Nat.zero_add, hck] at hrun'
        exact hrun _ _ _ _ hrun' s hs

/-- a deterministic sampler: `n` copies of the bitstring of the first basis index of non-zero amplitude -/
def firstOutcomeRun (_k : Nat) (c : C01.Circ R) (n : Nat) : Except Err Shots :=
  match stepSim c with
  | none => .error .runtime
  | some w =>
    match (List.range (2 ^ c.n)).find? (fun a => decide (w.get a 0 ≠ 0)) with
    | none => .error .runtime
    | some a => .ok (List.replicate n (bitsOf c.n a))

theorem firstOutcomeRun_law : RunnerLaw (baseRunBatch (firstOutcomeRun (R := R))) ampSupp := by
  apply baseRunBatch_law_of
  intro k c n s h x hx
  unfold firstOutcomeRun at h
  cases hw : stepSim c with
  | none => rw [hw] at h; simp at h
  | some w =>
    rw [hw] at h
    simp only at h
    cases hf : (List.range (2 ^ c.n)).find? (fun a => decide (w.get a 0 ≠ 0)) with
    | none => rw [hf] at h; simp at h
    | some a =>
      rw [hf] at h
      simp only [Except.ok.injEq] at h
      rw [← h] at hx
      have hx' := List.eq_of_mem_replicate hx
      have hmem := List.mem_of_find?_eq_some hf
      have hp := List.find?_some hf
      exact ⟨w, a, hw, List.mem_range.mp hmem, hx', by simpa using hp⟩

end OQ.C15.Link
