/- helper lemmas for the T9 translation ties of C11 (`OQ/Props/C11_Translated{Dict,Artefacts,Parser}.lean`): the Python prelude
   (`OQ/Exec/Py.lean`, T9 block) against the model's notions of coefficients, exceptions and loops (not property theorems) -/
import OQ.Generated.TranslatedC11
import OQ.Lemmas.C11
namespace OQ.C11
open OQ.Py

/-- `for x in l: acc.append(f(x))` is `acc + [f(x) for x in l]` -/
theorem foldl_append_singleton {α β : Type} (f : α → β) (l : List α) (acc : List β) :
    l.foldl (fun st x => st ++ [f x]) acc = acc ++ l.map f := by
  induction l generalizing acc with
  | nil => simp
  | cons x xs ih => simp [ih]

/-- a model coefficient as the Python number it stands for, and back -/
def toNum : Coef → Num
  | .real r => .real r
  | .cplx a b => .cplx a b
def ofNum : Num → Coef
  | .real r => .real r
  | .cplx a b => .cplx a b
@[simp] theorem ofNum_toNum (c : Coef) : ofNum (toNum c) = c := by cases c <;> rfl
@[simp] theorem toNum_ofNum (z : Num) : toNum (ofNum z) = z := by cases z <;> rfl
@[simp] theorem toNum_re (c : Coef) : (toNum c).re = c.re := by cases c <;> rfl
@[simp] theorem toNum_im (c : Coef) : (toNum c).im = c.im := by cases c <;> rfl

/-- the model's single error (`ValueError`) as the Python exception class -/
def liftE {α : Type} : Except Err α → Except Exc α
  | .ok v => .ok v
  | .error _ => .error .ValueError

/-- the model's `Option` results (`none` = `ValueError`) -/
def liftO {α : Type} : Option α → Except Exc α
  | some v => .ok v
  | none => .error .ValueError

theorem foldlExc_liftE {σ α : Type} (g : σ → α → Except Err σ) (l : List α) (acc : σ) :
    foldlExc (fun s x => liftE (g s x)) acc l = liftE (l.foldlM g acc) := by
  induction l generalizing acc with
  | nil => rfl
  | cons x xs ih =>
    simp only [foldlExc, List.foldlM_cons]
    cases h : g acc x with
    | error e => cases e; rfl
    | ok v => exact ih v

theorem mapExc_liftO {α β : Type} (g : α → Option β) (l : List α) :
    mapExc (fun x => liftO (g x)) l = liftO (l.mapM g) := by
  induction l with
  | nil => rfl
  | cons x xs ih =>
    simp only [mapExc, List.mapM_cons, ih]
    cases h : g x with
    | none => rfl
    | some v =>
      cases h2 : xs.mapM g with
      | none => rfl
      | some vs => rfl

theorem foldlExc_congr {σ α : Type} (f f' : σ → α → Except Exc σ) (h : ∀ s x, f s x = f' s x) (acc : σ) (l : List α) :
    foldlExc f acc l = foldlExc f' acc l := by
  have : f = f' := funext fun s => funext fun x => h s x
  rw [this]

theorem liftE_bind_ok {α : Type} (m : Except Err α) : (liftE m).bind (fun st => Except.ok st) = liftE m := by
  cases m with
  | error e => cases e; rfl
  | ok v => rfl

end OQ.C11
