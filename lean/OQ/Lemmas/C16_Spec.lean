import OQ.Model.C16
import OQ.Lemmas.Bridge
import OQ.Spec.Lift
import Mathlib.Algebra.BigOperators.Ring.Finset
import Mathlib.Data.Fintype.BigOperators
import Mathlib.Algebra.BigOperators.Pi
import Mathlib.Tactic.IntervalCases

set_option linter.unusedSectionVars false
namespace OQ.C16
open Matrix OQ.Spec

variable {R : Type} [CommRing R] {ι : Type} [Fintype ι] [DecidableEq ι]

/-- ⊗_q g_q on the bit-assignment basis -/
def tensor (g : ι → Matrix Bool Bool R) : Matrix (BV ι) (BV ι) R :=
  fun x y => ∏ q, g q (x q) (y q)

theorem tensor_mul (g h : ι → Matrix Bool Bool R) :
    tensor g * tensor h = tensor (fun q => g q * h q) := by
  ext x y
  simp only [tensor, Matrix.mul_apply]
  rw [Finset.prod_univ_sum]
  simp only [Fintype.piFinset_univ, Finset.prod_mul_distrib]

theorem tensor_one : tensor (fun _ : ι => (1 : Matrix Bool Bool R)) = 1 := by
  ext x y
  simp only [tensor, Matrix.one_apply]
  by_cases h : x = y
  · subst h; simp
  · rw [if_neg h]
    obtain ⟨q, hq⟩ := Function.ne_iff.mp h
    exact Finset.prod_eq_zero (Finset.mem_univ q) (by simp [hq])

theorem tensor_diagonal (d : ι → Bool → R) :
    tensor (fun q => Matrix.diagonal (d q)) = Matrix.diagonal (fun x => ∏ q, d q (x q)) := by
  ext x y
  simp only [tensor, Matrix.diagonal_apply]
  by_cases h : x = y
  · subst h; simp
  · rw [if_neg h]
    obtain ⟨q, hq⟩ := Function.ne_iff.mp h
    exact Finset.prod_eq_zero (Finset.mem_univ q) (by simp [hq])

/-- the permutation matrix sending the basis vector `y` to `f y` -/
def permM (f : BV ι → BV ι) : Matrix (BV ι) (BV ι) R := fun x y => if x = f y then 1 else 0

theorem permM_conj_diagonal (f : BV ι → BV ι) (hf : Function.Involutive f) (d : BV ι → R) :
    permM f * Matrix.diagonal d * permM f = Matrix.diagonal (d ∘ f) := by
  ext x y
  simp only [Matrix.mul_apply, permM, Matrix.diagonal_apply, Function.comp]
  simp only [mul_ite, mul_one, mul_zero, ite_mul, one_mul, zero_mul]
  rw [Finset.sum_eq_single (f y)]
  · rw [if_pos rfl, Finset.sum_eq_single (f y)]
    · simp only [if_true]
      by_cases h : x = y
      · subst h; simp [hf x]
      · have : x ≠ f (f y) := by rw [hf y]; exact h
        simp [h, this]
    · intro b _ hb; simp [hb]
    · simp
  · intro b _ hb; simp [hb]
  · simp

theorem permM_mul_self (f : BV ι → BV ι) (hf : Function.Involutive f) :
    permM f * permM f = (1 : Matrix (BV ι) (BV ι) R) := by
  have := permM_conj_diagonal (R := R) f hf (fun _ => 1)
  have h1 : Matrix.diagonal (fun _ : BV ι => (1 : R)) = 1 := Matrix.diagonal_one
  have h2 : (Matrix.diagonal ((fun _ : BV ι => (1 : R)) ∘ f)) = 1 := Matrix.diagonal_one
  rw [h1, h2, Matrix.mul_one] at this
  exact this

/-- the listed qubits / the others -/
def part (qs : List ι) : {q // q ∈ qs} ⊕ {q // ¬ q ∈ qs} ≃ ι := Equiv.sumCompl (fun q => q ∈ qs)

/-- index into a 2^k-dimensional executable matrix: bits of the listed qubits, first listed = most significant -/
def bitIndex {κ : Type} (qs : List κ) (x : κ → Bool) : Nat :=
  Lift.bitsToIndex (qs.map (fun q => if x q then 1 else 0))

def onBits (M : Mat R) (qs : List ι) : Matrix (BV {q // q ∈ qs}) (BV {q // q ∈ qs}) R :=
  fun x y => M.get (bitIndex qs.attach x) (bitIndex qs.attach y)

/-- "the gate with executable matrix `M` on the qubits `qs` of the register ι" -/
def gateOn (M : Mat R) (qs : List ι) : Matrix (BV ι) (BV ι) R := Spec.lift (part qs) (onBits M qs)

theorem gateOn_apply (M : Mat R) (qs : List ι) (x y : BV ι) :
    gateOn M qs x y = if (∀ m, m ∉ qs → x m = y m) then M.get (bitIndex qs x) (bitIndex qs y) else 0 := by
  unfold gateOn
  rw [lift_apply]
  have hc : (∀ m : {q // ¬ q ∈ qs}, x (part qs (Sum.inr m)) = y (part qs (Sum.inr m))) ↔ (∀ m, m ∉ qs → x m = y m) := by
    constructor
    · intro h m hm; exact h ⟨m, hm⟩
    · intro h m; exact h m.1 m.2
  have hb : ∀ z : BV ι, bitIndex qs.attach (fun k => z (part qs (Sum.inl k))) = bitIndex qs z := by
    intro z
    unfold bitIndex
    congr 1
    conv_rhs => rw [← List.attach_map_subtype_val qs]
    rw [List.map_map]
    apply List.map_congr_left
    intro q _
    rfl
  by_cases h : (∀ m, m ∉ qs → x m = y m)
  · rw [if_pos h, if_pos (hc.mpr h)]
    simp only [onBits, hb]
  · rw [if_neg h, if_neg (fun hh => h (hc.mp hh))]

theorem get_m2 (a b c d : R) (i j : Nat) (hi : i < 2) (hj : j < 2) :
    (Gates.m2 a b c d).get i j = if i = 0 then (if j = 0 then a else b) else (if j = 0 then c else d) := by
  unfold Gates.m2 Mat.ofLists
  rw [Mat.get_ofFn _ _ _ _ _ (by simpa using hi) (by simpa using hj)]
  interval_cases i <;> interval_cases j <;> simp

theorem cnot_get (i j : Nat) (hi : i < 4) (hj : j < 4) :
    (Gates.cnot : Mat R).get i j = if (i = j ∧ i < 2) ∨ (i = 2 ∧ j = 3) ∨ (i = 3 ∧ j = 2) then 1 else 0 := by
  unfold Gates.cnot Gates.m4 Mat.ofLists
  rw [Mat.get_ofFn _ _ _ _ _ (by simpa using hi) (by simpa using hj)]
  interval_cases i <;> interval_cases j <;> simp

/-- a 2×2 executable matrix read on Booleans (false ↦ row/column 0, true ↦ 1) -/
def toB (M : Mat R) : Matrix Bool Bool R := fun a b => M.get (if a then 1 else 0) (if b then 1 else 0)

/-- the single-qubit operator `m` on qubit `q`, identity elsewhere, as a tensor product -/
def on1 (q : ι) (m : Matrix Bool Bool R) : Matrix (BV ι) (BV ι) R :=
  tensor (Function.update (fun _ => (1 : Matrix Bool Bool R)) q m)

theorem on1_apply (q : ι) (m : Matrix Bool Bool R) (x y : BV ι) :
    on1 q m x y = if (∀ p, p ≠ q → x p = y p) then m (x q) (y q) else 0 := by
  unfold on1 tensor
  rw [← Finset.mul_prod_erase Finset.univ _ (Finset.mem_univ q)]
  simp only [Function.update_self]
  have : ∀ p ∈ Finset.univ.erase q,
      (Function.update (fun _ => (1 : Matrix Bool Bool R)) q m p) (x p) (y p) = if x p = y p then 1 else 0 := by
    intro p hp
    rw [Function.update_of_ne (Finset.ne_of_mem_erase hp), Matrix.one_apply]
  rw [Finset.prod_congr rfl this, Finset.prod_ite_zero]
  simp only [Finset.prod_const_one, Finset.mem_erase, Finset.mem_univ, and_true, mul_ite, mul_one, mul_zero]

theorem bitIndex_single {κ : Type} (q : κ) (x : κ → Bool) : bitIndex [q] x = if x q then 1 else 0 := by
  simp [bitIndex, Lift.bitsToIndex]

theorem bitIndex_pair {κ : Type} (a b : κ) (x : κ → Bool) :
    bitIndex [a, b] x = 2 * (if x a then 1 else 0) + (if x b then 1 else 0) := by
  simp [bitIndex, Lift.bitsToIndex]

theorem gateOn_single (M : Mat R) (q : ι) : gateOn M [q] = on1 q (toB M) := by
  ext x y
  rw [gateOn_apply, on1_apply]
  simp only [List.mem_singleton, bitIndex_single, toB]

/-- the action of CNOT(a, b) on bit assignments: the target `b` receives `x a xor x b` -/
def cnotMap (a b : ι) (x : BV ι) : BV ι := Function.update x b (xor (x a) (x b))

theorem cnotMap_involutive (a b : ι) (hab : a ≠ b) : Function.Involutive (cnotMap a b) := by
  intro x
  funext p
  unfold cnotMap
  by_cases hp : p = b
  · subst hp; simp [Function.update_of_ne hab]
  · simp [Function.update_of_ne hp]

theorem gateOn_cnot (a b : ι) (hab : a ≠ b) :
    gateOn (Gates.cnot : Mat R) [a, b] = permM (cnotMap a b) := by
  ext x y
  rw [gateOn_apply]
  unfold permM
  simp only [bitIndex_pair]
  by_cases h : ∀ m, m ∉ [a, b] → x m = y m
  · rw [if_pos h]
    have hx : x = cnotMap a b y ↔ (x a = y a ∧ x b = xor (y a) (y b)) := by
      constructor
      · intro hh; subst hh; simp [cnotMap, Function.update_of_ne hab]
      · intro ⟨h1, h2⟩
        funext p
        unfold cnotMap
        by_cases hp : p = b
        · subst hp; simp [h2]
        · rw [Function.update_of_ne hp]
          by_cases hpa : p = a
          · subst hpa; exact h1
          · exact h p (by simp [hpa, hp])
    rw [cnot_get _ _ (by split_ifs <;> omega) (by split_ifs <;> omega)]
    simp only [hx]
    cases x a <;> cases x b <;> cases y a <;> cases y b <;> simp
  · rw [if_neg h, if_neg]
    intro hh; apply h; intro m hm
    subst hh
    simp only [List.mem_cons, List.not_mem_nil, or_false, not_or] at hm
    simp [cnotMap, Function.update_of_ne hm.2]


end OQ.C16
