/- helper lemmas and specification vocabulary for C14 (not property theorems) -/
import OQ.Model.C14
import Mathlib.Tactic.Linarith
import Mathlib.Data.List.Forall2
import Mathlib.Data.List.Count
import Mathlib.Algebra.BigOperators.Group.List.Basic
namespace OQ.C14

/-! ## specification vocabulary -/

/-- the invalid requests named by the property -/
def Call.badArgs : Call → Prop
  | .run _ n => n ≤ 0
  | .batch _ (.one n) => n ≤ 0
  | .batch cs (.many ns) => ns.length ≠ cs.length ∨ ∃ n ∈ ns, n ≤ 0
  | .dist _ (some n) => n ≤ 0
  | .dist _ none => False

theorem Leaf.run_reject (ext : Ext) (l : Leaf) (c : Circ) (n : Int) (h : n ≤ 0) :
    l.run ext c n = (l, .err .value) := by
  simp [Leaf.run, h]

theorem Runner.run_reject (ext : Ext) (r : Runner) (c : Circ) (n : Int) (h : n ≤ 0) :
    r.run ext c n = (r, .err .value) := by
  cases r with
  | leaf l => simp [Runner.run, Leaf.run_reject ext l c n h]
  | tracker inner bits k raw file => simp [Runner.run, h]

theorem Leaf.batch_reject (ext : Ext) (l : Leaf) (cs : List Circ) (ns : NSpec)
    (h : (Call.batch cs ns).badArgs) :
    l.batch ext cs ns = (l, .err .value) := by
  cases ns with
  | one n =>
    simp only [Call.badArgs] at h
    simp [Leaf.batch, samplesPerCircuit, scalarNonPos, h]
  | many ns =>
    simp only [Call.badArgs] at h
    by_cases hl : ns.length = cs.length
    · rcases h with h | ⟨x, hx, hx0⟩
      · exact absurd hl h
      · have : ns.any (fun n => n ≤ 0) = true := List.any_eq_true.mpr ⟨x, hx, by simpa using hx0⟩
        simp [Leaf.batch, samplesPerCircuit, hl, this]
    · simp [Leaf.batch, samplesPerCircuit, hl]

theorem Runner.batch_reject (ext : Ext) (r : Runner) (cs : List Circ) (ns : NSpec)
    (h : (Call.batch cs ns).badArgs) :
    r.batch ext cs ns = (r, .err .value) := by
  induction r with
  | leaf l => simp [Runner.batch, Leaf.batch_reject ext l cs ns h]
  | tracker inner bits k raw file ih => simp [Runner.batch, ih]

theorem Leaf.dist_reject (ext : Ext) (l : Leaf) (c : Circ) (n : Int) (h : n ≤ 0) :
    l.dist ext c (some n) = (l, .err .value) := by
  simp [Leaf.dist, Leaf.run_reject ext l c n h]

theorem Runner.dist_reject (ext : Ext) (r : Runner) (c : Circ) (n : Int) (h : n ≤ 0) :
    r.dist ext c (some n) = (r, .err .value) := by
  induction r with
  | leaf l => simp [Runner.dist, Leaf.dist_reject ext l c n h]
  | tracker inner bits k raw file ih => simp [Runner.dist, ih]

theorem step_reject (ext : Ext) (r : Runner) (call : Call) (h : call.badArgs) :
    step ext r call = (r, .error .value) := by
  cases call with
  | run c n => simp [step, Runner.run_reject ext r c n h]
  | batch cs ns => simp [step, Runner.batch_reject ext r cs ns h]
  | dist c n =>
    cases n with
    | none => exact absurd h (by simp [Call.badArgs])
    | some n => simp [step, Runner.dist_reject ext r c n h]


/-! ## counters: exact effect of the building blocks -/

theorem countSegments_eq (k : Counters) (l : List Bool) :
    countSegments k l = ⟨k.nCircuits + l.count true, k.nJobs + l.length⟩ := by
  induction l generalizing k with
  | nil => simp [countSegments]
  | cons b l ih =>
    cases b <;> simp [countSegments, ih] <;> omega

/-- number of segments / of natively supported segments of a circuit for a simulator -/
def segJobs (a : Bool) (c : Circ) : Nat := (segKeys (nativeFlags a c)).length
def segCircuits (a : Bool) (c : Circ) : Nat := (segKeys (nativeFlags a c)).count true

theorem getWavefunction_eq (a : Bool) (k : Counters) (c : Circ) :
    getWavefunction a k c = ⟨k.nCircuits + segCircuits a c, k.nJobs + segJobs a c⟩ := by
  simp [getWavefunction, countSegments_eq, segJobs, segCircuits]

/-- circuits / jobs one successful single run adds to the counters of a base-class runner -/
def workC : Kind → Circ → Nat
  | .base, _ => 1
  | .sim a, c => segCircuits a c
def workJ : Kind → Circ → Nat
  | .base, _ => 1
  | .sim a, c => segJobs a c

/-- what the external produced at invocation `k` for `(c, n)` -/
def Produced (ext : Ext) : Kind → Nat → Circ → Int → List Shot → Prop
  | .base, k, c, n, m => ext.exec k c n = .ok m
  | .sim _, k, c, n, m => c.symbolic = false ∧ m = sampleShots ext k c n

/-- a single run that failed although its arguments were valid: the external raised (base) or the
    circuit has free symbols (simulator) -/
def ExecFails (ext : Ext) : Kind → Nat → Circ → Int → Err → Prop
  | .base, k, c, n, e => ext.exec k c n = .err e
  | .sim _, _, c, _, e => c.symbolic = true ∧ e = .value

theorem Leaf.run_ok (ext : Ext) (l l' : Leaf) (c : Circ) (n : Int) (m : List Shot)
    (h : l.run ext c n = (l', .ok m)) :
    0 < n ∧ Produced ext l.kind l.calls c n m ∧ l'.kind = l.kind ∧ l'.calls = l.calls + 1 ∧
    l'.k.nCircuits = l.k.nCircuits + workC l.kind c ∧ l'.k.nJobs = l.k.nJobs + workJ l.kind c := by
  unfold Leaf.run at h
  by_cases hn : n ≤ 0
  · simp [hn] at h
  · simp only [hn, if_false] at h
    obtain ⟨kind, k, calls⟩ := l
    cases kind with
    | base =>
      simp only at h
      cases hx : ext.exec calls c n with
      | err e => simp [hx] at h
      | ok m' =>
        simp only [hx, Prod.mk.injEq, Outcome.ok.injEq] at h
        obtain ⟨rfl, rfl⟩ := h
        simp [Produced, workC, workJ, hx]; omega
    | sim a =>
      simp only at h
      by_cases hs : c.symbolic = true
      · simp [hs] at h
      · simp only [hs] at h
        obtain ⟨rfl, rfl⟩ := h
        simp [Produced, workC, workJ, getWavefunction_eq, hs]; omega

theorem Leaf.run_err (ext : Ext) (l l' : Leaf) (c : Circ) (n : Int) (e : Err)
    (h : l.run ext c n = (l', .err e)) :
    (n ≤ 0 ∧ e = .value ∧ l' = l) ∨
    (0 < n ∧ ExecFails ext l.kind l.calls c n e ∧ l'.kind = l.kind ∧ l'.k = l.k ∧ l.calls ≤ l'.calls) := by
  unfold Leaf.run at h
  by_cases hn : n ≤ 0
  · simp only [hn, if_true, Prod.mk.injEq, Outcome.err.injEq] at h
    exact Or.inl ⟨hn, h.2.symm, h.1.symm⟩
  · simp only [hn, if_false] at h
    right
    obtain ⟨kind, k, calls⟩ := l
    cases kind with
    | base =>
      simp only at h
      cases hx : ext.exec calls c n with
      | ok m' => simp [hx] at h
      | err e' =>
        simp only [hx, Prod.mk.injEq, Outcome.err.injEq] at h
        obtain ⟨rfl, rfl⟩ := h
        simp [ExecFails, hx]; omega
    | sim a =>
      simp only at h
      by_cases hs : c.symbolic = true
      · simp only [hs, if_true, Prod.mk.injEq, Outcome.err.injEq] at h
        obtain ⟨rfl, rfl⟩ := h
        simp [ExecFails, hs]; omega
      · simp [hs] at h


/-- `ms` are the results of running the requests `ps` one after the other, the first one at external
    invocation `k`: the i-th result is what the i-th invocation, made for the i-th circuit with the
    i-th sample count, produced. -/
inductive InOrder (ext : Ext) (kind : Kind) : Nat → List (Circ × Int) → List (List Shot) → Prop
  | nil (k : Nat) : InOrder ext kind k [] []
  | cons {k : Nat} {c : Circ} {n : Int} {m : List Shot} {ps : List (Circ × Int)} {ms : List (List Shot)} :
      0 < n → Produced ext kind k c n m → InOrder ext kind (k + 1) ps ms →
      InOrder ext kind k ((c, n) :: ps) (m :: ms)

def sumC (kind : Kind) (ps : List (Circ × Int)) : Nat := (ps.map (fun p => workC kind p.1)).sum
def sumJ (kind : Kind) (ps : List (Circ × Int)) : Nat := (ps.map (fun p => workJ kind p.1)).sum

theorem InOrder.length {ext : Ext} {kind : Kind} {k : Nat} {ps : List (Circ × Int)} {ms : List (List Shot)}
    (h : InOrder ext kind k ps ms) : ms.length = ps.length := by
  induction h with
  | nil k => rfl
  | cons _ _ _ ih => simp [ih]

theorem runEach_leaf_ok (ext : Ext) (ps : List (Circ × Int)) (l l' : Leaf) (ms : List (List Shot))
    (h : runEach (Leaf.run ext) l ps = (l', .ok ms)) :
    InOrder ext l.kind l.calls ps ms ∧ l'.kind = l.kind ∧ l'.calls = l.calls + ps.length ∧
    l'.k.nCircuits = l.k.nCircuits + sumC l.kind ps ∧ l'.k.nJobs = l.k.nJobs + sumJ l.kind ps := by
  induction ps generalizing l ms with
  | nil =>
    simp only [runEach, Prod.mk.injEq, Outcome.ok.injEq] at h
    obtain ⟨rfl, rfl⟩ := h
    exact ⟨InOrder.nil _, rfl, rfl, by simp [sumC], by simp [sumJ]⟩
  | cons p ps ih =>
    obtain ⟨c, n⟩ := p
    simp only [runEach] at h
    rcases h1 : l.run ext c n with ⟨l1, o1⟩
    rw [h1] at h
    cases o1 with
    | err e => simp at h
    | ok m =>
      simp only at h
      rcases h2 : runEach (Leaf.run ext) l1 ps with ⟨l2, o2⟩
      rw [h2] at h
      cases o2 with
      | err e => simp at h
      | ok ms' =>
        simp only [Prod.mk.injEq, Outcome.ok.injEq] at h
        obtain ⟨rfl, rfl⟩ := h
        obtain ⟨hn, hp, hk, hc, hC, hJ⟩ := Leaf.run_ok ext l l1 c n m h1
        obtain ⟨io, hk2, hc2, hC2, hJ2⟩ := ih l1 ms' h2
        rw [hk, hc] at io
        refine ⟨InOrder.cons hn hp io, by rw [hk2, hk], ?_, ?_, ?_⟩
        · rw [hc2, hc]; simp only [List.length_cons]; omega
        · rw [hC2, hC, hk]; simp only [sumC, List.map_cons, List.sum_cons]; omega
        · rw [hJ2, hJ, hk]; simp only [sumJ, List.map_cons, List.sum_cons]; omega

theorem runEach_leaf_err (ext : Ext) (ps : List (Circ × Int)) (l l' : Leaf) (e : Err)
    (hpos : ∀ p ∈ ps, 0 < p.2)
    (h : runEach (Leaf.run ext) l ps = (l', .err e)) :
    ∃ done p rest ms, ps = done ++ p :: rest ∧ InOrder ext l.kind l.calls done ms ∧
      ExecFails ext l.kind (l.calls + done.length) p.1 p.2 e ∧ l'.kind = l.kind ∧
      l'.k.nCircuits = l.k.nCircuits + sumC l.kind done ∧ l'.k.nJobs = l.k.nJobs + sumJ l.kind done := by
  induction ps generalizing l with
  | nil => simp [runEach] at h
  | cons p ps ih =>
    obtain ⟨c, n⟩ := p
    simp only [runEach] at h
    rcases h1 : l.run ext c n with ⟨l1, o1⟩
    rw [h1] at h
    cases o1 with
    | err e1 =>
      simp only [Prod.mk.injEq, Outcome.err.injEq] at h
      obtain ⟨rfl, rfl⟩ := h
      rcases Leaf.run_err ext l l1 c n e1 h1 with ⟨hn, _, _⟩ | ⟨_, hf, hk, hkk, _⟩
      · have := hpos (c, n) (by simp); simp only at this; omega
      · exact ⟨[], (c, n), ps, [], by simp, InOrder.nil _, by simpa using hf, hk,
          by simp [sumC, hkk], by simp [sumJ, hkk]⟩
    | ok m =>
      simp only at h
      rcases h2 : runEach (Leaf.run ext) l1 ps with ⟨l2, o2⟩
      rw [h2] at h
      cases o2 with
      | ok ms' => simp at h
      | err e2 =>
        simp only [Prod.mk.injEq, Outcome.err.injEq] at h
        obtain ⟨rfl, rfl⟩ := h
        obtain ⟨hn, hp, hk, hc, hC, hJ⟩ := Leaf.run_ok ext l l1 c n m h1
        obtain ⟨done, p, rest, ms, hps, io, hf, hk2, hC2, hJ2⟩ :=
          ih l1 (fun q hq => hpos q (by simp [hq])) h2
        rw [hk, hc] at io
        rw [hk, hc] at hf
        refine ⟨(c, n) :: done, p, rest, m :: ms, by simp [hps], InOrder.cons hn hp io, ?_, by rw [hk2, hk], ?_, ?_⟩
        · have : l.calls + ((c, n) :: done).length = l.calls + 1 + done.length := by
            simp only [List.length_cons]; omega
          rw [this]; exact hf
        · rw [hC2, hC, hk]; simp only [sumC, List.map_cons, List.sum_cons]; omega
        · rw [hJ2, hJ, hk]; simp only [sumJ, List.map_cons, List.sum_cons]; omega


theorem sum_map_fst_zip {α β : Type} (f : α → Nat) (xs : List α) (ys : List β) (h : ys.length = xs.length) :
    ((xs.zip ys).map (fun p => f p.1)).sum = (xs.map f).sum := by
  induction xs generalizing ys with
  | nil => simp
  | cons x xs ih =>
    cases ys with
    | nil => simp at h
    | cons y ys =>
      simp only [List.length_cons, Nat.add_right_cancel_iff] at h
      simp [ih ys h]

/-- the per-circuit sample counts pass the validation of `run_batch_and_measure` -/
def ValidBatch (cs : List Circ) (ns : NSpec) : Prop :=
  (samplesPerCircuit cs ns).length = cs.length ∧ (∀ n ∈ samplesPerCircuit cs ns, 0 < n) ∧
  scalarNonPos ns = false

theorem Leaf.batch_valid (ext : Ext) (l : Leaf) (cs : List Circ) (ns : NSpec) (h : ValidBatch cs ns) :
    l.batch ext cs ns = runEach (Leaf.run ext) l (cs.zip (samplesPerCircuit cs ns)) := by
  have h2 : (samplesPerCircuit cs ns).any (fun n => n ≤ 0) = false := by
    rw [List.any_eq_false]; intro x hx; have := h.2.1 x hx; simp; omega
  simp [Leaf.batch, h.1, h2, h.2.2]

theorem Leaf.batch_invalid (ext : Ext) (l : Leaf) (cs : List Circ) (ns : NSpec) (h : ¬ ValidBatch cs ns) :
    l.batch ext cs ns = (l, .err .value) := by
  unfold Leaf.batch
  by_cases h1 : (samplesPerCircuit cs ns).length = cs.length
  · have h2 : (scalarNonPos ns || (samplesPerCircuit cs ns).any (fun n => n ≤ 0)) = true := by
      by_contra hc
      simp only [Bool.or_eq_true, not_or, Bool.not_eq_true] at hc
      apply h
      refine ⟨h1, fun n hn => ?_, hc.1⟩
      by_contra hn0
      have hany : (samplesPerCircuit cs ns).any (fun n => n ≤ 0) = true :=
        List.any_eq_true.mpr ⟨n, hn, by simp; omega⟩
      rw [hc.2] at hany; exact absurd hany (by simp)
    simp [h1, h2]
  · simp [h1]

theorem mem_zip_snd_pos (cs : List Circ) (spc : List Int) (h : ∀ n ∈ spc, 0 < n) :
    ∀ p ∈ cs.zip spc, 0 < p.2 := by
  intro p hp
  exact h p.2 (List.of_mem_zip hp).2

theorem Leaf.batch_ok (ext : Ext) (l l' : Leaf) (cs : List Circ) (ns : NSpec) (ms : List (List Shot))
    (h : l.batch ext cs ns = (l', .ok ms)) :
    ValidBatch cs ns ∧ InOrder ext l.kind l.calls (cs.zip (samplesPerCircuit cs ns)) ms ∧
    ms.length = cs.length ∧ l'.kind = l.kind ∧ l'.calls = l.calls + cs.length ∧
    l'.k.nCircuits = l.k.nCircuits + (cs.map (workC l.kind)).sum ∧
    l'.k.nJobs = l.k.nJobs + (cs.map (workJ l.kind)).sum := by
  by_cases hv : ValidBatch cs ns
  · rw [Leaf.batch_valid ext l cs ns hv] at h
    obtain ⟨io, hk, hc, hC, hJ⟩ := runEach_leaf_ok ext _ l l' ms h
    have hz : (cs.zip (samplesPerCircuit cs ns)).length = cs.length := by simp [hv.1]
    refine ⟨hv, io, by rw [io.length, hz], hk, by rw [hc, hz], ?_, ?_⟩
    · rw [hC, sumC, sum_map_fst_zip _ _ _ hv.1]
    · rw [hJ, sumJ, sum_map_fst_zip _ _ _ hv.1]
  · rw [Leaf.batch_invalid ext l cs ns hv] at h; simp at h

theorem Leaf.batch_err (ext : Ext) (l l' : Leaf) (cs : List Circ) (ns : NSpec) (e : Err)
    (h : l.batch ext cs ns = (l', .err e)) :
    (¬ ValidBatch cs ns ∧ e = .value ∧ l' = l) ∨
    (ValidBatch cs ns ∧ ∃ done p rest ms, cs.zip (samplesPerCircuit cs ns) = done ++ p :: rest ∧
      InOrder ext l.kind l.calls done ms ∧ ExecFails ext l.kind (l.calls + done.length) p.1 p.2 e ∧
      l'.kind = l.kind ∧ l'.k.nCircuits = l.k.nCircuits + sumC l.kind done ∧
      l'.k.nJobs = l.k.nJobs + sumJ l.kind done) := by
  by_cases hv : ValidBatch cs ns
  · rw [Leaf.batch_valid ext l cs ns hv] at h
    exact Or.inr ⟨hv, runEach_leaf_err ext _ l l' e (mem_zip_snd_pos _ _ hv.2.1) h⟩
  · rw [Leaf.batch_invalid ext l cs ns hv] at h
    simp only [Prod.mk.injEq, Outcome.err.injEq] at h
    exact Or.inl ⟨hv, h.2.symm, h.1.symm⟩

/-! ## monotonicity -/

/-- same kind of runner, no counter smaller -/
def Leaf.Grows (l l' : Leaf) : Prop :=
  l'.kind = l.kind ∧ l.k.nCircuits ≤ l'.k.nCircuits ∧ l.k.nJobs ≤ l'.k.nJobs

theorem Leaf.Grows.refl (l : Leaf) : l.Grows l := ⟨rfl, Nat.le_refl _, Nat.le_refl _⟩
theorem Leaf.Grows.trans {a b c : Leaf} (h1 : a.Grows b) (h2 : b.Grows c) : a.Grows c :=
  ⟨h2.1.trans h1.1, Nat.le_trans h1.2.1 h2.2.1, Nat.le_trans h1.2.2 h2.2.2⟩

theorem Leaf.run_grows (ext : Ext) (l : Leaf) (c : Circ) (n : Int) : l.Grows (l.run ext c n).1 := by
  rcases h : l.run ext c n with ⟨l', o⟩
  cases o with
  | ok m =>
    obtain ⟨_, _, hk, _, hC, hJ⟩ := Leaf.run_ok ext l l' c n m h
    exact ⟨hk, by simp only; omega, by simp only; omega⟩
  | err e =>
    rcases Leaf.run_err ext l l' c n e h with ⟨_, _, rfl⟩ | ⟨_, _, hk, hkk, _⟩
    · exact Leaf.Grows.refl _
    · exact ⟨hk, by simp [hkk], by simp [hkk]⟩

theorem Leaf.batch_grows (ext : Ext) (l : Leaf) (cs : List Circ) (ns : NSpec) : l.Grows (l.batch ext cs ns).1 := by
  rcases h : l.batch ext cs ns with ⟨l', o⟩
  cases o with
  | ok ms =>
    obtain ⟨_, _, _, hk, _, hC, hJ⟩ := Leaf.batch_ok ext l l' cs ns ms h
    exact ⟨hk, by simp only; omega, by simp only; omega⟩
  | err e =>
    rcases Leaf.batch_err ext l l' cs ns e h with ⟨_, _, rfl⟩ | ⟨_, done, p, rest, ms, _, _, _, hk, hC, hJ⟩
    · exact Leaf.Grows.refl _
    · exact ⟨hk, by simp only; omega, by simp only; omega⟩

theorem Leaf.dist_grows (ext : Ext) (l : Leaf) (c : Circ) (n : Option Int) : l.Grows (l.dist ext c n).1 := by
  cases n with
  | some n =>
    have := Leaf.run_grows ext l c n
    rcases h : l.run ext c n with ⟨l', o⟩
    rw [h] at this
    cases o <;> simp only [Leaf.dist, h] <;> exact this
  | none =>
    obtain ⟨kind, k, calls⟩ := l
    cases kind with
    | base => simp only [Leaf.dist]; exact Leaf.Grows.refl _
    | sim a =>
      simp only [Leaf.dist]
      by_cases hs : c.symbolic = true <;> simp [hs, Leaf.Grows, getWavefunction_eq]

/-- the same chain of runners, no counter of any of them smaller -/
def Runner.Grows : Runner → Runner → Prop
  | .leaf a, .leaf b => a.Grows b
  | .tracker i b k _ _, .tracker i' b' k' _ _ =>
    b' = b ∧ k.nCircuits ≤ k'.nCircuits ∧ k.nJobs ≤ k'.nJobs ∧ i.Grows i'
  | _, _ => False

theorem Runner.Grows.refl (r : Runner) : r.Grows r := by
  induction r with
  | leaf l => exact Leaf.Grows.refl l
  | tracker inner bits k raw file ih => exact ⟨rfl, Nat.le_refl _, Nat.le_refl _, ih⟩

theorem Runner.Grows.trans {a b c : Runner} (h1 : a.Grows b) (h2 : b.Grows c) : a.Grows c := by
  induction a generalizing b c with
  | leaf l =>
    cases b <;> cases c <;> simp only [Runner.Grows] at h1 h2 ⊢
    exact Leaf.Grows.trans h1 h2
  | tracker inner bits k raw file ih =>
    cases b <;> cases c <;> simp only [Runner.Grows] at h1 h2 ⊢
    exact ⟨h2.1.trans h1.1, Nat.le_trans h1.2.1 h2.2.1, Nat.le_trans h1.2.2.1 h2.2.2.1, ih h1.2.2.2 h2.2.2.2⟩

theorem Runner.run_grows (ext : Ext) (r : Runner) (c : Circ) (n : Int) : r.Grows (r.run ext c n).1 := by
  induction r with
  | leaf l => exact Leaf.run_grows ext l c n
  | tracker inner bits k raw file ih =>
    simp only [Runner.run]
    by_cases hn : n ≤ 0
    · simp only [hn, if_true]; exact Runner.Grows.refl _
    · simp only [hn, if_false]
      rcases h : inner.run ext c n with ⟨i', o⟩
      rw [h] at ih
      cases o with
      | ok m => exact ⟨rfl, by simp, by simp, ih⟩
      | err e => exact ⟨rfl, Nat.le_refl _, Nat.le_refl _, ih⟩

theorem Runner.batch_grows (ext : Ext) (r : Runner) (cs : List Circ) (ns : NSpec) : r.Grows (r.batch ext cs ns).1 := by
  induction r with
  | leaf l => exact Leaf.batch_grows ext l cs ns
  | tracker inner bits k raw file ih =>
    simp only [Runner.batch]
    rcases h : inner.batch ext cs ns with ⟨i', o⟩
    rw [h] at ih
    cases o with
    | ok m => exact ⟨rfl, by simp, by simp, ih⟩
    | err e => exact ⟨rfl, Nat.le_refl _, Nat.le_refl _, ih⟩

theorem Runner.dist_grows (ext : Ext) (r : Runner) (c : Circ) (n : Option Int) : r.Grows (r.dist ext c n).1 := by
  induction r with
  | leaf l => exact Leaf.dist_grows ext l c n
  | tracker inner bits k raw file ih =>
    simp only [Runner.dist]
    rcases h : inner.dist ext c n with ⟨i', o⟩
    rw [h] at ih
    cases o with
    | ok m => exact ⟨rfl, Nat.le_refl _, Nat.le_refl _, ih⟩
    | err e => exact ⟨rfl, Nat.le_refl _, Nat.le_refl _, ih⟩

theorem step_grows (ext : Ext) (r : Runner) (call : Call) : r.Grows (step ext r call).1 := by
  cases call with
  | run c n =>
    have := Runner.run_grows ext r c n
    simp only [step]; rcases h : r.run ext c n with ⟨r', o⟩; rw [h] at this; cases o <;> exact this
  | batch cs ns =>
    have := Runner.batch_grows ext r cs ns
    simp only [step]; rcases h : r.batch ext cs ns with ⟨r', o⟩; rw [h] at this; cases o <;> exact this
  | dist c n =>
    have := Runner.dist_grows ext r c n
    simp only [step]; rcases h : r.dist ext c n with ⟨r', o⟩; rw [h] at this; cases o <;> exact this

theorem runAll_grows (ext : Ext) (r : Runner) (calls : List Call) : r.Grows (runAll ext r calls).1 := by
  induction calls generalizing r with
  | nil => exact Runner.Grows.refl r
  | cons call rest ih =>
    simp only [runAll]
    exact Runner.Grows.trans (step_grows ext r call) (ih _)


/-! ## `format(i, "0nb")` -/

theorem binDigits_length_le (f i n : Nat) (hn : 1 ≤ n) (hi : i < 2 ^ n) : (binDigits f i).length ≤ n := by
  induction f generalizing i n with
  | zero => simpa [binDigits] using hn
  | succ f ih =>
    unfold binDigits
    by_cases h2 : i < 2
    · simpa [h2] using hn
    · simp only [h2, if_false, List.length_append, List.length_singleton]
      have hn2 : 2 ≤ n := by
        by_contra hc
        have : n = 1 := by omega
        subst this; simp at hi; omega
      have : i / 2 < 2 ^ (n - 1) := by
        have hp : 2 ^ n = 2 ^ (n - 1) * 2 := by
          rw [← Nat.pow_succ]; congr 1; omega
        omega
      have := ih (i / 2) (n - 1) (by omega) this
      omega

theorem formatBin_length (i n : Nat) (hn : 1 ≤ n) (hi : i < 2 ^ n) : (formatBin i n).length = n := by
  have := binDigits_length_le i i n hn hi
  simp only [formatBin, List.length_append, List.length_replicate]
  omega

theorem formatBin_length_ge (i n : Nat) : n ≤ (formatBin i n).length := by
  simp only [formatBin, List.length_append, List.length_replicate]
  omega

/-- a sampled tuple is exactly as long as the register – for every width, zero included -/
theorem outcomeTuple_length (i n : Nat) : (outcomeTuple i n).length = n := by
  have := formatBin_length_ge i n
  simp only [outcomeTuple, List.length_reverse, List.length_take]
  omega

/-- for a register of at least one qubit and an index in range the slice changes nothing -/
theorem outcomeTuple_eq_formatBin (i n : Nat) (hn : 1 ≤ n) (hi : i < 2 ^ n) : outcomeTuple i n = formatBin i n := by
  have := formatBin_length i n hn hi
  simp only [outcomeTuple]
  rw [List.take_of_length_le (by simp [this]), List.reverse_reverse]

/-! ## shape of results -/

/-- at least `n` shots, each as long as the register of `c` -/
def ShotsOK (c : Circ) (n : Int) (m : List Shot) : Prop :=
  n ≤ (m.length : Int) ∧ ∀ s ∈ m, s.length = c.width

/-- assumed law of the abstract `_run_and_measure`: for a positive request it returns at least that
    many shots, each a tuple over the circuit's register -/
def ExecLaw (ext : Ext) : Prop :=
  ∀ k c n m, 0 < n → ext.exec k c n = .ok m → ShotsOK c n m

/-- assumed law of `rng.choice(a, size=n, p)`: exactly `n` items, each an index of `a`
    (`a` = the `2 ** n_qubits` basis states) -/
def DrawLaw (ext : Ext) : Prop :=
  ∀ k c n, 0 < n → ((ext.draw k c n).length : Int) = n ∧ ∀ i ∈ ext.draw k c n, i < 2 ^ c.width

theorem Produced.shape {ext : Ext} {kind : Kind} {k : Nat} {c : Circ} {n : Int} {m : List Shot}
    (h : Produced ext kind k c n m) (hn : 0 < n) (he : ExecLaw ext) (hd : DrawLaw ext) :
    ShotsOK c n m := by
  cases kind with
  | base => exact he k c n m hn h
  | sim a =>
    obtain ⟨_, rfl⟩ := h
    obtain ⟨h1, _⟩ := hd k c n hn
    refine ⟨by simp [sampleShots, h1], ?_⟩
    intro s hs
    simp only [sampleShots, List.mem_map] at hs
    obtain ⟨i, _, rfl⟩ := hs
    exact outcomeTuple_length i c.width

theorem InOrder.shape {ext : Ext} {kind : Kind} {k : Nat} {ps : List (Circ × Int)} {ms : List (List Shot)}
    (h : InOrder ext kind k ps ms) (he : ExecLaw ext) (hd : DrawLaw ext) :
    List.Forall₂ (fun p m => ShotsOK p.1 p.2 m) ps ms := by
  induction h with
  | nil k => exact List.Forall₂.nil
  | cons hn hp _ ih => exact List.Forall₂.cons (hp.shape hn he hd) ih

/-! ## every runner answers what the base-class runner at the bottom of the chain answers -/

theorem Runner.run_leaf (ext : Ext) (r : Runner) (c : Circ) (n : Int) :
    (r.run ext c n).2 = (r.leafOf.run ext c n).2 ∧ (r.run ext c n).1.leafOf = (r.leafOf.run ext c n).1 := by
  induction r with
  | leaf l => simp [Runner.run, Runner.leafOf]
  | tracker inner bits k raw file ih =>
    simp only [Runner.run, Runner.leafOf]
    by_cases hn : n ≤ 0
    · simp [hn, Leaf.run_reject ext _ c n hn, Runner.leafOf]
    · simp only [hn, if_false]
      rcases h : inner.run ext c n with ⟨i', o⟩
      rw [h] at ih
      cases o <;> exact ⟨ih.1, by simpa [Runner.leafOf] using ih.2⟩

theorem Runner.batch_leaf (ext : Ext) (r : Runner) (cs : List Circ) (ns : NSpec) :
    (r.batch ext cs ns).2 = (r.leafOf.batch ext cs ns).2 ∧
    (r.batch ext cs ns).1.leafOf = (r.leafOf.batch ext cs ns).1 := by
  induction r with
  | leaf l => simp [Runner.batch, Runner.leafOf]
  | tracker inner bits k raw file ih =>
    simp only [Runner.batch, Runner.leafOf]
    rcases h : inner.batch ext cs ns with ⟨i', o⟩
    rw [h] at ih
    cases o <;> exact ⟨ih.1, by simpa [Runner.leafOf] using ih.2⟩

theorem Runner.dist_leaf (ext : Ext) (r : Runner) (c : Circ) (n : Option Int) :
    (r.dist ext c n).2 = (r.leafOf.dist ext c n).2 ∧ (r.dist ext c n).1.leafOf = (r.leafOf.dist ext c n).1 := by
  induction r with
  | leaf l => simp [Runner.dist, Runner.leafOf]
  | tracker inner bits k raw file ih =>
    simp only [Runner.dist, Runner.leafOf]
    rcases h : inner.dist ext c n with ⟨i', o⟩
    rw [h] at ih
    cases o <;> exact ⟨ih.1, by simpa [Runner.leafOf] using ih.2⟩

/-- the runner a tracker wraps -/
def Runner.inner? : Runner → Option Runner
  | .leaf _ => none
  | .tracker inner _ _ _ _ => some inner

theorem tracker_run_forward (ext : Ext) (inner : Runner) (bits : Bool) (k : Counters) (raw file : List Record)
    (c : Circ) (n : Int) :
    ((Runner.tracker inner bits k raw file).run ext c n).2 = (inner.run ext c n).2 ∧
    ((Runner.tracker inner bits k raw file).run ext c n).1.inner? = some (inner.run ext c n).1 := by
  simp only [Runner.run]
  by_cases hn : n ≤ 0
  · simp [hn, Runner.run_reject ext inner c n hn, Runner.inner?]
  · simp only [hn, if_false]
    rcases h : inner.run ext c n with ⟨i', o⟩
    cases o <;> simp [Runner.inner?]

theorem tracker_batch_forward (ext : Ext) (inner : Runner) (bits : Bool) (k : Counters) (raw file : List Record)
    (cs : List Circ) (ns : NSpec) :
    ((Runner.tracker inner bits k raw file).batch ext cs ns).2 = (inner.batch ext cs ns).2 ∧
    ((Runner.tracker inner bits k raw file).batch ext cs ns).1.inner? = some (inner.batch ext cs ns).1 := by
  simp only [Runner.batch]
  rcases h : inner.batch ext cs ns with ⟨i', o⟩
  cases o <;> simp [Runner.inner?]

theorem tracker_dist_forward (ext : Ext) (inner : Runner) (bits : Bool) (k : Counters) (raw file : List Record)
    (c : Circ) (n : Option Int) :
    ((Runner.tracker inner bits k raw file).dist ext c n).2 = (inner.dist ext c n).2 ∧
    ((Runner.tracker inner bits k raw file).dist ext c n).1.inner? = some (inner.dist ext c n).1 := by
  simp only [Runner.dist]
  rcases h : inner.dist ext c n with ⟨i', o⟩
  cases o <;> simp [Runner.inner?]


/-! ## distribution calls on a base-class runner -/

theorem Leaf.dist_ok (ext : Ext) (l l' : Leaf) (c : Circ) (n : Option Int) (d : DistVal)
    (h : l.dist ext c n = (l', .ok d)) :
    l'.kind = l.kind ∧ l'.k.nCircuits = l.k.nCircuits + workC l.kind c ∧ l'.k.nJobs = l.k.nJobs + workJ l.kind c ∧
    ((∃ n' m, n = some n' ∧ 0 < n' ∧ Produced ext l.kind l.calls c n' m ∧ d = .empirical (empirical m)) ∨
     (∃ a, n = none ∧ l.kind = .sim a ∧ c.symbolic = false ∧ d = .exact c ∧ l'.calls = l.calls)) := by
  cases n with
  | some n =>
    simp only [Leaf.dist] at h
    rcases h1 : l.run ext c n with ⟨l1, o⟩
    rw [h1] at h
    cases o with
    | err e => simp at h
    | ok m =>
      simp only [Prod.mk.injEq, Outcome.ok.injEq] at h
      obtain ⟨rfl, rfl⟩ := h
      obtain ⟨hn, hp, hk, _, hC, hJ⟩ := Leaf.run_ok ext l l1 c n m h1
      exact ⟨hk, hC, hJ, Or.inl ⟨n, m, rfl, hn, hp, rfl⟩⟩
  | none =>
    obtain ⟨kind, k, calls⟩ := l
    cases kind with
    | base => simp [Leaf.dist] at h
    | sim a =>
      simp only [Leaf.dist] at h
      by_cases hs : c.symbolic = true
      · simp [hs] at h
      · simp only [hs] at h
        obtain ⟨rfl, rfl⟩ := h
        simp [getWavefunction_eq, workC, workJ, hs]

/-- a failed distribution call: either nothing happened at all, or (simulator asked for the exact
    distribution of a circuit with free symbols) the wavefunction pass was counted -/
theorem Leaf.dist_err (ext : Ext) (l l' : Leaf) (c : Circ) (n : Option Int) (e : Err)
    (h : l.dist ext c n = (l', .err e)) :
    l'.kind = l.kind ∧
    ((l'.k = l.k) ∨
     (n = none ∧ c.symbolic = true ∧ l'.k.nCircuits = l.k.nCircuits + workC l.kind c ∧
       l'.k.nJobs = l.k.nJobs + workJ l.kind c)) := by
  cases n with
  | some n =>
    simp only [Leaf.dist] at h
    rcases h1 : l.run ext c n with ⟨l1, o⟩
    rw [h1] at h
    cases o with
    | ok m => simp at h
    | err e1 =>
      simp only [Prod.mk.injEq, Outcome.err.injEq] at h
      obtain ⟨rfl, rfl⟩ := h
      rcases Leaf.run_err ext l l1 c n e1 h1 with ⟨_, _, rfl⟩ | ⟨_, _, hk, hkk, _⟩
      · exact ⟨rfl, Or.inl rfl⟩
      · exact ⟨hk, Or.inl hkk⟩
  | none =>
    obtain ⟨kind, k, calls⟩ := l
    cases kind with
    | base =>
      simp only [Leaf.dist, Prod.mk.injEq] at h
      obtain ⟨rfl, _⟩ := h
      exact ⟨rfl, Or.inl rfl⟩
    | sim a =>
      simp only [Leaf.dist] at h
      by_cases hs : c.symbolic = true
      · simp only [hs, if_true, Prod.mk.injEq] at h
        obtain ⟨rfl, _⟩ := h
        exact ⟨rfl, Or.inr ⟨rfl, hs, by simp [getWavefunction_eq, workC], by simp [getWavefunction_eq, workJ]⟩⟩
      · simp [hs] at h

theorem Leaf.dist_none_base (ext : Ext) (l : Leaf) (c : Circ) (h : l.kind = .base) :
    l.dist ext c none = (l, .err .value) := by
  obtain ⟨kind, k, calls⟩ := l
  simp only at h
  subst h
  simp [Leaf.dist]

theorem Runner.dist_none_base (ext : Ext) (r : Runner) (c : Circ) (h : r.leafOf.kind = .base) :
    r.dist ext c none = (r, .err .value) := by
  induction r with
  | leaf l => simp [Runner.dist, Leaf.dist_none_base ext l c h]
  | tracker inner bits k raw file ih => simp [Runner.dist, ih h]

/-! ## counts -/

theorem getCount_bump (s t : Shot) (acc : List (Shot × Nat)) :
    getCount (bump s acc) t = getCount acc t + (if s = t then 1 else 0) := by
  induction acc with
  | nil => by_cases h : s = t <;> simp [bump, getCount, h]
  | cons p rest ih =>
    by_cases h1 : p.1 = s <;> by_cases h2 : p.1 = t <;> by_cases h3 : s = t <;>
      simp_all [bump, getCount]

theorem getCount_foldl (m : List Shot) (acc : List (Shot × Nat)) (t : Shot) :
    getCount (m.foldl (fun acc s => bump s acc) acc) t = getCount acc t + m.count t := by
  induction m generalizing acc with
  | nil => simp
  | cons s m ih =>
    simp only [List.foldl_cons, ih, getCount_bump, List.count_cons]
    by_cases h : s = t <;> simp [h]; omega

/-- the recorded histogram counts every returned bitstring exactly as often as it was returned -/
theorem getCount_countsOf (m : List Shot) (t : Shot) : getCount (countsOf m) t = m.count t := by
  simp [countsOf, getCount_foldl, getCount]

def total (cnts : List (Shot × Nat)) : Nat := (cnts.map (fun p => p.2)).sum

theorem total_bump (s : Shot) (acc : List (Shot × Nat)) : total (bump s acc) = total acc + 1 := by
  induction acc with
  | nil => simp [bump, total]
  | cons p rest ih =>
    by_cases h : p.1 = s
    · simp [bump, h, total]; omega
    · simp only [bump, h, if_false, total, List.map_cons, List.sum_cons] at ih ⊢; omega

theorem total_foldl (m : List Shot) (acc : List (Shot × Nat)) :
    total (m.foldl (fun acc s => bump s acc) acc) = total acc + m.length := by
  induction m generalizing acc with
  | nil => simp
  | cons s m ih => simp only [List.foldl_cons, ih, total_bump, List.length_cons]; omega

theorem total_countsOf (m : List Shot) : total (countsOf m) = m.length := by
  rw [countsOf, total_foldl]; simp [total]

theorem keys_bump (s : Shot) (acc : List (Shot × Nat)) (h : (acc.map (fun p => p.1)).Nodup) :
    ((bump s acc).map (fun p => p.1)).Nodup ∧ ∀ t, t ∈ (bump s acc).map (fun p => p.1) ↔ t = s ∨ t ∈ acc.map (fun p => p.1) := by
  induction acc with
  | nil => simp [bump]
  | cons p rest ih =>
    simp only [List.map_cons, List.nodup_cons] at h
    obtain ⟨ih1, ih2⟩ := ih h.2
    by_cases hp : p.1 = s
    · simp only [bump, hp, if_true, List.map_cons, List.nodup_cons, List.mem_cons]
      refine ⟨⟨by rw [← hp]; exact h.1, h.2⟩, fun t => by rw [← hp]; tauto⟩
    · simp only [bump, hp, if_false, List.map_cons, List.nodup_cons, List.mem_cons]
      refine ⟨⟨?_, ih1⟩, fun t => by rw [ih2 t]; tauto⟩
      rw [ih2]; intro hc; rcases hc with hc | hc
      · exact hp hc
      · exact h.1 hc

theorem keys_foldl (m : List Shot) (acc : List (Shot × Nat)) (h : (acc.map (fun p => p.1)).Nodup) :
    ((m.foldl (fun acc s => bump s acc) acc).map (fun p => p.1)).Nodup := by
  induction m generalizing acc with
  | nil => simpa using h
  | cons s m ih => simp only [List.foldl_cons]; exact ih _ (keys_bump s acc h).1

/-- the histogram is a dictionary: no key twice -/
theorem keys_countsOf (m : List Shot) : ((countsOf m).map (fun p => p.1)).Nodup := by
  simp only [countsOf]; exact keys_foldl m [] (by simp)

/-! ## the tracker's records -/

/-- a measurement record agrees with the circuit it was written for and the measurements returned
    for it: same circuit, a histogram counting each returned bitstring exactly as often as returned
    (a dictionary, summing to the shot number), the number of returned shots, the number of
    operations, and – if requested – the bitstrings themselves -/
def Record.Matches (bits : Bool) (c : Circ) (m : List Shot) : Record → Prop
  | .meas c' cnts g s b =>
    c' = c ∧ (∀ t, getCount cnts t = m.count t) ∧ (cnts.map (fun p => p.1)).Nodup ∧ total cnts = m.length ∧
    s = m.length ∧ g = c.ops.length ∧ b = (if bits then some m else none)
  | .dist _ _ _ _ => False

theorem mkMeasRecord_matches (bits : Bool) (c : Circ) (m : List Shot) : (mkMeasRecord bits c m).Matches bits c m :=
  ⟨rfl, getCount_countsOf m, keys_countsOf m, total_countsOf m, rfl, rfl, rfl⟩

theorem forall₂_map_mk (bits : Bool) (ps : List (Circ × List Shot)) :
    List.Forall₂ (fun p rec => Record.Matches bits p.1 p.2 rec) ps (ps.map (fun p => mkMeasRecord bits p.1 p.2)) := by
  induction ps with
  | nil => exact List.Forall₂.nil
  | cons p ps ih => exact List.Forall₂.cons (mkMeasRecord_matches bits p.1 p.2) ih

/-- the outermost runner's own counters / file / pending raw data -/
def Runner.own : Runner → Counters
  | .leaf l => l.k
  | .tracker _ _ k _ _ => k
def Runner.file : Runner → List Record
  | .leaf _ => []
  | .tracker _ _ _ _ file => file
def Runner.raw : Runner → List Record
  | .leaf _ => []
  | .tracker _ _ _ raw _ => raw

/-- `raw_data` is empty in every tracker of the chain (nothing left over from an earlier call) -/
def Runner.Clean : Runner → Prop
  | .leaf _ => True
  | .tracker inner _ _ raw _ => raw = [] ∧ inner.Clean

theorem Runner.fresh_clean (r : Runner) (h : r.fresh = true) : r.Clean := by
  induction r with
  | leaf l => trivial
  | tracker inner bits k raw file ih =>
    simp only [Runner.fresh, Bool.and_eq_true, List.isEmpty_iff] at h
    exact ⟨h.1.1.2, ih h.2⟩

theorem Runner.run_clean (ext : Ext) (r : Runner) (c : Circ) (n : Int) (h : r.Clean) : (r.run ext c n).1.Clean := by
  induction r with
  | leaf l => trivial
  | tracker inner bits k raw file ih =>
    simp only [Runner.run]
    by_cases hn : n ≤ 0
    · simpa [hn] using h
    · simp only [hn, if_false]
      have := ih h.2
      rcases h1 : inner.run ext c n with ⟨i', o⟩
      rw [h1] at this
      cases o
      · exact ⟨rfl, this⟩
      · exact ⟨h.1, this⟩

theorem Runner.batch_clean (ext : Ext) (r : Runner) (cs : List Circ) (ns : NSpec) (h : r.Clean) :
    (r.batch ext cs ns).1.Clean := by
  induction r with
  | leaf l => trivial
  | tracker inner bits k raw file ih =>
    simp only [Runner.batch]
    have := ih h.2
    rcases h1 : inner.batch ext cs ns with ⟨i', o⟩
    rw [h1] at this
    cases o
    · exact ⟨rfl, this⟩
    · exact ⟨h.1, this⟩

theorem Runner.dist_clean (ext : Ext) (r : Runner) (c : Circ) (n : Option Int) (h : r.Clean) :
    (r.dist ext c n).1.Clean := by
  induction r with
  | leaf l => trivial
  | tracker inner bits k raw file ih =>
    simp only [Runner.dist]
    have := ih h.2
    rcases h1 : inner.dist ext c n with ⟨i', o⟩
    rw [h1] at this
    cases o
    · exact ⟨rfl, this⟩
    · exact ⟨h.1, this⟩

theorem step_clean (ext : Ext) (r : Runner) (call : Call) (h : r.Clean) : (step ext r call).1.Clean := by
  cases call with
  | run c n =>
    have := Runner.run_clean ext r c n h
    simp only [step]; rcases h1 : r.run ext c n with ⟨r', o⟩; rw [h1] at this; cases o <;> exact this
  | batch cs ns =>
    have := Runner.batch_clean ext r cs ns h
    simp only [step]; rcases h1 : r.batch ext cs ns with ⟨r', o⟩; rw [h1] at this; cases o <;> exact this
  | dist c n =>
    have := Runner.dist_clean ext r c n h
    simp only [step]; rcases h1 : r.dist ext c n with ⟨r', o⟩; rw [h1] at this; cases o <;> exact this

theorem runAll_clean (ext : Ext) (r : Runner) (calls : List Call) (h : r.Clean) : (runAll ext r calls).1.Clean := by
  induction calls generalizing r with
  | nil => exact h
  | cons call rest ih => simp only [runAll]; exact ih _ (step_clean ext r call h)

theorem runAll_append (ext : Ext) (r : Runner) (a b : List Call) :
    runAll ext r (a ++ b) =
      ((runAll ext (runAll ext r a).1 b).1, (runAll ext r a).2 ++ (runAll ext (runAll ext r a).1 b).2) := by
  induction a generalizing r with
  | nil => simp [runAll]
  | cons call rest ih => simp only [List.cons_append, runAll, ih, List.cons_append]

/-! ## from `step` to the three methods -/

def Call.circuits : Call → List Circ
  | .run c _ => [c]
  | .batch cs _ => cs
  | .dist c _ => [c]

theorem step_run_eq (ext : Ext) (r r' : Runner) (c : Circ) (n : Int) (res : Res)
    (h : step ext r (.run c n) = (r', res)) :
    (∃ m, res = .meas m ∧ r.run ext c n = (r', .ok m)) ∨ (∃ e, res = .error e ∧ r.run ext c n = (r', .err e)) := by
  simp only [step] at h
  rcases h1 : r.run ext c n with ⟨r1, o⟩
  rw [h1] at h
  cases o with
  | ok m => simp only [Prod.mk.injEq] at h; obtain ⟨rfl, rfl⟩ := h; exact Or.inl ⟨m, rfl, rfl⟩
  | err e => simp only [Prod.mk.injEq] at h; obtain ⟨rfl, rfl⟩ := h; exact Or.inr ⟨e, rfl, rfl⟩

theorem step_batch_eq (ext : Ext) (r r' : Runner) (cs : List Circ) (ns : NSpec) (res : Res)
    (h : step ext r (.batch cs ns) = (r', res)) :
    (∃ ms, res = .batch ms ∧ r.batch ext cs ns = (r', .ok ms)) ∨
    (∃ e, res = .error e ∧ r.batch ext cs ns = (r', .err e)) := by
  simp only [step] at h
  rcases h1 : r.batch ext cs ns with ⟨r1, o⟩
  rw [h1] at h
  cases o with
  | ok m => simp only [Prod.mk.injEq] at h; obtain ⟨rfl, rfl⟩ := h; exact Or.inl ⟨m, rfl, rfl⟩
  | err e => simp only [Prod.mk.injEq] at h; obtain ⟨rfl, rfl⟩ := h; exact Or.inr ⟨e, rfl, rfl⟩

theorem step_dist_eq (ext : Ext) (r r' : Runner) (c : Circ) (n : Option Int) (res : Res)
    (h : step ext r (.dist c n) = (r', res)) :
    (∃ d, res = .distr d ∧ r.dist ext c n = (r', .ok d)) ∨ (∃ e, res = .error e ∧ r.dist ext c n = (r', .err e)) := by
  simp only [step] at h
  rcases h1 : r.dist ext c n with ⟨r1, o⟩
  rw [h1] at h
  cases o with
  | ok m => simp only [Prod.mk.injEq] at h; obtain ⟨rfl, rfl⟩ := h; exact Or.inl ⟨m, rfl, rfl⟩
  | err e => simp only [Prod.mk.injEq] at h; obtain ⟨rfl, rfl⟩ := h; exact Or.inr ⟨e, rfl, rfl⟩

theorem leaf_run_eq (ext : Ext) (l : Leaf) (r' : Runner) (c : Circ) (n : Int) (o : Outcome (List Shot))
    (h : (Runner.leaf l).run ext c n = (r', o)) : ∃ l', r' = .leaf l' ∧ l.run ext c n = (l', o) := by
  simp only [Runner.run, Prod.mk.injEq] at h
  exact ⟨(l.run ext c n).1, h.1.symm, by rw [← h.2]⟩

theorem leaf_batch_eq (ext : Ext) (l : Leaf) (r' : Runner) (cs : List Circ) (ns : NSpec) (o : Outcome (List (List Shot)))
    (h : (Runner.leaf l).batch ext cs ns = (r', o)) : ∃ l', r' = .leaf l' ∧ l.batch ext cs ns = (l', o) := by
  simp only [Runner.batch, Prod.mk.injEq] at h
  exact ⟨(l.batch ext cs ns).1, h.1.symm, by rw [← h.2]⟩

theorem leaf_dist_eq (ext : Ext) (l : Leaf) (r' : Runner) (c : Circ) (n : Option Int) (o : Outcome DistVal)
    (h : (Runner.leaf l).dist ext c n = (r', o)) : ∃ l', r' = .leaf l' ∧ l.dist ext c n = (l', o) := by
  simp only [Runner.dist, Prod.mk.injEq] at h
  exact ⟨(l.dist ext c n).1, h.1.symm, by rw [← h.2]⟩

/-- a successful call on a base-class runner adds the work of every circuit of the call -/
theorem leaf_step_ok (ext : Ext) (l : Leaf) (call : Call) (r' : Runner) (res : Res)
    (h : step ext (.leaf l) call = (r', res)) (hok : ∀ e, res ≠ .error e) :
    ∃ l', r' = .leaf l' ∧ l'.kind = l.kind ∧
      l'.k.nCircuits = l.k.nCircuits + (call.circuits.map (workC l.kind)).sum ∧
      l'.k.nJobs = l.k.nJobs + (call.circuits.map (workJ l.kind)).sum := by
  cases call with
  | run c n =>
    rcases step_run_eq ext _ _ c n res h with ⟨m, _, h1⟩ | ⟨e, he, _⟩
    · obtain ⟨l', rfl, h2⟩ := leaf_run_eq ext l r' c n _ h1
      obtain ⟨_, _, hk, _, hC, hJ⟩ := Leaf.run_ok ext l l' c n m h2
      exact ⟨l', rfl, hk, by simp [Call.circuits, hC], by simp [Call.circuits, hJ]⟩
    · exact absurd he (hok e)
  | batch cs ns =>
    rcases step_batch_eq ext _ _ cs ns res h with ⟨ms, _, h1⟩ | ⟨e, he, _⟩
    · obtain ⟨l', rfl, h2⟩ := leaf_batch_eq ext l r' cs ns _ h1
      obtain ⟨_, _, _, hk, _, hC, hJ⟩ := Leaf.batch_ok ext l l' cs ns ms h2
      exact ⟨l', rfl, hk, by simp [Call.circuits, hC], by simp [Call.circuits, hJ]⟩
    · exact absurd he (hok e)
  | dist c n =>
    rcases step_dist_eq ext _ _ c n res h with ⟨d, _, h1⟩ | ⟨e, he, _⟩
    · obtain ⟨l', rfl, h2⟩ := leaf_dist_eq ext l r' c n _ h1
      obtain ⟨hk, hC, hJ, _⟩ := Leaf.dist_ok ext l l' c n d h2
      exact ⟨l', rfl, hk, by simp [Call.circuits, hC], by simp [Call.circuits, hJ]⟩
    · exact absurd he (hok e)

theorem map_fst_zip_prefix {α β : Type} (xs : List α) (ys : List β) : (xs.zip ys).map (fun q => q.1) <+: xs := by
  induction xs generalizing ys with
  | nil => simp
  | cons x xs ih =>
    cases ys with
    | nil => simp
    | cons y ys => simp only [List.zip_cons_cons, List.map_cons]; exact (List.prefix_cons_inj x).mpr (ih ys)

theorem map_fst_prefix_of_zip {α β : Type} (xs : List α) (ys : List β) (done rest : List (α × β)) (p : α × β)
    (h : xs.zip ys = done ++ p :: rest) : done.map (fun q => q.1) <+: xs := by
  have h1 := map_fst_zip_prefix xs ys
  rw [h] at h1
  simp only [List.map_append] at h1
  exact (List.prefix_append _ _).trans h1

/-- a failed call on a base-class runner has counted exactly the work of the circuits of an initial
    part of the call (none, if the call was rejected) -/
theorem leaf_step_err (ext : Ext) (l : Leaf) (call : Call) (r' : Runner) (e : Err)
    (h : step ext (.leaf l) call = (r', .error e)) :
    ∃ l' done, r' = .leaf l' ∧ l'.kind = l.kind ∧ done <+: call.circuits ∧
      l'.k.nCircuits = l.k.nCircuits + (done.map (workC l.kind)).sum ∧
      l'.k.nJobs = l.k.nJobs + (done.map (workJ l.kind)).sum := by
  cases call with
  | run c n =>
    rcases step_run_eq ext _ _ c n _ h with ⟨m, hm, _⟩ | ⟨e', he, h1⟩
    · simp at hm
    · obtain ⟨l', rfl, h2⟩ := leaf_run_eq ext l r' c n _ h1
      refine ⟨l', [], rfl, ?_, List.nil_prefix, ?_, ?_⟩ <;>
        rcases Leaf.run_err ext l l' c n e' h2 with ⟨_, _, rfl⟩ | ⟨_, _, hk, hkk, _⟩ <;> simp [*]
  | batch cs ns =>
    rcases step_batch_eq ext _ _ cs ns _ h with ⟨m, hm, _⟩ | ⟨e', he, h1⟩
    · simp at hm
    · obtain ⟨l', rfl, h2⟩ := leaf_batch_eq ext l r' cs ns _ h1
      rcases Leaf.batch_err ext l l' cs ns e' h2 with ⟨_, _, rfl⟩ | ⟨_, done, p, rest, ms, hz, _, _, hk, hC, hJ⟩
      · exact ⟨l', [], rfl, rfl, List.nil_prefix, by simp, by simp⟩
      · refine ⟨l', done.map (fun q => q.1), rfl, hk, map_fst_prefix_of_zip _ _ _ _ _ hz, ?_, ?_⟩
        · rw [hC, sumC, List.map_map]; rfl
        · rw [hJ, sumJ, List.map_map]; rfl
  | dist c n =>
    rcases step_dist_eq ext _ _ c n _ h with ⟨m, hm, _⟩ | ⟨e', he, h1⟩
    · simp at hm
    · obtain ⟨l', rfl, h2⟩ := leaf_dist_eq ext l r' c n _ h1
      obtain ⟨hk, hh⟩ := Leaf.dist_err ext l l' c n e' h2
      rcases hh with hkk | ⟨_, _, hC, hJ⟩
      · exact ⟨l', [], rfl, hk, List.nil_prefix, by simp [hkk], by simp [hkk]⟩
      · exact ⟨l', [c], rfl, hk, by simp [Call.circuits], by simp [hC], by simp [hJ]⟩

/-- what a tracker adds to its own counters -/
def trackerWork : Call → Res → Nat × Nat
  | _, .error _ => (0, 0)
  | .run _ _, _ => (1, 1)
  | .batch cs _, _ => (cs.length, 1)
  | .dist _ _, _ => (0, 0)

theorem tracker_step_own (ext : Ext) (inner : Runner) (bits : Bool) (k : Counters) (raw file : List Record)
    (call : Call) (r' : Runner) (res : Res) (h : step ext (.tracker inner bits k raw file) call = (r', res)) :
    r'.own.nCircuits = k.nCircuits + (trackerWork call res).1 ∧ r'.own.nJobs = k.nJobs + (trackerWork call res).2 := by
  cases call with
  | run c n =>
    rcases step_run_eq ext _ _ c n res h with ⟨m, rfl, h1⟩ | ⟨e, rfl, h1⟩ <;>
    · simp only [Runner.run] at h1
      by_cases hn : n ≤ 0
      · simp only [hn, if_true, Prod.mk.injEq] at h1
        obtain ⟨rfl, h3⟩ := h1
        simp [Runner.own, trackerWork] at h3 ⊢
      · simp only [hn, if_false] at h1
        rcases h2 : inner.run ext c n with ⟨i', o⟩
        rw [h2] at h1
        cases o <;> simp only [Prod.mk.injEq] at h1 <;> obtain ⟨rfl, h3⟩ := h1 <;>
          simp [Runner.own, trackerWork] at h3 ⊢
  | batch cs ns =>
    rcases step_batch_eq ext _ _ cs ns res h with ⟨m, rfl, h1⟩ | ⟨e, rfl, h1⟩ <;>
    · simp only [Runner.batch] at h1
      rcases h2 : inner.batch ext cs ns with ⟨i', o⟩
      rw [h2] at h1
      cases o <;> simp only [Prod.mk.injEq] at h1 <;> obtain ⟨rfl, h3⟩ := h1 <;>
        simp [Runner.own, trackerWork] at h3 ⊢
  | dist c n =>
    rcases step_dist_eq ext _ _ c n res h with ⟨m, rfl, h1⟩ | ⟨e, rfl, h1⟩ <;>
    · simp only [Runner.dist] at h1
      rcases h2 : inner.dist ext c n with ⟨i', o⟩
      rw [h2] at h1
      cases o <;> simp only [Prod.mk.injEq] at h1 <;> obtain ⟨rfl, h3⟩ := h1 <;>
        simp [Runner.own, trackerWork] at h3 ⊢

/-! ## what the tracker writes -/

theorem Runner.batch_ok_length (ext : Ext) (r r' : Runner) (cs : List Circ) (ns : NSpec) (ms : List (List Shot))
    (h : r.batch ext cs ns = (r', .ok ms)) : ms.length = cs.length := by
  have h1 := (Runner.batch_leaf ext r cs ns).1
  rw [h] at h1
  rcases h2 : r.leafOf.batch ext cs ns with ⟨l', o⟩
  rw [h2] at h1
  simp only at h1
  subst h1
  exact (Leaf.batch_ok ext _ l' cs ns ms h2).2.2.1

theorem tracker_run_record (ext : Ext) (inner : Runner) (bits : Bool) (k : Counters) (file : List Record)
    (c : Circ) (n : Int) (r' : Runner) (m : List Shot)
    (h : (Runner.tracker inner bits k [] file).run ext c n = (r', .ok m)) :
    r'.raw = [] ∧ r'.file = [mkMeasRecord bits c m] := by
  simp only [Runner.run] at h
  by_cases hn : n ≤ 0
  · simp [hn] at h
  · simp only [hn, if_false] at h
    rcases h2 : inner.run ext c n with ⟨i', o⟩
    rw [h2] at h
    cases o <;> simp only [Prod.mk.injEq] at h <;> obtain ⟨rfl, h3⟩ := h <;>
      simp [Runner.raw, Runner.file] at h3 ⊢
    rw [h3]

theorem tracker_batch_record (ext : Ext) (inner : Runner) (bits : Bool) (k : Counters) (file : List Record)
    (cs : List Circ) (ns : NSpec) (r' : Runner) (ms : List (List Shot))
    (h : (Runner.tracker inner bits k [] file).batch ext cs ns = (r', .ok ms)) :
    r'.raw = [] ∧ r'.file = (cs.zip ms).map (fun p => mkMeasRecord bits p.1 p.2) := by
  simp only [Runner.batch] at h
  rcases h2 : inner.batch ext cs ns with ⟨i', o⟩
  rw [h2] at h
  cases o <;> simp only [Prod.mk.injEq] at h <;> obtain ⟨rfl, h3⟩ := h <;>
    simp [Runner.raw, Runner.file] at h3 ⊢
  rw [h3]

theorem tracker_dist_record (ext : Ext) (inner : Runner) (bits : Bool) (k : Counters) (file : List Record)
    (c : Circ) (n : Option Int) (r' : Runner) (d : DistVal)
    (h : (Runner.tracker inner bits k [] file).dist ext c n = (r', .ok d)) :
    r'.raw = [] ∧ r'.file = [Record.dist c d c.ops.length n] := by
  simp only [Runner.dist] at h
  rcases h2 : inner.dist ext c n with ⟨i', o⟩
  rw [h2] at h
  cases o <;> simp only [Prod.mk.injEq] at h <;> obtain ⟨rfl, h3⟩ := h <;>
    simp [Runner.raw, Runner.file] at h3 ⊢
  rw [h3]

theorem tracker_err_keeps_file (ext : Ext) (inner : Runner) (bits : Bool) (k : Counters) (raw file : List Record)
    (call : Call) (r' : Runner) (e : Err)
    (h : step ext (.tracker inner bits k raw file) call = (r', .error e)) :
    r'.raw = raw ∧ r'.file = file := by
  cases call with
  | run c n =>
    rcases step_run_eq ext _ _ c n _ h with ⟨m, hm, _⟩ | ⟨e', _, h1⟩
    · simp at hm
    · simp only [Runner.run] at h1
      by_cases hn : n ≤ 0
      · simp only [hn, if_true, Prod.mk.injEq] at h1
        obtain ⟨rfl, _⟩ := h1
        simp [Runner.raw, Runner.file]
      · simp only [hn, if_false] at h1
        rcases h2 : inner.run ext c n with ⟨i', o⟩
        rw [h2] at h1
        cases o <;> simp only [Prod.mk.injEq] at h1 <;> obtain ⟨rfl, h3⟩ := h1 <;>
          simp [Runner.raw, Runner.file] at h3 ⊢
  | batch cs ns =>
    rcases step_batch_eq ext _ _ cs ns _ h with ⟨m, hm, _⟩ | ⟨e', _, h1⟩
    · simp at hm
    · simp only [Runner.batch] at h1
      rcases h2 : inner.batch ext cs ns with ⟨i', o⟩
      rw [h2] at h1
      cases o <;> simp only [Prod.mk.injEq] at h1 <;> obtain ⟨rfl, h3⟩ := h1 <;>
        simp [Runner.raw, Runner.file] at h3 ⊢
  | dist c n =>
    rcases step_dist_eq ext _ _ c n _ h with ⟨m, hm, _⟩ | ⟨e', _, h1⟩
    · simp at hm
    · simp only [Runner.dist] at h1
      rcases h2 : inner.dist ext c n with ⟨i', o⟩
      rw [h2] at h1
      cases o <;> simp only [Prod.mk.injEq] at h1 <;> obtain ⟨rfl, h3⟩ := h1 <;>
        simp [Runner.raw, Runner.file] at h3 ⊢

/-! ## a concrete instance of the externals and a few circuits (for the non-vacuity examples) -/

def exT : Ext where
  exec := fun k c n =>
    if c.symbolic then .err .value else .ok (List.replicate (n.toNat + k) (List.replicate c.width 0))
  draw := fun k c n => List.replicate n.toNat (k % 2 ^ c.width)

theorem exT_execLaw : ExecLaw exT := by
  intro k c n m hn h
  simp only [exT] at h
  by_cases hs : c.symbolic = true
  · simp [hs] at h
  · simp [hs] at h
    subst h
    refine ⟨by simp; omega, ?_⟩
    intro s hs'
    rw [List.eq_of_mem_replicate hs']; simp

theorem exT_drawLaw : DrawLaw exT := by
  intro k c n hn
  refine ⟨by simp [exT]; omega, ?_⟩
  intro i hi
  simp only [exT] at hi
  rw [List.eq_of_mem_replicate hi]
  exact Nat.mod_lt _ (Nat.pow_pos (by omega))

def cH : Circ := ⟨0, 3, [true, true], false⟩
def cMP : Circ := ⟨1, 2, [true, false, true, false, false], false⟩
def cEmpty : Circ := ⟨2, 0, [], false⟩
def cSym : Circ := ⟨3, 1, [true], true⟩
def base0 : Runner := .leaf ⟨.base, ⟨0, 0⟩, 0⟩
def symb0 : Runner := .leaf ⟨.sim true, ⟨0, 0⟩, 0⟩
def sim0 : Runner := .leaf ⟨.sim false, ⟨0, 0⟩, 0⟩


end OQ.C14
