/- C04 linking lemmas: executable circuit application (C01) and sparse operator (C09) vs. the views of C04; not property theorems -/
import OQ.Props.C04
import OQ.Props.C09
import OQ.Props.C01
import OQ.Model.Gates
set_option linter.unusedSectionVars false
namespace OQ.C04.Link
open OQ OQ.Pauli OQ.Spec Matrix OQ.Lift

section
variable {R : Type} [CommRing R]

/-! ### the two `expectation` models -/

theorem sumTo_congr (n : Nat) (f g : Nat → R) (h : ∀ i, i < n → f i = g i) : sumTo n f = sumTo n g := by
  rw [sumTo_eq, sumTo_eq]
  exact Finset.sum_congr rfl (fun i hi => h i (Finset.mem_range.mp hi))

/-- `expectation(operator, state)` of the C09 model only reads the entries inside the state's dimension, and is the
    C04 model's `expectation` on any matrix with the same entries there -/
theorem expectation_congr (k : Scal R) (M M' : Mat R) (ψ : List R)
    (h : ∀ i j, i < ψ.length → j < ψ.length → M.get i j = M'.get i j) :
    C09.expectation k M ψ = expectation k M' ψ := by
  unfold C09.expectation expectation
  apply sumTo_congr
  intro i hi
  congr 1
  apply sumTo_congr
  intro j hj
  rw [h i j hi hj]

theorem ztype_sumWF (n : Nat) (s : PSum R) (hs : ZType n s) : C09.SumWF s :=
  fun t ht => (hs t ht).2.1

/-! ### executable states vs. states over bit assignments -/

theorem bv_eq_bvEquiv (n i : Nat) (hi : i < 2 ^ n) : bv n i = C01.bvEquiv n ⟨i, hi⟩ := by
  funext q
  rw [C01.bvEquiv_apply]
  simp only [bv, bit, Nat.testBit_eq_decide_div_mod_eq]
  by_cases h : i / 2 ^ (n - 1 - q.val) % 2 = 1 <;> simp [h]

/-- the amplitude list handed to `Wavefunction(...)`: column 0 of the state column -/
def colAmps (w : Mat R) : List R := (List.range w.r).map (fun i => w.get i 0)

theorem colAmps_length (w : Mat R) : (colAmps w).length = w.r := by simp [colAmps]

theorem colAmps_getD (w : Mat R) (i : Nat) (hi : i < w.r) : (colAmps w).getD i 0 = w.get i 0 := by
  simp [colAmps, List.getD_eq_getElem?_getD, hi]

/-- the state over bit assignments of an executable state column -/
noncomputable def stateOf (n : Nat) (w : Mat R) : BV (Fin n) → R := fun x => C01.toBVv n w x 0

theorem stateOf_bv (n : Nat) (w : Mat R) (i : Nat) (hi : i < 2 ^ n) :
    stateOf n w (bv n i) = w.get i 0 := by
  unfold stateOf C01.toBVv
  rw [bv_eq_bvEquiv n i hi]
  simp [Mat.toM]

theorem stateOf_mul (n : Nat) (w v : Mat R) (A : Matrix (BV (Fin n)) (BV (Fin n)) R)
    (h : C01.toBVv n w = A * C01.toBVv n v) : stateOf n w = A *ᵥ stateOf n v := by
  funext x
  unfold stateOf
  rw [h]
  rfl

theorem amps_state (n : Nat) (w : Mat R) (hr : w.r = 2 ^ n) (i : Nat) (hi : i < 2 ^ n) :
    (colAmps w).getD i 0 = stateOf n w (bv n i) := by
  rw [colAmps_getD w i (by omega), stateOf_bv n w i hi]

theorem liftApplyOp_eq (n : Nat) (o : Op R) (h : C01.OpValid n o) (v : Mat R) (hvr : v.r = 2 ^ n) :
    Lift.applyOp o v = C01.applyOper (.gate o) v := by
  unfold Lift.applyOp C01.applyOper
  simp only [hvr, C01.log2Exact_pow, C01.gateLift]
  rw [if_pos ⟨h.mr, h.mc⟩]
  cases liftMatrix o.m o.qs n <;> rfl

theorem liftApplyAll_eq (n : Nat) (gs : List (Op R)) (h : ∀ o ∈ gs, C01.OpValid n o) (v : Mat R)
    (hvr : v.r = 2 ^ n) (hvc : v.c = 1) :
    Lift.applyAll gs v = C01.applyAll (gs.map C01.Oper.gate) v := by
  induction gs generalizing v with
  | nil => rfl
  | cons o gs ih =>
    rw [List.map_cons, C01.applyAll_cons]
    have e : Lift.applyAll (o :: gs) v = (Lift.applyOp o v).bind (Lift.applyAll gs) := by
      simp [Lift.applyAll, List.foldlM_cons]; rfl
    rw [e, liftApplyOp_eq n o (h o (by simp)) v hvr]
    obtain ⟨w1, h1, hr1, hc1, _⟩ := C01.applyOper_spec n (.gate o) (h o (by simp)) v hvr hvc
    rw [h1]
    exact ih (fun o' ho' => h o' (by simp [ho'])) w1 hr1 hc1

/-! ### the X gate -/

theorem x_get (i j : Nat) (hi : i < 2) (hj : j < 2) : (Gates.x (R := R)).get i j = if i = j then 0 else 1 := by
  unfold Gates.x Gates.m2 Mat.ofLists
  rw [Mat.get_ofFn _ _ _ _ _ (by simpa using hi) (by simpa using hj)]
  have : i = 0 ∨ i = 1 := by omega
  have : j = 0 ∨ j = 1 := by omega
  rcases ‹i = 0 ∨ i = 1› with rfl | rfl <;> rcases ‹j = 0 ∨ j = 1› with rfl | rfl <;> simp

theorem bv1_val (a : BV (Fin 1)) : ((C01.bvEquiv 1).symm a).val = if a 0 then 1 else 0 := by
  have h := C01.bit_bv 1 a 0
  have hlt : ((C01.bvEquiv 1).symm a).val < 2 := by simpa using ((C01.bvEquiv 1).symm a).2
  simp only [Nat.sub_self, Fin.val_zero, Nat.testBit_zero] at h
  cases ha : a 0
  · rw [ha] at h; simp at h ⊢; omega
  · rw [ha] at h; simp at h ⊢; omega

theorem xValid (n q : Nat) (hq : q < n) : C01.OpValid n (⟨Gates.x, [q]⟩ : Op R) :=
  ⟨by simp, by simp, by simpa using hq, rfl, rfl⟩

/-- placement of a one-qubit gate on qubit `q` of `n`, with the gate's own qubit indexed by `Unit` -/
def sigmaX (n q : Nat) (hq : q < n) : Unit ⊕ {p : Fin n // p.val ∉ [q]} ≃ Fin n :=
  (Equiv.sumCongr (finOneEquiv.symm) (Equiv.refl _)).trans
    (C01.sigmaOf [q] n (List.nodup_singleton q) (by simpa using hq))

theorem sigmaX_inl (n q : Nat) (hq : q < n) : sigmaX n q hq (Sum.inl ()) = ⟨q, hq⟩ := by
  apply Fin.ext; rfl

theorem opSem_x (n q : Nat) (hq : q < n) :
    C01.opSem n (⟨Gates.x, [q]⟩ : Op R) = lift (sigmaX n q hq) (xGate (R := R)) := by
  unfold C01.opSem
  rw [dif_pos (xValid n q hq)]
  ext x y
  rw [lift_apply, lift_apply]
  have hc : (∀ m, x (C01.sigmaOf [q] n (List.nodup_singleton q) (by simpa using hq) (Sum.inr m)) =
      y (C01.sigmaOf [q] n (List.nodup_singleton q) (by simpa using hq) (Sum.inr m))) ↔
      (∀ m, x (sigmaX n q hq (Sum.inr m)) = y (sigmaX n q hq (Sum.inr m))) := Iff.rfl
  by_cases c : (∀ m, x (sigmaX n q hq (Sum.inr m)) = y (sigmaX n q hq (Sum.inr m)))
  · rw [if_pos c, if_pos (hc.mpr c), C01.toBV_apply]
    change (Gates.x (R := R)).get ((C01.bvEquiv 1).symm (fun k : Fin 1 => x (C01.sigmaOf [q] n (List.nodup_singleton q)
        (by simpa using hq) (Sum.inl k)))).val ((C01.bvEquiv 1).symm (fun k : Fin 1 => y (C01.sigmaOf [q] n
        (List.nodup_singleton q) (by simpa using hq) (Sum.inl k)))).val = _
    rw [bv1_val, bv1_val, x_get _ _ (by split <;> omega) (by split <;> omega)]
    simp only [xGate]
    have e : ∀ z : BV (Fin n), z (sigmaX n q hq (Sum.inl ())) =
        z (C01.sigmaOf [q] n (List.nodup_singleton q) (by simpa using hq) (Sum.inl 0)) := fun z => rfl
    simp only [e x, e y]
    cases x (C01.sigmaOf [q] n (List.nodup_singleton q) (by simpa using hq) (Sum.inl 0)) <;>
      cases y (C01.sigmaOf [q] n (List.nodup_singleton q) (by simpa using hq) (Sum.inl 0)) <;> simp
  · rw [if_neg c, if_neg (fun h => c (hc.mp h))]


/-! ### basis states -/

/-- the tuple that is 1 exactly at the positions in `F` -/
def indicator (n : Nat) (F : List Nat) : List Nat := (List.range n).map (fun q => if q ∈ F then 1 else 0)

/-- the basis index whose MSB-first bits are the indicator of `F` -/
def basisIndex (n : Nat) (F : List Nat) : Nat := fromBits (indicator n F)

theorem indicator_length (n : Nat) (F : List Nat) : (indicator n F).length = n := by simp [indicator]

theorem indicator_lt (n : Nat) (F : List Nat) : ∀ b ∈ indicator n F, b < 2 := by
  intro b hb
  simp only [indicator, List.mem_map] at hb
  obtain ⟨q, _, rfl⟩ := hb
  split <;> omega

theorem basisIndex_lt (n : Nat) (F : List Nat) : basisIndex n F < 2 ^ n := by
  have := C01.bitsToIndex_lt (indicator n F) (indicator_lt n F)
  rw [indicator_length] at this
  exact this

theorem bits_basisIndex (n : Nat) (F : List Nat) : bits n (basisIndex n F) = indicator n F := by
  apply C01.bitsToIndex_inj _ _ (by rw [bits_length, indicator_length])
  · intro x hx
    simp only [bits, List.mem_map] at hx
    obtain ⟨q, _, rfl⟩ := hx
    exact bit_lt_two _ _ _
  · exact indicator_lt n F
  · exact fromBits_bits n (basisIndex n F) (basisIndex_lt n F)

theorem bv_basisIndex (n : Nat) (F : List Nat) : bv n (basisIndex n F) = fun p => decide (p.val ∈ F) := by
  funext p
  have h := congrArg (fun l => l[p.val]?) (bits_basisIndex n F)
  simp only [bits_getElem? n _ p.val p.2] at h
  simp only [indicator, List.getElem?_map, List.getElem?_range p.2, Option.map_some, Option.some.injEq] at h
  simp only [bv, h]
  by_cases hp : p.val ∈ F <;> simp [hp]

/-- the column of the basis state `idx` -/
def basisCol (n idx : Nat) : Mat R := Mat.ofFn (2 ^ n) 1 (fun i _ => if i = idx then 1 else 0)

theorem zeroState_eq (n : Nat) : zeroState (R := R) n = basisCol n 0 := rfl

theorem stateOf_basisCol (n idx : Nat) (hidx : idx < 2 ^ n) :
    stateOf n (basisCol (R := R) n idx) = fun x => if x = bv n idx then 1 else 0 := by
  funext x
  obtain ⟨i, rfl⟩ := (C01.bvEquiv n).surjective x
  rw [← bv_eq_bvEquiv n i.val i.2, stateOf_bv n _ i.val i.2]
  unfold basisCol
  rw [Mat.get_ofFn _ _ _ _ _ i.2 (by decide)]
  by_cases h : i.val = idx
  · subst h; simp
  · have : bv n i.val ≠ bv n idx := fun e => h (bv_inj n _ _ i.2 hidx e)
    simp [h, this]

theorem bv_zero (n : Nat) : bv n 0 = fun _ => false := by
  funext q; simp [bv, bit]

/-! ### chains of X gates -/

def xOp (q : Nat) : Op R := ⟨Gates.x, [q]⟩

/-- toggling the qubits of `F` in an assignment -/
def tog (n : Nat) (F : List Nat) (x : BV (Fin n)) : BV (Fin n) := fun p => if p.val ∈ F then !x p else x p


/-! ### executable application in specification form -/

theorem liftApplyAll_cons (o : Op R) (gs : List (Op R)) (v : Mat R) :
    Lift.applyAll (o :: gs) v = (Lift.applyOp o v).bind (Lift.applyAll gs) := by
  simp [Lift.applyAll, List.foldlM_cons]; rfl

theorem liftApplyAll_append (a b : List (Op R)) (v : Mat R) :
    Lift.applyAll (a ++ b) v = (Lift.applyAll a v).bind (Lift.applyAll b) := by
  simp [Lift.applyAll, List.foldlM_append]; rfl

/-- executable application of a list of valid gate operations = the circuit's specification matrix on the state -/
theorem exec_spec (n : Nat) (gs : List (Op R)) (h : ∀ o ∈ gs, C01.OpValid n o) (v : Mat R)
    (hvr : v.r = 2 ^ n) (hvc : v.c = 1) :
    ∃ w, Lift.applyAll gs v = some w ∧ w.r = 2 ^ n ∧ w.c = 1 ∧
      stateOf n w = C01.circSem n (gs.map C01.Oper.gate) *ᵥ stateOf n v := by
  have hv : ∀ op ∈ gs.map C01.Oper.gate, C01.OperValid n op := by
    intro op hop
    obtain ⟨o, ho, rfl⟩ := List.mem_map.mp hop
    exact h o ho
  obtain ⟨w, hw, hr, hc, hs⟩ := C01.applyAll_eq_circuit_matrix n (gs.map C01.Oper.gate) hv v hvr hvc
  exact ⟨w, by rw [liftApplyAll_eq n gs h v hvr hvc, hw], hr, hc, stateOf_mul n w v _ hs⟩

/-- one valid gate operation: the state is multiplied by `Spec.lift` of the gate's own matrix along its qubits -/
theorem exec_one (n : Nat) (o : Op R) (h : C01.OpValid n o) (w : Mat R) (hr : w.r = 2 ^ n) (hc : w.c = 1) :
    ∃ w', Lift.applyAll [o] w = some w' ∧ w'.r = 2 ^ n ∧ w'.c = 1 ∧
      stateOf n w' = lift (C01.sigmaOf o.qs n h.nodup h.lt) (C01.toBV o.qs.length o.m) *ᵥ stateOf n w := by
  obtain ⟨w', h1, h2, h3, h4⟩ := exec_spec n [o] (by simpa using h) w hr hc
  refine ⟨w', h1, h2, h3, ?_⟩
  rw [h4]
  simp only [List.map_cons, List.map_nil, C01.circSem_cons, C01.circSem_nil, Matrix.one_mul, C01.operSem, C01.opSem]
  rw [dif_pos h]

/-- an X gate through the executable application: amplitude of `x` becomes that of `x` with qubit `q` flipped -/
theorem exec_x (n q : Nat) (hq : q < n) (w : Mat R) (hr : w.r = 2 ^ n) (hc : w.c = 1) :
    ∃ w', Lift.applyAll [xOp q] w = some w' ∧ w'.r = 2 ^ n ∧ w'.c = 1 ∧
      stateOf n w' = lift (sigmaX n q hq) (xGate (R := R)) *ᵥ stateOf n w := by
  obtain ⟨w', h1, h2, h3, h4⟩ := exec_spec n [xOp q] (by intro o ho; simp only [List.mem_singleton] at ho; subst ho; exact xValid n q hq) w hr hc
  refine ⟨w', h1, h2, h3, ?_⟩
  rw [h4]
  simp only [List.map_cons, List.map_nil, C01.circSem_cons, C01.circSem_nil, Matrix.one_mul, C01.operSem]
  rw [← opSem_x n q hq]; rfl

theorem flipAt_tog (n q : Nat) (hq : q < n) (F : List Nat) (hqF : q ∉ F) (x : BV (Fin n)) :
    flipAt (⟨q, hq⟩ : Fin n) (tog n F x) = tog n (q :: F) x := by
  funext p
  unfold flipAt tog
  by_cases hp : p = ⟨q, hq⟩
  · subst hp
    rw [Function.update_self]
    simp [hqF]
  · rw [Function.update_of_ne hp]
    have : p.val ≠ q := fun e => hp (Fin.ext e)
    simp [this]

/-- a chain of X gates on the distinct qubits `F`: the amplitude of `x` becomes that of `x` toggled on `F` -/
theorem exec_x_chain (n : Nat) (F : List Nat) (hnd : F.Nodup) (hF : ∀ q ∈ F, q < n) (v : Mat R)
    (hvr : v.r = 2 ^ n) (hvc : v.c = 1) :
    ∃ w, Lift.applyAll (F.map xOp) v = some w ∧ w.r = 2 ^ n ∧ w.c = 1 ∧
      stateOf n w = fun x => stateOf n v (tog n F x) := by
  induction F generalizing v with
  | nil => exact ⟨v, rfl, hvr, hvc, by funext x; congr 1⟩
  | cons q F ih =>
    have hq : q < n := hF q (by simp)
    obtain ⟨w1, h1, hr1, hc1, hs1⟩ := exec_x n q hq v hvr hvc
    obtain ⟨w, h2, hr2, hc2, hs2⟩ := ih (List.nodup_cons.mp hnd).2 (fun p hp => hF p (by simp [hp])) w1 hr1 hc1
    refine ⟨w, ?_, hr2, hc2, ?_⟩
    · rw [List.map_cons, liftApplyAll_cons]
      have : Lift.applyAll [xOp q] v = Lift.applyOp (xOp q) v := by
        rw [liftApplyAll_cons]; cases Lift.applyOp (xOp q) v <;> rfl
      rw [← this, h1]; exact h2
    · funext x
      rw [hs2, hs1]
      show (lift (sigmaX n q hq) (xGate (R := R)) *ᵥ stateOf n v) (tog n F x) = _
      rw [lift_x_mulVec, sigmaX_inl, flipAt_tog n q hq F (List.nodup_cons.mp hnd).1]

theorem tog_eq_false_iff (n : Nat) (F : List Nat) (x : BV (Fin n)) :
    tog n F x = (fun _ => false) ↔ x = fun p => decide (p.val ∈ F) := by
  constructor
  · intro h; funext p
    have := congrFun h p
    unfold tog at this
    by_cases hp : p.val ∈ F <;> simp_all
  · intro h; subst h; funext p
    unfold tog
    by_cases hp : p.val ∈ F <;> simp [hp]

/-- the executable circuit of X gates on the distinct qubits `F`, from `|0…0⟩`, produces the column of the basis state
    whose bits are the indicator of `F` -/
theorem exec_x_chain_zero (n : Nat) (F : List Nat) (hnd : F.Nodup) (hF : ∀ q ∈ F, q < n) :
    ∃ w, Lift.applyAll (F.map xOp) (zeroState (R := R) n) = some w ∧ w.r = 2 ^ n ∧ w.c = 1 ∧
      colAmps w = (List.range (2 ^ n)).map (fun i => if i = basisIndex n F then (1 : R) else 0) := by
  obtain ⟨w, h1, hr, hc, hs⟩ := exec_x_chain n F hnd hF (zeroState (R := R) n) rfl rfl
  refine ⟨w, h1, hr, hc, ?_⟩
  unfold colAmps
  rw [hr]
  apply List.map_congr_left
  intro i hi
  have hi' := List.mem_range.mp hi
  rw [← stateOf_bv n w i hi', hs, zeroState_eq, stateOf_basisCol n 0 (Nat.two_pow_pos n), bv_zero]
  show (if tog n F (bv n i) = (fun _ => false) then (1 : R) else 0) = _
  simp only [tog_eq_false_iff, ← bv_basisIndex]
  by_cases e : i = basisIndex n F
  · subst e; simp
  · have : bv n i ≠ bv n (basisIndex n F) := fun h => e (bv_inj n _ _ hi' (basisIndex_lt n F) h)
    simp [e, this]

end

section
variable {R : Type} [CommRing R] [StarRing R]

theorem toBV_unitary (k : Nat) (m : Mat R)
    (h : (Mat.toM (2 ^ k) (2 ^ k) m)ᴴ * Mat.toM (2 ^ k) (2 ^ k) m = 1) :
    (C01.toBV k m)ᴴ * C01.toBV k m = 1 := by
  unfold C01.toBV
  simp only [Matrix.reindex_apply]
  rw [Matrix.conjTranspose_submatrix, Matrix.submatrix_mul_equiv, h, Matrix.submatrix_one_equiv]

end
/-! ### Z strings and the Heisenberg picture of X -/

section
variable {R : Type} [CommRing R]

/-- the Z-type operator `c · ∏_{q ∈ marked} Z_q` as a one-term sum -/
def zString (marked : List Nat) (c : R) : PSum R := [⟨marked.map (fun q => (q, P.Z)), c⟩]

theorem zString_ztype (n : Nat) (marked : List Nat) (hnd : marked.Nodup) (hr : ∀ q ∈ marked, q < n) (c : R) :
    ZType n (zString marked c) := by
  intro t ht
  simp only [zString, List.mem_singleton] at ht
  subst ht
  have e : termQubits (⟨marked.map (fun q => (q, P.Z)), c⟩ : Term R) = marked := by
    simp [termQubits, List.map_map, Function.comp_def]
  refine ⟨?_, by rw [e]; exact hnd, by rw [e]; exact hr⟩
  intro p hp
  simp only [List.mem_map] at hp
  obtain ⟨q, _, rfl⟩ := hp
  rfl

theorem zString_qubits (marked : List Nat) (c : R) :
    termQubits (⟨marked.map (fun q => (q, P.Z)), c⟩ : Term R) = marked := by
  simp [termQubits, List.map_map, Function.comp_def]

/-- Heisenberg picture of an X gate on qubit `q`: every term containing `Z_q` changes sign -/
def xConj (q : Nat) (s : PSum R) : PSum R :=
  s.map (fun t => ⟨t.ops, (if q ∈ termQubits t then -1 else 1) * t.coeff⟩)

theorem xConj_ztype (n q : Nat) (s : PSum R) (hs : ZType n s) : ZType n (xConj q s) := by
  intro t ht
  simp only [xConj, List.mem_map] at ht
  obtain ⟨u, hu, rfl⟩ := ht
  exact hs u hu

theorem mem_qubitSet (n q : Nat) (hq : q < n) (marked : List Nat) :
    (⟨q, hq⟩ : Fin n) ∈ qubitSet n marked ↔ q ∈ marked := by
  simp [qubitSet]


/-! ### the views of a basis state -/

/-- the amplitude list of the basis state whose bits are the indicator of `F` -/
def basisAmps (n : Nat) (F : List Nat) : List R :=
  (List.range (2 ^ n)).map (fun i => if i = basisIndex n F then (1 : R) else 0)

theorem basisAmps_length (n : Nat) (F : List Nat) : (basisAmps (R := R) n F).length = 2 ^ n := by
  simp [basisAmps]

theorem basisAmps_getD (n : Nat) (F : List Nat) (i : Nat) :
    (basisAmps (R := R) n F).getD i 0 = if i = basisIndex n F then 1 else 0 := by
  unfold basisAmps
  by_cases hi : i < 2 ^ n
  · simp [List.getD_eq_getElem?_getD, hi]
  · have : i ≠ basisIndex n F := fun e => hi (e ▸ basisIndex_lt n F)
    simp [List.getD_eq_getElem?_getD, hi, this]

theorem basis_normSq (k : Scal R) (h1 : k.cj 1 = 1) (n : Nat) (F : List Nat) (i : Nat) :
    normSq k ((basisAmps (R := R) n F).getD i 0) = if i = basisIndex n F then 1 else 0 := by
  rw [basisAmps_getD]
  unfold normSq
  by_cases h : i = basisIndex n F <;> simp [h, h1]

theorem bits_eq_indicator_iff (n : Nat) (F : List Nat) (i : Nat) (hi : i < 2 ^ n) :
    bits n i = indicator n F ↔ i = basisIndex n F := by
  rw [← bits_basisIndex]
  exact ⟨bits_inj n _ _ hi (basisIndex_lt n F), fun e => by rw [e]⟩

theorem basis_distribution (k : Scal R) (h1 : k.cj 1 = 1) (n : Nat) (F : List Nat) :
    exactDistribution k (basisAmps (R := R) n F) =
      (List.range (2 ^ n)).map (fun i => (bits n i, if bits n i = indicator n F then (1 : R) else 0)) := by
  rw [dist_key_eq_bits k _ n (basisAmps_length n F)]
  apply List.map_congr_left
  intro i hi
  rw [basis_normSq k h1]
  simp only [bits_eq_indicator_iff n F i (List.mem_range.mp hi)]

theorem basis_lookup (k : Scal R) (h1 : k.cj 1 = 1) (n : Nat) (F : List Nat) :
    List.lookup (indicator n F) (exactDistribution k (basisAmps (R := R) n F)) = some 1 := by
  rw [basis_distribution k h1]
  apply lookup_of_mem
  · rw [List.map_map]; exact bits_keys_nodup n
  · refine List.mem_map.mpr ⟨basisIndex n F, List.mem_range.mpr (basisIndex_lt n F), ?_⟩
    simp [bits_basisIndex]

theorem basis_draws (k : Scal R) (n : Nat) (F : List Nat) (draws : List Nat)
    (hlaw : ∀ i ∈ draws, normSq k ((basisAmps (R := R) n F).getD i 0) ≠ 0) :
    ∀ i ∈ draws, i = basisIndex n F := by
  intro i hi
  by_contra h
  apply hlaw i hi
  rw [basisAmps_getD, if_neg h]
  simp [normSq]

theorem basis_samples (k : Scal R) (n : Nat) (F : List Nat) (nSamples : Int) (hs : 1 ≤ nSamples) (draws : List Nat)
    (hcount : (draws.length : Int) = nSamples)
    (hlaw : ∀ i ∈ draws, normSq k ((basisAmps (R := R) n F).getD i 0) ≠ 0) :
    runAndMeasure k (basisAmps (R := R) n F) nSamples draws = .ok (List.replicate draws.length (indicator n F)) := by
  have hd := basis_draws k n F draws hlaw
  rw [(tuple_of_index k _ n (basisAmps_length n F) nSamples hs draws hcount
    (fun i hi => by rw [hd i hi]; exact basisIndex_lt n F)).2]
  congr 1
  rw [List.eq_replicate_iff]
  refine ⟨by simp, ?_⟩
  intro t ht
  obtain ⟨i, hi, rfl⟩ := List.mem_map.mp ht
  rw [hd i hi, bits_basisIndex]

theorem basis_counts (m : Nat) (t : List Nat) :
    (getCounts (List.replicate m t)).get (tupleToBitstring t) = m := by
  rw [getCounts_get]; simp [tupleToBitstring]

theorem basis_measured (ofRat : Rat → R) (n : Nat) (hn : 1 ≤ n) (F : List Nat) (s : PSum R) (hs : ZType n s)
    (m : Nat) (hm : 1 ≤ m) :
    measuredExpectationValues ofRat s (List.replicate m (indicator n F)) =
      .ok (s.map (fun t => t.coeff * ofRat ((signOf (termQubits t) (indicator n F) : Int) : Rat))) := by
  rw [measured_expectation_eq_shot_average_partial ofRat n hn s hs _ (by
      intro h; have := congrArg List.length h; simp at this; omega)
    (fun t ht => by rw [(List.mem_replicate.mp ht).2]; exact indicator_length n F)]
  congr 1
  apply List.map_congr_left
  intro t _
  congr 2
  rw [List.map_replicate, List.sum_replicate, List.length_replicate]
  have hm' : (m : Rat) ≠ 0 := by exact_mod_cast (by omega : m ≠ 0)
  simp only [nsmul_eq_mul]
  push_cast
  field_simp


/-! ### `circuitWavefunction` -/

theorem nQubits_valid (n : Nat) (gs : List (Op R)) (h : ∀ o ∈ gs, C01.OpValid n o) : Lift.nQubits n gs = n := by
  unfold Lift.nQubits
  induction gs with
  | nil => rfl
  | cons o gs ih =>
    have ho := h o (by simp)
    have hlt : listMax o.qs < n := ho.lt _ (C01.listMax_mem o.qs ho.ne)
    have hne : o.qs.isEmpty = false := by
      cases hq : o.qs with
      | nil => exact absurd hq ho.ne
      | cons _ _ => rfl
    simp only [List.foldl_cons, hne, Bool.false_eq_true, if_false]
    rw [Nat.max_eq_left (by omega)]
    exact ih (fun o' ho' => h o' (by simp [ho']))

theorem foldl_add_eq_sum (l : List R) (a : R) : l.foldl (· + ·) a = a + l.sum := by
  induction l generalizing a with
  | nil => simp
  | cons x xs ih => simp only [List.foldl_cons, List.sum_cons, ih]; ring

theorem basis_mkWavefunction (k : Scal R) (h1 : k.cj 1 = 1) (isOne : R → Bool) (hone : isOne 1 = true)
    (n : Nat) (F : List Nat) :
    mkWavefunction k isOne (basisAmps (R := R) n F) = .ok (basisAmps n F) := by
  unfold mkWavefunction
  rw [basisAmps_length, C01.log2Exact_pow]
  simp only
  have : (getProbabilities k (basisAmps (R := R) n F)).foldl (· + ·) 0 = 1 := by
    rw [foldl_add_eq_sum, zero_add]
    unfold getProbabilities
    conv_lhs => rw [list_eq_map_range_getD (basisAmps (R := R) n F) 0, basisAmps_length]
    rw [List.map_map, sum_map_range]
    simp only [Function.comp_def, basis_normSq k h1]
    rw [Finset.sum_ite_eq' (Finset.range (2 ^ n)) (basisIndex n F) (fun _ => (1 : R)),
      if_pos (Finset.mem_range.mpr (basisIndex_lt n F))]
  rw [this, hone]
  rfl

theorem xOps_valid (n : Nat) (F : List Nat) (hF : ∀ q ∈ F, q < n) : ∀ o ∈ F.map (xOp (R := R)), C01.OpValid n o := by
  intro o ho
  obtain ⟨q, hq, rfl⟩ := List.mem_map.mp ho
  exact xValid n q (hF q hq)


/-! ### the gate's own slots as operator qubit indices -/

/-- the register qubits named by the gate's own slots `S'` (slot j ↦ `qs[j]`), as a list of operator qubit indices -/
def slotQubits (qs : List Nat) (S' : Finset (Fin qs.length)) : List Nat :=
  ((List.finRange qs.length).filter (fun j => j ∈ S')).map (fun j => qs[j.val])

theorem slotQubits_nodup (qs : List Nat) (hd : qs.Nodup) (S' : Finset (Fin qs.length)) : (slotQubits qs S').Nodup := by
  unfold slotQubits
  apply List.Nodup.map_on
  · intro a _ b _ h
    exact Fin.ext ((hd.getElem_inj_iff).mp h)
  · exact (List.nodup_finRange _).filter _

theorem slotQubits_lt (qs : List Nat) (n : Nat) (hlt : ∀ q ∈ qs, q < n) (S' : Finset (Fin qs.length)) :
    ∀ q ∈ slotQubits qs S', q < n := by
  intro q hq
  simp only [slotQubits, List.mem_map] at hq
  obtain ⟨j, _, rfl⟩ := hq
  exact hlt _ (List.getElem_mem _)

theorem qubitSet_slotQubits (qs : List Nat) (n : Nat) (hd : qs.Nodup) (hlt : ∀ q ∈ qs, q < n)
    (S' : Finset (Fin qs.length)) :
    qubitSet n (slotQubits qs S') =
      S'.map ⟨fun j => C01.sigmaOf qs n hd hlt (Sum.inl j), fun a b h => by simpa using h⟩ := by
  ext q
  simp only [qubitSet, slotQubits, Finset.mem_filter, Finset.mem_univ, true_and, List.mem_map, List.mem_filter,
    List.mem_finRange, decide_eq_true_eq, Finset.mem_map]
  constructor
  · rintro ⟨j, hj, e⟩
    exact ⟨j, hj, Fin.ext e⟩
  · rintro ⟨j, hj, e⟩
    exact ⟨j, hj, (congrArg Fin.val e)⟩


end
end OQ.C04.Link
