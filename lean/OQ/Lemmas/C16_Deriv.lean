import OQ.Lemmas.C16
import OQ.Lemmas.C16_Exp
import Mathlib.Algebra.BigOperators.Group.List.Basic
import Mathlib.Tactic.NoncommRing
import Mathlib.Tactic.Module
import Mathlib.Analysis.Calculus.Deriv.Mul
import Mathlib.Analysis.Calculus.Deriv.Add
import Mathlib.Analysis.Calculus.Deriv.Star
import Mathlib.Analysis.SpecialFunctions.Trigonometric.Deriv
set_option linter.unusedSectionVars false
namespace OQ.C16
open Matrix

section alg
variable {R : Type} [CommRing R] [StarRing R] {m : Type} [Fintype m] [DecidableEq m]

/-- (ᾱ·1 + β̄·P) X (α·1 + β·P) expanded -/
theorem sandwich (a' b' a b : R) (X P : Matrix m m R) :
    (a' • (1 : Matrix m m R) + b' • P) * X * (a • (1 : Matrix m m R) + b • P)
      = (a' * a) • X + (a' * b) • (X * P) + (b' * a) • (P * X) + (b' * b) • (P * X * P) := by
  simp only [Matrix.add_mul, Matrix.mul_add, Matrix.smul_mul, Matrix.mul_smul, Matrix.one_mul, Matrix.mul_one,
    smul_smul, smul_add]
  module

/-- the rotation cos·1 − i sin·P with the (half-angle) point (c, s) -/
def rotM (k : Scal R) (P : Matrix m m R) (c s : R) : Matrix m m R := c • (1 : Matrix m m R) - (k.i * s) • P

theorem rotM_conjTranspose (k : Scal R) (hk : ScalLaws k) (P : Matrix m m R) (hP : Pᴴ = P) (c s : R)
    (hc : star c = c) (hs : star s = s) :
    (rotM k P c s)ᴴ = c • (1 : Matrix m m R) + (k.i * s) • P := by
  unfold rotM
  rw [Matrix.conjTranspose_sub, Matrix.conjTranspose_smul, Matrix.conjTranspose_smul, Matrix.conjTranspose_one, hP,
    star_mul', hk.star_i, hs, hc]
  simp only [neg_mul, neg_smul, sub_neg_eq_add]

/-- the parameter-shift rule as a ring identity: with V = c − i s P (P hermitian, c, s real),
    V' = −s − i c P its derivative in the half angle, V± the rotations by ±π/4 more,
    V'ᴴ X V + Vᴴ X V' = V₊ᴴ X V₊ − V₋ᴴ X V₋  for every X. -/
theorem param_shift_core (k : Scal R) (hk : ScalLaws k) (P : Matrix m m R) (hP : Pᴴ = P) (c s : R)
    (hc : star c = c) (hs : star s = s) (X : Matrix m m R) :
    (rotM k P (-s) c)ᴴ * X * rotM k P c s + (rotM k P c s)ᴴ * X * rotM k P (-s) c
      = (rotM k P (k.r * (c - s)) (k.r * (c + s)))ᴴ * X * rotM k P (k.r * (c - s)) (k.r * (c + s))
        - (rotM k P (k.r * (c + s)) (k.r * (s - c)))ᴴ * X * rotM k P (k.r * (c + s)) (k.r * (s - c)) := by
  have hr := hk.star_r
  rw [rotM_conjTranspose k hk P hP _ _ (by rw [star_neg, hs]) hc,
    rotM_conjTranspose k hk P hP _ _ hc hs,
    rotM_conjTranspose k hk P hP _ _ (by rw [star_mul', hr, star_sub, hc, hs]) (by rw [star_mul', hr, star_add, hc, hs]),
    rotM_conjTranspose k hk P hP _ _ (by rw [star_mul', hr, star_add, hc, hs]) (by rw [star_mul', hr, star_sub, hc, hs])]
  have e : ∀ c s : R, rotM k P c s = c • (1 : Matrix m m R) + (-(k.i * s)) • P := by
    intro c s; unfold rotM; rw [neg_smul, sub_eq_add_neg]
  rw [e, e, e, e, sandwich, sandwich, sandwich, sandwich]
  have h1 := hk.ii; have h2 := hk.rr
  have hX : -s * c + c * -s = k.r * (c - s) * (k.r * (c - s)) - k.r * (c + s) * (k.r * (c + s)) := by
    linear_combination (2 * c * s) * h2
  have hXP : -s * -(k.i * s) + c * -(k.i * c)
      = k.r * (c - s) * -(k.i * (k.r * (c + s))) - k.r * (c + s) * -(k.i * (k.r * (s - c))) := by
    linear_combination (k.i * (c * c - s * s)) * h2
  have hPX : k.i * c * c + k.i * s * -s
      = k.i * (k.r * (c + s)) * (k.r * (c - s)) - k.i * (k.r * (s - c)) * (k.r * (c + s)) := by
    linear_combination (-k.i * (c * c - s * s)) * h2
  have hPXP : k.i * c * -(k.i * s) + k.i * s * -(k.i * c)
      = k.i * (k.r * (c + s)) * -(k.i * (k.r * (c + s))) - k.i * (k.r * (s - c)) * -(k.i * (k.r * (s - c))) := by
    linear_combination (2 * k.i * k.i * c * s) * h2
  linear_combination (norm := module) hX • X + hXP • (X * P) + hPX • (P * X) + hPXP • (P * X * P)

end alg
section lists
variable {R : Type} [CommRing R] [StarRing R] {m : Type} [Fintype m] [DecidableEq m]

/-- one factor of a step with what the derivative needs: the factor, its derivative direction, the two shifted
    factors, and the rate r (d/dt factor = r • V') -/
structure FData (m R : Type) where
  V : Matrix m m R
  V' : Matrix m m R
  Vp : Matrix m m R
  Vm : Matrix m m R
  r : R

/-- the parameter-shift identity for one factor inside any product -/
def FData.ShiftOK (d : FData m R) : Prop :=
  star d.r = d.r ∧ ∀ A B O : Matrix m m R,
    (A * d.V' * B)ᴴ * O * (A * d.V * B) + (A * d.V * B)ᴴ * O * (A * d.V' * B)
      = (A * d.Vp * B)ᴴ * O * (A * d.Vp * B) - (A * d.Vm * B)ᴴ * O * (A * d.Vm * B)

/-- product of a list of factors, the first listed rightmost (applied first) -/
def seqProd : List (Matrix m m R) → Matrix m m R
  | [] => 1
  | v :: rest => seqProd rest * v

theorem seqProd_append (a b : List (Matrix m m R)) : seqProd (a ++ b) = seqProd b * seqProd a := by
  induction a with
  | nil => simp [seqProd]
  | cons v a ih => simp [seqProd, ih, Matrix.mul_assoc]

/-- all ways to single out one element: (prefix, element, suffix) -/
def splits {α : Type} : List α → List (List α × α × List α)
  | [] => []
  | x :: xs => ([], x, xs) :: (splits xs).map (fun s => (x :: s.1, s.2.1, s.2.2))

theorem splits_spec {α : Type} (l : List α) : ∀ s ∈ splits l, l = s.1 ++ s.2.1 :: s.2.2 := by
  induction l with
  | nil => simp [splits]
  | cons x xs ih =>
    intro s hs
    simp only [splits, List.mem_cons, List.mem_map] at hs
    rcases hs with rfl | ⟨s', hs', rfl⟩
    · simp
    · simp only [List.cons_append]; rw [← ih s' hs']

theorem splits_mem {α : Type} (l : List α) : ∀ s ∈ splits l, s.2.1 ∈ l := by
  intro s hs
  rw [splits_spec l s hs]; simp

/-- the places of an n-step product where one factor sits: (everything after it, the factor, everything before it) -/
def places (n : ℕ) (ds : List (FData m R)) : List (Matrix m m R × FData m R × Matrix m m R) :=
  (List.range n).flatMap (fun p => (splits ds).map (fun s =>
    (seqProd (ds.map (·.V)) ^ (n - 1 - p) * seqProd (s.2.2.map (·.V)), s.2.1,
      seqProd (s.1.map (·.V)) * seqProd (ds.map (·.V)) ^ p)))

theorem places_spec (n : ℕ) (ds : List (FData m R)) :
    ∀ x ∈ places n ds, x.1 * x.2.1.V * x.2.2 = seqProd (ds.map (·.V)) ^ n ∧ x.2.1 ∈ ds := by
  intro x hx
  simp only [places, List.mem_flatMap, List.mem_range, List.mem_map] at hx
  obtain ⟨p, hp, s, hs, rfl⟩ := hx
  refine ⟨?_, splits_mem ds s hs⟩
  have h1 : seqProd (s.2.2.map (·.V)) * s.2.1.V * seqProd (s.1.map (·.V)) = seqProd (ds.map (·.V)) := by
    conv_rhs => rw [splits_spec ds s hs]
    simp [seqProd_append, seqProd, Matrix.mul_assoc]
  set S := seqProd (ds.map (·.V)) with hS
  calc S ^ (n - 1 - p) * seqProd (s.2.2.map (·.V)) * s.2.1.V * (seqProd (s.1.map (·.V)) * S ^ p)
      = S ^ (n - 1 - p) * (seqProd (s.2.2.map (·.V)) * s.2.1.V * seqProd (s.1.map (·.V))) * S ^ p := by
        simp only [Matrix.mul_assoc]
    _ = S ^ n := by
        rw [h1, ← pow_succ, ← pow_add]; congr 1; omega

/-- the formal (Leibniz) derivative of the n-step product -/
def dProd (n : ℕ) (ds : List (FData m R)) : Matrix m m R :=
  ((places n ds).map (fun x => x.2.1.r • (x.1 * x.2.1.V' * x.2.2))).sum

/-- the shifted products with their factors: what the derivative circuits denote -/
def shiftList (n : ℕ) (ds : List (FData m R)) : List (R × Matrix m m R) :=
  (places n ds).flatMap (fun x => [(x.2.1.r, x.1 * x.2.1.Vp * x.2.2), (-x.2.1.r, x.1 * x.2.1.Vm * x.2.2)])

/-- Leibniz + parameter shift: with W the n-step product and DW its formal derivative,
    DWᴴ O W + Wᴴ O DW = Σ factor • (shifted productᴴ O shifted product) -/
theorem leibniz_shift_list (L : List (Matrix m m R × FData m R × Matrix m m R)) (W O : Matrix m m R)
    (hL : ∀ x ∈ L, x.1 * x.2.1.V * x.2.2 = W ∧ x.2.1.ShiftOK) :
    ((L.map (fun x => x.2.1.r • (x.1 * x.2.1.V' * x.2.2))).sum)ᴴ * O * W
      + Wᴴ * O * (L.map (fun x => x.2.1.r • (x.1 * x.2.1.V' * x.2.2))).sum
    = ((L.flatMap (fun x => [(x.2.1.r, x.1 * x.2.1.Vp * x.2.2), (-x.2.1.r, x.1 * x.2.1.Vm * x.2.2)])).map
        (fun y => y.1 • (y.2ᴴ * O * y.2))).sum := by
  induction L with
  | nil => simp
  | cons x L ih =>
    have hx := hL x List.mem_cons_self
    have ih' := ih (fun y hy => hL y (List.mem_cons_of_mem _ hy))
    simp only [List.map_cons, List.sum_cons, List.flatMap_cons, List.cons_append, List.nil_append]
    rw [Matrix.conjTranspose_add, Matrix.add_mul, Matrix.add_mul, Matrix.mul_add]
    have key := hx.2.2 x.1 x.2.2 O
    rw [hx.1] at key
    have e1 : (x.2.1.r • (x.1 * x.2.1.V' * x.2.2))ᴴ * O * W + Wᴴ * O * (x.2.1.r • (x.1 * x.2.1.V' * x.2.2))
        = x.2.1.r • ((x.1 * x.2.1.Vp * x.2.2)ᴴ * O * (x.1 * x.2.1.Vp * x.2.2))
          + (-x.2.1.r) • ((x.1 * x.2.1.Vm * x.2.2)ᴴ * O * (x.1 * x.2.1.Vm * x.2.2)) := by
      rw [Matrix.conjTranspose_smul, hx.2.1, Matrix.smul_mul, Matrix.smul_mul, Matrix.mul_smul, ← smul_add, key]
      rw [neg_smul, smul_sub, sub_eq_add_neg]
    rw [← ih']
    linear_combination (norm := abel) e1

end lists

open Complex
section analytic
variable {m : Type} [Fintype m] [DecidableEq m]

/-- entrywise derivative of a matrix-valued function of a real variable -/
def MDeriv (F : ℝ → Matrix m m ℂ) (F' : Matrix m m ℂ) (t : ℝ) : Prop :=
  ∀ x y, HasDerivAt (fun s => F s x y) (F' x y) t

theorem MDeriv.const (A : Matrix m m ℂ) (t : ℝ) : MDeriv (fun _ => A) 0 t := by
  intro x y; simpa using hasDerivAt_const t (A x y)

theorem MDeriv.mul {F G : ℝ → Matrix m m ℂ} {F' G' : Matrix m m ℂ} {t : ℝ}
    (hF : MDeriv F F' t) (hG : MDeriv G G' t) : MDeriv (fun s => F s * G s) (F' * G t + F t * G') t := by
  intro x y
  have : HasDerivAt (fun s => ∑ z, F s x z * G s z y) (∑ z, (F' x z * G t z y + F t x z * G' z y)) t :=
    HasDerivAt.fun_sum (fun z _ => (hF x z).mul (hG z y))
  simpa [Matrix.mul_apply, Matrix.add_apply, Finset.sum_add_distrib] using this

theorem MDeriv.conjTranspose {F : ℝ → Matrix m m ℂ} {F' : Matrix m m ℂ} {t : ℝ}
    (hF : MDeriv F F' t) : MDeriv (fun s => (F s)ᴴ) F'ᴴ t := by
  intro x y
  simpa [Matrix.conjTranspose_apply] using (hF y x).star

theorem mderiv_seqProd (Fs : List ((ℝ → Matrix m m ℂ) × Matrix m m ℂ)) (t : ℝ)
    (h : ∀ f ∈ Fs, MDeriv f.1 f.2 t) :
    MDeriv (fun s => seqProd (Fs.map (fun f => f.1 s)))
      (((splits Fs).map (fun sp => seqProd (sp.2.2.map (fun f => f.1 t)) * sp.2.1.2 * seqProd (sp.1.map (fun f => f.1 t)))).sum) t := by
  induction Fs with
  | nil => simpa [OQ.C16.seqProd, splits] using MDeriv.const (1 : Matrix m m ℂ) t
  | cons f Fs ih =>
    have ih' := ih (fun g hg => h g (List.mem_cons_of_mem _ hg))
    have hf := h f List.mem_cons_self
    have := ih'.mul hf
    have e : ((splits (f :: Fs)).map (fun sp => seqProd (sp.2.2.map (fun f => f.1 t)) * sp.2.1.2 * seqProd (sp.1.map (fun f => f.1 t)))).sum
        = ((splits Fs).map (fun sp => seqProd (sp.2.2.map (fun f => f.1 t)) * sp.2.1.2 * seqProd (sp.1.map (fun f => f.1 t)))).sum * f.1 t
          + seqProd (Fs.map (fun f => f.1 t)) * f.2 := by
      simp only [splits, List.map_cons, List.sum_cons, List.map_map]
      rw [add_comm]
      congr 1
      · rw [← List.sum_map_mul_right]
        congr 1
        apply List.map_congr_left
        intro sp _
        simp [seqProd, Function.comp, Matrix.mul_assoc]
      · simp [seqProd]
    rw [e]
    exact this

theorem mderiv_pow {S : ℝ → Matrix m m ℂ} {S' : Matrix m m ℂ} {t : ℝ} (hS : MDeriv S S' t) (n : ℕ) :
    MDeriv (fun s => S s ^ n) (((List.range n).map (fun p => S t ^ (n - 1 - p) * S' * S t ^ p)).sum) t := by
  induction n with
  | zero => simpa using MDeriv.const (1 : Matrix m m ℂ) t
  | succ n ih =>
    have := hS.mul ih
    simp only [← pow_succ'] at this
    convert this using 1
    rw [List.range_succ, List.map_append, List.sum_append]
    simp only [List.map_cons, List.map_nil, List.sum_cons, List.sum_nil, add_zero, Nat.add_sub_cancel, Nat.sub_self,
      pow_zero, Matrix.one_mul]
    rw [add_comm]
    congr 1
    rw [← List.sum_map_mul_left]
    congr 1
    apply List.map_congr_left
    intro p hp
    have hp' : p < n := List.mem_range.mp hp
    have : n - p = (n - 1 - p) + 1 := by omega
    rw [this, pow_succ']
    simp only [Matrix.mul_assoc]

end analytic

section analytic2
variable {m : Type} [Fintype m] [DecidableEq m]

/-- the rotation exp(−iφP) = cos φ − i sin φ P over ℂ, for a real φ -/
noncomputable def rotC (P : Matrix m m ℂ) (φ : ℝ) : Matrix m m ℂ :=
  rotM Scal.complex P (Real.cos φ : ℂ) (Real.sin φ : ℂ)

theorem rotC_deriv (P : Matrix m m ℂ) (r t : ℝ) :
    MDeriv (fun s => rotC P (s * r)) ((r : ℂ) • rotM Scal.complex P (-(Real.sin (t * r) : ℂ)) (Real.cos (t * r) : ℂ)) t := by
  intro x y
  have hc : HasDerivAt (fun s : ℝ => ((Real.cos (s * r) : ℝ) : ℂ)) (((-Real.sin (t * r) * r : ℝ)) : ℂ) t := by
    have := ((Real.hasDerivAt_cos (t * r)).comp t ((hasDerivAt_id t).mul_const r))
    simpa using this.ofReal_comp
  have hs : HasDerivAt (fun s : ℝ => ((Real.sin (s * r) : ℝ) : ℂ)) (((Real.cos (t * r) * r : ℝ)) : ℂ) t := by
    have := ((Real.hasDerivAt_sin (t * r)).comp t ((hasDerivAt_id t).mul_const r))
    simpa using this.ofReal_comp
  have := (hc.mul_const ((1 : Matrix m m ℂ) x y)).fun_sub ((hs.const_mul I).mul_const (P x y))
  simp only [rotC, rotM, Scal.complex, Matrix.sub_apply, Matrix.smul_apply, smul_eq_mul]
  exact this.congr_deriv (by push_cast; ring)

/-- ψᴴ M ψ -/
def quad (M : Matrix m m ℂ) (ψ : m → ℂ) : ℂ := ∑ x, ∑ y, star (ψ x) * M x y * ψ y

/-- the expectation ⟨Uψ| O |Uψ⟩ -/
def expect (O U : Matrix m m ℂ) (ψ : m → ℂ) : ℂ := star (U *ᵥ ψ) ⬝ᵥ (O *ᵥ (U *ᵥ ψ))

theorem expect_eq_quad (O U : Matrix m m ℂ) (ψ : m → ℂ) : expect O U ψ = quad (Uᴴ * O * U) ψ := by
  unfold expect quad
  have h1 : star (U *ᵥ ψ) = star ψ ᵥ* Uᴴ := Matrix.star_mulVec U ψ
  rw [h1, Matrix.mulVec_mulVec, Matrix.dotProduct_mulVec, Matrix.vecMul_vecMul, ← Matrix.dotProduct_mulVec]
  simp only [dotProduct, Matrix.mulVec, Pi.star_apply, Finset.mul_sum, Matrix.mul_assoc]
  apply Finset.sum_congr rfl; intro x _
  apply Finset.sum_congr rfl; intro y _
  ring

theorem quad_add (A B : Matrix m m ℂ) (ψ : m → ℂ) : quad (A + B) ψ = quad A ψ + quad B ψ := by
  simp only [quad, Matrix.add_apply, mul_add, add_mul, Finset.sum_add_distrib]

theorem quad_smul (c : ℂ) (A : Matrix m m ℂ) (ψ : m → ℂ) : quad (c • A) ψ = c * quad A ψ := by
  simp only [quad, Matrix.smul_apply, smul_eq_mul, Finset.mul_sum]
  apply Finset.sum_congr rfl; intro x _
  apply Finset.sum_congr rfl; intro y _
  ring

theorem quad_zero (ψ : m → ℂ) : quad (0 : Matrix m m ℂ) ψ = 0 := by simp [quad]

theorem quad_list_sum {α : Type} (L : List α) (f : α → Matrix m m ℂ) (ψ : m → ℂ) :
    quad ((L.map f).sum) ψ = (L.map (fun a => quad (f a) ψ)).sum := by
  induction L with
  | nil => simp [quad_zero]
  | cons a L ih => simp [quad_add, ih]

theorem MDeriv.quad {F : ℝ → Matrix m m ℂ} {F' : Matrix m m ℂ} {t : ℝ} (hF : MDeriv F F' t) (ψ : m → ℂ) :
    HasDerivAt (fun s => OQ.C16.quad (F s) ψ) (OQ.C16.quad F' ψ) t := by
  unfold OQ.C16.quad
  apply HasDerivAt.fun_sum; intro x _
  apply HasDerivAt.fun_sum; intro y _
  exact ((hF x y).const_mul (star (ψ x))).mul_const (ψ y)

/-- d/dt ⟨W(t)ψ| O |W(t)ψ⟩ -/
theorem expect_deriv {W : ℝ → Matrix m m ℂ} {DW : Matrix m m ℂ} {t : ℝ} (hW : MDeriv W DW t) (O : Matrix m m ℂ) (ψ : m → ℂ) :
    HasDerivAt (fun s => expect O (W s) ψ) (OQ.C16.quad (DWᴴ * O * W t + (W t)ᴴ * O * DW) ψ) t := by
  have h := ((hW.conjTranspose.mul (MDeriv.const O t)).mul hW).quad ψ
  simp only [Matrix.mul_zero, add_zero] at h
  simpa only [expect_eq_quad] using h

end analytic2

end OQ.C16
