/- C08 helper lemmas, circuit level: the denotation `Uc` of the model's operation lists over bit assignments,
   index arithmetic, per-operation lemmas for dagger / control / widening, fold lemmas of the builders
   (not property theorems). -/
import OQ.Lemmas.C08_Gate
import OQ.Lemmas.C08_Spec
import Mathlib.Data.Fin.SuccPred
import Mathlib.Data.List.Perm.Basic
import Mathlib.Data.List.Dedup
import Mathlib.Logic.Equiv.Fin.Basic
set_option linter.unusedSectionVars false
set_option linter.unusedSimpArgs false

namespace OQ.C08
open Matrix OQ.Spec
open Classical

variable {R : Type} [CommRing R] [StarRing R]

/-! ### denotation of the model's operations over bit assignments -/

def bit (b : Bool) : Nat := if b then 1 else 0

/-- the bits of `x` on the qubits `qs` (in the listed order) -/
def bitsL (n : Nat) (qs : List Nat) (x : BV (Fin n)) : List Nat :=
  qs.map (fun q => if h : q < n then bit (x ⟨q, h⟩) else 0)

/-- … read as a row/column index of the gate matrix: first listed qubit = most significant bit
    (`Lift.bitsToIndex`, the convention of `_unitary_tools.py`) -/
def idxL (n : Nat) (qs : List Nat) (x : BV (Fin n)) : Nat := Lift.bitsToIndex (bitsL n qs x)

/-- gate matrix `m` on the qubits `qs` of an `n`-qubit register, pointwise (the `lift_apply` form):
    assignments that agree off `qs` ⇒ the entry of `m` at the restricted assignments, otherwise 0 -/
noncomputable def opDen (n : Nat) (m : Mat R) (qs : List Nat) : Matrix (BV (Fin n)) (BV (Fin n)) R :=
  fun x y => if (∀ i : Fin n, i.val ∉ qs → x i = y i) then m.get (idxL n qs x) (idxL n qs y) else 0

/-- the operation is well formed on `n` qubits: distinct in-range qubits, matrix of size `2^|qs|` -/
def OpWF (n : Nat) (m : Mat R) (qs : List Nat) : Prop :=
  qs.Nodup ∧ (∀ q ∈ qs, q < n) ∧ m.r = 2 ^ qs.length ∧ m.c = 2 ^ qs.length

noncomputable def opDen? (k : Scal R) (x : Ext R) (n : Nat) (o : GOp (Gate R)) :
    Option (Matrix (BV (Fin n)) (BV (Fin n)) R) :=
  (Gate.matrix k x o.gate).bind (fun m => if OpWF n m o.qs then some (opDen n m o.qs) else none)

/-- the action of a list of operations on `n` qubits (first operation = rightmost factor);
    `none` when some operation is ill formed or sympy raises.  The empty list acts as the identity. -/
noncomputable def Uc (k : Scal R) (x : Ext R) (n : Nat) :
    List (GOp (Gate R)) → Option (Matrix (BV (Fin n)) (BV (Fin n)) R)
  | [] => some 1
  | o :: rest => (Uc k x n rest).bind (fun a => (opDen? k x n o).map (fun l => a * l))

theorem Uc_append (k : Scal R) (x : Ext R) (n : Nat) (a b : List (GOp (Gate R))) :
    Uc k x n (a ++ b) = (Uc k x n b).bind (fun ub => (Uc k x n a).map (fun ua => ub * ua)) := by
  induction a with
  | nil => simp [Uc]
  | cons o rest ih =>
    simp only [List.cons_append, Uc, ih]
    cases Uc k x n b with
    | none => simp
    | some ub =>
      cases Uc k x n rest with
      | none => simp
      | some ur =>
        cases opDen? k x n o with
        | none => simp
        | some l => simp [Matrix.mul_assoc]

/-! ### index arithmetic -/

theorem bitsToIndex_cons (b : Nat) (bs : List Nat) :
    Lift.bitsToIndex (b :: bs) = b * 2 ^ bs.length + Lift.bitsToIndex bs := by
  unfold Lift.bitsToIndex
  have gen : ∀ (l : List Nat) (a : Nat), l.foldl (fun acc b => 2 * acc + b) a
      = a * 2 ^ l.length + l.foldl (fun acc b => 2 * acc + b) 0 := by
    intro l
    induction l with
    | nil => intro a; simp
    | cons c l ih =>
      intro a
      simp only [List.foldl_cons, List.length_cons]
      rw [ih (2 * a + c), ih (2 * 0 + c)]
      ring
  simp only [List.foldl_cons]
  rw [gen bs (2 * 0 + b)]; ring

theorem bitsToIndex_lt (bs : List Nat) (h : ∀ b ∈ bs, b ≤ 1) : Lift.bitsToIndex bs < 2 ^ bs.length := by
  induction bs with
  | nil => simp [Lift.bitsToIndex]
  | cons b bs ih =>
    rw [bitsToIndex_cons]
    have hb : b ≤ 1 := h b (by simp)
    have := ih (fun c hc => h c (by simp [hc]))
    simp only [List.length_cons, Nat.pow_succ]
    nlinarith

theorem bitsToIndex_inj (as bs : List Nat) (hl : as.length = bs.length) (ha : ∀ b ∈ as, b ≤ 1)
    (hb : ∀ b ∈ bs, b ≤ 1) (h : Lift.bitsToIndex as = Lift.bitsToIndex bs) : as = bs := by
  induction as generalizing bs with
  | nil => cases bs with
    | nil => rfl
    | cons b bs => simp at hl
  | cons a as ih =>
    cases bs with
    | nil => simp at hl
    | cons b bs =>
      simp only [List.length_cons, Nat.add_right_cancel_iff] at hl
      rw [bitsToIndex_cons, bitsToIndex_cons, hl] at h
      have h1 := bitsToIndex_lt as (fun c hc => ha c (by simp [hc]))
      have h2 := bitsToIndex_lt bs (fun c hc => hb c (by simp [hc]))
      rw [hl] at h1
      have ha1 : a ≤ 1 := ha a (by simp)
      have hb1 : b ≤ 1 := hb b (by simp)
      have hab : a = b := by
        rcases Nat.lt_trichotomy a b with hlt | heq | hgt
        · exfalso; have : a = 0 := by omega
          have : b = 1 := by omega
          subst_vars; omega
        · exact heq
        · exfalso; have : b = 0 := by omega
          have : a = 1 := by omega
          subst_vars; omega
      subst hab
      have : Lift.bitsToIndex as = Lift.bitsToIndex bs := by omega
      rw [ih bs hl (fun c hc => ha c (by simp [hc])) (fun c hc => hb c (by simp [hc])) this]

theorem bit_le (b : Bool) : bit b ≤ 1 := by cases b <;> simp [bit]

theorem bitsL_le (n : Nat) (qs : List Nat) (x : BV (Fin n)) : ∀ b ∈ bitsL n qs x, b ≤ 1 := by
  intro b hb
  simp only [bitsL, List.mem_map] at hb
  obtain ⟨q, _, rfl⟩ := hb
  split
  · exact bit_le _
  · omega

theorem bitsL_length (n : Nat) (qs : List Nat) (x : BV (Fin n)) : (bitsL n qs x).length = qs.length := by
  simp [bitsL]

theorem idxL_lt (n : Nat) (qs : List Nat) (x : BV (Fin n)) : idxL n qs x < 2 ^ qs.length := by
  have := bitsToIndex_lt (bitsL n qs x) (bitsL_le n qs x)
  rwa [bitsL_length] at this

/-- equal indices ⇔ the assignments agree on the listed qubits -/
theorem idxL_eq_iff (n : Nat) (qs : List Nat) (hq : ∀ q ∈ qs, q < n) (x y : BV (Fin n)) :
    idxL n qs x = idxL n qs y ↔ ∀ i : Fin n, i.val ∈ qs → x i = y i := by
  constructor
  · intro h i hi
    have hb := bitsToIndex_inj _ _ (by rw [bitsL_length, bitsL_length]) (bitsL_le n qs x) (bitsL_le n qs y) h
    simp only [bitsL, List.map_inj_left] at hb
    have := hb i.val hi
    simp only [i.2, dite_true] at this
    revert this
    cases x i <;> cases y i <;> simp [bit]
  · intro h
    unfold idxL bitsL
    congr 1
    apply List.map_congr_left
    intro q hq'
    have hqn := hq q hq'
    simp only [hqn, dite_true]
    rw [h ⟨q, hqn⟩ hq']

/-! ### dagger -/

theorem opDen_adj (k : Scal R) (hk : k.cj = star) (n : Nat) (m : Mat R) (qs : List Nat) :
    opDen n (Gate.adj k m) qs = (opDen n m qs)ᴴ := by
  ext x y
  simp only [opDen, Matrix.conjTranspose_apply]
  by_cases h : ∀ i : Fin n, i.val ∉ qs → x i = y i
  · have h' : ∀ i : Fin n, i.val ∉ qs → y i = x i := fun i hi => (h i hi).symm
    rw [if_pos h, if_pos h', Gate.adj_get k hk]
  · have h' : ¬ ∀ i : Fin n, i.val ∉ qs → y i = x i := fun hh => h (fun i hi => (hh i hi).symm)
    rw [if_neg h, if_neg h', star_zero]

theorem opWF_adj (k : Scal R) (n : Nat) (m : Mat R) (qs : List Nat) :
    OpWF n (Gate.adj k m) qs ↔ OpWF n m qs := by
  simp only [OpWF, Gate.adj_r, Gate.adj_c]; tauto

/-- an operation whose gate was replaced by a gate denoting the adjoint denotes the adjoint -/
theorem opDen?_dagger (k : Scal R) (hk : k.cj = star) (x : Ext R) (n : Nat) (g g' : Gate R) (qs : List Nat)
    (h : Gate.matrix k x g' = (Gate.matrix k x g).map (Gate.adj k)) :
    opDen? k x n ⟨g', qs⟩ = (opDen? k x n ⟨g, qs⟩).map conjTranspose := by
  simp only [opDen?, h]
  cases Gate.matrix k x g with
  | none => rfl
  | some m =>
    simp only [Option.map_some, Option.bind_some, opWF_adj]
    by_cases hw : OpWF n m qs
    · simp [hw, opDen_adj k hk]
    · simp [hw]

theorem Uc_reverse_dagger (k : Scal R) (hk : k.cj = star) (x : Ext R) (n : Nat) (dg : Gate R → Gate R)
    (ops : List (GOp (Gate R)))
    (h : ∀ o ∈ ops, Gate.matrix k x (dg o.gate) = (Gate.matrix k x o.gate).map (Gate.adj k)) :
    Uc k x n (ops.reverse.map (fun o => ⟨dg o.gate, o.qs⟩)) = (Uc k x n ops).map conjTranspose := by
  induction ops with
  | nil => simp [Uc]
  | cons o rest ih =>
    have ih' := ih (fun o' ho' => h o' (by simp [ho']))
    simp only [List.reverse_cons, List.map_append, List.map_cons, List.map_nil, Uc_append, ih', Uc]
    rw [opDen?_dagger k hk x n o.gate (dg o.gate) o.qs (h o (by simp))]
    cases Uc k x n rest with
    | none => cases opDen? k x n o <;> simp
    | some ur =>
      cases opDen? k x n o with
      | none => simp
      | some l => simp [Matrix.conjTranspose_mul]


/-! ### one control in front of an operation -/

theorem shiftIdx_ne (ci q : Nat) : shiftIdx ci q ≠ ci := by unfold shiftIdx; split <;> omega
theorem shiftIdx_inj (ci a b : Nat) (h : shiftIdx ci a = shiftIdx ci b) : a = b := by
  unfold shiftIdx at h; split at h <;> split at h <;> omega

/-- `Fin.succAbove` is the index shift of `Circuit.controlled` -/
theorem succAbove_val (n : Nat) (c : Fin (n + 1)) (i : Fin n) : (c.succAbove i).val = shiftIdx c.val i.val := by
  unfold Fin.succAbove shiftIdx
  by_cases h : i.castSucc < c
  · have : ¬ c.val ≤ i.val := by simpa [Fin.lt_def] using h
    simp [h, this]
  · have : c.val ≤ i.val := by simpa [Fin.lt_def] using h
    simp [h, this]

theorem bitsL_shift (n : Nat) (c : Fin (n + 1)) (qs : List Nat) (hq : ∀ q ∈ qs, q < n) (x : BV (Fin (n + 1))) :
    bitsL (n + 1) (qs.map (shiftIdx c.val)) x = bitsL n qs (fun i => x (c.succAbove i)) := by
  unfold bitsL
  rw [List.map_map]
  apply List.map_congr_left
  intro q hq'
  have hqn := hq q hq'
  have h1 : shiftIdx c.val q < n + 1 := by unfold shiftIdx; split <;> omega
  simp only [Function.comp, h1, hqn, dite_true]
  congr 2
  apply Fin.ext
  rw [succAbove_val]

theorem idxL_ctrl (n : Nat) (c : Fin (n + 1)) (qs : List Nat) (hq : ∀ q ∈ qs, q < n) (x : BV (Fin (n + 1))) :
    idxL (n + 1) (c.val :: qs.map (shiftIdx c.val)) x
      = bit (x c) * 2 ^ qs.length + idxL n qs (fun i => x (c.succAbove i)) := by
  unfold idxL
  have : bitsL (n + 1) (c.val :: qs.map (shiftIdx c.val)) x
      = bit (x c) :: bitsL (n + 1) (qs.map (shiftIdx c.val)) x := by
    have hc : c.val < n + 1 := c.2
    simp only [bitsL, List.map_cons, hc, dite_true, Fin.eta]
  rw [this, bitsToIndex_cons, bitsL_shift n c qs hq, bitsL_length]

theorem cond_ctrl (n : Nat) (c : Fin (n + 1)) (qs : List Nat) (x y : BV (Fin (n + 1))) :
    (∀ i : Fin (n + 1), i.val ∉ c.val :: qs.map (shiftIdx c.val) → x i = y i) ↔
    (∀ j : Fin n, j.val ∉ qs → x (c.succAbove j) = y (c.succAbove j)) := by
  constructor
  · intro h j hj
    apply h
    rw [succAbove_val]
    simp only [List.mem_cons, List.mem_map, not_or, not_exists, not_and]
    refine ⟨shiftIdx_ne _ _, ?_⟩
    intro q hq hs
    rw [shiftIdx_inj _ _ _ hs] at hq
    exact hj hq
  · intro h i hi
    simp only [List.mem_cons, List.mem_map, not_or, not_exists, not_and] at hi
    have hne : i ≠ c := fun hh => hi.1 (by rw [hh])
    obtain ⟨j, rfl⟩ := Fin.exists_succAbove_eq hne
    apply h
    intro hj
    exact hi.2 j.val hj (by rw [succAbove_val])

theorem ctrlAt_fin_apply (n : Nat) (c : Fin (n + 1)) (A : Matrix (BV (Fin n)) (BV (Fin n)) R)
    (x y : BV (Fin (n + 1))) :
    ctrlAt (finSuccEquiv' c).symm A x y =
      if x c = y c then
        (if x c = true then A (fun i => x (c.succAbove i)) (fun i => y (c.succAbove i))
         else (1 : Matrix (BV (Fin n)) (BV (Fin n)) R) (fun i => x (c.succAbove i)) (fun i => y (c.succAbove i)))
      else 0 := by
  rw [ctrlAt_apply]
  have e1 : ∀ z : BV (Fin (n + 1)), (fun i => z ((finSuccEquiv' c).symm (some i))) = fun i => z (c.succAbove i) := by
    intro z; funext i; rw [finSuccEquiv'_symm_some]
  rw [e1 x, e1 y, finSuccEquiv'_symm_none]

theorem opDen_ctrl (n : Nat) (c : Fin (n + 1)) (m : Mat R) (qs : List Nat) (hw : OpWF n m qs) :
    opDen (n + 1) (Gate.ctrlMat (2 ^ qs.length) m) (c.val :: qs.map (shiftIdx c.val))
      = ctrlAt (finSuccEquiv' c).symm (opDen n m qs) := by
  obtain ⟨_, hq, hr, hc⟩ := hw
  ext x y
  rw [ctrlAt_fin_apply]
  unfold opDen
  rw [idxL_ctrl n c qs hq x, idxL_ctrl n c qs hq y]
  have ha := idxL_lt n qs (fun i => x (c.succAbove i))
  have hb := idxL_lt n qs (fun i => y (c.succAbove i))
  have hp : 0 < 2 ^ qs.length := Nat.pos_of_ne_zero (by positivity)
  have hcc := cond_ctrl n c qs x y
  by_cases hcond : ∀ j : Fin n, j.val ∉ qs → x (c.succAbove j) = y (c.succAbove j)
  · rw [if_pos (hcc.mpr hcond), if_pos hcond]
    rw [Gate.ctrlMat_get _ _ _ _ (by rw [hr]; have := bit_le (x c); nlinarith)
      (by rw [hc]; have := bit_le (y c); nlinarith)]
    rcases Bool.eq_false_or_eq_true (x c) with hx | hx <;> rcases Bool.eq_false_or_eq_true (y c) with hy | hy <;>
      rw [hx, hy] <;> simp only [bit, if_true, if_false, Bool.false_eq_true, Bool.true_eq_false,
        zero_mul, zero_add, one_mul, reduceCtorEq]
    · rw [if_neg (by omega), if_pos (by omega)]
      simp only [Nat.add_sub_cancel_left]
    · rw [if_neg (by omega), if_neg (by omega)]
    · rw [if_neg (by omega), if_neg (by omega)]
    · -- control 0 / 0 : identity
      rw [if_pos ⟨ha, hb⟩, Matrix.one_apply]
      have hiff := idxL_eq_iff n qs hq (fun i => x (c.succAbove i)) (fun i => y (c.succAbove i))
      by_cases hab : idxL n qs (fun i => x (c.succAbove i)) = idxL n qs (fun i => y (c.succAbove i))
      · rw [if_pos hab, if_pos]
        funext j
        by_cases hj : j.val ∈ qs
        · exact (hiff.mp hab) j hj
        · exact hcond j hj
      · rw [if_neg hab, if_neg]
        intro hh; apply hab; rw [hh]
  · rw [if_neg (fun h => hcond (hcc.mp h)), if_neg hcond]
    rcases Bool.eq_false_or_eq_true (x c) with hx | hx <;> rcases Bool.eq_false_or_eq_true (y c) with hy | hy <;>
      rw [hx, hy] <;> simp only [if_true, if_false, Bool.false_eq_true, Bool.true_eq_false, reduceCtorEq]
    rw [Matrix.one_apply, if_neg]
    intro hh; apply hcond; intro j _; exact congrFun hh j


theorem opWF_ctrl (n : Nat) (c : Fin (n + 1)) (m : Mat R) (qs : List Nat) (d : Nat) (h1 : m.r = d) (h2 : m.c = d) :
    OpWF (n + 1) (Gate.ctrlMat d m) (c.val :: qs.map (shiftIdx c.val)) ↔ OpWF n m qs := by
  have hc := c.2
  have hnd : (c.val :: qs.map (shiftIdx c.val)).Nodup ↔ qs.Nodup := by
    rw [List.nodup_cons]
    constructor
    · intro h; exact List.Nodup.of_map _ h.2
    · intro h
      refine ⟨?_, List.Nodup.map (fun a b hab => shiftIdx_inj _ a b hab) h⟩
      simp only [List.mem_map, not_exists, not_and]
      intro q _ hq; exact shiftIdx_ne _ _ hq
  have hrange : (∀ q ∈ c.val :: qs.map (shiftIdx c.val), q < n + 1) ↔ (∀ q ∈ qs, q < n) := by
    simp only [List.mem_cons, List.mem_map, forall_eq_or_imp, hc, true_and, forall_exists_index, and_imp,
      forall_apply_eq_imp_iff₂]
    constructor
    · intro h q hq; have := h q hq; unfold shiftIdx at this; split at this <;> omega
    · intro h q hq; have := h q hq; unfold shiftIdx; split <;> omega
  have hdim : ∀ z : Nat, z = d → (d + z = 2 ^ (c.val :: qs.map (shiftIdx c.val)).length ↔ z = 2 ^ qs.length) := by
    intro z hz
    simp only [List.length_cons, List.length_map, Nat.pow_succ]; omega
  unfold OpWF
  rw [hnd, hrange, Gate.ctrlMat_r, Gate.ctrlMat_c, hdim _ h1, hdim _ h2]

/-- an operation whose gate was replaced by a gate denoting `diag(1, M)`, with the control put in front and the
    other indices shifted, denotes the controlled operation -/
theorem opDen?_ctrl (k : Scal R) (x : Ext R) (n : Nat) (c : Fin (n + 1)) (g g' : Gate R) (qs : List Nat)
    (h : Gate.matrix k x g' = (Gate.matrix k x g).map (Gate.ctrlMat (2 ^ Gate.nq g)))
    (hdim : ∀ m, Gate.matrix k x g = some m → m.r = 2 ^ Gate.nq g ∧ m.c = 2 ^ Gate.nq g) :
    opDen? k x (n + 1) ⟨g', c.val :: qs.map (shiftIdx c.val)⟩
      = (opDen? k x n ⟨g, qs⟩).map (ctrlAt (finSuccEquiv' c).symm) := by
  simp only [opDen?, h]
  cases hm : Gate.matrix k x g with
  | none => rfl
  | some m =>
    obtain ⟨d1, d2⟩ := hdim m hm
    simp only [Option.map_some, Option.bind_some, opWF_ctrl n c m qs _ d1 d2]
    by_cases hw : OpWF n m qs
    · have : 2 ^ Gate.nq g = 2 ^ qs.length := by rw [← d1, hw.2.2.1]
      simp only [hw, if_true, Option.map_some, this, opDen_ctrl n c m qs hw]
    · simp [hw]

theorem Uc_controlled (k : Scal R) (x : Ext R) (n : Nat) (c : Fin (n + 1)) (ctl : Gate R → Gate R)
    (ops : List (GOp (Gate R)))
    (h : ∀ o ∈ ops, Gate.matrix k x (ctl o.gate) = (Gate.matrix k x o.gate).map (Gate.ctrlMat (2 ^ Gate.nq o.gate)))
    (hdim : ∀ o ∈ ops, ∀ m, Gate.matrix k x o.gate = some m → m.r = 2 ^ Gate.nq o.gate ∧ m.c = 2 ^ Gate.nq o.gate) :
    Uc k x (n + 1) (ops.map (fun o => ⟨ctl o.gate, c.val :: o.qs.map (shiftIdx c.val)⟩))
      = (Uc k x n ops).map (ctrlAt (finSuccEquiv' c).symm) := by
  induction ops with
  | nil => simp [Uc, ctrlAt_one]
  | cons o rest ih =>
    have ih' := ih (fun o' ho' => h o' (by simp [ho'])) (fun o' ho' => hdim o' (by simp [ho']))
    simp only [List.map_cons, Uc, ih']
    rw [opDen?_ctrl k x n c o.gate (ctl o.gate) o.qs (h o (by simp)) (hdim o (by simp))]
    cases Uc k x n rest with
    | none => simp
    | some ur =>
      cases opDen? k x n o with
      | none => simp
      | some l => simp [ctrlAt_mul]


/-! ### widening the register (ancillas) -/

theorem idxL_widen (n k : Nat) (qs : List Nat) (hq : ∀ q ∈ qs, q < n) (x : BV (Fin (n + k))) :
    idxL (n + k) qs x = idxL n qs (x ∘ Fin.castAddEmb k) := by
  unfold idxL bitsL
  congr 1
  apply List.map_congr_left
  intro q hq'
  have h1 := hq q hq'
  have h2 : q < n + k := by omega
  simp only [h1, h2, dite_true, Function.comp]
  rfl

theorem range_castAdd (n k : Nat) (i : Fin (n + k)) : i ∈ Set.range (Fin.castAddEmb (n := n) k) ↔ i.val < n := by
  constructor
  · rintro ⟨j, rfl⟩; exact j.2
  · intro h; exact ⟨⟨i.val, h⟩, Fin.ext rfl⟩

theorem opDen_widen (n k : Nat) (m : Mat R) (qs : List Nat) (hq : ∀ q ∈ qs, q < n) :
    opDen (n + k) m qs = liftE (Fin.castAddEmb k) (opDen n m qs) := by
  ext x y
  rw [liftE_apply]
  unfold opDen
  rw [idxL_widen n k qs hq x, idxL_widen n k qs hq y]
  by_cases h : ∀ i : Fin (n + k), i.val ∉ qs → x i = y i
  · rw [if_pos h, if_pos, if_pos]
    · intro j hj; exact h _ hj
    · intro i hi; apply h; intro hmem; apply hi; rw [range_castAdd]; exact hq _ hmem
  · rw [if_neg h]
    by_cases h1 : ∀ i, i ∉ Set.range (Fin.castAddEmb (n := n) k) → x i = y i
    · rw [if_pos h1, if_neg]
      intro h2; apply h; intro i hi
      by_cases hin : i.val < n
      · exact h2 ⟨i.val, hin⟩ hi
      · apply h1; rw [range_castAdd]; exact hin
    · rw [if_neg h1]

theorem opDen?_widen (k : Scal R) (x : Ext R) (n j : Nat) (o : GOp (Gate R))
    (l : Matrix (BV (Fin n)) (BV (Fin n)) R) (h : opDen? k x n o = some l) :
    opDen? k x (n + j) o = some (liftE (Fin.castAddEmb j) l) := by
  unfold opDen? at h ⊢
  cases hm : Gate.matrix k x o.gate with
  | none => rw [hm] at h; simp at h
  | some m =>
    rw [hm] at h
    simp only [Option.bind_some] at h ⊢
    by_cases hw : OpWF n m o.qs
    · have hw' : OpWF (n + j) m o.qs := ⟨hw.1, fun q hq => by have := hw.2.1 q hq; omega, hw.2.2⟩
      simp only [hw, hw', if_true, Option.some.injEq] at h ⊢
      rw [← h, opDen_widen n j m o.qs hw.2.1]
    · simp [hw] at h

theorem Uc_widen (k : Scal R) (x : Ext R) (n j : Nat) (ops : List (GOp (Gate R)))
    (U : Matrix (BV (Fin n)) (BV (Fin n)) R) (h : Uc k x n ops = some U) :
    Uc k x (n + j) ops = some (liftE (Fin.castAddEmb j) U) := by
  induction ops generalizing U with
  | nil => simp only [Uc, Option.some.injEq] at h ⊢; rw [← h, liftE_one]
  | cons o rest ih =>
    simp only [Uc] at h ⊢
    cases hr : Uc k x n rest with
    | none => rw [hr] at h; simp at h
    | some ur =>
      cases hl : opDen? k x n o with
      | none => rw [hr, hl] at h; simp at h
      | some l =>
        rw [hr, hl] at h
        simp only [Option.bind_some, Option.map_some, Option.some.injEq] at h
        rw [ih ur hr, opDen?_widen k x n j o l hl]
        simp only [Option.bind_some, Option.map_some, ← h, liftE_mul]

/-! ### the identity gate on one qubit -/

theorem i_get (a b : Nat) (ha : a < 2) (hb : b < 2) : (Gates.i : Mat R).get a b = if a = b then 1 else 0 := by
  unfold Gates.i Gates.m2 Mat.ofLists
  rw [Mat.get_ofFn _ _ _ _ _ (by simpa using ha) (by simpa using hb)]
  have h1 : a = 0 ∨ a = 1 := by omega
  have h2 : b = 0 ∨ b = 1 := by omega
  rcases h1 with rfl | rfl <;> rcases h2 with rfl | rfl <;> simp

theorem opDen_i (n q : Nat) (hq : q < n) : opDen n (Gates.i : Mat R) [q] = 1 := by
  ext x y
  unfold opDen
  have hidx : ∀ z : BV (Fin n), idxL n [q] z = bit (z ⟨q, hq⟩) := by
    intro z; simp [idxL, bitsL, hq, Lift.bitsToIndex]
  rw [hidx x, hidx y, i_get _ _ (by have := bit_le (x ⟨q, hq⟩); omega) (by have := bit_le (y ⟨q, hq⟩); omega),
    Matrix.one_apply]
  by_cases h : x = y
  · subst h; simp
  · rw [if_neg h]
    by_cases hc : ∀ i : Fin n, i.val ∉ [q] → x i = y i
    · rw [if_pos hc, if_neg]
      intro hb; apply h; funext i
      by_cases hi : i.val = q
      · have : i = ⟨q, hq⟩ := Fin.ext hi
        rw [this]
        revert hb; cases x ⟨q, hq⟩ <;> cases y ⟨q, hq⟩ <;> simp [bit]
      · exact hc i (by simpa using hi)
    · rw [if_neg hc]

theorem Uc_identities (k : Scal R) (x : Ext R) (n : Nat) (l : List Nat) (hl : ∀ q ∈ l, q < n) :
    Uc k x n (l.map (fun q => (⟨iGate, [q]⟩ : GOp (Gate R)))) = some 1 := by
  induction l with
  | nil => simp [Uc]
  | cons q l ih =>
    have hq : q < n := hl q (by simp)
    have hw : OpWF n (Gates.i : Mat R) [q] := by
      refine ⟨by simp, by simpa using hq, ?_, ?_⟩ <;> rfl
    rw [List.map_cons, Uc, ih (fun q' hq' => hl q' (by simp [hq']))]
    simp only [Option.bind_some, opDen?, iGate, Gate.matrix, hw, if_true, Option.map_some, opDen_i n q hq,
      Matrix.mul_one]


/-! ### the builders: folds of `circuit += operation` -/
section builders
variable {G : Type}

theorem mkCirc_ops (ops : List (GOp G)) (d : Nat) : (mkCirc ops d).ops = ops := rfl

theorem appendOp_ops (c : Circ G) (o : GOp G) : (appendOp c o).ops = c.ops ++ [o] := rfl

theorem appendOp_n (c : Circ G) (o : GOp G) : (appendOp c o).n = max c.n (o.qs.foldl max 0 + 1) := by
  unfold appendOp mkCirc
  have : max c.n (o.qs.foldl max 0 + 1) ≠ 0 := by omega
  simp [this]

/-- appending a list of operations one at a time -/
theorem foldl_appendOp (L : List (GOp G)) (c : Circ G) :
    (L.foldl appendOp c).ops = c.ops ++ L ∧
    (L.foldl appendOp c).n = L.foldl (fun w o => max w (o.qs.foldl max 0 + 1)) c.n := by
  induction L generalizing c with
  | nil => simp
  | cons o L ih =>
    simp only [List.foldl_cons]
    obtain ⟨h1, h2⟩ := ih (appendOp c o)
    rw [h1, h2, appendOp_ops, appendOp_n]
    simp

theorem foldl_max_single (qs : List Nat) (w : Nat) :
    (qs.foldl (fun w q => max w (([q] : List Nat).foldl max 0 + 1)) w) = qs.foldl (fun w q => max w (q + 1)) w := by
  simp

theorem foldl_max_ge (qs : List Nat) (w : Nat) :
    w ≤ qs.foldl (fun w q => max w (q + 1)) w ∧ ∀ q ∈ qs, q < qs.foldl (fun w q => max w (q + 1)) w := by
  induction qs generalizing w with
  | nil => simp
  | cons a qs ih =>
    simp only [List.foldl_cons, List.mem_cons, forall_eq_or_imp]
    obtain ⟨h1, h2⟩ := ih (max w (a + 1))
    refine ⟨by omega, by omega, h2⟩

/-- the width after adding single-qubit gates on `0, …, n−1` to an empty circuit, or on
    `w, …, w+n−1` to a circuit of width `w` -/
theorem foldl_max_range (w n : Nat) :
    ((List.range n).map (fun i => w + i)).foldl (fun w q => max w (q + 1)) w = w + n := by
  induction n with
  | zero => simp
  | succ n ih =>
    rw [List.range_succ, List.map_append, List.foldl_append, ih]
    simp; omega

end builders

/-! ### `opDen` is `Spec.lift` of the gate's own matrix along the listed qubits; unitarity -/

/-- the gate matrix over the bit assignments of its own `kq`-qubit register (qubit 0 = most significant bit) -/
noncomputable def gateDen (kq : Nat) (m : Mat R) : Matrix (BV (Fin kq)) (BV (Fin kq)) R :=
  opDen kq m (List.range kq)

/-- the listed qubits as an embedding of the gate's register into the circuit's -/
def embOf (n : Nat) (qs : List Nat) (hnd : qs.Nodup) (hq : ∀ q ∈ qs, q < n) : Fin qs.length ↪ Fin n :=
  ⟨fun i => ⟨qs[i.val], hq _ (List.getElem_mem _)⟩, by
    intro a b hab
    simp only [Fin.mk.injEq] at hab
    exact Fin.ext ((List.Nodup.getElem_inj_iff hnd).mp hab)⟩

theorem gateDen_apply (kq : Nat) (m : Mat R) (u v : BV (Fin kq)) :
    gateDen kq m u v = m.get (idxL kq (List.range kq) u) (idxL kq (List.range kq) v) := by
  unfold gateDen opDen
  rw [if_pos]
  intro i hi; exfalso; apply hi; simp

theorem idxL_emb (n : Nat) (qs : List Nat) (hnd : qs.Nodup) (hq : ∀ q ∈ qs, q < n) (x : BV (Fin n)) :
    idxL qs.length (List.range qs.length) (x ∘ embOf n qs hnd hq) = idxL n qs x := by
  unfold idxL bitsL
  congr 1
  apply List.ext_getElem
  · simp
  · intro j h1 h2
    have hj : j < qs.length := by simpa using h1
    simp only [List.getElem_map, List.getElem_range, hj, dite_true, hq _ (List.getElem_mem hj), Function.comp, embOf]
    rfl

/-- the pointwise denotation used in this file IS the shared spec `lift` -/
theorem opDen_eq_lift (n : Nat) (m : Mat R) (qs : List Nat) (hnd : qs.Nodup) (hq : ∀ q ∈ qs, q < n) :
    opDen n m qs = liftE (embOf n qs hnd hq) (gateDen qs.length m) := by
  ext x y
  rw [liftE_apply, gateDen_apply, idxL_emb, idxL_emb]
  unfold opDen
  have : (∀ i : Fin n, i.val ∉ qs → x i = y i) ↔ (∀ i, i ∉ Set.range (embOf n qs hnd hq) → x i = y i) := by
    have hmem : ∀ i : Fin n, i ∈ Set.range (embOf n qs hnd hq) ↔ i.val ∈ qs := by
      intro i
      constructor
      · rintro ⟨j, rfl⟩; exact List.getElem_mem _
      · intro h
        obtain ⟨j, hj, hji⟩ := List.getElem_of_mem h
        exact ⟨⟨j, hj⟩, Fin.ext hji⟩
    constructor
    · intro h i hi; exact h i (fun hh => hi ((hmem i).mpr hh))
    · intro h i hi; exact h i (fun hh => hi ((hmem i).mp hh))
  by_cases h : ∀ i : Fin n, i.val ∉ qs → x i = y i
  · rw [if_pos h, if_pos (this.mp h)]
  · rw [if_neg h, if_neg (fun hh => h (this.mpr hh))]

theorem opDen_unitary (n : Nat) (m : Mat R) (qs : List Nat) (hw : OpWF n m qs)
    (hu : (gateDen qs.length m)ᴴ * gateDen qs.length m = 1) :
    (opDen n m qs)ᴴ * opDen n m qs = 1 := by
  rw [opDen_eq_lift n m qs hw.1 hw.2.1, ← liftE_conjTranspose, ← liftE_mul, hu, liftE_one]

/-- a product of well-formed unitary operations is unitary -/
theorem Uc_unitary (k : Scal R) (x : Ext R) (n : Nat) (ops : List (GOp (Gate R)))
    (hu : ∀ o ∈ ops, ∀ m, Gate.matrix k x o.gate = some m →
      (gateDen o.qs.length m)ᴴ * gateDen o.qs.length m = 1)
    (U : Matrix (BV (Fin n)) (BV (Fin n)) R) (h : Uc k x n ops = some U) : Uᴴ * U = 1 := by
  induction ops generalizing U with
  | nil => simp only [Uc, Option.some.injEq] at h; rw [← h]; simp
  | cons o rest ih =>
    simp only [Uc] at h
    cases hr : Uc k x n rest with
    | none => rw [hr] at h; simp at h
    | some ur =>
      cases hl : opDen? k x n o with
      | none => rw [hr, hl] at h; simp at h
      | some l =>
        rw [hr, hl] at h
        simp only [Option.bind_some, Option.map_some, Option.some.injEq] at h
        have h1 := ih (fun o' ho' => hu o' (by simp [ho'])) ur hr
        have h2 : lᴴ * l = 1 := by
          unfold opDen? at hl
          cases hm : Gate.matrix k x o.gate with
          | none => rw [hm] at hl; simp at hl
          | some m =>
            rw [hm] at hl
            simp only [Option.bind_some] at hl
            by_cases hw : OpWF n m o.qs
            · simp only [hw, if_true, Option.some.injEq] at hl
              rw [← hl]; exact opDen_unitary n m o.qs hw (hu o (by simp) m hm)
            · simp [hw] at hl
        rw [← h, Matrix.conjTranspose_mul, Matrix.mul_assoc, ← Matrix.mul_assoc urᴴ, h1, Matrix.one_mul, h2]


-- MORE
end OQ.C08
