-- generated from /repo by harness/tables.py:pauli_tables — do not edit
import OQ.Model.Pauli
namespace OQ.C03.Gen
open OQ.Pauli

-- OPERATOR_MAP = [(177, 'Z'), (178, 'Y'), (179, 'X')]
-- COEFF_MAP = [('XY', 1j), ('XZ', (-0-1j)), ('YX', (-0-1j)), ('YZ', 1j), ('ZX', 1j), ('ZY', (-0-1j))]
-- HASH_PRECISION = 1000000.0

/-- `OPERATOR_MAP[ord(a) + ord(b)]` for a ≠ b (the diagonal is never looked up: equal operators cancel first) -/
def opTable : P → P → P
  | .X, .Y => .Z
  | .X, .Z => .Y
  | .Y, .X => .Z
  | .Y, .Z => .X
  | .Z, .X => .Y
  | .Z, .Y => .X
  | a, _ => a

/-- `COEFF_MAP[a + b]` for a ≠ b as a Gaussian integer (re, im) -/
def coeffTable : P → P → Int × Int
  | .X, .Y => (0, 1)
  | .X, .Z => (0, -1)
  | .Y, .X => (0, -1)
  | .Y, .Z => (0, 1)
  | .Z, .X => (0, 1)
  | .Z, .Y => (0, -1)
  | _, _ => (1, 0)

/-- `HASH_PRECISION` -/
def hashPrecision : Nat := 1000000

end OQ.C03.Gen
