/-
  The constants the gate matrices need, passed EXPLICITLY (no type class) so that the same
  definitions are executed at `Cyc8` and reasoned about over any commutative ring.
-/
import OQ.Exec.Mat
namespace OQ

structure Scal (R : Type) where
  /-- imaginary unit -/
  i : R
  /-- 1/√2 -/
  r : R
  /-- e^{iπ/4} -/
  z : R
  /-- 1/2 -/
  half : R
  /-- complex conjugation -/
  cj : R → R

def Scal.cyc8 : Scal Cyc8 := ⟨Cyc8.I, Cyc8.rsqrt2, Cyc8.zeta, ⟨1/2, 0, 0, 0⟩, conj⟩

/-- An angle θ given by the cosine and sine of its HALF: (cos θ/2, sin θ/2).  Rational points
    of the unit circle make every gate entry exact. -/
structure Ang (R : Type) where
  ch : R
  sh : R
deriving Repr, Inhabited

namespace Ang
variable {R : Type} [Add R] [Mul R] [Neg R]
/-- cos θ -/
def c (a : Ang R) : R := a.ch * a.ch + -(a.sh * a.sh)
/-- sin θ -/
def s (a : Ang R) : R := a.ch * a.sh + a.ch * a.sh
/-- e^{iθ/2} -/
def ehp (k : Scal R) (a : Ang R) : R := a.ch + k.i * a.sh
/-- e^{-iθ/2} -/
def ehm (k : Scal R) (a : Ang R) : R := a.ch + -(k.i * a.sh)
/-- e^{iθ} -/
def eip (k : Scal R) (a : Ang R) : R := a.c + k.i * a.s
/-- e^{-iθ} -/
def eim (k : Scal R) (a : Ang R) : R := a.c + -(k.i * a.s)
/-- the angle θ₁ + θ₂ -/
def add (a b : Ang R) : Ang R := ⟨a.ch * b.ch + -(a.sh * b.sh), a.sh * b.ch + a.ch * b.sh⟩
/-- the angle −θ -/
def neg (a : Ang R) : Ang R := ⟨a.ch, -a.sh⟩
end Ang

/-- the angle 0 -/
def Ang.zero {R : Type} [Zero R] [One R] : Ang R := ⟨1, 0⟩

end OQ
