/-
  Exact scalars for the executable models (Mathlib-free).
  `Cyc8` = ℚ(ζ₈) = ℚ[x]/(x⁴+1):  a + bζ + cζ² + dζ³,  ζ⁴ = -1.
  Contains i = ζ², √2 = ζ − ζ³, e^{iπ/4} = ζ, hence every fixed gate entry of the library,
  and every rational point of the unit circle.
-/
namespace OQ

/-- complex conjugation as an operation (bridged to Mathlib's `star` in `OQ.Lemmas`). -/
class Conj (R : Type) where
  conj : R → R
export Conj (conj)

structure Cyc8 where
  a : Rat
  b : Rat
  c : Rat
  d : Rat
deriving DecidableEq, Repr, Inhabited

namespace Cyc8
instance : Zero Cyc8 := ⟨⟨0,0,0,0⟩⟩
instance : One Cyc8 := ⟨⟨1,0,0,0⟩⟩
instance : Add Cyc8 := ⟨fun x y => ⟨x.a+y.a, x.b+y.b, x.c+y.c, x.d+y.d⟩⟩
instance : Neg Cyc8 := ⟨fun x => ⟨-x.a, -x.b, -x.c, -x.d⟩⟩
instance : Sub Cyc8 := ⟨fun x y => ⟨x.a-y.a, x.b-y.b, x.c-y.c, x.d-y.d⟩⟩
instance : Mul Cyc8 := ⟨fun x y =>
  ⟨x.a*y.a - x.b*y.d - x.c*y.c - x.d*y.b,
   x.a*y.b + x.b*y.a - x.c*y.d - x.d*y.c,
   x.a*y.c + x.b*y.b + x.c*y.a - x.d*y.d,
   x.a*y.d + x.b*y.c + x.c*y.b + x.d*y.a⟩⟩
/-- complex conjugation: ζ ↦ ζ⁻¹ = −ζ³ -/
instance : Conj Cyc8 := ⟨fun x => ⟨x.a, -x.d, -x.c, -x.b⟩⟩

def ofRat (q : Rat) : Cyc8 := ⟨q,0,0,0⟩
def zeta : Cyc8 := ⟨0,1,0,0⟩
def I : Cyc8 := ⟨0,0,1,0⟩
def sqrt2 : Cyc8 := ⟨0,1,0,-1⟩
/-- 1/√2 -/
def rsqrt2 : Cyc8 := ⟨0,1/2,0,-1/2⟩
/-- re + im·i -/
def ofReIm (re im : Rat) : Cyc8 := ⟨re,0,im,0⟩
instance : OfNat Cyc8 n := ⟨ofRat n⟩
instance : NatCast Cyc8 := ⟨fun n => ofRat n⟩
instance : IntCast Cyc8 := ⟨fun n => ofRat n⟩

/-- Galois conjugates ζ ↦ ζ³, ζ⁵, ζ⁷ -/
def s3 (x : Cyc8) : Cyc8 := ⟨x.a, x.d, -x.c, x.b⟩
def s5 (x : Cyc8) : Cyc8 := ⟨x.a, -x.b, x.c, -x.d⟩
def s7 (x : Cyc8) : Cyc8 := ⟨x.a, -x.d, -x.c, -x.b⟩
/-- multiplicative inverse through the field norm (0 ↦ 0) -/
def inv (x : Cyc8) : Cyc8 :=
  let y := s3 x * s5 x * s7 x
  let n := (x * y).a
  if n = 0 then 0 else ⟨y.a / n, y.b / n, y.c / n, y.d / n⟩
instance : Inv Cyc8 := ⟨inv⟩

/-- real part and imaginary part when the element lies in ℚ(i) -/
def isGauss (x : Cyc8) : Bool := x.b = 0 ∧ x.d = 0
/-- |x|² as an element (x · conj x) -/
def normSq (x : Cyc8) : Cyc8 := x * conj x

end Cyc8
end OQ
