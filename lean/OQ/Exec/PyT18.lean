/-
  --- T18: prelude functions of harness/translate_t18.py (the operator utilities of C09 on PauliTerm / PauliSum objects).
  Mathlib-free.  Every definition is compared with CPython in `harness/prelude_check.py` (ops `t18_*` of the driver).
-/
import OQ.Exec.Py
namespace OQ.Py

/-- `x in s` for a Python set `s` of objects with user-defined `__hash__` / `__eq__`: some stored element has the same hash
    (`heq stored x`) and compares equal (`eq stored x`; CPython calls `stored == x`).  The identity shortcut `stored is x` of
    CPython only matters for a non-reflexive `__eq__`. -/
def setMemBy {α : Type} (heq eq : α → α → Bool) (x : α) (s : List α) : Bool := s.any (fun y => heq y x && eq y x)

/-- `set(xs)` of such objects: the elements that were actually inserted, in insertion order -/
def setOfListBy {α : Type} (heq eq : α → α → Bool) (xs : List α) : List α :=
  xs.foldl (fun s x => if setMemBy heq eq x s then s else s ++ [x]) []

/-- `a == b` for two such sets: equal sizes and every element of `a` is `in b` -/
def setEqBy {α : Type} (heq eq : α → α → Bool) (a b : List α) : Bool :=
  a.length == b.length && a.all (fun x => setMemBy heq eq x b)

/-- a dict with int keys handed to `PauliTerm(d, c)`: the translated `__init__` types the keys as `Nat`, this conversion performs
    its first check (`all(qubit_idx >= 0 for qubit_idx in operator)`, `ValueError`) -/
def natKeysE {ν : Type} (d : Dict Int ν) : Except Exc4 (Dict Nat ν) :=
  if d.all (fun p => decide (0 ≤ p.1)) then .ok (d.map (fun p => (p.1.toNat, p.2))) else .error .value

/-- `sorted(items)` for (a frozenset of) tuples `(index, letter)`: lexicographic, letters (one-character strs) by `ord` -/
def sortedItemsBy {ν : Type} (ord : ν → Int) (l : List (Nat × ν)) : List (Nat × ν) :=
  l.mergeSort (fun a b => decide (a.1 < b.1) || (a.1 == b.1 && decide (ord a.2 ≤ ord b.2)))

/-- `functools.reduce(f, xs)` without initial value: `TypeError` on an empty list -/
def reduce1E {α : Type} (f : α → α → α) : List α → Except Exc4 α
  | [] => .error .type
  | x :: xs => .ok (xs.foldl f x)

/-- `n.bit_length()` of an int (the sign is ignored, `0 .bit_length() == 0`) -/
def bitLength (n : Int) : Int := if n.natAbs = 0 then 0 else ((Nat.log2 n.natAbs + 1 : Nat) : Int)

end OQ.Py
