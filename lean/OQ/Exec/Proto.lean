/-
  Line-protocol helpers: rationals as "p/q" strings (or JSON integers), Cyc8 as 4 rationals,
  matrices as lists of rows.  Mathlib-free.
-/
import Lean.Data.Json
import OQ.Exec.Mat
open Lean
namespace OQ.Proto

def ratToString (q : Rat) : String :=
  if q.den = 1 then toString q.num else s!"{q.num}/{q.den}"

def parseRat (s : String) : Except String Rat :=
  match s.splitOn "/" with
  | [p] => match p.trimAscii.toString.toInt? with
    | some n => .ok (n : Rat)
    | none => .error s!"bad rational {s}"
  | [p, q] => match p.trimAscii.toString.toInt?, q.trimAscii.toString.toNat? with
    | some n, some d => if d = 0 then .error "zero denominator" else .ok (mkRat n d)
    | _, _ => .error s!"bad rational {s}"
  | _ => .error s!"bad rational {s}"

def ratOfJson (j : Json) : Except String Rat :=
  match j with
  | .str s => parseRat s
  | .num n => if n.exponent = 0 then .ok (n.mantissa : Rat) else .ok (mkRat n.mantissa (10 ^ n.exponent))
  | _ => .error s!"expected rational, got {j.compress}"

def ratToJson (q : Rat) : Json := .str (ratToString q)

def natOfJson (j : Json) : Except String Nat := do
  let q ← ratOfJson j
  if q.den = 1 ∧ q.num ≥ 0 then pure q.num.toNat else throw s!"expected natural, got {j.compress}"

def intOfJson (j : Json) : Except String Int := do
  let q ← ratOfJson j
  if q.den = 1 then pure q.num else throw s!"expected integer, got {j.compress}"

def arrOfJson (j : Json) : Except String (List Json) :=
  match j with
  | .arr a => .ok a.toList
  | _ => .error s!"expected array, got {j.compress}"

def listOfJson {α} (f : Json → Except String α) (j : Json) : Except String (List α) := do
  (← arrOfJson j).mapM f

def strOfJson (j : Json) : Except String String :=
  match j with
  | .str s => .ok s
  | _ => .error s!"expected string, got {j.compress}"

def boolOfJson (j : Json) : Except String Bool :=
  match j with
  | .bool b => .ok b
  | _ => .error s!"expected bool, got {j.compress}"

def field (j : Json) (k : String) : Except String Json :=
  match j.getObjVal? k with
  | .ok v => .ok v
  | .error _ => .error s!"missing field {k}"

def fieldOpt (j : Json) (k : String) : Option Json :=
  match j.getObjVal? k with
  | .ok .null => none
  | .ok v => some v
  | .error _ => none

/-- Cyc8 from JSON: a rational (string/int) or [re, im] or [a,b,c,d]. -/
def cycOfJson (j : Json) : Except String Cyc8 :=
  match j with
  | .arr a => do
    let l ← a.toList.mapM ratOfJson
    match l with
    | [re, im] => pure (Cyc8.ofReIm re im)
    | [a, b, c, d] => pure ⟨a, b, c, d⟩
    | _ => throw "bad Cyc8"
  | _ => do pure (Cyc8.ofRat (← ratOfJson j))

def cycToJson (x : Cyc8) : Json :=
  .arr #[ratToJson x.a, ratToJson x.b, ratToJson x.c, ratToJson x.d]

def matOfJson (j : Json) : Except String (Mat Cyc8) := do
  let rows ← listOfJson (listOfJson cycOfJson) j
  pure (Mat.ofLists rows)

def matToJson (m : Mat Cyc8) : Json :=
  .arr (m.toLists.map (fun row => Json.arr (row.map cycToJson).toArray)).toArray

def natsToJson (l : List Nat) : Json := .arr (l.map (fun (n : Nat) => Json.num (JsonNumber.fromNat n))).toArray
def intsToJson (l : List Int) : Json := .arr (l.map (fun (n : Int) => Json.num (JsonNumber.fromInt n))).toArray
def ratsToJson (l : List Rat) : Json := .arr (l.map ratToJson).toArray

end OQ.Proto
