/- PRELUDE of the translator for METHODS THAT MUTATE `self` (`harness/translate_state.py`).  Mathlib-free: compiled into the
   model driver; every definition here is exercised by the differential self-check `harness/runners_check.py` on every run of C14
   (the translated runner classes are run against the real Python classes on seeded call histories).

   A translated method is a function   self → args → self' × Result r   :
   * `self'` is the object's state WHEN THE METHOD RETURNS OR RAISES – Python does not roll back the assignments made before a
     `raise`, so the state is returned in the error case too;
   * `Result.raised e` stands for an exception of class `e` leaving the method. -/
namespace OQ.PyS

/-- exception classes (messages are not translated) -/
inductive Exc
  | ValueError
  | TypeError
  /-- any other class; externals may raise anything -/
  | other (tag : Nat)
deriving DecidableEq, Repr

/-- value returned or exception raised -/
inductive Result (α : Type) where
  | ok (a : α)
  | raised (e : Exc)
deriving DecidableEq, Repr

/-- `for x in xs: body` where the body may change the state and may raise: left to right, stops at the first exception and
    keeps the state reached at that moment.  `σ` is the object's state together with the loop-carried local variables. -/
def forEach {σ α : Type} (body : σ → α → σ × Result Unit) : σ → List α → σ × Result Unit
  | s, [] => (s, .ok ())
  | s, x :: xs =>
    match body s x with
    | (s', .raised e) => (s', .raised e)
    | (s', .ok _) => forEach body s' xs

/-- `[f(x) for x in xs]` where `f` may change the state and may raise: elements are evaluated left to right; the first
    exception ends the comprehension (no list is produced) and the state is the one reached at that moment. -/
def collectEach {σ α β : Type} (f : σ → α → σ × Result β) : σ → List α → σ × Result (List β)
  | s, [] => (s, .ok [])
  | s, x :: xs =>
    match f s x with
    | (s', .raised e) => (s', .raised e)
    | (s', .ok b) =>
      match collectEach f s' xs with
      | (s'', .raised e) => (s'', .raised e)
      | (s'', .ok bs) => (s'', .ok (b :: bs))

/-- what a translated method puts into a `dict` with constant string keys (the JSON-able records of the tracker): the
    constructor is chosen by the static type of the value expression; `ext` carries values of the declared opaque payload type
    (results of external functions such as `to_dict(circuit)`, `measurement.get_counts()`) -/
inductive Val (J : Type) where
  | str (s : List Char)
  | int (i : Int)
  | optInt (o : Option Int)
  | intLists (b : List (List Int))
  | ext (j : J)
deriving DecidableEq, Repr

/-- a `dict` with string keys, in insertion order -/
abbrev Dict (J : Type) := List (List Char × Val J)

/-- values of a dict one level up: a list of dicts (the tracker's `{"raw-data": self.raw_data}`) or a plain value -/
inductive Val2 (J : Type) where
  | dicts (ds : List (Dict J))
  | val (v : Val J)
deriving DecidableEq, Repr

abbrev Dict2 (J : Type) := List (List Char × Val2 J)

/-- `d[key] = v`: replaces the value of an existing key (position kept), otherwise appends -/
def dictSet {V : Type} (key : List Char) (v : V) : List (List Char × V) → List (List Char × V)
  | [] => [(key, v)]
  | p :: rest => if p.1 = key then (key, v) :: rest else p :: dictSet key v rest

/-- a dict display `{k1: v1, k2: v2, …}`: items are inserted left to right (a repeated key keeps its first position) -/
def dictOf {V : Type} (items : List (List Char × V)) : List (List Char × V) :=
  items.foldl (fun d p => dictSet p.1 p.2 d) []

end OQ.PyS
