/- A small PRELUDE of Python built-ins used by the Python→Lean translator (`harness/translate.py`).
   Mathlib-free: these definitions are compiled into the model driver, and every one of them is validated
   against the real CPython built-in on every run (`harness/prelude_check.py`, op `py.*` of the driver).

   Domain notes (the translator's docstring repeats them): slices are translated for non-negative bounds only,
   `int(c)` for a decimal digit character, `int(s, 2)` for a non-empty string of '0'/'1'.  Outside these domains the
   Python raises or wraps around and the Lean value is unspecified; tie theorems carry the domain as hypotheses. -/
namespace OQ.Py

abbrev Str := List Char

/-- the character of a decimal digit `d < 10` -/
def digitChar (d : Nat) : Char := Char.ofNat (48 + d)

/-- `int(c)` for a one-character string holding a decimal digit -/
def charDigit (c : Char) : Int := (c.toNat : Int) - 48

/-- binary digits of `i`, most significant first, no leading zero (`[0]` for 0); fuel `≥ i` suffices -/
def binDigitsFuel : Nat → Nat → List Nat
  | 0, i => [i % 2]
  | f + 1, i => if i < 2 then [i] else binDigitsFuel f (i / 2) ++ [i % 2]

def binDigits (i : Nat) : List Nat := binDigitsFuel i i

/-- Python `bin(n)` -/
def bin (n : Int) : Str :=
  if n < 0 then '-' :: '0' :: 'b' :: (binDigits n.natAbs).map digitChar
  else '0' :: 'b' :: (binDigits n.toNat).map digitChar

/-- `xs[a:]` for `a ≥ 0` -/
def sliceFrom {α : Type} (xs : List α) (a : Int) : List α := xs.drop a.toNat

/-- `xs[:b]` for `b ≥ 0` -/
def sliceTo {α : Type} (xs : List α) (b : Int) : List α := xs.take b.toNat

/-- `xs[a:b]` for `a, b ≥ 0` -/
def slice {α : Type} (xs : List α) (a b : Int) : List α := (xs.take b.toNat).drop a.toNat

/-- `s.zfill(w)`: left-pad with '0' to width `w`; a leading sign character stays first -/
def zfill (s : Str) (w : Int) : Str :=
  match s with
  | [] => List.replicate w.toNat '0'
  | c :: rest =>
    if c == '-' || c == '+' then c :: (List.replicate (w.toNat - s.length) '0' ++ rest)
    else List.replicate (w.toNat - s.length) '0' ++ s

/-- decimal digits of a natural number, most significant first (`[0]` for 0); fuel `≥ n` suffices -/
def decDigitsFuel : Nat → Nat → List Nat
  | 0, i => [i % 10]
  | f + 1, i => if i < 10 then [i] else decDigitsFuel f (i / 10) ++ [i % 10]

/-- Python `str(n)` for an int -/
def strOfInt (n : Int) : Str :=
  if n < 0 then '-' :: (decDigitsFuel n.natAbs n.natAbs).map digitChar
  else (decDigitsFuel n.toNat n.toNat).map digitChar

/-- Python `int(s, 2)` for a non-empty string of binary digits -/
def intBase2 (s : Str) : Int := s.foldl (fun acc c => 2 * acc + charDigit c) 0

/-- Python `sep.join(parts)` -/
def join (sep : Str) : List Str → Str
  | [] => []
  | [p] => p
  | p :: ps => p ++ sep ++ join sep ps

/-- Python `sum(xs)` for a list of ints -/
def sum (xs : List Int) : Int := xs.foldl (· + ·) 0

/-- Python `a & b`, `a | b`, `a >> k` for NON-NEGATIVE ints (the translator emits them for Nat-valued operands only) -/
def land (a b : Int) : Int := ((a.toNat &&& b.toNat : Nat) : Int)
def lor (a b : Int) : Int := ((a.toNat ||| b.toNat : Nat) : Int)
def shr (a k : Int) : Int := ((a.toNat >>> k.toNat : Nat) : Int)

/-- Python `x & -x` for `x > 0`: the lowest set bit -/
def lowbit (x : Int) : Int := ((x.toNat - (x.toNat &&& (x.toNat - 1)) : Nat) : Int)

/-! --- T2: iterators (`iter` / `islice`), loops that may raise, `reduce`, `max` of a list, count dictionaries.
    Every definition below is compared with CPython in `harness/prelude_check.py` (ops `t2_*` of the driver). -/

/-- a Python iterator over a list: the items not yet consumed -/
abbrev Iter (α : Type) := List α

/-- `iter(xs)` -/
def iter {α : Type} (xs : List α) : Iter α := xs

/-- `islice(it, k)` consumed completely at once (`tuple(islice(it, k))`, `reduce(f, islice(it, k))`, `sum(islice(it, k), …)`):
    the items taken and the advanced iterator; a negative `k` raises `ValueError` (`none`) -/
def islice {α : Type} (it : Iter α) (k : Int) : Option (List α × Iter α) :=
  if k < 0 then none else some (it.take k.toNat, it.drop k.toNat)

/-- `while test: body` with a declared bound on the number of test evaluations.  `step` is one round: evaluate the test
    (which may change the state: walrus, iterator), and if it holds run the body; it answers whether the loop goes on and
    the new state, or `none` when Python raises.  `none` also when the fuel runs out – tie theorems prove that this does
    not happen on the domain they state. -/
def whileFuel {σ : Type} (step : σ → Option (Bool × σ)) : Nat → σ → Option σ
  | 0, _ => none
  | f + 1, s => (step s).bind (fun r => if r.1 then whileFuel step f r.2 else some r.2)

/-- a `for` loop whose body may raise -/
def foldlOpt {σ α : Type} (f : σ → α → Option σ) : σ → List α → Option σ
  | s, [] => some s
  | s, x :: xs => (f s x).bind (fun s' => foldlOpt f s' xs)

/-- `[f(x) for x in xs]` where `f` may raise -/
def mapOpt {α β : Type} (f : α → Option β) : List α → Option (List β)
  | [] => some []
  | x :: xs => (f x).bind (fun y => (mapOpt f xs).bind (fun ys => some (y :: ys)))

/-- `[f(x) for x in xs]` where `f` may raise and consumes shared iterators (the state `σ`) -/
def mapAccumOpt {σ α β : Type} (f : σ → α → Option (β × σ)) : σ → List α → Option (List β × σ)
  | s, [] => some ([], s)
  | s, x :: xs => (f s x).bind (fun r => (mapAccumOpt f r.2 xs).bind (fun rs => some (r.1 :: rs.1, rs.2)))

/-- `functools.reduce(f, xs)` without initial value: `TypeError` (`none`) on an empty iterable -/
def reduce1 {α : Type} (f : α → α → α) : List α → Option α
  | [] => none
  | x :: xs => some (xs.foldl f x)

/-- `max(xs)` / `min(xs)` of a list of ints: `ValueError` (`none`) when empty -/
def maxList : List Int → Option Int
  | [] => none
  | x :: xs => some (xs.foldl max x)
def minList : List Int → Option Int
  | [] => none
  | x :: xs => some (xs.foldl min x)

/-- `sum(xss, start=[])` for a list of lists -/
def sumLists {α : Type} (xss : List (List α)) : List α := xss.foldl (· ++ ·) []

/-- a `dict` as an insertion-ordered association list without duplicate keys -/
abbrev Dict (κ ν : Type) := List (κ × ν)
/-- a `collections.Counter` with int counts -/
abbrev Counter (κ : Type) := List (κ × Int)

/-- `Counter(d)` for a dict `d`: same entries, same order -/
def counterOfDict {κ : Type} (d : Dict κ Int) : Counter κ := d
/-- `dict(c)` -/
def dictOfCounter {κ : Type} (c : Counter κ) : Dict κ Int := c
/-- `d.items()` in iteration (= insertion) order -/
def dictItems {κ ν : Type} (d : Dict κ ν) : List (κ × ν) := d

/-- `c[k]` on a Counter: 0 for a missing key (and the key is NOT inserted) -/
def counterGet {κ : Type} [BEq κ] : Counter κ → κ → Int
  | [], _ => 0
  | (k', v) :: rest, k => if k' == k then v else counterGet rest k

/-- `d[k] = v`: an existing key keeps its position, a new key is appended -/
def dictSet {κ ν : Type} [BEq κ] : Dict κ ν → κ → ν → Dict κ ν
  | [], k, v => [(k, v)]
  | (k', v') :: rest, k, v => if k' == k then (k', v) :: rest else (k', v') :: dictSet rest k v

/-- `"{0:b}".format(n)`: binary digits without prefix -/
def formatB (n : Int) : Str :=
  if n < 0 then '-' :: (binDigits n.natAbs).map digitChar else (binDigits n.toNat).map digitChar
-- --- end T2

-- --- T3: Python sets (harness/translate_t3.py)
/-- A Python `set`, represented by the list of its elements in ITERATION ORDER.  The order is an external of CPython (a
    parameter `ext_set_order` of translated definitions); only `len`, iteration, `zip` and `in` are rendered on it. -/
abbrev PySet (α : Type) := List α
-- --- T3 end

/-! --- T6: exceptions as values, `int | str` sum type, digit-group splitting (`re.split(r"(\d+)", s)`), `str.isdigit`,
    `int(str)`, `str.split(c)`, dict lookup, `functools.reduce`, Python's list comparison on `int | str` items.
    DOMAIN (documented, see harness/translate_t6.py): strings whose digit characters are the ASCII digits – CPython's `\d`
    (Unicode category Nd, 680 characters), `str.isdigit` (Numeric_Type Digit or Decimal, 808 characters) and `int` differ from
    each other on non-ASCII digits; `int(str)` additionally strips ASCII whitespace only.  Every function below is compared
    with CPython by harness/prelude_check.py. -/

/-- the Python exception classes the translated functions raise (`raise X(…)` is rendered as `.error .X`); `OutOfFuel` is
    not a Python exception: a translated `while` loop ran out of its explicit fuel (the Python would still be running) -/
inductive Exc where
  | ValueError | TypeError | KeyError | NotImplementedError | IndexError | OutOfFuel
  deriving DecidableEq, Repr

/-- a value that is a Python `int` or a Python `str` (an element of a natural sort key) -/
inductive IntOrStr where
  | int (n : Int)
  | str (s : Str)
  deriving DecidableEq, Repr

def isAsciiDigit (c : Char) : Bool := decide (48 ≤ c.toNat) && decide (c.toNat ≤ 57)

/-- `s.isdigit()` (domain: the digit characters of `s` are ASCII) -/
def isdigit (s : Str) : Bool := !s.isEmpty && s.all isAsciiDigit

/-- `int(s)` for a non-empty string of ASCII digits -/
def intOfDigits (s : Str) : Int := s.foldl (fun acc c => 10 * acc + charDigit c) 0

/-- `re.split(r"(\d+)", s)`: alternating non-digit / digit groups INCLUDING the empty strings CPython produces at the ends
    (and nowhere else: two matches of `\d+` are never adjacent).  `inDigits` = inside a digit group, `acc` = the current group,
    reversed. -/
def reSplitDigitsGo : Bool → List Char → List Char → List Str
  | false, acc, [] => [acc.reverse]
  | true, acc, [] => [acc.reverse, []]
  | false, acc, c :: cs =>
    if isAsciiDigit c then acc.reverse :: reSplitDigitsGo true [c] cs else reSplitDigitsGo false (c :: acc) cs
  | true, acc, c :: cs =>
    if isAsciiDigit c then reSplitDigitsGo true (c :: acc) cs else acc.reverse :: reSplitDigitsGo false [c] cs

def reSplitDigits (s : Str) : List Str := reSplitDigitsGo false [] s

/-- `s.split(c)` for a one-character separator -/
def splitCharGo (sep : Char) : List Char → List Char → List Str
  | acc, [] => [acc.reverse]
  | acc, c :: cs => if c == sep then acc.reverse :: splitCharGo sep [] cs else splitCharGo sep (c :: acc) cs

def splitChar (s : Str) (sep : Char) : List Str := splitCharGo sep [] s

def isAsciiSpace (c : Char) : Bool := c == ' ' || (decide (9 ≤ c.toNat) && decide (c.toNat ≤ 13))

/-- digits with single underscores strictly between digits (`pd` = the previous character was a digit) -/
def natParseGo : Bool → Nat → List Char → Option Nat
  | pd, acc, [] => if pd then some acc else none
  | pd, acc, c :: cs =>
    if isAsciiDigit c then natParseGo true (10 * acc + (c.toNat - 48)) cs
    else if c == '_' && pd then
      match cs with
      | d :: _ => if isAsciiDigit d then natParseGo false acc cs else none
      | [] => none
    else none

/-- `int(s)` (base 10) on ASCII strings: surrounding ASCII whitespace, an optional sign, digits with single underscores
    between them; `.error .ValueError` otherwise -/
def intParse (s : Str) : Except Exc Int :=
  let t := ((s.dropWhile isAsciiSpace).reverse.dropWhile isAsciiSpace).reverse
  let r : Option Int :=
    match t with
    | '-' :: ds => (natParseGo false 0 ds).map (fun n => -(n : Int))
    | '+' :: ds => (natParseGo false 0 ds).map (fun n => (n : Int))
    | ds => (natParseGo false 0 ds).map (fun n => (n : Int))
  match r with
  | some v => .ok v
  | none => .error .ValueError

-- (T6 uses `Dict` of the T2 block above also for a dict built by a comprehension: the list of its `key: value` pairs in
--  generation order, a later pair overriding an earlier one on lookup)

/-- `d[k]`: the LAST pair with key `k` wins (a later `key: value` overwrites an earlier one); `KeyError` if there is none -/
def dictGet {κ ν : Type} [BEq κ] (d : Dict κ ν) (k : κ) : Except Exc ν :=
  match (d.reverse.find? (fun p => p.1 == k)) with
  | some p => .ok p.2
  | none => .error .KeyError

/-- `functools.reduce(op, args)` without initial value: `TypeError` on an empty sequence -/
def reduce {β : Type} (op : β → β → β) : List β → Except Exc β
  | [] => .error .TypeError
  | v :: vs => .ok (vs.foldl op v)

/-- Python `str < str`: lexicographic by code point -/
def cmpStr : Str → Str → Ordering
  | [], [] => .eq
  | [], _ :: _ => .lt
  | _ :: _, [] => .gt
  | a :: as, b :: bs => if a.toNat < b.toNat then .lt else if b.toNat < a.toNat then .gt else cmpStr as bs

/-- comparing two items that are not `==` with `<`: `none` = TypeError (`int` against `str`) -/
def cmpIntOrStr : IntOrStr → IntOrStr → Option Ordering
  | .str a, .str b => some (cmpStr a b)
  | .int a, .int b => some (compare a b)
  | _, _ => none

/-- Python's list / tuple comparison: skip the common `==` prefix (an `int` never `==` a `str`), then compare the first
    differing items; `none` = TypeError -/
def cmpKeys : List IntOrStr → List IntOrStr → Option Ordering
  | [], [] => some .eq
  | [], _ :: _ => some .lt
  | _ :: _, [] => some .gt
  | a :: as, b :: bs => if a = b then cmpKeys as bs else cmpIntOrStr a b
-- --- end T6

/-! --- T4: dictionary-valued code over an ABSTRACT numeric value type, exceptions with their CLASS (harness/translate_t4.py).
    Every definition below is compared with CPython in `harness/prelude_check.py` (ops `t4_*` of the driver, run at `ν = Rat`).
    Float rounding is NOT modelled: a Python `float` is a value of the abstract type `ν` (exact rationals in the driver). -/

/-- the exception classes the translated code distinguishes -/
inductive Exc4 where
  | runtime   -- RuntimeError
  | value     -- ValueError
  | index     -- IndexError
  | key       -- KeyError
  | type      -- TypeError
  | zeroDiv   -- ZeroDivisionError
  deriving DecidableEq, Repr

/-- the operations Python code uses on a numeric value (`+ - * /`, `==`, `<=`, `<`, int literals) -/
class PyNum (ν : Type) extends Add ν, Sub ν, Mul ν, Div ν, BEq ν, IntCast ν where
  /-- `a <= b` -/
  le : ν → ν → Bool
  /-- `a < b` -/
  lt : ν → ν → Bool

instance : PyNum Rat where
  beq a b := decide (a = b)
  le a b := decide (a ≤ b)
  lt a b := decide (a < b)

/-- `a / b` on numeric values: `ZeroDivisionError` for a zero divisor (Python floats, `Fraction`s) -/
def divE {ν : Type} [PyNum ν] (a b : ν) : Except Exc4 ν :=
  if b == ((0 : Int) : ν) then .error .zeroDiv else .ok (a / b)

/-- `a / b` on two Python ints (true division): `ZeroDivisionError` for `b == 0` -/
def divIntE {ν : Type} [PyNum ν] (a b : Int) : Except Exc4 ν :=
  if b == 0 then .error .zeroDiv else .ok (((a : Int) : ν) / ((b : Int) : ν))

/-- `sum(xs)` of numeric values (starts from the int 0, adds left to right) -/
def sumNum {ν : Type} [PyNum ν] (xs : List ν) : ν := xs.foldl (· + ·) ((0 : Int) : ν)

/-- `math.isclose(a, b)` (rel_tol = 1e-9, abs_tol = 0) on exact rationals -/
def ratIsClose (a b : Rat) : Bool :=
  let abs (q : Rat) : Rat := if q < 0 then -q else q
  let m := if abs a < abs b then abs b else abs a
  a == b || decide (abs (a - b) ≤ m / 1000000000)

/-- a `for` loop whose body may raise -/
def foldlE {σ α : Type} (f : σ → α → Except Exc4 σ) : σ → List α → Except Exc4 σ
  | s, [] => .ok s
  | s, x :: xs => (f s x).bind (fun s' => foldlE f s' xs)

/-- `[f(x) for x in xs]` / `tuple(map(f, xs))` where `f` may raise: the first exception aborts -/
def mapE {α β : Type} (f : α → Except Exc4 β) : List α → Except Exc4 (List β)
  | [] => .ok []
  | x :: xs => (f x).bind (fun y => (mapE f xs).bind (fun ys => .ok (y :: ys)))

/-- `xs[i]` on a list / tuple / the list of a dict's keys: negative indices count from the end, `IndexError` outside -/
def indexE {α : Type} (xs : List α) (i : Int) : Except Exc4 α :=
  match (if 0 ≤ i then xs[i.toNat]? else if 0 ≤ i + xs.length then xs[(i + xs.length).toNat]? else none) with
  | some x => .ok x
  | none => .error .index

/-- `max(xs)` of a list of ints: `ValueError` when empty -/
def maxListE : List Int → Except Exc4 Int
  | [] => .error .value
  | x :: xs => .ok (xs.foldl max x)

/-- the number of distinct elements: an element counts where it occurs for the LAST time -/
def distinctCount {α : Type} [BEq α] : List α → Nat
  | [] => 0
  | x :: xs => (if xs.contains x then 0 else 1) + distinctCount xs

/-- `len(set(xs))`: the number of distinct elements (independent of the set's iteration order) -/
def lenSet {α : Type} [BEq α] (xs : List α) : Int := ((distinctCount xs : Nat) : Int)

/-- value of an ASCII decimal digit -/
def digitVal? (c : Char) : Option Nat :=
  if 48 ≤ c.toNat ∧ c.toNat ≤ 57 then some (c.toNat - 48) else none

def parseNatAux : Nat → List Char → Option Nat
  | acc, [] => some acc
  | acc, c :: cs =>
    match digitVal? c with
    | some d => parseNatAux (10 * acc + d) cs
    | none => none

/-- a non-empty string of ASCII digits as a number -/
def parseNat? : Str → Option Nat
  | [] => none
  | c :: cs => parseNatAux 0 (c :: cs)

/-- `int(s)` as an optional value -/
def intOfStr? : Str → Option Int
  | [] => none
  | c :: r =>
    if c = '-' then (parseNat? r).map (fun (n : Nat) => -(Int.ofNat n))
    else if c = '+' then (parseNat? r).map Int.ofNat
    else (parseNat? (c :: r)).map Int.ofNat

/-- `int(s)` for a `str` of the form `[+-]?[0-9]+`; every other string is a `ValueError`.  DOMAIN: ASCII strings without
    whitespace and underscores (Python also accepts `" 1"`, `"1_0"`, non-ASCII digits). -/
def intOfStr (s : Str) : Except Exc4 Int :=
  match intOfStr? s with
  | some i => .ok i
  | none => .error .value

/-- `s.split(sep)` for a one-character separator -/
def split1 (sep : Char) : Str → List Str
  | [] => [[]]
  | c :: cs =>
    if c = sep then [] :: split1 sep cs
    else match split1 sep cs with
      | h :: t => (c :: h) :: t
      | [] => [[c]]

/-- the characters of a `str` as one-character strings (what iterating over a `str` yields) -/
def strChars (s : Str) : List Str := s.map (fun c => [c])

/-- a dictionary key that is a `str`, a `tuple` of ints, or something else (`isinstance` dispatch) -/
inductive PyKey where
  | str (s : List Char)
  | tup (t : List Int)
  | other
  deriving DecidableEq, Repr

/-- `d.keys()` / iterating over `d`, `d.values()` -/
def dictKeys {κ ν : Type} (d : Dict κ ν) : List κ := d.map (fun p => p.1)
def dictValues {κ ν : Type} (d : Dict κ ν) : List ν := d.map (fun p => p.2)

/-- `d[k]`: `KeyError` for a missing key -/
def dictGetE {κ ν : Type} [BEq κ] : Dict κ ν → κ → Except Exc4 ν
  | [], _ => .error .key
  | (k', v) :: rest, k => if k' == k then .ok v else dictGetE rest k

/-- `d.get(k, default)` -/
def dictGetD {κ ν : Type} [BEq κ] : Dict κ ν → κ → ν → ν
  | [], _, dflt => dflt
  | (k', v) :: rest, k, dflt => if k' == k then v else dictGetD rest k dflt

/-- a dict with tuple keys / with `str` keys where `str | tuple` keys are expected (the same Python object) -/
def dictTupKeys {ν : Type} (d : Dict (List Int) ν) : Dict PyKey ν := d.map (fun p => (PyKey.tup p.1, p.2))
def dictStrKeys {ν : Type} (d : Dict (List Char) ν) : Dict PyKey ν := d.map (fun p => (PyKey.str p.1, p.2))

/-- `Counter(xs)` for a list: one entry per distinct element in order of first occurrence, with its multiplicity -/
def counterOfList {κ : Type} [BEq κ] (xs : List κ) : Counter κ :=
  xs.foldl (fun c x => dictSet c x (counterGet c x + 1)) []
-- --- end T4

/-! --- T14: list item assignment / `remove`, `abs` (harness/translate_t14.py); compared with CPython in `harness/prelude_check.py`
    (ops `t14_*` of the driver). -/

/-- `xs[i] = v` once `xs[i]` has been read (`indexE`: negative indices count from the end, `IndexError` outside – where the read
    raises the store is not reached, and `listSet` leaves the list unchanged) -/
def listSet {α : Type} (xs : List α) (i : Int) (v : α) : List α :=
  if 0 ≤ i then xs.set i.toNat v else if 0 ≤ i + xs.length then xs.set (i + xs.length).toNat v else xs

/-- `xs.remove(v)`: the FIRST occurrence is removed, `ValueError` when there is none -/
def listRemoveE {α : Type} [BEq α] (xs : List α) (v : α) : Except Exc4 (List α) :=
  if xs.contains v then .ok (xs.erase v) else .error .value

/-- `abs(x)` on a numeric value / on an int -/
def absNum {ν : Type} [PyNum ν] (x : ν) : ν := if PyNum.lt x ((0 : Int) : ν) then ((0 : Int) : ν) - x else x
def absInt (x : Int) : Int := ((x.natAbs : Nat) : Int)
-- --- end T14

/-! --- T7: dictionaries keyed by ints / by frozensets of dict items, sets of ints, `max` of a set (harness/translate_t7.py: the
    classes PauliTerm / PauliSum).  Every definition below is compared with CPython in `harness/prelude_check.py` (ops `t7_*`). -/

/-- an `Option` read as "the value, or this exception" -/
def ofOption {α : Type} (e : Exc4) : Option α → Except Exc4 α
  | some a => .ok a
  | none => .error e

/-- `k in d` -/
def dictHas {κ ν : Type} [BEq κ] (d : Dict κ ν) (k : κ) : Bool := d.any (fun p => p.1 == k)

/-- `d.get(k)` (`none` = missing) -/
def dictFind? {κ ν : Type} [BEq κ] : Dict κ ν → κ → Option ν
  | [], _ => none
  | (k', v) :: rest, k => if k' == k then some v else dictFind? rest k

/-- `del d[k]`: `KeyError` for a missing key -/
def dictDelE {κ ν : Type} [BEq κ] (d : Dict κ ν) (k : κ) : Except Exc4 (Dict κ ν) :=
  if dictHas d k then .ok (d.filter (fun p => !(p.1 == k))) else .error .key

/-- `frozenset(d.items())` of a dict `d`, represented by `d` itself; compared with `frozenItemsEq` only -/
abbrev FrozenItems (κ ν : Type) := List (κ × ν)

/-- `frozenset(d.items()) == frozenset(e.items())` for dicts `d`, `e`: every item of either is an item of the other -/
def frozenItemsEq {κ ν : Type} [BEq κ] [BEq ν] (a b : FrozenItems κ ν) : Bool :=
  a.all (fun p => dictFind? b p.1 == some p.2) && b.all (fun p => dictFind? a p.1 == some p.2)

/-- `k in d` for a dict whose keys are compared by `eq` (stored key first) -/
def dictHasBy {κ ν : Type} (eq : κ → κ → Bool) (d : Dict κ ν) (k : κ) : Bool := d.any (fun p => eq p.1 k)

/-- `d[k]` for a dict whose keys are compared by `eq` -/
def dictGetByE {κ ν : Type} (eq : κ → κ → Bool) : Dict κ ν → κ → Except Exc4 ν
  | [], _ => .error .key
  | (k', v) :: rest, k => if eq k' k then .ok v else dictGetByE eq rest k

/-- `d[k] = v` for a dict whose keys are compared by `eq`: an existing key (object) keeps its position, a new key is appended -/
def dictSetBy {κ ν : Type} (eq : κ → κ → Bool) : Dict κ ν → κ → ν → Dict κ ν
  | [], k, v => [(k, v)]
  | (k', v') :: rest, k, v => if eq k' k then (k', v) :: rest else (k', v') :: dictSetBy eq rest k v

/-- `set(xs)`: the distinct elements in order of first occurrence (the ITERATION order is an external, see `PySet`) -/
def setOfList {α : Type} [BEq α] (xs : List α) : PySet α :=
  xs.foldl (fun acc x => if acc.contains x then acc else acc ++ [x]) []

/-- `s == t` on sets -/
def setEq {α : Type} [BEq α] (a b : PySet α) : Bool := a.all (fun x => b.contains x) && b.all (fun x => a.contains x)

/-- `max(xs)` of non-negative ints (a list or a set): `ValueError` when empty -/
def maxNatE : List Nat → Except Exc4 Nat
  | [] => .error .value
  | x :: xs => .ok (xs.foldl max x)
-- --- end T7

/-! --- T9: dictionary / text forms of operators and artefacts (harness/translate_t9.py, property C11): Python numbers that may
    be complex, `str.startswith / endswith / replace / strip / upper`, the two regular expressions of the term parser, `dict(pairs)`,
    loops / comprehensions / indexing that may raise (exception classes of `Exc`).  Every definition below is compared with
    CPython in `harness/prelude_check.py` (ops `t9_*` of the driver).  DOMAIN of the string functions: ASCII strings (with
    `re.I`, `[XYZI]` also matches U+0130 / U+0131; `str.upper` is rendered on ASCII letters only). -/

/-- a Python number as far as the dictionary forms distinguish them: an `int` / `float` (`real`, exact rational: float rounding
    is NOT modelled) or a `complex` -/
inductive Num where
  | real (x : Rat)
  | cplx (re im : Rat)
  deriving DecidableEq, Repr

/-- `z.real`, `z.imag` (an int / float has imaginary part 0) -/
def Num.re : Num → Rat
  | .real x => x
  | .cplx r _ => r
def Num.im : Num → Rat
  | .real _ => 0
  | .cplx _ i => i
/-- `isinstance(z, complex)` -/
def Num.isComplex : Num → Bool
  | .real _ => false
  | .cplx _ _ => true
/-- the literal `1j` -/
def Num.j : Num := .cplx 0 1
/-- `a + b`: complex iff one of the operands is -/
def Num.add (a b : Num) : Num :=
  match a, b with
  | .real x, .real y => .real (x + y)
  | _, _ => .cplx (a.re + b.re) (a.im + b.im)
/-- `a * b` -/
def Num.mul (a b : Num) : Num :=
  match a, b with
  | .real x, .real y => .real (x * y)
  | _, _ => .cplx (a.re * b.re - a.im * b.im) (a.re * b.im + a.im * b.re)
/-- truth value of a number -/
def Num.truthy (a : Num) : Bool := a.re != 0 || a.im != 0

/-- `s.startswith(p)`, `s.endswith(p)` -/
def startswith (s p : Str) : Bool := p.isPrefixOf s
def endswith (s p : Str) : Bool := p.reverse.isPrefixOf s.reverse
/-- `s.replace(old, new)` for a ONE-character `old` -/
def replaceChar (s : Str) (old : Char) (new : Str) : Str := s.flatMap (fun c => if c == old then new else [c])
/-- `s.strip(chars)` -/
def stripChars (s chars : Str) : Str :=
  ((s.dropWhile (fun c => chars.contains c)).reverse.dropWhile (fun c => chars.contains c)).reverse
/-- `s.upper()` on ASCII letters (other characters unchanged: DOMAIN ASCII) -/
def upperAscii (s : Str) : Str :=
  s.map (fun c => if decide (97 ≤ c.toNat) && decide (c.toNat ≤ 122) then Char.ofNat (c.toNat - 32) else c)
/-- `re.split(r"\ *\*\ *", s)`: split at every `*`, the spaces around a `*` belong to the separator -/
def dropSpacesL (p : Str) : Str := p.dropWhile (fun c => c == ' ')
def dropSpacesR (p : Str) : Str := (p.reverse.dropWhile (fun c => c == ' ')).reverse
/-- (`first` = no `*` before this part, so its leading spaces stay; the last part keeps its trailing spaces) -/
def reSplitStarGo : Bool → List Str → List Str
  | _, [] => []
  | first, [p] => [if first then p else dropSpacesL p]
  | first, p :: q :: rest => dropSpacesR (if first then p else dropSpacesL p) :: reSplitStarGo false (q :: rest)
def reSplitStar (s : Str) : List Str := reSplitStarGo true (split1 '*' s)
/-- `re.match(r"([XYZI])([0-9]+)$", s, re.I)`: the two groups of the match, `none` when there is no match (`$` also matches
    before ONE final newline) -/
def reMatchPauliIndex : Str → Option (Str × Str)
  | [] => none
  | c :: rest =>
    if "XYZIxyzi".toList.contains c then
      let digits := if rest.getLast? == some '\n' then rest.dropLast else rest
      if !digits.isEmpty && digits.all isAsciiDigit then some ([c], digits) else none
    else none
/-- `dict(pairs)`: a later pair with the same key overwrites the value, the key keeps its first position -/
def dictOfPairs {κ ν : Type} [BEq κ] (ps : List (κ × ν)) : Dict κ ν := ps.foldl (fun d p => dictSet d p.1 p.2) []
/-- `xs[i]`: negative indices count from the end, `IndexError` outside -/
def indexExc {α : Type} (xs : List α) (i : Int) : Except Exc α :=
  match (if 0 ≤ i then xs[i.toNat]? else if 0 ≤ i + xs.length then xs[(i + xs.length).toNat]? else none) with
  | some x => .ok x
  | none => .error .IndexError
/-- a `for` loop whose body may raise -/
def foldlExc {σ α : Type} (f : σ → α → Except Exc σ) : σ → List α → Except Exc σ
  | s, [] => .ok s
  | s, x :: xs => (f s x).bind (fun s' => foldlExc f s' xs)
/-- `[f(x) for x in xs]` where `f` may raise: the first exception aborts -/
def mapExc {α β : Type} (f : α → Except Exc β) : List α → Except Exc (List β)
  | [] => .ok []
  | x :: xs => (f x).bind (fun y => (mapExc f xs).bind (fun ys => .ok (y :: ys)))
-- --- end T9

-- --- T11: `sorted(xs)` of ints (harness/translate_t11.py); compared with CPython in harness/prelude_check.py (op `t11_sorted`)
/-- insertion into an ascending list, before the first element that is not smaller -/
def insertInt (a : Int) : List Int → List Int
  | [] => [a]
  | b :: l => if a ≤ b then a :: b :: l else b :: insertInt a l

/-- `sorted(xs)` for a list / the iteration order of a set of ints -/
def sortedInts : List Int → List Int
  | [] => []
  | a :: l => insertInt a (sortedInts l)
-- --- T11 end

-- --- T12: itertools.groupby (harness/translate_t12.py)
/-- `itertools.groupby(xs, key)` with every group taken as a list: maximal runs of consecutive items with equal keys, each with
    the key of its first item (key equality is `==`: an equivalence for the key types used, `Bool` / `Int`) -/
def groupby {α κ : Type} [BEq κ] (key : α → κ) : List α → List (κ × List α)
  | [] => []
  | x :: xs =>
    match groupby key xs with
    | [] => [(key x, [x])]
    | (k, g) :: rest => if key x == k then (k, x :: g) :: rest else (key x, [x]) :: (k, g) :: rest

/-- `sorted(xs)` of a list of ints (insertion sort: structural recursion, so that `decide` can run it; `insertInt` is the one of
    the T11 block above) -/
def sortedInt : List Int → List Int
  | [] => []
  | b :: l => insertInt b (sortedInt l)
-- --- end T12

/-! --- T15: numpy arrays as `measurements/measurements.py` / `measurements/parities.py` use them (harness/translate_t15.py).
    A 1-d array is the list of its entries, a 2-d array its list of rows TOGETHER WITH the number of columns (numpy keeps the width of an
    array without rows: `np.zeros(0).reshape(-1, 3)[:, [5]]` raises IndexError).  dtypes are not modelled beyond `u1` (whose subtraction
    wraps modulo 256); float rounding is not modelled (`ν`).  Every function is compared with numpy in `harness/prelude_check.py`
    (ops `t15_*` of the driver). -/

abbrev Arr1 (τ : Type) := List τ
/-- a 1-d array of dtype `u1` (entries 0..255) -/
abbrev Arr1U8 := List Int

structure Arr2 (τ : Type) where
  width : Nat
  rows : List (List τ)
  deriving Repr, DecidableEq

/-- `np.frombuffer(s.encode("utf-8"), "u1")` for an ASCII str (documented domain): the character codes -/
def npFromBufferU1 (s : Str) : Arr1 Int := s.map (fun c => ((c.toNat : Nat) : Int))

/-- `a - k` for a `u1` array and a Python int `0 ≤ k ≤ 255` (the translator checks the literal): wraps modulo 256 -/
def npSubU8 (a : Arr1 Int) (k : Int) : Arr1 Int := a.map (fun b => Int.fmod (b - k) 256)

/-- `a.astype(int)` of a `u1` array: the same values -/
def npAstypeInt (a : Arr1 Int) : Arr1 Int := a

/-- `r` consecutive chunks of `w` entries -/
def npChunks {τ : Type} : Nat → Nat → List τ → List (List τ)
  | 0, _, _ => []
  | r + 1, w, xs => xs.take w :: npChunks r w (xs.drop w)

/-- `a.reshape(-1, n)`: ValueError for `n ≤ 0` (`-1, 0` / two unknown dimensions) and when `n` does not divide the size -/
def npReshapeE {τ : Type} (a : Arr1 τ) (n : Int) : Except Exc4 (Arr2 τ) :=
  if n ≤ 0 then .error .value
  else if a.length % n.toNat ≠ 0 then .error .value
  else .ok ⟨n.toNat, npChunks (a.length / n.toNat) n.toNat a⟩

/-- `A.shape` of a 2-d array -/
def npShape2 {τ : Type} (A : Arr2 τ) : List Int := [((A.rows.length : Nat) : Int), ((A.width : Nat) : Int)]

/-- `np.ones(k)` (the float 1.0 is rendered as the integer 1; `k ≥ 0` where the code calls it) -/
def npOnes (k : Int) : Arr1 Int := List.replicate k.toNat 1

/-- `np.fromiter(xs, dtype=int)` -/
def npFromIterInt (xs : List Int) : Arr1 Int := xs

/-- `A[:, idx]` (fancy indexing of the columns): IndexError for an index outside `-width ≤ i < width` (negative from the end),
    checked against the WIDTH also when there are no rows -/
def npTakeColsE {τ : Type} [Inhabited τ] (A : Arr2 τ) (idx : Arr1 Int) : Except Exc4 (Arr2 τ) :=
  if idx.all (fun i => decide (-((A.width : Nat) : Int) ≤ i) && decide (i < ((A.width : Nat) : Int))) then
    .ok ⟨idx.length, A.rows.map (fun r => idx.map (fun i => r.getD (if 0 ≤ i then i.toNat else (i + ((A.width : Nat) : Int)).toNat) default))⟩
  else .error .index

/-- `A.sum(axis=1)` -/
def npSumAxis1 (A : Arr2 Int) : Arr1 Int := A.rows.map OQ.Py.sum

/-- `a + k`, `a - k`, `a * k`, `a % k` (`k ≠ 0`: the translator checks the literal), `k - a` for an int array and a Python int -/
def npAddS (a : Arr1 Int) (k : Int) : Arr1 Int := a.map (fun x => x + k)
def npSubS (a : Arr1 Int) (k : Int) : Arr1 Int := a.map (fun x => x - k)
def npMulS (a : Arr1 Int) (k : Int) : Arr1 Int := a.map (fun x => x * k)
def npModS (a : Arr1 Int) (k : Int) : Arr1 Int := a.map (fun x => Int.fmod x k)
def npRSubS (k : Int) (a : Arr1 Int) : Arr1 Int := a.map (fun x => k - x)

/-- `np.abs(a)` -/
def npAbs1 (a : Arr1 Int) : Arr1 Int := a.map absInt

/-- `a * b` / `a - b` of two 1-d arrays: numpy broadcasting (equal lengths, or one of length 1), ValueError otherwise -/
def npZip1E (f : Int → Int → Int) (a b : Arr1 Int) : Except Exc4 (Arr1 Int) :=
  if a.length = b.length then .ok (List.zipWith f a b)
  else if a.length = 1 then .ok (b.map (fun y => f (a.headD 0) y))
  else if b.length = 1 then .ok (a.map (fun x => f x (b.headD 0)))
  else .error .value

/-- `a / n` (true division of an int array by a Python int).  numpy does NOT raise for `n == 0`: it warns and every entry is nan / ±inf.
    `.error .zeroDiv` stands for that non-finite result (everything computed from it – `.sum()`, products – is non-finite too); an EMPTY
    array divided by 0 is the empty array. -/
def npTrueDivE {ν : Type} [PyNum ν] (a : Arr1 Int) (n : Int) : Except Exc4 (Arr1 ν) :=
  if n == 0 && !a.isEmpty then .error .zeroDiv else .ok (a.map (fun x => ((x : Int) : ν) / ((n : Int) : ν)))

/-- `a.sum()` of an int array -/
def npSum1 (a : Arr1 Int) : Int := OQ.Py.sum a

/-- `np.array(xs)` of a list of numbers -/
def npArray1 {τ : Type} (xs : List τ) : Arr1 τ := xs

/-- `np.zeros((r, c))` -/
def npZeros2 {ν : Type} [PyNum ν] (r c : Int) : Arr2 ν :=
  ⟨c.toNat, List.replicate r.toNat (List.replicate c.toNat ((0 : Int) : ν))⟩

/-- `A[i, j]`: IndexError outside, negative indices from the end -/
def npGet2E {τ : Type} (A : Arr2 τ) (i j : Int) : Except Exc4 τ :=
  (indexE A.rows i).bind (fun r => indexE r j)

/-- `A[i, j] = v` once `A[i, j]` has been read (`npGet2E`; where the read raises the store raises too and is not reached) -/
def npSet2 {τ : Type} (A : Arr2 τ) (i j : Int) (v : τ) : Arr2 τ :=
  match indexE A.rows i with
  | .ok r => ⟨A.width, listSet A.rows i (listSet r j v)⟩
  | .error _ => A

/-- `x[:, np.newaxis]` (a column) and `x[np.newaxis, :]` (a row) -/
def npCol {τ : Type} (x : Arr1 τ) : Arr2 τ := ⟨1, x.map (fun v => [v])⟩
def npRow {τ : Type} (x : Arr1 τ) : Arr2 τ := ⟨x.length, [x]⟩

/-- numpy's broadcast of one dimension: equal, or one of them 1 -/
def npBDim (a b : Nat) : Option Nat := if a = b then some a else if a = 1 then some b else if b = 1 then some a else none

/-- a dimension of size 1 stretched to `n` -/
def npStretch {τ : Type} (n : Nat) (xs : List τ) : List τ :=
  if xs.length = n then xs else match xs with
    | [x] => List.replicate n x
    | _ => xs

/-- `A op B` of two 2-d arrays with broadcasting: ValueError when a dimension differs and neither is 1 -/
def npZip2E {τ : Type} (f : τ → τ → τ) (A B : Arr2 τ) : Except Exc4 (Arr2 τ) :=
  match npBDim A.rows.length B.rows.length, npBDim A.width B.width with
  | some r, some c =>
    .ok ⟨c, List.zipWith (fun ra rb => List.zipWith f (npStretch c ra) (npStretch c rb)) (npStretch r A.rows) (npStretch r B.rows)⟩
  | _, _ => .error .value

/-- `A / d` of a float / complex 2-d array by a Python int: numpy does not raise for `d == 0`; the entries are then non-finite (`none`) -/
def npDivS2 {ν : Type} [PyNum ν] (A : Arr2 ν) (d : Int) : Arr2 (Option ν) :=
  ⟨A.width, A.rows.map (fun r => r.map (fun x => if d == 0 then none else some (x / ((d : Int) : ν))))⟩

/-- `enumerate(xs)` -/
def enumerate {τ : Type} (xs : List τ) : List (Int × τ) := xs.zipIdx.map (fun p => (((p.2 : Nat) : Int), p.1))

/-- `np.array([*rows])` of a list of int tuples: a 2-d array when all tuples have one length (ValueError otherwise: inhomogeneous
    shape); for NO tuple at all numpy builds a 1-d empty array, on which `[:, idx]` raises IndexError – that case is the separate
    constructor `none` of the result. -/
def npArrayRowsE (rows : List (List Int)) : Except Exc4 (Option (Arr2 Int)) :=
  match rows with
  | [] => .ok none
  | r :: rs => if rs.all (fun x => x.length == r.length) then .ok (some ⟨r.length, rows⟩) else .error .value
-- --- end T15

/-! --- T16: distances between distributions (harness/translate_t16.py, property C17): 2-argument `max` / unary minus on numeric
    values, `math.log` with its domain error, `int(s, 2)` with its ValueError, the union of two key views as a set, the value of a
    parameter dictionary that is a number or a sequence of numbers, and the elementwise numpy operations the kernels of `mmd.py` are
    written with (1-d arrays are lists, 2-d arrays are lists of rows; an object array of Python ints is a `List Int`).  Every
    definition below is compared with CPython / numpy in `harness/prelude_check.py` (ops `t16_*` of the driver, run at `ν = Rat`).
    Float rounding, `nan` / `inf` and numpy's warnings are NOT modelled. -/

/-- `max(a, b)` on numeric values: Python returns `b` only when `b > a` -/
def maxNum {ν : Type} [PyNum ν] (a b : ν) : ν := if PyNum.lt a b then b else a

/-- `-x` on a numeric value -/
def negNum {ν : Type} [PyNum ν] (x : ν) : ν := ((0 : Int) : ν) - x

/-- `math.log(x)`: `ValueError` (math domain error) unless `x > 0`; the value on positive arguments is the external `log` -/
def mathLogE {ν : Type} [PyNum ν] (log : ν → ν) (x : ν) : Except Exc4 ν :=
  if PyNum.lt ((0 : Int) : ν) x then .ok (log x) else .error .value

/-- the binary digits of `int(s, 2)` after the sign: non-empty, `0` / `1` only -/
def parseBin2Aux : Nat → Str → Option Nat
  | acc, [] => some acc
  | acc, c :: cs =>
    if c = '0' then parseBin2Aux (2 * acc) cs
    else if c = '1' then parseBin2Aux (2 * acc + 1) cs
    else none

/-- `int(s, 2)`: an optional sign followed by a non-empty string of binary digits; every other string is a `ValueError`.
    DOMAIN: strings over decimal digits, `+` and `-` (what `"".join(map(str, ints))` produces; Python also accepts whitespace,
    underscores and a `0b` prefix). -/
def intBase2E : Str → Except Exc4 Int
  | [] => .error .value
  | c :: r =>
    let digits (s : Str) : Option Nat := match s with
      | [] => none
      | _ => parseBin2Aux 0 s
    if c = '-' then ofOption .value ((digits r).map (fun (n : Nat) => -(Int.ofNat n)))
    else if c = '+' then ofOption .value ((digits r).map Int.ofNat)
    else ofOption .value ((digits (c :: r)).map Int.ofNat)

/-- `set(xs).union(ys)` in the representation of `setOfList` (distinct elements in order of first occurrence); the ITERATION order
    is an external (`ext_set_order`, applied where the set is built: CPython iterates an unmodified set in one fixed order) -/
def setUnion {α : Type} [BEq α] (a : PySet α) (ys : List α) : PySet α :=
  ys.foldl (fun acc x => if acc.contains x then acc else acc ++ [x]) a

/-- a value that is a number or a sequence of numbers (`hasattr(x, "__len__")` tells them apart) -/
inductive NumOrSeq (ν : Type) where
  | num (x : ν)
  | seq (xs : List ν)

/-- a 1-d / 2-d numpy array: the list of its entries / of its rows (kept apart from Python lists by the translator: `+` on arrays
    is elementwise, on lists it is concatenation) -/
abbrev NpVec (α : Type) := List α
abbrev NpMat (α : Type) := List (List α)

/-- `x[:, None] - y[None, :]` on 1-d arrays of ints: the matrix of all differences -/
def npOuterSub (x y : NpVec Int) : NpMat Int := x.map (fun a => y.map (fun b => a - b))
/-- `np.abs(m)` on a 2-d array of ints -/
def npAbs2 (m : NpMat Int) : NpMat Int := m.map (fun r => r.map absInt)
/-- `m ** k` on a 2-d array of ints, `k ≥ 0` a constant -/
def npPow2 (m : NpMat Int) (k : Int) : NpMat Int := m.map (fun r => r.map (fun a => a ^ k.toNat))
/-- `m.astype(float)` on a 2-d array of ints -/
def npAsFloat2 {ν : Type} [PyNum ν] (m : NpMat Int) : NpMat ν := m.map (fun r => r.map (fun a => ((a : Int) : ν)))
/-- `c * m` for a number and a 2-d array -/
def npScale2 {ν : Type} [PyNum ν] (c : ν) (m : NpMat ν) : NpMat ν := m.map (fun r => r.map (fun a => c * a))
/-- a numpy ufunc applied to a 2-d array: elementwise -/
def npMap2 {ν : Type} (f : ν → ν) (m : NpMat ν) : NpMat ν := m.map (fun r => r.map f)
/-- `np.zeros(m.shape)` -/
def npZerosLike2 {α ν : Type} [PyNum ν] (m : NpMat α) : NpMat ν := m.map (fun r => r.map (fun _ => ((0 : Int) : ν)))
/-- `a + b` / `a += b` on 2-d arrays.  DOMAIN: equal shapes. -/
def npAdd2 {ν : Type} [PyNum ν] (a b : NpMat ν) : NpMat ν := List.zipWith (fun r s => List.zipWith (· + ·) r s) a b
/-- `m / k` for a 2-d array and an int.  DOMAIN: `k ≠ 0` (numpy returns `nan` / `inf` with a warning, no exception). -/
def npDivInt2 {ν : Type} [PyNum ν] (m : NpMat ν) (k : Int) : NpMat ν := m.map (fun r => r.map (fun a => a / ((k : Int) : ν)))
/-- `a - b` on 1-d arrays.  DOMAIN: equal lengths. -/
def npSub1 {ν : Type} [PyNum ν] (a b : NpVec ν) : NpVec ν := List.zipWith (· - ·) a b
/-- `a.dot(b)` on 1-d arrays (sum of products, left to right).  DOMAIN: equal lengths. -/
def npDot1 {ν : Type} [PyNum ν] (a b : NpVec ν) : ν := sumNum (List.zipWith (· * ·) a b)
/-- `m.dot(v)` for a 2-d and a 1-d array.  DOMAIN: every row as long as `v`. -/
def npMatVec {ν : Type} [PyNum ν] (m : NpMat ν) (v : NpVec ν) : NpVec ν := m.map (fun r => npDot1 r v)
-- --- end T16

-- --- T19: text forms of Pauli operators (harness/translate_t19.py, property C11); every definition is compared with CPython in
-- harness/prelude_check.py (ops `t19_*` of the driver).  DOMAIN: ASCII strings.
/-- `c.isspace()` on ASCII: blank, U+0009–U+000D, U+001C–U+001F -/
def isPyWhite (c : Char) : Bool :=
  c == ' ' || (decide (9 ≤ c.toNat) && decide (c.toNat ≤ 13)) || (decide (28 ≤ c.toNat) && decide (c.toNat ≤ 31))
/-- `s.strip()` -/
def stripWs (s : Str) : Str := ((s.dropWhile isPyWhite).reverse.dropWhile isPyWhite).reverse
/-- the look-ahead `[^(]*\)` matches here: reading on, a `)` comes before any `(` -/
def closesBeforeOpen : Str → Bool
  | [] => false
  | c :: rest => if c == ')' then true else if c == '(' then false else closesBeforeOpen rest
/-- `re.split(r"\+(?![^(]*\))", s)`: split at every `+` that is not inside a bracket that closes later -/
def reSplitPlus : Str → List Str
  | [] => [[]]
  | c :: rest =>
    if c == '+' && !closesBeforeOpen rest then [] :: reSplitPlus rest
    else match reSplitPlus rest with
      | h :: t => (c :: h) :: t
      | [] => [[c]]

/-- a Python `set` of HASHABLE OBJECTS (instances of a class with `__hash__` and `__eq__`), as the list of its elements in insertion
    order: only WHICH objects are elements matters to `len` and `==` -/
abbrev HSet (α : Type) := List α
/-- the lookup test of CPython's hash table: the stored hash equals the new hash AND `existing == new` (`existing.__eq__(new)`) -/
def sameElem {α H : Type} [DecidableEq H] (hash : α → H) (eq : α → α → Bool) (existing new : α) : Bool :=
  decide (hash existing = hash new) && eq existing new
/-- `set(xs)`: an object is added unless an element that is the same (hash and `==`) is already there -/
def setOfHashables {α H : Type} [DecidableEq H] (hash : α → H) (eq : α → α → Bool) (xs : List α) : HSet α :=
  xs.foldl (fun acc t => if acc.any (fun e => sameElem hash eq e t) then acc else acc ++ [t]) []
/-- `a == b` on such sets: equal sizes and every element of `a` is found in `b` -/
def setEqHashables {α H : Type} [DecidableEq H] (hash : α → H) (eq : α → α → Bool) (a b : HSet α) : Bool :=
  a.length == b.length && a.all (fun t => b.any (fun e => sameElem hash eq e t))
-- --- end T19

end OQ.Py
