/- A small PRELUDE of Python built-ins used by the Python→Lean translator (`harness/translate.py`).
   Mathlib-free: these definitions are compiled into the model driver, and every one of them is validated
   against the real CPython built-in on every run (`harness/prelude_check.py`, op `py.*` of the driver).

   Domain notes (the translator's docstring repeats them): slices are translated for non-negative bounds only,
   `int(c)` for a decimal digit character, `int(s, 2)` for a non-empty string of '0'/'1'.  Outside these domains the
   Python raises or wraps around and the Lean value is unspecified; tie theorems carry the domain as hypotheses. -/
namespace OQ.Py

abbrev Str := List Char

/-- the character of a decimal digit `d < 10` -/
def digitChar (d : Nat) : Char := Char.ofNat (48 + d)

/-- `int(c)` for a one-character string holding a decimal digit -/
def charDigit (c : Char) : Int := (c.toNat : Int) - 48

/-- binary digits of `i`, most significant first, no leading zero (`[0]` for 0); fuel `≥ i` suffices -/
def binDigitsFuel : Nat → Nat → List Nat
  | 0, i => [i % 2]
  | f + 1, i => if i < 2 then [i] else binDigitsFuel f (i / 2) ++ [i % 2]

def binDigits (i : Nat) : List Nat := binDigitsFuel i i

/-- Python `bin(n)` -/
def bin (n : Int) : Str :=
  if n < 0 then '-' :: '0' :: 'b' :: (binDigits n.natAbs).map digitChar
  else '0' :: 'b' :: (binDigits n.toNat).map digitChar

/-- `xs[a:]` for `a ≥ 0` -/
def sliceFrom {α : Type} (xs : List α) (a : Int) : List α := xs.drop a.toNat

/-- `xs[:b]` for `b ≥ 0` -/
def sliceTo {α : Type} (xs : List α) (b : Int) : List α := xs.take b.toNat

/-- `xs[a:b]` for `a, b ≥ 0` -/
def slice {α : Type} (xs : List α) (a b : Int) : List α := (xs.take b.toNat).drop a.toNat

/-- `s.zfill(w)`: left-pad with '0' to width `w`; a leading sign character stays first -/
def zfill (s : Str) (w : Int) : Str :=
  match s with
  | [] => List.replicate w.toNat '0'
  | c :: rest =>
    if c == '-' || c == '+' then c :: (List.replicate (w.toNat - s.length) '0' ++ rest)
    else List.replicate (w.toNat - s.length) '0' ++ s

/-- decimal digits of a natural number, most significant first (`[0]` for 0); fuel `≥ n` suffices -/
def decDigitsFuel : Nat → Nat → List Nat
  | 0, i => [i % 10]
  | f + 1, i => if i < 10 then [i] else decDigitsFuel f (i / 10) ++ [i % 10]

/-- Python `str(n)` for an int -/
def strOfInt (n : Int) : Str :=
  if n < 0 then '-' :: (decDigitsFuel n.natAbs n.natAbs).map digitChar
  else (decDigitsFuel n.toNat n.toNat).map digitChar

/-- Python `int(s, 2)` for a non-empty string of binary digits -/
def intBase2 (s : Str) : Int := s.foldl (fun acc c => 2 * acc + charDigit c) 0

/-- Python `sep.join(parts)` -/
def join (sep : Str) : List Str → Str
  | [] => []
  | [p] => p
  | p :: ps => p ++ sep ++ join sep ps

/-- Python `sum(xs)` for a list of ints -/
def sum (xs : List Int) : Int := xs.foldl (· + ·) 0

/-- Python `a & b`, `a | b`, `a >> k` for NON-NEGATIVE ints (the translator emits them for Nat-valued operands only) -/
def land (a b : Int) : Int := ((a.toNat &&& b.toNat : Nat) : Int)
def lor (a b : Int) : Int := ((a.toNat ||| b.toNat : Nat) : Int)
def shr (a k : Int) : Int := ((a.toNat >>> k.toNat : Nat) : Int)

/-- Python `x & -x` for `x > 0`: the lowest set bit -/
def lowbit (x : Int) : Int := ((x.toNat - (x.toNat &&& (x.toNat - 1)) : Nat) : Int)

end OQ.Py
