/-
  Prelude of work package T8 (translation of circuits/_serde.py): the JSON-like value type the translated readers / writers work on
  and the Python built-ins their bodies use.  Mathlib-free (compiled into `oqdriver`).  Every function that stands for a CPython
  built-in (`sorted` on str, `str.endswith`, `sub in s`, `d[k]`, `d.get`, truthiness, `next(generator, None)`) is compared with
  CPython on every run by `harness/translated_check_t8.py`.
-/
namespace OQ.PyT8

/-- what `json.load` returns / `json.dump` takes, restricted to what the circuit format uses: str, int, a number standing for an
    exponent (`E`: Python float / int, opaque), list, dict (insertion ordered, keys are str) -/
inductive JV (E : Type) where
  | str (s : String)
  | int (n : Int)
  | num (e : E)
  | arr (l : List (JV E))
  | obj (kv : List (String × JV E))

/-- the exception classes of the translated bodies.  `NotAGate`: no exception in Python – the function RETURNS an object that is not
    a gate (the opaque `gate_ref` returned uncalled / called although it is no factory).  `IllTyped`: a JSON value of another type
    than the translation's typing of the function assumes (Python would go on with duck typing; outside the translated domain).
    `RecursionError`: the explicit recursion budget of a recursive function is used up. -/
inductive Err where
  | KeyError | ValueError | TypeError | NotImplementedError | RecursionError | NotAGate | IllTyped
deriving Repr, DecidableEq, Inhabited

variable {E : Type}

def lookup (k : String) : List (String × JV E) → Option (JV E)
  | [] => none
  | (k', v) :: rest => if k' = k then some v else lookup k rest

/-- `d[k]` on a dict -/
def getItem (d : JV E) (k : String) : Except Err (JV E) :=
  match d with
  | .obj kv => match lookup k kv with
    | some v => .ok v
    | none => .error .KeyError
  | _ => .error .IllTyped

/-- `d.get(k)` (`none` = Python `None`) -/
def getOpt (d : JV E) (k : String) : Except Err (Option (JV E)) :=
  match d with
  | .obj kv => .ok (lookup k kv)
  | _ => .error .IllTyped

/-- `d.get(k, default)` -/
def getD (d : JV E) (k : String) (dflt : JV E) : Except Err (JV E) :=
  match d with
  | .obj kv => match lookup k kv with
    | some v => .ok v
    | none => .ok dflt
  | _ => .error .IllTyped

def asStr : JV E → Except Err String
  | .str s => .ok s
  | _ => .error .IllTyped
def asInt : JV E → Except Err Int
  | .int n => .ok n
  | _ => .error .IllTyped
def asNum : JV E → Except Err E
  | .num e => .ok e
  | _ => .error .IllTyped
def asList : JV E → Except Err (List (JV E))
  | .arr l => .ok l
  | _ => .error .IllTyped

/-- `for a in xs: f(a)` collecting the results, stopping at the first exception (list comprehension / `list(map(f, xs))`) -/
def mapE {α β ε : Type} (f : α → Except ε β) : List α → Except ε (List β)
  | [] => .ok []
  | a :: as => match f a with
    | .error e => .error e
    | .ok b => match mapE f as with
      | .error e => .error e
      | .ok bs => .ok (b :: bs)

def asStrs (j : JV E) : Except Err (List String) := Except.bind (asList j) (mapE asStr)
def asInts (j : JV E) : Except Err (List Int) := Except.bind (asList j) (mapE asInt)

/-- truthiness of `d.get(k)`: `None`, `[]`, `{}`, `""`, `0` are false; an exponent-number is outside the typed domain -/
def truthyOpt : Option (JV E) → Except Err Bool
  | none => .ok false
  | some (.arr l) => .ok (!l.isEmpty)
  | some (.obj kv) => .ok (!kv.isEmpty)
  | some (.str s) => .ok (!s.toList.isEmpty)
  | some (.int n) => .ok (n != 0)
  | some (.num _) => .error .IllTyped

/-- `next((a for a in xs if p(a)), None)`: the condition is evaluated lazily, left to right, up to the first hit -/
def nextE {α ε : Type} (p : α → Except ε Bool) : List α → Except ε (Option α)
  | [] => .ok none
  | a :: as => match p a with
    | .error e => .error e
    | .ok true => .ok (some a)
    | .ok false => nextE p as

/-- `<` on Python str (code points, lexicographic) -/
def ltChars : List Char → List Char → Bool
  | [], [] => false
  | [], _ :: _ => true
  | _ :: _, [] => false
  | a :: as, b :: bs => a.val < b.val || (a == b && ltChars as bs)

def insertStr (x : String) : List String → List String
  | [] => [x]
  | y :: ys => if ltChars x.toList y.toList then x :: y :: ys else y :: insertStr x ys

/-- `sorted(l)` on a list of str -/
def sortedStr (l : List String) : List String := l.foldr insertStr []

/-- `s.endswith(suffix)` -/
def endswith (s suffix : String) : Bool := suffix.toList.isSuffixOf s.toList

def subInChars : List Char → List Char → Bool
  | [], sub => sub.isPrefixOf []
  | c :: cs, sub => sub.isPrefixOf (c :: cs) || subInChars cs sub

/-- `sub in s` on str -/
def strIn (sub s : String) : Bool := subInChars s.toList sub.toList

/-- `except KeyError: pass` around `return e`: the value / any other exception leaves, a KeyError falls through to `rest` -/
def exceptKeyError {α : Type} (r : Except Err α) (rest : Except Err α) : Except Err α :=
  match r with
  | .error .KeyError => rest
  | r => r

end OQ.PyT8
