/- PRELUDE of work package T13 (`harness/translate_t13.py`: the `Wavefunction` class and the state views of `wavefunction.py`).
   Mathlib-free: compiled into the model driver.  Control-flow combinators (`Flow`, `mapE`, `filterE`) and four Python built-ins
   (`str.count` of a one-character needle, `dict(pairs)`, `zip(*d.items())`, `format(i, "0" + str(w) + "b")`); the built-ins are
   compared with CPython on every run by `harness/translated_check_t13.py` (driver tag "TRT13", op "prelude"), the combinators
   through the differential self-check of the translated definitions that use them. -/
import OQ.Exec.Py
namespace OQ.PyT
open OQ.Py

/-- exception classes (messages are not translated); `other`: anything else an external may raise -/
inductive Exc where
  | ValueError | TypeError | IndexError | KeyError | AssertionError
  | other (tag : Nat)
  deriving DecidableEq, Repr

/-- how a `try:` body (or its handler) ends without an exception: a `return v`, or falling off its end with the values `l` of the
    variables it assigned -/
inductive Flow (ρ L : Type) where
  | ret (v : ρ)
  | next (l : L)

/-- `[f(x) for x in xs]` where `f` may raise: left to right, the first exception ends the comprehension -/
def mapE {α β : Type} (f : α → Except Exc β) : List α → Except Exc (List β)
  | [] => .ok []
  | x :: xs =>
    match f x with
    | .error e => .error e
    | .ok b =>
      match mapE f xs with
      | .error e => .error e
      | .ok bs => .ok (b :: bs)

/-- `[x for x in xs if p(x)]` where `p` may raise -/
def filterE {α : Type} (p : α → Except Exc Bool) : List α → Except Exc (List α)
  | [] => .ok []
  | x :: xs =>
    match p x with
    | .error e => .error e
    | .ok b =>
      match filterE p xs with
      | .error e => .error e
      | .ok ys => .ok (if b then x :: ys else ys)

/-- `s.count(c)` for a one-character needle -/
def countChar (s : Str) (c : Char) : Int := ((s.count c : Nat) : Int)

/-- `dict(pairs)`: inserted left to right, a repeated key keeps its first position and takes the last value -/
def dictOfPairs {κ ν : Type} [BEq κ] (ps : List (κ × ν)) : Dict κ ν :=
  ps.foldl (fun d p => dictSet d p.1 p.2) []

/-- `a, b = zip(*d.items())`: the keys and the values; unpacking raises ValueError on an empty dict (zip() of nothing is empty) -/
def unzipItems {κ ν : Type} (d : Dict κ ν) : Except Exc (List κ × List ν) :=
  if d.isEmpty then .error .ValueError else .ok (d.map Prod.fst, d.map Prod.snd)

/-- `format(i, "0" + str(w) + "b")` for `w ≥ 0`: binary digits, zero-padded to width `w`, a sign stays first -/
def formatBinW (i w : Int) : Str := zfill (formatB i) w

end OQ.PyT
