/-
  Dense matrices for the executable models (Mathlib-free).  A matrix is materialised in an
  `Array`; every operation is written as `ofFn r c (pointwise formula over get)`, so proofs
  see plain functions (`get_ofFn`) while execution is polynomial.
-/
import OQ.Exec.Cyc8
namespace OQ

/-- `Σ_{k<n} f k` as a left fold (bridged to `Finset.sum` in `OQ.Lemmas.Bridge`). -/
def sumTo {R : Type} [Zero R] [Add R] (n : Nat) (f : Nat → R) : R :=
  (List.range n).foldl (fun acc k => acc + f k) 0

structure Mat (R : Type) where
  r : Nat
  c : Nat
  a : Array R
deriving Repr, Inhabited

namespace Mat
variable {R : Type}

def ofFn (r c : Nat) (f : Nat → Nat → R) : Mat R :=
  ⟨r, c, Array.ofFn (n := r * c) (fun k => f (k.val / c) (k.val % c))⟩

def get [Zero R] (m : Mat R) (i j : Nat) : R :=
  if i < m.r ∧ j < m.c then m.a.getD (i * m.c + j) 0 else 0

def identity [Zero R] [One R] (d : Nat) : Mat R := ofFn d d (fun i j => if i = j then 1 else 0)

def mul [Zero R] [Add R] [Mul R] (A B : Mat R) : Mat R :=
  ofFn A.r B.c (fun i j => sumTo A.c (fun k => A.get i k * B.get k j))

/-- Kronecker product, left factor most significant (as `np.kron`). -/
def kron [Zero R] [Mul R] (A B : Mat R) : Mat R :=
  ofFn (A.r * B.r) (A.c * B.c) (fun i j => A.get (i / B.r) (j / B.c) * B.get (i % B.r) (j % B.c))

def transpose [Zero R] (A : Mat R) : Mat R := ofFn A.c A.r (fun i j => A.get j i)
def adjoint [Zero R] [Conj R] (A : Mat R) : Mat R := ofFn A.c A.r (fun i j => conj (A.get j i))
def add [Zero R] [Add R] (A B : Mat R) : Mat R := ofFn A.r A.c (fun i j => A.get i j + B.get i j)
def smul [Zero R] [Mul R] (x : R) (A : Mat R) : Mat R := ofFn A.r A.c (fun i j => x * A.get i j)
def map [Zero R] {S : Type} (f : R → S) (A : Mat R) : Mat S := ofFn A.r A.c (fun i j => f (A.get i j))

def toLists [Zero R] (A : Mat R) : List (List R) :=
  (List.range A.r).map (fun i => (List.range A.c).map (fun j => A.get i j))

def ofLists [Zero R] (rows : List (List R)) : Mat R :=
  let c := (rows.head?.map List.length).getD 0
  ofFn rows.length c (fun i j => ((rows.getD i []).getD j 0))

def beq [Zero R] [BEq R] (A B : Mat R) : Bool :=
  A.r == B.r && A.c == B.c &&
    (List.range A.r).all (fun i => (List.range A.c).all (fun j => A.get i j == B.get i j))

end Mat
end OQ
