import OQ.Exec.Proto
import OQ.Model.Lift
import OQ.Model.Gates
open Lean OQ.Proto
namespace OQ.C01.Driver
open OQ.Lift

def angOfJson (j : Json) : Except String (OQ.Ang Cyc8) := do
  match ← arrOfJson j with
  | [c, s] => pure ⟨Cyc8.ofRat (← ratOfJson c), Cyc8.ofRat (← ratOfJson s)⟩
  | _ => throw "bad angle"

/-- an operation: {"m": matrix, "qs": [...]} or {"gate": name, "angles": [[ch,sh],…], "qs": [...]} -/
def opOfJson (j : Json) : Except String (Op Cyc8) := do
  let qs ← listOfJson natOfJson (← field j "qs")
  match fieldOpt j "m" with
  | some mj => pure ⟨← matOfJson mj, qs⟩
  | none =>
    let name ← strOfJson (← field j "gate")
    let angs ← listOfJson angOfJson (← field j "angles")
    match OQ.Gates.builtinMatrix OQ.Scal.cyc8 name angs with
    | some m => pure ⟨m, qs⟩
    | none => throw s!"unknown gate {name}"

def optMat (o : Option (Mat Cyc8)) : Json :=
  match o with
  | none => Json.str "err"
  | some m => matToJson m

def handle (op : String) (j : Json) : Except String Json := do
  match op with
  | "lift" =>
    let o ← opOfJson j
    let n ← natOfJson (← field j "n")
    pure (optMat (liftMatrix o.m o.qs n))
  | "unitary" =>
    let ops ← listOfJson opOfJson (← field j "ops")
    let n ← natOfJson (← field j "n")
    pure (optMat (toUnitary n ops))
  | "apply_all" =>
    let ops ← listOfJson opOfJson (← field j "ops")
    let v ← listOfJson cycOfJson (← field j "v")
    pure (optMat (applyAll ops (Mat.ofLists (v.map (fun x => [x])))))
  | "gate" =>
    let name ← strOfJson (← field j "gate")
    let angs ← listOfJson angOfJson (← field j "angles")
    pure (optMat (OQ.Gates.builtinMatrix OQ.Scal.cyc8 name angs))
  | _ => throw s!"unknown op {op}"

end OQ.C01.Driver
