import OQ.Exec.Proto
import OQ.Model.Lift
import OQ.Model.Gates
import OQ.Model.C01
open Lean OQ.Proto
namespace OQ.C01.Driver
open OQ.Lift OQ.C01

def angOfJson (j : Json) : Except String (OQ.Ang Cyc8) := do
  match ← arrOfJson j with
  | [c, s] => pure ⟨Cyc8.ofRat (← ratOfJson c), Cyc8.ofRat (← ratOfJson s)⟩
  | _ => throw "bad angle"

/-- an operation: {"m": matrix, "qs": [...]} or {"gate": name, "angles": [[ch,sh],…], "qs": [...]} -/
def opOfJson (j : Json) : Except String (Op Cyc8) := do
  let qs ← listOfJson natOfJson (← field j "qs")
  match fieldOpt j "m" with
  | some mj => pure ⟨← matOfJson mj, qs⟩
  | none =>
    let name ← strOfJson (← field j "gate")
    let angs ← listOfJson angOfJson (← field j "angles")
    match OQ.Gates.builtinMatrix OQ.Scal.cyc8 name angs with
    | some m => pure ⟨m, qs⟩
    | none => throw s!"unknown gate {name}"

/-- a circuit operation: a gate operation as above, or {"mphase": [[ch,sh],…]} (half-angle points of the θ_k) -/
def operOfJson (j : Json) : Except String (Oper Cyc8) := do
  match fieldOpt j "mphase" with
  | some pj =>
    let angs ← listOfJson angOfJson pj
    pure (.mphase (angs.map (fun a => a.eip OQ.Scal.cyc8)))
  | none => pure (.gate (← opOfJson j))

def optMat (o : Option (Mat Cyc8)) : Json :=
  match o with
  | none => Json.str "err"
  | some m => matToJson m

def declaredOfJson (j : Json) (k : String) : Except String (Option Nat) :=
  match fieldOpt j k with
  | none => pure none
  | some v => do pure (some (← natOfJson v))

def circOfJson (j : Json) : Except String (Option (Circ Cyc8)) := do
  let ops ← listOfJson operOfJson (← field j "ops")
  pure (mkCircuit ops (← declaredOfJson j "n"))

def vecOfJson (j : Json) : Except String (Mat Cyc8) := do
  let v ← listOfJson cycOfJson j
  pure (Mat.ofFn v.length 1 (fun i _ => v.getD i 0))

/-- the checks of `Wavefunction(...)` at exact scalars: power-of-two length, Σ|a|² = 1 -/
def validState (v : Mat Cyc8) : Bool :=
  (log2Exact v.r).isSome &&
    decide (sumTo v.r (fun i => Cyc8.normSq (v.get i 0)) = 1)

/-- the family of native predicates used by the correspondence check:
    {"arity": [k…], "q0": [q…], "mphase": bool, "any": bool}; a gate operation is native when its arity
    is listed and/or (`any`) its first index is listed -/
def nativeOfJson (j : Json) : Except String (Oper Cyc8 → Bool) := do
  let ar ← listOfJson natOfJson (← field j "arity")
  let q0 ← listOfJson natOfJson (← field j "q0")
  let mp ← boolOfJson (← field j "mphase")
  let any ← boolOfJson (← field j "any")
  pure (fun op => match op with
    | .mphase _ => mp
    | .gate o =>
      let a := ar.contains o.qs.length
      let b := q0.contains (o.qs.headD 0)
      if any then a || b else a && b)

def circToJson (c : Option (Circ Cyc8)) : Json :=
  match c with
  | none => Json.str "err"
  | some c => Json.mkObj [("n", Json.num (JsonNumber.fromNat c.n)),
                          ("len", Json.num (JsonNumber.fromNat c.ops.length)),
                          ("unitary", optMat (toUnitary c))]

def handle (op : String) (j : Json) : Except String Json := do
  match op with
  | "lift" =>
    let o ← opOfJson j
    let n ← natOfJson (← field j "n")
    pure (optMat (gateLift o n))
  | "circuit" =>
    -- Circuit(ops, n_qubits) → width, length, to_unitary()
    pure (circToJson (← circOfJson j))
  | "apply_all" =>
    let ops ← listOfJson operOfJson (← field j "ops")
    let v ← vecOfJson (← field j "v")
    pure (optMat (applyAll ops v))
  | "wavefunction" =>
    -- {"n", "ops", "v": vector or null, "native": predicate or null (= SymbolicSimulator)}
    let init ← match fieldOpt j "v" with
      | none => pure none
      | some vj => do pure (some (← vecOfJson vj))
    match ← circOfJson j with
    | none => pure (Json.str "err")
    | some c =>
      match fieldOpt j "native" with
      | none => pure (optMat (symbolicWavefunction validState c init))
      | some nj =>
        let p ← nativeOfJson nj
        pure (Json.mkObj [
          ("state", optMat (getWavefunction p (fun sub st => applyAll sub.ops st) validState c init)),
          ("segments", Json.arr ((splitCircuit c p).map (fun s =>
              Json.arr #[Json.bool s.1, Json.num (JsonNumber.fromNat s.2.ops.length),
                         Json.num (JsonNumber.fromNat s.2.n)])).toArray)])
  | "add_circuit" =>
    match ← circOfJson (← field j "a"), ← circOfJson (← field j "b") with
    | some a, some b => pure (circToJson (addCirc a b))
    | _, _ => pure (Json.str "err")
  | "add_op" =>
    match ← circOfJson (← field j "a") with
    | some a => pure (circToJson (addOp a (← operOfJson (← field j "op"))))
    | none => pure (Json.str "err")
  | "gate" =>
    let name ← strOfJson (← field j "gate")
    let angs ← listOfJson angOfJson (← field j "angles")
    pure (optMat (OQ.Gates.builtinMatrix OQ.Scal.cyc8 name angs))
  | _ => throw s!"unknown op {op}"

end OQ.C01.Driver
