import OQ.Exec.Proto
import OQ.Model.C07
import OQ.Model.C07_Ext
open Lean OQ.Proto
namespace OQ.C07.Driver
open OQ.C07

abbrev G := Gate (Param Cyc8) Cyc8

/-! JSON glue only: parsing of gate specs / modifier chains, printing of gate trees, and the
    *driver-side* realisation of the externals `Ext`: exact Gauss–Jordan inverse over ℚ(ζ₈), and a lookup
    table (supplied by the harness, filled from scipy) for `exp` and non-integer powers. -/

def paramOfJson (j : Json) : Except String (Param Cyc8) :=
  match fieldOpt j "v" with
  | some v => do pure (.val (← cycOfJson v))
  | none => do
    match ← arrOfJson j with
    | [c, s] => pure (.ang ⟨← cycOfJson c, ← cycOfJson s⟩)
    | _ => throw "bad parameter"

def paramToJson : Param Cyc8 → Json
  | .ang a => .arr #[cycToJson a.ch, cycToJson a.sh]
  | .val v => Json.mkObj [("v", cycToJson v)]

def entryOfJson (j : Json) : Except String (CEntry Cyc8) :=
  match fieldOpt j "sym" with
  | some i => do pure (.sym (← natOfJson i))
  | none => do pure (.const (← cycOfJson j))

def baseOfJson (j : Json) : Except String (Base (Param Cyc8) Cyc8) := do
  let ps ← listOfJson paramOfJson (← field j "params")
  match fieldOpt j "gate" with
  | some n => pure (Base.builtin Scal.cyc8 (← strOfJson n) ps)
  | none =>
    let name ← strOfJson (← field j "custom")
    let rows ← listOfJson (listOfJson entryOfJson) (← field j "rows")
    let nsyms ← natOfJson (← field j "nsyms")
    pure (Base.custom name rows nsyms ps)

def errToJson : Err → Json
  | .value => Json.mkObj [("err", "err:value")]
  | .type => Json.mkObj [("err", "err:type")]
  | .noninv => Json.mkObj [("err", "err:noninv")]
  | .ext s => match Json.parse s with
    | .ok j => j
    | .error _ => Json.mkObj [("exterr", s)]

def ratStr (q : Rat) : String := ratToString q

partial def gateToJson : G → Json
  | .base b => Json.mkObj [("t", "base"), ("name", b.name), ("params", .arr (b.params.map paramToJson).toArray),
                           ("nq", Json.num (JsonNumber.fromNat b.numQubits)), ("herm", .bool b.hermitian)]
  | .controlled g km1 => Json.mkObj [("t", "ctl"), ("k", Json.num (JsonNumber.fromNat (km1 + 1))), ("g", gateToJson g)]
  | .dagger g => Json.mkObj [("t", "dag"), ("g", gateToJson g)]
  | .power g e => Json.mkObj [("t", "pow"), ("e", .str (ratStr e)), ("g", gateToJson g)]
  | .exponential g => Json.mkObj [("t", "exp"), ("g", gateToJson g)]

/-- one modifier method call -/
inductive Modifier where
  | dagger | controlled (n : Int) | power (e : Rat) | exp | replace (ps : List (Param Cyc8))

def modOfJson (j : Json) : Except String Modifier := do
  match ← arrOfJson j with
  | [t] => match ← strOfJson t with
    | "dagger" => pure .dagger
    | "exp" => pure .exp
    | s => throw s!"bad modifier {s}"
  | [t, a] => match ← strOfJson t with
    | "controlled" => pure (.controlled (← intOfJson a))
    | "power" => pure (.power (← ratOfJson a))
    | "replace" => pure (.replace (← listOfJson paramOfJson a))
    | s => throw s!"bad modifier {s}"
  | _ => throw "bad modifier"

def applyMod (g : G) : Modifier → Except Err G
  | .dagger => .ok g.daggerM
  | .controlled n => g.ctlI n
  | .power e => .ok (g.powerM e)
  | .exp => .ok g.expM
  | .replace ps => .ok (g.replaceParams ps)

structure TabEntry where
  fn : String
  arg : Mat Cyc8
  e : Rat
  val : Except String (Mat Cyc8)

def tabOfJson (j : Json) : Except String TabEntry := do
  let fn ← strOfJson (← field j "fn")
  let arg ← matOfJson (← field j "arg")
  let e ← match fieldOpt j "e" with
    | some ej => ratOfJson ej
    | none => pure 0
  match fieldOpt j "val" with
  | some v => pure ⟨fn, arg, e, .ok (← matOfJson v)⟩
  | none => pure ⟨fn, arg, e, .error (← strOfJson (← field j "err"))⟩

def lookup (tab : List TabEntry) (fn : String) (arg : Mat Cyc8) (e : Rat) : Except Err (Mat Cyc8) :=
  match tab.find? (fun t => t.fn == fn && t.e == e && Mat.beq t.arg arg) with
  | some t => match t.val with
    | .ok v => .ok v
    | .error s => .error (.ext (Json.mkObj [("exterr", s)]).compress)
  | none => .error (.ext (Json.mkObj [("need", Json.mkObj [("fn", fn), ("arg", matToJson arg), ("e", .str (ratStr e))])]).compress)

def extOf (tab : List TabEntry) : Ext Cyc8 :=
  { minv := exactInv, mfrac := fun M e => lookup tab "frac" M e, mexp := fun M => lookup tab "exp" M 0 }

def describe (tab : List TabEntry) (g : G) : Json :=
  Json.mkObj [("struct", gateToJson g), ("nq", Json.num (JsonNumber.fromNat g.numQubits)),
              ("params", .arr (g.params.map paramToJson).toArray),
              ("m", match gateMatrix conj (extOf tab) g with
                    | .ok m => matToJson m
                    | .error e => errToJson e)]

/-- apply the chain step by step, describing the gate after every step; stops at the first exception -/
def runChain (tab : List TabEntry) (g : G) (ms : List Modifier) : List Json :=
  let rec go (g : G) : List Modifier → List Json
    | [] => []
    | m :: rest => match applyMod g m with
      | .ok g' => describe tab g' :: go g' rest
      | .error e => [errToJson e]
  describe tab g :: go g ms

def handle (op : String) (j : Json) : Except String Json := do
  match op with
  | "chain" =>
    let b ← baseOfJson (← field j "base")
    let ms ← listOfJson modOfJson (← field j "chain")
    let tab ← match fieldOpt j "table" with
      | some t => listOfJson tabOfJson t
      | none => pure []
    pure (.arr (runChain tab (.base b) ms).toArray)
  | "inv" =>
    match exactInv (← matOfJson (← field j "m")) with
    | .ok m => pure (matToJson m)
    | .error e => pure (errToJson e)
  | "ctlmat" =>
    let d0 ← natOfJson (← field j "d0")
    pure (matToJson (ctlMatrix d0 (← matOfJson (← field j "m"))))
  | _ => throw s!"unknown op {op}"

end OQ.C07.Driver
