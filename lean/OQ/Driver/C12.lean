import OQ.Exec.Proto
import OQ.Model.C12
open Lean OQ.Proto
namespace OQ.C12.Driver

def qiOfJson (j : Json) : Except String QI := do
  match ← arrOfJson j with
  | [re, im] => pure ⟨← ratOfJson re, ← ratOfJson im⟩
  | _ => throw "bad Gaussian rational"

def qiToJson (q : QI) : Json := .arr #[ratToJson q.re, ratToJson q.im]

/-- an entry: `[re, im]` (number) or `{"c":[re,im],"t":[[name,[re,im]],…]}` (linear form) -/
def linOfJson (j : Json) : Except String Lin :=
  match j with
  | .arr _ => do pure (Lin.ofNum (← qiOfJson j))
  | _ => do
    let c ← qiOfJson (← field j "c")
    let ts ← listOfJson (fun p => do
      match ← arrOfJson p with
      | [x, a] => pure (← strOfJson x, ← qiOfJson a)
      | _ => throw "bad term") (← field j "t")
    -- normalise through the model's own constructors
    pure (ts.foldl (fun acc p => acc.add (Lin.smul p.2 (Lin.ofSym p.1))) (Lin.ofNum c))

def linToJson (e : Lin) : Json :=
  if e.isNum then qiToJson e.c
  else Json.mkObj [("c", qiToJson e.c),
                   ("t", .arr (e.terms.map (fun p => Json.arr #[Json.str p.1, qiToJson p.2])).toArray)]

def storeToJson (s : Store) : Json :=
  let kind := match s with | .arr1 _ => "arr1" | .arr2 _ => "arr2" | .mat _ => "mat"
  Json.mkObj [("kind", Json.str kind), ("v", .arr (s.entries.map linToJson).toArray)]

def optIntOfJson (j : Json) (k : String) : Except String (Option Int) :=
  match fieldOpt j k with
  | none => pure none
  | some v => do pure (some (← intOfJson v))

def opOfJson (j : Json) : Except String Op := do
  match ← strOfJson (← field j "op") with
  | "set" => pure (.setInt (← intOfJson (← field j "i")) (← linOfJson (← field j "val")))
  | "slice" =>
    let st ← optIntOfJson j "start"; let sp ← optIntOfJson j "stop"
    match fieldOpt j "vals" with
    | some vs => pure (.setSlice st sp (.list (← listOfJson linOfJson vs)))
    | none => pure (.setSlice st sp (.scalar (← linOfJson (← field j "val"))))
  | "bind" =>
    let m ← listOfJson (fun p => do
      match ← arrOfJson p with
      | [x, e] => pure (← strOfJson x, ← linOfJson e)
      | _ => throw "bad binding") (← field j "map")
    pure (.bind m)
  | "flip" => pure .flip
  | "reload" => pure .reload
  | o => throw s!"unknown wavefunction op {o}"

def outcomeToJson : Outcome → Json
  | .ok => Json.str "ok"
  | .err e => Json.str e.toString

def stateInfo (s : Store) : List (String × Json) :=
  [("store", storeToJson s), ("numsq", ratToJson (numSq s.entries)), ("allnum", Json.bool (allNum s.entries)),
   ("probs", match probabilities s with | none => Json.null | some p => ratsToJson p)]

def handle (op : String) (j : Json) : Except String Json := do
  match op with
  | "run" =>
    let vec ← listOfJson linOfJson (← field j "vec")
    let col ← match fieldOpt j "col" with | some b => boolOfJson b | none => pure false
    let ops ← listOfJson opOfJson (← field j "ops")
    match construct isClose col vec with
    | .error e => pure (Json.mkObj [("init", Json.str e.toString), ("numsq", ratToJson (numSq vec)),
                                    ("allnum", Json.bool (allNum vec))])
    | .ok s =>
      let tr := trace isClose s ops
      pure (Json.mkObj [("init", Json.mkObj (stateInfo s)),
        ("steps", .arr (tr.map (fun r => Json.mkObj (("out", outcomeToJson r.2) :: stateInfo r.1))).toArray)])
  | "ordering" =>
    let n ← natOfJson (← field j "n")
    match flipList (List.range n) with
    | none => pure (Json.str Err.type.toString)
    | some l => pure (natsToJson l)
  | "gosper" =>
    let v ← natOfJson (← field j "v")
    pure (Json.mkObj [("next", natsToJson [nextSameWeight v]), ("msb", natsToJson [msb (nextSameWeight v)]),
                      ("lowbit", natsToJson [lowBit v])])
  | "dicke" =>
    let n ← intOfJson (← field j "n"); let k ← intOfJson (← field j "k")
    match dickeState n k with
    | .error e => pure (Json.str e.toString)
    | .ok (idx, probs) => pure (Json.mkObj [("indices", natsToJson idx), ("probs", ratsToJson probs)])
  | "zero" =>
    let n ← intOfJson (← field j "n")
    match zeroState isClose n with
    | .error e => pure (Json.str e.toString)
    | .ok s => pure (storeToJson s)
  | "load" =>
    let re ← listOfJson ratOfJson (← field j "real")
    let im ← match fieldOpt j "imag" with
      | none => pure none
      | some v => do pure (some (← listOfJson ratOfJson v))
    let col ← match fieldOpt j "col" with | some b => boolOfJson b | none => pure false
    match load isClose col re im with
    | .error e => pure (Json.str e.toString)
    | .ok s => pure (storeToJson s)
  | _ => throw s!"unknown op {op}"

end OQ.C12.Driver
