import OQ.Driver.C13
open Lean
namespace OQ.Driver

def dispatch (prop op : String) (j : Json) : Except String Json :=
  match prop with
  | "C13" => OQ.C13.Driver.handle op j
  | _ => .error s!"unknown property {prop}"

end OQ.Driver
