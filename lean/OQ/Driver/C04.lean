import OQ.Exec.Proto
import OQ.Model.C04
import OQ.Driver.C01
open Lean OQ.Proto
namespace OQ.C04.Driver
open OQ.Pauli

def digitsToString (l : List Nat) : String := String.join (l.map toString)

def digitsOfString (s : String) : Except String (List Nat) :=
  s.toList.mapM (fun c => if c = '0' then pure 0 else if c = '1' then pure 1 else throw s!"bad bit {c}")

def tupleToJson (t : List Nat) : Json := natsToJson t

def errJson (e : Err) : Json := Json.str e.toString

def termOfJson (j : Json) : Except String (Term Cyc8) := do
  let c ← cycOfJson (← field j "c")
  let ops ← listOfJson (fun p => do
    match ← arrOfJson p with
    | [q, s] =>
      match P.ofString? (← strOfJson s) with
      | some pp => pure (← natOfJson q, pp)
      | none => throw "bad pauli"
    | _ => throw "bad op pair") (← field j "ops")
  pure ⟨ops, c⟩

def isOne (x : Cyc8) : Bool := x == 1

def countsToJson (c : Counts) : Json :=
  .arr (c.map (fun p => Json.arr #[Json.str (digitsToString p.1), Json.num (JsonNumber.fromNat p.2)])).toArray

def kvToJson (key : List Nat → Json) (d : List (List Nat × Cyc8)) : Json :=
  .arr (d.map (fun p => Json.arr #[key p.1, cycToJson p.2])).toArray

def mdistToJson (d : List (List Nat × Rat)) : Json :=
  .arr (d.map (fun p => Json.arr #[tupleToJson p.1, ratToJson p.2])).toArray

/-- everything the property observes, from an amplitude vector -/
def viewsOfAmps (amps : List Cyc8) (j : Json) : Except String (List (String × Json)) := do
  let k := OQ.Scal.cyc8
  let nSamples ← intOfJson (← field j "n_samples")
  let draws ← listOfJson natOfJson (← field j "draws")
  let op ← listOfJson termOfJson (← field j "operator")
  let samples := runAndMeasure k amps nSamples draws
  let (samplesJ, countsJ, measuredJ, mdistJ) :=
    match samples with
    | .error e => (errJson e, errJson e, errJson e, errJson e)
    | .ok shots =>
      (Json.arr (shots.map tupleToJson).toArray, countsToJson (getCounts shots),
        (match measuredExpectationValues Cyc8.ofRat op shots with
        | .error e => errJson e
        | .ok vs => Json.arr (vs.map cycToJson).toArray),
        mdistToJson (getDistribution shots))
  let exactJ := match getExpectationValue k op amps with
    | .error e => errJson e
    | .ok v => cycToJson v
  pure [("wf", Json.arr (amps.map cycToJson).toArray),
        ("outcome_probs", kvToJson (fun s => Json.str (digitsToString s)) (getOutcomeProbs k amps)),
        ("dist", kvToJson tupleToJson (exactDistribution k amps)),
        ("samples", samplesJ), ("counts", countsJ), ("measured", measuredJ), ("mdist", mdistJ), ("exact", exactJ)]

def handle (op : String) (j : Json) : Except String Json := do
  match op with
  | "views" =>
    let amps : Except Err (List Cyc8) ← (do
      match fieldOpt j "amps" with
      | some a =>
        let l ← listOfJson cycOfJson a
        pure (mkWavefunction OQ.Scal.cyc8 isOne l)
      | none =>
        let ops ← listOfJson OQ.C01.Driver.opOfJson (← field j "ops")
        let declared ← match fieldOpt j "n" with
          | some n => natOfJson n
          | none => pure 0
        match circuitWavefunction OQ.Scal.cyc8 isOne declared ops with
        | none => pure (.error Err.value)
        | some r => pure r)
    match amps with
    | .error e => pure (Json.mkObj [("wf", errJson e)])
    | .ok a => pure (Json.mkObj (← viewsOfAmps a j))
  | "meas" =>
    -- the views of ONE Measurements object holding `shots` (whatever history produced them)
    let shots ← listOfJson (listOfJson natOfJson) (← field j "shots")
    let op ← listOfJson termOfJson (← field j "operator")
    let measuredJ := match measuredExpectationValues Cyc8.ofRat op shots with
      | .error e => errJson e
      | .ok vs => Json.arr (vs.map cycToJson).toArray
    pure (Json.mkObj [("counts", countsToJson (getCounts shots)), ("mdist", mdistToJson (getDistribution shots)),
                      ("measured", measuredJ)])
  | "freq" =>
    let marked ← listOfJson natOfJson (← field j "marked")
    let freqs ← listOfJson (fun p => do
      match ← arrOfJson p with
      | [s, c] => pure (← digitsOfString (← strOfJson s), ← natOfJson c)
      | _ => throw "bad freq pair") (← field j "freqs")
    match expectationFromFrequencies marked freqs with
    | .error e => pure (errJson e)
    | .ok v => pure (ratToJson v)
  | "dist" =>
    let probs ← listOfJson ratOfJson (← field j "probs")
    pure (.arr ((createDistribution probs).map (fun p => Json.arr #[tupleToJson p.1, ratToJson p.2])).toArray)
  | "convert" =>
    let s ← digitsOfString (← strOfJson (← field j "s"))
    pure (Json.mkObj [("tuple", tupleToJson (bitstringToTuple s)),
                      ("string", Json.str (digitsToString (tupleToBitstring (bitstringToTuple s))))])
  | _ => throw s!"unknown op {op}"

end OQ.C04.Driver
