import OQ.Exec.Proto
import OQ.Model.C14
open Lean OQ.Proto
namespace OQ.C14.Driver

/-- one logged invocation of an external by the real runner: the circuit label and sample count it was
    called with and what it returned -/
inductive TapeEntry
  | exec (label : Nat) (n : Int) (out : Outcome (List Shot))
  | draw (label : Nat) (n : Int) (idx : List Nat)

def shotsOfJson (j : Json) : Except String (List Shot) := listOfJson (listOfJson natOfJson) j
def shotsToJson (m : List Shot) : Json := .arr (m.map natsToJson).toArray

def errToJson : Err → Json
  | .value => .str "err:value"
  | .type => .str "err:type"

def tapeOfJson (j : Json) : Except String TapeEntry := do
  let lbl ← natOfJson (← field j "c")
  let n ← intOfJson (← field j "n")
  match fieldOpt j "draws" with
  | some d => pure (.draw lbl n (← listOfJson natOfJson d))
  | none =>
    match fieldOpt j "shots" with
    | some s => pure (.exec lbl n (.ok (← shotsOfJson s)))
    | none =>
      match ← strOfJson (← field j "err") with
      | "value" => pure (.exec lbl n (.err .value))
      | "type" => pure (.exec lbl n (.err .type))
      | e => throw s!"bad tape error {e}"

/-- the externals replayed from the log; an invocation the real code did not make (other index,
    circuit or count) yields a TypeError / no shots, which shows up as a mismatch -/
def extOfTape (tape : Array TapeEntry) : Ext where
  exec := fun k c n =>
    match tape[k]? with
    | some (.exec lbl n' out) => if lbl = c.label ∧ n' = n then out else .err .type
    | _ => .err .type
  draw := fun k c n =>
    match tape[k]? with
    | some (.draw lbl n' idx) => if lbl = c.label ∧ n' = n then idx else []
    | _ => []

/-- do the logged values satisfy the laws assumed by the shape theorems (`ExecLaw`, `DrawLaw`)? -/
def lawOk (pool : Array Circ) : TapeEntry → Bool
  | .exec lbl n (.ok m) =>
    match pool[lbl]? with
    | some c => decide (0 < n) && decide (n ≤ (m.length : Int)) && m.all (fun s => s.length == c.width)
    | none => false
  | .exec _ n (.err _) => decide (0 < n)
  | .draw lbl n idx =>
    match pool[lbl]? with
    | some c => decide (0 < n) && decide ((idx.length : Int) = n) && idx.all (fun i => i < 2 ^ c.width)
    | none => false

def circOfJson (label : Nat) (j : Json) : Except String Circ := do
  pure ⟨label, ← natOfJson (← field j "width"), ← listOfJson boolOfJson (← field j "ops"),
        ← boolOfJson (← field j "symbolic")⟩

partial def runnerOfJson (j : Json) : Except String Runner := do
  match ← strOfJson (← field j "kind") with
  | "base" => pure (.leaf ⟨.base, ⟨0, 0⟩, 0⟩)
  | "sim" => pure (.leaf ⟨.sim (← boolOfJson (← field j "all_native")), ⟨0, 0⟩, 0⟩)
  | "tracker" => pure (.tracker (← runnerOfJson (← field j "inner")) (← boolOfJson (← field j "bits")) ⟨0, 0⟩ [] [])
  | k => throw s!"bad runner kind {k}"

def getCirc (pool : Array Circ) (j : Json) : Except String Circ := do
  let i ← natOfJson j
  match pool[i]? with
  | some c => pure c
  | none => throw s!"circuit index {i} out of range"

def callOfJson (pool : Array Circ) (j : Json) : Except String Call := do
  match ← strOfJson (← field j "op") with
  | "run" => pure (.run (← getCirc pool (← field j "c")) (← intOfJson (← field j "n")))
  | "batch" =>
    let cs ← listOfJson (getCirc pool) (← field j "cs")
    match fieldOpt j "ns" with
    | some ns => pure (.batch cs (.many (← listOfJson intOfJson ns)))
    | none => pure (.batch cs (.one (← intOfJson (← field j "n"))))
  | "dist" =>
    match fieldOpt j "n" with
    | some n => pure (.dist (← getCirc pool (← field j "c")) (some (← intOfJson n)))
    | none => pure (.dist (← getCirc pool (← field j "c")) none)
  | o => throw s!"bad call {o}"

def distToJson : DistVal → Json
  | .empirical d => Json.mkObj [("empirical", .arr (d.map (fun p => Json.arr #[natsToJson p.1, ratToJson p.2])).toArray)]
  | .exact c => Json.mkObj [("exact", Json.num (JsonNumber.fromNat c.label))]

def resToJson : Res → Json
  | .meas m => Json.mkObj [("meas", shotsToJson m)]
  | .batch ms => Json.mkObj [("batch", .arr (ms.map shotsToJson).toArray)]
  | .distr d => Json.mkObj [("dist", distToJson d)]
  | .error e => errToJson e

def natJ (n : Nat) : Json := Json.num (JsonNumber.fromNat n)

def recordToJson : Record → Json
  | .meas c counts g s bits =>
    Json.mkObj [("type", "meas"), ("c", natJ c.label),
      ("counts", .arr (counts.map (fun p => Json.arr #[natsToJson p.1, natJ p.2])).toArray),
      ("gates", natJ g), ("shots", natJ s),
      ("bits", match bits with | some b => shotsToJson b | none => Json.null)]
  | .dist c d g n =>
    Json.mkObj [("type", "dist"), ("c", natJ c.label), ("dist", distToJson d), ("gates", natJ g),
      ("shots", match n with | some n => Json.num (JsonNumber.fromInt n) | none => Json.null)]

def rawLens : Runner → List Nat
  | .leaf _ => []
  | .tracker inner _ _ raw _ => raw.length :: rawLens inner

def obsToJson (r : Runner) (res : Res) : Json :=
  Json.mkObj [("res", resToJson res),
    ("counters", .arr (r.counters.map (fun k => natsToJson [k.nCircuits, k.nJobs])).toArray),
    ("files", .arr (r.files.map (fun f => Json.arr (f.map recordToJson).toArray)).toArray),
    ("pending", natsToJson (rawLens r)),
    ("ext_calls", natJ r.leafOf.calls)]

/-- replay a history call by call, reporting what is observable after every call -/
def replay (ext : Ext) : Runner → List Call → List Json
  | _, [] => []
  | r, call :: rest =>
    let p := step ext r call
    obsToJson p.1 p.2 :: replay ext p.1 rest

def handle (op : String) (j : Json) : Except String Json := do
  match op with
  | "history" =>
    let poolJ ← arrOfJson (← field j "pool")
    let pool := (← (poolJ.zipIdx).mapM (fun p => circOfJson p.2 p.1)).toArray
    let r ← runnerOfJson (← field j "runner")
    let calls ← listOfJson (callOfJson pool) (← field j "calls")
    let tape := (← listOfJson tapeOfJson (← field j "tape")).toArray
    let ext := extOfTape tape
    pure (Json.mkObj [("law_ok", Json.bool (tape.toList.all (lawOk pool))),
                      ("fresh", Json.bool r.fresh),
                      ("steps", Json.arr (replay ext r calls).toArray)])
  | "format" =>
    -- `format(i, "0{n}b")` as a tuple of digits
    pure (natsToJson (formatBin (← natOfJson (← field j "i")) (← natOfJson (← field j "n"))))
  | "outcome" =>
    -- the tuple of basis state `i` of an `n`-qubit register
    pure (natsToJson (outcomeTuple (← natOfJson (← field j "i")) (← natOfJson (← field j "n"))))
  | "segments" =>
    let flags ← listOfJson boolOfJson (← field j "flags")
    pure (Json.arr ((segKeys flags).map Json.bool).toArray)
  | _ => throw s!"unknown op {op}"

end OQ.C14.Driver
