import OQ.Exec.Proto
import OQ.Model.C17
open Lean OQ.Proto
namespace OQ.C17.Driver

def errToJson : Err → Json
  | .runtime => Json.str "err:runtime"
  | .value => Json.str "err:value"
  | .index => Json.str "err:index"

/-- raw key: JSON string → `str`, JSON array of integers → `tup`, anything else → `other` -/
def rawKeyOfJson (j : Json) : Except String RawKey :=
  match j with
  | .str s => pure (RawKey.str s.toList)
  | .arr a => do pure (RawKey.tup (← a.toList.mapM intOfJson))
  | _ => pure RawKey.other

def itemsOfJson (j : Json) : Except String (List (RawKey × Rat)) :=
  listOfJson (fun p => do
    match ← arrOfJson p with
    | [k, v] => pure (← rawKeyOfJson k, ← ratOfJson v)
    | _ => throw "bad item") j

def keyToJson (k : Key) : Json := intsToJson k

def dictToJson (d : Dict Key) : Json :=
  .arr (d.map (fun p => Json.arr #[keyToJson p.1, ratToJson p.2])).toArray

def strDictToJson (d : Dict (List Char)) : Json :=
  .arr (d.map (fun p => Json.arr #[Json.str (String.ofList p.1), ratToJson p.2])).toArray

def resToJson (r : Except Err (Dict Key)) : Json :=
  match r with
  | .ok d => dictToJson d
  | .error e => errToJson e

def handle (op : String) (j : Json) : Except String Json := do
  match op with
  | "construct" =>
    let items ← itemsOfJson (← field j "items")
    let nz ← boolOfJson (← field j "normalize")
    pure (resToJson (construct pyIsClose1 nz items))
  | "subdist" =>
    let items ← itemsOfJson (← field j "items")
    let nz ← boolOfJson (← field j "normalize")
    let qs ← listOfJson intOfJson (← field j "qubits")
    match construct pyIsClose1 nz items with
    | .error e => pure (Json.mkObj [("source", errToJson e)])
    | .ok d =>
      let (d', r) := subdistribution pyIsClose1 d qs
      pure (Json.mkObj [("source", dictToJson d), ("source_after", dictToJson d'), ("result", resToJson r)])
  | "saveload" =>
    let items ← itemsOfJson (← field j "items")
    let nz ← boolOfJson (← field j "normalize")
    match construct pyIsClose1 nz items with
    | .error e => pure (Json.mkObj [("source", errToJson e)])
    | .ok d =>
      let s := saveDict d
      pure (Json.mkObj [("source", dictToJson d), ("saved", strDictToJson s),
                        ("loaded", resToJson (loadDict pyIsClose1 s))])
  | "keystr" =>
    let k ← listOfJson intOfJson (← field j "key")
    let s := keyToString k
    pure (Json.mkObj [("str", Json.str (String.ofList s)),
                      ("back", match preprocessKey (RawKey.str s) with
                               | .ok k' => keyToJson k'
                               | .error e => errToJson e)])
  | "distdata" =>
    let p ← itemsOfJson (← field j "p")
    let q ← itemsOfJson (← field j "q")
    match construct pyIsClose1 true p, construct pyIsClose1 true q with
    | .ok dp, .ok dq =>
      let ks := unionKeys dp dq
      let pairs := pairData dp dq
      let rows := (ks.zip pairs).map (fun x =>
        Json.arr #[keyToJson x.1, ratToJson x.2.1, ratToJson x.2.2])
      let codes : Json := match mmdData dp dq with
        | .ok l => natsToJson (l.map (fun x => x.1))
        | .error e => errToJson e
      let selfOk : Bool := match mmdData dp dp with
        | .ok _ => true
        | .error _ => false
      pure (Json.mkObj [("rows", Json.arr rows.toArray), ("codes", codes), ("self_ok", Json.bool selfOk)])
    | .error e, _ => pure (Json.mkObj [("p", errToJson e)])
    | _, .error e => pure (Json.mkObj [("q", errToJson e)])
  | _ => throw s!"unknown op {op}"

end OQ.C17.Driver
