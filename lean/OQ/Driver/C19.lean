import OQ.Exec.Proto
import OQ.Model.C19
open Lean OQ.Proto
namespace OQ.C19.Driver

def nnumOfJson (j : Json) : Except String NNum := do
  match ← arrOfJson j with
  | [k, a] =>
    match ← strOfJson k with
    | "int" => pure (.int (← intOfJson a))
    | "flt" => pure (.flt (← ratOfJson a))
    | "ext" => pure (.ext (← strOfJson a))
    | t => throw s!"bad number kind {t}"
  | [k, a, b] =>
    match ← strOfJson k with
    | "cplx" => pure (.cplx (← ratOfJson a) (← ratOfJson b))
    | t => throw s!"bad number kind {t}"
  | _ => throw "bad number"

def nnumToJson : NNum → Json
  | .int n => .arr #[.str "int", .num (JsonNumber.fromInt n)]
  | .flt q => .arr #[.str "flt", ratToJson q]
  | .cplx re im => .arr #[.str "cplx", ratToJson re, ratToJson im]
  | .ext t => .arr #[.str "ext", .str t]

partial def sexprOfJson (j : Json) : Except String SExpr := do
  match ← arrOfJson j with
  | [k] =>
    match ← strOfJson k with
    | "I" => pure .imag
    | t => throw s!"bad node {t}"
  | [k, a] =>
    match ← strOfJson k with
    | "Int" => pure (.integer (← intOfJson a))
    | "Rat" => pure (.rational (← ratOfJson a))
    | "Flt" => pure (.float (← ratOfJson a))
    | "NumOther" => pure (.numOther (← strOfJson a))
    | "Py" => pure (.native (← nnumOfJson a))
    | "Sym" => pure (.symbol (← strOfJson a))
    | "Add" => pure (.add (← (← arrOfJson a).mapM sexprOfJson))
    | "Mul" => pure (.mul (← (← arrOfJson a).mapM sexprOfJson))
    | "Other" => pure (.other (← strOfJson a))
    | t => throw s!"bad node {t}"
  | [k, a, b] =>
    match ← strOfJson k with
    | "Pow" => pure (.pow (← sexprOfJson a) (← sexprOfJson b))
    | "Fn" => pure (.func false (← strOfJson a) (← (← arrOfJson b).mapM sexprOfJson))
    | "UFn" => pure (.func true (← strOfJson a) (← (← arrOfJson b).mapM sexprOfJson))
    | t => throw s!"bad node {t}"
  | _ => throw "bad node"

partial def nexprOfJson (j : Json) : Except String NExpr := do
  match ← arrOfJson j with
  | [k, a] =>
    match ← strOfJson k with
    | "num" => pure (.num (← nnumOfJson a))
    | "sym" => pure (.sym (← strOfJson a))
    | t => throw s!"bad neutral node {t}"
  | [k, a, b] =>
    match ← strOfJson k with
    | "call" => pure (.call (← strOfJson a) (← (← arrOfJson b).mapM nexprOfJson))
    | t => throw s!"bad neutral node {t}"
  | _ => throw "bad neutral node"

partial def nexprToJson : NExpr → Json
  | .num n => .arr #[.str "num", nnumToJson n]
  | .sym s => .arr #[.str "sym", .str s]
  | .call name args => .arr #[.str "call", .str name, .arr (args.map nexprToJson).toArray]

def errToJson : Err → Json
  | .notimpl => .str "err:notimpl"
  | .value => .str "err:value"
  | .type => .str "err:type"
  | .fuel => .str "err:fuel"

/-- SYMPY_DIALECT's operations on a carrier of printed terms: shows which operation was applied to
    which operands in which order -/
def strOps : Ops String :=
  { add := fun a b => s!"({a}+{b})", mul := fun a b => s!"({a}*{b})",
    sub := fun a b => s!"({a}-{b})", div := fun a b => s!"({a}/{b})",
    pow := fun a b => s!"({a}^{b})", sqrt := fun a => s!"sqrt({a})",
    fn := fun name a => s!"{name}({a})",
    num := fun n => match n with
      | .int k => s!"i:{k}"
      | .flt q => s!"f:{ratToString q}"
      | .cplx re im => s!"c:{ratToString re},{ratToString im}"
      | .ext t => s!"e:{t}",
    sym := fun s => s!"s:{s}" }

def keyToJson (k : List KeyItem) : Json :=
  .arr (k.map (fun it => match it with
    | .s cs => Json.arr #[.str "s", .str (String.ofList cs)]
    | .n v => Json.arr #[.str "n", .num (JsonNumber.fromNat v)])).toArray

def ordToJson : Option Ordering → Json
  | none => .str "err:type"
  | some .lt => .str "lt"
  | some .eq => .str "eq"
  | some .gt => .str "gt"

def outToJson : Except Err String → Json
  | .ok s => .str s
  | .error e => errToJson e

def handle (op : String) (j : Json) : Except String Json := do
  match op with
  | "pipeline" =>
    let e ← sexprOfJson (← field j "e")
    let tree := match fromSympy e with
      | .ok t => nexprToJson t
      | .error err => errToJson err
    pure (Json.mkObj [("tree", tree), ("out", outToJson (pipeline strOps e)),
                      ("supported", .bool (supported e)), ("clean", .bool (clean e))])
  | "translate" =>
    let t ← nexprOfJson (← field j "t")
    pure (outToJson (translate (sympyDialect strOps) t))
  | "key" =>
    let name ← strOfJson (← field j "name")
    pure (Json.mkObj [("key", keyToJson (naturalKey name.toList)),
                      ("revlex", keyToJson (naturalKeyRevlex name.toList))])
  | "cmp" =>
    let a ← strOfJson (← field j "a"); let b ← strOfJson (← field j "b")
    pure (Json.mkObj [("nat", ordToJson (cmpKey (naturalKey a.toList) (naturalKey b.toList))),
                      ("rev", ordToJson (cmpKey (naturalKeyRevlex a.toList) (naturalKeyRevlex b.toList)))])
  | "known" => pure (.arr (knownNames.map Json.str).toArray)
  | _ => throw s!"unknown op {op}"

end OQ.C19.Driver
