import OQ.Exec.Proto
import OQ.Model.C08
import OQ.Driver.C01
open Lean OQ.Proto
namespace OQ.C08.Driver
open OQ.C08

/-! JSON glue for C08.  The externals of the model are instantiated exactly where that is possible over ℚ(ζ₈):
    `exp` of a nilpotent matrix (finite series), integer powers (products; Gauss–Jordan inverse for negative
    exponents).  Anything else is answered "err" (the harness sends such cases to the oracle only). -/

def matPow (m : Mat Cyc8) : Nat → Mat Cyc8
  | 0 => Mat.identity m.r
  | n + 1 => Mat.mul (matPow m n) m

def isZeroMat (m : Mat Cyc8) : Bool :=
  (List.range m.r).all (fun i => (List.range m.c).all (fun j => m.get i j == 0))

def fact : Nat → Nat
  | 0 => 1
  | n + 1 => (n + 1) * fact n

/-- `Matrix.exp()` of a nilpotent matrix: Σ_{j<d} Mʲ/j! -/
def mexpNil (m : Mat Cyc8) : Option (Mat Cyc8) :=
  if m.r ≠ m.c then none
  else if !isZeroMat (matPow m m.r) then none
  else some ((List.range m.r).foldl
    (fun acc j => Mat.add acc (Mat.smul (Cyc8.ofRat (1 / (fact j : Rat))) (matPow m j)))
    (Mat.ofFn m.r m.r (fun _ _ => 0)))

/-- Gauss–Jordan inverse over the field ℚ(ζ₈); `none` for a singular matrix -/
def matInv (m : Mat Cyc8) : Option (Mat Cyc8) := Id.run do
  let d := m.r
  if m.c ≠ d then return none
  let mut a : Array (Array Cyc8) := Array.ofFn (n := d) fun i =>
    Array.ofFn (n := 2 * d) fun j => if j.val < d then m.get i.val j.val else if j.val - d = i.val then 1 else 0
  for col in [0:d] do
    let mut piv : Option Nat := none
    for r in [col:d] do
      if piv.isNone && (a[r]!)[col]! != (0 : Cyc8) then piv := some r
    match piv with
    | none => return none
    | some p =>
      let rp := a[p]!
      let rc := a[col]!
      a := (a.set! p rc).set! col rp
      let inv := ((a[col]!)[col]!)⁻¹
      a := a.set! col ((a[col]!).map (fun v => inv * v))
      let prow := a[col]!
      for r in [0:d] do
        if r != col then
          let f := (a[r]!)[col]!
          if f != (0 : Cyc8) then
            a := a.set! r (Array.ofFn (n := 2 * d) fun j => (a[r]!)[j.val]! - f * prow[j.val]!)
  return some (Mat.ofFn d d (fun i j => (a[i]!)[j + d]!))

def mpowInt (m : Mat Cyc8) (e : Rat) : Option (Mat Cyc8) :=
  if e.den ≠ 1 then none
  else if m.r ≠ m.c then none
  else if 0 ≤ e.num then some (matPow m e.num.toNat)
  else (matInv m).map (fun mi => matPow mi e.num.natAbs)

def ext : Ext Cyc8 := ⟨mexpNil, mpowInt⟩

/-- gate spec (harness/circ.py) → model gate, built through the model's own `.controlled/.dagger/.power/.exp` -/
partial def gateOfJson (j : Json) : Except String (Gate Cyc8) := do
  match fieldOpt j "gate" with
  | some nm =>
    let name ← strOfJson nm
    let angs ← listOfJson OQ.C01.Driver.angOfJson (← field j "angles")
    match builtinGate Scal.cyc8 name angs with
    | some g => pure g
    | none => throw s!"unknown gate {name}"
  | none =>
  match fieldOpt j "custom" with
  | some nm =>
    let name ← strOfJson nm
    let m ← matOfJson (← field j "m")
    pure (.base name m (Nat.log2 m.r) false)
  | none =>
  match fieldOpt j "controlled" with
  | some inner => pure (Gate.controlled (← gateOfJson inner) (← natOfJson (← field j "k")))
  | none =>
  match fieldOpt j "dagger" with
  | some inner => pure (Gate.dagger (← gateOfJson inner))
  | none =>
  match fieldOpt j "power" with
  | some inner => pure (Gate.power (← gateOfJson inner) (← ratOfJson (← field j "e")))
  | none =>
  match fieldOpt j "exp" with
  | some inner => pure (Gate.exp (← gateOfJson inner))
  | none => throw "bad gate spec"

/-- the raw object structure of a gate (classes of `_gates.py`) -/
def gateToJson : Gate Cyc8 → Json
  | .base nm _ n h => Json.mkObj [("base", Json.str nm), ("nq", Json.num (JsonNumber.fromNat n)), ("herm", Json.bool h)]
  | .ctrl g k => Json.mkObj [("ctrl", gateToJson g), ("k", Json.num (JsonNumber.fromNat k))]
  | .dag g => Json.mkObj [("dag", gateToJson g)]
  | .exp g => Json.mkObj [("exp", gateToJson g)]
  | .pow g e => Json.mkObj [("pow", gateToJson g), ("e", ratToJson e)]

def opsOfJson (j : Json) : Except String (List (GOp (Gate Cyc8))) :=
  listOfJson (fun o => do
    let qs ← listOfJson natOfJson (← field o "qs")
    if qs.isEmpty then throw "operation without qubits is outside the model"
    pure (⟨← gateOfJson (← field o "g"), qs⟩ : GOp (Gate Cyc8))) j

def circOfJson (j : Json) : Except String (Circ (Gate Cyc8)) := do
  let ops ← opsOfJson (← field j "ops")
  let n := match fieldOpt j "n" with
    | some nj => (natOfJson nj).toOption.getD 0
    | none => 0
  pure (mkCirc ops n)

def optMat (o : Option (Mat Cyc8)) : Json :=
  match o with
  | none => Json.str "err"
  | some m => matToJson m

def circToJson (c : Circ (Gate Cyc8)) (wantU : Bool) : Json :=
  Json.mkObj ([("n", Json.num (JsonNumber.fromNat c.n)),
    ("ops", Json.arr (c.ops.map (fun o => Json.mkObj [("g", gateToJson o.gate), ("qs", natsToJson o.qs)])).toArray)]
    ++ (if wantU then [("u", optMat (unitary Scal.cyc8 ext c))] else []))

/-- abstract circuits for the builders: gates are opaque labels -/
def labelCircOfJson (j : Json) : Except String (Circ Json) := do
  let ops ← listOfJson (fun o => do
    let qs ← listOfJson natOfJson (← field o "qs")
    if qs.isEmpty then throw "operation without qubits is outside the model"
    pure (⟨← field o "label", qs⟩ : GOp Json)) (← field j "ops")
  let n := match fieldOpt j "n" with
    | some nj => (natOfJson nj).toOption.getD 0
    | none => 0
  pure (mkCirc ops n)

def labelCircToJson (c : Circ Json) : Json :=
  Json.mkObj [("n", Json.num (JsonNumber.fromNat c.n)),
    ("ops", Json.arr (c.ops.map (fun o => Json.arr #[o.gate, natsToJson o.qs])).toArray)]

def buildResult (r : Except BuildErr (Circ Json)) : Json :=
  match r with
  | .error .assertion => Json.str "err:assert"
  | .ok c => labelCircToJson c

def rowsOfJson (j : Json) : Except String (Option (List Json)) :=
  match fieldOpt j "rows" with
  | none => pure none
  | some r => do pure (some (← arrOfJson r))

def handle (op : String) (j : Json) : Except String Json := do
  let wantU := match fieldOpt j "want_u" with
    | some (.bool b) => b
    | _ => false
  match op with
  | "circuit" =>
    pure (circToJson (← circOfJson j) wantU)
  | "inverse" =>
    pure (circToJson (inverse Gate.dagger (← circOfJson j)) wantU)
  | "inverse2" =>
    pure (circToJson (inverse Gate.dagger (inverse Gate.dagger (← circOfJson j))) wantU)
  | "append_inverse" =>
    let c ← circOfJson j
    pure (circToJson (appendCirc c (inverse Gate.dagger c)) wantU)
  | "controlled" =>
    let ci ← natOfJson (← field j "ci")
    pure (circToJson (controlledCirc (fun g => Gate.controlled g 1) ci (← circOfJson j)) wantU)
  | "ancilla_u" =>
    let k ← natOfJson (← field j "k")
    pure (circToJson (addAncilla iGate (← circOfJson j) k) wantU)
  | "gate" =>
    let g ← gateOfJson (← field j "g")
    pure (Json.mkObj [("g", gateToJson g), ("nq", Json.num (JsonNumber.fromNat (Gate.nq g))),
      ("dagger", gateToJson (Gate.dagger g)), ("controlled", gateToJson (Gate.controlled g 1)),
      ("m", optMat (Gate.matrix Scal.cyc8 ext g)),
      ("dagger_m", optMat (Gate.matrix Scal.cyc8 ext (Gate.dagger g))),
      ("controlled_m", optMat (Gate.matrix Scal.cyc8 ext (Gate.controlled g 1)))])
  | "apply" =>
    let c ← labelCircOfJson (← field j "circ")
    let order ← listOfJson natOfJson (← field j "order")
    let rows ← rowsOfJson j
    pure (buildResult (applyGateToQubits c order (fun p => Json.mkObj [("row", p)]) (Json.str "fixed") rows))
  | "layer" =>
    let order ← listOfJson natOfJson (← field j "order")
    let rows ← rowsOfJson j
    pure (buildResult (createLayer order (fun p => Json.mkObj [("row", p)]) (Json.str "fixed") rows))
  | "ancilla" =>
    let c ← labelCircOfJson (← field j "circ")
    let k ← natOfJson (← field j "k")
    pure (labelCircToJson (addAncilla (Json.str "I") c k))
  | _ => throw s!"unknown op {op}"

end OQ.C08.Driver
