import OQ.Exec.Proto
import OQ.Model.C03
open Lean OQ.Proto
namespace OQ.C03.Driver
open OQ.Pauli OQ.C03

/-- coefficient: [re, im] when Gaussian (always, for Pauli arithmetic), else the four ℚ(ζ₈) coordinates -/
def coeffToJson (x : Cyc8) : Json :=
  if x.isGauss then .arr #[ratToJson x.a, ratToJson x.c] else cycToJson x

def opOfJson (j : Json) : Except String (Nat × P) := do
  match ← arrOfJson j with
  | [q, p] =>
    match P.ofString? (← strOfJson p) with
    | some p => pure (← natOfJson q, p)
    | none => throw "bad pauli letter"
  | _ => throw "bad op pair"

def termOfJson (j : Json) : Except String (Term Cyc8) := do
  pure ⟨← listOfJson opOfJson (← field j "ops"), ← cycOfJson (← field j "c")⟩

def valOfJson (j : Json) : Except String (Val Cyc8) := do
  match ← strOfJson (← field j "k") with
  | "num" => pure (.num (← cycOfJson (← field j "c")))
  | "term" => pure (.term (← termOfJson j))
  | "sum" => pure (.sum (← listOfJson termOfJson (← field j "terms")))
  | k => throw s!"bad value kind {k}"

def insertOp (p : Nat × P) : List (Nat × P) → List (Nat × P)
  | [] => [p]
  | q :: qs => if p.1 ≤ q.1 then p :: q :: qs else q :: insertOp p qs

/-- ops are printed sorted by qubit (the dict order depends on Python's set iteration order) -/
def termToJson (t : Term Cyc8) : Json :=
  let ops := t.ops.foldr insertOp []
  Json.mkObj [("k", "term"),
    ("ops", .arr (ops.map (fun p => Json.arr #[Json.num (JsonNumber.fromNat p.1), Json.str p.2.toString])).toArray),
    ("c", coeffToJson t.coeff)]

def valToJson : Val Cyc8 → Json
  | .num x => Json.mkObj [("k", "num"), ("c", coeffToJson x)]
  | .term t => termToJson t
  | .sum s => Json.mkObj [("k", "sum"), ("terms", .arr (s.map termToJson).toArray)]

def getReg (regs : Array (Option (Val Cyc8))) (i : Nat) : Except String (Val Cyc8) :=
  match regs[i]? with
  | some (some v) => pure v
  | _ => throw s!"bad register {i}"

/-- one step of an op-sequence program: `Sum r` = a value, `Bool`, or a modelled Python exception -/
def step (regs : Array (Option (Val Cyc8))) (j : Json) : Except String (Except Err (Sum (Val Cyc8) Bool)) := do
  let k := OQ.Scal.cyc8
  let op ← strOfJson (← field j "op")
  let a ← getReg regs (← natOfJson (← field j "a"))
  let bin (f : Val Cyc8 → Val Cyc8 → Except Err (Val Cyc8)) : Except String (Except Err (Sum (Val Cyc8) Bool)) := do
    let b ← getReg regs (← natOfJson (← field j "b"))
    pure ((f a b).map Sum.inl)
  match op with
  | "add" => bin (addV Run.negl)
  | "sub" => bin (subV Run.negl)
  | "mul" => bin (mulV k Run.negl)
  | "div" => bin (divV k Run.negl Run.recip)
  | "pow" =>
    let e ← match fieldOpt j "p" with
      | some pj => pure (Expo.int (← intOfJson pj))
      | none => pure Expo.other                         -- {"pf": …}: a non-int exponent
    pure ((powE k Run.negl a e).map Sum.inl)
  | "simplify" =>
    match a with
    | .sum s => pure (.ok (.inl (.sum (simplify Run.negl s))))
    | _ => throw "simplify of a non-sum"
  | "eq" =>
    let b ← getReg regs (← natOfJson (← field j "b"))
    pure ((eqV Run.close Run.hk a b).map Sum.inr)
  | _ => throw s!"unknown step {op}"

def runProgram (vals : List (Val Cyc8)) (steps : List Json) : Except String (List Json) := do
  let mut regs : Array (Option (Val Cyc8)) := (vals.map some).toArray
  let mut out : Array Json := #[]
  for s in steps do
    match ← step regs s with
    | .error e => return (out.push (Json.str e.toString)).toList      -- the exception ends the program
    | .ok (.inl v) => regs := regs.push (some v); out := out.push (valToJson v)
    | .ok (.inr b) => regs := regs.push none; out := out.push (Json.bool b)
  return out.toList

def gaussMatToJson (m : Mat Cyc8) : Json :=
  .arr (m.toLists.map (fun row => Json.arr (row.map coeffToJson).toArray)).toArray

def handle (op : String) (j : Json) : Except String Json := do
  match op with
  | "program" =>
    let vals ← listOfJson valOfJson (← field j "vals")
    let steps ← arrOfJson (← field j "steps")
    pure (Json.mkObj [("results", .arr (← runProgram vals steps).toArray)])
  | "mul_order" =>
    -- term × term with an explicit iteration order of the right factor's qubits
    let t ← termOfJson (← field j "t"); let u ← termOfJson (← field j "u")
    let order ← listOfJson natOfJson (← field j "order")
    pure (termToJson (mulTermOrd OQ.Scal.cyc8 order t u))
  | "denote" =>
    let v ← valOfJson (← field j "v"); let n ← natOfJson (← field j "n")
    let k := OQ.Scal.cyc8
    pure (gaussMatToJson (v.denote k n))
  | "table" =>
    let f (a b : P) : Json := Json.arr #[Json.str a.toString, Json.str b.toString, Json.str (Gen.opTable a b).toString,
      Json.num (JsonNumber.fromInt (Gen.coeffTable a b).1), Json.num (JsonNumber.fromInt (Gen.coeffTable a b).2)]
    let ps := [P.X, P.Y, P.Z]
    pure (.arr ((ps.flatMap (fun a => (ps.filter (· ≠ a)).map (fun b => f a b)))).toArray)
  | _ => throw s!"unknown op {op}"

end OQ.C03.Driver
