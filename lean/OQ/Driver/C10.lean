import OQ.Exec.Proto
import OQ.Model.C10
open Lean OQ.Proto
namespace OQ.C10.Driver

def shotOfJson (j : Json) : Except String Shot := do
  let s ← strOfJson j
  s.toList.mapM (fun c => if c = '0' then pure false else if c = '1' then pure true else throw s!"bad bit {c}")

def shotToJson (s : Shot) : Json := .str (String.ofList (s.map (fun b => if b then '1' else '0')))

def errToJson : Err → Json
  | .type => .str "err:type"
  | .index => .str "err:index"
  | .value => .str "err:value"
  | .runtime => .str "err:runtime"
  | .nan => .str "nan"

def pauliOfJson (j : Json) : Except String Pauli := do
  match ← strOfJson j with
  | "X" => pure .X
  | "Y" => pure .Y
  | "Z" => pure .Z
  | s => throw s!"bad pauli {s}"

def termOfJson (j : Json) : Except String (Term Rat) := do
  let c ← ratOfJson (← field j "coeff")
  let ops ← listOfJson (fun p => do
    match ← arrOfJson p with
    | [q, l] => pure (← natOfJson q, ← pauliOfJson l)
    | _ => throw "bad op pair") (← field j "ops")
  pure ⟨c, ops⟩

def natCountsOfJson (j : Json) : Except String Counts :=
  listOfJson (fun p => do
    match ← arrOfJson p with
    | [k, v] => pure (← shotOfJson k, ← natOfJson v)
    | _ => throw "bad count pair") j

def intCountsOfJson (j : Json) : Except String (List (Shot × Int)) :=
  listOfJson (fun p => do
    match ← arrOfJson p with
    | [k, v] => pure (← shotOfJson k, ← intOfJson v)
    | _ => throw "bad count pair") j

def countsToJson (c : Counts) : Json :=
  .arr (c.map (fun p => Json.arr #[shotToJson p.1, Json.num (JsonNumber.fromNat p.2)])).toArray

def pairToJson (p : Nat × Nat) : Json := natsToJson [p.1, p.2]

def optRatToJson : Option Rat → Json
  | none => .null
  | some q => ratToJson q

def handle (op : String) (j : Json) : Except String Json := do
  match op with
  | "counts" =>
    let shots ← listOfJson shotOfJson (← field j "shots")
    let c := getCounts shots
    pure (Json.mkObj [("counts", countsToJson c), ("total", natsToJson [c.total])])
  | "add_counts" =>
    let shots ← listOfJson shotOfJson (← field j "shots")
    let counts ← intCountsOfJson (← field j "counts")
    let r := addCounts shots counts
    pure (Json.mkObj [("bitstrings", Json.arr (r.map shotToJson).toArray), ("counts", countsToJson (getCounts r))])
  | "distribution" =>
    let shots ← listOfJson shotOfJson (← field j "shots")
    match getDistribution (R := Rat) shots with
    | .error e => pure (errToJson e)
    | .ok d => pure (Json.arr (d.map (fun p => Json.arr #[shotToJson p.1, ratToJson p.2])).toArray)
  | "check_parity" =>
    let rows ← listOfJson shotOfJson (← field j "rows")
    let marked ← listOfJson natOfJson (← field j "marked")
    match checkParityOfVector rows marked with
    | .error e => pure (errToJson e)
    | .ok p => pure (natsToJson p)
  | "freq_expectation" =>
    let freq ← natCountsOfJson (← field j "freq")
    let marked ← listOfJson natOfJson (← field j "marked")
    match expectationFromFrequencies (R := Rat) marked freq with
    | .error e => pure (errToJson e)
    | .ok x => pure (ratToJson x)
  | "expectation_values" =>
    let shots ← listOfJson shotOfJson (← field j "shots")
    let terms ← listOfJson termOfJson (← field j "terms")
    let bessel ← boolOfJson (← field j "bessel")
    match getExpectationValues shots terms bessel with
    | .error e => pure (errToJson e)
    | .ok ev =>
      pure (Json.mkObj [("values", ratsToJson ev.values),
                        ("correlations", Json.arr (ev.correlations.map ratsToJson).toArray),
                        ("covariances", Json.arr (ev.covariances.map (fun r => Json.arr (r.map optRatToJson).toArray)).toArray)])
  | "parities" =>
    let shots ← listOfJson shotOfJson (← field j "shots")
    let terms ← listOfJson termOfJson (← field j "terms")
    match getParities shots terms with
    | .error e => pure (errToJson e)
    | .ok p =>
      pure (Json.mkObj [("values", Json.arr (p.values.map pairToJson).toArray),
                        ("correlations", Json.arr (p.correlations.map (fun r => Json.arr (r.map pairToJson).toArray)).toArray)])
  | _ => throw s!"unknown op {op}"

end OQ.C10.Driver
