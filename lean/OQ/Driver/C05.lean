import OQ.Exec.Proto
import OQ.Model.C05
open Lean OQ.Proto
namespace OQ.C05.Driver

/-! JSON glue only.  Strings ⇄ `Name`, optional keys ⇄ `Option`/empty list. -/

def nameOfJson (j : Json) : Except String Name := do pure (← strOfJson j).toList
def nameToJson (n : Name) : Json := Json.str (String.ofList n)
def namesToJson (l : List Name) : Json := Json.arr (l.map nameToJson).toArray

def errToJson : Err → Json
  | .key => Json.str "err:key"
  | .value => Json.str "err:value"
  | .type => Json.str "err:type"
  | .junk => Json.str "err:junk"

def pOfJson (j : Json) : Except String PExpr := do
  pure ⟨← nameOfJson (← field j "text"), ← listOfJson nameOfJson (← field j "syms")⟩

def pToJson (p : PExpr) : Json := Json.mkObj [("text", nameToJson p.text), ("syms", namesToJson p.syms)]

def expoOfJson (j : Json) : Except String Expo := do
  let q ← ratOfJson (← field j "val")
  pure ⟨← boolOfJson (← field j "int"), q.num, q.den, ← nameOfJson (← field j "text")⟩

def expoToJson (e : Expo) : Json :=
  Json.mkObj [("int", Json.bool e.isInt), ("val", ratToJson (mkRat e.num e.den)), ("text", nameToJson e.text)]

def defOfJson (j : Json) : Except String (CustomDef PExpr) := do
  pure ⟨← nameOfJson (← field j "gate_name"),
        ← listOfJson (listOfJson pOfJson) (← field j "matrix"),
        ← listOfJson nameOfJson (← field j "ordering")⟩

def defToJson (d : CustomDef PExpr) : Json :=
  Json.mkObj [("gate_name", nameToJson d.gateName),
              ("matrix", Json.arr (d.matrix.map (fun r => Json.arr (r.map pToJson).toArray)).toArray),
              ("ordering", namesToJson d.ordering)]

partial def gateOfJson (j : Json) : Except String (Gate PExpr Expo) := do
  match ← strOfJson (← field j "t") with
  | "builtin" => pure (.builtin (← nameOfJson (← field j "name")) (← listOfJson pOfJson (← field j "params")))
  | "custom" => pure (.custom (← defOfJson (← field j "def")) (← listOfJson pOfJson (← field j "params")))
  | "controlled" => pure (.controlled (← gateOfJson (← field j "g")) (← intOfJson (← field j "k")))
  | "dagger" => pure (.dagger (← gateOfJson (← field j "g")))
  | "exponential" => pure (.exponential (← gateOfJson (← field j "g")))
  | "power" => pure (.power (← gateOfJson (← field j "g")) (← expoOfJson (← field j "e")))
  | t => throw s!"unknown gate tag {t}"

def gateToJson : Gate PExpr Expo → Json
  | .builtin n ps => Json.mkObj [("t", "builtin"), ("name", nameToJson n), ("params", Json.arr (ps.map pToJson).toArray)]
  | .custom d ps => Json.mkObj [("t", "custom"), ("def", defToJson d), ("params", Json.arr (ps.map pToJson).toArray)]
  | .controlled g k => Json.mkObj [("t", "controlled"), ("g", gateToJson g), ("k", Json.num (JsonNumber.fromInt k))]
  | .dagger g => Json.mkObj [("t", "dagger"), ("g", gateToJson g)]
  | .exponential g => Json.mkObj [("t", "exponential"), ("g", gateToJson g)]
  | .power g e => Json.mkObj [("t", "power"), ("g", gateToJson g), ("e", expoToJson e)]

def circuitOfJson (j : Json) : Except String (Circuit PExpr Expo) := do
  let ops ← listOfJson (fun o => do
    pure (⟨← gateOfJson (← field o "gate"), ← listOfJson intOfJson (← field o "qubits")⟩ : Op PExpr Expo))
    (← field j "ops")
  pure ⟨← intOfJson (← field j "n_qubits"), ops⟩

def circuitToJson (c : Circuit PExpr Expo) : Json :=
  Json.mkObj [("n_qubits", Json.num (JsonNumber.fromInt c.nQubits)),
              ("ops", Json.arr (c.ops.map (fun o =>
                Json.mkObj [("gate", gateToJson o.gate), ("qubits", intsToJson o.qubits)])).toArray)]

def optList (j : Json) (k : String) : Except String (List Name) :=
  match fieldOpt j k with
  | none => pure []
  | some v => listOfJson nameOfJson v

partial def gdictOfJson (j : Json) : Except String (GDict Expo) := do
  let name ← (fieldOpt j "name").mapM nameOfJson
  let ps ← optList j "params"
  let fs ← optList j "free_symbols"
  let nc ← (fieldOpt j "num_control_qubits").mapM intOfJson
  let ex ← (fieldOpt j "exponent").mapM expoOfJson
  match fieldOpt j "wrapped_gate" with
  | none => pure (.leaf name ps fs nc ex)
  | some w => pure (.wrap name ps fs (← gdictOfJson w) nc ex)

def optField {α : Type} (k : String) (f : α → Json) : Option α → List (String × Json)
  | none => []
  | some a => [(k, f a)]

def listField (k : String) (l : List Name) : List (String × Json) :=
  if l.isEmpty then [] else [(k, namesToJson l)]

def gdictToJson : GDict Expo → Json
  | .leaf name ps fs nc ex =>
    Json.mkObj (optField "name" nameToJson name ++ listField "params" ps ++ listField "free_symbols" fs ++
      optField "num_control_qubits" (fun (k : Int) => Json.num (JsonNumber.fromInt k)) nc ++
      optField "exponent" expoToJson ex)
  | .wrap name ps fs inner nc ex =>
    Json.mkObj (optField "name" nameToJson name ++ listField "params" ps ++ listField "free_symbols" fs ++
      [("wrapped_gate", gdictToJson inner)] ++
      optField "num_control_qubits" (fun (k : Int) => Json.num (JsonNumber.fromInt k)) nc ++
      optField "exponent" expoToJson ex)

def cdictOfJson (j : Json) : Except String (CDict Expo) := do
  let n ← (fieldOpt j "n_qubits").mapM intOfJson
  let ops ← match fieldOpt j "operations" with
    | none => pure []
    | some v => listOfJson (fun o => do
        pure (⟨← gdictOfJson (← field o "gate"), ← listOfJson intOfJson (← field o "qubit_indices")⟩ : OpDict Expo)) v
  let defs ← match fieldOpt j "custom_gate_definitions" with
    | none => pure []
    | some v => listOfJson (fun d => do
        pure (⟨← nameOfJson (← field d "gate_name"),
               ← listOfJson (listOfJson nameOfJson) (← field d "matrix"),
               ← optList d "params_ordering"⟩ : DefDict)) v
  pure ⟨n, ops, defs⟩

def cdictToJson (d : CDict Expo) : Json :=
  Json.mkObj (
    optField "n_qubits" (fun (k : Int) => Json.num (JsonNumber.fromInt k)) d.nQubits ++
    (if d.ops.isEmpty then [] else
      [("operations", Json.arr (d.ops.map (fun o =>
        Json.mkObj [("type", "gate_operation"), ("gate", gdictToJson o.gate),
                    ("qubit_indices", intsToJson o.qubits)])).toArray)]) ++
    (if d.defs.isEmpty then [] else
      [("custom_gate_definitions", Json.arr (d.defs.map (fun df =>
        Json.mkObj [("gate_name", nameToJson df.gateName),
                    ("matrix", Json.arr (df.matrix.map namesToJson).toArray),
                    ("params_ordering", namesToJson df.ordering)])).toArray)]))

def res {α : Type} (f : α → Json) : Except Err α → Json
  | .ok a => Json.mkObj [("ok", f a)]
  | .error e => errToJson e

def symEntryToJson : SymEntry → Json
  | .sym n => Json.mkObj [("sym", nameToJson n)]
  | .dict d => Json.mkObj [("dict", Json.arr (d.map (fun p =>
      Json.arr #[Json.num (JsonNumber.fromNat p.1), nameToJson p.2])).toArray)]

def handle (op : String) (j : Json) : Except String Json := do
  let consts ← match fieldOpt j "consts" with
    | none => pure []
    | some v => listOfJson nameOfJson v
  let callables ← match fieldOpt j "callables" with
    | none => pure []
    | some v => listOfJson nameOfJson v
  let C := execCodec consts callables
  match op with
  | "to_dict" =>
    let c ← circuitOfJson (← field j "circuit")
    pure (res cdictToJson (circuitToDict genEnv C c))
  | "from_dict" =>
    let d ← cdictOfJson (← field j "dict")
    pure (res circuitToJson (circuitFromDict genEnv C d))
  | "roundtrip" =>
    let c ← circuitOfJson (← field j "circuit")
    match circuitToDict genEnv C c with
    | .error e => pure (errToJson e)
    | .ok d => pure (res circuitToJson (circuitFromDict genEnv C d))
  | "to_dict_set" =>
    let cs ← listOfJson circuitOfJson (← field j "circuits")
    pure (res (fun ds => Json.mkObj [("circuits", Json.arr (ds.map cdictToJson).toArray)])
      (circuitsetToDict genEnv C cs))
  | "from_dict_set" =>
    let ds ← listOfJson cdictOfJson (← field (← field j "dict") "circuits")
    pure (res (fun cs => Json.arr (cs.map circuitToJson).toArray) (circuitsetFromDict genEnv C ds))
  | "gate_name" =>
    let g ← gateOfJson (← field j "gate")
    pure (nameToJson (Gate.name genEnv C g))
  | "symtab" =>
    let names ← listOfJson nameOfJson (← field j "names")
    let queries ← listOfJson nameOfJson (← field j "queries")
    match makeSymbolsMap names with
    | .error e => pure (errToJson e)
    | .ok m =>
      pure (Json.mkObj [
        ("map", Json.arr (m.map (fun p => Json.arr #[nameToJson p.1, symEntryToJson p.2])).toArray),
        ("resolve", Json.arr (queries.map (fun q => match resolve m q with
          | some n => nameToJson n
          | none => Json.null)).toArray)])
  | _ => throw s!"unknown op {op}"

end OQ.C05.Driver
