import OQ.Exec.Proto
import OQ.Model.C11
open Lean OQ.Proto
namespace OQ.C11.Driver

/-! JSON glue only.  Instantiations of the model's parameters used for execution:
    * `negl re im`  :=  re² + im² ≤ tol²  with `tol` the double nearest to 1e-8 (exact rational)
    * `order`       :=  identity (the harness compares `pauli_ops` as sets)
    * `showC`       :=  the text Python printed for the coefficient (sent by the harness)
    * `readC`       :=  an exact reader of Python's complex-literal grammar (decimal → rational)
    * `A = L = Json`, `toL = ofL = id`, `truthy` = Python truth value of the JSON value -/

/-- the double `1e-8` as an exact rational -/
def tol : Rat := mkRat 3022314549036573 (2 ^ 78)

def negl (re im : Rat) : Bool := re * re + im * im ≤ tol * tol

def pauliOfString (s : String) : Except String Pauli :=
  match s with
  | "X" => pure .X | "Y" => pure .Y | "Z" => pure .Z | "I" => pure .I
  | _ => throw s!"bad pauli {s}"

def pauliToString : Pauli → String
  | .X => "X" | .Y => "Y" | .Z => "Z" | .I => "I"

def opsOfJson (j : Json) : Except String Ops :=
  listOfJson (fun p => do
    match ← arrOfJson p with
    | [q, o] => pure (← natOfJson q, ← pauliOfString (← strOfJson o))
    | _ => throw "bad op pair") j

def opsToJson (ops : Ops) : Json :=
  .arr (ops.map (fun p => Json.arr #[Json.num (JsonNumber.fromNat p.1), Json.str (pauliToString p.2)])).toArray

def coefOfJson (j : Json) : Except String Coef := do
  let re ← ratOfJson (← field j "re")
  let im ← ratOfJson (← field j "im")
  if ← boolOfJson (← field j "cplx") then pure (.cplx re im) else pure (.real re)

def coefToJson (c : Coef) : Json :=
  match c with
  | .real r => Json.mkObj [("re", ratToJson r), ("im", ratToJson 0), ("cplx", Json.bool false)]
  | .cplx r i => Json.mkObj [("re", ratToJson r), ("im", ratToJson i), ("cplx", Json.bool true)]

def sumOfJson (j : Json) : Except String (PSum Coef) :=
  listOfJson (fun t => do pure ⟨← opsOfJson (← field t "ops"), ← coefOfJson (← field t "coef")⟩) j

def sumToJson (s : PSum Coef) : Json :=
  .arr (s.map (fun t => Json.mkObj [("ops", opsToJson t.ops), ("coef", coefToJson t.coef)])).toArray

def opDToJson (d : OpD) : Json :=
  Json.mkObj [("terms", .arr (d.terms.map (fun td =>
    Json.mkObj [
      ("pauli_ops", .arr (td.pauliOps.map (fun p =>
        Json.mkObj [("qubit", Json.num (JsonNumber.fromInt p.qubit)), ("op", Json.str (pauliToString p.op))])).toArray),
      ("coefficient", match td.coefficient.imag with
        | some i => Json.mkObj [("real", ratToJson td.coefficient.real), ("imag", ratToJson i)]
        | none => Json.mkObj [("real", ratToJson td.coefficient.real)])])).toArray)]

/-- `none` = an operator letter outside XYZI (rejected by `PauliTerm.__init__` with ValueError) -/
def opDOfJson (j : Json) : Except String (Option OpD) := do
  let terms ← arrOfJson (← field j "terms")
  let mut out : List TermD := []
  let mut bad := false
  for t in terms do
    let pops ← arrOfJson (← field t "pauli_ops")
    let mut l : List PauliOpD := []
    for p in pops do
      let q ← intOfJson (← field p "qubit")
      match pauliOfString (← strOfJson (← field p "op")) with
      | .ok o => l := l ++ [⟨q, o⟩]
      | .error _ => bad := true
    let c ← field t "coefficient"
    let re ← ratOfJson (← field c "real")
    let im ← match fieldOpt c "imag" with
      | some i => pure (some (← ratOfJson i))
      | none => pure none
    out := out ++ [⟨l, ⟨re, im⟩⟩]
  if bad then pure none else pure (some ⟨out⟩)

def errToJson : Err → Json
  | .value => Json.str "err:value"

/-! ### exact reader of Python's `complex(text)` -/

def digitsPrefix (s : List Char) : List Char × List Char := (s.takeWhile (fun c => (digitVal c).isSome), s.dropWhile (fun c => (digitVal c).isSome))

def pow10 (e : Int) : Rat := if e ≥ 0 then ((10 : Rat) ^ e.toNat) else 1 / ((10 : Rat) ^ (-e).toNat)

/-- longest prefix that is a Python float literal (`[sign] digits [. digits] [e [sign] digits]`),
    as `PyOS_string_to_double` with an end pointer; `none` when no prefix parses -/
def floatPrefix (s : List Char) : Option (Rat × List Char) :=
  let (neg, s1) := match s with
    | '-' :: r => (true, r)
    | '+' :: r => (false, r)
    | _ => (false, s)
  let (ip, s2) := digitsPrefix s1
  let (fp, s3) := match s2 with
    | '.' :: r => let (f, r') := digitsPrefix r; (f, r')
    | _ => ([], s2)
  let hadDot := match s2 with | '.' :: _ => true | _ => false
  if ip.isEmpty && fp.isEmpty then none
  else
    let mant : Rat := (readNat (ip ++ fp) : Rat) * pow10 (-(fp.length : Int))
    let s3' := if hadDot then s3 else s2
    let (ex, s4) := match s3' with
      | e :: r =>
        if e = 'e' ∨ e = 'E' then
          let (eneg, r1) := match r with
            | '-' :: r' => (true, r')
            | '+' :: r' => (false, r')
            | _ => (false, r)
          let (ed, r2) := digitsPrefix r1
          if ed.isEmpty then ((0 : Int), s3') else ((if eneg then -(readNat ed : Int) else (readNat ed : Int)), r2)
        else ((0 : Int), s3')
      | [] => ((0 : Int), s3')
    let v := mant * pow10 ex
    some (if neg then -v else v, s4)

def isJ (c : Char) : Bool := c = 'j' ∨ c = 'J'

/-- `complex_from_string_inner` of CPython -/
def readComplex (text : List Char) : Option (Rat × Rat) :=
  let s := stripBy isCSpace text
  let (s, paren) := match s with
    | '(' :: r => (r.dropWhile isCSpace, true)
    | _ => (s, false)
  let res : Option (Rat × Rat × List Char) :=
    match floatPrefix s with
    | some (z, rest) =>
      match rest with
      | c :: r =>
        if c = '+' ∨ c = '-' then
          match floatPrefix rest with
          | some (y, r2) =>
            match r2 with
            | j :: r3 => if isJ j then some (z, y, r3) else none
            | [] => none
          | none =>
            match r with
            | j :: r3 => if isJ j then some (z, if c = '+' then 1 else -1, r3) else none
            | [] => none
        else if isJ c then some (0, z, r)
        else some (z, 0, rest)
      | [] => some (z, 0, [])
    | none =>
      let (y, r) : Rat × List Char := match s with
        | '+' :: r => (1, r)
        | '-' :: r => (-1, r)
        | _ => (1, s)
      match r with
      | j :: r3 => if isJ j then some (0, y, r3) else none
      | [] => none
  match res with
  | none => none
  | some (x, y, rest) =>
    let rest := rest.dropWhile isCSpace
    if paren then
      match rest with
      | ')' :: r => if (r.dropWhile isCSpace).isEmpty then some (x, y) else none
      | _ => none
    else if rest.isEmpty then some (x, y) else none

def parsedToJson (r : Option (PSum (Rat × Rat))) : Json :=
  match r with
  | none => Json.str "err:value"
  | some s => .arr (s.map (fun t => Json.mkObj [("ops", opsToJson t.ops),
      ("coef", Json.arr #[ratToJson t.coef.1, ratToJson t.coef.2])])).toArray

/-! ### arrays as JSON values -/

def truthyJson : Json → Bool
  | .null => false
  | .bool b => b
  | .num n => n.mantissa ≠ 0
  | .str s => s ≠ "" ∧ s ≠ "0"          -- rationals travel as strings; "0" is the number zero
  | .arr a => a.size > 0
  | .obj o => !o.isEmpty

def carrOfJson (j : Json) : Except String (CArr Json) := do
  pure ⟨← field j "re", fieldOpt j "im"⟩

def carrToJson (a : CArr Json) : Json :=
  Json.mkObj [("re", a.re), ("im", a.im.getD Json.null)]

def arrDToJson (d : ArrD Json) : Json :=
  match d.imag with
  | some i => Json.mkObj [("real", d.real), ("imag", i)]
  | none => Json.mkObj [("real", d.real)]

/-- a key holding JSON null is present (`dict.get` returns None, falsy) – the typed model has no such
    state for `imag`; it is mapped to "absent", which `convert_dict_to_array` treats the same way. -/
def arrDOfJson (j : Json) : Except String (ArrD Json) := do
  pure ⟨← field j "real", fieldOpt j "imag"⟩

def optFramesOfJson (j : Json) (k : String) : Except String (Option (List (CArr Json))) :=
  match fieldOpt j k with
  | none => pure none
  | some v => do pure (some (← listOfJson carrOfJson v))

def optFramesToJson (o : Option (List (CArr Json))) : Json :=
  match o with
  | none => Json.null
  | some l => .arr (l.map carrToJson).toArray

def optDictFrames (o : Option (List (ArrD Json))) (k : String) : List (String × Json) :=
  match o with
  | none => []
  | some l => [(k, .arr (l.map arrDToJson).toArray)]

def optDictFramesOfJson (j : Json) (k : String) : Except String (Option (List (ArrD Json))) :=
  match fieldOpt j k with
  | none => pure none
  | some v => do pure (some (← listOfJson arrDOfJson v))

def charsToJson (s : List Char) : Json := Json.str (String.ofList s)

def handle (op : String) (j : Json) : Except String Json := do
  match op with
  | "op_to_dict" =>
    let s ← sumOfJson (← field j "terms")
    pure (opDToJson (opToDict id s))
  | "dict_to_op" =>
    match ← opDOfJson (← field j "dict") with
    | none => pure (Json.str "err:value")
    | some d =>
      match dictToOp negl d with
      | .ok s => pure (sumToJson s)
      | .error e => pure (errToJson e)
  | "dict_set_to_ops" =>
    let ds ← listOfJson opDOfJson (← field j "dicts")
    match ds.mapM id with
    | none => pure (Json.str "err:value")
    | some ds =>
      match ds.mapM (dictToOp negl) with
      | .ok l => pure (.arr (l.map sumToJson).toArray)
      | .error e => pure (errToJson e)
  | "simplify" =>
    let s ← sumOfJson (← field j "terms")
    pure (sumToJson (simplify negl s))
  | "repr" =>
    -- terms carry the text Python printed for their coefficient (showC = that text)
    let ts ← listOfJson (fun t => do
      pure (⟨← opsOfJson (← field t "ops"), (← strOfJson (← field t "text")).toList⟩ : Term (List Char))) (← field j "terms")
    let zero := (← strOfJson (← field j "zero_text")).toList
    let kind ← strOfJson (← field j "kind")
    if kind == "term" then
      match ts with
      | [t] => pure (charsToJson (reprTerm id t))
      | _ => throw "repr term: exactly one term expected"
    else pure (charsToJson (reprSum id zero ts))
  | "parse_term" =>
    let text := (← strOfJson (← field j "text")).toList
    pure (parsedToJson ((parseTerm readComplex text).map (fun t => [t])))
  | "parse_sum" =>
    let text := (← strOfJson (← field j "text")).toList
    pure (parsedToJson (parseSum readComplex text))
  | "coef_law" =>
    let text := (← strOfJson (← field j "text")).toList
    let v := readComplex text
    let br := match v with
      | some (re, im) => !(re ≠ 0 ∧ im ≠ 0) || isInBrackets text
      | none => false
    pure (Json.mkObj [("ok", Json.bool (coefTextOK text)), ("brackets", Json.bool br),
      ("value", match v with | some (re, im) => Json.arr #[ratToJson re, ratToJson im] | none => Json.null)])
  | "array_to_dict" => pure (arrDToJson (arrayToDict id (← carrOfJson (← field j "array"))))
  | "dict_to_array" => pure (carrToJson (dictToArray id truthyJson (← arrDOfJson (← field j "dict"))))
  | "ev_to_dict" =>
    let e : EV Json := ⟨← carrOfJson (← field j "values"), ← optFramesOfJson j "correlations",
      ← optFramesOfJson j "covariances"⟩
    let d := evToDict id e
    pure (Json.mkObj ([("frames", Json.arr #[]), ("expectation_values", arrDToJson d.expectationValues)]
      ++ optDictFrames d.correlations "correlations" ++ optDictFrames d.estimatorCovariances "estimator_covariances"))
  | "ev_from_dict" =>
    let dj ← field j "dict"
    let d : EVD Json := ⟨[], ← arrDOfJson (← field dj "expectation_values"),
      ← optDictFramesOfJson dj "correlations", ← optDictFramesOfJson dj "estimator_covariances"⟩
    let e := evFromDict id truthyJson d
    pure (Json.mkObj [("values", carrToJson e.values), ("correlations", optFramesToJson e.correlations),
      ("covariances", optFramesToJson e.estimatorCovariances)])
  | "par_to_dict" =>
    let p : Par Json := ⟨← carrOfJson (← field j "values"), ← optFramesOfJson j "correlations"⟩
    let d := parToDict id p
    pure (Json.mkObj ([("values", arrDToJson d.values)] ++ optDictFrames d.correlations "correlations"))
  | "par_from_dict" =>
    let dj ← field j "dict"
    let d : ParD Json := ⟨← arrDOfJson (← field dj "values"), ← optDictFramesOfJson dj "correlations"⟩
    let p := parFromDict id truthyJson d
    pure (Json.mkObj [("values", carrToJson p.values), ("correlations", optFramesToJson p.correlations)])
  | "ve_to_dict" =>
    let v : VE := ⟨← ratOfJson (← field j "value"), ← (match fieldOpt j "precision" with
      | some p => do pure (some (← ratOfJson p)) | none => pure none)⟩
    let d := veToDict v
    pure (Json.mkObj [("value", ratToJson d.value), ("precision", match d.precision with
      | some (some p) => ratToJson p | _ => Json.null)])
  | "ve_from_dict" =>
    let dj ← field j "dict"
    let prec : Option (Option Rat) ← match dj.getObjVal? "precision" with
      | .ok .null => pure (some none)
      | .ok p => do pure (some (some (← ratOfJson p)))
      | .error _ => pure none
    let v := veFromDict ⟨← ratOfJson (← field dj "value"), prec⟩
    pure (Json.mkObj [("value", ratToJson v.value), ("precision", match v.precision with
      | some p => ratToJson p | none => Json.null)])
  | "nmeas_to_dict" =>
    let fm ← match fieldOpt j "frame_meas" with
      | some a => do pure (some (← carrOfJson a))
      | none => pure none
    let d := nmeasToDict id (← ratOfJson (← field j "K")) (← intOfJson (← field j "nterms")) fm
    pure (Json.mkObj ([("K", ratToJson d.K), ("nterms", Json.num (JsonNumber.fromInt d.nterms))]
      ++ (match d.frameMeas with | some a => [("frame_meas", arrDToJson a)] | none => [])))
  | "nmeas_from_dict" =>
    let dj ← field j "dict"
    let fm ← match fieldOpt dj "frame_meas" with
      | some a => do pure (some (← arrDOfJson a))
      | none => pure none
    let (k, n, a) := nmeasFromDict id truthyJson ⟨← ratOfJson (← field dj "K"), ← intOfJson (← field dj "nterms"), fm⟩
    pure (Json.mkObj [("K", ratToJson k), ("nterms", Json.num (JsonNumber.fromInt n)),
      ("frame_meas", match a with | some a => carrToJson a | none => Json.null)])
  | "meas_to_dict" =>
    let bs ← listOfJson (listOfJson intOfJson) (← field j "bitstrings")
    let d := measToDict (bs.map (fun b => ⟨b⟩))
    pure (Json.mkObj [("counts", .arr (d.counts.map (fun p => Json.arr #[charsToJson p.1,
        Json.num (JsonNumber.fromNat p.2)])).toArray),
      ("bitstrings", .arr (d.bitstrings.map intsToJson).toArray)])
  | "meas_from_dict" =>
    let dj ← field j "dict"
    let bs ← listOfJson (listOfJson intOfJson) (← field dj "bitstrings")
    let r := measFromDict ⟨[], bs⟩
    pure (.arr (r.map (fun t => intsToJson t.elems)).toArray)
  | "layers" =>
    let l ← listOfJson (listOfJson (listOfJson intOfJson)) (← field j "layers")
    let r := layersFromDict (jsonLayers (layersToDict (l.map (fun layer => layer.map (fun t => ⟨t⟩)))))
    pure (.arr (r.map (fun layer => Json.arr (layer.map (fun t => intsToJson t.elems)).toArray)).toArray)
  | "connectivity" =>
    let l ← listOfJson (listOfJson intOfJson) (← field j "connectivity")
    let r := connectivityFromDict (jsonConnectivity (connectivityToDict (l.map (fun t => ⟨t⟩))))
    pure (.arr (r.map (fun t => intsToJson t.elems)).toArray)
  | _ => throw s!"unknown op {op}"

end OQ.C11.Driver
