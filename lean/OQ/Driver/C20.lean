import OQ.Exec.Proto
import OQ.Model.C20
open Lean OQ.Proto
namespace OQ.C20.Driver

/-! JSON glue only.  A request is a whole history; pool indices (the harness's numbering of live
    objects) are translated to store references here. -/

def paramOfJson (j : Json) : Except String Param :=
  match j.getObjVal? "sym" with
  | .ok s => do pure (.sym (← strOfJson s))
  | .error _ => do pure (.num (← ratOfJson j))

def paramToJson : Param → Json
  | .sym s => Json.mkObj [("sym", .str s)]
  | .num q => ratToJson q

partial def gateOfJson (j : Json) : Except String Gate := do
  match ← arrOfJson j with
  | [.str "base", nm, ps, h] => pure (.base (← strOfJson nm) (← listOfJson paramOfJson ps) (← boolOfJson h))
  | [.str "ctrl", g, n] => pure (.ctrl (← gateOfJson g) (← natOfJson n))
  | [.str "dag", g] => pure (.dag (← gateOfJson g))
  | [.str "pow", g, e] => pure (.pow (← gateOfJson g) (← ratOfJson e))
  | [.str "exp", g] => pure (.exp (← gateOfJson g))
  | _ => throw s!"bad gate {j.compress}"

def gateToJson : Gate → Json
  | .base nm ps h => .arr #[.str "base", .str nm, .arr (ps.map paramToJson).toArray, .bool h]
  | .ctrl g n => .arr #[.str "ctrl", gateToJson g, .num (JsonNumber.fromNat n)]
  | .dag g => .arr #[.str "dag", gateToJson g]
  | .pow g e => .arr #[.str "pow", gateToJson g, ratToJson e]
  | .exp g => .arr #[.str "exp", gateToJson g]

def gopOfJson (j : Json) : Except String GOp := do
  pure ⟨← gateOfJson (← field j "g"), ← listOfJson natOfJson (← field j "q")⟩

def gopToJson (o : GOp) : Json := Json.mkObj [("g", gateToJson o.gate), ("q", natsToJson o.qubits)]

def coefOfJson (j : Json) : Except String Coef := do
  match ← arrOfJson j with
  | [re, im] => pure ⟨← ratOfJson re, ← ratOfJson im⟩
  | _ => throw "bad coefficient"

def coefToJson (c : Coef) : Json := .arr #[ratToJson c.re, ratToJson c.im]

def pOfJson (j : Json) : Except String P := do
  match ← strOfJson j with
  | "X" => pure .X | "Y" => pure .Y | "Z" => pure .Z
  | s => throw s!"bad Pauli letter {s}"

def pToJson : P → Json | .X => .str "X" | .Y => .str "Y" | .Z => .str "Z"

def popsOfJson (j : Json) : Except String POps :=
  listOfJson (fun p => do
    match ← arrOfJson p with
    | [q, l] => pure (← natOfJson q, ← pOfJson l)
    | _ => throw "bad op pair") j

def popsToJson (d : POps) : Json :=
  .arr (d.map (fun kv => Json.arr #[.num (JsonNumber.fromNat kv.1), pToJson kv.2])).toArray

def termToJson (t : TermV) : Json := Json.mkObj [("ops", popsToJson t.1), ("coef", coefToJson t.2)]

def bitsListOfJson (j : Json) : Except String (List Bits) := listOfJson (listOfJson natOfJson) j
def bitsListToJson (bs : List Bits) : Json := .arr (bs.map natsToJson).toArray

def ddictOfJson (j : Json) : Except String DDict :=
  listOfJson (fun p => do
    match ← arrOfJson p with
    | [k, v] => pure (← listOfJson natOfJson k, ← ratOfJson v)
    | _ => throw "bad dict item") j

def ddictToJson (d : DDict) : Json := .arr (d.map (fun kv => Json.arr #[natsToJson kv.1, ratToJson kv.2])).toArray

def countsOfJson (j : Json) : Except String (List (Bits × Nat)) :=
  listOfJson (fun p => do
    match ← arrOfJson p with
    | [k, v] => pure (← listOfJson natOfJson k, ← natOfJson v)
    | _ => throw "bad count item") j

def countsToJson (c : List (Bits × Nat)) : Json :=
  .arr (c.map (fun kv => Json.arr #[natsToJson kv.1, .num (JsonNumber.fromNat kv.2)])).toArray

def obsToJson : Obs → Json
  | .oplist ops => Json.mkObj [("k", "oplist"), ("ops", .arr (ops.map gopToJson).toArray)]
  | .circuit ops nq => Json.mkObj [("k", "circuit"), ("ops", .arr (ops.map gopToJson).toArray),
                                   ("nq", .num (JsonNumber.fromNat nq))]
  | .pdict d => Json.mkObj [("k", "pdict"), ("ops", popsToJson d)]
  | .term t => Json.mkObj [("k", "term"), ("t", termToJson t)]
  | .tlist ts => Json.mkObj [("k", "termlist"), ("ts", .arr (ts.map termToJson).toArray)]
  | .psum ts => Json.mkObj [("k", "sum"), ("ts", .arr (ts.map termToJson).toArray)]
  | .blist bs => Json.mkObj [("k", "bitlist"), ("bs", bitsListToJson bs)]
  | .meas bs => Json.mkObj [("k", "meas"), ("bs", bitsListToJson bs)]
  | .ddict d => Json.mkObj [("k", "ddict"), ("d", ddictToJson d)]
  | .dist d => Json.mkObj [("k", "dist"), ("d", ddictToJson d)]
  | .arr a => Json.mkObj [("k", "arr"), ("a", .arr (a.map coefToJson).toArray)]
  | .wf a => Json.mkObj [("k", "wf"), ("a", .arr (a.map coefToJson).toArray)]

def errToString : Err → String
  | .badref => "err:badref" | .value => "err:value" | .runtime => "err:runtime" | .notimpl => "err:notimpl" | .index => "err:index"

def outcomeToJson : Outcome → Json
  | .err e => .str (errToString e)
  | .ok (.obj o) => Json.mkObj [("obj", obsToJson o)]
  | .ok (.counts c) => Json.mkObj [("counts", countsToJson c)]
  | .ok (.probs p) => Json.mkObj [("probs", ratsToJson p)]
  | .ok (.digest k os) => Json.mkObj [("digest", .str k), ("args", .arr (os.map obsToJson).toArray)]

/-- pool index → store reference; a missing object (an earlier call raised) becomes a dangling reference -/
def poolRef (h : Heap) (pool : Array (Option Ref)) (i : Nat) : Ref :=
  match pool[i]? with
  | some (some r) => r
  | _ => h.length + 1000000

def symMapOfJson (j : Json) : Except String (List (String × Rat)) :=
  listOfJson (fun p => do
    match ← arrOfJson p with
    | [s, v] => pure (← strOfJson s, ← ratOfJson v)
    | _ => throw "bad symbol map item") j

/-- does the call put an object into the pool (even `None` when it raises)? -/
def producesObject : Call → Bool
  | .measCounts _ | .wfProbs _ | .report _ _ => false
  | _ => true

def callOfJson (h : Heap) (pool : Array (Option Ref)) (j : Json) : Except String Call := do
  let op ← strOfJson (← field j "op")
  let args ← match fieldOpt j "args" with
    | some a => listOfJson natOfJson a
    | none => pure []
  let r (k : Nat) : Ref := poolRef h pool (args.getD k 1000000)
  match op with
  | "lit_ops" => pure (.litOps (← listOfJson gopOfJson (← field j "ops")))
  | "lit_terms" => pure (.litTerms (args.map (poolRef h pool)))
  | "lit_bits" => pure (.litBits (← bitsListOfJson (← field j "bits")))
  | "lit_dict" => pure (.litDict (← ddictOfJson (← field j "d")))
  | "lit_arr" => pure (.litArr (← listOfJson coefOfJson (← field j "a")))
  | "circ_new" =>
    let nq ← match fieldOpt j "nq" with
      | some n => do pure (some (← natOfJson n))
      | none => pure none
    pure (.circNew (r 0) nq)
  | "circ_add" => pure (.circAdd (r 0) (r 1))
  | "circ_add_op" => pure (.circAddOp (r 0) (← gopOfJson (← field j "gop")))
  | "circ_bind" => pure (.circBind (r 0) (← symMapOfJson (← field j "map")))
  | "circ_inverse" => pure (.circInverse (r 0))
  | "circ_controlled" => pure (.circControlled (r 0) (← natOfJson (← field j "k")))
  | "term_new" => pure (.termNew (← popsOfJson (← field j "ops")) (← coefOfJson (← field j "coef")))
  | "term_copy" =>
    let c ← match fieldOpt j "coef" with
      | some c => do pure (some (← coefOfJson c))
      | none => pure none
    pure (.termCopy (r 0) c)
  | "term_mul" => pure (.termMul (r 0) (r 1))
  | "term_scale" => pure (.termScale (r 0) (← coefOfJson (← field j "coef")))
  | "term_add" => pure (.termAdd (r 0) (r 1))
  | "term_pow" => pure (.termPow (r 0) (← natOfJson (← field j "n")))
  | "sum_new" => pure (.sumNew (r 0))
  | "sum_add" => pure (.sumAdd (r 0) (r 1))
  | "sum_mul" => pure (.sumMul (r 0) (r 1))
  | "sum_rmul" => pure (.sumRMul (r 0) (← coefOfJson (← field j "coef")))
  | "sum_pow" => pure (.sumPow (r 0) (← natOfJson (← field j "n")))
  | "sum_simplify" => pure (.sumSimplify (r 0))
  | "op_conj" => pure (.opConj (r 0))
  | "meas_new" => pure (.measNew (r 0))
  | "meas_from_counts" => pure (.measFromCounts (← countsOfJson (← field j "counts")))
  | "meas_distribution" => pure (.measDistribution (r 0))
  | "meas_representing" =>
    pure (.measRepresenting (r 0) (← natOfJson (← field j "n")) (← bitsListOfJson (← field j "samples")))
  | "dist_new" => pure (.distNew (r 0) (← boolOfJson (← field j "normalize")))
  | "dist_sub" => pure (.distSub (r 0) (← listOfJson intOfJson (← field j "qubits")))
  | "wf_new" => pure (.wfNew (r 0))
  | "wf_bind" => pure (.wfBind (r 0))
  | "meas_counts" => pure (.measCounts (r 0))
  | "wf_probs" => pure (.wfProbs (r 0))
  | "report" => pure (.report (← strOfJson (← field j "kind")) (args.map (poolRef h pool)))
  | _ => throw s!"unknown call {op}"

def optObsToJson : Option Obs → Json
  | some o => obsToJson o
  | none => .null

def runHistory (calls : List Json) : Except String Json := do
  let mut h : Heap := []
  let mut pool : Array (Option Ref) := #[]
  let mut steps : Array Json := #[]
  let mut frameOk := true
  for cj in calls do
    let c ← callOfJson h pool cj
    let before : List (Option Obs) := pool.toList.map (fun r => r.bind (view? h))
    let s := step h c
    -- run-time double check of what the theorems say (frame, result_denotes); never expected to fail
    let after : List (Option Obs) := pool.toList.map (fun r => r.bind (view? s.1))
    let prefixOk := decide (s.1.take h.length = h)
    let denotes := match s.2.out, s.2.ref with
      | .ok (.obj o), some r => decide (view? s.1 r = some o)
      | .ok (.obj _), none => false
      | _, _ => true
    frameOk := frameOk && prefixOk && denotes && decide (before = after)
    steps := steps.push (Json.mkObj [("out", outcomeToJson s.2.out)])
    h := s.1
    if producesObject c then pool := pool.push s.2.ref
  let views := pool.toList.map (fun r => optObsToJson (r.bind (view? h)))
  pure (Json.mkObj [("steps", .arr steps), ("pool", .arr views.toArray), ("frame_ok", .bool frameOk),
                    ("cells", .num (JsonNumber.fromNat h.length))])

def handle (op : String) (j : Json) : Except String Json := do
  match op with
  | "history" => runHistory (← arrOfJson (← field j "calls"))
  | "old_subdistribution" =>
    -- the negative witness, executable: marginalise with the code before d900b77
    let d ← ddictOfJson (← field j "d"); let qs ← listOfJson intOfJson (← field j "qubits")
    let h := (run [] [.litDict d, .distNew 0 true]).1
    let h' := (effectsSubPop h 2 qs).1
    pure (Json.mkObj [("before", optObsToJson (view? h 2)), ("after", optObsToJson (view? h' 2))])
  | _ => throw s!"unknown op {op}"

end OQ.C20.Driver
