import OQ.Exec.Proto
import OQ.Model.C18
open Lean OQ.Proto
namespace OQ.C18.Driver
open OQ.C18

/-! JSON glue.  Gate spec: {"gate": name, "params": [...], "m": matrix?} | {"controlled": spec, "k": k} |
    {"dagger": spec}.  Operation spec: {"g": spec, "qs": [...]} | {"other": tag, "qs": [...]}. -/

partial def gateOfJson {α : Type} (par : Json → Except String α) (j : Json) : Except String (Gate α Cyc8) := do
  match fieldOpt j "controlled" with
  | some w => pure (.controlled (← gateOfJson par w) (← natOfJson (← field j "k")))
  | none =>
    match fieldOpt j "dagger" with
    | some w => pure (.dagger (← gateOfJson par w))
    | none =>
      let name ← strOfJson (← field j "gate")
      let ps ← listOfJson par (← field j "params")
      let m ← match fieldOpt j "m" with
        | some mj => do pure (some (← matOfJson mj))
        | none => pure none
      pure (.mf name ps m)

def opOfJson {α : Type} (par : Json → Except String α) (j : Json) : Except String (Operation α Cyc8) := do
  let qs ← listOfJson natOfJson (← field j "qs")
  match fieldOpt j "other" with
  | some t => pure (.other (← strOfJson t) qs)
  | none => pure (.gate (← gateOfJson par (← field j "g")) qs)

def gateToJson {α : Type} (par : α → Json) : Gate α Cyc8 → Json
  | .mf n ps m =>
    Json.mkObj ([("gate", Json.str n), ("params", Json.arr (ps.map par).toArray)] ++
      (match m with
       | some mm => [("m", matToJson mm)]
       | none => []))
  | .controlled w k => Json.mkObj [("controlled", gateToJson par w), ("k", Json.num (JsonNumber.fromNat k))]
  | .dagger w => Json.mkObj [("dagger", gateToJson par w)]

def opToJson {α : Type} (par : α → Json) : Operation α Cyc8 → Json
  | .gate g qs => Json.mkObj [("g", gateToJson par g), ("qs", natsToJson qs)]
  | .other t qs => Json.mkObj [("other", Json.str t), ("qs", natsToJson qs)]

def angOfJson (j : Json) : Except String (OQ.Ang Cyc8) := do
  match ← arrOfJson j with
  | [c, s] => pure ⟨Cyc8.ofRat (← ratOfJson c), Cyc8.ofRat (← ratOfJson s)⟩
  | _ => throw "bad angle"

def optMat (o : Option (Mat Cyc8)) : Json :=
  match o with
  | none => Json.str "err"
  | some m => matToJson m

/-- exact comparison up to one global phase (glue for the response, not part of the model):
    "equal" / "phase" (U = p·V, |p| = 1, p ≠ 1) / "no" / "shape" -/
def phaseVerdict (U V : Mat Cyc8) : String :=
  if U.r ≠ V.r ∨ U.c ≠ V.c then "shape"
  else
    let idx := (List.range V.r).flatMap (fun i => (List.range V.c).map (fun j => (i, j)))
    match idx.find? (fun ij => V.get ij.1 ij.2 != 0) with
    | none => "no"
    | some (i, j) =>
      let p := U.get i j * (V.get i j)⁻¹
      if p * conj p != 1 then "no"
      else if Mat.beq U (Mat.smul p V) then (if p == 1 then "equal" else "phase")
      else "no"

/-! toy rules over integers for the generic chaining (`_decomposition.py` is generic in the operation type) -/

def toyPred (j : Json) : Except String (Int → Option Bool) := do
  match ← arrOfJson j with
  | [Json.str "mod", m, r] =>
    let m ← intOfJson m; let r ← intOfJson r
    pure (fun n => if m ≤ 0 then none else some (n % m == r))
  | [Json.str "gt", k] => let k ← intOfJson k; pure (fun n => some (decide (n > k)))
  | [Json.str "eq", k] => let k ← intOfJson k; pure (fun n => some (n == k))
  | [Json.str "always"] => pure (fun _ => some true)
  | [Json.str "never"] => pure (fun _ => some false)
  | [Json.str "raise"] => pure (fun _ => none)
  | _ => throw "bad toy predicate"

def toyProd (j : Json) : Except String (Int → Option (List Int)) := do
  match ← arrOfJson j with
  | [Json.str "split"] => pure (fun n => some [n / 2, n - n / 2])
  | [Json.str "dec"] => pure (fun n => some [n - 1, 1])
  | [Json.str "drop"] => pure (fun _ => some [])
  | [Json.str "dup"] => pure (fun n => some [n, n])
  | [Json.str "inc", d] => let d ← intOfJson d; pure (fun n => some [n + d])
  | [Json.str "const", l] => let l ← listOfJson intOfJson l; pure (fun _ => some l)
  | [Json.str "raise"] => pure (fun _ => none)
  | _ => throw "bad toy production"

def toyRule (j : Json) : Except String (Rule Int) := do
  pure ⟨← toyPred (← field j "pred"), ← toyProd (← field j "prod")⟩

/-! fixture rules on gate operations (parameters are opaque JSON): the harness defines the same two rules in Python
    and mixes them with the bundled rule, so that "rules are applied in the order given to the output of the previous
    rule" is exercised through `decompose_orquestra_circuit` with rules that feed each other
    (`rx` produces a U3, which the bundled rule replaces only if it comes later in the list) -/

/-- RX(theta) -> U3(theta, -pi/2, pi/2) on the same qubit; only the plain gate (name "RX") is matched -/
def rxRule : Rule (Operation Json Cyc8) :=
  ⟨fun o => match o with
     | .gate (.mf "RX" _ _) _ => some true
     | _ => some false,
   fun o => match o with
     | .gate (.mf "RX" [th] _) qs => some [.gate (.mf "U3" [th, Json.str "-pi/2", Json.str "pi/2"] none) qs]
     | _ => none⟩

/-- SWAP(a, b) -> CNOT(a, b), CNOT(b, a), CNOT(a, b) -/
def swapRule : Rule (Operation Json Cyc8) :=
  ⟨fun o => match o with
     | .gate (.mf "SWAP" _ _) _ => some true
     | _ => some false,
   fun o => match o with
     | .gate (.mf "SWAP" _ _) [a, b] =>
       some [.gate (.mf "CNOT" [] none) [a, b], .gate (.mf "CNOT" [] none) [b, a], .gate (.mf "CNOT" [] none) [a, b]]
     | _ => none⟩

/-- "rules": a number k (k copies of the bundled rule) or a list of names "u3" | "rx" | "swap" -/
def rulesOfJson (j : Json) : Except String (List (Rule (Operation Json Cyc8))) :=
  match j with
  | Json.arr a => a.toList.mapM (fun x => do
      match ← strOfJson x with
      | "u3" => pure u3Rule
      | "rx" => pure rxRule
      | "swap" => pure swapRule
      | s => throw s!"unknown rule {s}")
  | _ => do pure (List.replicate (← natOfJson j) u3Rule)

def circuitToJson {α : Type} (par : α → Json) (c : Circuit α Cyc8) : Json :=
  Json.mkObj [("ops", Json.arr (c.ops.map (opToJson par)).toArray), ("n", Json.num (JsonNumber.fromNat c.n))]

def handle (op : String) (j : Json) : Except String Json := do
  match op with
  | "decompose" =>
    -- parameters are opaque (numbers, symbols, expressions): passed through as JSON
    let ops ← listOfJson (opOfJson (α := Json) pure) (← field j "ops")
    let n ← natOfJson (← field j "n")
    let rules ← rulesOfJson (← field j "rules")
    let c : Circuit Json Cyc8 := ⟨ops, n⟩
    match decomposeCircuit rules c with
    | none => pure (Json.str "err")
    | some c' => pure (circuitToJson id c')
  | "decompose_ops" =>
    let ops ← listOfJson (opOfJson (α := Json) pure) (← field j "ops")
    let rules ← rulesOfJson (← field j "rules")
    match decomposeOperations rules ops with
    | none => pure (Json.str "err")
    | some out => pure (Json.arr (out.map (opToJson id)).toArray)
  | "rule" =>
    -- U3GateToRotation.predicate / .production called directly on one operation
    let o ← opOfJson (α := Json) pure (← field j "op")
    let p := match u3Predicate o with
      | none => Json.str "err"
      | some b => Json.bool b
    let q := match u3Production o with
      | none => Json.str "err"
      | some out => Json.arr (out.map (opToJson id)).toArray
    pure (Json.mkObj [("predicate", p), ("production", q)])
  | "unitary" =>
    let ops ← listOfJson (opOfJson angOfJson) (← field j "ops")
    let n ← natOfJson (← field j "n")
    let k ← natOfJson (← field j "rules")
    let c : Circuit (OQ.Ang Cyc8) Cyc8 := ⟨ops, n⟩
    let u := circuitUnitary OQ.Scal.cyc8 c
    match decomposeCircuit (List.replicate k u3Rule) c with
    | none => pure (Json.mkObj [("U", optMat u), ("dec", Json.str "err")])
    | some c' =>
      let u' := circuitUnitary OQ.Scal.cyc8 c'
      let verdict := match u, u' with
        | some a, some b => phaseVerdict a b
        | _, _ => "none"
      pure (Json.mkObj [("U", optMat u), ("dec", Json.str "ok"), ("n2", Json.num (JsonNumber.fromNat c'.n)),
                        ("len2", Json.num (JsonNumber.fromNat c'.ops.length)),
                        ("U2", optMat u'), ("verdict", Json.str verdict)])
  | "chain" =>
    let ops ← listOfJson intOfJson (← field j "ops")
    let rules ← listOfJson toyRule (← field j "rules")
    match decomposeOperations rules ops with
    | none => pure (Json.str "err")
    | some out => pure (intsToJson out)
  | _ => throw s!"unknown op {op}"

end OQ.C18.Driver
