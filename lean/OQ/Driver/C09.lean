import OQ.Exec.Proto
import OQ.Model.C09
open Lean OQ.Proto
namespace OQ.C09.Driver
open OQ OQ.Pauli OQ.C09

def K : Scal Cyc8 := Scal.cyc8
def T : Tol Cyc8 := Tol.exact

def opOfJson (j : Json) : Except String (Nat × P) := do
  match ← arrOfJson j with
  | [q, p] =>
    match P.ofString? (← strOfJson p) with
    | some p => pure (← natOfJson q, p)
    | none => throw "bad Pauli letter"
  | _ => throw "bad op pair"

def termOfJson (j : Json) : Except String (Term Cyc8) := do
  pure ⟨← listOfJson opOfJson (← field j "ops"), ← cycOfJson (← field j "c")⟩

def sumOfJson (j : Json) : Except String (PSum Cyc8) := listOfJson termOfJson j

/-- canonical form: operations sorted by qubit index (the order inside a Python dict/frozenset is not
    part of the operator) -/
def termToJson (t : Term Cyc8) : Json :=
  Json.mkObj [("ops", Json.arr ((sortedOps t.ops).map (fun qp =>
      Json.arr #[Json.num (JsonNumber.fromNat qp.1), Json.str qp.2.toString])).toArray),
    ("c", cycToJson t.coeff)]

def sumToJson (s : PSum Cyc8) : Json := Json.arr (s.map termToJson).toArray

def optSum (o : Option (PSum Cyc8)) : Json :=
  match o with
  | none => Json.str "err:value"
  | some s => sumToJson s

def handle (op : String) (j : Json) : Except String Json := do
  match op with
  | "sparse" =>
    let s ← sumOfJson (← field j "sum")
    let r ← match fieldOpt j "n" with
      | some nj => do pure (getSparseOperator K s (← natOfJson nj))
      | none => pure (getSparseOperatorDefault K s)
    match r with
    | none => pure (Json.str "err:value")
    | some m => pure (matToJson m)
  | "hc" =>
    let s ← sumOfJson (← field j "sum")
    pure (Json.mkObj [("hc", sumToJson (hermitianConjugated K T s)), ("herm", Json.bool (isHermitian K T s))])
  | "hc_term" =>
    let t ← termOfJson (← field j "term")
    pure (Json.mkObj [("hc", termToJson (hermitianConjugatedTerm K t)), ("herm", Json.bool (isHermitianTerm K T t))])
  | "simplify" =>
    let s ← sumOfJson (← field j "sum")
    pure (sumToJson (simplify T s))
  | "from_matrix" =>
    let m ← matOfJson (← field j "m")
    match getPauliopFromMatrix K T m with
    | .error .empty => pure (Json.str "err:index")
    | .error _ => pure (Json.str "err:exception")
    | .ok s => pure (sumToJson s)
  | "reverse" =>
    let s ← sumOfJson (← field j "sum")
    let n ← natOfJson (← field j "n")
    let once := reverseQubitOrder T s n
    let twice := match once with
      | none => none
      | some s' => reverseQubitOrder T s' n
    pure (Json.mkObj [("once", optSum once), ("twice", optSum twice)])
  | "expect" =>
    let s ← sumOfJson (← field j "sum")
    let psi ← listOfJson cycOfJson (← field j "psi")
    let rev ← boolOfJson (← field j "rev")
    match getExpectationValue K T s psi rev with
    | none => pure (Json.str "err:value")
    | some v => pure (cycToJson v)
  | "bits" =>
    let number ← natOfJson (← field j "number")
    let length ← natOfJson (← field j "length")
    let bits := dec2bin number length
    pure (Json.mkObj [("bits", natsToJson bits), ("back", natsToJson [bin2dec bits])])
  | _ => throw s!"unknown op {op}"

end OQ.C09.Driver
