import OQ.Exec.Proto
import OQ.Model.C06
open Lean OQ.Proto
namespace OQ.C06.Driver

/-! JSON glue only.  Expressions: {"n":q} {"s":name} {"add":[a,b]} {"mul":[a,b]} {"pow":[a,b]} {"fn":f,"a":e};
    params: {"py":q} (Python number) or an expression. -/

partial def exprOfJson (j : Json) : Except String PExpr := do
  if let some q := fieldOpt j "n" then return .num (← ratOfJson q)
  if let some s := fieldOpt j "s" then return .sym (← strOfJson s)
  if let some f := fieldOpt j "fn" then return .fn (← strOfJson f) (← exprOfJson (← field j "a"))
  let bin (k : String) (mk : PExpr → PExpr → PExpr) : Except String (Option PExpr) := do
    match fieldOpt j k with
    | none => pure none
    | some a => match ← arrOfJson a with
      | [x, y] => pure (some (mk (← exprOfJson x) (← exprOfJson y)))
      | _ => throw s!"{k}: expected two arguments"
  if let some e ← bin "add" .add then return e
  if let some e ← bin "mul" .mul then return e
  if let some e ← bin "pow" .pow then return e
  throw s!"bad expression {j.compress}"

def exprToJson : PExpr → Json
  | .num q => Json.mkObj [("n", ratToJson q)]
  | .sym s => Json.mkObj [("s", Json.str s)]
  | .add a b => Json.mkObj [("add", Json.arr #[exprToJson a, exprToJson b])]
  | .mul a b => Json.mkObj [("mul", Json.arr #[exprToJson a, exprToJson b])]
  | .pow a b => Json.mkObj [("pow", Json.arr #[exprToJson a, exprToJson b])]
  | .fn f a => Json.mkObj [("fn", Json.str f), ("a", exprToJson a)]

def paramOfJson (j : Json) : Except String Param := do
  if let some q := fieldOpt j "py" then return .number (← ratOfJson q)
  return .expr (← exprOfJson j)

def paramToJson : Param → Json
  | .number q => Json.mkObj [("py", ratToJson q)]
  | .expr e => exprToJson e

def mapOfJson (j : Json) : Except String SymMap :=
  listOfJson (fun p => do
    match ← arrOfJson p with
    | [k, v] => pure (← strOfJson k, ← paramOfJson v)
    | _ => throw "bad map entry") j

partial def gateOfJson (j : Json) : Except String Gate := do
  match ← strOfJson (← field j "k") with
  | "mf" =>
    let nm ← strOfJson (← field j "name")
    let ps ← listOfJson paramOfJson (← field j "params")
    let nq ← natOfJson (← field j "nq")
    let herm ← boolOfJson (← field j "herm")
    let fac ← match fieldOpt j "custom" with
      | none => pure (Factory.builtin nm)
      | some c => do
        let mat ← listOfJson (listOfJson exprOfJson) (← field c "matrix")
        let ord ← listOfJson strOfJson (← field c "ord")
        pure (Factory.custom mat ord)
    pure (.mf nm fac ps nq herm)
  | "ctrl" =>
    let n ← natOfJson (← field j "n")
    if n = 0 then throw "ControlledGate needs n >= 1"
    pure (.ctrl (← gateOfJson (← field j "g")) n)
  | "dag" => pure (.dag (← gateOfJson (← field j "g")))
  | "exp" => pure (.exp (← gateOfJson (← field j "g")))
  | "pow" => pure (.pow (← gateOfJson (← field j "g")) (← ratOfJson (← field j "e")))
  | k => throw s!"unknown gate kind {k}"

def gateToJson : Gate → Json
  | .mf nm fac ps nq herm =>
    Json.mkObj [("k", "mf"), ("name", Json.str nm), ("params", Json.arr (ps.map paramToJson).toArray),
      ("nq", Json.num (JsonNumber.fromNat nq)), ("herm", Json.bool herm),
      ("custom", match fac with
        | .builtin _ => Json.null
        | .custom mat ord => Json.mkObj [
            ("matrix", Json.arr (mat.map (fun r => Json.arr (r.map exprToJson).toArray)).toArray),
            ("ord", Json.arr (ord.map Json.str).toArray)])]
  | .ctrl g n => Json.mkObj [("k", "ctrl"), ("g", gateToJson g), ("n", Json.num (JsonNumber.fromNat n))]
  | .dag g => Json.mkObj [("k", "dag"), ("g", gateToJson g)]
  | .exp g => Json.mkObj [("k", "exp"), ("g", gateToJson g)]
  | .pow g e => Json.mkObj [("k", "pow"), ("g", gateToJson g), ("e", ratToJson e)]

def opOfJson (j : Json) : Except String Op := do
  match ← strOfJson (← field j "op") with
  | "gate" => pure (.gate (← gateOfJson (← field j "g")) (← listOfJson natOfJson (← field j "q")))
  | "mp" => pure (.multiPhase (← listOfJson paramOfJson (← field j "params")))
  | "reset" => pure (.reset (← natOfJson (← field j "q")))
  | k => throw s!"unknown op kind {k}"

def opToJson : Op → Json
  | .gate g qs => Json.mkObj [("op", "gate"), ("g", gateToJson g), ("q", natsToJson qs)]
  | .multiPhase ps => Json.mkObj [("op", "mp"), ("params", Json.arr (ps.map paramToJson).toArray)]
  | .reset q => Json.mkObj [("op", "reset"), ("q", Json.num (JsonNumber.fromNat q))]

def errToJson : Err → Json
  | .notimpl => Json.str "err:notimpl"
  | .value => Json.str "err:value"
  | .type => Json.str "err:type"

def strsToJson (l : List String) : Json := Json.arr (l.map Json.str).toArray

def pointOfJson (j : Json) : Except String (String → Option Rat) := do
  let l ← listOfJson (fun p => do
    match ← arrOfJson p with
    | [k, v] => pure (← strOfJson k, ← ratOfJson v)
    | _ => throw "bad point entry") j
  pure (fun s => (l.find? (fun kv => kv.1 == s)).map (fun kv => kv.2))

def optRatToJson : Option Rat → Json
  | some q => ratToJson q
  | none => Json.null

def valsToJson (pts : List (String → Option Rat)) (pss : List (List Param)) : Json :=
  Json.arr (pts.map (fun ρ =>
    Json.arr (pss.map (fun ps => Json.arr (ps.map (fun p => optRatToJson (p.eval ratAlg ρ))).toArray)).toArray)).toArray

def circuitToJson (pts : List (String → Option Rat)) (c : Circuit) : Json :=
  Json.mkObj [("ops", Json.arr (c.ops.map opToJson).toArray), ("n", Json.num (JsonNumber.fromNat c.nQubits)),
    ("free_ops", Json.arr (c.ops.map (fun o => strsToJson o.freeSymbols)).toArray),
    ("free", strsToJson c.freeSymbols),
    ("vals", valsToJson pts (c.ops.map Op.params))]

def resCircuitToJson (pts : List (String → Option Rat)) : Res Circuit → Json
  | .ok c => circuitToJson pts c
  | .err e => errToJson e

/-- the innermost factory gate -/
def innermost : Gate → Gate
  | .ctrl g _ => innermost g
  | .dag g => innermost g
  | .exp g => innermost g
  | .pow g _ => innermost g
  | g => g

def entriesJson (pts : List (String → Option Rat)) (g : Gate) : List (String × Json) :=
  match innermost g with
  | .mf _ (.custom mat ord) ps _ _ =>
    let es := customEntries mat ord ps
    [("entries", Json.arr (es.map (fun r => Json.arr (r.map exprToJson).toArray)).toArray),
     ("entry_vals", Json.arr (pts.map (fun ρ =>
        Json.arr (es.map (fun r => Json.arr (r.map (fun e => optRatToJson (eval ratAlg ρ e))).toArray)).toArray)).toArray)]
  | _ => []

def gateResToJson (pts : List (String → Option Rat)) : Res Gate → Json
  | .ok g => Json.mkObj ([("g", gateToJson g), ("free", strsToJson g.freeSymbols),
      ("vals", valsToJson pts [g.params])] ++ entriesJson pts g)
  | .err e => errToJson e

def handle (op : String) (j : Json) : Except String Json := do
  match op with
  | "circuit" =>
    let ops ← listOfJson opOfJson (← field j "ops")
    let n ← natOfJson (← field j "n")
    let m ← mapOfJson (← field j "map")
    let pts ← match fieldOpt j "points" with
      | some p => listOfJson pointOfJson p
      | none => pure []
    let c := mkCircuit ops n
    let base := [("n", Json.num (JsonNumber.fromNat c.nQubits)),
      ("free_ops", Json.arr (c.ops.map (fun o => strsToJson o.freeSymbols)).toArray),
      ("free", strsToJson c.freeSymbols),
      ("bound", resCircuitToJson pts (c.bind m))]
    let extra ← match fieldOpt j "map2" with
      | none => pure []
      | some m2j => do
        let m2 ← mapOfJson m2j
        pure [("step", resCircuitToJson pts ((c.bind m).bind (Circuit.bind m2))),
              ("once", resCircuitToJson pts (c.bind (m ++ m2)))]
    pure (Json.mkObj (base ++ extra))
  | "gate" =>
    let g ← gateOfJson (← field j "g")
    let m ← mapOfJson (← field j "map")
    let pts ← match fieldOpt j "points" with
      | some p => listOfJson pointOfJson p
      | none => pure []
    let base := [("free", strsToJson g.freeSymbols),
      ("params", Json.arr (g.params.map paramToJson).toArray),
      ("bound", gateResToJson pts (g.bind m))]
    let extra ← match fieldOpt j "new_params" with
      | none => pure []
      | some pj => do
        let ps ← listOfJson paramOfJson pj
        pure [("replaced", gateResToJson pts (g.replaceParams ps))]
    pure (Json.mkObj (base ++ extra))
  | "free" =>
    let ops ← listOfJson opOfJson (← field j "ops")
    let c : Circuit := ⟨ops, 0⟩
    pure (Json.mkObj [("free_ops", Json.arr (ops.map (fun o => strsToJson o.freeSymbols)).toArray),
                      ("free", strsToJson c.freeSymbols)])
  | _ => throw s!"unknown op {op}"

end OQ.C06.Driver
