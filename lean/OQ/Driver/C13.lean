import OQ.Exec.Proto
import OQ.Model.C13
open Lean OQ.Proto
namespace OQ.C13.Driver

def countsOfJson (j : Json) : Except String Counts := do
  (← arrOfJson j).mapM (fun p => do
    match ← arrOfJson p with
    | [k, v] => pure (← strOfJson k, ← natOfJson v)
    | _ => throw "bad count pair")

def countsToJson (c : Counts) : Json :=
  .arr (c.map (fun p => Json.arr #[Json.str p.1, Json.num (JsonNumber.fromNat p.2)])).toArray

def handle (op : String) (j : Json) : Except String Json := do
  match op with
  | "expand" =>
    let n ← intOfJson (← field j "n"); let m ← intOfJson (← field j "m")
    let (l, k) := expandSampleSize n m
    pure (Json.mkObj [("ns", intsToJson l), ("mult", intsToJson [k])])
  | "expand_sizes" =>
    let cs ← listOfJson natOfJson (← field j "circuits")
    let ns ← listOfJson intOfJson (← field j "ns"); let m ← intOfJson (← field j "m")
    let (c', n', mu) := expandSampleSizes cs ns m
    pure (Json.mkObj [("circuits", natsToJson c'), ("ns", intsToJson n'), ("mults", intsToJson mu)])
  | "combine_bitstrings" =>
    let all ← listOfJson (listOfJson strOfJson) (← field j "all")
    let mults ← listOfJson natOfJson (← field j "mults")
    match combineBitstrings all mults with
    | none => pure (Json.str "err:value")
    | some r => pure (Json.arr (r.map (fun g => Json.arr (g.map Json.str).toArray)).toArray)
  | "combine_counts" =>
    let all ← listOfJson countsOfJson (← field j "all")
    let mults ← listOfJson natOfJson (← field j "mults")
    match combineCounts all mults with
    | none => pure (Json.str "err")
    | some r => pure (Json.arr (r.map countsToJson).toArray)
  | "batches" =>
    let cs ← listOfJson natOfJson (← field j "circuits")
    let ns ← listOfJson intOfJson (← field j "ns"); let mb ← intOfJson (← field j "max")
    match splitIntoBatches cs ns mb with
    | none => pure (Json.str "err:value")
    | some bs => pure (Json.arr (bs.map (fun b => Json.arr #[natsToJson b.1, intsToJson [b.2]])).toArray)
  | "scale" =>
    let vs ← listOfJson ratOfJson (← field j "values"); let t ← intOfJson (← field j "total")
    let order ← listOfJson natOfJson (← field j "order")
    pure (Json.mkObj [("floors", intsToJson (shareFloors vs t)),
                      ("remainders", ratsToJson (shareRemainders vs t)),
                      ("result", intsToJson (scaleAndDiscretize vs t order))])
  | "representing" =>
    let dist ← listOfJson (fun p => do
      match ← arrOfJson p with
      | [k, v] => pure (← strOfJson k, ← ratOfJson v)
      | _ => throw "bad dist pair") (← field j "dist")
    let n ← intOfJson (← field j "n")
    let extra ← countsOfJson (← field j "extra")
    pure (Json.mkObj [("base", Json.arr ((roundedSamples dist n).map Json.str).toArray),
                      ("result", Json.arr ((representing dist n extra).map Json.str).toArray)])
  | "representing_check" =>
    -- glue: recover what the random stage drew from the implementation's result, then re-run the model
    let dist ← listOfJson (fun p => do
      match ← arrOfJson p with
      | [k, v] => pure (← strOfJson k, ← ratOfJson v)
      | _ => throw "bad dist pair") (← field j "dist")
    let n ← intOfJson (← field j "n")
    let result ← listOfJson strOfJson (← field j "result")
    let base := roundedSamples dist n
    let keys := (dist.map (fun p => p.1))
    let diff (xs ys : List String) : List (String × Nat) :=
      (keys.map (fun k => (k, xs.count k - ys.count k))).filter (fun p => p.2 > 0)
    let extra := if (base.length : Int) < n then diff result base else diff base result
    let total := (extra.map (fun p => p.2)).sum
    let m := representing dist n extra
    let sameMultiset := keys.all (fun k => m.count k == result.count k) && m.length == result.length
    let drawOk := (total : Int) == (n - base.length).natAbs
    let presentOk := extra.all (fun p => (base.length : Int) ≤ n || p.2 ≤ base.count p.1)
    let suppOk := extra.all (fun p => dist.any (fun q => q.1 == p.1 && q.2 > 0))
    pure (Json.mkObj [("ok", Json.bool (sameMultiset && drawOk && presentOk && suppOk)),
                      ("base", Json.arr (base.map Json.str).toArray),
                      ("extra", countsToJson extra), ("draw_ok", Json.bool drawOk),
                      ("present_ok", Json.bool presentOk), ("support_ok", Json.bool suppOk)])
  | _ => throw s!"unknown op {op}"

end OQ.C13.Driver
