import OQ.Exec.Proto
import OQ.Model.C16
open Lean OQ.Proto
namespace OQ.C16.Driver
open OQ.Pauli

def timeOfJson (j : Json) : Except String (Rat × Rat) := do
  match ← arrOfJson j with
  | [a, b] => pure (← ratOfJson a, ← ratOfJson b)
  | _ => throw "bad time"

def timeToJson (t : Rat × Rat) : Json := .arr #[ratToJson t.1, ratToJson t.2]

def termOfJson (j : Json) : Except String (Term (Rat × Rat)) := do
  let ops ← (← arrOfJson (← field j "ops")).mapM (fun p => do
    match ← arrOfJson p with
    | [q, s] =>
      match P.ofString? (← strOfJson s) with
      | some op => pure (← natOfJson q, op)
      | none => throw "bad pauli"
    | _ => throw "bad op")
  match ← arrOfJson (← field j "coeff") with
  | [re, im] => pure ⟨ops, (← ratOfJson re, ← ratOfJson im)⟩
  | _ => throw "bad coeff"

def gateToJson (o : GOp (Rat × Rat)) : Json :=
  let (name, p) : String × Json := match o.g with
    | .H => ("H", Json.null) | .CNOT => ("CNOT", Json.null)
    | .RX θ => ("RX", timeToJson θ) | .RZ θ => ("RZ", timeToJson θ)
    | .RXdg θ => ("RX_Dagger", timeToJson θ) | .RZdg θ => ("RZ_Dagger", timeToJson θ)
  .arr #[Json.str name, p, natsToJson o.qs]

def circToJson (c : Circ (Rat × Rat)) : Json := .arr (c.map gateToJson).toArray

def gateOfJson (j : Json) : Except String (GOp (Rat × Rat)) := do
  match ← arrOfJson j with
  | [nm, p, qs] =>
    let qs ← listOfJson natOfJson qs
    match ← strOfJson nm with
    | "H" => pure ⟨.H, qs⟩
    | "CNOT" => pure ⟨.CNOT, qs⟩
    | "RX" => pure ⟨.RX (← timeOfJson p), qs⟩
    | "RZ" => pure ⟨.RZ (← timeOfJson p), qs⟩
    | "RX_Dagger" => pure ⟨.RXdg (← timeOfJson p), qs⟩
    | "RZ_Dagger" => pure ⟨.RZdg (← timeOfJson p), qs⟩
    | s => throw s!"bad gate {s}"
  | _ => throw "bad gate"

def errToJson : Err → Json
  | .value => Json.str "err:value"
  | .zerodiv => Json.str "err:zerodiv"

def angles (c : Circ (Rat × Rat)) : List (Rat × Rat) :=
  c.filterMap (fun o => match o.g with
    | .RX θ | .RZ θ | .RXdg θ | .RZdg θ => some θ
    | _ => none)

/-- the unitary at Cyc8, `none`-as-string when an angle is not evaluable or the lift fails -/
def unitaryOf (base : Ang Cyc8) (n : Nat) (c : Circ (Rat × Rat)) : Except String (Mat Cyc8) := do
  if !(angles c).all (fun θ => (evalAng base θ).isSome) then throw "angle not evaluable at the base point"
  match unitary Scal.cyc8 (fun θ => (evalAng base θ).getD Ang.zero) n c with
  | some m => pure m
  | none => throw "lift failed"

def baseOfJson (j : Json) : Except String (Ang Cyc8) := do
  match ← arrOfJson j with
  | [c, s] => pure ⟨Cyc8.ofRat (← ratOfJson c), Cyc8.ofRat (← ratOfJson s)⟩
  | _ => throw "bad base"

def withUnitary (j : Json) (c : Circ (Rat × Rat)) : Except String Json := do
  match fieldOpt j "base", fieldOpt j "n" with
  | some b, some n =>
    let u ← unitaryOf (← baseOfJson b) (← natOfJson n) c
    pure (Json.mkObj [("circuit", circToJson c), ("unitary", matToJson u)])
  | _, _ => pure (Json.mkObj [("circuit", circToJson c)])

def handle (op : String) (j : Json) : Except String Json := do
  match op with
  | "term" =>
    let t ← termOfJson (← field j "term")
    let time ← timeOfJson (← field j "time")
    match evolutionForTerm ratAlg ratNegl t time with
    | .error e => pure (errToJson e)
    | .ok c => withUnitary j c
  | "evolution" =>
    let h ← listOfJson termOfJson (← field j "terms")
    let time ← timeOfJson (← field j "time")
    let n ← natOfJson (← field j "steps")
    match timeEvolution ratAlg ratNegl h time n with
    | .error e => pure (errToJson e)
    | .ok c => withUnitary j c
  | "derivatives" =>
    let h ← listOfJson termOfJson (← field j "terms")
    let time ← timeOfJson (← field j "time")
    let n ← natOfJson (← field j "steps")
    match derivatives ratAlg ratNegl h time n with
    | .error e => pure (errToJson e)
    | .ok l =>
      let base := [("factors", ratsToJson (l.map (·.1))), ("circuits", Json.arr (l.map (fun p => circToJson p.2)).toArray)]
      match fieldOpt j "base", fieldOpt j "n", fieldOpt j "obs", fieldOpt j "psi" with
      | some b, some nq, some o, some psi =>
        let b ← baseOfJson b
        let nq ← natOfJson nq
        let o ← matOfJson o
        let psi ← listOfJson cycOfJson psi
        let v := Mat.ofLists (psi.map (fun x => [x]))
        let vals ← l.mapM (fun p => do
          let u ← unitaryOf b nq p.2
          pure (Cyc8.ofRat p.1 * expectation Scal.cyc8 o u v))
        let total := vals.foldl (· + ·) (0 : Cyc8)
        pure (Json.mkObj (base ++ [("value", cycToJson total)]))
      | _, _, _, _ => pure (Json.mkObj base)
  | "sequence" =>
    let r ← listOfJson gateOfJson (← field j "repeated")
    let d ← listOfJson gateOfJson (← field j "different")
    let len ← natOfJson (← field j "length")
    let pos ← natOfJson (← field j "position")
    match generateCircuitSequence r d len pos with
    | .error e => pure (errToJson e)
    | .ok c => pure (circToJson c)
  | _ => throw s!"unknown op {op}"

end OQ.C16.Driver
