/- JSON glue for the Python prelude (`OQ/Exec/Py.lean`): lets the harness compare every prelude function with the CPython
   built-in it stands for (`harness/prelude_check.py`). -/
import OQ.Exec.Proto
import OQ.Exec.Py
import OQ.Exec.PyT18  -- --- T18
open Lean OQ.Proto
namespace OQ.PY.Driver
open OQ.Py

def strJ (s : Str) : Json := Json.str (String.ofList s)
def strOf (j : Json) : Except String Str := do pure (← strOfJson j).toList
def intJ (n : Int) : Json := Json.str (toString n)

-- --- T2 helpers
def optJ {α : Type} (f : α → Json) : Option α → Json
  | none => Json.null
  | some a => f a
def entryOf (j : Json) : Except String (String × Int) := do
  match (← arrOfJson j) with
  | [k, v] => pure (← strOfJson k, ← intOfJson v)
  | _ => throw "expected [key, value]"
-- --- end T2

-- --- T6: glue for the T6 prelude functions
def excJ (e : Exc) : Json := Json.str (match e with
  | .ValueError => "ValueError" | .TypeError => "TypeError" | .KeyError => "KeyError"
  | .NotImplementedError => "NotImplementedError" | .IndexError => "IndexError" | .OutOfFuel => "OutOfFuel")
def iosJ : IntOrStr → Json
  | .int n => Json.mkObj [("i", intJ n)]
  | .str s => Json.mkObj [("s", strJ s)]
def iosOf (j : Json) : Except String IntOrStr :=
  match j.getObjVal? "i" with
  | .ok v => do pure (.int (← intOfJson v))
  | .error _ => do pure (.str (← strOf (← field j "s")))
def ordJ : Option Ordering → Json
  | some .lt => "lt" | some .eq => "eq" | some .gt => "gt" | none => "TypeError"
-- --- end T6

-- --- T4 helper
def excJ4 {α : Type} (f : α → Json) : Except Exc4 α → Json
  | .ok a => Json.mkObj [("ok", f a)]
  | .error e => Json.mkObj [("err", Json.str (match e with
      | .runtime => "runtime" | .value => "value" | .index => "index" | .key => "key" | .type => "type" | .zeroDiv => "zeroDiv"))]
-- --- end T4

-- --- T7 helpers: dicts with int keys and small str values, dicts keyed by `frozenset(d.items())`
def t7ent (j : Json) : Except String (Int × String) := do
  match (← arrOfJson j) with
  | [k, v] => pure (← intOfJson k, ← strOfJson v)
  | _ => throw "expected [key, value]"
def t7dictJ (d : Dict Int String) : Json := Json.arr (d.map (fun p => Json.arr #[intJ p.1, Json.str p.2])).toArray
def t7ins (p : Int × String) : List (Int × String) → List (Int × String)
  | [] => [p]
  | q :: qs => if p.1 ≤ q.1 then p :: q :: qs else q :: t7ins p qs
/-- a `frozenset(d.items())` key printed with its items sorted by the (distinct) dict keys -/
def t7frozenJ (k : FrozenItems Int String) : Json := t7dictJ (k.foldr t7ins [])
-- --- end T7

-- --- T9 helpers
def excOr9 {α : Type} (f : α → Json) : Except Exc α → Json
  | .ok a => Json.mkObj [("ok", f a)]
  | .error e => Json.mkObj [("exc", excJ e)]
def numJ (z : Num) : Json :=
  match z with
  | .real x => Json.mkObj [("re", ratToJson x)]
  | .cplx r i => Json.mkObj [("re", ratToJson r), ("im", ratToJson i)]
def numOf (j : Json) : Except String Num := do
  match j.getObjVal? "im" with
  | .ok v => pure (.cplx (← ratOfJson (← field j "re")) (← ratOfJson v))
  | .error _ => pure (.real (← ratOfJson (← field j "re")))
-- --- end T9

def handle (op : String) (j : Json) : Except String Json := do
  match op with
  | "bin" => pure (strJ (bin (← intOfJson (← field j "n"))))
  | "str" => pure (strJ (strOfInt (← intOfJson (← field j "n"))))
  | "zfill" => pure (strJ (zfill (← strOf (← field j "s")) (← intOfJson (← field j "w"))))
  | "int2" => pure (intJ (intBase2 (← strOf (← field j "s"))))
  | "digit" => match ← strOf (← field j "s") with
    | [c] => pure (intJ (charDigit c))
    | _ => throw "digit expects one character"
  | "join" => pure (strJ (join (← strOf (← field j "sep")) (← listOfJson strOf (← field j "parts"))))
  | "slice" =>
    let xs ← listOfJson intOfJson (← field j "xs")
    let a ← intOfJson (← field j "a"); let b ← intOfJson (← field j "b")
    pure (Json.mkObj [("from", intsToJson (sliceFrom xs a)), ("to", intsToJson (sliceTo xs b)),
                      ("both", intsToJson (slice xs a b))])
  | "bits" =>
    let a ← intOfJson (← field j "a"); let b ← intOfJson (← field j "b")
    pure (Json.mkObj [("and", intJ (land a b)), ("or", intJ (lor a b)), ("shr", intJ (shr a b)),
                      ("lowbit", intJ (lowbit a)), ("sum", intJ (OQ.Py.sum [a, b, a])),
                      ("fdiv", intJ (Int.fdiv a b)), ("fmod", intJ (Int.fmod a b))])
  -- --- T2: iterators, loops that may raise, reduce / max, count dictionaries (see OQ/Exec/Py.lean)
  | "t2_islice" =>
    let xs ← listOfJson intOfJson (← field j "xs"); let k ← intOfJson (← field j "k")
    pure (match islice (iter xs) k with
      | none => Json.null
      | some (t, r) => Json.arr #[intsToJson t, intsToJson r])
  | "t2_while" =>
    -- `while n > 0: n -= d; c += 1` with a bound on the number of test evaluations
    let n ← intOfJson (← field j "n"); let d ← intOfJson (← field j "d"); let fuel ← natOfJson (← field j "fuel")
    pure (match whileFuel (fun (st : Int × Int) => if st.1 > 0 then some (true, (st.1 - d, st.2 + 1)) else some (false, st)) fuel (n, 0) with
      | none => Json.null
      | some st => Json.arr #[intJ st.1, intJ st.2])
  | "t2_loops" =>
    -- xs: ints; a negative entry makes the loop body raise
    let xs ← listOfJson intOfJson (← field j "xs"); let ms ← listOfJson intOfJson (← field j "ms")
    let fo := foldlOpt (fun (acc : Int) (x : Int) => if x < 0 then none else some (2 * acc + x)) 1 xs
    let mo := mapOpt (fun (x : Int) => if x < 0 then none else some (x * x)) xs
    let ma := mapAccumOpt (fun (it : Iter Int) (m : Int) => (islice it m).bind (fun r => some (OQ.Py.sum r.1, r.2))) (iter xs) ms
    pure (Json.mkObj [("fold", optJ intJ fo), ("map", optJ intsToJson mo),
                      ("accum", optJ (fun (r : List Int × List Int) => Json.arr #[intsToJson r.1, intsToJson r.2]) ma)])
  | "t2_reduce" =>
    let xs ← listOfJson intOfJson (← field j "xs")
    pure (Json.mkObj [("reduce", optJ intJ (reduce1 (fun a b => 3 * a - b) xs)), ("max", optJ intJ (maxList xs)),
                      ("min", optJ intJ (minList xs))])
  | "t2_sumlists" =>
    let xss ← listOfJson (listOfJson intOfJson) (← field j "xss")
    pure (intsToJson (sumLists xss))
  | "t2_counter" =>
    -- d: [[key, value]…]; ops: [[kind, key, value]…] with kind "add" (c[k] += v) or "set" (c[k] = v); probes: keys read with c[k]
    let d ← listOfJson entryOf (← field j "d")
    let ops ← listOfJson (fun o => do
      match (← arrOfJson o) with
      | [kind, k, v] => pure (← strOfJson kind, ← strOfJson k, ← intOfJson v)
      | _ => throw "bad op") (← field j "ops")
    let probes ← listOfJson strOfJson (← field j "probes")
    let c : Counter String := ops.foldl (fun c o =>
      if o.1 == "add" then dictSet c o.2.1 (counterGet c o.2.1 + o.2.2) else dictSet c o.2.1 o.2.2) (counterOfDict d)
    pure (Json.mkObj [("items", Json.arr ((dictItems (dictOfCounter c)).map (fun p => Json.arr #[Json.str p.1, intJ p.2])).toArray),
                      ("gets", Json.arr (probes.map (fun k => intJ (counterGet c k))).toArray)])
  | "t2_formatb" => pure (strJ (formatB (← intOfJson (← field j "n"))))
  -- --- end T2
  -- --- T6
  | "resplit" => pure (Json.arr ((reSplitDigits (← strOf (← field j "s"))).map strJ).toArray)
  | "isdigit" => pure (Json.bool (isdigit (← strOf (← field j "s"))))
  | "intdigits" => pure (intJ (intOfDigits (← strOf (← field j "s"))))
  | "splitchar" => match ← strOf (← field j "c") with
    | [c] => pure (Json.arr ((splitChar (← strOf (← field j "s")) c).map strJ).toArray)
    | _ => throw "splitchar expects a one-character separator"
  | "intparse" => match intParse (← strOf (← field j "s")) with
    | .ok v => pure (intJ v)
    | .error e => pure (excJ e)
  | "dictget" =>
    let ps ← listOfJson (fun p => do
      match (← arrOfJson p) with
      | [a, b] => pure ((← strOf a), (← intOfJson b))
      | _ => throw "pair expected") (← field j "pairs")
    match dictGet (ps : Dict Str Int) (← strOf (← field j "k")) with
    | .ok v => pure (intJ v)
    | .error e => pure (excJ e)
  | "reduce" => match reduce (fun (a b : Int) => 2 * a - b) (← listOfJson intOfJson (← field j "xs")) with
    | .ok v => pure (intJ v)
    | .error e => pure (excJ e)
  | "cmpkeys" => pure (ordJ (cmpKeys (← listOfJson iosOf (← field j "a")) (← listOfJson iosOf (← field j "b"))))
  -- --- end T6
  -- --- T4: exceptions with their class, abstract numeric values (run at Rat), dicts with numeric values, str helpers
  | "t4_int" => pure (excJ4 intJ (intOfStr (← strOf (← field j "s"))))
  | "t4_split" => match ← strOf (← field j "sep") with
    | [c] => pure (Json.arr (((split1 c (← strOf (← field j "s"))).map strJ).toArray))
    | _ => throw "one-character separator expected"
  | "t4_list" =>
    let xs ← listOfJson intOfJson (← field j "xs"); let i ← intOfJson (← field j "i")
    pure (Json.mkObj [("index", excJ4 intJ (indexE xs i)), ("max", excJ4 intJ (maxListE xs)), ("lenset", intJ (lenSet xs)),
                      ("counter", Json.arr ((counterOfList xs).map (fun p => Json.arr #[intJ p.1, intJ p.2])).toArray),
                      ("rep", intsToJson ((List.replicate (Int.toNat i) xs).flatten)),
                      ("chars", Json.arr ((strChars ((xs.map (fun x => digitChar x.toNat)))).map strJ).toArray)])
  | "t4_num" =>
    let a ← ratOfJson (← field j "a"); let b ← ratOfJson (← field j "b")
    let m ← intOfJson (← field j "m"); let n ← intOfJson (← field j "n")
    let xs ← listOfJson ratOfJson (← field j "xs")
    pure (Json.mkObj [("div", excJ4 ratToJson (divE a b)), ("divint", excJ4 ratToJson (divIntE (ν := Rat) m n)),
                      ("sum", ratToJson (sumNum xs)), ("add", ratToJson (a + ((m : Int) : Rat))), ("mul", ratToJson (a * b)),
                      ("sub", ratToJson (a - b)),
                      ("eq", Json.bool (PyNum.toBEq.beq a b)), ("le", Json.bool (PyNum.le a b)), ("lt", Json.bool (PyNum.lt a b))])
  | "t4_isclose" => pure (Json.bool (ratIsClose (← ratOfJson (← field j "a")) (← ratOfJson (← field j "b"))))
  | "t4_dict" =>
    -- d: [[key, value]…] (int-tuple keys, rational values); ops: [[kind, key, value]…] with "set" (d[k] = v), "mul" (d[k] *= v: KeyError
    -- aborts), "acc" (d[k] = v + d.get(k, 0)); probes: keys read with d[k] and d.get(k, 5)
    let ent (o : Json) : Except String (List Int × Rat) := do
      match (← arrOfJson o) with
      | [k, v] => pure (← listOfJson intOfJson k, ← ratOfJson v)
      | _ => throw "bad entry"
    let d ← listOfJson ent (← field j "d")
    let ops ← listOfJson (fun o => do
      match (← arrOfJson o) with
      | [kind, k, v] => pure (← strOfJson kind, ← listOfJson intOfJson k, ← ratOfJson v)
      | _ => throw "bad op") (← field j "ops")
    let probes ← listOfJson (listOfJson intOfJson) (← field j "probes")
    let r : Except Exc4 (Dict (List Int) Rat) := foldlE (fun (d : Dict (List Int) Rat) o =>
      if o.1 == "set" then .ok (dictSet d o.2.1 o.2.2)
      else if o.1 == "mul" then (dictGetE d o.2.1).bind (fun old => .ok (dictSet d o.2.1 (old * o.2.2)))
      else .ok (dictSet d o.2.1 (o.2.2 + dictGetD d o.2.1 ((0 : Int) : Rat)))) d ops
    let dJ (d : Dict (List Int) Rat) : Json := Json.arr (d.map (fun p => Json.arr #[intsToJson p.1, ratToJson p.2])).toArray
    pure (excJ4 (fun d => Json.mkObj [("items", dJ d), ("keys", Json.arr ((dictKeys d).map intsToJson).toArray),
        ("values", Json.arr ((dictValues d).map ratToJson).toArray),
        ("tupkeys", Json.num ((dictTupKeys d).length : Nat)),
        ("gets", Json.arr (probes.map (fun k => excJ4 ratToJson (dictGetE d k))).toArray),
        ("getds", Json.arr (probes.map (fun k => ratToJson (dictGetD d k 5))).toArray)]) r)
  | "t4_map" =>
    -- [int(s) for s in parts]: the first failure aborts
    pure (excJ4 intsToJson (mapE intOfStr (← listOfJson strOf (← field j "parts"))))
  -- --- end T4
  -- --- T14: list item assignment / remove, abs
  | "t14_list" =>
    let xs ← listOfJson intOfJson (← field j "xs"); let i ← intOfJson (← field j "i"); let v ← intOfJson (← field j "v")
    pure (Json.mkObj [("set", excJ4 intsToJson ((indexE xs i).bind (fun _ => .ok (listSet xs i v)))),
                      ("remove", excJ4 intsToJson (listRemoveE xs v)), ("abs", intJ (absInt i))])
  | "t14_abs" => pure (ratToJson (absNum (← ratOfJson (← field j "a"))))
  -- --- end T14
  -- --- T7: `k in d`, `d.get(k)`, `del d[k]`, `frozenset(d.items())` equality and dicts keyed by such frozensets, `set(xs)`, set
  -- equality, `max` (see the T7 block of OQ/Exec/Py.lean; `ofOption` is a plain case distinction and is not compared)
  | "t7_dict" =>
    let d ← listOfJson t7ent (← field j "d"); let k ← intOfJson (← field j "k")
    pure (Json.mkObj [("has", Json.bool (dictHas d k)), ("find", optJ Json.str (dictFind? d k)),
                      ("del", excJ4 t7dictJ (dictDelE d k))])
  | "t7_frozen" =>
    let d ← listOfJson t7ent (← field j "d"); let e ← listOfJson t7ent (← field j "e")
    pure (Json.bool (frozenItemsEq (d : FrozenItems Int String) e))
  | "t7_fdict" =>
    -- ops: [[kind, dict, value]…] on a dict D keyed by frozenset(dict.items()): "set" is D[key] = v, "acc" is
    -- `if key in D: D[key] = D[key] + v  else: D[key] = v`; probes: dicts whose frozenset is looked up with `in` and `D[key]`
    let ops ← listOfJson (fun o => do
      match (← arrOfJson o) with
      | [kind, k, v] => pure (← strOfJson kind, ← listOfJson t7ent k, ← intOfJson v)
      | _ => throw "bad op") (← field j "ops")
    let probes ← listOfJson (listOfJson t7ent) (← field j "probes")
    let r : Except Exc4 (Dict (FrozenItems Int String) Int) := foldlE (fun (D : Dict (FrozenItems Int String) Int) o =>
      if o.1 == "acc" && dictHasBy frozenItemsEq D o.2.1 then
        (dictGetByE frozenItemsEq D o.2.1).bind (fun old => .ok (dictSetBy frozenItemsEq D o.2.1 (old + o.2.2)))
      else .ok (dictSetBy frozenItemsEq D o.2.1 o.2.2)) [] ops
    pure (excJ4 (fun D => Json.mkObj [
        ("items", Json.arr (D.map (fun p => Json.arr #[t7frozenJ p.1, intJ p.2])).toArray),
        ("has", Json.arr (probes.map (fun k => Json.bool (dictHasBy frozenItemsEq D k))).toArray),
        ("gets", Json.arr (probes.map (fun k => excJ4 intJ (dictGetByE frozenItemsEq D k))).toArray)]) r)
  | "t7_set" =>
    let xs ← listOfJson natOfJson (← field j "xs"); let ys ← listOfJson natOfJson (← field j "ys")
    let natsJ (l : List Nat) : Json := Json.arr (l.map (fun (n : Nat) => intJ n)).toArray
    pure (Json.mkObj [("set", natsJ (setOfList xs)), ("eq", Json.bool (setEq (setOfList xs) (setOfList ys))),
                      ("max", excJ4 (fun (n : Nat) => intJ n) (maxNatE xs)),
                      ("maxset", excJ4 (fun (n : Nat) => intJ n) (maxNatE (setOfList xs)))])
  -- --- end T7
  -- --- T9: numbers that may be complex, str helpers, the two regular expressions of the Pauli term parser, dict(pairs), indexing
  | "t9_num" =>
    let a ← numOf (← field j "a"); let b ← numOf (← field j "b")
    pure (Json.mkObj [("add", numJ (Num.add a b)), ("mul", numJ (Num.mul a b)), ("jmul", numJ (Num.mul Num.j a)),
                      ("re", ratToJson a.re), ("im", ratToJson a.im), ("iscomplex", Json.bool a.isComplex),
                      ("truthy", Json.bool a.truthy)])
  | "t9_str" =>
    let s ← strOf (← field j "s"); let p ← strOf (← field j "p")
    pure (Json.mkObj [("startswith", Json.bool (startswith s p)), ("endswith", Json.bool (endswith s p)),
                      ("replace", strJ (replaceChar s ' ' p)), ("strip", strJ (stripChars s p)), ("upper", strJ (upperAscii s)),
                      ("resplit", Json.arr ((reSplitStar s).map strJ).toArray),
                      ("rematch", match reMatchPauliIndex s with
                        | some g => Json.arr #[strJ g.1, strJ g.2]
                        | none => Json.null)])
  | "t9_dict" =>
    let ps ← listOfJson (fun p => do
      match (← arrOfJson p) with
      | [a, b] => pure ((← intOfJson a), (← strOf b))
      | _ => throw "pair expected") (← field j "pairs")
    let i ← intOfJson (← field j "i")
    pure (Json.mkObj [("dict", Json.arr ((dictOfPairs ps).map (fun p => Json.arr #[intJ p.1, strJ p.2])).toArray),
                      ("index", excOr9 (fun (p : Int × Str) => Json.arr #[intJ p.1, strJ p.2]) (indexExc ps i)),
                      ("map", excOr9 (fun l => Json.arr (l.map intJ).toArray) (mapExc (fun (p : Int × Str) => intParse p.2) ps)),
                      ("fold", excOr9 intJ (foldlExc (fun (acc : Int) (p : Int × Str) =>
                        (intParse p.2).bind (fun v => .ok (acc * 3 + v + p.1))) 1 ps))])
  -- --- end T9
  -- --- T19: `str.strip()`, the sum-splitting regular expression
  | "t19_text" =>
    let s ← strOf (← field j "s")
    pure (Json.mkObj [("strip", strJ (stripWs s)), ("resplit", Json.arr ((reSplitPlus s).map strJ).toArray)])
  | "t19_hset" =>
    let dec := fun (o : Json) => do
      match (← arrOfJson o) with
      | [h, c] => pure ((← intOfJson h), (← intOfJson c))
      | _ => throw "pair expected"
    let xs ← listOfJson dec (← field j "xs"); let ys ← listOfJson dec (← field j "ys")
    let hf := fun (p : Int × Int) => p.1
    let ef := fun (p q : Int × Int) => p.2 == q.2
    pure (Json.mkObj [("len", intJ ((setOfHashables hf ef xs).length : Int)),
                      ("eq", Json.bool (setEqHashables hf ef (setOfHashables hf ef xs) (setOfHashables hf ef ys)))])
  -- --- end T19
  -- --- T11: `sorted(xs)` of ints
  | "t11_sorted" => pure (intsToJson (sortedInts (← listOfJson intOfJson (← field j "xs"))))
  -- --- end T11
  -- --- T12: itertools.groupby (keys: x mod m, or the parity as a Bool)
  | "t2_groupby" =>
    let xs ← listOfJson intOfJson (← field j "xs")
    let m ← intOfJson (← field j "m")
    let gi := groupby (fun (x : Int) => Int.fmod x m) xs
    let gb := groupby (fun (x : Int) => Int.fmod x 2 == 0) xs
    pure (Json.mkObj [("int", Json.arr (gi.map (fun p => Json.arr #[intJ p.1, intsToJson p.2])).toArray),
                      ("bool", Json.arr (gb.map (fun p => Json.arr #[Json.bool p.1, intsToJson p.2])).toArray),
                      ("sorted", intsToJson (sortedInt xs))])
  -- --- end T12
  -- --- T15: numpy arrays (see the T15 block of OQ/Exec/Py.lean)
  | "t15_np" =>
    let xs ← listOfJson intOfJson (← field j "xs"); let ys ← listOfJson intOfJson (← field j "ys")
    let str ← strOf (← field j "s"); let k ← intOfJson (← field j "k"); let n ← intOfJson (← field j "n")
    let i ← intOfJson (← field j "i"); let i2 ← intOfJson (← field j "i2")
    let aw ← natOfJson (← field j "aw"); let arows ← listOfJson (listOfJson intOfJson) (← field j "arows")
    let bw ← natOfJson (← field j "bw"); let brows ← listOfJson (listOfJson intOfJson) (← field j "brows")
    let idx ← listOfJson intOfJson (← field j "idx"); let tuples ← listOfJson (listOfJson intOfJson) (← field j "tuples")
    let A : Arr2 Int := ⟨aw, arows⟩
    let B : Arr2 Int := ⟨bw, brows⟩
    let AQ : Arr2 Rat := ⟨aw, arows.map (fun r => r.map (fun (x : Int) => (x : Rat)))⟩
    let a2J (M : Arr2 Int) : Json := Json.mkObj [("w", intJ M.width), ("rows", Json.arr ((M.rows.map intsToJson).toArray))]
    let q2J (M : Arr2 Rat) : Json := Json.mkObj [("w", intJ M.width), ("rows", Json.arr ((M.rows.map ratsToJson).toArray))]
    let o2J (M : Arr2 (Option Rat)) : Json := Json.mkObj [("w", intJ M.width),
      ("rows", Json.arr ((M.rows.map (fun r => Json.arr ((r.map (optJ ratToJson)).toArray))).toArray))]
    pure (Json.mkObj [
      ("u1", intsToJson (npAstypeInt (npSubU8 (npFromBufferU1 str) 48))),
      ("reshape", excJ4 a2J (npReshapeE (npFromIterInt xs) n)),
      ("shape", intsToJson (npShape2 A)),
      ("ones", intsToJson (npOnes (Int.ofNat n.toNat))),
      ("takecols", excJ4 a2J (npTakeColsE A idx)),
      ("sumaxis1", intsToJson (npSumAxis1 A)),
      ("adds", intsToJson (npAddS xs k)), ("subs", intsToJson (npSubS xs k)), ("muls", intsToJson (npMulS xs k)),
      ("mods", if k == 0 then Json.null else intsToJson (npModS xs k)), ("rsubs", intsToJson (npRSubS k xs)),
      ("abs", intsToJson (npAbs1 xs)),
      ("mul1", excJ4 intsToJson (npZip1E (fun x y => x * y) xs ys)), ("sub1", excJ4 intsToJson (npZip1E (fun x y => x - y) xs ys)),
      ("truediv", excJ4 ratsToJson (npTrueDivE (ν := Rat) xs n)),
      ("sum1", intJ (npSum1 xs)),
      ("zeros2", q2J (npZeros2 (ν := Rat) (Int.ofNat n.toNat) (Int.ofNat k.toNat))),
      ("get2", excJ4 intJ (npGet2E A i i2)),
      ("set2", excJ4 a2J ((npGet2E A i i2).bind (fun _ => .ok (npSet2 A i i2 k)))),
      ("col", a2J (npCol xs)), ("row", a2J (npRow xs)),
      ("outer", excJ4 a2J (npZip2E (fun x y => x * y) (npCol xs) (npRow ys))),
      ("mul2", excJ4 a2J (npZip2E (fun x y => x * y) A B)), ("sub2", excJ4 a2J (npZip2E (fun x y => x - y) A B)),
      ("divs2", o2J (npDivS2 AQ n)),
      ("enumerate", Json.arr ((enumerate xs).map (fun p => Json.arr #[intJ p.1, intJ p.2])).toArray),
      ("arrayrows", excJ4 (optJ a2J) (npArrayRowsE tuples))])
  -- --- end T15
  -- --- T16: 2-argument max / unary minus / math.log's domain error on numeric values, `int(s, 2)`, the union of two lists as a set, the
  -- elementwise numpy operations of the kernels (see the T16 block of OQ/Exec/Py.lean)
  | "t16_num" =>
    let a ← ratOfJson (← field j "a"); let b ← ratOfJson (← field j "b")
    pure (Json.mkObj [("max", ratToJson (maxNum a b)), ("neg", ratToJson (negNum a)),
                      ("log", excJ4 ratToJson (mathLogE (fun (x : Rat) => x) a))])
  | "t16_int2" => pure (excJ4 intJ (intBase2E (← strOf (← field j "s"))))
  | "t16_set" =>
    let xs ← listOfJson intOfJson (← field j "xs"); let ys ← listOfJson intOfJson (← field j "ys")
    pure (intsToJson (setUnion (setOfList xs) ys))
  | "t16_np" =>
    let x ← listOfJson intOfJson (← field j "x"); let y ← listOfJson intOfJson (← field j "y")
    let c ← ratOfJson (← field j "c"); let k ← intOfJson (← field j "k")
    let u ← listOfJson ratOfJson (← field j "u"); let v ← listOfJson ratOfJson (← field j "v")
    let matI (m : List (List Int)) : Json := Json.arr ((m.map intsToJson).toArray)
    let vecR (r : List Rat) : Json := Json.arr ((r.map ratToJson).toArray)
    let matR (m : List (List Rat)) : Json := Json.arr ((m.map vecR).toArray)
    let o := npOuterSub x y
    let e : NpMat Rat := npAsFloat2 (npPow2 (npAbs2 o) 2)
    let sc := npScale2 c e
    let sq : NpMat Rat := u.map (fun _ => u)
    pure (Json.mkObj [("outer", matI o), ("abs", matI (npAbs2 o)), ("pow", matI (npPow2 (npAbs2 o) 2)), ("float", matR e),
                      ("scale", matR sc), ("map", matR (npMap2 (fun t => t * t + 1) sc)),
                      ("zeros", matR (npZerosLike2 (ν := Rat) e)), ("add", matR (npAdd2 e sc)), ("div", matR (npDivInt2 sc k)),
                      ("sub", vecR (npSub1 u v)), ("dot", ratToJson (npDot1 u v)), ("matvec", vecR (npMatVec sq v))])
  -- --- end T16
  -- --- T18: sets of objects with their own `__hash__` / `__eq__` (hash = v // 4, eq = |v - w| <= 1: not transitive), the key check of
  -- `PauliTerm(d, c)`, `sorted` of (index, letter) tuples, `reduce` without initial value, `int.bit_length`
  | "t18_set" =>
    let xs ← listOfJson intOfJson (← field j "xs"); let ys ← listOfJson intOfJson (← field j "ys")
    let heq : Int → Int → Bool := fun a b => Int.fdiv a 4 == Int.fdiv b 4
    let eq : Int → Int → Bool := fun a b => decide ((a - b).natAbs ≤ 1)
    let A := setOfListBy heq eq xs
    let B := setOfListBy heq eq ys
    pure (Json.mkObj [("set", intsToJson A), ("eq", Json.bool (setEqBy heq eq A B)),
                      ("mem", Json.arr (ys.map (fun v => Json.bool (setMemBy heq eq v A))).toArray)])
  | "t18_keys" =>
    let d ← listOfJson t7ent (← field j "d")
    pure (excJ4 (fun (r : Dict Nat String) => Json.arr (r.map (fun p => Json.arr #[intJ p.1, Json.str p.2])).toArray) (natKeysE d))
  | "t18_sorted" =>
    let d ← listOfJson t7ent (← field j "d")
    let ord : String → Int := fun s => match s.toList with | c :: _ => (c.toNat : Int) | [] => -1
    pure (Json.arr ((sortedItemsBy ord (d.map (fun p => (p.1.toNat, p.2)))).map (fun p => Json.arr #[intJ p.1, Json.str p.2])).toArray)
  | "t18_reduce" =>
    let xs ← listOfJson intOfJson (← field j "xs")
    pure (excJ4 intJ (reduce1E (fun a b => 3 * a - b) xs))
  | "t18_bits" =>
    let n ← intOfJson (← field j "n")
    pure (intJ (bitLength n))
  -- --- end T18
  | _ => throw s!"unknown prelude op {op}"

end OQ.PY.Driver
