/- JSON glue for the Python prelude (`OQ/Exec/Py.lean`): lets the harness compare every prelude function with the CPython
   built-in it stands for (`harness/prelude_check.py`). -/
import OQ.Exec.Proto
import OQ.Exec.Py
open Lean OQ.Proto
namespace OQ.PY.Driver
open OQ.Py

def strJ (s : Str) : Json := Json.str (String.ofList s)
def strOf (j : Json) : Except String Str := do pure (← strOfJson j).toList
def intJ (n : Int) : Json := Json.str (toString n)

def handle (op : String) (j : Json) : Except String Json := do
  match op with
  | "bin" => pure (strJ (bin (← intOfJson (← field j "n"))))
  | "str" => pure (strJ (strOfInt (← intOfJson (← field j "n"))))
  | "zfill" => pure (strJ (zfill (← strOf (← field j "s")) (← intOfJson (← field j "w"))))
  | "int2" => pure (intJ (intBase2 (← strOf (← field j "s"))))
  | "digit" => match ← strOf (← field j "s") with
    | [c] => pure (intJ (charDigit c))
    | _ => throw "digit expects one character"
  | "join" => pure (strJ (join (← strOf (← field j "sep")) (← listOfJson strOf (← field j "parts"))))
  | "slice" =>
    let xs ← listOfJson intOfJson (← field j "xs")
    let a ← intOfJson (← field j "a"); let b ← intOfJson (← field j "b")
    pure (Json.mkObj [("from", intsToJson (sliceFrom xs a)), ("to", intsToJson (sliceTo xs b)),
                      ("both", intsToJson (slice xs a b))])
  | "bits" =>
    let a ← intOfJson (← field j "a"); let b ← intOfJson (← field j "b")
    pure (Json.mkObj [("and", intJ (land a b)), ("or", intJ (lor a b)), ("shr", intJ (shr a b)),
                      ("lowbit", intJ (lowbit a)), ("sum", intJ (OQ.Py.sum [a, b, a])),
                      ("fdiv", intJ (Int.fdiv a b)), ("fmod", intJ (Int.fmod a b))])
  | _ => throw s!"unknown prelude op {op}"

end OQ.PY.Driver
