import OQ.Exec.Proto
import OQ.Model.C02
import OQ.Generated.GateTable
open Lean OQ.Proto
namespace OQ.C02.Driver
open OQ OQ.C02

/-- an angle point [ch, sh]; each coordinate a rational or a ℚ(ζ₈) 4-tuple (multiples of π/4 are exact too) -/
def angOfJson (j : Json) : Except String (Ang Cyc8) := do
  match ← arrOfJson j with
  | [c, s] => pure ⟨← cycOfJson c, ← cycOfJson s⟩
  | _ => throw "bad angle"

def errToJson : Err → Json
  | .key => Json.str "err:key"
  | .type => Json.str "err:type"

def resToJson : Except Err (Mat Cyc8) → Json
  | .ok m => matToJson m
  | .error e => errToJson e

def optNat : Option Nat → Json
  | some n => Json.num (JsonNumber.fromNat n)
  | none => Json.str "err:key"

def optBool : Option Bool → Json
  | some b => Json.bool b
  | none => Json.str "err:key"

def tbl := OQ.Generated.gateTable
def kk := OQ.Scal.cyc8

/-- exact checks of the model's own output (they are theorems; evaluated here as a self-test of the driver) -/
def isUnitary (m : Mat Cyc8) : Bool :=
  (m.adjoint.mul m).beq (Mat.identity m.c) && (m.mul m.adjoint).beq (Mat.identity m.r)

def handle (op : String) (j : Json) : Except String Json := do
  match op with
  | "table" =>
    pure (Json.arr (tbl.map (fun r => Json.arr #[Json.str r.1, Json.num (JsonNumber.fromNat r.2.1),
      Json.num (JsonNumber.fromNat r.2.2.1), Json.bool r.2.2.2])).toArray)
  | "gate" =>
    let name ← strOfJson (← field j "gate")
    let angs ← listOfJson angOfJson (← field j "angles")
    let m := gateMatrix tbl kk name angs
    let chk := match m with
      | .ok mm => [("unitary", Json.bool (isUnitary mm)), ("selfadjoint", Json.bool (mm.adjoint.beq mm))]
      | .error _ => []
    pure (Json.mkObj ([("m", resToJson m), ("nq", optNat (numQubits tbl name)),
      ("herm", optBool (isHermitian tbl name)), ("dagger_self", optBool (daggerIsSelf tbl name)),
      ("dagger", resToJson (daggerMatrix tbl kk name angs))] ++ chk))
  | "pair" =>
    let name ← strOfJson (← field j "gate")
    let a ← angOfJson (← field j "a")
    let b ← angOfJson (← field j "b")
    match gateMatrix tbl kk name [a], gateMatrix tbl kk name [b], gateMatrix tbl kk name [Ang.add a b] with
    | .ok ma, .ok mb, .ok mab =>
      pure (Json.mkObj [("ab", matToJson mab), ("equal", Json.bool ((ma.mul mb).beq mab))])
    | _, _, _ => pure (Json.str "err:type")
  | "relations" =>
    let x := Gates.x (R := Cyc8); let z := Gates.z (R := Cyc8)
    let s := Gates.s kk; let t := Gates.t kk; let sx := Gates.sx kk; let h := Gates.h kk
    let ctrl (u : Mat Cyc8) : Mat Cyc8 :=
      Mat.ofFn 4 4 (fun i j => if i < 2 ∧ j < 2 then (if i = j then 1 else 0)
                               else if 2 ≤ i ∧ 2 ≤ j then u.get (i - 2) (j - 2) else 0)
    let a := Gates.rx kk ⟨Cyc8.ofRat (3/5), Cyc8.ofRat (4/5)⟩
    let b := Gates.t kk
    pure (Json.mkObj [
      ("S*S=Z", Json.bool ((s.mul s).beq z)), ("T*T=S", Json.bool ((t.mul t).beq s)),
      ("SX*SX=X", Json.bool ((sx.mul sx).beq x)), ("H*Z*H=X", Json.bool (((h.mul z).mul h).beq x)),
      ("CNOT=CX", Json.bool ((Gates.cnot (R := Cyc8)).beq (ctrl x))),
      ("CZ=CZ", Json.bool ((Gates.cz (R := Cyc8)).beq (ctrl z))),
      ("SWAP", Json.bool ((((Gates.swap (R := Cyc8)).mul (a.kron b)).mul Gates.swap).beq (b.kron a))),
      ("Delay=I", Json.bool ((Gates.delay (R := Cyc8)).beq (Mat.identity 2)))])
  | _ => throw s!"unknown op {op}"

end OQ.C02.Driver
