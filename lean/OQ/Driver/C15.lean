import OQ.Exec.Proto
import OQ.Model.C15
open Lean OQ.Proto
namespace OQ.C15.Driver

def gqOfJson (j : Json) : Except String GQ := do
  match ← arrOfJson j with
  | [re, im] => pure ⟨← ratOfJson re, ← ratOfJson im⟩
  | _ => throw "bad coefficient"

def gqToJson (c : GQ) : Json := .arr #[ratToJson c.re, ratToJson c.im]

def pauliOfJson (j : Json) : Except String Pauli := do
  match ← strOfJson j with
  | "X" => pure .X | "Y" => pure .Y | "Z" => pure .Z
  | s => throw s!"bad pauli {s}"

def pauliToString : Pauli → String
  | .X => "X" | .Y => "Y" | .Z => "Z"

def termOfJson (j : Json) : Except String Term := do
  let c ← gqOfJson (← field j "c")
  let ops ← listOfJson (fun p => do
    match ← arrOfJson p with
    | [q, s] => pure (← natOfJson q, ← pauliOfJson s)
    | _ => throw "bad op pair") (← field j "ops")
  pure ⟨c, ops⟩

def termToJson (t : Term) : Json :=
  Json.mkObj [("c", gqToJson t.coeff),
              ("ops", .arr (t.ops.map (fun p => Json.arr #[Json.num (JsonNumber.fromNat p.1), Json.str (pauliToString p.2)])).toArray)]

def linOfJson (j : Json) : Except String LinForm := do
  let c ← ratOfJson (← field j "const")
  let ts ← listOfJson (fun p => do
    match ← arrOfJson p with
    | [s, v] => pure (← strOfJson s, ← ratOfJson v)
    | _ => throw "bad linear term") (← field j "terms")
  pure ⟨c, ts⟩

def linToJson (f : LinForm) : Json :=
  Json.mkObj [("const", ratToJson f.const),
              ("terms", .arr (f.terms.map (fun p => Json.arr #[Json.str p.1, ratToJson p.2])).toArray)]

def gateOfJson (j : Json) : Except String Gate := do
  match ← arrOfJson j with
  | [nm, q] => pure ⟨← strOfJson nm, ← natOfJson q, none⟩
  | [nm, q, .null] => pure ⟨← strOfJson nm, ← natOfJson q, none⟩
  | [nm, q, p] => pure ⟨← strOfJson nm, ← natOfJson q, some (← linOfJson p)⟩
  | _ => throw "bad gate"

def gateToJson (g : Gate) : Json :=
  .arr #[Json.str g.name, Json.num (JsonNumber.fromNat g.qubit),
         match g.param with
         | some f => linToJson f
         | none => Json.null]

def circOfJson (j : Json) : Except String Circ := do
  pure ⟨← natOfJson (← field j "n"), ← listOfJson gateOfJson (← field j "gates")⟩

def circToJson (c : Circ) : Json :=
  Json.mkObj [("n", Json.num (JsonNumber.fromNat c.n)), ("gates", .arr (c.gates.map gateToJson).toArray)]

def shotsOfJson (j : Json) : Except String (Option Int) :=
  match j with
  | .null => pure none
  | _ => do pure (some (← intOfJson j))

def shotsToJson : Option Int → Json
  | none => Json.null
  | some n => Json.num (JsonNumber.fromInt n)

def taskOfJson (j : Json) : Except String (Task Circ) := do
  let op ← listOfJson termOfJson (← field j "op")
  let c ← circOfJson (← field j "circuit")
  let s ← shotsOfJson ((j.getObjVal? "shots").toOption.getD Json.null)
  pure ⟨op, c, s⟩

def taskToJson (t : Task Circ) : Json :=
  Json.mkObj [("op", .arr (t.op.map termToJson).toArray), ("circuit", circToJson t.circuit),
              ("shots", shotsToJson t.shots)]

def valsToJson (v : Vals) : Json := .arr (v.map gqToJson).toArray

def errToJson (e : Err) : Json := Json.str e.toString

def bitsOfJson (j : Json) : Except String Shots := listOfJson (listOfJson natOfJson) j

/-- relabel the circuits by the task's position, so that the returned task lists can be read as ids -/
def labelled (ts : List (Task Circ)) : List (Task Nat) :=
  (List.range ts.length).zip ts |>.map (fun p => ⟨p.2.op, p.1, p.2.shots⟩)

def handle (op : String) (j : Json) : Except String Json := do
  match op with
  | "split" =>
    let ts ← listOfJson taskOfJson (← field j "tasks")
    let s := splitTasks (labelled ts)
    pure (Json.mkObj [("to_measure", natsToJson (s.toMeasure.map (fun t => t.circuit))),
                      ("not_to_measure", natsToJson (s.notToMeasure.map (fun t => t.circuit))),
                      ("idx_measure", natsToJson s.idxMeasure), ("idx_not", natsToJson s.idxNot)])
  | "nonmeasured" =>
    let ts ← listOfJson taskOfJson (← field j "tasks")
    match mapE evalNonMeasured ts with
    | .error e => pure (errToJson e)
    | .ok vs => pure (.arr (vs.map valsToJson).toArray)
  | "averaging" =>
    let ts ← listOfJson taskOfJson (← field j "tasks")
    let recorded ← listOfJson bitsOfJson (← field j "recorded")
    match estimateByAveraging (baseRunBatch (simRun recorded)) ts with
    | .error e => pure (errToJson e)
    | .ok r => pure (.arr (r.map (fun o => match o with
                                          | some v => valsToJson v
                                          | none => Json.null)).toArray)
  | "exact" =>
    let ts ← listOfJson taskOfJson (← field j "tasks")
    match exactValues productState (opMatrix Cyc8.I cycOfGQ) cycRe ts with
    | .error e => pure (errToJson e)
    | .ok r => pure (.arr (r.map (fun v => Json.arr (v.map cycToJson).toArray)).toArray)
  | "bind" =>
    let ts ← listOfJson taskOfJson (← field j "tasks")
    let maps ← listOfJson (listOfJson (fun p => do
      match ← arrOfJson p with
      | [s, v] => pure (← strOfJson s, ← ratOfJson v)
      | _ => throw "bad map entry")) (← field j "maps")
    match evaluateCircuits Circ.bind ts maps with
    | .error e => pure (errToJson e)
    | .ok out => pure (.arr (out.map taskToJson).toArray)
  | _ => throw s!"unknown op {op}"

end OQ.C15.Driver
