/-
  Specification backbone: the n-qubit space is indexed by bit assignments `BV ι = ι → Bool`;
  `lift σ M` places a gate matrix `M` on the qubits `κ` (embedded by the partition `σ : κ ⊕ μ ≃ ι`)
  and acts as the identity on the remaining qubits `μ`.
-/
import Mathlib.Data.Matrix.Mul
import Mathlib.LinearAlgebra.Matrix.Kronecker
import Mathlib.LinearAlgebra.Matrix.Reindex
import Mathlib.LinearAlgebra.Matrix.ConjTranspose
import Mathlib.Logic.Equiv.Fin.Basic
import Mathlib.Logic.Equiv.Prod
import Mathlib.Data.Fintype.Pi
import Mathlib.Data.Fintype.Sum
import Mathlib.Tactic.Ring

namespace OQ.Spec
open Matrix

abbrev BV (ι : Type) := ι → Bool

variable {R : Type} [CommRing R] {κ μ ι : Type}
  [Fintype κ] [DecidableEq κ] [Fintype μ] [DecidableEq μ] [Fintype ι] [DecidableEq ι]

/-- split the register along a partition of the qubits -/
def splitBV (σ : κ ⊕ μ ≃ ι) : BV ι ≃ BV κ × BV μ :=
  (Equiv.arrowCongr σ.symm (Equiv.refl Bool)).trans (Equiv.sumArrowEquivProdArrow κ μ Bool)

/-- gate `M` on the qubits `κ` (placed by σ), identity on the rest -/
def lift (σ : κ ⊕ μ ≃ ι) (M : Matrix (BV κ) (BV κ) R) : Matrix (BV ι) (BV ι) R :=
  Matrix.reindex (splitBV σ).symm (splitBV σ).symm (kroneckerMap (· * ·) M (1 : Matrix (BV μ) (BV μ) R))

theorem lift_mul (σ : κ ⊕ μ ≃ ι) (A B : Matrix (BV κ) (BV κ) R) :
    lift σ (A * B) = lift σ A * lift σ B := by
  unfold lift
  rw [Matrix.reindex_apply, Matrix.reindex_apply, Matrix.reindex_apply, Matrix.submatrix_mul_equiv]
  congr 1
  have := Matrix.mul_kronecker_mul A B (1 : Matrix (BV μ) (BV μ) R) (1 : Matrix (BV μ) (BV μ) R)
  simpa [Matrix.kronecker] using this

/-- pointwise form: entries agree off the named qubits ⇒ the entry of `M` at the restricted
    assignments, otherwise 0 -/
theorem lift_apply (σ : κ ⊕ μ ≃ ι) (M : Matrix (BV κ) (BV κ) R) (x y : BV ι) :
    lift σ M x y = if (∀ m, x (σ (Sum.inr m)) = y (σ (Sum.inr m)))
      then M (fun k => x (σ (Sum.inl k))) (fun k => y (σ (Sum.inl k))) else 0 := by
  simp [lift, splitBV, Matrix.one_apply, kroneckerMap_apply, funext_iff]
  split_ifs <;> first | rfl | simp_all [Equiv.sumArrowEquivProdArrow]

theorem lift_one (σ : κ ⊕ μ ≃ ι) : lift σ (1 : Matrix (BV κ) (BV κ) R) = 1 := by
  ext x y
  rw [lift_apply, Matrix.one_apply, Matrix.one_apply]
  by_cases h : x = y
  · subst h; simp
  · simp only [h, if_false]
    split_ifs with h1 h2
    · exfalso; apply h; funext q
      obtain ⟨s, rfl⟩ := σ.surjective q
      cases s with
      | inl k => exact congrFun h2 k
      | inr m => exact h1 m
    · rfl
    · rfl

theorem lift_add (σ : κ ⊕ μ ≃ ι) (A B : Matrix (BV κ) (BV κ) R) :
    lift σ (A + B) = lift σ A + lift σ B := by
  ext x y; simp only [lift_apply, Matrix.add_apply]; split_ifs <;> simp

theorem lift_smul (σ : κ ⊕ μ ≃ ι) (c : R) (A : Matrix (BV κ) (BV κ) R) :
    lift σ (c • A) = c • lift σ A := by
  ext x y; simp only [lift_apply, Matrix.smul_apply]; split_ifs <;> simp

theorem lift_conjTranspose [StarRing R] (σ : κ ⊕ μ ≃ ι) (A : Matrix (BV κ) (BV κ) R) :
    lift σ Aᴴ = (lift σ A)ᴴ := by
  ext x y
  simp only [lift_apply, Matrix.conjTranspose_apply]
  by_cases h : ∀ m, x (σ (Sum.inr m)) = y (σ (Sum.inr m))
  · have h' : ∀ m, y (σ (Sum.inr m)) = x (σ (Sum.inr m)) := fun m => (h m).symm
    rw [if_pos h, if_pos h']
  · have h' : ¬ ∀ m, y (σ (Sum.inr m)) = x (σ (Sum.inr m)) := fun hh => h (fun m => (hh m).symm)
    rw [if_neg h, if_neg h', star_zero]

end OQ.Spec
