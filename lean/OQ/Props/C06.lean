/-
  C06 — PROPERTY THEOREMS: binding parameters commutes with evaluating the circuit.
  Model: OQ/Model/C06.lean.  Helper lemmas: OQ/Lemmas/C06.lean.

  Reading guide.  `ρ : String → V` is an assignment of values to symbols, `comp A ρ m` the
  assignment "substitute the map `m`, then evaluate at `ρ`".  "Evaluate symbolically and substitute
  afterwards" is evaluation at `comp A ρ m`; "bind and then evaluate" is evaluation of the bound
  object at `ρ`.  Matrices are abstract (`Sem`): the theorems hold for every interpretation of the
  built-in factories and of the wrappers that satisfies `Laws` (block-diagonal controls add up, the
  adjoint is an involution commuting with the control block – the laws the re-association rules of
  `.controlled` / `.dagger` rely on).  `HermOK` = the `is_hermitian` flags tell the truth;
  `CustomOK` = a custom gate gets at least as many params as its definition orders and its stored
  matrix mentions only ordered symbols.  The domain of symbol maps is "values do not mention the
  map's own keys" (`subst` is simultaneous substitution).
-/
import OQ.Lemmas.C06
namespace OQ.C06

/-! ## Sentence 1 — bind then evaluate = evaluate then substitute -/

/-- S1, parameters: substituting into a parameter (through the `sub_symbols` dispatch) and evaluating
    equals evaluating the original parameter after substitution. -/
theorem eval_bind_param {V : Type} (A : Alg V) (ρ : String → V) (m : SymMap) (p : Param) :
    (subSymbols m p).eval A ρ = p.eval A (comp A ρ m) :=
  eval_subSymbols A ρ m p

/-- S1, gates / wrapped gates / custom gates: whenever `bind` returns a gate, its matrix is the
    matrix of the original gate evaluated symbolically and substituted afterwards – for every chain
    of `ControlledGate` / `Dagger` wrappers over a built-in or custom factory gate (bind re-wraps
    through `.controlled` / `.dagger`, which may re-associate the chain). -/
theorem gateMatrix_bind {V M : Type} (S : Sem V M) (L : Laws S) (ρ : String → V) (m : SymMap)
    (g g' : Gate) (hh : HermOK S g) (hc : CustomOK g) (h : g.bind m = .ok g') :
    gateMatrix S ρ g' = gateMatrix S (comp S.alg ρ m) g :=
  (gateMatrix_bind_aux S L ρ m hh hc h).1

/-- S1, custom gates: the factory substitutes positionally and simultaneously – with distinct ordered
    symbols, the i-th formal symbol of the stored matrix is evaluated as the i-th actual parameter
    (actual parameters are not substituted again, even if they mention formal symbols). -/
theorem custom_positional {V : Type} (A : Alg V) (ρ : String → V) (ord : List String) (ps : List Param)
    (hn : ord.Nodup) (e : PExpr) (i : Nat) (hi : i < ord.length) (hp : i < ps.length) :
    eval A ρ (subst (customDict ord ps) e) = eval A (comp A ρ (customDict ord ps)) e ∧
    comp A ρ (customDict ord ps) ord[i] = ps[i].eval A ρ := by
  refine ⟨eval_subst A ρ _ e, ?_⟩
  have hmem : (ord[i], ps[i]) ∈ customDict ord ps := by
    unfold customDict
    rw [List.mem_reverse]
    have : (List.zip ord ps)[i]'(by simp [List.length_zip]; omega) = (ord[i], ps[i]) := by simp
    rw [← this]; exact List.getElem_mem _
  have hl := lookup_of_mem_nodup _ _ _ hmem (keys_customDict_nodup ord ps hn)
  simp only [comp, hl]

/-- S1, operations (gate operations, MultiPhaseOperation, ResetOperation alike): whenever `op.bind`
    returns, the bound operation's parameters evaluate to the original parameters evaluated after
    substitution, position by position, and the qubits are kept. -/
theorem op_bind_eval {V : Type} (A : Alg V) (ρ : String → V) (m : SymMap) (o o' : Op)
    (h : o.bind m = .ok o') :
    o'.params.map (Param.eval A ρ) = o.params.map (Param.eval A (comp A ρ m)) ∧ o'.qubits = o.qubits := by
  refine ⟨?_, op_qubits_bind h⟩
  rw [op_params_bind h, List.map_map]
  apply List.map_congr_left
  intro p _; exact eval_subSymbols A ρ m p

/-- S1, totality: `Circuit.bind` returns a circuit for every circuit none of whose gate operations has
    a power/exponential wrapper – gate operations, MultiPhaseOperations and ResetOperations alike
    (the only refusals are the NotImplementedErrors of sentence 7). -/
theorem circuit_bind_total (m : SymMap) (c : Circuit)
    (h : ∀ o ∈ c.ops, ∀ g qs, o = .gate g qs → g.isCD = true) :
    ∃ c', c.bind m = .ok c' := by
  obtain ⟨ops', hops⟩ := mapRes_all_ok (Op.bind m) c.ops (by
    intro o ho
    cases o with
    | gate g qs =>
      obtain ⟨g', hg, _⟩ := bind_cd m (h _ ho g qs rfl)
      exact ⟨.gate g' qs, by simp [Op.bind, hg]⟩
    | multiPhase ps => exact ⟨_, rfl⟩
    | reset q => exact ⟨_, rfl⟩)
  exact ⟨mkCircuit ops' c.nQubits, by simp [Circuit.bind, hops]⟩

/-- S1, non-gate operations: binding a ResetOperation returns a reset of the same qubit whatever the map
    (fix ddf37fe; before it the real `bind` raised TypeError), and `replace_params` does the same. -/
theorem reset_bind (m : SymMap) (q : Nat) (ps : List Param) :
    Op.bind m (.reset q) = .ok (.reset q) ∧ Op.replaceParams (.reset q) ps = .ok (.reset q) :=
  ⟨rfl, rfl⟩

/-- S1, circuits: whenever `Circuit.bind` returns, the bound circuit keeps the width and the
    qubits of every operation, and its unitary (`to_unitary`: product of the lifted gate matrices,
    including the ValueError for non-gate operations and the TypeError of the empty product) is the
    unitary of the original circuit evaluated symbolically and substituted afterwards. -/
theorem circuitMatrix_bind {V M : Type} (S : Sem V M) (L : Laws S) (ρ : String → V) (m : SymMap)
    (c c' : Circuit) (hwf : c.WF) (hh : ∀ o ∈ c.ops, o.HermOK S) (hc : ∀ o ∈ c.ops, o.CustomOK)
    (h : c.bind m = .ok c') :
    circuitMatrix S ρ c' = circuitMatrix S (comp S.alg ρ m) c ∧ c'.nQubits = c.nQubits ∧
      c'.ops.map Op.qubits = c.ops.map Op.qubits := by
  refine ⟨circuitMatrix_bind_aux S L ρ m hwf hh hc h, (circuit_bind_ops hwf h).2, ?_⟩
  have hf := (circuit_bind_ops hwf h).1
  generalize c.ops = l at hf
  generalize c'.ops = l' at hf
  induction hf with
  | nil => rfl
  | cons hab _ ih => simp only [List.map_cons, ih, op_qubits_bind hab]

/-! ## Sentence 2 — binding in several partial steps equals binding once -/

/-- S2, parameters: two successive substitutions give literally the parameter of the single
    substitution with the merged map (values of the first map do not mention keys of the second;
    on a shared key the first map wins, as it does step-wise).  In the implementation sympy
    canonicalises between the two steps (`gamma + 0` becomes the bare symbol `gamma`, which the second
    step then answers with the raw Python value instead of a sympy number), so there the two results
    agree in value – `eval_bind_param` applied twice – but may differ in representation; the
    correspondence check compares values. -/
theorem bind_bind_param (m1 m2 : SymMap) (h : NoMention m1 m2) (p : Param) :
    subSymbols m2 (subSymbols m1 p) = subSymbols (m1 ++ m2) p :=
  subSymbols_subSymbols m1 m2 h p

/-- S2, gates: binding `m1` and then `m2` succeeds exactly like binding the merged map once, the
    resulting parameter tuples are identical and the matrices are equal. -/
theorem bind_bind_gate {V M : Type} (S : Sem V M) (L : Laws S) (ρ : String → V) (m1 m2 : SymMap)
    (hnm : NoMention m1 m2) (g g1 g2 : Gate) (hh : HermOK S g) (hc : CustomOK g)
    (h1 : g.bind m1 = .ok g1) (h2 : g1.bind m2 = .ok g2) :
    ∃ g12, g.bind (m1 ++ m2) = .ok g12 ∧ g12.params = g2.params ∧
      gateMatrix S ρ g12 = gateMatrix S ρ g2 := by
  have hcd : g.isCD = true := by
    cases hg : g.isCD with
    | true => rfl
    | false => rw [bind_not_cd m1 hg] at h1; simp at h1
  obtain ⟨g12, h12, _⟩ := bind_cd (m1 ++ m2) hcd
  refine ⟨g12, h12, ?_, ?_⟩
  · rw [params_bind h12, params_bind h2, params_bind h1, List.map_map]
    apply List.map_congr_left
    intro p _; exact (subSymbols_subSymbols m1 m2 hnm p).symm
  · obtain ⟨e1, hh1, _⟩ := gateMatrix_bind_aux S L (comp S.alg ρ m2) m1 hh hc h1
    have hc1 := (customOK_bind hc h1).1
    rw [(gateMatrix_bind_aux S L ρ (m1 ++ m2) hh hc h12).1,
        (gateMatrix_bind_aux S L ρ m2 hh1 hc1 h2).1, e1, comp_comp S.alg ρ m1 m2 hnm]

/-- S2, circuits: step-wise binding and binding once give circuits with identical parameter tuples,
    operation by operation (and both succeed together). -/
theorem bind_bind_circuit (m1 m2 : SymMap) (hnm : NoMention m1 m2) (c c1 c2 : Circuit) (hwf : c.WF)
    (h1 : c.bind m1 = .ok c1) (h2 : c1.bind m2 = .ok c2) :
    ∃ c12, c.bind (m1 ++ m2) = .ok c12 ∧ c12.ops.map Op.params = c2.ops.map Op.params ∧
      c12.nQubits = c2.nQubits := by
  have hf1 := circuit_bind_ops hwf h1
  have hf2 := circuit_bind_ops (circuit_bind_wf h1) h2
  obtain ⟨l12, hl12, hps⟩ := forall₂_bind_bind hnm hf1.1 hf2.1
  have h12 : c.bind (m1 ++ m2) = .ok (mkCircuit l12 c.nQubits) := by simp [Circuit.bind, hl12]
  have hf12 := circuit_bind_ops hwf h12
  refine ⟨_, h12, ?_, ?_⟩
  · rw [← hps]; unfold mkCircuit; split <;> rfl
  · rw [hf12.2, hf2.2, hf1.2]

/-! ## Sentence 3 — absent symbols and numeric parameters are untouched -/

/-- S3: a numeric (Python number) parameter is returned unchanged by any map. -/
theorem bind_number (m : SymMap) (q : Rat) : subSymbols m (.number q) = .number q := rfl

/-- S3: a parameter none of whose symbols is a key of the map is returned unchanged
    (in particular every symbol-free sympy expression). -/
theorem bind_absent (m : SymMap) (p : Param) (h : ∀ s ∈ p.symbols, lookup m s = none) :
    subSymbols m p = p :=
  subSymbols_eq_self m p h

/-- S3, gates and operations: binding acts on the parameter tuple position by position – the i-th
    parameter of the bound operation is `sub_symbols` of the i-th original parameter, so the
    parameters covered by `bind_number` / `bind_absent` stay literally what they were. -/
theorem bind_params_pointwise (m : SymMap) (o o' : Op) (h : o.bind m = .ok o') :
    o'.params = o.params.map (subSymbols m) ∧
    ∀ i (hi : i < o.params.length) (hi' : i < o'.params.length),
      (∀ s ∈ (o.params[i]).symbols, lookup m s = none) → o'.params[i] = o.params[i] := by
  have hp := op_params_bind h
  refine ⟨hp, ?_⟩
  intro i hi hi' hs
  simp only [hp, List.getElem_map]
  exact subSymbols_eq_self m _ hs

/-! ## Sentence 4 — extra symbols in the map are ignored -/

/-- S4, gates: two maps that agree on the gate's free symbols bind it to the same result; in
    particular adding, removing or changing entries whose keys are not free symbols of the gate
    changes nothing (not even the outcome "refused"). -/
theorem bind_extra_gate (m m' : SymMap) (g : Gate)
    (h : ∀ s ∈ g.freeSymbols, lookup m s = lookup m' s) : g.bind m = g.bind m' :=
  bind_congr m m' g h

/-- S4, circuits: maps agreeing on every symbol that occurs in a parameter of the circuit give the
    same bound circuit. -/
theorem bind_extra_circuit (m m' : SymMap) (c : Circuit)
    (h : ∀ o ∈ c.ops, ∀ s ∈ o.freeSymbols, lookup m s = lookup m' s) : c.bind m = c.bind m' := by
  unfold Circuit.bind
  congr 1
  have : ∀ l : List Op, (∀ o ∈ l, ∀ s ∈ o.freeSymbols, lookup m s = lookup m' s) →
      mapRes (Op.bind m) l = mapRes (Op.bind m') l := by
    intro l hl
    apply mapRes_congr₂
    induction l with
    | nil => exact List.Forall₂.nil
    | cons o os ih =>
      refine List.Forall₂.cons ?_ (ih (fun x hx => hl x (by simp [hx])))
      have ho := hl o (by simp)
      cases o with
      | gate g qs => simp only [Op.bind]; rw [bind_congr m m' g ho]
      | multiPhase ps =>
        simp only [Op.bind]
        congr 2
        apply List.map_congr_left
        intro p hp
        apply subSymbols_congr
        intro s hs
        exact ho s ((mem_getFreeSymbols s ps).mpr ⟨p, hp, hs⟩)
      | reset q => rfl
  exact this c.ops h

/-! ## Sentence 5 — the reported free symbols are exactly the symbols the parameters depend on -/

/-- S5, gates and operations: `free_symbols` lists exactly the symbols occurring in some sympy
    parameter, each once, in ascending order of their names. -/
theorem freeSymbols_exact (ps : List Param) :
    (∀ s, s ∈ getFreeSymbols ps ↔ ∃ p ∈ ps, s ∈ p.symbols) ∧ (getFreeSymbols ps).Pairwise (· < ·) :=
  ⟨fun s => mem_getFreeSymbols s ps, sorted_sortSyms _⟩

/-- S5, semantic side: the gate matrix depends on the assignment only through the reported free
    symbols – two assignments that agree on them give the same matrix. -/
theorem freeSymbols_sound {V M : Type} (S : Sem V M) (ρ ρ' : String → V) (g : Gate) (hc : CustomOK g)
    (h : ∀ s ∈ g.freeSymbols, ρ s = ρ' s) : gateMatrix S ρ g = gateMatrix S ρ' g :=
  gateMatrix_congr S ρ ρ' g hc h

/-- S5, after binding: the free symbols of the bound operation are exactly the unbound symbols of the
    original parameters together with the symbols of the values substituted for the bound ones
    ("the symbols its parameters still depend on"). -/
theorem freeSymbols_bind (m : SymMap) (o o' : Op) (h : o.bind m = .ok o') (s : String) :
    s ∈ o'.freeSymbols ↔
      ∃ p ∈ o.params, (s ∈ p.symbols ∧ lookup m s = none) ∨
        ∃ k ∈ p.symbols, ∃ v, lookup m k = some v ∧ s ∈ v.symbols := by
  unfold Op.freeSymbols
  rw [mem_getFreeSymbols, op_params_bind h]
  constructor
  · rintro ⟨p', hp', hs⟩
    obtain ⟨p, hp, rfl⟩ := List.mem_map.mp hp'
    exact ⟨p, hp, (mem_symbols_subSymbols m p s).mp hs⟩
  · rintro ⟨p, hp, hs⟩
    exact ⟨subSymbols m p, List.mem_map.mpr ⟨p, hp, rfl⟩, (mem_symbols_subSymbols m p s).mpr hs⟩

/-- S5, circuits: `Circuit.free_symbols` is the concatenation of the operations' lists with every
    later duplicate removed: same members, no repetition, and ordered by first appearance. -/
theorem circuit_freeSymbols_order (c : Circuit) :
    let all := c.ops.flatMap Op.freeSymbols
    c.freeSymbols = firstAppearance all ∧
    (∀ s, s ∈ c.freeSymbols ↔ s ∈ all) ∧ c.freeSymbols.Nodup ∧ c.freeSymbols.Sublist all ∧
    c.freeSymbols.Pairwise (fun a b => all.idxOf a < all.idxOf b) := by
  intro all
  have h := circuit_freeSymbols_eq c
  refine ⟨h, ?_, ?_, ?_, ?_⟩
  · intro s; rw [h]; exact mem_firstAppearance s all
  · rw [h]; exact nodup_firstAppearance all
  · rw [h]; exact sublist_firstAppearance all
  · rw [h]; exact firstAppearance_order all

/-! ## Sentence 6 — no free symbols iff every parameter is symbol-free -/

/-- S6 -/
theorem no_free_iff (c : Circuit) :
    c.freeSymbols = [] ↔ ∀ o ∈ c.ops, ∀ p ∈ o.params, p.symbols = [] := by
  have h := circuit_freeSymbols_eq c
  constructor
  · intro h0 o ho
    rw [← getFreeSymbols_eq_nil]
    apply List.eq_nil_iff_forall_not_mem.mpr
    intro s hs
    have : s ∈ c.freeSymbols := by
      rw [h, mem_firstAppearance]; exact List.mem_flatMap.mpr ⟨o, ho, hs⟩
    rw [h0] at this; simp at this
  · intro hall
    apply List.eq_nil_iff_forall_not_mem.mpr
    intro s hs
    rw [h, mem_firstAppearance] at hs
    obtain ⟨o, ho, hso⟩ := List.mem_flatMap.mp hs
    have := (getFreeSymbols_eq_nil o.params).mpr (hall o ho)
    unfold Op.freeSymbols at hso
    rw [this] at hso; simp at hso

/-! ## Sentence 7 — power and exponential refuse with NotImplementedError -/

/-- S7: `Power.bind` raises NotImplementedError -/
theorem bind_power_notimpl (m : SymMap) (g : Gate) (e : Rat) : (Gate.pow g e).bind m = .err .notimpl := rfl

/-- S7: `Exponential.bind` raises NotImplementedError -/
theorem bind_exp_notimpl (m : SymMap) (g : Gate) : (Gate.exp g).bind m = .err .notimpl := rfl

/-- S7, every chain: `bind` either returns a gate (exactly when no power/exponential wrapper occurs
    anywhere in the chain, and then the result contains none either) or raises NotImplementedError –
    never another error, never a gate for a chain that contains such a wrapper. -/
theorem bind_refuses_iff (m : SymMap) (g : Gate) :
    (g.isCD = true → ∃ g', g.bind m = .ok g' ∧ g'.isCD = true) ∧
    (g.isCD = false → g.bind m = .err .notimpl) :=
  ⟨fun h => bind_cd m h, fun h => bind_not_cd m h⟩

/-- S7, why nothing is lost: a power / exponential gate cannot even be built over free symbols
    (constructor guard), so a gate that refuses to bind has no free symbols to bind. -/
theorem power_exp_no_free (g g' : Gate) (e : Rat) :
    (mkPow g e = .ok g' → g'.freeSymbols = []) ∧ (mkExp g = .ok g' → g'.freeSymbols = []) := by
  constructor
  · intro h
    unfold mkPow at h
    split at h
    · rename_i hf
      injection h with h; subst h
      simpa [Gate.freeSymbols, Gate.params] using hf
    · simp at h
  · intro h
    unfold mkExp at h
    split at h
    · rename_i hf
      injection h with h; subst h
      simpa [Gate.freeSymbols, Gate.params] using hf
    · simp at h

/-! ## bind = replace_params ∘ sub_symbols -/

/-- mechanism: whenever `bind` returns, it is `replace_params` applied to the substituted tuple, and
    `replace_params` installs exactly the tuple it is given. -/
theorem bind_eq_replace_params (m : SymMap) (g g' : Gate) (h : g.bind m = .ok g') :
    g.replaceParams (g.params.map (subSymbols m)) = .ok g' ∧ g'.params = g.params.map (subSymbols m) :=
  ⟨bind_eq_replaceParams h, params_bind h⟩

/-! ## non-vacuity: concrete inputs meeting the hypotheses -/
namespace Ex
def x : PExpr := .sym "x"
def y : PExpr := .sym "y"
def z : PExpr := .sym "z"
/-- `RX(2*x*y + 1)` -/
def rx1 : Gate := .mf "RX" (.builtin "RX") [.expr (.add (.mul (.mul (.num 2) x) y) (.num 1))] 1 false
/-- custom gate `U(theta, gamma)` with matrix [[theta, gamma], [gamma*theta, 1]] and ordering (gamma, theta) -/
def cust (ps : List Param) : Gate :=
  .mf "U" (.custom [[.sym "theta", .sym "gamma"], [.mul (.sym "gamma") (.sym "theta"), .num 1]] ["gamma", "theta"]) ps 1 false
def pt (s : String) : Option Rat := if s = "y" then some 3 else if s = "z" then some (1/2) else some 7

-- a partial map into an expression parameter with two symbols
example : rx1.bind [("x", .number (1/2))] =
    .ok (.mf "RX" (.builtin "RX") [.expr (.add (.mul (.mul (.num 2) (.num (1/2))) y) (.num 1))] 1 false) := by
  decide +kernel
example : (Gate.ctrl (.dag rx1) 2).bind [("x", .expr z), ("w", .number 5)] =
    .ok (.ctrl (.dag (.mf "RX" (.builtin "RX") [.expr (.add (.mul (.mul (.num 2) z) y) (.num 1))] 1 false)) 2) := by
  decide +kernel
-- re-association by bind: a hand-made Dagger(ControlledGate(Controlled(RX))) comes back as c-c-c-RX†
example : (Gate.dag (.ctrl (.ctrl rx1 1) 2)).bind [] = .ok (.ctrl (.dag rx1) 3) := by decide +kernel
-- the hypotheses of gateMatrix_bind are satisfiable: lawful interpretation, truthful flags, closed custom gate
example : HermOK freeSem (.ctrl (.mf "X" (.builtin "X") [] 1 true) 1) := by
  intro _ ps ρ; simp [mfMatrix, freeSem, hermNames]
example : CustomOK (cust [.expr x, .number 2]) := by
  refine ⟨by decide, ?_⟩
  intro row hrow e he s hs
  simp only [List.mem_cons, List.not_mem_nil, or_false] at hrow
  rcases hrow with rfl | rfl <;>
    simp only [List.mem_cons, List.not_mem_nil, or_false] at he <;>
    rcases he with rfl | rfl <;> simp [PExpr.symbols] at hs <;> simp [hs]
example : gateMatrix freeSem pt (.ctrl (.dag rx1) 2) = .g 2 true "RX" [[some 43]] := by decide +kernel
-- F15 (fixed): formal `gamma` is replaced by actual `theta`, formal `theta` by `gamma`, simultaneously
example : customEntries [[.sym "theta", .sym "gamma"]] ["gamma", "theta"] [.expr (.sym "theta"), .expr (.sym "gamma")]
    = [[.sym "gamma", .sym "theta"]] := by decide +kernel
-- step-wise = once, with a symbolic value
example : NoMention [("x", .expr z)] [("y", .number 3)] := by
  intro k v h s hs
  by_cases hk : k = "x"
  · subst hk
    simp only [lookup, if_true, Option.some.injEq] at h
    subst h
    simp only [Param.symbols, z, PExpr.symbols, List.mem_singleton] at hs
    subst hs; decide
  · simp [lookup, Ne.symm hk] at h
example : (rx1.bind [("x", .expr z)]).bind (Gate.bind [("y", .number 3)]) =
    rx1.bind [("x", .expr z), ("y", .number 3)] := by decide +kernel
-- free symbols: sorted by name per gate, first appearance per circuit
example : rx1.freeSymbols = ["x", "y"] := by decide +kernel
example : Circuit.freeSymbols ⟨[.gate (.mf "RY" (.builtin "RY") [.expr y] 1 false) [0], .gate rx1 [1],
    .multiPhase [.expr z, .expr x, .number 1, .number 2]], 2⟩ = ["y", "x", "z"] := by decide +kernel
example : Circuit.freeSymbols ⟨[.gate (.mf "RY" (.builtin "RY") [.number 1] 1 false) [0]], 1⟩ = [] := by decide +kernel
-- refusals
example : (Gate.ctrl (.pow (.mf "X" (.builtin "X") [] 1 true) (1/2)) 1).bind [("x", .number 1)] = .err .notimpl := by
  decide +kernel
example : mkPow rx1 2 = .err .value := by decide +kernel
-- a circuit with a reset binds to the same reset (regression input of the fixed defect)
example : Circuit.bind [("x", .number 1)] ⟨[.gate (.mf "RX" (.builtin "RX") [.expr x] 1 false) [0], .reset 0], 1⟩ =
    .ok ⟨[.gate (.mf "RX" (.builtin "RX") [.number 1] 1 false) [0], .reset 0], 1⟩ := by
  decide +kernel
example : (mkCircuit [.gate rx1 [2]] 0).nQubits = 3 := by decide +kernel
end Ex

end OQ.C06
