/-
  C16 — PROPERTY THEOREMS: time-evolution circuits implement exp(−i t H) term by term, and its derivative.
  Model: OQ/Model/C16.lean (mirrors src/orquestra/quantum/evolution.py).
  Helper lemmas: OQ/Lemmas/C16_Spec.lean (tensor products, permutation matrices, "gate on qubits" = Spec.lift),
                 OQ/Lemmas/C16_Gates.lean (2×2 identities), OQ/Lemmas/C16.lean (circuits),
                 OQ/Lemmas/C16_Exp.lean (matrix exponential over ℂ), OQ/Lemmas/C16_Deriv.lean (parameter shift,
                 Leibniz rule, entrywise derivatives), OQ/Lemmas/C16_DerivModel.lean (what `derivatives` returns).

  Semantics.  `circSem k ang rg.e c` is the matrix of the model circuit `c` on a register `ι` of qubits: the
  product, last operation leftmost, of `gateOn M qs = Spec.lift (qs | rest) M` for the executable gate matrices
  `M` of OQ/Model/Gates.lean.  `pauliString k pa = ⊗_p σ(pa p)` is the Kronecker definition of a Pauli string.
  Ring statements hold over every commutative ⋆-ring with constants satisfying `ScalLaws`
  (i² = −1, 2r² = 1, cj = star, star i = −i, star r = r); `ang` interprets a gate angle as its half-angle point
  and is only required to send the code's `np.pi / 2` to (r, r).  The ℂ statements instantiate
  `ang θ = (cos θ/2, sin θ/2)` for real θ, real coefficients and real times.
-/
import OQ.Lemmas.C16
import OQ.Lemmas.C16_Exp
import OQ.Lemmas.C16_Deriv
import OQ.Lemmas.C16_DerivModel
set_option linter.unusedSectionVars false
namespace OQ.C16
open Matrix OQ.Spec OQ.Pauli

section ring
variable {R : Type} [CommRing R] [StarRing R] {ι : Type} [Fintype ι] [DecidableEq ι] {T : Type}
variable {Q : Type} [One Q] [Mul Q] [Div Q] [Neg Q] [NatCast Q] [DecidableEq Q]

/-- "a constant term gives an empty circuit" — whatever its coefficient and the time. -/
theorem constant_term_empty (alg : TimeAlg Q T) (negl : Q → Bool) (t : Term (Q × Q)) (time : T)
    (h : t.ops = []) : evolutionForTerm alg negl t time = .ok [] := by
  simp [evolutionForTerm, h]

/-- "a term whose coefficient has a non-negligible imaginary part is rejected rather than silently truncated":
    a non-constant term is rejected (ValueError) EXACTLY when its imaginary part is not negligible
    (`negl x` is `abs x ≤ 1e-9`), whatever the sign of the imaginary part; no other error is possible. -/
theorem imag_rejected (alg : TimeAlg Q T) (negl : Q → Bool) (t : Term (Q × Q)) (time : T) (hne : t.ops ≠ []) :
    (negl t.coeff.2 = false → evolutionForTerm alg negl t time = .error .value) ∧
    (∀ e, evolutionForTerm alg negl t time = .error e → negl t.coeff.2 = false ∧ e = .value) := by
  have h0 : t.ops.isEmpty = false := by simpa using hne
  constructor
  · intro h; simp [evolutionForTerm, h0, h]
  · intro e he
    unfold evolutionForTerm at he
    simp only [h0, Bool.false_eq_true, if_false] at he
    cases hn : negl t.coeff.2 with
    | false => simp [hn] at he; exact ⟨rfl, he.symm⟩
    | true =>
      simp only [hn, Bool.not_true, Bool.false_eq_true, if_false] at he
      split at he <;> cases he

/-- `basis_change_conj`, one qubit: H·Z·H = X and RX(π/2)ᴴ·Z·RX(π/2) = +Y (the code's sign convention:
    basis change RX(+π/2) before, its Dagger after), for the gate matrices of the library. -/
theorem basis_change_conj (k : Scal R) (hk : ScalLaws k) :
    toB (Gates.h k) * σz * toB (Gates.h k) = pauliB k (some .X) ∧
    (toB (Gates.rx k ⟨k.r, k.r⟩))ᴴ * σz * toB (Gates.rx k ⟨k.r, k.r⟩) = pauliB k (some .Y) ∧
    toB (adjoint2 k (Gates.rx k ⟨k.r, k.r⟩)) = (toB (Gates.rx k ⟨k.r, k.r⟩))ᴴ :=
  ⟨bInv_z_bMat k hk .X, bInv_z_bMat k hk .Y, toB_adjoint2 k hk _⟩

/-- `basis_change_conj`, lifted qubit-wise: the basis-change circuit of a term conjugates Z on the term's support
    into the term's Pauli string, and is undone by its inverse circuit. -/
theorem basis_change_conj_lifted (k : Scal R) (hk : ScalLaws k) (alg : TimeAlg Q T) (ang : T → Ang R)
    (hpi : ang (alg.smul (1 / ((2 : Nat) : Q)) alg.pi) = ⟨k.r, k.r⟩)
    (rg : Register ι) (t : Term (Q × Q)) (hcov : rg.Covers t) (hnd : (t.ops.map (·.1)).Nodup) :
    let qs := sortedQubits t
    circSem k ang rg.e (inverse (basisChange alg t qs)) * Zstr (qs.map rg.e) * circSem k ang rg.e (basisChange alg t qs)
      = pauliString k (fun p => t.opAt (rg.lab p)) ∧
    circSem k ang rg.e (inverse (basisChange alg t qs)) * circSem k ang rg.e (basisChange alg t qs) = 1 :=
  basis_conj_lifted k hk alg ang hpi rg t hcov hnd

/-- `ladder_is_parity`: for EVERY number of qubits, the CNOT ladder over distinct qubits turns Z on the last
    qubit into Z on all of them (it computes the parity into the last qubit), and its inverse undoes it. -/
theorem ladder_is_parity (k : Scal R) (ang : T → Ang R) (e : ℕ → ι) (qs : List ℕ) (hnd : (qs.map e).Nodup)
    (last : ℕ) (hl : qs.getLast? = some last) :
    circSem k ang e (inverse (ladder qs : Circ T)) * Zstr [e last] * circSem k ang e (ladder qs : Circ T)
      = Zstr (qs.map e) ∧
    circSem k ang e (inverse (ladder qs : Circ T)) * circSem k ang e (ladder qs : Circ T) = 1 :=
  ⟨ladder_conj_z k ang e qs hnd last hl, ladder_inverse_mul k ang e qs hnd⟩

/-- `zstring_evolution`: ladder, central RZ(θ), ladder undone = cos(θ/2)·1 − i·sin(θ/2)·Z_S for every support size. -/
theorem zstring_evolution (k : Scal R) (ang : T → Ang R) (e : ℕ → ι) (qs : List ℕ) (hnd : (qs.map e).Nodup)
    (last : ℕ) (hl : qs.getLast? = some last) (θ : T) :
    circSem k ang e ((ladder qs : Circ T) ++ [⟨.RZ θ, [last]⟩] ++ inverse (ladder qs))
      = (ang θ).ch • (1 : Matrix (BV ι) (BV ι) R) - (k.i * (ang θ).sh) • Zstr (qs.map e) :=
  zrot_sem k ang e qs hnd last hl θ

/-- `term_evolution`: for EVERY Pauli term (any weight, any letters, any insertion order of the qubits) with an
    accepted coefficient, the circuit's matrix is cos(tc)·1 − i·sin(tc)·P, where (cos tc, sin tc) is the half-angle
    point of the central angle θ = 2·t·c the code computes. -/
theorem term_evolution (k : Scal R) (hk : ScalLaws k) (alg : TimeAlg Q T) (negl : Q → Bool) (ang : T → Ang R)
    (hpi : ang (alg.smul (1 / ((2 : Nat) : Q)) alg.pi) = ⟨k.r, k.r⟩)
    (rg : Register ι) (t : Term (Q × Q)) (hcov : rg.Covers t) (hnd : (t.ops.map (·.1)).Nodup) (hne : t.ops ≠ [])
    (time : T) (c : Circ T) (hc : evolutionForTerm alg negl t time = .ok c) :
    circSem k ang rg.e c
      = (ang (alg.smul t.coeff.1 (alg.smul ((2 : Nat) : Q) time))).ch • (1 : Matrix (BV ι) (BV ι) R)
        - (k.i * (ang (alg.smul t.coeff.1 (alg.smul ((2 : Nat) : Q) time))).sh)
            • pauliString k (fun p => t.opAt (rg.lab p)) :=
  term_sem k hk alg negl ang hpi rg t hcov hnd hne time c hc

/-- "For a sum, the circuit equals the product over the requested number of steps of the per-term circuits for
    time t/steps, taken in the order the terms are listed": the accepted results of `time_evolution` are exactly
    the n-fold repetition of the concatenation, in list order, of the per-term circuits at time (1/n)·t — as
    circuits, and hence as matrices (first listed term rightmost, the step to the n-th power). -/
theorem evolution_product_order (k : Scal R) (alg : TimeAlg Q T) (negl : Q → Bool) (ang : T → Ang R) (e : ℕ → ι)
    (h : PSum (Q × Q)) (time : T) (n : ℕ) (hn : 1 ≤ n) (c : Circ T) :
    timeEvolution alg negl h time n = .ok c ↔
      ∃ cs : List (Circ T),
        List.Forall₂ (fun t ct => evolutionForTerm alg negl t (alg.smul (1 / (n : Q)) time) = .ok ct) h cs ∧
        c = (List.replicate n cs.flatten).flatten ∧
        circSem k ang e c = ((cs.reverse.map (circSem k ang e)).prod) ^ n :=
  timeEvolution_ok k alg negl ang e h time n hn c

/-- `_generate_circuit_sequence`: rejected iff position ≥ length; otherwise `length` blocks, the one at `position`
    being the different circuit, all others the repeated one. -/
theorem sequence_spec (rep diff : Circ T) (len pos : ℕ) :
    (len ≤ pos → generateCircuitSequence rep diff len pos = .error .value) ∧
    (pos < len → generateCircuitSequence rep diff len pos
        = .ok ((List.replicate pos rep).flatten ++ diff ++ (List.replicate (len - pos - 1) rep).flatten)) :=
  ⟨fun h => by simp [generateCircuitSequence, h], fun h => generateCircuitSequence_ok rep diff len pos h⟩

/-! ### tier B: the derivative circuits -/

/-- `param_shift`, ring identity: for V = c·1 − i·s·P (P hermitian, c and s fixed by conjugation), V′ = −s·1 − i·c·P
    (the derivative of V in its half angle) and V± the rotations by ±π/4 more in the half angle (the code's shift of
    the RZ angle by ±π/2),  V′ᴴ X V + Vᴴ X V′ = V₊ᴴ X V₊ − V₋ᴴ X V₋  for every X.  No P² = 1 is needed. -/
theorem param_shift {m : Type} [Fintype m] [DecidableEq m] (k : Scal R) (hk : ScalLaws k) (P : Matrix m m R)
    (hP : Pᴴ = P) (c s : R) (hc : star c = c) (hs : star s = s) (X : Matrix m m R) :
    (rotM k P (-s) c)ᴴ * X * rotM k P c s + (rotM k P c s)ᴴ * X * rotM k P (-s) c
      = (rotM k P (k.r * (c - s)) (k.r * (c + s)))ᴴ * X * rotM k P (k.r * (c - s)) (k.r * (c + s))
        - (rotM k P (k.r * (c + s)) (k.r * (s - c)))ᴴ * X * rotM k P (k.r * (c + s)) (k.r * (s - c)) :=
  param_shift_core k hk P hP c s hc hs X

/-- Leibniz sum over positions, formal-derivative form over any commutative ⋆-ring: for an n-fold repetition of a
    step ∏ V_j whose factors satisfy the parameter-shift identity, with W the whole product and
    DW = Σ_{positions} r_j · (W with that factor replaced by V_j′) its formal derivative,
    DWᴴ O W + Wᴴ O DW = Σ ±r_j · (W with that factor shifted by ±)ᴴ O (same), for every O. -/
theorem derivative_formal {m : Type} [Fintype m] [DecidableEq m] (n : ℕ) (ds : List (FData m R))
    (hds : ∀ d ∈ ds, d.ShiftOK) (O : Matrix m m R) :
    (dProd n ds)ᴴ * O * seqProd (ds.map (·.V)) ^ n + (seqProd (ds.map (·.V)) ^ n)ᴴ * O * dProd n ds
      = ((shiftList n ds).map (fun y => y.1 • (y.2ᴴ * O * y.2))).sum :=
  leibniz_shift_list (places n ds) _ O (fun x hx =>
    ⟨(places_spec n ds x hx).1, hds _ (places_spec n ds x hx).2⟩)

/-- where `time_evolution_derivatives` is defined (full strength, after the fix `if r == 0: continue`): for n ≥ 1 it
    returns circuits and factors for EVERY Hamiltonian whose non-constant terms pass the imaginary-part guard – zero
    coefficients included (those terms are skipped) – and it fails only when a guard the code actually evaluates
    fails (the guards are evaluated when n > 1 or some term has a non-zero rate r = c/n). -/
theorem derivatives_defined (alg : TimeAlg Q T) (negl : Q → Bool) (h : PSum (Q × Q)) (time : T) (n : ℕ)
    (hn : 1 ≤ n) :
    ((∀ t ∈ h, acc negl t = true) → ∃ l, derivatives alg negl h time n = .ok l) ∧
    ((∃ l, derivatives alg negl h time n = .ok l) ↔
      ((n > 1 ∨ ∃ t ∈ h, rate n t ≠ ((0 : Nat) : Q)) → ∀ t ∈ h, acc negl t = true)) := by
  refine ⟨fun hacc => ⟨_, derivatives_total alg negl h time n hn (fun _ => hacc)⟩, ⟨?_, ?_⟩⟩
  · rintro ⟨l, hl⟩
    exact (derivatives_ok alg negl h time n hn l hl).1
  · intro hacc
    exact ⟨_, derivatives_total alg negl h time n hn hacc⟩

/-- the order and shape of what is returned: for every position p < n (outer loop) and every term with r = c/n ≠ 0
    and sign ± (inner loops; `singleList` = the splits of the Hamiltonian through `derivTwo`, which is empty for a
    term with r = 0), the factor ±c/n paired with p copies of the plain step, the step with that term's time shifted
    by ±π/(4r), and n − p − 1 more copies of the plain step. -/
theorem derivatives_shape (alg : TimeAlg Q T) (negl : Q → Bool) (h : PSum (Q × Q)) (time : T) (n : ℕ) (hn : 1 ≤ n)
    (l : List (Q × Circ T)) (hl : derivatives alg negl h time n = .ok l) :
    l = (List.range n).flatMap (fun p =>
          (singleList alg time n h).map (fun x => (x.1, spliceCirc (repStep alg time n h) n p x.2))) :=
  (derivatives_ok alg negl h time n hn l hl).2

end ring

/-! ### over ℂ: real times, real coefficients, the matrix exponential -/
section complex
variable {ι : Type} [Fintype ι] [DecidableEq ι]
open Complex

/-- `exp_pauli`: exp(−iθP) = cos θ·1 − i·sin θ·P for every Pauli string P on every register and every real θ. -/
theorem exp_pauli (pa : ι → Option P) (θ : ℝ) :
    NormedSpace.exp ((-(I * θ)) • pauliString Scal.complex pa)
      = (Real.cos θ : ℂ) • (1 : Matrix (BV ι) (BV ι) ℂ) - (I * Real.sin θ) • pauliString Scal.complex pa :=
  exp_pauliString pa θ

/-- "For any Pauli term P with real coefficient c and any time t the evolution circuit's matrix equals
    exp(−i t c P) exactly": model at Q = T = ℝ, gate angles interpreted by the real cosine and sine. -/
theorem term_evolution_exp [DecidableEq ℝ] (negl : ℝ → Bool) (rg : Register ι) (t : Term (ℝ × ℝ))
    (hcov : rg.Covers t) (hnd : (t.ops.map (·.1)).Nodup) (hne : t.ops ≠ [])
    (time : ℝ) (c : Circ ℝ) (hc : evolutionForTerm realAlg negl t time = .ok c) :
    circSem Scal.complex angReal rg.e c
      = NormedSpace.exp ((-(I * ((time * t.coeff.1 : ℝ) : ℂ))) • pauliString Scal.complex (fun p => t.opAt (rg.lab p))) :=
  term_sem_exp negl rg t hcov hnd hne time c hc

/-- the sum over ℂ: the circuit of `time_evolution` is (∏_k exp(−i (t/n) c_k P_k))ⁿ, the product taken in the
    listed order (first term rightmost); constant terms contribute the identity (empty circuit). -/
theorem evolution_product_exp [DecidableEq ℝ] (negl : ℝ → Bool) (rg : Register ι) (h : PSum (ℝ × ℝ))
    (hcov : ∀ t ∈ h, rg.Covers t) (hnd : ∀ t ∈ h, (t.ops.map (·.1)).Nodup)
    (time : ℝ) (n : ℕ) (hn : 1 ≤ n) (c : Circ ℝ) (hc : timeEvolution realAlg negl h time n = .ok c) :
    circSem Scal.complex angReal rg.e c
      = (((h.map (fun t => if t.ops = [] then (1 : Matrix (BV ι) (BV ι) ℂ) else
            NormedSpace.exp ((-(I * (((1 / (n : ℝ)) * time * t.coeff.1 : ℝ) : ℂ)))
              • pauliString Scal.complex (fun p => t.opAt (rg.lab p))))).reverse).prod) ^ n :=
  timeEvolution_exp negl rg h hcov hnd time n hn c hc

/-- "The derivative circuits and factors returned for any number of steps satisfy: the factor-weighted sum of any
    observable's expectation over those circuits equals the derivative with respect to t of its expectation under
    the evolution circuit with the same number of steps."  Real analysis (Mathlib `HasDerivAt`), model at Q = T = ℝ:
    whenever `time_evolution_derivatives` returns (l = the list of (factor, circuit) pairs) and the evolution circuit
    with the same number of steps exists at that time (`hev`; it then exists at every time), for EVERY matrix O
    (hermitian or not) and EVERY vector ψ (normalised or not), with U(s) the matrix of the circuit
    `time_evolution(h, s, n_steps = n)`,
       d/ds ⟨U(s)ψ| O |U(s)ψ⟩ at s = time  =  Σ_{(f, C) ∈ l} f · ⟨Cψ| O |Cψ⟩.
    Terms with coefficient 0 are skipped by the code and contribute 0 to the derivative (their factor is constant).
    `hev` follows from `hl` except in the degenerate case n = 1 with every real part 0, where the code evaluates no
    guard at all (a purely imaginary Hamiltonian: no evolution circuit exists to differentiate). -/
theorem derivative_correct [DecidableEq ℝ] (negl : ℝ → Bool) (rg : Register ι) (h : PSum (ℝ × ℝ))
    (hcov : ∀ t ∈ h, rg.Covers t) (hnd : ∀ t ∈ h, (t.ops.map (·.1)).Nodup)
    (time : ℝ) (n : ℕ) (hn : 1 ≤ n) (C0 : Circ ℝ) (hev : timeEvolution realAlg negl h time n = .ok C0)
    (l : List (ℝ × Circ ℝ)) (hl : derivatives realAlg negl h time n = .ok l)
    (O : Matrix (BV ι) (BV ι) ℂ) (ψ : BV ι → ℂ) :
    ∃ U : ℝ → Matrix (BV ι) (BV ι) ℂ,
      (∀ s, ∃ C, timeEvolution realAlg negl h s n = .ok C ∧ circSem Scal.complex angReal rg.e C = U s) ∧
      HasDerivAt (fun s => star (U s *ᵥ ψ) ⬝ᵥ (O *ᵥ (U s *ᵥ ψ)))
        ((l.map (fun x => (x.1 : ℂ) *
            (star (circSem Scal.complex angReal rg.e x.2 *ᵥ ψ) ⬝ᵥ (O *ᵥ (circSem Scal.complex angReal rg.e x.2 *ᵥ ψ))))).sum)
        time :=
  ⟨Wt rg n h, derivative_sem negl rg h hcov hnd time n hn C0 hev l hl O ψ⟩

end complex

/-! ### non-vacuity: concrete non-trivial inputs meeting the hypotheses -/

/-- Y₂·X₀ (unsorted insertion order, a gap) with coefficient 1/2 at time τ: the circuit the code builds -/
example : evolutionForTerm ratAlg ratNegl ⟨[(2, .Y), (0, .X)], (1/2, 0)⟩ (1, 0) = .ok
    [⟨.H, [0]⟩, ⟨.RX (0, 1/2), [2]⟩, ⟨.CNOT, [0, 2]⟩, ⟨.RZ (1, 0), [2]⟩, ⟨.CNOT, [0, 2]⟩, ⟨.RXdg (0, 1/2), [2]⟩, ⟨.H, [0]⟩] := by
  decide +kernel
/-- the hypotheses of `term_evolution` on that term: distinct qubits, covered by the 3-qubit register, non-constant -/
example : ((([(2, .Y), (0, .X)] : List (ℕ × P))).map (·.1)).Nodup ∧
    (Register.fin 2).Covers (⟨[(2, .Y), (0, .X)], ((1/2 : Rat), (0 : Rat))⟩ : Term (Rat × Rat)) :=
  ⟨by decide, Register.fin_covers 2 _ (by decide)⟩
/-- the constants over ℂ satisfy the laws; π/2 is sent to (1/√2, 1/√2) -/
example : ScalLaws Scal.complex ∧ angReal (realAlg.smul (1 / ((2 : ℕ) : ℝ)) realAlg.pi) = ⟨Scal.complex.r, Scal.complex.r⟩ :=
  ⟨scalLaws_complex, angReal_half_pi⟩
/-- rejected: negative and positive imaginary parts; accepted: exactly the threshold 1e-9; constant ⇒ empty -/
example : evolutionForTerm ratAlg ratNegl ⟨[(0, .Z)], (1, -1)⟩ (1, 0) = .error .value := by decide +kernel
example : evolutionForTerm ratAlg ratNegl ⟨[(0, .Z)], (1, 1/100000000)⟩ (1, 0) = .error .value := by decide +kernel
example : evolutionForTerm ratAlg ratNegl ⟨[(0, .Z)], (1, -1/1000000000)⟩ (1, 0) = .ok [⟨.RZ (2, 0), [0]⟩] := by decide +kernel
example : evolutionForTerm ratAlg ratNegl ⟨[], (2, 1)⟩ (1, 0) = .ok [] := by decide +kernel
/-- two terms, two steps: per-term circuits at time t/2, listed order, repeated twice -/
example : timeEvolution ratAlg ratNegl [⟨[(0, .X)], (1, 0)⟩, ⟨[(0, .Z)], (3, 0)⟩] (2, 0) 2 = .ok
    [⟨.H, [0]⟩, ⟨.RZ (2, 0), [0]⟩, ⟨.H, [0]⟩, ⟨.RZ (6, 0), [0]⟩,
     ⟨.H, [0]⟩, ⟨.RZ (2, 0), [0]⟩, ⟨.H, [0]⟩, ⟨.RZ (6, 0), [0]⟩] := by decide +kernel
/-- sequence: position 1 of 3 -/
example : generateCircuitSequence [⟨GateK.H, [0]⟩] [⟨(GateK.CNOT : GateK (Rat × Rat)), [0, 1]⟩] 3 1
    = .ok [⟨.H, [0]⟩, ⟨.CNOT, [0, 1]⟩, ⟨.H, [0]⟩] := by decide +kernel
example : generateCircuitSequence [⟨GateK.H, [0]⟩] [⟨(GateK.CNOT : GateK (Rat × Rat)), [0, 1]⟩] 2 2 = .error .value := by
  decide +kernel

/-- derivative circuits for Z₀ + 2·I with two steps: 8 circuits, factors ±1/2, ±1 per position (the constant term's
    two circuits coincide, so they cancel) -/
example : (derivatives ratAlg ratNegl [⟨[(0, .Z)], (1, 0)⟩, ⟨[], (2, 0)⟩] (2, 0) 2).toOption.map
      (fun l => l.map (·.1)) = some [1/2, -1/2, 1, -1, 1/2, -1/2, 1, -1] := by decide +kernel
example : (derivatives ratAlg ratNegl [⟨[(0, .X)], (1, 0)⟩] (2, 0) 1) = .ok
    [(1, [⟨.H, [0]⟩, ⟨.RZ (4, 1/2), [0]⟩, ⟨.H, [0]⟩]), (-1, [⟨.H, [0]⟩, ⟨.RZ (4, -1/2), [0]⟩, ⟨.H, [0]⟩])] := by
  decide +kernel
/-- zero coefficients (fixed 9211baa: formerly ZeroDivisionError): the term is skipped – no circuits, no factors –
    while it still appears (as RZ(0)) inside the circuits of the other terms -/
example : derivatives ratAlg ratNegl [⟨[(0, .Z)], (0, 0)⟩] (1, 0) 1 = .ok [] := by decide +kernel
example : (derivatives ratAlg ratNegl [⟨[(0, .X)], (1, 0)⟩, ⟨[(1, .Z)], (0, 0)⟩] (1, 0) 2).toOption.map
      (fun l => l.map (fun x => (x.1, x.2.length))) = some [(1/2, 8), (-1/2, 8), (1/2, 8), (-1/2, 8)] := by
  decide +kernel
/-- an imaginary part is rejected by the derivative function as well (through `time_evolution_for_term`) -/
example : derivatives ratAlg ratNegl [⟨[(0, .X)], (1, -1)⟩] (1, 0) 1 = .error .value := by decide +kernel

/-- the hypotheses of `derivative_correct` are met over ℝ by X₀Y₁ + ½·Z₁ + 0·Z₀ (a zero coefficient) with two steps,
    at every time: the derivative circuits are returned, the evolution circuit exists, the register covers the terms -/
example [DecidableEq ℝ] (time : ℝ) :
    (∃ l, derivatives realAlg (fun _ => true)
        [⟨[(0, .X), (1, .Y)], (1, 0)⟩, ⟨[(1, .Z)], (1/2, 0)⟩, ⟨[(0, .Z)], (0, 0)⟩] time 2 = .ok l) ∧
    (∃ C0, timeEvolution realAlg (fun _ => true)
        [⟨[(0, .X), (1, .Y)], (1, 0)⟩, ⟨[(1, .Z)], (1/2, 0)⟩, ⟨[(0, .Z)], (0, 0)⟩] time 2 = .ok C0) ∧
    (∀ t ∈ ([⟨[(0, .X), (1, .Y)], (1, 0)⟩, ⟨[(1, .Z)], (1/2, 0)⟩, ⟨[(0, .Z)], (0, 0)⟩] : PSum (ℝ × ℝ)),
      (Register.fin 1).Covers t ∧ (t.ops.map (·.1)).Nodup) := by
  refine ⟨?_, ?_, ?_⟩
  · exact (derivatives_defined realAlg (fun _ => true) _ time 2 (by norm_num)).1 (fun t _ => by simp [acc])
  · exact ⟨_, timeEvolution_acc realAlg (fun _ => true) _ time 2 (fun t _ => by simp [acc])⟩
  · intro t ht
    simp only [List.mem_cons, List.not_mem_nil, or_false] at ht
    rcases ht with rfl | rfl | rfl
    · exact ⟨Register.fin_covers 1 _ (by decide), by decide⟩
    · exact ⟨Register.fin_covers 1 _ (by decide), by decide⟩
    · exact ⟨Register.fin_covers 1 _ (by decide), by decide⟩

end OQ.C16
