/-
  C01 — PROPERTY THEOREMS: a circuit acts as the ordered product of its gates on the named qubits.
  Model: OQ/Model/Lift.lean (`_unitary_tools.py`) + OQ/Model/C01.lean (circuit, operations, simulators).
  Spec:  OQ/Spec/Lift.lean (`lift σ M`: gate on the qubits named by σ, identity elsewhere).
  Helper lemmas: OQ/Lemmas/C01_{Bits,Perm,Mat,Kron,Window,Lift,Spec,Circ,Add,Reject,Complex}.lean.
  All theorems hold over every commutative ring `R` (in particular ℂ, and ℚ(ζ₈) which the driver runs).

  Vocabulary (defined in the lemma files):
    bit n q x          bit of qubit q in the basis index x of an n-qubit register, (x / 2^(n-1-q)) % 2
                       – qubit 0 is the MOST significant bit;
    sub n qs x         the index read off x at the positions qs, first listed qubit most significant;
    bvEquiv n          Fin (2^n) ≃ (Fin n → Bool), MSB first;  toBV n A / toBVv n v: an executable matrix /
                       state vector re-indexed by bit assignments;
    sigmaOf qs n       the partition  Fin k ⊕ {q // q ∉ qs} ≃ Fin n  placing the j-th gate qubit at qs[j];
    OpValid n o        what the library accepts: ≥ 1 index, distinct, all < n, a 2^k × 2^k matrix;
    opSem n o          SPEC of a gate operation = Spec.lift (sigmaOf o.qs n) (own matrix);
    operSem n op       gate: opSem; phase-only operation: the diagonal matrix of its factors;
    circSem n ops      SPEC of a circuit = product over the operations in program order, first rightmost.
-/
import OQ.Lemmas.C01
namespace OQ.C01
open OQ.Lift OQ OQ.Spec Matrix
variable {R : Type} [CommRing R]

/-! ### Sentence 1 — the embedding of one gate (`_lift_matrix`) -/

/-- (i) MAIN THEOREM, pointwise characterisation of `_lift_matrix`: for every register width `n`, every
    list `qs` of distinct indices `< n` (any order, gaps, any arity `k ≥ 1`, idle qubits) and every
    `2^k × 2^k` matrix `m`, the embedding succeeds, is `2^n × 2^n`, and its entry at (row, col) is the
    entry of `m` at the sub-indices read at `qs` when row and col agree on every other qubit, else 0. -/
theorem liftMatrix_pointwise (m : Mat R) (qs : List Nat) (n : Nat)
    (hne : qs ≠ []) (hd : qs.Nodup) (hlt : ∀ q ∈ qs, q < n)
    (hmr : m.r = 2 ^ qs.length) (hmc : m.c = 2 ^ qs.length) :
    ∃ L, liftMatrix m qs n = some L ∧ L.r = 2 ^ n ∧ L.c = 2 ^ n ∧
      ∀ row col, row < 2 ^ n → col < 2 ^ n →
        L.get row col = if (∀ q, q < n → q ∉ qs → bit n q row = bit n q col)
          then m.get (sub n qs row) (sub n qs col) else 0 :=
  liftMatrix_get m qs n hne hd hlt hmr hmc

/-- (ii) the same transported to the specification: the executable embedding IS `Spec.lift` of the gate's
    own matrix along the partition that puts the j-th gate qubit on `qs[j]` (qubit 0 = most significant
    bit on both sides), identity on every other qubit. -/
theorem liftMatrix_eq_spec_lift (m : Mat R) (qs : List Nat) (n : Nat)
    (hne : qs ≠ []) (hd : qs.Nodup) (hlt : ∀ q ∈ qs, q < n)
    (hmr : m.r = 2 ^ qs.length) (hmc : m.c = 2 ^ qs.length) :
    ∃ L, liftMatrix m qs n = some L ∧ L.r = 2 ^ n ∧ L.c = 2 ^ n ∧
      toBV n L = Spec.lift (sigmaOf qs n hd hlt) (toBV qs.length m) :=
  liftMatrix_eq_lift m qs n hne hd hlt hmr hmc

/-- `GateOperation.lifted_matrix` is accepted EXACTLY on the valid operations (otherwise the code raises:
    empty tuple, duplicated index, index outside the register, matrix of the wrong arity). -/
theorem lifted_matrix_defined_iff (n : Nat) (o : Op R) : (gateLift o n).isSome ↔ OpValid n o :=
  gateLift_isSome_iff n o

/-- `GateOperation.lifted_matrix(n)` of a valid operation is the spec matrix of the operation. -/
theorem lifted_matrix_spec (n : Nat) (o : Op R) (h : OpValid n o) :
    ∃ L, gateLift o n = some L ∧ L.r = 2 ^ n ∧ L.c = 2 ^ n ∧ toBV n L = opSem n o :=
  gateLift_spec n o h

/-- pointwise reading of the spec of a gate operation: identity off the named qubits, the gate's own
    entry at the assignments restricted to `qs[0], qs[1], …` (in the listed order). -/
theorem opSem_pointwise (n : Nat) (o : Op R) (h : OpValid n o) (x y : BV (Fin n)) :
    opSem n o x y = if (∀ q : Fin n, q.val ∉ o.qs → x q = y q)
      then toBV o.qs.length o.m (fun j => x ⟨o.qs[j.val], h.lt _ (List.getElem_mem _)⟩)
                                 (fun j => y ⟨o.qs[j.val], h.lt _ (List.getElem_mem _)⟩)
      else 0 :=
  opSem_apply n o h x y

/-! ### Sentence 1 — the whole circuit (`Circuit.to_unitary`) -/

/-- (iii) for every non-empty circuit of valid gate operations, of any length and width, `to_unitary()`
    returns a `2^n × 2^n` matrix equal to the product, in program order (first operation rightmost), of
    each gate's own matrix on exactly its qubits and identity elsewhere. -/
theorem toUnitary_ordered_product (n : Nat) (gs : List (Op R)) (hne : gs ≠ []) (h : ∀ o ∈ gs, OpValid n o) :
    ∃ U, toUnitary ⟨n, gs.map Oper.gate⟩ = some U ∧ U.r = 2 ^ n ∧ U.c = 2 ^ n ∧
      toBV n U = circSem n (gs.map Oper.gate) :=
  toUnitary_spec n gs hne h

/-- program order made explicit: appending an operation multiplies its matrix ON THE LEFT. -/
theorem circSem_snoc (n : Nat) (ops : List (Oper R)) (op : Oper R) :
    circSem n (ops ++ [op]) = operSem n op * circSem n ops := by
  rw [circSem_append, circSem_cons, circSem_nil, Matrix.one_mul]

/-- F17 (negative witness): the empty circuit has NO matrix – `reduce` of an empty sequence raises. -/
theorem toUnitary_empty_none (n : Nat) : toUnitary (R := R) ⟨n, []⟩ = none := rfl

/-- a non-gate (phase-only) operation anywhere makes `to_unitary()` raise. -/
theorem toUnitary_nongate_none (n : Nat) (a b : List (Oper R)) (fs : List R) :
    toUnitary ⟨n, a ++ Oper.mphase fs :: b⟩ = none :=
  toUnitary_mphase n a b fs

/-! ### Sentence 2 — applying the operations one at a time; simulators -/

/-- `MultiPhaseOperation.apply` multiplies amplitude `k` by its factor `exp(iθ_k)`: the diagonal matrix
    of the factors applied to the state (and a length mismatch raises). -/
theorem multiPhase_apply_eq_diag (n : Nat) (fs : List R) (v : Mat R) (hvr : v.r = 2 ^ n) (hvc : v.c = 1) :
    (fs.length ≠ 2 ^ n → applyOper (.mphase fs) v = none) ∧
    (fs.length = 2 ^ n → ∃ w, applyOper (.mphase fs) v = some w ∧ w.r = 2 ^ n ∧ w.c = 1 ∧
      toBVv n w = Matrix.diagonal (fun x => fs.getD ((bvEquiv n).symm x).val 0) * toBVv n v) := by
  constructor
  · intro h
    simp only [applyOper, hvr, ne_eq]
    rw [if_pos (fun e => h e.symm)]
  · intro h
    exact applyOper_spec n (.mphase fs) h v hvr hvc

/-- corollary at `R = ℂ` for REAL parameters θ_k (the library rejects non-real ones): amplitude `k` is
    multiplied by `exp(i·θ_k)`, a factor of modulus 1 – a phase and nothing else. -/
theorem multiPhase_real_parameters (n : Nat) (thetas : List ℝ) (h : thetas.length = 2 ^ n)
    (v : Mat ℂ) (hvr : v.r = 2 ^ n) :
    ∃ w, applyOper (.mphase (thetas.map (fun θ : ℝ => Complex.exp ((θ : ℂ) * Complex.I)))) v = some w ∧
      ∀ k (hk : k < thetas.length),
        w.get k 0 = v.get k 0 * Complex.exp (thetas[k] * Complex.I) ∧
        ‖Complex.exp (thetas[k] * Complex.I)‖ = 1 :=
  multiPhase_real n thetas h v hvr

/-- (iv) applying the operations one at a time (gates and phase-only operations, in any interleaving) to
    ANY state vector gives the circuit's matrix applied to that state; with no operation, the state is
    returned unchanged (the action clause also covers the empty circuit of F17). -/
theorem applyAll_eq_circuit_matrix (n : Nat) (ops : List (Oper R)) (h : ∀ op ∈ ops, OperValid n op)
    (v : Mat R) (hvr : v.r = 2 ^ n) (hvc : v.c = 1) :
    ∃ w, applyAll ops v = some w ∧ w.r = 2 ^ n ∧ w.c = 1 ∧ toBVv n w = circSem n ops * toBVv n v :=
  applyAll_spec n ops h v hvr hvc

/-- (iv, executable form) for a non-empty circuit of gates, step-wise application equals the matrix
    REPORTED by `to_unitary()` times the initial state. -/
theorem applyAll_eq_toUnitary_mulVec (n : Nat) (gs : List (Op R)) (hne : gs ≠ []) (h : ∀ o ∈ gs, OpValid n o)
    (v : Mat R) (hvr : v.r = 2 ^ n) (hvc : v.c = 1) :
    ∃ U w, toUnitary ⟨n, gs.map Oper.gate⟩ = some U ∧ applyAll (gs.map Oper.gate) v = some w ∧
      toBVv n w = toBV n U * toBVv n v := by
  obtain ⟨U, hU, _, _, hs⟩ := toUnitary_spec n gs hne h
  obtain ⟨w, hw, _, _, hws⟩ := applyAll_spec n (gs.map Oper.gate) (by
    intro op hop
    obtain ⟨o, ho, rfl⟩ := List.mem_map.mp hop
    exact h o ho) v hvr hvc
  exact ⟨U, w, hU, hw, by rw [hws, hs]⟩

/-- `split_circuit`: the pieces are non-empty maximal runs with a constant predicate value equal to their
    tag, consecutive tags differ, concatenated they give back the operations in order, and every piece
    keeps the width of the whole circuit. -/
theorem splitCircuit_spec (c : Circ R) (p : Oper R → Bool) :
    ((splitCircuit c p).flatMap (fun s => s.2.ops) = c.ops) ∧
    (∀ s ∈ splitCircuit c p, s.2.n = c.n ∧ s.2.ops ≠ [] ∧ ∀ op ∈ s.2.ops, p op = s.1) ∧
    List.IsChain (fun a b => a.1 ≠ b.1) (splitCircuit c p) := by
  unfold splitCircuit
  refine ⟨?_, ?_, ?_⟩
  · rw [List.flatMap_map]; exact groupBy_flatten p c.ops
  · intro s hs
    obtain ⟨bg, hbg, rfl⟩ := List.mem_map.mp hs
    exact ⟨rfl, groupBy_tags p c.ops bg hbg⟩
  · rw [List.isChain_map]
    exact groupBy_alternate p c.ops

/-- (vi) EVERY simulator built on the base class, whatever set of operations it declares native
    (`isNative` arbitrary) and with phase-only operations interleaved: if its native run acts like applying
    the operations of the piece (`hnative`, the contract of `_get_wavefunction_from_native_circuit`), then
    `get_wavefunction` returns exactly what applying all operations one at a time returns, subject to the
    constructor checks of `Wavefunction`. -/
theorem getWavefunction_eq_applyAll (isNative : Oper R → Bool) (native : Circ R → Mat R → Option (Mat R))
    (valid : Mat R → Bool) (hnative : ∀ sub st, native sub st = applyAll sub.ops st)
    (c : Circ R) (init : Option (Mat R)) :
    getWavefunction isNative native valid c init =
      (applyAll c.ops (init.getD (zeroState c.n))).bind (fun st => if valid st then some st else none) :=
  getWavefunction_eq isNative native valid hnative c init

/-- the bundled `SymbolicSimulator` (everything native, native run = step-wise application). -/
theorem symbolicSimulator_eq_applyAll (valid : Mat R → Bool) (c : Circ R) (init : Option (Mat R)) :
    symbolicWavefunction valid c init =
      (applyAll c.ops (init.getD (zeroState c.n))).bind (fun st => if valid st then some st else none) :=
  symbolicWavefunction_eq valid c init

/-- (vi, closed form) the final state of any such simulator is the circuit's matrix applied to the
    initial state (`|0…0⟩` when none is given). -/
theorem getWavefunction_final_state (isNative : Oper R → Bool) (native : Circ R → Mat R → Option (Mat R))
    (valid : Mat R → Bool) (hnative : ∀ sub st, native sub st = applyAll sub.ops st)
    (c : Circ R) (h : ∀ op ∈ c.ops, OperValid c.n op) (init : Option (Mat R))
    (hinit : ∀ v, init = some v → v.r = 2 ^ c.n ∧ v.c = 1) :
    ∃ w, toBVv c.n w = circSem c.n c.ops * toBVv c.n (init.getD (zeroState c.n)) ∧
      getWavefunction isNative native valid c init = if valid w then some w else none := by
  have hv : (init.getD (zeroState c.n)).r = 2 ^ c.n ∧ (init.getD (zeroState c.n)).c = 1 := by
    cases init with
    | none => exact ⟨rfl, rfl⟩
    | some v => exact hinit v rfl
  obtain ⟨w, hw, _, _, hs⟩ := applyAll_spec c.n c.ops h _ hv.1 hv.2
  refine ⟨w, hs, ?_⟩
  rw [getWavefunction_eq isNative native valid hnative, hw]; rfl

/-! ### Sentence 3 — concatenation -/

/-- the constructor invariant: a circuit of width 0 has no operations (so pieces and sums are well formed). -/
theorem mkCircuit_wellFormed (ops : List (Oper R)) (d : Option Nat) (c : Circ R)
    (h : mkCircuit ops d = some c) : c.wf :=
  mkCircuit_wf ops d c h

/-- `c1 + c2`: operations are concatenated in order and the register width is the larger of the two. -/
theorem add_circuit_width_max (c d : Circ R) (hc : c.wf) (hd : d.wf) :
    addCirc c d = some ⟨max c.n d.n, c.ops ++ d.ops⟩ :=
  addCirc_eq c d hc hd

/-- `c + gate_operation`: appended last, width = max(width, largest index + 1); a non-gate operation is
    rejected (`NotImplementedError`). -/
theorem add_operation_width_max (c : Circ R) (o : Op R) (h : o.qs ≠ []) (fs : List R) :
    addOp c (.gate o) = some ⟨max c.n (listMax o.qs + 1), c.ops ++ [.gate o]⟩ ∧
    addOp c (.mphase fs) = none :=
  ⟨addOp_gate_eq c o h, rfl⟩

/-- widening: on a wider register a circuit of gates acts as itself on its own qubits and as the identity
    on the added (idle) qubits. -/
theorem circuit_widen (n N : Nat) (hn : n ≤ N) (gs : List (Op R)) (h : ∀ o ∈ gs, OpValid n o) :
    circSem N (gs.map Oper.gate) = Spec.lift (widenEquiv n N hn) (circSem n (gs.map Oper.gate)) :=
  circSem_widen n N hn gs h

/-- (v) concatenating two circuits composes their actions: the sum has the operations of both in order,
    the larger of the two widths, and on that register it acts as
    (second circuit, widened by identity) · (first circuit, widened by identity). -/
theorem add_composes (n1 n2 : Nat) (g1 g2 : List (Op R))
    (h1 : ∀ o ∈ g1, OpValid n1 o) (h2 : ∀ o ∈ g2, OpValid n2 o) :
    addCirc ⟨n1, g1.map Oper.gate⟩ ⟨n2, g2.map Oper.gate⟩ =
        some ⟨max n1 n2, g1.map Oper.gate ++ g2.map Oper.gate⟩ ∧
      circSem (max n1 n2) (g1.map Oper.gate ++ g2.map Oper.gate) =
        Spec.lift (widenEquiv n2 (max n1 n2) (Nat.le_max_right _ _)) (circSem n2 (g2.map Oper.gate)) *
        Spec.lift (widenEquiv n1 (max n1 n2) (Nat.le_max_left _ _)) (circSem n1 (g1.map Oper.gate)) := by
  refine ⟨?_, ?_⟩
  · by_cases hz : 0 < max n1 n2
    · exact mkCircuit_pos _ _ hz
    · -- width 0: no valid gate operation exists, both circuits are empty
      have e1 : g1 = [] := by
        cases g1 with
        | nil => rfl
        | cons o _ =>
          exfalso
          have hv := h1 o (by simp)
          cases hq : o.qs with
          | nil => exact hv.ne hq
          | cons q _ => have := hv.lt q (by simp [hq]); omega
      have e2 : g2 = [] := by
        cases g2 with
        | nil => rfl
        | cons o _ =>
          exfalso
          have hv := h2 o (by simp)
          cases hq : o.qs with
          | nil => exact hv.ne hq
          | cons q _ => have := hv.lt q (by simp [hq]); omega
      subst e1 e2
      have hm : max n1 n2 = 0 := by omega
      unfold addCirc
      simp only [List.map_nil, List.append_nil]
      rw [hm]; rfl
  · rw [circSem_append, circSem_widen n2 _ (Nat.le_max_right _ _) g2 h2,
        circSem_widen n1 _ (Nat.le_max_left _ _) g1 h1]

/-- (iii)+(v) the matrix REPORTED by `to_unitary()` for a non-empty sum is that composition. -/
theorem add_toUnitary (n1 n2 : Nat) (g1 g2 : List (Op R)) (hne : g1 ++ g2 ≠ [])
    (h1 : ∀ o ∈ g1, OpValid n1 o) (h2 : ∀ o ∈ g2, OpValid n2 o) :
    ∃ s U, addCirc ⟨n1, g1.map Oper.gate⟩ ⟨n2, g2.map Oper.gate⟩ = some s ∧ toUnitary s = some U ∧
      toBV (max n1 n2) U =
        Spec.lift (widenEquiv n2 (max n1 n2) (Nat.le_max_right _ _)) (circSem n2 (g2.map Oper.gate)) *
        Spec.lift (widenEquiv n1 (max n1 n2) (Nat.le_max_left _ _)) (circSem n1 (g1.map Oper.gate)) := by
  obtain ⟨hs, hsem⟩ := add_composes n1 n2 g1 g2 h1 h2
  have hval : ∀ o ∈ g1 ++ g2, OpValid (max n1 n2) o := by
    intro o ho
    rcases List.mem_append.mp ho with ho | ho
    · exact (h1 o ho).mono (Nat.le_max_left _ _)
    · exact (h2 o ho).mono (Nat.le_max_right _ _)
  obtain ⟨U, hU, _, _, hUs⟩ := toUnitary_spec (max n1 n2) (g1 ++ g2) hne hval
  rw [List.map_append] at hU hUs
  exact ⟨_, U, hs, hU, by rw [hUs, hsem]⟩

/-! ### Non-vacuity: concrete, non-trivial inputs meeting the hypotheses -/

section Examples

/-- an asymmetric 2-qubit gate over ℤ -/
def exM : Mat Int := Mat.ofLists [[1, 2, 3, 4], [5, 6, 7, 8], [9, 10, 11, 12], [13, 14, 15, 16]]
def exX : Mat Int := Mat.ofLists [[0, 1], [1, 0]]
/-- descending, gapped indices with an idle qubit (qubit 1) on a 3-qubit register -/
def exOp : Op Int := ⟨exM, [2, 0]⟩
def exOp2 : Op Int := ⟨exX, [1]⟩

example : OpValid 3 exOp := ⟨by decide, by decide, by decide, rfl, rfl⟩
example : OpValid 3 exOp2 := ⟨by decide, by decide, by decide, rfl, rfl⟩
example : ∀ o ∈ [exOp, exOp2], OpValid 3 o := by
  intro o ho
  simp only [List.mem_cons, List.not_mem_nil, or_false] at ho
  rcases ho with rfl | rfl
  · exact ⟨by decide, by decide, by decide, rfl, rfl⟩
  · exact ⟨by decide, by decide, by decide, rfl, rfl⟩
example : [exOp, exOp2] ≠ [] := by simp
-- the pointwise formula on this input: row 5 = |101⟩, col 0 = |000⟩ agree on the idle qubit 1;
-- sub-indices (bit of qubit 2, bit of qubit 0) are 3 and 0
example : (∀ q, q < 3 → q ∉ [2, 0] → bit 3 q 5 = bit 3 q 0) ∧ sub 3 [2, 0] 5 = 3 ∧ sub 3 [2, 0] 0 = 0 := by
  decide
-- … and row 7 = |111⟩, col 0 differ on the idle qubit: the entry is 0
example : ¬ (∀ q, q < 3 → q ∉ [2, 0] → bit 3 q 7 = bit 3 q 0) := by decide
example : ((liftMatrix exM [2, 0] 3).map (fun L => (L.get 5 0, L.get 7 0, L.get 4 1))) = some (13, 0, 7) := by
  decide +kernel
-- rejected inputs (the hypotheses of the theorems are necessary)
example : (liftMatrix exM [1, 1] 3).isNone ∧ (liftMatrix exM [0, 3] 3).isNone ∧ (liftMatrix exM [] 3).isNone ∧
    (gateLift (⟨exX, [0, 1]⟩ : Op Int) 3).isNone := by decide +kernel
-- the hypothesis of (vi) is satisfiable: the bundled simulator's native run
example : ∀ (sub : Circ Int) (st : Mat Int), (fun (s : Circ Int) v => applyAll s.ops v) sub st = applyAll sub.ops st :=
  fun _ _ => rfl
-- a split into native / non-native runs with an interleaved phase-only operation
example : (splitCircuit (⟨1, [.gate exOp2, .mphase [1, -1], .gate exOp2, .gate exOp2]⟩ : Circ Int) Oper.isGate).map
    (fun s => (s.1, s.2.ops.length, s.2.n)) = [(true, 1, 1), (false, 1, 1), (true, 2, 1)] := by decide
-- widths of sums
example : ((addCirc (⟨1, [.gate exOp2]⟩ : Circ Int) ⟨3, [.gate exOp]⟩).map (fun c => (c.n, c.ops.length))) = some (3, 2) := by
  decide
example : ((addOp (⟨1, []⟩ : Circ Int) (.gate exOp)).map (fun c => (c.n, c.ops.length))) = some (3, 1) := by decide

end Examples

end OQ.C01
