/-
  C13 — PROPERTY THEOREMS: splitting, batching and recombining shots never loses or invents a shot.
  Model: OQ/Model/C13.lean.  Helper lemmas: OQ/Lemmas/C13.lean.
-/
import OQ.Lemmas.C13
namespace OQ.C13

/-- the expanded sample counts of one circuit sum exactly to the requested count -/
theorem expand_sum (n m : Int) (hn : 0 < n) (hm : 0 < m) : (expandSampleSize n m).1.sum = n := by
  have hc := ceil_spec n m hm
  have h1 := Int.emod_add_mul_ediv n m
  have hq := div_pos_of n m hn hm
  unfold expandSampleSize
  by_cases h : n % m = 0
  · simp only [h, if_true]
    rw [hc.1 h, sum_replicate_int, Int.toNat_of_nonneg hq]
    rw [h] at h1; linarith [mul_comm m (n/m)]
  · simp only [h, if_false]
    rw [hc.2 h, List.sum_append, sum_replicate_int]
    simp only [add_sub_cancel_right, List.sum_cons, List.sum_nil, add_zero]
    rw [Int.toNat_of_nonneg hq]; linarith [mul_comm m (n/m)]

/-- every expanded count lies between 1 and the maximum -/
theorem expand_bounds (n m : Int) (hn : 0 < n) (hm : 0 < m) :
    ∀ x ∈ (expandSampleSize n m).1, 1 ≤ x ∧ x ≤ m := by
  have h2 := Int.emod_nonneg n (ne_of_gt hm)
  have h3 := Int.emod_lt_of_pos n hm
  unfold expandSampleSize
  intro x hx
  by_cases h : n % m = 0
  · simp only [h, if_true] at hx
    have := List.eq_of_mem_replicate hx; omega
  · simp only [h, if_false, List.mem_append, List.mem_singleton] at hx
    rcases hx with hx | hx
    · have := List.eq_of_mem_replicate hx; omega
    · omega

/-- the multiplicity is the number of copies, and there is at least one copy -/
theorem expand_length (n m : Int) (hn : 0 < n) (hm : 0 < m) :
    ((expandSampleSize n m).1.length : Int) = (expandSampleSize n m).2 ∧ 1 ≤ (expandSampleSize n m).2 := by
  have hc := ceil_spec n m hm
  have h1 := Int.emod_add_mul_ediv n m
  have hq := div_pos_of n m hn hm
  have h3 := Int.emod_lt_of_pos n hm
  unfold expandSampleSize
  by_cases h : n % m = 0
  · simp only [h, if_true, List.length_replicate]
    rw [hc.1 h, Int.toNat_of_nonneg hq]
    refine ⟨rfl, ?_⟩
    by_contra hlt
    have : n / m = 0 := by omega
    rw [this, h] at h1; omega
  · simp only [h, if_false, List.length_append, List.length_replicate, List.length_singleton]
    rw [hc.2 h]; simp only [add_sub_cancel_right]
    push_cast
    rw [Int.toNat_of_nonneg hq]; omega

/-- regrouping a concatenation by the group lengths returns the groups -/
theorem regroup_flatten {α : Type} (gs : List (List α)) :
    regroup gs.flatten (gs.map List.length) = gs := by
  induction gs with
  | nil => simp [regroup]
  | cons g gs ih => simp [regroup, ih]

/-- combining with the returned multiplicities gives back the requested per-circuit totals,
    in the original circuit order -/
theorem expand_combine_totals (ns : List Int) (m : Int) (hm : 0 < m) (hns : ∀ n ∈ ns, 0 < n)
    {α : Type} (cs : List α) :
    let r := expandSampleSizes cs ns m
    (regroup r.2.1 (r.2.2.map Int.toNat)).map List.sum = ns := by
  induction ns with
  | nil => simp [expandSampleSizes, regroup]
  | cons n ns ih =>
    have hn : 0 < n := hns n (by simp)
    have ih' := ih (fun x hx => hns x (by simp [hx]))
    simp only [expandSampleSizes, List.map_cons, List.flatMap_cons] at ih' ⊢
    have hl := (expand_length n m hn hm).1
    have : ((expandSampleSize n m).2).toNat = (expandSampleSize n m).1.length := by omega
    rw [this, regroup_append]
    simp only [List.map_cons, expand_sum n m hn hm]
    congr 1

/-- the duplicated circuits appear grouped, in the original order -/
theorem expand_order {α : Type} (cs : List α) (ns : List Int) (m : Int) :
    (expandSampleSizes cs ns m).1 =
      (cs.zip ((expandSampleSizes cs ns m).2.2)).flatMap (fun p => List.replicate p.2.toNat p.1) := rfl

/-- combine_bitstrings keeps every shot: the i-th result is the concatenation of the i-th group -/
theorem combine_bitstrings_groups {α : Type} (gs : List (List (List α))) :
    combineBitstrings gs.flatten (gs.map List.length) = some (gs.map List.flatten) := by
  unfold combineBitstrings
  have : gs.flatten.length = (gs.map List.length).sum := by simp [List.length_flatten]
  simp [this, regroup_flatten]

/-- merging two count dictionaries adds the totals … -/
theorem combineTwo_total (a b : Counts) : (combineTwo a b).total = a.total + b.total := by
  unfold combineTwo
  induction b generalizing a with
  | nil => simp [Counts.total]
  | cons p b ih =>
    simp only [List.foldl_cons]
    rw [ih, bump_total]; simp [Counts.total]; omega



/-! batches -/

/-- `split_into_batches` is rejected exactly on mismatched lengths or a non-positive maximum -/
theorem batches_reject_iff {α : Type} (cs : List α) (ns : List Int) (mb : Int) :
    splitIntoBatches cs ns mb = none ↔ (cs.length ≠ ns.length ∨ mb ≤ 0) := by
  unfold splitIntoBatches
  by_cases h1 : cs.length ≠ ns.length <;> by_cases h2 : mb ≤ 0 <;> simp [h1, h2]

/-- accepted: the batches are the circuit chunks paired with the maxima of the sample chunks,
    and both chunkings have the same shape -/
theorem batches_accept {α : Type} (cs : List α) (ns : List Int) (mb : Int)
    (h1 : cs.length = ns.length) (h2 : 0 < mb) :
    splitIntoBatches cs ns mb =
      some ((chunks mb.toNat cs.length cs).zip ((chunks mb.toNat ns.length ns).map listMax)) ∧
    (chunks mb.toNat cs.length cs).map List.length = (chunks mb.toNat ns.length ns).map List.length := by
  unfold splitIntoBatches
  refine ⟨by simp [h1, not_le.mpr h2], ?_⟩
  rw [← h1]; exact chunks_length_eq _ _ _ _ h1

/-- the batches cover every circuit exactly once, in order -/
theorem batches_cover {α : Type} (cs : List α) (mb : Int) (h2 : 0 < mb) :
    (chunks mb.toNat cs.length cs).flatten = cs :=
  chunks_flatten _ (by omega) _ _ (le_refl _)

/-- every batch is non-empty and never exceeds the maximum batch size -/
theorem batches_size {α : Type} (cs : List α) (mb : Int) (h2 : 0 < mb) :
    ∀ c ∈ chunks mb.toNat cs.length cs, 1 ≤ c.length ∧ (c.length : Int) ≤ mb := by
  intro c hc
  have := chunks_bounds mb.toNat (by omega) cs.length cs c hc
  omega

/-- a batch requests at least as many samples as each of its circuits asked for -/
theorem batches_samples_ge (ns : List Int) (mb : Int) :
    ∀ c ∈ chunks mb.toNat ns.length ns, ∀ x ∈ c, x ≤ listMax c :=
  fun c _ => listMax_ge c

/-- `scale_and_discretize` returns integers that sum exactly to the total – for every tie order
    (`order` is any list of distinct in-range indices long enough, e.g. a permutation). -/
theorem scale_sum (values : List Rat) (total : Int) (order : List Nat)
    (hs : values.sum ≠ 0) (hne : values ≠ [])
    (hrange : ∀ i ∈ order, i < values.length) (hlen : values.length ≤ order.length) :
    (scaleAndDiscretize values total order).sum = total := by
  have hb := leftover_bounds values total hs hne
  unfold scaleAndDiscretize
  simp only
  have hfl : (shareFloors values total).length = values.length := by simp [shareFloors]
  rw [foldl_bump_sum]
  · rw [List.length_take]
    have : min (total - (shareFloors values total).sum).toNat order.length = (total - (shareFloors values total).sum).toNat := by omega
    rw [this]; omega
  · intro i hi; rw [hfl]; exact hrange i (List.mem_of_mem_take hi)

/-- … and each returned integer is the floor of its proportional share or one more, hence
    within one of the share. -/
theorem scale_within_one (values : List Rat) (total : Int) (order : List Nat) (hn : order.Nodup)
    (j : Nat) (hj : j < values.length) :
    let share := values.getD j 0 * ((total : Rat) / values.sum)
    let r := (scaleAndDiscretize values total order).getD j 0
    (r = ⌊share⌋ ∨ r = ⌊share⌋ + 1) ∧ |(r : Rat) - share| ≤ 1 := by
  intro share r
  have hr : r = (shareFloors values total).getD j 0 +
      (if j ∈ order.take (total - (shareFloors values total).sum).toNat ∧ j < (shareFloors values total).length then 1 else 0) := by
    simp only [r, scaleAndDiscretize]
    exact foldl_bump_getD _ _ (hn.sublist (List.take_sublist _ _)) j
  have hf : (shareFloors values total).getD j 0 = ⌊share⌋ := by
    simp only [shareFloors, share]
    rw [List.getD_eq_getElem?_getD, List.getElem?_map]
    rw [List.getD_eq_getElem?_getD]
    rw [List.getElem?_eq_getElem hj]
    simp [ratFloor_eq]
  rw [hf] at hr
  have h1 := Int.floor_le share
  have h2 := Int.lt_floor_add_one share
  split at hr
  · refine ⟨Or.inr (by omega), ?_⟩
    rw [hr, abs_le]; push_cast; constructor <;> linarith
  · refine ⟨Or.inl (by omega), ?_⟩
    rw [hr, abs_le]; push_cast; constructor <;> linarith

/-- `get_measurements_representing_distribution` returns exactly the requested number of shots:
    whatever the rounding stage produced and whatever the random stage drew, provided the random
    stage drew exactly `|n − len|` outcomes (law of `np.random.choice(size=…)`) and, when
    eliminating, only outcomes that are present often enough (what `_check_sample_elimination`
    establishes). -/
theorem representing_length {α : Type} [DecidableEq α] (dist : List (α × Rat)) (n : Int)
    (extra : List (α × Nat))
    (hdraw : (extraTotal extra : Int) = |n - (roundedSamples dist n).length|)
    (hk : (extra.map (fun p => p.1)).Nodup)
    (hpresent : (n < (roundedSamples dist n).length) → ∀ p ∈ extra, p.2 ≤ (roundedSamples dist n).count p.1) :
    ((representing dist n extra).length : Int) = n := by
  unfold representing
  simp only
  by_cases h1 : ((roundedSamples dist n).length : Int) = n
  · simp [h1]
  · by_cases h2 : ((roundedSamples dist n).length : Int) < n
    · simp only [h1, h2, if_false, if_true, List.length_append, flatMap_replicate_length]
      rw [abs_of_pos (by omega)] at hdraw; push_cast; omega
    · simp only [h1, h2, if_false]
      have hlt : n < (roundedSamples dist n).length := by omega
      have := (eliminate_length extra _ hk (hpresent hlt)).1
      rw [abs_of_neg (by omega)] at hdraw; omega

/-- all returned shots lie on outcomes of positive probability (the support), provided the
    random stage only draws outcomes of the support (law of `rng.choice`: never an outcome
    of weight 0; the leftover weight of a probability-0 outcome is 0). -/
theorem representing_support {α : Type} [DecidableEq α] (dist : List (α × Rat)) (n : Int) (hn : 0 < n)
    (extra : List (α × Nat))
    (hk : (extra.map (fun p => p.1)).Nodup)
    (hpresent : (n < (roundedSamples dist n).length) → ∀ p ∈ extra, p.2 ≤ (roundedSamples dist n).count p.1)
    (hsupp : ∀ p ∈ extra, 0 < p.2 → ∃ q ∈ dist, q.1 = p.1 ∧ 0 < q.2) :
    ∀ x ∈ representing dist n extra, ∃ q ∈ dist, q.1 = x ∧ 0 < q.2 := by
  have hbase : ∀ x ∈ roundedSamples dist n, ∃ q ∈ dist, q.1 = x ∧ 0 < q.2 := by
    intro x hx
    simp only [roundedSamples, List.mem_flatMap] at hx
    obtain ⟨q, hq, hxq⟩ := hx
    have hpos : 0 < (roundHalfEven (q.2 * n)).toNat := by
      by_contra h0
      have : (roundHalfEven (q.2 * n)).toNat = 0 := by omega
      rw [this] at hxq; simp at hxq
    have := roundHalfEven_pos (q.2 * n) (by omega)
    have hq2 : 0 < q.2 := by
      have hn' : (0 : Rat) < n := by exact_mod_cast hn
      exact (mul_pos_iff_of_pos_right hn').mp this
    exact ⟨q, hq, (List.eq_of_mem_replicate hxq).symm, hq2⟩
  unfold representing
  simp only
  intro x hx
  split_ifs at hx with c1 c2
  · exact hbase x hx
  · rw [List.mem_append] at hx
    rcases hx with hx | hx
    · exact hbase x hx
    · simp only [List.mem_flatMap] at hx
      obtain ⟨p, hp, hxp⟩ := hx
      have hp2 : 0 < p.2 := by
        by_contra h0
        have : p.2 = 0 := by omega
        rw [this] at hxp; simp at hxp
      have := hsupp p hp hp2
      rw [List.eq_of_mem_replicate hxp]; exact this
  · have hlt : n < (roundedSamples dist n).length := by omega
    exact hbase x ((eliminate_length extra _ hk (hpresent hlt)).2 x hx)

/-- TRANSLATION TIE: the Lean definition regenerated on every run from the CURRENT Python source of
    `_expand_sample_size` (harness/translate.py → OQ/Generated/Translated.lean) is the hand-written model,
    for a positive maximum (where Python's floor division / modulo are Lean's `/` and `%`).  An edit of the
    Python function changes the generated definition and this theorem stops checking. -/
theorem translated_expand_sample_size_eq (n m : Int) (hm : 0 < m) :
    OQ.Generated.Translated.expand_sample_size n m = expandSampleSize n m := by
  unfold OQ.Generated.Translated.expand_sample_size expandSampleSize
  simp only [Int.fdiv_eq_ediv_of_nonneg _ (le_of_lt hm), Int.fmod_eq_emod_of_nonneg _ (le_of_lt hm),
    flatten_replicate_singleton]
  by_cases h : n % m = 0 <;> simp [h]

/-- TRANSLATION TIE: `expand_sample_sizes` (its three comprehensions, the `zip`, the nested `for _ in range(multi)`)
    regenerated from the current Python source is the model's `expandSampleSizes`, for every list of opaque circuits, every
    list of counts and every positive maximum – so `expand_sum`, `expand_bounds` and `expand_then_combine` speak about
    what the code says now. -/
theorem translated_expand_sample_sizes_eq {α : Type} (cs : List α) (ns : List Int) (m : Int) (hm : 0 < m) :
    OQ.Generated.Translated.expand_sample_sizes cs ns m = expandSampleSizes cs ns m := by
  unfold OQ.Generated.Translated.expand_sample_sizes expandSampleSizes
  simp only [translated_expand_sample_size_eq _ _ hm, List.map_id', range_map_const]

/-! non-vacuity: concrete inputs meeting the hypotheses -/
example : expandSampleSize 7 3 = ([3, 3, 1], 3) := by decide
example : (expandSampleSizes ["a", "b"] [7, 6] 3).2.1 = [3, 3, 1, 3, 3] := by decide
example : splitIntoBatches ["a","b","c"] [5, 9, 2] 2 = some [(["a","b"], 9), (["c"], 2)] := by decide
example : scaleAndDiscretize [1, 2, 4] 10 [2, 1, 0] = [1, 3, 6] := by decide +kernel
example : representing [("0", 1/2), ("1", 1/2)] 3 [("0", 1)] = ["0", "1", "1"] := by decide +kernel
example : representing [("0", 1/2), ("1", 1/2)] 1 [("1", 1)] = ["1"] := by decide +kernel

end OQ.C13
