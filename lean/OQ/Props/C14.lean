/-
  C14 — PROPERTY THEOREMS: runners validate requests, deliver enough shots and count their work.
  Model: OQ/Model/C14.lean (`Leaf` = a base-class runner or simulator, `Runner` = a leaf under any
  number of `MeasurementTrackingBackend` wrappers, `step` = one call, `runAll` = a call history).
  Vocabulary and helper lemmas: OQ/Lemmas/C14.lean.
  Every theorem is for ALL values of the externals `ext` (what the abstract `_run_and_measure`
  returns / raises and what `rng.choice` draws, as functions of the invocation index), all runner
  chains and all states; history theorems are by induction over arbitrary call lists.
-/
import OQ.Lemmas.C14
namespace OQ.C14

/-! ### sentence 1: invalid requests are rejected before anything is executed -/

/-- A non-positive sample count (single, batch – also over an empty batch – or distribution call), a
    per-circuit list of the wrong length or one containing a non-positive entry is answered with
    `ValueError` and the WHOLE state – every counter of every runner in the chain, every tracker file,
    and the number of external invocations made (nothing was executed) – is exactly what it was. -/
theorem reject_before_execute (ext : Ext) (r : Runner) (call : Call) (h : call.badArgs) :
    step ext r call = (r, .error .value) :=
  step_reject ext r call h

/-- a runner that cannot compute exact distributions (its base-class runner is not a simulator)
    rejects `n_samples = None` the same way, nothing executed, nothing changed -/
theorem reject_missing_sample_count (ext : Ext) (r : Runner) (c : Circ) (h : r.leafOf.kind = .base) :
    step ext r (.dist c none) = (r, .error .value) := by
  simp [step, Runner.dist_none_base ext r c h]

/-- "unchanged by a rejected call": the counters of every runner of the chain and the files of every
    tracker are the same after a rejected call. -/
theorem rejected_unchanged (ext : Ext) (r : Runner) (call : Call) (h : call.badArgs) :
    (step ext r call).1.counters = r.counters ∧ (step ext r call).1.files = r.files := by
  rw [step_reject ext r call h]; exact ⟨rfl, rfl⟩

/-! ### sentence 3: the counters -/

/-- The counters never decrease: along any call history (valid and invalid calls of all three kinds
    interleaved arbitrarily, failures included) the runner chain keeps its shape and every counter
    of every runner in it is, after any longer history, at least what it was after a shorter one. -/
theorem counters_monotone (ext : Ext) (r : Runner) (before after : List Call) :
    (runAll ext r before).1.Grows (runAll ext r (before ++ after)).1 := by
  rw [runAll_append]; exact runAll_grows ext _ after

/-- A direct `BaseCircuitRunner` subclass: a successful call adds exactly the number of circuits of
    the call to both counters, and made exactly that many external executions. -/
theorem base_increment_exact (ext : Ext) (l : Leaf) (hk : l.kind = .base) (call : Call) (r' : Runner) (res : Res)
    (h : step ext (.leaf l) call = (r', res)) (hok : ∀ e, res ≠ .error e) :
    r'.own.nCircuits = l.k.nCircuits + call.circuits.length ∧
    r'.own.nJobs = l.k.nJobs + call.circuits.length := by
  obtain ⟨l', rfl, _, hC, hJ⟩ := leaf_step_ok ext l call r' res h hok
  rw [hk] at hC hJ
  have h1 : ∀ cs : List Circ, (cs.map (workC .base)).sum = cs.length := by
    intro cs; induction cs with
    | nil => rfl
    | cons c cs ih => simp only [List.map_cons, List.sum_cons, ih, workC, List.length_cons]; omega
  have h2 : ∀ cs : List Circ, (cs.map (workJ .base)).sum = cs.length := by
    intro cs; induction cs with
    | nil => rfl
    | cons c cs ih => simp only [List.map_cons, List.sum_cons, ih, workJ, List.length_cons]; omega
  exact ⟨by rw [Runner.own, hC, h1], by rw [Runner.own, hJ, h2]⟩

/-- A simulator: a successful call adds, for every circuit of the call, one job per maximal run of
    natively-supported / not-supported operations and one circuit per natively supported run
    (`groupby` keys of the `is_natively_supported` flags). -/
theorem sim_increment_exact (ext : Ext) (l : Leaf) (a : Bool) (hk : l.kind = .sim a) (call : Call)
    (r' : Runner) (res : Res)
    (h : step ext (.leaf l) call = (r', res)) (hok : ∀ e, res ≠ .error e) :
    r'.own.nCircuits = l.k.nCircuits + (call.circuits.map (segCircuits a)).sum ∧
    r'.own.nJobs = l.k.nJobs + (call.circuits.map (segJobs a)).sum := by
  obtain ⟨l', rfl, _, hC, hJ⟩ := leaf_step_ok ext l call r' res h hok
  rw [hk] at hC hJ
  exact ⟨by rw [Runner.own, hC]; rfl, by rw [Runner.own, hJ]; rfl⟩

/-- A call that fails (for any reason: rejected, the external raised, a circuit had free symbols) has
    counted exactly the work of the circuits of an initial part of the call – those actually run
    before the failure; for a rejected call that part is empty (`reject_before_execute`). -/
theorem failed_call_counts_what_ran (ext : Ext) (l : Leaf) (call : Call) (r' : Runner) (e : Err)
    (h : step ext (.leaf l) call = (r', .error e)) :
    ∃ done, done <+: call.circuits ∧
      r'.own.nCircuits = l.k.nCircuits + (done.map (workC l.kind)).sum ∧
      r'.own.nJobs = l.k.nJobs + (done.map (workJ l.kind)).sum := by
  obtain ⟨l', done, rfl, _, hp, hC, hJ⟩ := leaf_step_err ext l call r' e h
  exact ⟨done, hp, hC, hJ⟩

/-- The tracker's own counters: +1/+1 for a successful single call, +len(circuits)/+1 for a
    successful batch call, nothing for a distribution call and nothing for any failed call. -/
theorem tracker_increment_exact (ext : Ext) (inner : Runner) (bits : Bool) (k : Counters) (raw file : List Record)
    (call : Call) (r' : Runner) (res : Res) (h : step ext (.tracker inner bits k raw file) call = (r', res)) :
    r'.own.nCircuits = k.nCircuits + (trackerWork call res).1 ∧
    r'.own.nJobs = k.nJobs + (trackerWork call res).2 :=
  tracker_step_own ext inner bits k raw file call r' res h

/-! ### sentence 2: what a successful call returns -/

/-- A successful single call was made with a positive count and returns what the external
    invocation for that circuit and count produced. -/
theorem single_result_is_execution (ext : Ext) (r r' : Runner) (c : Circ) (n : Int) (m : List Shot)
    (h : step ext r (.run c n) = (r', .meas m)) :
    0 < n ∧ Produced ext r.leafOf.kind r.leafOf.calls c n m := by
  rcases step_run_eq ext r r' c n _ h with ⟨m', hm, h1⟩ | ⟨e, he, _⟩
  · simp only [Res.meas.injEq] at hm; subst hm
    have h2 := (Runner.run_leaf ext r c n).1
    rw [h1] at h2
    rcases h3 : r.leafOf.run ext c n with ⟨l', o⟩
    rw [h3] at h2; simp only at h2; subst h2
    obtain ⟨hn, hp, _⟩ := Leaf.run_ok ext _ l' c n m h3
    exact ⟨hn, hp⟩
  · simp at he

/-- A successful batch call passed validation, returns ONE RESULT PER CIRCUIT, IN ORDER: the i-th
    result is what the i-th external invocation, made for the i-th circuit with the i-th sample count,
    produced (`InOrder`). -/
theorem batch_results_in_order (ext : Ext) (r r' : Runner) (cs : List Circ) (ns : NSpec) (ms : List (List Shot))
    (h : step ext r (.batch cs ns) = (r', .batch ms)) :
    ValidBatch cs ns ∧ ms.length = cs.length ∧
    InOrder ext r.leafOf.kind r.leafOf.calls (cs.zip (samplesPerCircuit cs ns)) ms := by
  rcases step_batch_eq ext r r' cs ns _ h with ⟨ms', hm, h1⟩ | ⟨e, he, _⟩
  · simp only [Res.batch.injEq] at hm; subst hm
    have h2 := (Runner.batch_leaf ext r cs ns).1
    rw [h1] at h2
    rcases h3 : r.leafOf.batch ext cs ns with ⟨l', o⟩
    rw [h3] at h2; simp only at h2; subst h2
    obtain ⟨hv, io, hl, _⟩ := Leaf.batch_ok ext _ l' cs ns ms h3
    exact ⟨hv, hl, io⟩
  · simp at he

/-- A successful distribution call with a sample count is the empirical distribution (relative
    frequencies `count / number of shots`) of what the external invocation for that circuit and a
    POSITIVE count produced; without a count it is the exact distribution of the circuit, which only
    a simulator provides and only for a circuit without free symbols. -/
theorem distribution_result_is_execution (ext : Ext) (r r' : Runner) (c : Circ) (n : Option Int) (d : DistVal)
    (h : step ext r (.dist c n) = (r', .distr d)) :
    (∃ n' m, n = some n' ∧ 0 < n' ∧ Produced ext r.leafOf.kind r.leafOf.calls c n' m ∧
        d = .empirical (empirical m)) ∨
    (∃ a, n = none ∧ r.leafOf.kind = .sim a ∧ c.symbolic = false ∧ d = .exact c) := by
  rcases step_dist_eq ext r r' c n _ h with ⟨d', hm, h1⟩ | ⟨e, he, _⟩
  · simp only [Res.distr.injEq] at hm; subst hm
    have h2 := (Runner.dist_leaf ext r c n).1
    rw [h1] at h2
    rcases h3 : r.leafOf.dist ext c n with ⟨l', o⟩
    rw [h3] at h2; simp only at h2; subst h2
    obtain ⟨_, _, _, hh⟩ := Leaf.dist_ok ext _ l' c n d h3
    rcases hh with ⟨n', m, hn, hpos, hp, hd⟩ | ⟨a, hn, hk, hs, hd, _⟩
    · exact Or.inl ⟨n', m, hn, hpos, hp, hd⟩
    · exact Or.inr ⟨a, hn, hk, hs, hd⟩
  · simp at he

/-- Shape of a single result: at least the requested number of shots, each bitstring as long as the
    circuit's register (for every register width, the zero-qubit circuit included) – given the law of
    the abstract `_run_and_measure` (`ExecLaw`) and of `rng.choice` (`DrawLaw`). -/
theorem single_result_shape (ext : Ext) (he : ExecLaw ext) (hd : DrawLaw ext)
    (r r' : Runner) (c : Circ) (n : Int) (m : List Shot)
    (h : step ext r (.run c n) = (r', .meas m)) : ShotsOK c n m := by
  obtain ⟨hn, hp⟩ := single_result_is_execution ext r r' c n m h
  exact hp.shape hn he hd

/-- Shape of a batch result: one result per circuit and the i-th result has at least the i-th
    requested number of shots, each as long as the i-th circuit's register (same laws, all widths). -/
theorem batch_results_shape (ext : Ext) (he : ExecLaw ext) (hd : DrawLaw ext)
    (r r' : Runner) (cs : List Circ) (ns : NSpec) (ms : List (List Shot))
    (h : step ext r (.batch cs ns) = (r', .batch ms)) :
    ms.length = cs.length ∧
    List.Forall₂ (fun p m => ShotsOK p.1 p.2 m) (cs.zip (samplesPerCircuit cs ns)) ms := by
  obtain ⟨_, hl, io⟩ := batch_results_in_order ext r r' cs ns ms h
  exact ⟨hl, io.shape he hd⟩

/-! ### sentence 4: the measurement-tracking wrapper -/

/-- The tracker returns exactly what the wrapped runner returns for the same call – result or
    exception – and the wrapped runner ends in exactly the state the call would have put it in. -/
theorem tracker_passthrough (ext : Ext) (inner : Runner) (bits : Bool) (k : Counters) (raw file : List Record)
    (call : Call) :
    (step ext (.tracker inner bits k raw file) call).2 = (step ext inner call).2 ∧
    (step ext (.tracker inner bits k raw file) call).1.inner? = some (step ext inner call).1 := by
  cases call with
  | run c n =>
    obtain ⟨h1, h2⟩ := tracker_run_forward ext inner bits k raw file c n
    simp only [step]
    rcases ha : (Runner.tracker inner bits k raw file).run ext c n with ⟨t', o⟩
    rcases hb : inner.run ext c n with ⟨i', o'⟩
    rw [ha, hb] at h1 h2; simp only at h1 h2; subst h1
    cases o <;> exact ⟨rfl, h2⟩
  | batch cs ns =>
    obtain ⟨h1, h2⟩ := tracker_batch_forward ext inner bits k raw file cs ns
    simp only [step]
    rcases ha : (Runner.tracker inner bits k raw file).batch ext cs ns with ⟨t', o⟩
    rcases hb : inner.batch ext cs ns with ⟨i', o'⟩
    rw [ha, hb] at h1 h2; simp only at h1 h2; subst h1
    cases o <;> exact ⟨rfl, h2⟩
  | dist c n =>
    obtain ⟨h1, h2⟩ := tracker_dist_forward ext inner bits k raw file c n
    simp only [step]
    rcases ha : (Runner.tracker inner bits k raw file).dist ext c n with ⟨t', o⟩
    rcases hb : inner.dist ext c n with ⟨i', o'⟩
    rw [ha, hb] at h1 h2; simp only at h1 h2; subst h1
    cases o <;> exact ⟨rfl, h2⟩

/-- After a successful single call the file holds exactly one record and it matches the call and the
    returned measurements: same circuit, a histogram that counts every returned bitstring exactly as
    often as it was returned, `number_of_shots` = number of returned shots, `number_of_gates` =
    number of operations, the bitstrings themselves if recording them was requested. -/
theorem tracker_record_single (ext : Ext) (inner : Runner) (bits : Bool) (k : Counters) (file : List Record)
    (c : Circ) (n : Int) (r' : Runner) (m : List Shot)
    (h : step ext (.tracker inner bits k [] file) (.run c n) = (r', .meas m)) :
    r'.raw = [] ∧ ∃ rec, r'.file = [rec] ∧ rec.Matches bits c m := by
  rcases step_run_eq ext _ r' c n _ h with ⟨m', hm, h1⟩ | ⟨e, he, _⟩
  · simp only [Res.meas.injEq] at hm; subst hm
    obtain ⟨h2, h3⟩ := tracker_run_record ext inner bits k file c n r' m h1
    exact ⟨h2, _, h3, mkMeasRecord_matches bits c m⟩
  · simp at he

/-- After a successful batch call the file holds one record per circuit, in order, the i-th matching
    the i-th circuit and the i-th returned measurements. -/
theorem tracker_record_batch (ext : Ext) (inner : Runner) (bits : Bool) (k : Counters) (file : List Record)
    (cs : List Circ) (ns : NSpec) (r' : Runner) (ms : List (List Shot))
    (h : step ext (.tracker inner bits k [] file) (.batch cs ns) = (r', .batch ms)) :
    r'.raw = [] ∧ ms.length = cs.length ∧
    List.Forall₂ (fun p rec => Record.Matches bits p.1 p.2 rec) (cs.zip ms) r'.file := by
  rcases step_batch_eq ext _ r' cs ns _ h with ⟨ms', hm, h1⟩ | ⟨e, he, _⟩
  · simp only [Res.batch.injEq] at hm; subst hm
    obtain ⟨h2, h3⟩ := tracker_batch_record ext inner bits k file cs ns r' ms h1
    refine ⟨h2, Runner.batch_ok_length ext _ r' cs ns ms h1, ?_⟩
    rw [h3]; exact forall₂_map_mk bits _
  · simp at he

/-- After a successful distribution call the file holds exactly one record: the circuit, the returned
    distribution, the number of operations and the REQUESTED sample count (`None` included). -/
theorem tracker_record_distribution (ext : Ext) (inner : Runner) (bits : Bool) (k : Counters) (file : List Record)
    (c : Circ) (n : Option Int) (r' : Runner) (d : DistVal)
    (h : step ext (.tracker inner bits k [] file) (.dist c n) = (r', .distr d)) :
    r'.raw = [] ∧ r'.file = [Record.dist c d c.ops.length n] := by
  rcases step_dist_eq ext _ r' c n _ h with ⟨d', hm, h1⟩ | ⟨e, he, _⟩
  · simp only [Res.distr.injEq] at hm; subst hm
    exact tracker_dist_record ext inner bits k file c n r' d h1
  · simp at he

/-- A failed call (rejected or failed inside the wrapped runner) writes nothing: file and pending raw
    data are untouched. -/
theorem tracker_failed_call_writes_nothing (ext : Ext) (inner : Runner) (bits : Bool) (k : Counters)
    (raw file : List Record) (call : Call) (r' : Runner) (e : Err)
    (h : step ext (.tracker inner bits k raw file) call = (r', .error e)) :
    r'.raw = raw ∧ r'.file = file :=
  tracker_err_keeps_file ext inner bits k raw file call r' e h

/-- Invariant over histories: starting from freshly constructed runners, after ANY call history the
    pending `raw_data` of every tracker in the chain is empty – so the hypothesis `raw = []` of the
    three record theorems holds in every reachable state and the file always holds exactly the
    records of the last successful call. -/
theorem tracker_raw_data_flushed (ext : Ext) (r : Runner) (hfresh : r.fresh = true) (calls : List Call) :
    (runAll ext r calls).1.Clean :=
  runAll_clean ext r calls (Runner.fresh_clean r hfresh)

/-! ### non-vacuity and negative witnesses (concrete externals `exT` meeting both laws; circuits:
`cH` two gates on three qubits (one idle), `cMP` gate / non-gate / gate / non-gate / non-gate on two
qubits, `cEmpty` no qubits and no operations, `cSym` a circuit with a free symbol) -/

example : ExecLaw exT := exT_execLaw
example : DrawLaw exT := exT_drawLaw
-- a per-circuit list with a non-positive entry is rejected, nothing changes
example : step exT base0 (.batch [cH, cMP] (.many [3, 0])) = (base0, .error .value) := by decide
-- an empty batch with the scalar count 0 is rejected too (fixed in /repo 8d91e2e), the empty list of counts is fine
example : (Call.batch [] (.one 0)).badArgs ∧ step exT base0 (.batch [] (.one 0)) = (base0, .error .value) :=
  ⟨by simp [Call.badArgs], by decide⟩
example : step exT base0 (.batch [] (.many [])) = (base0, .batch []) := by decide
-- default simulator on gate/non-gate/gate/non-gate/non-gate: 4 segments = 4 jobs, 2 native = 2 circuits
example : (step exT sim0 (.run cMP 4)).1 = .leaf ⟨.sim false, ⟨2, 4⟩, 1⟩ := by decide
-- SymbolicSimulator (everything native): one segment
example : (step exT symb0 (.run cMP 4)).1 = .leaf ⟨.sim true, ⟨1, 1⟩, 1⟩ := by decide
-- a simulator on the zero-width circuit returns empty tuples (fixed in /repo 6292974; `format(0,"00b")`
-- itself still prints one digit) and counts no job: there is no segment
example : (step exT symb0 (.run cEmpty 3)) = (.leaf ⟨.sim true, ⟨0, 0⟩, 1⟩, .meas [[], [], []]) := by decide
example : formatBin 0 0 = [0] ∧ outcomeTuple 0 0 = [] := by decide
-- idle qubit: tuples as long as the register
example : (step exT symb0 (.run cH 2)).2 = .meas [[0,0,0], [0,0,0]] := by decide
example : (step exT (.leaf ⟨.sim true, ⟨0, 0⟩, 5⟩) (.run cH 2)).2 = .meas [[1,0,1], [1,0,1]] := by decide
-- a batch failing at its second circuit has counted exactly the first (failed_call_counts_what_ran)
example : step exT base0 (.batch [cH, cSym, cMP] (.one 2)) = (.leaf ⟨.base, ⟨1, 1⟩, 2⟩, .error .value) := by decide
-- a history on a tracker mixing a rejected single call, an accepted batch call and a rejected distribution
-- call: counters 2/1, inner 2/2, the file holds the two records of the batch
example : (runAll exT (.tracker symb0 true ⟨0,0⟩ [] []) [.run cH 0, .batch [cH, cMP] (.many [1, 2]), .dist cH (some (-1))]).1
    = .tracker (.leaf ⟨.sim true, ⟨2, 2⟩, 2⟩) true ⟨2, 1⟩ []
        [.meas cH [([0,0,0], 1)] 2 1 (some [[0,0,0]]), .meas cMP [([0,1], 2)] 5 2 (some [[0,1],[0,1]])] := by decide
-- distribution record: requested count, empirical distribution of the returned shots
example : (step exT (.tracker base0 false ⟨0,0⟩ [] []) (.dist cH (some 2))).1.file
    = [.dist cH (.empirical [([0,0,0], 1)]) 2 (some 2)] := by decide +kernel

end OQ.C14
