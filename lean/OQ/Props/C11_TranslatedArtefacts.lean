/-
  C11 — TRANSLATION TIE (work package T9), numeric arrays and the artefacts built on them.
  `OQ/Generated/TranslatedC11.lean` is regenerated on every run from the CURRENT source of
  `utils.py: convert_array_to_dict, convert_dict_to_array, ValueEstimate.from_dict`,
  `measurements/expectation_values.py: ExpectationValues.to_dict / from_dict`, `measurements/parities.py: Parities.to_dict / from_dict`
  by harness/translate_t9.py (dictionaries = the structures `ArrD / EVD / ParD / VED` of the model, key -> field as declared in
  harness/tables_t9.py: RECORDS; an absent key and a JSON null of an optional key both read as `none`).

  Externals (parameters of the translated definitions; numpy is NOT modelled): an ndarray is an opaque `Arr`, a JSON list an
  opaque `L`; `np.iscomplexobj`, `.real`, `.imag`, `.tolist()`, `np.array`, `1j * a`, `a + b`, the truth value of a JSON list and
  the class constructors `cls(...)` are parameters.  The ties are stated for EVERY behaviour of these parameters that satisfies
  the laws listed as hypotheses, through a `view : Arr → CArr A` (real part, and the imaginary part iff the array is complex).
-/
import OQ.Lemmas.C11_TranslatedT9
import OQ.Props.C11
namespace OQ.C11
open OQ.Py OQ.Generated

section arrays
variable {Arr L A : Type}

/-- the laws of numpy the WRITER relies on, relative to a view of arrays as (real part, optional imaginary part):
    `np.iscomplexobj` says whether there is an imaginary part; for a complex array `.real.tolist()` / `.imag.tolist()` list the
    two parts, for a real array `.tolist()` lists it -/
structure WriterLaws (view : Arr → CArr A) (toL : A → L) (real imag : Arr → Arr) (tolist : Arr → L) (iscomplex : Arr → Bool) : Prop where
  complex_iff : ∀ x, iscomplex x = (view x).im.isSome
  real_part : ∀ x i, (view x).im = some i → tolist (real x) = toL (view x).re
  imag_part : ∀ x i, (view x).im = some i → tolist (imag x) = toL i
  plain : ∀ x, (view x).im = none → tolist x = toL (view x).re

/-- the laws of numpy the READER relies on: `np.array(l)` is the real array of `l`; `np.array(l) + 1j * np.array(m)` is the
    complex array with these two parts (numpy arithmetic on finite values) -/
structure ReaderLaws (view : Arr → CArr A) (ofL : L → A) (array : L → Arr) (mul : Num → Arr → Arr) (add : Arr → Arr → Arr) : Prop where
  of_list : ∀ l, view (array l) = ⟨ofL l, none⟩
  with_imag : ∀ l m, view (add (array l) (mul Num.j (array m))) = ⟨ofL l, some (ofL m)⟩

/-- **`convert_array_to_dict` (translated) = `arrayToDict`** on the view of the array, for every array and every numpy
    behaviour satisfying `WriterLaws`.  Domain: all arrays (the function does not raise). -/
theorem translated_convert_array_to_dict_eq (view : Arr → CArr A) (toL : A → L) (real imag : Arr → Arr) (tolist : Arr → L)
    (iscomplex : Arr → Bool) (hw : WriterLaws view toL real imag tolist iscomplex) (x : Arr) :
    Translated.convert_array_to_dict real imag tolist iscomplex x = arrayToDict toL (view x) := by
  unfold Translated.convert_array_to_dict arrayToDict
  rw [hw.complex_iff]
  cases h : (view x).im with
  | none => simp [hw.plain x h]
  | some i => simp [hw.real_part x i h, hw.imag_part x i h]

/-- **`convert_dict_to_array` (translated) = `dictToArray`** (viewed), for every `{real, imag}` dictionary – `imag` absent / null,
    falsy (an empty list) or present – and every numpy behaviour satisfying `ReaderLaws`.  Domain: all `ArrD` (numpy's shape
    errors for ragged / mismatching lists are outside the model: `np.array` is total here). -/
theorem translated_convert_dict_to_array_eq (view : Arr → CArr A) (ofL : L → A) (array : L → Arr) (mul : Num → Arr → Arr)
    (add : Arr → Arr → Arr) (truthy : L → Bool) (hr : ReaderLaws view ofL array mul add) (d : ArrD L) :
    view (Translated.convert_dict_to_array array mul add truthy d) = dictToArray ofL truthy d := by
  unfold Translated.convert_dict_to_array dictToArray
  cases h : d.imag with
  | none => simp [hr.of_list]
  | some i =>
    by_cases ht : truthy i = true
    · simp [ht, hr.with_imag]
    · simp [ht, hr.of_list]

/-- END-TO-END (`array_roundtrip` ON THE TRANSLATED PAIR): reading back what the translated writer wrote gives an array with the
    same view (same real part; an imaginary part exactly when the original was complex), given the laws of `tolist` / `np.array`
    on non-zero-size arrays. -/
theorem translated_array_roundtrip (view : Arr → CArr A) (toL : A → L) (ofL : L → A) (real imag : Arr → Arr) (tolist : Arr → L)
    (iscomplex : Arr → Bool) (array : L → Arr) (mul : Num → Arr → Arr) (add : Arr → Arr → Arr) (truthy : L → Bool)
    (hw : WriterLaws view toL real imag tolist iscomplex) (hr : ReaderLaws view ofL array mul add)
    (hback : ∀ a, ofL (toL a) = a) (htruthy : ∀ a, truthy (toL a) = true) (x : Arr) :
    view (Translated.convert_dict_to_array array mul add truthy (Translated.convert_array_to_dict real imag tolist iscomplex x))
      = view x := by
  rw [translated_convert_dict_to_array_eq view ofL array mul add truthy hr,
    translated_convert_array_to_dict_eq view toL real imag tolist iscomplex hw]
  exact array_roundtrip toL ofL truthy hback htruthy (view x)

/-! ### ExpectationValues, Parities: objects are opaque (`E`), their attributes and the constructor `cls` are parameters -/

/-- how an `ExpectationValues` object with these attributes is seen by the model -/
def viewEV {E : Type} (view : Arr → CArr A) (values : E → Arr) (correlations covariances : E → Option (List Arr)) (e : E) : EV A :=
  ⟨view (values e), (correlations e).map (List.map view), (covariances e).map (List.map view)⟩

def viewPar {E : Type} (view : Arr → CArr A) (values : E → Arr) (correlations : E → Option (List Arr)) (e : E) : Par A :=
  ⟨view (values e), (correlations e).map (List.map view)⟩

/-- **`ExpectationValues.to_dict` (translated) = `evToDict`** of the viewed object: `frames` empty, the values, and each optional
    list of frames (`None`, `[]`, one or several) converted frame by frame in order.  Domain: every object. -/
theorem translated_expectation_values_to_dict_eq {E : Type} (view : Arr → CArr A) (toL : A → L) (values : E → Arr)
    (correlations covariances : E → Option (List Arr)) (real imag : Arr → Arr) (tolist : Arr → L) (iscomplex : Arr → Bool)
    (hw : WriterLaws view toL real imag tolist iscomplex) (e : E) :
    Translated.expectation_values_to_dict values correlations covariances real imag tolist iscomplex e
      = evToDict toL (viewEV view values correlations covariances e) := by
  unfold Translated.expectation_values_to_dict evToDict viewEV
  have hc := translated_convert_array_to_dict_eq view toL real imag tolist iscomplex hw
  cases h1 : correlations e <;> cases h2 : covariances e <;>
    simp [mapFrames, hc, foldl_append_singleton (fun x => arrayToDict toL (view x)), List.map_map, Function.comp_def]

/-- **`ExpectationValues.from_dict` (translated) = `evFromDict`**: if the constructor `cls` builds an object whose view is made
    of the views of its arguments (`hcls`), the object built from a dictionary is the model's.  Domain: every `EVD`. -/
theorem translated_expectation_values_from_dict_eq {E : Type} (view : Arr → CArr A) (viewE : E → EV A) (ofL : L → A)
    (array : L → Arr) (cls : Arr → Option (List Arr) → Option (List Arr) → E) (mul : Num → Arr → Arr) (add : Arr → Arr → Arr)
    (truthy : L → Bool) (hr : ReaderLaws view ofL array mul add)
    (hcls : ∀ v c k, viewE (cls v c k) = ⟨view v, c.map (List.map view), k.map (List.map view)⟩) (d : EVD L) :
    viewE (Translated.expectation_values_from_dict array cls mul add truthy d) = evFromDict ofL truthy d := by
  unfold Translated.expectation_values_from_dict evFromDict
  have hc := translated_convert_dict_to_array_eq view ofL array mul add truthy hr
  cases h1 : d.correlations <;> cases h2 : d.estimatorCovariances <;>
    simp [mapFrames, hc, hcls,
      foldl_append_singleton (fun x => Translated.convert_dict_to_array array mul add truthy x), List.map_map, Function.comp_def]

/-- **`Parities.to_dict` (translated) = `parToDict`** of the viewed object.  Domain: every object. -/
theorem translated_parities_to_dict_eq {E : Type} (view : Arr → CArr A) (toL : A → L) (values : E → Arr)
    (correlations : E → Option (List Arr)) (real imag : Arr → Arr) (tolist : Arr → L) (iscomplex : Arr → Bool)
    (hw : WriterLaws view toL real imag tolist iscomplex) (e : E) :
    Translated.parities_to_dict values correlations real imag tolist iscomplex e
      = parToDict toL (viewPar view values correlations e) := by
  unfold Translated.parities_to_dict parToDict viewPar
  have hc := translated_convert_array_to_dict_eq view toL real imag tolist iscomplex hw
  cases h1 : correlations e <;> simp [mapFrames, hc, List.map_map, Function.comp_def]

/-- **`Parities.from_dict` (translated) = `parFromDict`**, `cls` as above.  Domain: every `ParD`. -/
theorem translated_parities_from_dict_eq {E : Type} (view : Arr → CArr A) (viewE : E → Par A) (ofL : L → A)
    (array : L → Arr) (cls : Arr → Option (List Arr) → E) (mul : Num → Arr → Arr) (add : Arr → Arr → Arr)
    (truthy : L → Bool) (hr : ReaderLaws view ofL array mul add)
    (hcls : ∀ v c, viewE (cls v c) = ⟨view v, c.map (List.map view)⟩) (d : ParD L) :
    viewE (Translated.parities_from_dict array cls mul add truthy d) = parFromDict ofL truthy d := by
  unfold Translated.parities_from_dict parFromDict
  have hc := translated_convert_dict_to_array_eq view ofL array mul add truthy hr
  cases h1 : d.correlations <;> simp [mapFrames, hc, hcls, List.map_map, Function.comp_def]

/-- END-TO-END (`expectation_values_roundtrip` ON THE TRANSLATED PAIR): `from_dict(to_dict(e))` is seen by the model exactly as
    `e` is – values, correlations, covariances; no frames (`None`), an empty list, one or several frames. -/
theorem translated_expectation_values_roundtrip {E : Type} (view : Arr → CArr A) (toL : A → L) (ofL : L → A) (values : E → Arr)
    (correlations covariances : E → Option (List Arr)) (real imag : Arr → Arr) (tolist : Arr → L) (iscomplex : Arr → Bool)
    (array : L → Arr) (cls : Arr → Option (List Arr) → Option (List Arr) → E) (mul : Num → Arr → Arr) (add : Arr → Arr → Arr)
    (truthy : L → Bool) (hw : WriterLaws view toL real imag tolist iscomplex) (hr : ReaderLaws view ofL array mul add)
    (hcls : ∀ v c k, viewEV view values correlations covariances (cls v c k) = ⟨view v, c.map (List.map view), k.map (List.map view)⟩)
    (hback : ∀ a, ofL (toL a) = a) (htruthy : ∀ a, truthy (toL a) = true) (e : E) :
    viewEV view values correlations covariances (Translated.expectation_values_from_dict array cls mul add truthy
      (Translated.expectation_values_to_dict values correlations covariances real imag tolist iscomplex e))
      = viewEV view values correlations covariances e := by
  rw [translated_expectation_values_from_dict_eq view _ ofL array cls mul add truthy hr hcls,
    translated_expectation_values_to_dict_eq view toL values correlations covariances real imag tolist iscomplex hw]
  exact expectation_values_roundtrip toL ofL truthy hback htruthy _

/-- END-TO-END (`parities_roundtrip` ON THE TRANSLATED PAIR). -/
theorem translated_parities_roundtrip {E : Type} (view : Arr → CArr A) (toL : A → L) (ofL : L → A) (values : E → Arr)
    (correlations : E → Option (List Arr)) (real imag : Arr → Arr) (tolist : Arr → L) (iscomplex : Arr → Bool)
    (array : L → Arr) (cls : Arr → Option (List Arr) → E) (mul : Num → Arr → Arr) (add : Arr → Arr → Arr)
    (truthy : L → Bool) (hw : WriterLaws view toL real imag tolist iscomplex) (hr : ReaderLaws view ofL array mul add)
    (hcls : ∀ v c, viewPar view values correlations (cls v c) = ⟨view v, c.map (List.map view)⟩)
    (hback : ∀ a, ofL (toL a) = a) (htruthy : ∀ a, truthy (toL a) = true) (e : E) :
    viewPar view values correlations (Translated.parities_from_dict array cls mul add truthy
      (Translated.parities_to_dict values correlations real imag tolist iscomplex e))
      = viewPar view values correlations e := by
  rw [translated_parities_from_dict_eq view _ ofL array cls mul add truthy hr hcls,
    translated_parities_to_dict_eq view toL values correlations real imag tolist iscomplex hw]
  exact parities_roundtrip toL ofL truthy hback htruthy _

end arrays

/-- **`ValueEstimate.from_dict` (translated) = `veFromDict`** with `cls` = the model's constructor: the precision is passed when the
    key is present (a number or `None`), and defaults to `None` when it is absent.  Domain: every `VED`. -/
theorem translated_value_estimate_from_dict_eq (d : VED) :
    Translated.value_estimate_from_dict VE.mk d = veFromDict d := by
  unfold Translated.value_estimate_from_dict veFromDict
  cases d.precision <;> rfl

/-! ## non-vacuity: the laws are satisfiable (one-dimensional arrays of rationals as lists) and the TRANSLATED definitions run -/

/-- a stand-in numpy: an array IS its view -/
def demoMul (_z : Num) (x : CArr (List Rat)) : CArr (List Rat) := ⟨x.re.map (fun _ => 0), some x.re⟩
def demoAdd (a b : CArr (List Rat)) : CArr (List Rat) := ⟨a.re, b.im⟩

example : WriterLaws (A := List Rat) (L := List Rat) id id (fun x => ⟨x.re, none⟩) (fun x => ⟨x.im.getD [], none⟩) (fun x => x.re)
    (fun x => x.im.isSome) :=
  ⟨fun _ => rfl, fun _ _ _ => rfl, fun x i h => by simp only [id] at h; simp [h], fun _ _ => rfl⟩
example : ReaderLaws (A := List Rat) (L := List Rat) id id (fun l => ⟨l, none⟩) demoMul demoAdd := ⟨fun _ => rfl, fun _ _ => rfl⟩
example : Translated.convert_array_to_dict (Arr := CArr (List Rat)) (fun x => ⟨x.re, none⟩) (fun x => ⟨x.im.getD [], none⟩)
    (fun x => x.re) (fun x => x.im.isSome) ⟨[1, 2], some [0, 1/2]⟩ = ⟨[1, 2], some [0, 1/2]⟩ := by decide +kernel
example : Translated.convert_dict_to_array (Arr := CArr (List Rat)) (fun l => ⟨l, none⟩) demoMul demoAdd (fun l => !l.isEmpty)
    ⟨[1, 2], some [0, 1/2]⟩ = ⟨[1, 2], some [0, 1/2]⟩ := by decide +kernel
-- an empty (falsy) `imag` list and an absent one both give a real array
example : Translated.convert_dict_to_array (Arr := CArr (List Rat)) (fun l => ⟨l, none⟩) demoMul demoAdd (fun l => !l.isEmpty)
    ⟨[1, 2], some []⟩ = ⟨[1, 2], none⟩ := by decide +kernel
-- an empty list of correlation frames stays an empty list, no covariances stay None
example : Translated.expectation_values_to_dict (EV := EV (List Rat)) (Arr := CArr (List Rat)) (fun e => e.values) (fun e => e.correlations)
    (fun e => e.estimatorCovariances) (fun x => ⟨x.re, none⟩) (fun x => ⟨x.im.getD [], none⟩) (fun x => x.re) (fun x => x.im.isSome)
    ⟨⟨[1], none⟩, some [], none⟩ = ⟨[], ⟨[1], none⟩, some [], none⟩ := by decide +kernel
example : Translated.expectation_values_from_dict (EV := EV (List Rat)) (Arr := CArr (List Rat)) (fun l => ⟨l, none⟩) EV.mk demoMul demoAdd
    (fun l => !l.isEmpty) ⟨[], ⟨[1], none⟩, some [⟨[1, -1], some [0, 1/2]⟩], none⟩
    = ⟨⟨[1], none⟩, some [⟨[1, -1], some [0, 1/2]⟩], none⟩ := by decide +kernel
example : Translated.parities_from_dict (PAR := Par (List Rat)) (Arr := CArr (List Rat)) (fun l => ⟨l, none⟩) Par.mk demoMul demoAdd
    (fun l => !l.isEmpty) (Translated.parities_to_dict (PAR := Par (List Rat)) (fun e => e.values) (fun e => e.correlations)
      (fun x => ⟨x.re, none⟩) (fun x => ⟨x.im.getD [], none⟩) (fun x => x.re) (fun x => x.im.isSome) ⟨⟨[3, 4], none⟩, some [⟨[1], some [2]⟩]⟩)
    = ⟨⟨[3, 4], none⟩, some [⟨[1], some [2]⟩]⟩ := by decide +kernel
example : Translated.value_estimate_from_dict VE.mk ⟨3/2, none⟩ = ⟨3/2, none⟩ := rfl
example : Translated.value_estimate_from_dict VE.mk ⟨3/2, some none⟩ = ⟨3/2, none⟩ := rfl
example : Translated.value_estimate_from_dict VE.mk ⟨3/2, some (some (1/8))⟩ = ⟨3/2, some (1/8)⟩ := rfl

end OQ.C11
