/-
  C11 — TRANSLATION TIE (work package T19): the TEXT round trip of Pauli operators, on the translated code.

  `OQ/Generated/TranslatedC11Text.lean` is regenerated on every run from the CURRENT source of `PauliTerm.__getitem__`, the string branch
  of `PauliTerm.__init__`, `PauliTerm.__repr__`, `PauliSum.__len__`, `PauliSum.__repr__`, the string branch of `PauliSum.__init__`
  (operators/_pauli_operators.py) by harness/translate_t19.py; T9's `OQ/Generated/TranslatedC11.lean` holds the parser chain they call.
  An object of the classes is the structure of the attributes `__init__` assigns (`PyTerm`: `_ops : Dict[int, str]`, `coefficient`;
  `PySum`: `terms`; the attribute list is read from the source).  A `str` is a `List Char`; a function that may raise returns
  `Except OQ.Py.Exc τ` (the model writes `none` for `ValueError`: `liftO`).

  Externals (parameters of the translated definitions):
    * `ext_complex`  – `complex(text)`, instantiated by the model's `readC` (`readNum readC`; `none` = ValueError);
    * `ext_str_Num`  – `str(number)` inside the f-string of `__repr__` (CPython's `repr` of int / float / complex), the model's `showC`.
      A Python number is T9's `OQ.Py.Num`: its exact value and whether it is a `complex` (an int and a float of equal value are NOT
      distinguished, so `showC` gives them one text: the self-check skips cases that hold both).
  Assumed laws (hypotheses, exactly those of `Props/C11.lean` plus one): `CoefLaw showC readC val c` (the text of a coefficient is read
  back by `complex` as its value, has no `*` / blank, `+` only inside brackets, and is bracketed when real and imaginary part are both
  non-zero) and `readC "I0" = none` (`complex("I0")` raises ValueError – `PauliSum.__repr__` builds the zero term as `PauliTerm("I0", 0)`
  at RUN time, so printing the empty sum parses the text "I0").
  Prelude (compared with CPython on every run): `str.strip()` (`stripWs`), `re.split(r"\+(?![^(]*\))", s)` (`reSplitPlus`), the
  T9 string functions, `str(int)`, `"sep".join`, `dict(pairs)`, `d.get(k, default)`, `k in d`.  DOMAIN of the string functions: ASCII.
  Not modelled: `warnings.warn` in `__getitem__`.

  MODEL CHANGE made by this package: `isWhite` (what `str.strip()` removes) now contains U+001C–U+001F (`str.isspace()` is true for
  them; the tie of `PauliSum.__init__` found the omission); the driver's `complex` reader keeps C's `isspace` (`isCSpace`).
-/
import OQ.Lemmas.C11_TranslatedT19
namespace OQ.C11
open OQ.Py OQ.Generated

/-- **`_parse_operators_and_coefficient` (translated) = `parseOpsAndCoef`** (the tie T9 left open), for EVERY string and every behaviour
    `readC` of `complex(text)`: `re.split(r"\ *\*\ *", term_str.strip(" "))` is "split at `*`, strip every part of blanks"; the first
    part is the coefficient when `_parse_complex` accepts it (only `ValueError` is caught; `parts[0]` cannot raise `IndexError` because a
    split is never empty); bare `I` factors are dropped; every other factor must parse; `dict(pairs)` over `int` keys / `str` letters is
    the model's `dictOf` over `Nat` / `Pauli`; a repeated qubit index is `ValueError`.  The result is the model's, with the coefficient
    as a Python `complex` and every operator as `(int index, upper-case letter)` (`convRes`). -/
theorem translated_parse_operators_and_coefficient_eq (readC : List Char → Option (Rat × Rat)) (s : List Char) :
    Translated.parse_operators_and_coefficient (readNum readC) s = liftO ((parseOpsAndCoef readC s).map convRes) :=
  parse_operators_and_coefficient_core readC s

/-- **`PauliTerm.__getitem__` (translated)** is `self._ops.get(i, "I")`, for every object and every index (the warning for an absent
    index is not modelled). -/
theorem translated_term_getitem_eq (t : Translated.PyTerm) (i : Int) :
    Translated.term_getitem t i = dictGetD t._ops i ['I'] :=
  term_getitem_core t i

/-- on a term whose `_ops` is a dict (distinct qubit indices: `pyOf t` of a model term with distinct keys) `self[q]` is the letter
    stored for `q`. -/
theorem translated_term_getitem_stored (t : Term Num) (h : (t.ops.map (fun p => p.1)).Nodup) (q : Nat) (p : Pauli)
    (hm : (q, p) ∈ t.ops) : Translated.term_getitem (pyOf t) (q : Int) = [pauliChar p] :=
  term_getitem_stored_core t h q p hm

/-- **`PauliTerm.__repr__` (translated) = `reprTerm`**, for every `str(number)` behaviour `showC` and every term whose `_ops` is a
    dict (distinct qubit indices – every Python dict; no hypothesis on the letters or the coefficient): the factors `f"{self[index]}{index}"`
    in insertion order joined by `*`, a bare `I` for a constant term, after `str(coefficient)` and `*`. -/
theorem translated_term_repr_eq (showC : Num → List Char) (t : Term Num) (h : (t.ops.map (fun p => p.1)).Nodup) :
    Translated.term_repr showC (pyOf t) = reprTerm showC t :=
  term_repr_core showC t h

/-- **`PauliSum.__len__` (translated)** is the number of terms. -/
theorem translated_sum_len_eq (ts : List Translated.PyTerm) : Translated.sum_len ⟨ts⟩ = (ts.length : Int) := rfl

/-- **`PauliSum.__repr__` (translated) = `reprSum`** with the int `0` of `PauliTerm("I0", 0)` as the zero coefficient, for every sum of
    terms whose `_ops` are dicts, under the law `complex("I0")` raises ValueError (the zero term is built by the string constructor at
    run time; without that law the translated function could fail or print another term).  `" + ".join` of the printed terms, or the
    printed zero term for the empty sum; never raises on this domain. -/
theorem translated_sum_repr_eq (showC : Num → List Char) (readC : List Char → Option (Rat × Rat))
    (hI0 : readC "I0".toList = none) (s : PSum Num) (hs : ∀ t ∈ s, (t.ops.map (fun p => p.1)).Nodup) :
    Translated.sum_repr (readNum readC) showC ⟨s.map pyOf⟩ = .ok (reprSum showC (Num.real 0) s) :=
  sum_repr_core hI0 s hs

/-- **`PauliTerm(text, coefficient)` (translated string branch of `__init__`)** in terms of the model's `parseOpsAndCoef`, for EVERY
    string, every optional second coefficient and every `complex` behaviour: `ValueError` where the parser fails or a coefficient is
    given twice; otherwise the object `pyOfParsed`: identities dropped from the parsed dict (the index / letter checks of `__init__`
    cannot fail on what the parser returned), the coefficient found in the text (a `complex`), else the argument, else `1.0`. -/
theorem translated_term_init_str_eq (readC : List Char → Option (Rat × Rat)) (s : List Char) (co : Option Num) :
    Translated.term_init_str (readNum readC) s co
      = liftO ((parseOpsAndCoef readC s).bind (fun r => if r.1.isSome && co.isSome then none else some (pyOfParsed r co))) :=
  term_init_core readC s co

/-- **`PauliTerm(text)` (translated) = `parseTerm`**: the translated constructor and the model accept the same strings (every
    exception of the translated code is the `ValueError` the model calls `none`) and return the same operations and the same
    coefficient value (`viewPy` / `viewT`: `_ops` as (int, letter) pairs, the coefficient as (re, im)). -/
theorem translated_term_init_str_parseTerm (readC : List Char → Option (Rat × Rat)) (s : List Char) :
    ((Translated.term_init_str (readNum readC) s none).toOption).map viewPy = (parseTerm readC s).map viewT :=
  term_init_parseTerm_core readC s

/-- **`PauliSum(text)` (translated string branch of `__init__`)**, for EVERY string: the pieces of
    `re.split(r"\+(?![^(]*\))", text)` (= the model's `splitPlus`), each stripped of whitespace (`str.strip()` = `stripBy isWhite`),
    each through the term constructor; the first failing piece raises `ValueError`; the `isinstance` re-check cannot fail. -/
theorem translated_sum_init_str_eq (readC : List Char → Option (Rat × Rat)) (s : List Char) :
    Translated.sum_init_str (readNum readC) s
      = liftO ((((splitPlus s).map (stripBy isWhite)).mapM
          (fun piece => (parseOpsAndCoef readC piece).map (fun r => pyOfParsed r none))).map Translated.PySum.mk) :=
  sum_init_core readC s

/-- **`PauliSum(text)` (translated) = `parseSum`**: same accepted strings, same terms in the same order (operations and coefficient
    values). -/
theorem translated_sum_init_str_parseSum (readC : List Char → Option (Rat × Rat)) (s : List Char) :
    ((Translated.sum_init_str (readNum readC) s).toOption).map (fun ps => ps.terms.map viewPy)
      = (parseSum readC s).map (List.map viewT) :=
  sum_init_parseSum_core readC s

/-- END-TO-END (`parse_repr_term` ON THE TRANSLATED CODE): for every well-formed term and every coefficient obeying the text law,
    the translated `PauliTerm.__init__` applied to the text the translated `PauliTerm.__repr__` prints is accepted and returns the same
    `_ops` (same qubits, same letters, same order) with the coefficient `complex(str(c))`, whose value is the value of `c`. -/
theorem translated_parse_repr_term (showC : Num → List Char) (readC : List Char → Option (Rat × Rat)) (val : Num → Rat × Rat)
    (t : Term Num) (ht : t.WF) (hl : CoefLaw showC readC val t.coef) :
    Translated.term_init_str (readNum readC) (Translated.term_repr showC (pyOf t)) none = .ok (parsedPy val t) :=
  parse_repr_term_core t ht hl

/-- END-TO-END (`parse_repr_sum` ON THE TRANSLATED CODE): `PauliSum(str(s))` through the translated printer and the translated
    constructor returns the terms of `s` one for one (the `+` inside a bracketed complex coefficient never cuts a term); the empty sum
    prints as the zero constant and is read back as the single constant term with coefficient zero.  Hypotheses: the model's
    (`WF`, `CoefLaw` for every coefficient and for the int 0) and `complex("I0")` raises. -/
theorem translated_parse_repr_sum (showC : Num → List Char) (readC : List Char → Option (Rat × Rat)) (val : Num → Rat × Rat)
    (hI0 : readC "I0".toList = none) (s : PSum Num) (hs : ∀ t ∈ s, t.WF)
    (hl : ∀ t ∈ s, CoefLaw showC readC val t.coef) (hz : CoefLaw showC readC val (Num.real 0)) :
    (Translated.sum_repr (readNum readC) showC ⟨s.map pyOf⟩).bind (Translated.sum_init_str (readNum readC))
      = .ok ⟨(if s.isEmpty then [⟨[], Num.real 0⟩] else s).map (parsedPy val)⟩ :=
  parse_repr_sum_core hI0 s hs hl hz

/-! ## non-vacuity: the TRANSLATED definitions on concrete inputs -/

/-- `str(number)` as Python prints the numbers used below (a finite table standing for `repr`) -/
def demoShow (z : Num) : List Char :=
  if z = .cplx 1 2 then "(1+2j)".toList else if z = .real (-1/2) then "-0.5".toList
  else if z = .real (1/1000000000000) then "1e-12".toList else if z = .real 0 then "0".toList else "?".toList

example : demoRead "I0".toList = none := by decide
example : CoefLaw demoShow demoRead (fun z => (z.re, z.im)) (.cplx 1 2) := ⟨by decide +kernel, by decide +kernel, fun _ _ => by decide +kernel⟩
example : CoefLaw demoShow demoRead (fun z => (z.re, z.im)) (.real 0) := ⟨by decide +kernel, by decide +kernel, fun h => absurd rfl h⟩
example : Translated.term_getitem ⟨[(0, "Z".toList), (12, "X".toList)], .real 1⟩ 12 = "X".toList := by decide
example : Translated.term_getitem ⟨[(0, "Z".toList), (12, "X".toList)], .real 1⟩ 5 = "I".toList := by decide
example : Translated.term_repr demoShow (pyOf ⟨[(0, .Z), (12, .X)], .cplx 1 2⟩) = "(1+2j)*Z0*X12".toList := by decide +kernel
example : Translated.term_repr demoShow (pyOf ⟨[], .real (-1/2)⟩) = "-0.5*I".toList := by decide +kernel
example : Translated.sum_repr (readNum demoRead) demoShow ⟨[pyOf ⟨[(0, .Z), (12, .X)], .cplx 1 2⟩, pyOf ⟨[], .real (-1/2)⟩,
    pyOf ⟨[(3, .Y)], .real (1/1000000000000)⟩]⟩ = .ok "(1+2j)*Z0*X12 + -0.5*I + 1e-12*Y3".toList := by decide +kernel
example : Translated.sum_repr (readNum demoRead) demoShow ⟨[]⟩ = .ok "0*I".toList := by decide +kernel
example : Translated.term_init_str (readNum demoRead) "(1+2j) * z0*X12*I".toList none
    = .ok ⟨[(0, "Z".toList), (12, "X".toList)], .cplx 1 2⟩ := by decide +kernel
example : Translated.term_init_str (readNum demoRead) "I0".toList (some (.real 0)) = .ok ⟨[], .real 0⟩ := by decide +kernel
example : Translated.term_init_str (readNum demoRead) "Y3".toList none = .ok ⟨[(3, "Y".toList)], .real 1⟩ := by decide +kernel
example : Translated.term_init_str (readNum demoRead) "-0.5*Z1".toList (some (.real 2)) = .error .ValueError := by decide +kernel
example : Translated.term_init_str (readNum demoRead) "Z0*X0".toList none = .error .ValueError := by decide +kernel
example : Translated.sum_init_str (readNum demoRead) "(1+2j)*Z0*X12 + -0.5*I +\n1e-12*Y3 ".toList
    = .ok ⟨[⟨[(0, "Z".toList), (12, "X".toList)], .cplx 1 2⟩, ⟨[], .cplx (-1/2) 0⟩, ⟨[(3, "Y".toList)], .cplx (1/1000000000000) 0⟩]⟩ := by
  decide +kernel
example : Translated.sum_init_str (readNum demoRead) "Z0 + ".toList = .error .ValueError := by decide +kernel
-- the round trip itself, computed: printed by the translated `__repr__`, read by the translated `__init__`
example : (Translated.sum_repr (readNum demoRead) demoShow ⟨[pyOf ⟨[(0, .Z), (12, .X)], .cplx 1 2⟩, pyOf ⟨[], .real (-1/2)⟩]⟩).bind
    (Translated.sum_init_str (readNum demoRead)) = .ok ⟨[⟨[(0, "Z".toList), (12, "X".toList)], .cplx 1 2⟩, ⟨[], .cplx (-1/2) 0⟩]⟩ := by
  decide +kernel
example : (Translated.sum_repr (readNum demoRead) demoShow ⟨[]⟩).bind (Translated.sum_init_str (readNum demoRead))
    = .ok ⟨[⟨[], .cplx 0 0⟩]⟩ := by decide +kernel
-- the four separator controls are stripped like blanks (the model change)
example : isWhite (Char.ofNat 28) = true ∧ isCSpace (Char.ofNat 28) = false := by decide

end OQ.C11
