/-
  C07 — PROPERTY THEOREMS: gate modifiers (dagger, controlled, power, exp) mean what they say.
  Model: OQ/Model/C07.lean (the wrapper classes of circuits/_gates.py and their modifier METHODS with the
  re-association rules).  Helper lemmas: OQ/Lemmas/C07.lean.

  Conventions.  `Gate.daggerM / ctlI / ctlP / powerM / expM / replaceParams` are the Python methods
  `.dagger / .controlled(n) (checked, any int) / .controlled(m+1) / .power(e) / .exp / .replace_params`.
  `gateMatrix star x g` is `g.matrix`; it is `.ok M` when no exception is raised.  Matrices are compared through the
  view `Mat.toM D D M : Matrix (Fin D) (Fin D) R`.  sympy's inverse / non-integer power / exponential are the
  externals `x : Ext R` with the laws `ExtLaws x`, `ExpLaw x E`.  `Gate.Canon` is the shape invariant of every gate the
  methods can build (`canon_reachable`).  All theorems hold over every commutative star ring `R`; the statements
  about the matrix exponential are instantiated at `ℂ`.
-/
import OQ.Lemmas.C07
import OQ.Lemmas.C07_Inst
namespace OQ.C07
open Matrix

section Structure
variable {P R : Type}

/-- "the modified gate reports the implied number of qubits": dagger, power and exp keep it -/
theorem numQubits_dagger_power_exp (g : Gate P R) (e : Rat) :
    g.daggerM.numQubits = g.numQubits ∧ (g.powerM e).numQubits = g.numQubits ∧ g.expM.numQubits = g.numQubits :=
  ⟨Gate.numQubits_daggerM g, Gate.numQubits_powerM g e, rfl⟩

/-- "the modified gate reports the implied number of qubits": whenever `.controlled(n)` is accepted (any Python
    int `n`, including the merge with an existing `ControlledGate`), the result acts on `n` more qubits -/
theorem numQubits_controlled (g g' : Gate P R) (n : Int) (h : g.ctlI n = .ok g') :
    (g'.numQubits : Int) = g.numQubits + n := by
  induction g generalizing g' with
  | base b =>
    simp only [Gate.ctlI, Gate.mkControlled] at h
    split at h
    · cases h
    · cases h; simp only [Gate.numQubits]; omega
  | controlled y k ih =>
    simp only [Gate.ctlI, Gate.mkControlled] at h
    split at h
    · cases h
    · cases h; simp only [Gate.numQubits]; omega
  | dagger y ih =>
    simp only [Gate.ctlI] at h
    cases hy : y.ctlI n with
    | error e => rw [hy] at h; cases h
    | ok z => rw [hy] at h; cases h; rw [Gate.numQubits_daggerM]; exact ih z hy
  | power y e ih =>
    simp only [Gate.ctlI] at h
    cases hy : y.ctlI n with
    | error e => rw [hy] at h; cases h
    | ok z => rw [hy] at h; cases h; rw [Gate.numQubits_powerM]; exact ih z hy
  | exponential y ih =>
    simp only [Gate.ctlI, Gate.mkControlled] at h
    split at h
    · cases h
    · cases h; simp only [Gate.numQubits]; omega

/-- "… and the same parameters": every modifier keeps `params` -/
theorem params_modifiers (g : Gate P R) (e : Rat) :
    g.daggerM.params = g.params ∧ (g.powerM e).params = g.params ∧ g.expM.params = g.params ∧
    ∀ n g', g.ctlI n = .ok g' → g'.params = g.params := by
  refine ⟨Gate.params_daggerM g, Gate.params_powerM g e, rfl, ?_⟩
  induction g with
  | base b =>
    intro n g' h
    simp only [Gate.ctlI, Gate.mkControlled] at h
    split at h
    · cases h
    · cases h; rfl
  | controlled y k ih =>
    intro n g' h
    simp only [Gate.ctlI, Gate.mkControlled] at h
    split at h
    · cases h
    · cases h; rfl
  | dagger y ih =>
    intro n g' h
    simp only [Gate.ctlI] at h
    cases hy : y.ctlI n with
    | error e => rw [hy] at h; cases h
    | ok z => rw [hy] at h; cases h; rw [Gate.params_daggerM]; exact ih n z hy
  | power y e' ih =>
    intro n g' h
    simp only [Gate.ctlI] at h
    cases hy : y.ctlI n with
    | error e => rw [hy] at h; cases h
    | ok z => rw [hy] at h; cases h; rw [Gate.params_powerM]; exact ih n z hy
  | exponential y ih =>
    intro n g' h
    simp only [Gate.ctlI, Gate.mkControlled] at h
    split at h
    · cases h
    · cases h; rfl

/-- "all control counts ≥ 1": a valid count is always accepted, and the checked method is then the
    re-association function `ctlP` (about which the matrix theorems speak) -/
theorem controlled_accepts (g : Gate P R) (n : Int) (hn : 1 ≤ n) : g.ctlI n = .ok (g.ctlP (n - 1).toNat) :=
  Gate.ctlI_pos g n hn

/-- a count below one is rejected with `ValueError` by every method-built gate that is not already a
    `ControlledGate` (on a `ControlledGate` the counts add up first, as in the code) -/
theorem controlled_rejects (g : Gate P R) (hc : g.Canon) (hg : g.isCtl = false) (n : Int) (hn : n < 1) :
    g.ctlI n = .error .value := by
  induction g with
  | base b => simp [Gate.ctlI, Gate.mkControlled, hn]
  | controlled y k ih => simp [Gate.isCtl] at hg
  | dagger y ih =>
    obtain ⟨b, rfl, _⟩ := hc
    simp [Gate.ctlI, Gate.mkControlled, hn, Except.map]
  | power y e ih => simp [Gate.ctlI, ih hc.1 hc.2, Except.map]
  | exponential y ih => simp [Gate.ctlI, Gate.mkControlled, hn]

/-- every gate obtained from a base gate by any nesting of the modifier methods satisfies the shape invariant -/
theorem canon_reachable (b : Base P R) (ms : List Gate.Mod) : (Gate.applyChain (.base b) ms).Canon :=
  Gate.canon_applyChain _ ms trivial

/-- last sentence, one modifier: replacing the parameters of a modified gate gives the same gate as modifying
    the re-parameterised gate -/
theorem replaceParams_modifier (g : Gate P R) (hc : g.Canon) (m : Gate.Mod) (ps : List P) :
    (m.apply g).replaceParams ps = m.apply (g.replaceParams ps) := by
  rw [Gate.replaceParams_eq_mapParams _ ps (Gate.canon_apply m g hc), Gate.replaceParams_eq_mapParams g ps hc,
    Gate.mapParams_apply]

/-- last sentence, all chains of any depth and order: `chain(base).replace_params(ps) = chain(base built with ps)` -/
theorem replaceParams_commutes (b : Base P R) (ms : List Gate.Mod) (ps : List P) :
    (Gate.applyChain (.base b) ms).replaceParams ps = Gate.applyChain (.base { b with params := ps }) ms := by
  rw [Gate.replaceParams_eq_mapParams _ ps (canon_reachable b ms), Gate.mapParams_applyChain]
  rfl

/-- re-association: `g.power(e).controlled(n) = g.controlled(n).power(e)` (all gates) -/
theorem power_controlled (g : Gate P R) (e : Rat) (m : Nat) : (g.powerM e).ctlP m = (g.ctlP m).powerM e :=
  Gate.ctlP_powerM g e m

/-- re-association: `g.dagger.controlled(n) = g.controlled(n).dagger` -/
theorem dagger_controlled (g : Gate P R) (hc : g.Canon) (m : Nat) : g.daggerM.ctlP m = (g.ctlP m).daggerM :=
  Gate.ctlP_daggerM g m hc

/-- re-association: `.dagger` twice returns the gate itself -/
theorem dagger_involutive (g : Gate P R) (hc : g.Canon) : g.daggerM.daggerM = g :=
  Gate.daggerM_daggerM g hc

end Structure

section Matrices
variable {P R : Type} [CommRing R] [StarRing R] {x : Ext R}

/-- "for k controls the identity on the first 2^n(2^k − 1) basis states followed by the original matrix":
    entries of the matrix of `g.controlled(m+1)` for every method-built gate `g` (including the merge of counts when
    `g` is already controlled) -/
theorem controlled_matrix_block (hx : ExtLaws x) (g : Gate P R) (hcn : g.Canon) (hw : WellDim g) (m : Nat)
    (M M' : Mat R) (hM : gateMatrix star x g = .ok M) (hM' : gateMatrix star x (g.ctlP m) = .ok M') :
    let d := 2 ^ g.numQubits
    let d0 := 2 ^ g.numQubits * (2 ^ (m + 1) - 1)
    M'.r = d0 + d ∧ M'.c = d0 + d ∧ ∀ i j, i < d0 + d → j < d0 + d →
      M'.get i j = if i < d0 ∧ j < d0 then (if i = j then 1 else 0)
        else if d0 ≤ i ∧ d0 ≤ j then M.get (i - d0) (j - d0) else 0 :=
  ctlP_matrix_block hx g hcn hw m M M' hM hM'

omit [StarRing R] in
/-- "(controls come first in the qubit list)": the block matrix is `|1…1⟩⟨1…1| ⊗ M + (1 − |1…1⟩⟨1…1|) ⊗ 1` with the
    `k` control qubits as the LEFT (most significant = first) Kronecker factor -/
theorem controlled_eq_proj_form (k d : Nat) (M : Mat R) (hr : M.r = d) (hc : M.c = d) :
    Mat.toM (2 ^ k * d) (2 ^ k * d) (ctlMatrix (d * (2 ^ k - 1)) M) =
      Mat.toM (2 ^ k * d) (2 ^ k * d) (((projAll k).kron M).add ((projRest k).kron (Mat.identity d))) ∧
    Mat.toM (2 ^ k) (2 ^ k) (projRest (R := R) k) = 1 - Mat.toM (2 ^ k) (2 ^ k) (projAll k) := by
  refine ⟨?_, projRest_eq k⟩
  funext i j
  exact controlled_proj_entries k d M hr hc i j i.2 j.2

/-- "for an integer power the repeated product": `g.power(n)`, `n ≥ 0`, for every gate (the power is pushed under
    the controls of a `ControlledGate`) -/
theorem ipow_matrix (hx : ExtLaws x) (g : Gate P R) (e : Rat) (he : e.den = 1) (hn : 0 ≤ e.num)
    (M M' : Mat R) (D : Nat) (hM : gateMatrix star x g = .ok M) (hM' : gateMatrix star x (g.powerM e) = .ok M')
    (hr : M.r = D) (hc : M.c = D) :
    M'.r = D ∧ M'.c = D ∧ Mat.toM D D M' = Mat.toM D D M ^ e.num.toNat :=
  powerM_nat hx g e he hn M M' D hM hM' hr hc

/-- "(inverse for negative exponents)": `g.power(-n)` is the `n`-fold product of a two-sided inverse of the original -/
theorem ipow_neg_matrix (hx : ExtLaws x) (g : Gate P R) (e : Rat) (he : e.den = 1) (hn : e.num < 0)
    (M M' : Mat R) (D : Nat) (hM : gateMatrix star x g = .ok M) (hM' : gateMatrix star x (g.powerM e) = .ok M')
    (hr : M.r = D) (hc : M.c = D) :
    M'.r = D ∧ M'.c = D ∧ ∃ W : Matrix (Fin D) (Fin D) R,
      W * Mat.toM D D M = 1 ∧ Mat.toM D D M * W = 1 ∧ Mat.toM D D M' = W ^ (-e.num).toNat :=
  powerM_neg hx g e he hn M M' D hM hM' hr hc

/-- "for a fractional power 1/q a matrix whose q-th power is the original" -/
theorem root_matrix (hx : ExtLaws x) (g : Gate P R) (e : Rat) (he : e.num = 1) (hq : 2 ≤ e.den)
    (M M' : Mat R) (D : Nat) (hM : gateMatrix star x g = .ok M) (hM' : gateMatrix star x (g.powerM e) = .ok M')
    (hr : M.r = D) (hc : M.c = D) :
    M'.r = D ∧ M'.c = D ∧ Mat.toM D D M' ^ e.den = Mat.toM D D M :=
  powerM_root hx g e he hq M M' D hM hM' hr hc

/-- "for dagger the conjugate transpose" — PARTIAL: proved for every gate that contains no `Power` with a non-integer
    exponent (`NoFrac`), given truthful `is_hermitian` flags (`HermOK`, property C02) and `exp(Aᴴ) = exp(A)ᴴ` for the
    external exponential.  What is missing: gates with a fractional power below the dagger, for which the statement is
    FALSE of the code (`power_half_dagger_not_adjoint`, finding F16). -/
theorem dagger_adjoint_partial (hx : ExtLaws x) (E : ∀ d, Matrix (Fin d) (Fin d) R → Matrix (Fin d) (Fin d) R)
    (hE : ExpLaw x E) (hEs : ∀ d A, E d Aᴴ = (E d A)ᴴ)
    (g : Gate P R) (hw : WellDim g) (hnf : NoFrac g) (hh : HermOK g)
    (M M' : Mat R) (D : Nat) (hM : gateMatrix star x g = .ok M) (hM' : gateMatrix star x g.daggerM = .ok M')
    (hr : M.r = D) (hc : M.c = D) :
    M'.r = D ∧ M'.c = D ∧ Mat.toM D D M' = (Mat.toM D D M)ᴴ :=
  daggerM_adjoint hx E hE hEs g hw hnf hh M M' D hM hM' hr hc

end Matrices

section Complex
variable {P : Type} {x : Ext ℂ}

/-- "for exp the matrix exponential": when sympy's `exp` is the matrix exponential, so is the matrix of `g.exp` -/
theorem exp_matrix (hE : ExpLaw x (fun _ A => NormedSpace.exp A)) (g : Gate P ℂ) (M M' : Mat ℂ) (D : Nat)
    (hM : gateMatrix star x g = .ok M) (hM' : gateMatrix star x g.expM = .ok M') (hr : M.r = D) (hc : M.c = D) :
    Mat.toM D D M' = NormedSpace.exp (Mat.toM D D M) := by
  simp only [Gate.expM, gateMatrix, hM, ok_bind] at hM'
  exact hE D M M' hr hc hM'

/-- `(e^A)ᴴ = e^{Aᴴ}`: the dagger theorem with the exponential law discharged at ℂ — the dagger of any chain of
    controlled / integer power / exp / dagger modifiers over complex matrices is the conjugate transpose -/
theorem exp_dagger (hx : ExtLaws x) (hE : ExpLaw x (fun _ A => NormedSpace.exp A))
    (g : Gate P ℂ) (hw : WellDim g) (hnf : NoFrac g) (hh : HermOK g)
    (M M' : Mat ℂ) (D : Nat) (hM : gateMatrix star x g = .ok M) (hM' : gateMatrix star x g.daggerM = .ok M')
    (hr : M.r = D) (hc : M.c = D) :
    Mat.toM D D M' = (Mat.toM D D M)ᴴ :=
  (daggerM_adjoint hx _ hE (fun _ A => Matrix.exp_conjTranspose A) g hw hnf hh M M' D hM hM' hr hc).2.2

end Complex

section F16
open Inst

/-- structure behind F16: `Power.dagger` is "power of the dagger" and the dagger of a gate flagged hermitian is the gate
    itself, so `g.power(e).dagger` IS `g.power(e)` for every flagged base gate and every exponent -/
theorem power_dagger_of_flagged {P R : Type} (b : Base P R) (hb : b.hermitian = true) (e : Rat) :
    ((Gate.base b).powerM e).daggerM = (Gate.base b).powerM e := by
  simp [Gate.powerM, Gate.daggerM, hb]

/-- NEGATIVE WITNESS (finding F16): the full-strength sentence "for dagger the conjugate transpose" is false of the
    code.  For `X.power(1/2)` with the root sympy returns (`sqrtX`, whose square is X — the root law holds), the matrix of
    `X.power(1/2).dagger` is the same matrix, not its conjugate transpose: entry (0,0) is (1+i)/2, the adjoint has (1−i)/2. -/
theorem power_half_dagger_not_adjoint :
    (sqrtX.mul sqrtX).toLists = (Gates.x (R := Cyc8)).toLists ∧
    gateMatrix conj extF16 (xGate.powerM half) = .ok sqrtX ∧
    gateMatrix conj extF16 (xGate.powerM half).daggerM = .ok sqrtX ∧
    sqrtX.get 0 0 ≠ conj (sqrtX.get 0 0) := by
  have hd : half.den ≠ 1 := by rw [half_den]; decide
  have h1 : gateMatrix conj extF16 (xGate.powerM half) = .ok sqrtX := by
    simp [xGate, Gate.powerM, gateMatrix, Base.builtin, Gates.builtinMatrix, mpow, extF16, hd, Except.bind]
  refine ⟨by decide +kernel, h1, ?_, by decide +kernel⟩
  have : (xGate.powerM half).daggerM = xGate.powerM half :=
    power_dagger_of_flagged _ (by simp [Base.builtin, hermitianNames]) half
  rw [this, h1]

end F16

/-! ### non-vacuity: concrete non-trivial inputs meeting the hypotheses -/
section NonVacuity
open Inst

-- structure: X under two controls, square root, dagger: 3 qubits, still no parameters
example : ((xGate.ctlP 1).powerM half).daggerM.numQubits = 3 := by decide
example : xGate.ctlI 2 = .ok (xGate.ctlP 1) := controlled_accepts xGate 2 (by decide)
example : xGate.Canon ∧ xGate.isCtl = false ∧ ((0 : Int) < 1) := ⟨trivial, rfl, by decide⟩
example : (Gate.applyChain v [.controlled 1, .power half, .dagger, .exp, .controlled 0]).Canon := canon_reachable _ _
example := replaceParams_commutes (P := Unit) (R := ℤ) ⟨"V", fun _ => .ok (Mat.ofLists [[1, 2], [3, 4]]), [], 1, false⟩
  [.controlled 1, .power half, .dagger, .exp] [()]
-- controlled_matrix_block: V under one more control on top of an existing controlled gate
example : ∃ M M', ExtLaws (extNone ℤ) ∧ (v.ctlP 0).Canon ∧ WellDim (v.ctlP 0) ∧
    gateMatrix star (extNone ℤ) (v.ctlP 0) = .ok M ∧ gateMatrix star (extNone ℤ) ((v.ctlP 0).ctlP 1) = .ok M' :=
  ⟨_, _, extNone_laws ℤ, canon_reachable _ [.controlled 0], v_wellDim, rfl, rfl⟩
-- ipow_matrix: (controlled V)^3, exponent 3 = 3/1
example : ∃ M M', (3 : Rat).den = 1 ∧ 0 ≤ (3 : Rat).num ∧ gateMatrix star (extNone ℤ) (v.ctlP 0) = .ok M ∧
    gateMatrix star (extNone ℤ) ((v.ctlP 0).powerM 3) = .ok M' ∧ M.r = 4 ∧ M.c = 4 :=
  ⟨_, _, rfl, by decide, rfl, rfl, rfl, rfl⟩
-- ipow_neg_matrix and root_matrix: the laws are satisfiable with successful external calls (identity gate)
example : ∃ M, ExtLaws extId ∧ (-2 : Rat).den = 1 ∧ (-2 : Rat).num < 0 ∧ gateMatrix star extId (one.ctlP 0) = .ok M ∧
    (gateMatrix star extId ((one.ctlP 0).powerM (-2))).toBool = true ∧ M.r = 4 ∧ M.c = 4 :=
  ⟨_, extId_laws, rfl, by decide, rfl, by decide +kernel, rfl, rfl⟩
example : ∃ M, half.num = 1 ∧ 2 ≤ half.den ∧ gateMatrix star extId (one.ctlP 0) = .ok M ∧
    (gateMatrix star extId ((one.ctlP 0).powerM half)).toBool = true ∧ M.r = 4 ∧ M.c = 4 :=
  ⟨_, half_num, by rw [half_den], rfl, by decide +kernel, rfl, rfl⟩
-- dagger_adjoint_partial: dagger of (controlled V)^2 (a Dagger node under a Power under a ControlledGate)
example : ∃ M M', ExpLaw (extNone ℤ) (fun _ A => A) ∧ WellDim ((v.ctlP 0).powerM 2) ∧ NoFrac ((v.ctlP 0).powerM 2) ∧
    HermOK ((v.ctlP 0).powerM 2) ∧ gateMatrix star (extNone ℤ) ((v.ctlP 0).powerM 2) = .ok M ∧
    gateMatrix star (extNone ℤ) ((v.ctlP 0).powerM 2).daggerM = .ok M' :=
  ⟨_, _, extNone_exp ℤ _, v_wellDim, ⟨rfl, trivial⟩, by simp [HermOK, Gate.powerM, Gate.ctlP, v], rfl, rfl⟩
-- exp_matrix / exp_dagger: an external that really exponentiates (exp 0 = 1)
example : ExpLaw extExp0 (fun _ A => NormedSpace.exp A) ∧
    gateMatrix star extExp0 zero2.expM = .ok (Mat.identity 2) := ⟨extExp0_exp, zero2_exp_ok⟩

end NonVacuity

end OQ.C07
