/- C04 — PROPERTY THEOREMS (translation ties): the list-level bitstring conversions of `utils.py`:
   `convert_bitstrings_to_tuples`, `convert_tuples_to_bitstrings`, `get_ordered_list_of_bitstrings`.
   The definitions `OQ.Generated.Translated.*` are REGENERATED from /repo's current Python source on every run
   (harness/translate_t2.py → OQ/Generated/TranslatedC04.lean); an edit of a Python function changes its definition and these
   equalities stop checking at build time.  `get_ordered_list_of_bitstrings` contains a `while` loop: its translated definition is
   `Option`-valued (`none` = the declared fuel `num_qubits + 1` ran out); the tie `… = some …` shows that this never happens. -/
import OQ.Lemmas.C04_Lists
import OQ.Props.C04_Translated
namespace OQ.C04
open OQ.Generated OQ.Py OQ.Tr

/-- TRANSLATION TIE: `convert_bitstrings_to_tuples` regenerated from the current Python source applies `bitstring_to_tuple` (already
    tied: the model's `bitstringToTuple`, i.e. the REVERSED digits) to every string, in order – for all lists of digit strings. -/
theorem translated_convert_bitstrings_to_tuples_eq (ss : List (List Nat)) (h : ∀ s ∈ ss, ∀ d ∈ s, d < 10) :
    Translated.convert_bitstrings_to_tuples (ss.map (fun s => s.map digitChar))
      = ss.map (fun s => (bitstringToTuple s).map Int.ofNat) := by
  unfold Translated.convert_bitstrings_to_tuples
  simp only [List.map_map]
  exact List.map_congr_left (fun s hs => translated_bitstring_to_tuple_eq s (h s hs))

/-- TRANSLATION TIE: `convert_tuples_to_bitstrings` regenerated from the current Python source applies `tuple_to_bitstring` (the
    model's `tupleToBitstring`: same order) to every tuple, in order – for tuples whose entries print as one character (< 10;
    multi-digit entries are the known text-format limitation F7). -/
theorem translated_convert_tuples_to_bitstrings_eq (ts : List (List Nat)) (h : ∀ t ∈ ts, ∀ d ∈ t, d < 10) :
    Translated.convert_tuples_to_bitstrings (ts.map (fun t => t.map Int.ofNat))
      = ts.map (fun t => (tupleToBitstring t).map digitChar) := by
  unfold Translated.convert_tuples_to_bitstrings
  simp only [List.map_map]
  exact List.map_congr_left (fun t ht => translated_tuple_to_bitstring_eq t (h t ht))

/-- END-TO-END (`translated_tuple_bitstring_roundtrip` lifted to lists, on the code as it is now): writing measurement tuples as
    bitstrings and reading them back with `convert_bitstrings_to_tuples` REVERSES every tuple (count strings and basis-index strings are
    different conventions; see C04's `counts_key_position` / `tuple_of_index`). -/
theorem translated_convert_roundtrip (ts : List (List Nat)) (h : ∀ t ∈ ts, ∀ d ∈ t, d < 10) :
    Translated.convert_bitstrings_to_tuples (Translated.convert_tuples_to_bitstrings (ts.map (fun t => t.map Int.ofNat)))
      = ts.map (fun t => t.reverse.map Int.ofNat) := by
  rw [translated_convert_tuples_to_bitstrings_eq ts h]
  unfold tupleToBitstring
  rw [translated_convert_bitstrings_to_tuples_eq ts h]
  rfl

/-- TRANSLATION TIE: `get_ordered_list_of_bitstrings` (the `for i in range(2**num_qubits)` loop, `"{0:b}".format(i)`, the inner
    `while len(bitstring) < num_qubits: bitstring = "0" + bitstring`, `append`) regenerated from the current Python source returns, for
    every `num_qubits ≥ 0`, the list of the C04 model's `formatBin num_qubits i` (binary digits of `i` left-padded with zeros to the width)
    for `i = 0 … 2^num_qubits − 1`, in ascending order.  Domain: `num_qubits ≥ 0` (a negative one makes `2**num_qubits` a float and
    `range` raise TypeError in Python; the translator renders `**` for non-negative exponents only). -/
theorem translated_get_ordered_list_of_bitstrings_eq (n : Nat) :
    Translated.get_ordered_list_of_bitstrings (n : Int)
      = some ((List.range (2 ^ n)).map (fun i => (formatBin n i).map digitChar)) := by
  unfold Translated.get_ordered_list_of_bitstrings
  have e1 : Int.toNat ((2 : Int) ^ (Int.toNat (n : Int))) = 2 ^ n := by
    have : ((2 : Int) ^ n) = (((2 ^ n : Nat)) : Int) := by push_cast; rfl
    simp only [Int.toNat_natCast, this]
  have e2 : Int.toNat ((n : Int) + (1 : Int)) = n + 1 := by omega
  simp only [e1, e2]
  show (foldlOpt (fun (st : List (List Char)) (i : Int) =>
      (whileFuel (padStep n) (n + 1) (formatB i)).bind (fun y => some (st ++ [y]))) [] _).bind _ = _
  rw [foldlOpt_append _ (fun (i : Int) => (formatBin n i.toNat).map digitChar)]
  · simp only [List.nil_append, Option.bind_some, List.map_map]
    congr 1
  · intro x hx
    simp only [List.mem_map, List.mem_range] at hx
    obtain ⟨i, _, rfl⟩ := hx
    rw [whileFuel_pad n (n + 1) _ (by omega), formatB_ofNat]
    simp only [formatBin, List.length_map, List.map_append, List.map_replicate]
    rfl

/-- ON THE TRANSLATED CODE: the ordered list has `2 ^ num_qubits` entries. -/
theorem translated_ordered_list_length (n : Nat) (l : List (List Char))
    (h : Translated.get_ordered_list_of_bitstrings (n : Int) = some l) : l.length = 2 ^ n := by
  rw [translated_get_ordered_list_of_bitstrings_eq] at h
  rw [← Option.some.inj h]; simp

/-- ON THE TRANSLATED CODE, END-TO-END with C04's `bits` / `product01`: for at least one qubit the i-th entry is the `num_qubits`-digit
    binary of `i`, most significant digit first – the list is `itertools.product("01", repeat=n)` in generation order.  (For
    `num_qubits = 0` Python returns `["0"]`, one entry of ONE digit: `formatBin 0 0 = [0]`.) -/
theorem translated_ordered_list_eq_product01 (n : Nat) (hn : 1 ≤ n) :
    Translated.get_ordered_list_of_bitstrings (n : Int) = some ((product01 n).map (fun b => b.map digitChar)) := by
  rw [translated_get_ordered_list_of_bitstrings_eq, product01_eq, List.map_map]
  congr 1
  apply List.map_congr_left
  intro i hi
  simp only [Function.comp, formatBin_eq_bits n i hn (List.mem_range.mp hi)]

/-! non-vacuity -/
example : Translated.convert_bitstrings_to_tuples [['1', '1', '0'], ['0', '1']] = [[0, 1, 1], [1, 0]] := by decide
example : Translated.convert_tuples_to_bitstrings [[0, 1, 1], [1]] = [['0', '1', '1'], ['1']] := by decide
example : Translated.get_ordered_list_of_bitstrings 2 = some [['0', '0'], ['0', '1'], ['1', '0'], ['1', '1']] := by decide
example : Translated.get_ordered_list_of_bitstrings 0 = some [['0']] := by decide
end OQ.C04
