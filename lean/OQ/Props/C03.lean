/-
  C03 — PROPERTY THEOREMS: Pauli operator arithmetic is faithful to matrix arithmetic.
  Model: OQ/Model/C03.lean (+ data and the executable Kronecker `denote` of OQ/Model/Pauli.lean, tables regenerated
  from /repo in OQ/Generated/PauliTables.lean).  Helper lemmas: OQ/Lemmas/C03*.lean.

  Every statement is about the matrix that the EXECUTABLE `denote` computes (tensor product of the 2×2 Pauli matrices,
  qubit 0 leftmost, times the coefficient), viewed as a Mathlib matrix over `Fin (2^n)` (`MT`, `MS`, `MV` below), and
  about Mathlib's matrix `+`, `-`, `*`, `•`, `^`.  `R` is an arbitrary commutative ring with an element `k.i`,
  `k.i * k.i = -1` (ℂ, ℚ(i), and the driver's ℚ(ζ₈) – see `instCommRingCyc8`).  `n` is any register width that contains
  the operands (`TermFits` / `SumFits` / `ValFits`: every qubit index < n).
  `negl` is `np.isclose(·, 0.0)`; theorems with `hex : ∀ c, negl c = true → c = 0` are the exact-coefficient statements,
  `denote_simplify` is the statement for an arbitrary `negl`.
  Tier B (`==`): `close` is `np.allclose`, `hk` the coefficient part of `__hash__`; the theorems are for exact comparison
  (`close a b ↔ a = b`), an arbitrary `hk`, and rings without 2-torsion.  The float part of `==` (rtol of `np.allclose`,
  hash rounding at 1e-6) is modelled exactly in the driver (`Run.close`, `Run.hk`) and compared with the implementation, but
  is not a theorem; the one place where the library's answer differs from matrix equality (hash rounding) is recorded as a negative witness.
-/
import OQ.Lemmas.C03
import OQ.Lemmas.C03_Cyc8
import OQ.Lemmas.C03_Eq
namespace OQ.C03
open OQ.Pauli Matrix

variable {R : Type} [CommRing R]

/-- the matrix the executable `Term.denote` computes on `n` qubits -/
abbrev MT (k : Scal R) (n : Nat) (t : Term R) : Matrix (Fin (2 ^ n)) (Fin (2 ^ n)) R := Mat.toM (2 ^ n) (2 ^ n) (t.denote k n)
/-- the matrix the executable `PSum.denote` computes on `n` qubits -/
abbrev MS (k : Scal R) (n : Nat) (s : PSum R) : Matrix (Fin (2 ^ n)) (Fin (2 ^ n)) R := Mat.toM (2 ^ n) (2 ^ n) (PSum.denote k n s)
/-- the matrix a value (number = multiple of the identity, term, sum) denotes on `n` qubits -/
abbrev MV (k : Scal R) (n : Nat) (v : Val R) : Matrix (Fin (2 ^ n)) (Fin (2 ^ n)) R := Mat.toM (2 ^ n) (2 ^ n) (v.denote k n)

/-- 2×2 matrix of a letter (`none` = I), read off the executable `pauliMat` -/
abbrev M2 (k : Scal R) (o : Option P) : Matrix (Fin 2) (Fin 2) R := Mat.toM 2 2 (pauliMat k o)

/-! ## the tables -/

/-- Mechanism "OPERATOR_MAP / COEFF_MAP": on the tables REGENERATED from /repo, for all letters a ≠ b,
    σ_a σ_b = COEFF_MAP[ab] · σ_{OPERATOR_MAP[ord a + ord b]}; equal letters cancel (σ_a σ_a = 1); `I` is the identity.
    Together: all sixteen single-qubit products are the 2×2 matrix products. -/
theorem table_faithful (k : Scal R) (hi : k.i * k.i = -1) :
    (∀ a b : P, a ≠ b → M2 k (some a) * M2 k (some b) = phase k (Gen.coeffTable a b) • M2 k (some (Gen.opTable a b)))
    ∧ (∀ a : P, M2 k (some a) * M2 k (some a) = 1) ∧ M2 k none = 1 :=
  ⟨fun a b hab => σ_mul_table k hi a b hab, fun a => σ_sq k hi (some a), σ_none k⟩

/-- the same table check run on the driver's scalars by kernel evaluation of the executable matrices:
    the six products of distinct letters and the three squares -/
theorem table_faithful_cyc8 :
    ([P.X, P.Y, P.Z].all fun a => [P.X, P.Y, P.Z].all fun b =>
      if a = b then Mat.beq (Mat.mul (pauliMat Scal.cyc8 (some a)) (pauliMat Scal.cyc8 (some b))) (pauliMat Scal.cyc8 none)
      else Mat.beq (Mat.mul (pauliMat Scal.cyc8 (some a)) (pauliMat Scal.cyc8 (some b)))
        (Mat.smul (phase Scal.cyc8 (Gen.coeffTable a b)) (pauliMat Scal.cyc8 (some (Gen.opTable a b))))) = true := by
  decide +kernel

/-! ## products -/

/-- Mechanism "_multiply_by_operator": multiplying a term by the letter `op` on qubit `idx` (three cases: new qubit,
    equal letters cancel, table lookup with phase) denotes right-multiplication by that single-letter operator. -/
theorem denote_multiply_by_operator (k : Scal R) (hi : k.i * k.i = -1) (n : Nat) (t : Term R) (op : P) (idx : Nat)
    (hidx : idx < n) : MT k n (mulByOp k t op idx) = MT k n t * MT k n ⟨[(idx, op)], 1⟩ := by
  simp only [MT, toM_denote_term]
  rw [mulByOp_den k hi n t op idx hidx]
  congr 1
  unfold tden
  rw [one_smul]
  apply tens_congr
  intro q _
  simp only [single, lookup_cons, lookup_nil]
  by_cases h : q = idx
  · simp [h]
  · simp [h, Ne.symm h, σ_none]

/-- Sentence "product in either order" for terms (mechanism `PauliTerm.__mul__`): `t * u` denotes the matrix product
    `⟦t⟧ ⟦u⟧`, for all coefficients, on every register containing `u`, and for EVERY order in which Python's set iteration
    may visit the qubits of the right factor (`order`: no repetition, contains every qubit of `u`).  Swapping the
    arguments gives the other order of the product. -/
theorem denote_mul_term (k : Scal R) (hi : k.i * k.i = -1) (n : Nat) (t u : Term R) (order : List Nat)
    (hu : TermFits n u) (hnd : order.Nodup) (hcov : ∀ q, (u.opAt q).isSome → q ∈ order) :
    MT k n (mulTermOrd k order t u) = MT k n t * MT k n u := by
  simp only [MT, toM_denote_term]
  exact mulTermOrd_den k hi n t u order hu hnd (fun q a h => hcov q (by show (lookup u.ops q).isSome = true; rw [h]; rfl))

/-- the product the driver runs (dict order as iteration order) is an instance of `denote_mul_term` -/
theorem denote_mul_term_dictorder (k : Scal R) (hi : k.i * k.i = -1) (n : Nat) (t u : Term R) (hu : TermFits n u) :
    MT k n (mulTerm k t u) = MT k n t * MT k n u := by
  simp only [MT, toM_denote_term]
  exact mulTerm_den k hi n t u hu

/-- Mechanism "PauliSum.__mul__ distributes over the cartesian product": the un-simplified list of term products denotes
    the product of the sums (no assumption on `negl`; duplicates, zero coefficients and empty sums included). -/
theorem denote_product_terms (k : Scal R) (hi : k.i * k.i = -1) (n : Nat) (s1 s2 : PSum R) (hs : SumFits n s2) :
    MS k n (productTerms k s1 s2) = MS k n s1 * MS k n s2 := by
  simp only [MS, toM_denote_sum]
  exact productTerms_den k hi n s1 s2 hs

/-- Sentence "product" for sums: `PauliSum.__mul__` (cartesian product, then simplify) denotes the matrix product. -/
theorem denote_mul_sum (k : Scal R) (hi : k.i * k.i = -1) (n : Nat) (negl : R → Bool) (hex : ∀ c, negl c = true → c = 0)
    (s1 s2 : PSum R) (hs : SumFits n s2) : MS k n (mulS k negl s1 s2) = MS k n s1 * MS k n s2 := by
  simp only [MS, toM_denote_sum]
  exact mulS_den k hi n negl hex s1 s2 hs

/-! ## simplification -/

/-- Sentence "simplification never changes the denoted matrix", for an ARBITRARY negligibility test: the matrix changes
    exactly by the merged terms that were discarded, and each of those has a coefficient the test called negligible
    (|c| ≤ 1e-8 in the library). -/
theorem denote_simplify (k : Scal R) (n : Nat) (negl : R → Bool) (s : PSum R) :
    MS k n s = MS k n (simplify negl s) + MS k n (dropped negl s) ∧ ∀ d ∈ dropped negl s, negl d.coeff = true := by
  simp only [MS, toM_denote_sum]
  exact ⟨(simplify_den k n negl s).symm, dropped_negl negl s⟩

/-- Sentence "simplification never changes the denoted matrix", exact coefficients: if only 0 is negligible the matrix is
    unchanged (like terms merged, duplicates, zero coefficients, empty sum). -/
theorem denote_simplify_exact (k : Scal R) (n : Nat) (negl : R → Bool) (hex : ∀ c, negl c = true → c = 0) (s : PSum R) :
    MS k n (simplify negl s) = MS k n s := by
  simp only [MS, toM_denote_sum]
  exact simplify_den_exact k n negl hex s

/-! ## the operators, with numbers, terms and sums mixed on either side -/

section ops
variable (k : Scal R) (n : Nat) (negl : R → Bool) (hex : ∀ c, negl c = true → c = 0)
include hex

/-- Sentence "sum … with terms, sums and plain numbers mixed on either side": whenever `a + b` is defined by the library
    (all nine kind combinations except number + number, incl. the reflected `__radd__`), it denotes `⟦a⟧ + ⟦b⟧`. -/
theorem denote_add (a b r : Val R) (h : addV negl a b = .ok r) : MV k n r = MV k n a + MV k n b := by
  simp only [MV, toM_denote_val]
  cases a <;> cases b <;> simp only [addV, Except.ok.injEq, reduceCtorEq] at h <;> subst h <;>
    simp only [vden, addS_den k n negl hex, simplify_den_exact k n negl hex, sden_cons, sden_nil,
      tden_constTerm, add_zero] <;> try abel

/-- `-1.0 * v` denotes `-⟦v⟧` -/
theorem denote_neg (v : Val R) : MV k n (negV negl v) = -MV k n v := by
  simp only [MV, toM_denote_val]
  cases v <;> simp [negV, vden, tden_scaleTerm, rmulS_den k n negl hex]

/-- Sentence "difference" (`__sub__` / `__rsub__` = `+ (-1.0 · other)`): whenever `a - b` is defined it denotes `⟦a⟧ - ⟦b⟧`. -/
theorem denote_sub (a b r : Val R) (h : subV negl a b = .ok r) : MV k n r = MV k n a - MV k n b := by
  have hadd : addV negl a (negV negl b) = .ok r := by
    cases a <;> cases b <;> first | exact h | exact absurd h (by simp [subV])
  rw [denote_add k n negl hex _ _ _ hadd, denote_neg k n negl hex, sub_eq_add_neg]

variable (hi : k.i * k.i = -1)
include hi

/-- Sentence "product in either order … with terms, sums and plain numbers mixed on either side": whenever `a * b` is
    defined (all kind combinations except number * number, incl. `__rmul__`), it denotes `⟦a⟧ ⟦b⟧`. -/
theorem denote_mul (a b r : Val R) (hb : ValFits n b) (h : mulV k negl a b = .ok r) : MV k n r = MV k n a * MV k n b := by
  simp only [MV, toM_denote_val]
  cases a <;> cases b <;> simp only [mulV, Except.ok.injEq, reduceCtorEq] at h <;> subst h <;> simp only [vden, ValFits] at hb ⊢
  · -- number * term
    rw [tden_scaleTerm, Matrix.smul_mul, Matrix.one_mul]
  · -- number * sum
    rw [rmulS_den k n negl hex, Matrix.smul_mul, Matrix.one_mul]
  · -- term * number
    rw [tden_scaleTerm, Matrix.mul_smul, Matrix.mul_one]
  · -- term * term
    exact mulTerm_den k hi n _ _ hb
  · -- term * sum
    rw [simplify_den_exact k n negl hex, mulS_den k hi n negl hex _ _ hb, sden_singleton]
  · -- sum * number
    rw [mulS_den k hi n negl hex _ _ (singleton_fits n _ (scaleTerm_fits n _ _ (identityTerm_fits n))), sden_singleton,
      tden_scaleTerm, tden_identityTerm, Matrix.mul_smul]
  · -- sum * term
    rw [mulS_den k hi n negl hex _ _ (singleton_fits n _ (mulTerm_fits k n _ _ (identityTerm_fits n) hb)), sden_singleton,
      mulTerm_den k hi n _ _ hb, tden_identityTerm, Matrix.one_mul]
  · -- sum * sum
    exact mulS_den k hi n negl hex _ _ hb

/-- Sentence "scalar multiplication" (number on either side of a term or a sum): the result denotes `x • ⟦v⟧`. -/
theorem denote_smul (x : R) (v r : Val R) (h : mulV k negl (.num x) v = .ok r ∨ mulV k negl v (.num x) = .ok r) :
    MV k n r = x • MV k n v := by
  have hnum : MV k n (.num x) = x • (1 : Matrix (Fin (2 ^ n)) (Fin (2 ^ n)) R) := by
    simp only [MV, toM_denote_val, vden]
  rcases h with h | h
  · cases v with
    | num y => simp [mulV] at h
    | term t =>
      simp only [mulV, Except.ok.injEq] at h; subst h
      simp only [MV, toM_denote_val, vden, tden_scaleTerm]
    | sum s =>
      simp only [mulV, Except.ok.injEq] at h; subst h
      simp only [MV, toM_denote_val, vden, rmulS_den k n negl hex]
  · rw [denote_mul k n negl hex hi v (.num x) r trivial h, hnum, Matrix.mul_smul, Matrix.mul_one]

/-- Sentence "scalar division" (`self * (1.0 / y)`): if `1.0 / y` is the reciprocal (`y * r = 1`), the quotient `q` of a term
    or sum by the number `y` is the matrix division: `y • ⟦q⟧ = ⟦v⟧`, i.e. `⟦q⟧ = y⁻¹ • ⟦v⟧`.  Division BY an operator is a
    TypeError and division by a `y` without reciprocal a ZeroDivisionError (`div_errors`). -/
theorem denote_div (recip : R → Option R) (hrecip : ∀ y r, recip y = some r → y * r = 1) (v q : Val R) (y : R)
    (h : divV k negl recip v (.num y) = .ok q) : y • MV k n q = MV k n v := by
  cases v with
  | num x => simp [divV] at h
  | term t =>
    simp only [divV] at h
    cases hr : recip y with
    | none => simp [hr] at h
    | some r =>
      simp only [hr] at h
      rw [denote_smul k n negl hex hi r _ _ (Or.inr h), smul_smul, hrecip y r hr, one_smul]
  | sum s =>
    simp only [divV] at h
    cases hr : recip y with
    | none => simp [hr] at h
    | some r =>
      simp only [hr] at h
      rw [denote_smul k n negl hex hi r _ _ (Or.inr h), smul_smul, hrecip y r hr, one_smul]

/-- Sentence "non-negative integer powers" (mechanism square-and-multiply `_efficient_exponentiation`): for every exponent
    `p ≥ 0` (no bound), `v ** p` is defined for a term or sum and denotes the matrix power `⟦v⟧ ^ p` (`⟦v⟧ ^ 0 = 1`, also for
    the empty sum); the result again fits the register. -/
theorem denote_pow (v : Val R) (hv : ValFits n v) (hnum : ∀ x, v ≠ .num x) (p : Nat) :
    ∃ r, powV k negl v (p : Int) = .ok r ∧ MV k n r = MV k n v ^ p ∧ ValFits n r := by
  cases v with
  | num x => exact absurd rfl (hnum x)
  | term t =>
    have hs := effExp_spec (mulTerm k) identityTerm t (tden k n) (TermFits n)
      ⟨tden_identityTerm k n, constTerm_fits n 1⟩ hv
      (fun a b ha hb => ⟨mulTerm_den k hi n a b hb, mulTerm_fits k n a b ha hb⟩) p
    refine ⟨.term (effExp (mulTerm k) identityTerm t p), by simp [powV], ?_, hs.2⟩
    simp only [MV, toM_denote_val, vden]
    exact hs.1
  | sum s =>
    have hs := effExp_spec (mulS k negl) [identityTerm] s (sden k n) (SumFits n)
      ⟨by rw [sden_singleton, tden_identityTerm], singleton_fits n _ (identityTerm_fits n)⟩ hv
      (fun a b ha hb => ⟨mulS_den k hi n negl hex a b hb, mulS_fits k n negl a b ha hb⟩) p
    refine ⟨.sum (effExp (mulS k negl) [identityTerm] s p), by simp [powV], ?_, hs.2⟩
    simp only [MV, toM_denote_val, vden]
    exact hs.1

end ops

/-- the exceptions of `/` and `**`: negative or non-`int` exponents are ValueErrors; dividing by an operator is a TypeError;
    dividing a term or sum by a number without reciprocal (0) is a ZeroDivisionError -/
theorem div_pow_errors (k : Scal R) (negl : R → Bool) (recip : R → Option R) (t : Term R) (s : PSum R) (p : Int)
    (hp : p < 0) (y : R) (hy : recip y = none) :
    powV k negl (.term t) p = .error .value ∧ powV k negl (.sum s) p = .error .value
    ∧ powE k negl (.term t) .other = .error .value ∧ powE k negl (.sum s) .other = .error .value
    ∧ divV k negl recip (.term t) (.term t) = .error .type ∧ divV k negl recip (.sum s) (.term t) = .error .type
    ∧ divV k negl recip (.term t) (.sum s) = .error .type ∧ divV k negl recip (.num y) (.term t) = .error .type
    ∧ divV k negl recip (.term t) (.num y) = .error .zerodiv ∧ divV k negl recip (.sum s) (.num y) = .error .zerodiv := by
  simp [powV, powE, divV, hp, hy]

/-! ## non-vacuity: the hypotheses are met by concrete non-trivial inputs (driver scalars ℚ(ζ₈), kernel evaluation) -/

/-- `k.i * k.i = -1` holds for the driver's constants -/
example : (Scal.cyc8.i * Scal.cyc8.i : Cyc8) = -1 := cyc8_i_sq
/-- an exact negligibility test exists (only 0 is dropped) -/
example : ∀ c : Cyc8, (fun c => decide (c = 0)) c = true → c = 0 := by intro c h; simpa using h
/-- `denote_mul_term`: overlapping supports, a gap, descending dict order, a visiting order ≠ dict order -/
example : TermFits 3 (⟨[(2, .Y), (0, .Z)], Cyc8.ofReIm (1/2) (1/8)⟩ : Term Cyc8) ∧ [0, 2].Nodup
    ∧ (∀ q, ((⟨[(2, .Y), (0, .Z)], Cyc8.ofReIm (1/2) (1/8)⟩ : Term Cyc8).opAt q).isSome → q ∈ [0, 2]) := by
  refine ⟨by unfold TermFits; decide, by decide, ?_⟩
  intro q h
  change (lookup [(2, P.Y), (0, P.Z)] q).isSome = true at h
  simp only [lookup_cons, lookup_nil] at h
  split_ifs at h with h2 h0
  · simp [← h2]
  · simp [← h0]
  · simp at h
example :
    let r := mulTermOrd Scal.cyc8 [0, 2] ⟨[(0, .X), (2, .Z)], 2⟩ ⟨[(2, .Y), (0, .Z)], Cyc8.ofReIm (1/2) (1/8)⟩
    r.ops = [(0, .Y), (2, .X)] ∧ r.coeff = Cyc8.ofReIm (-1) (-1/4) := by decide +kernel
/-- … and the executable matrices agree on that input: ⟦t*u⟧ = ⟦t⟧⟦u⟧ on 3 qubits (8×8) -/
example :
    let t : Term Cyc8 := ⟨[(0, .X), (2, .Z)], 2⟩
    let u : Term Cyc8 := ⟨[(2, .Y), (0, .Z)], Cyc8.ofReIm (1/2) (1/8)⟩
    Mat.beq ((mulTermOrd Scal.cyc8 [0, 2] t u).denote Scal.cyc8 3) (Mat.mul (t.denote Scal.cyc8 3) (u.denote Scal.cyc8 3)) = true := by
  decide +kernel
/-- `denote_simplify`: duplicates, a zero coefficient, cancellation; with the library tolerance a 1e-9 coefficient is dropped
    (so the exact statement `denote_simplify_exact` does NOT apply to the library's `negl`, only `denote_simplify` does) -/
example : (simplify Run.negl [⟨[(0, .X)], 1⟩, ⟨[(1, .Z)], 0⟩, ⟨[(0, .X)], 2⟩, ⟨[(0, .Y)], 1⟩, ⟨[(0, .Y)], -1⟩] : PSum Cyc8).map (·.ops)
    = [[(0, .X)]] := by decide +kernel
example : (simplify Run.negl [⟨[(0, .X)], Cyc8.ofRat (1 / 10 ^ 9)⟩] : PSum Cyc8).length = 0
    ∧ (dropped Run.negl [⟨[(0, .X)], Cyc8.ofRat (1 / 10 ^ 9)⟩] : PSum Cyc8).length = 1 := by decide +kernel
/-- `denote_pow`: (X0 + Y0)³ = 2·(X0 + Y0) needs the cancellation of XY + YX -/
example :
    (match powV Scal.cyc8 Run.negl (.sum [⟨[(0, .X)], 1⟩, ⟨[(0, .Y)], 1⟩]) 3 with
     | .ok (.sum s) => s.map (fun t => (t.ops, t.coeff))
     | _ => []) = [([(0, P.X)], (2 : Cyc8)), ([(0, P.Y)], 2)] := by decide +kernel
/-- `denote_div`: the driver's reciprocal satisfies the assumed law on a non-real divisor -/
example : Run.recip (Cyc8.ofReIm 1 1) = some (Cyc8.ofReIm (1/2) (-1/2)) ∧ Cyc8.ofReIm 1 1 * Cyc8.ofReIm (1/2) (-1/2) = 1 := by
  decide +kernel
/-- mixed kinds: number − sum goes through `__rsub__` / `__radd__` -/
example :
    (match subV Run.negl (.num (2 : Cyc8)) (.sum [⟨[(0, .X)], 1⟩, ⟨[], 2⟩]) with
     | .ok (.sum s) => s.map (fun t => (t.ops, t.coeff))
     | _ => []) = [([(0, P.X)], (-1 : Cyc8))] := by decide +kernel

/-! ## equality (tier B) -/

/-- Pauli strings are linearly independent (trace orthogonality tr(P_a P_b) = 2ⁿ δ_ab), over every commutative ring without
    2-torsion: if two sums – in any order, with duplicates, zero coefficients – denote the same matrix, every Pauli string has
    the same total coefficient in both. -/
theorem pauli_linearIndependent (k : Scal R) (hi : k.i * k.i = -1) (h2 : ∀ x : R, 2 * x = 0 → x = 0) (n : Nat)
    (s1 s2 : PSum R) (h : MS k n s1 = MS k n s2) (G : Nat → Option P) : coef n s1 G = coef n s2 G := by
  simp only [MS, toM_denote_sum] at h
  exact coef_eq_of_sden_eq k hi h2 n s1 s2 h G

section eq
variable {K : Type} [DecidableEq K] (k : Scal R) (hi : k.i * k.i = -1) (h2 : ∀ x : R, 2 * x = 0 → x = 0)
  (close : R → R → Bool) (hclose : ∀ a b, close a b = true ↔ a = b) (hk : R → K) (n : Nat)
include hi h2 hclose

/-- Sentence "equality between simplified operators coincides with equality of the denoted matrices … regardless of term
    order", sums: for simplified sums (what `simplify` returns: `simplify_result_simplified`), exact coefficient comparison and
    ANY hash of the coefficient, `PauliSum.__eq__` (length test, then set equality) is true iff the matrices are equal. -/
theorem eqSum_iff (s1 s2 : PSum R) (hs1 : Simplified n s1) (hs2 : Simplified n s2) :
    eqSum close hk s1 s2 = true ↔ MS k n s1 = MS k n s2 := by
  simp only [MS, toM_denote_sum]
  exact eqSum_iff_sden k hi h2 close hclose hk n s1 s2 hs1 hs2

/-- … terms: `PauliTerm.__eq__` is true iff the matrices are equal (two terms with coefficient 0 are equal whatever their letters) -/
theorem eqTerm_iff (t u : Term R) (ht : TermFits n t) (hu : TermFits n u) (wt : OpsWF t.ops) (wu : OpsWF u.ops) :
    eqTerm close t u = true ↔ MT k n t = MT k n u := by
  simp only [MT, toM_denote_term]
  exact eqTerm_iff_tden k hi h2 close hclose n t u ht hu wt wu

/-- … all kind combinations of `==` (numbers, terms, sums on either side, incl. the reflected comparisons; a number is
    compared as the constant term `PauliTerm("I0", x)`, so the empty sum equals the number 0): the answer is True iff the
    denoted matrices are equal. -/
theorem eq_iff (a b : Val R) (ha : ValSimplified n a) (hb : ValSimplified n b) (r : Bool) (h : eqV close hk a b = .ok r) :
    r = true ↔ MV k n a = MV k n b := by
  simp only [MV, toM_denote_val]
  cases a <;> cases b <;> simp only [eqV, Except.ok.injEq, reduceCtorEq] at h <;> subst h <;>
    simp only [vden, ValSimplified] at ha hb ⊢
  · -- number == term
    rw [eqTerm_iff_tden k hi h2 close hclose n _ _ hb.2 (constTerm_fits n _) hb.1 (constTerm_wf _), tden_constTerm, eq_comm]
  · -- number == sum
    rw [eqSumTerm_iff k hi h2 close hclose hk n _ _ hb (constTerm_fits n _) (constTerm_wf _), tden_constTerm, eq_comm]
  · -- term == number
    rw [eqTerm_iff_tden k hi h2 close hclose n _ _ ha.2 (constTerm_fits n _) ha.1 (constTerm_wf _), tden_constTerm]
  · -- term == term
    exact eqTerm_iff_tden k hi h2 close hclose n _ _ ha.2 hb.2 ha.1 hb.1
  · -- term == sum
    rw [eqSumTerm_iff k hi h2 close hclose hk n _ _ hb ha.2 ha.1, eq_comm]
  · -- sum == number
    rw [eqSumTerm_iff k hi h2 close hclose hk n _ _ ha (constTerm_fits n _) (constTerm_wf _), tden_constTerm]
  · -- sum == term
    exact eqSumTerm_iff k hi h2 close hclose hk n _ _ ha hb.2 hb.1
  · -- sum == sum
    exact eqSum_iff_sden k hi h2 close hclose hk n _ _ ha hb

end eq

/-- the hypotheses of `eqSum_iff` are met by every sum the arithmetic returns: `simplify` (the last step of `+ - * / **`
    on sums) produces a simplified sum from well-formed terms, provided the test calls 0 negligible -/
theorem simplify_result_simplified (n : Nat) (negl : R → Bool) (h0 : negl 0 = true) (s : PSum R)
    (hs : ∀ t ∈ s, OpsWF t.ops ∧ TermFits n t) : Simplified n (simplify negl s) :=
  simplify_simplified n negl h0 s hs

/-- … and term products keep the dict invariant (distinct keys) and the register width -/
theorem mul_term_wellformed (k : Scal R) (n : Nat) (order : List Nat) (t u : Term R) (wt : OpsWF t.ops) (ht : TermFits n t)
    (hu : TermFits n u) : OpsWF (mulTermOrd k order t u).ops ∧ TermFits n (mulTermOrd k order t u) :=
  ⟨mulTermOrd_wf k order t u wt, mulTermOrd_fits k n t u order ht hu⟩

/-! non-vacuity and negative witnesses for `==` -/

/-- ℚ(ζ₈) has no 2-torsion, and exact comparison is a legitimate `close` -/
example : ∀ x : Cyc8, 2 * x = 0 → x = 0 := by
  intro x h
  have ha := congrArg Cyc8.a h; have hb := congrArg Cyc8.b h; have hc := congrArg Cyc8.c h; have hd := congrArg Cyc8.d h
  have e2 : (2 : Cyc8) = 1 + 1 := by norm_num
  rw [e2] at ha hb hc hd
  simp at ha hb hc hd
  ext <;> simp <;> linarith
example : ∀ a b : Cyc8, (fun a b => decide (a = b)) a b = true ↔ a = b := by intro a b; simp
/-- a simplified two-term sum and its reordering: `==` is True, as `eqSum_iff` says -/
example : Simplified 2 ([⟨[(0, .X)], 1⟩, ⟨[(1, .Z), (0, .Y)], Cyc8.I⟩] : PSum Cyc8) := by
  refine ⟨?_, by decide +kernel⟩
  intro t ht
  simp only [List.mem_cons, List.not_mem_nil, or_false] at ht
  rcases ht with rfl | rfl <;> refine ⟨by unfold OpsWF; decide, by unfold TermFits; decide, by decide +kernel⟩
example : eqSum Run.close Run.hk ([⟨[(0, .X)], 1⟩, ⟨[(1, .Z), (0, .Y)], Cyc8.I⟩] : PSum Cyc8)
    [⟨[(0, .Y), (1, .Z)], Cyc8.I⟩, ⟨[(0, .X)], 1⟩] = true := by decide +kernel
/-- the empty sum against the number 0 (fixed defect eq-empty-sum-vs-zero-number: formerly False): True on both sides, like
    the comparison with the zero TERM; against a non-zero number False – all as `eq_iff` says, both sides denoting 0 resp. x·1 -/
example : eqV Run.close Run.hk (.sum ([] : PSum Cyc8)) (.num 0) = .ok true
    ∧ eqV Run.close Run.hk (.num 0) (.sum ([] : PSum Cyc8)) = .ok true
    ∧ eqV Run.close Run.hk (.sum ([] : PSum Cyc8)) (.term ⟨[], 0⟩) = .ok true
    ∧ eqV Run.close Run.hk (.sum ([] : PSum Cyc8)) (.num 2) = .ok false
    ∧ eqV Run.close Run.hk (.sum ([⟨[], 2⟩] : PSum Cyc8)) (.num 2) = .ok true := by decide +kernel
example (k : Scal R) (n : Nat) : MV k n (.sum []) = MV k n (.num 0) := by
  simp only [MV, toM_denote_val, vden, sden_nil, zero_smul]
example (n : Nat) : ValSimplified n (.sum ([] : PSum Cyc8)) ∧ ValSimplified n (.num (0 : Cyc8)) :=
  ⟨⟨fun _ h => by simp at h, by simp⟩, trivial⟩
/-- NEGATIVE WITNESS (finding eq-hash-rounding-boundary; float part of `==`, outside `eq_iff` whose `close` is exact):
    with the library's tolerances, two one-term sums whose coefficients are 2·10⁻⁹ apart around 1.5·10⁻⁶ have equal terms
    (`np.allclose`) but different hashes (`round(c·10⁶)` = 1 resp. 2), so the sums compare unequal -/
example :
    let c1 : Cyc8 := Cyc8.ofRat (1499 / 10 ^ 9)
    let c2 : Cyc8 := Cyc8.ofRat (1501 / 10 ^ 9)
    eqTerm Run.close ⟨[(0, .X)], c1⟩ ⟨[(0, .X)], c2⟩ = true ∧ Run.hk c1 = (1, 0) ∧ Run.hk c2 = (2, 0)
    ∧ eqSum Run.close Run.hk [⟨[(0, .X)], c1⟩] [⟨[(0, .X)], c2⟩] = false := by decide +kernel

end OQ.C03
