/- C19 — PROPERTY THEOREMS (translation ties): the sort keys of `circuits/symbolic/_sorting.py`.
   The definitions `OQ.Generated.Translated.*` are REGENERATED from /repo's current Python source on every run
   (harness/translate_t6.py → OQ/Generated/TranslatedC19.lean); an edit of a Python function changes the definition and these
   equalities stop checking at build time.
   A key element is a Python `int | str` (`OQ.Py.IntOrStr`); Python's comparison of two keys (lists) is `OQ.Py.cmpKeys`
   (`none` = TypeError), compared with CPython by harness/prelude_check.py like the rest of the prelude.
   DOMAIN of the rendering (see OQ/Exec/Py.lean): names whose digit characters are ASCII – on other digits CPython's `\d`,
   `str.isdigit` and `int` disagree with each other (a name containing a group such as "²" makes `natural_key` raise). -/
import OQ.Generated.TranslatedC19
import OQ.Props.C19
import OQ.Lemmas.C19_TranslatedT6
namespace OQ.C19
open OQ.Generated OQ.Py

/-- TRANSLATION TIE: `_convert_string_to_int_if_possible(text)` (`int(text) if text.isdigit() else text`) regenerated from the
    current source is the model's `convGroup`, for every string. -/
theorem translated_convert_eq (g : List Char) :
    Translated.convert_string_to_int_if_possible g = (convGroup g).toPy := by
  unfold Translated.convert_string_to_int_if_possible convGroup isdigit
  have hall : g.all isAsciiDigit = g.all isDig := by congr 1
  rw [hall]
  by_cases h : (!g.isEmpty && g.all isDig) = true
  · simp only [h, if_true, KeyItem.toPy]
    have hd : ∀ c ∈ g, isDig c = true := by
      simp only [Bool.and_eq_true, List.all_eq_true] at h
      exact h.2
    rw [intOfDigits_eq g hd]
  · simp only [h, KeyItem.toPy]
    rfl

/-- TRANSLATION TIE: `natural_key(symbol)` regenerated from the current source (`re.split(r"(\d+)", symbol.name)`, each group
    converted) is the model's `naturalKey` of the symbol's name – for every symbol object (`attr_name` = its `.name`) and name. -/
theorem translated_natural_key_eq {α : Type} (attr_name : α → List Char) (symbol : α) :
    Translated.natural_key attr_name symbol = (naturalKey (attr_name symbol)).map KeyItem.toPy := by
  unfold Translated.natural_key naturalKey splitGroups reSplitDigits
  rw [reSplitDigitsGo_eq, List.map_map]
  apply List.map_congr_left
  intro g _
  exact translated_convert_eq g

/-- TRANSLATION TIE: `natural_key_revlex(symbol)` regenerated from the current source is the model's `naturalKeyRevlex`. -/
theorem translated_natural_key_revlex_eq {α : Type} (attr_name : α → List Char) (symbol : α) :
    Translated.natural_key_revlex attr_name symbol = (naturalKeyRevlex (attr_name symbol)).map KeyItem.toPy := by
  unfold Translated.natural_key_revlex naturalKeyRevlex
  rw [translated_natural_key_eq, List.map_reverse]

/-- END-TO-END ON THE CODE AS IT IS NOW (sentence 3 of the property): the keys `natural_key` computes for two symbols whose
    names differ only in one embedded maximal digit group compare – by Python's own list comparison – exactly as the integers
    the groups denote (`beta_2` before `beta_10`), any prefix and suffix, leading zeros allowed. -/
theorem translated_naturalKey_numeric {α : Type} (attr_name : α → List Char) (s₁ s₂ : α) (pfx sfx d₁ d₂ : List Char)
    (e₁ : attr_name s₁ = pfx ++ d₁ ++ sfx) (e₂ : attr_name s₂ = pfx ++ d₂ ++ sfx)
    (hp : NoTrailingDigit pfx) (hs : NoLeadingDigit sfx)
    (h₁ : d₁ ≠ []) (h₁' : ∀ c ∈ d₁, isDig c = true) (h₂ : d₂ ≠ []) (h₂' : ∀ c ∈ d₂, isDig c = true) :
    cmpKeys (Translated.natural_key attr_name s₁) (Translated.natural_key attr_name s₂) =
      some (compare (valDigits d₁) (valDigits d₂)) := by
  rw [translated_natural_key_eq, translated_natural_key_eq, cmpKeys_toPy, e₁, e₂]
  exact naturalKey_numeric pfx sfx d₁ d₂ hp hs h₁ h₁' h₂ h₂'

/-- END-TO-END: the translated keys never make Python's list comparison raise (no `int` is ever compared with a `str`), for
    ALL names – plain and reversed keys. -/
theorem translated_naturalKey_comparable {α : Type} (attr_name : α → List Char) (a b : α) :
    cmpKeys (Translated.natural_key attr_name a) (Translated.natural_key attr_name b) ≠ none ∧
    cmpKeys (Translated.natural_key_revlex attr_name a) (Translated.natural_key_revlex attr_name b) ≠ none := by
  rw [translated_natural_key_eq, translated_natural_key_eq, translated_natural_key_revlex_eq,
    translated_natural_key_revlex_eq, cmpKeys_toPy, cmpKeys_toPy]
  exact naturalKey_comparable _ _

/-- END-TO-END (`revlex`): for names `stem ++ number` the keys `natural_key_revlex` computes order by the number first and by
    the stem only among equal numbers (beta_1 < theta_1 < beta_2 < theta_2) – under Python's own list comparison. -/
theorem translated_naturalKeyRevlex_order {α : Type} (attr_name : α → List Char) (s₁ s₂ : α) (a b d₁ d₂ : List Char)
    (e₁ : attr_name s₁ = a ++ d₁) (e₂ : attr_name s₂ = b ++ d₂)
    (ha : ∀ c ∈ a, isDig c = false) (hb : ∀ c ∈ b, isDig c = false)
    (h₁ : d₁ ≠ []) (h₁' : ∀ c ∈ d₁, isDig c = true) (h₂ : d₂ ≠ []) (h₂' : ∀ c ∈ d₂, isDig c = true) :
    cmpKeys (Translated.natural_key_revlex attr_name s₁) (Translated.natural_key_revlex attr_name s₂) =
      some (if valDigits d₁ = valDigits d₂ then cmpChars a b else compare (valDigits d₁) (valDigits d₂)) := by
  rw [translated_natural_key_revlex_eq, translated_natural_key_revlex_eq, cmpKeys_toPy, e₁, e₂]
  exact naturalKeyRevlex_order a b d₁ d₂ ha hb h₁ h₁' h₂ h₂'

/-- SPECIFICATION PROVED ABOUT THE TRANSLATED CODE (there is no hand-written model of the key factory):
    `natural_key_fixed_names_order(names_order)(symbol)` regenerated from the current source, for a symbol named `<stem>_<digits>`
    (`stem` without underscore, a non-empty ASCII digit string) and a duplicate-free `names_order` holding `stem` at position `i`,
    returns the key `(int(digits), i)`: the index is compared first, the position of the stem in `names_order` second. -/
theorem translated_fixed_names_order_eq {α : Type} (attr_name : α → List Char) (names : List (List Char)) (symbol : α)
    (stem d : List Char) (i : Nat) (hname : attr_name symbol = stem ++ '_' :: d) (hs : '_' ∉ stem)
    (hne : d ≠ []) (hd : ∀ c ∈ d, isDig c = true) (hnd : names.Nodup) (hi : names[i]? = some stem) :
    Translated.natural_key_fixed_names_order attr_name names symbol = .ok [((valDigits d : Nat) : Int), (i : Int)] := by
  have hdu : '_' ∉ d := by intro h; have := hd _ h; simp [isDig] at this
  have hsplit : splitChar (attr_name symbol) '_' = [stem, d] := by
    rw [hname]; unfold splitChar
    rw [splitCharGo_append _ _ _ _ hs, splitCharGo_none _ _ _ hdu]; simp
  unfold Translated.natural_key_fixed_names_order
  simp only [hsplit, intParse_digits d hne hd]
  have := dictGet_weights names hnd stem i hi
  unfold weights at this
  simp only [this]

/-- … a name that does not consist of exactly two parts around ONE underscore makes the key raise ValueError (tuple unpacking of
    `symbol.name.split("_")`), whatever `names_order` is. -/
theorem translated_fixed_names_order_shape {α : Type} (attr_name : α → List Char) (names : List (List Char)) (symbol : α)
    (h : (attr_name symbol).count '_' ≠ 1) :
    Translated.natural_key_fixed_names_order attr_name names symbol = .error .ValueError := by
  have hl : (splitChar (attr_name symbol) '_').length ≠ 2 := by
    unfold splitChar; rw [splitCharGo_length]; omega
  unfold Translated.natural_key_fixed_names_order
  split
  · rename_i name index heq; rw [heq] at hl; simp at hl
  · rfl

/-- … and a well-formed name whose stem is not listed in `names_order` raises KeyError (after `int(index)` succeeded). -/
theorem translated_fixed_names_order_unknown {α : Type} (attr_name : α → List Char) (names : List (List Char)) (symbol : α)
    (stem d : List Char) (hname : attr_name symbol = stem ++ '_' :: d) (hs : '_' ∉ stem)
    (hne : d ≠ []) (hd : ∀ c ∈ d, isDig c = true) (hmiss : stem ∉ names) :
    Translated.natural_key_fixed_names_order attr_name names symbol = .error .KeyError := by
  have hdu : '_' ∉ d := by intro h; have := hd _ h; simp [isDig] at this
  have hsplit : splitChar (attr_name symbol) '_' = [stem, d] := by
    rw [hname]; unfold splitChar
    rw [splitCharGo_append _ _ _ _ hs, splitCharGo_none _ _ _ hdu]; simp
  unfold Translated.natural_key_fixed_names_order
  simp only [hsplit, intParse_digits d hne hd]
  have := dictGet_weights_missing names stem hmiss
  unfold weights at this
  simp only [this]
example : Translated.natural_key_fixed_names_order id ["gamma".toList, "beta".toList] "beta_12".toList = .ok [12, 1] := by
  decide
example : Translated.natural_key_fixed_names_order id ["gamma".toList, "beta".toList] "beta_1_2".toList
    = .error .ValueError := by decide
example : Translated.natural_key_fixed_names_order id ["gamma".toList, "beta".toList] "beta_x".toList
    = .error .ValueError := by decide
example : Translated.natural_key_fixed_names_order id ["gamma".toList, "beta".toList] "alpha_3".toList
    = .error .KeyError := by decide

/-! non-vacuity: the TRANSLATED definitions on concrete names (a symbol is its name here) -/
example : Translated.natural_key id "beta_10".toList = [.str "beta_".toList, .int 10, .str []] := by decide
example : Translated.natural_key_revlex id "x12y".toList = [.str "y".toList, .int 12, .str "x".toList] := by decide
example : cmpKeys (Translated.natural_key id "beta_2".toList) (Translated.natural_key id "beta_10".toList) = some .lt := by
  decide
example : cmpKeys (Translated.natural_key_revlex id "theta_1".toList) (Translated.natural_key_revlex id "beta_2".toList)
    = some .lt := by decide
example : Translated.convert_string_to_int_if_possible "007".toList = .int 7 := by decide
example : Translated.convert_string_to_int_if_possible [] = .str [] := by decide

end OQ.C19
