/-
  C17 — PROPERTY THEOREMS: outcome distributions stay normalised; marginals and distances obey
  their laws.   Model: OQ/Model/C17.lean.   Helper lemmas + real-valued definitions: OQ/Lemmas/C17.lean.

  Conventions.  A `distribution_dict` is an insertion-ordered association list `Dict Key`
  (`Key = List Int`); `Valid d w` is the constructor's invariant (non-empty, distinct keys, all of
  length `w`, non-negative entries and values).  `close` is the library's `math.isclose(norm, 1)`;
  every theorem holds for EVERY such predicate (the driver runs `pyIsClose1`).  Floats are exact
  rationals; `exp`/`log` are Mathlib's real functions applied to the exact data of the model.
-/
import OQ.Lemmas.C17
namespace OQ.C17

/-! ## 1. constructor: normalised, non-negative, same proportions, rejects bad input -/

/-- "always holds … probabilities summing to 1": with normalisation on, the stored values sum to
    exactly 1, or the input already passed the library's own closeness test and was kept as is. -/
theorem normalised_sum_one (close : Rat → Bool) (input : List (RawKey × Rat)) (d : Dict Key)
    (h : construct close true input = .ok d) : d.total = 1 ∨ close d.total = true := by
  obtain ⟨pre, _, hc⟩ := construct_ok close true input d h
  obtain ⟨hd, h1 | h2⟩ := constructPre_ok close true pre d hc
  · obtain ⟨rfl, h1 | h1 | h1⟩ := h1
    · exact Or.inr h1
    · cases h1
    · exact Or.inl h1
  · obtain ⟨_, _, hmin, rfl⟩ := h2
    left
    rw [total_map_mul]
    have : 0 < pre.total := lt_of_lt_of_le floatMin_pos hmin
    field_simp

/-- the same sentence for Python's `math.isclose(·, 1)`: the stored sum is within relative 1e-9 of 1 -/
theorem normalised_sum_tolerance (input : List (RawKey × Rat)) (d : Dict Key)
    (h : construct pyIsClose1 true input = .ok d) :
    |d.total - 1| ≤ max 1 |d.total| / 1000000000 := by
  rcases normalised_sum_one pyIsClose1 input d h with h1 | h1
  · rw [h1]; simp
  · unfold pyIsClose1 at h1
    simp only [decide_eq_true_eq] at h1
    have e1 : (if d.total - 1 < 0 then 1 - d.total else d.total - 1) = |d.total - 1| := by
      split
      · rw [abs_of_neg (by assumption)]; ring
      · rw [abs_of_nonneg (by linarith)]
    have e2 : (if d.total < 0 then -d.total else d.total) = |d.total| := by
      split
      · rw [abs_of_neg (by assumption)]
      · rw [abs_of_nonneg (by linarith)]
    rw [e1, e2] at h1
    have e3 : (if |d.total| < 1 then 1 else |d.total|) = max 1 |d.total| := by
      split
      · rw [max_eq_left (by linarith)]
      · rw [max_eq_right (by linarith)]
    rw [e3] at h1
    exact h1

/-- "non-negative probabilities": every stored value is ≥ 0 (normalisation on or off) -/
theorem normalised_nonneg (close : Rat → Bool) (nz : Bool) (input : List (RawKey × Rat)) (d : Dict Key)
    (h : construct close nz input = .ok d) : ∀ p ∈ d, 0 ≤ p.2 := by
  obtain ⟨pre, hp, hc⟩ := construct_ok close nz input d h
  obtain ⟨w, hv⟩ := construct_valid_aux close nz input d pre hp hc
  exact hv.val

/-- "in the same proportions as the input": the stored dictionary has the keys of the preprocessed
    input, in the same order, and every value multiplied by one common positive factor
    (1, or 1/total when a normalisation took place). -/
theorem proportions (close : Rat → Bool) (input : List (RawKey × Rat)) (d : Dict Key)
    (h : construct close true input = .ok d) :
    ∃ pre c, preprocess input [] = .ok pre ∧ 0 < c ∧ (c = 1 ∨ c = 1 / pre.total) ∧
      d = pre.map (fun p => (p.1, p.2 * c)) := by
  obtain ⟨pre, hp, hc⟩ := construct_ok close true input d h
  obtain ⟨_, h1 | h2⟩ := constructPre_ok close true pre d hc
  · exact ⟨pre, 1, hp, one_pos, Or.inl rfl, by simp [h1.1]⟩
  · obtain ⟨_, _, hmin, rfl⟩ := h2
    have : 0 < pre.total := lt_of_lt_of_le floatMin_pos hmin
    exact ⟨pre, 1 / pre.total, hp, by positivity, Or.inr rfl, rfl⟩

/-- what "the input" is: distinct tuple keys are taken over unchanged, in order -/
theorem preprocess_tuple_keys (d : Dict Key) (hn : d.keys.Nodup) :
    preprocess (d.map (fun p => (RawKey.tup p.1, p.2))) [] = .ok d :=
  preprocess_distinct RawKey.tup d (fun _ _ => rfl) hn

/-- … and distinct digit strings (bitstrings in particular) are read as the tuples of their digits -/
theorem preprocess_digit_strings (d : Dict Key) (hn : d.keys.Nodup) (hd : ∀ k ∈ d.keys, IsDigits k) :
    preprocess (d.map (fun p => (RawKey.str (encDigits p.1), p.2))) [] = .ok d :=
  preprocess_distinct (fun k => RawKey.str (encDigits k)) d
    (fun k hk => preprocessKey_encDigits k (hd k hk)) hn

/-- the object that is built always satisfies the invariant `Valid` used below -/
theorem construct_valid (close : Rat → Bool) (nz : Bool) (input : List (RawKey × Rat)) (d : Dict Key)
    (h : construct close nz input = .ok d) : ∃ w, Valid d w := by
  obtain ⟨pre, hp, hc⟩ := construct_ok close nz input d h
  exact construct_valid_aux close nz input d pre hp hc

/-- "rejects empty input" (RuntimeError) -/
theorem rejects_empty (close : Rat → Bool) (nz : Bool) : construct close nz [] = .error .runtime := rfl

/-- "rejects … negative values" (RuntimeError) -/
theorem rejects_negative (close : Rat → Bool) (nz : Bool) (input : List (RawKey × Rat)) (pre : Dict Key)
    (hp : preprocess input [] = .ok pre) (hneg : ∃ p ∈ pre, p.2 < 0) :
    construct close nz input = .error .runtime := by
  have : ¬ isDistribution pre = true := by
    rw [isDistribution_iff]
    rintro ⟨_, h, _⟩
    obtain ⟨p, hp', hlt⟩ := hneg
    exact absurd (h p hp') (not_le.mpr hlt)
  simp [construct, hp, constructPre, this]

/-- "rejects … keys of unequal length" (RuntimeError) -/
theorem rejects_unequal_length (close : Rat → Bool) (nz : Bool) (input : List (RawKey × Rat))
    (pre : Dict Key) (hp : preprocess input [] = .ok pre)
    (hlen : ∃ p ∈ pre, ∃ p' ∈ pre, p.1.length ≠ p'.1.length) :
    construct close nz input = .error .runtime := by
  have : ¬ isDistribution pre = true := by
    rw [isDistribution_iff]
    rintro ⟨_, _, h, _⟩
    obtain ⟨p, hp', p', hp'', hne⟩ := hlen
    exact hne (h p hp' p' hp'')
  simp [construct, hp, constructPre, this]

/-- exactly which preprocessed inputs are accepted with normalisation on: well-formed ones whose
    total is close to 1 or at least the smallest normal double (a zero / denormal total is a
    `ValueError`) -/
theorem accepted_iff (close : Rat → Bool) (input : List (RawKey × Rat)) (pre : Dict Key)
    (hp : preprocess input [] = .ok pre) :
    (∃ d, construct close true input = .ok d) ↔
      (isDistribution pre = true ∧ (close pre.total = true ∨ floatMin ≤ pre.total)) := by
  constructor
  · rintro ⟨d, h⟩
    obtain ⟨pre', hp', hc⟩ := construct_ok close true input d h
    rw [hp] at hp'; cases hp'
    obtain ⟨hd, h1 | h2⟩ := constructPre_ok close true pre d hc
    · refine ⟨hd, ?_⟩
      rcases h1.2 with h | h | h
      · exact Or.inl h
      · cases h
      · right; rw [h]
        have := floatMin_lt_one
        linarith
    · exact ⟨hd, Or.inr h2.2.2.1⟩
  · rintro ⟨hd, hc⟩
    simp only [construct, hp, constructPre, hd, if_true]
    by_cases h1 : close pre.total = true
    · exact ⟨pre, by simp [h1]⟩
    · have hmin : floatMin ≤ pre.total := hc.resolve_left h1
      have hpos : 0 < pre.total := lt_of_lt_of_le floatMin_pos hmin
      simp only [h1, normalizeDict, ne_of_gt hpos, if_false, not_and_of_not_right _ (not_lt.mpr hmin)]
      by_cases h2 : pre.total = 1 <;> simp [h2]

/-! ## 2. subdistribution = marginal; the source is left intact -/

/-- "the source distribution is left intact": for every receiver and every qubit list, accepted or
    rejected.  (The model mirrors the code, which only reads `self.distribution_dict`.) -/
theorem source_intact (close : Rat → Bool) (self : Dict Key) (qs : List Int) :
    (subdistribution close self qs).1 = self := by
  unfold subdistribution
  split
  · rfl
  · rfl
  · split
    · rfl
    · split
      · rfl
      · split <;> rfl

/-- grouping by a projection: "each projected outcome carries the sum of the probabilities of all
    outcomes projecting to it" – for every projection `g` and every dictionary -/
theorem marginal_sum {κ κ' : Type} [DecidableEq κ'] (g : κ → κ') (d : Dict κ) (x : κ') :
    (groupSum g d).getD x = ((d.filter (fun p => decide (g p.1 = x))).map Prod.snd).sum := by
  unfold groupSum
  rw [getD_groupSumAux]
  simp [Dict.getD]

/-- the outcomes of the marginal are exactly the projections of the source outcomes, each once -/
theorem marginal_support {κ κ' : Type} [DecidableEq κ'] (g : κ → κ') (d : Dict κ) :
    (groupSum g d).keys.Nodup ∧ ∀ x, x ∈ (groupSum g d).keys ↔ ∃ k ∈ d.keys, g k = x := by
  refine ⟨nodup_groupSumAux g d [] (by simp [Dict.keys]), fun x => ?_⟩
  unfold groupSum
  rw [mem_keys_groupSumAux]
  simp [Dict.keys]

/-- "qubits in the listed order": entry `i` of the projected outcome is the source entry at the
    `i`-th listed qubit -/
theorem marginal_order (qs : List Int) (key : Key) :
    (proj qs key).length = qs.length ∧
      ∀ i (h : i < qs.length), (proj qs key).getD i 0 = key.getD (qs[i]).toNat 0 := by
  refine ⟨length_proj qs key, fun i h => ?_⟩
  simp [proj, h]

/-- the marginal has the same total as the source (so it is normalised iff the source is) -/
theorem marginal_total {κ κ' : Type} [DecidableEq κ'] (g : κ → κ') (d : Dict κ) :
    (groupSum g d).total = d.total := by
  unfold groupSum; rw [total_groupSumAux]; simp [Dict.total_nil]

/-- "The sub-distribution on a list of qubits is the marginal", FULL STRENGTH (all outcome entries,
    no single-digit restriction – the code builds tuple keys since b64c4ba).  For every valid
    receiver of width `w`, every non-empty list of distinct in-range qubits in any order and every
    closeness test, `subdistribution` returns the receiver unchanged and exactly the grouped sums
    over the projection (`marginal_sum`, `marginal_support`, `marginal_order` say what those are),
    which is again a valid distribution, of width `|qs|`. -/
theorem marginal (close : Rat → Bool) (self : Dict Key) (w : Nat) (qs : List Int)
    (hv : Valid self w) (hne : qs ≠ []) (hr : ∀ q ∈ qs, 0 ≤ q ∧ q < w) (hnd : qs.Nodup) :
    subdistribution close self qs = (self, .ok (groupSum (proj qs) self)) ∧
      Valid (groupSum (proj qs) self) qs.length :=
  ⟨subdistribution_eq close self w qs hv hne hr hnd, valid_groupSum_proj self w qs hv hr⟩

/-- an empty qubit list, a repeated qubit and a too large qubit are rejected with `ValueError` -/
theorem subdistribution_rejects (close : Rat → Bool) (self : Dict Key) (w : Nat) (hv : Valid self w)
    (qs : List Int) (hbad : qs = [] ∨ ¬ qs.Nodup ∨ ∃ q ∈ qs, (w : Int) ≤ q) :
    (subdistribution close self qs).2 = .error .value := by
  cases qs with
  | nil => rfl
  | cons q0 qs' =>
    cases self with
    | nil => exact absurd rfl hv.ne
    | cons p0 rest =>
      obtain ⟨k0, v0⟩ := p0
      have hk0 : k0.length = w := hv.len (k0, v0) (List.mem_cons_self)
      simp only [subdistribution]
      by_cases hmax : listMaxInt (q0 :: qs') + 1 > (k0.length : Int)
      · simp [hmax]
      · have hdup : hasDup (q0 :: qs') = true := by
          rcases hbad with h | h | ⟨q, hq, hge⟩
          · cases h
          · exact hasDup_true_of_not_nodup _ h
          · exfalso
            have := le_listMaxInt q0 qs' q hq
            omega
        simp [hmax, hdup]

/-! ## 3. tuple keys ⇄ comma-separated text; save then load -/

/-- key → text → key, PARTIAL: for keys that do not have exactly one entry, or whose entries are
    single digits.  Missing: a one-subsystem key with an entry ≥ 10 (`(12,)` is written as "12" and
    read back as `(1, 2)`), see `key_roundtrip_witness`. -/
theorem key_roundtrip_partial (k : Key) (hk : ∀ e ∈ k, 0 ≤ e) (hd : k.length ≠ 1 ∨ IsDigits k) :
    preprocessKey (RawKey.str (keyToString k)) = .ok k :=
  preprocessKey_keyToString k hk hd

/-- "saving then loading a normalised distribution returns the same keys and probabilities",
    PARTIAL: on the domain of `key_roundtrip_partial` (width ≠ 1, or single-digit entries).
    JSON itself is an assumed identity on (text key ↦ double) objects. -/
theorem save_load_roundtrip_partial (close : Rat → Bool) (d : Dict Key) (w : Nat) (hv : Valid d w)
    (hd : Roundtrippable d w) (hc : close d.total = true) : loadDict close (saveDict d) = .ok d := by
  rw [loadDict_saveDict close d w hv hd]
  exact constructPre_valid close true d w hv (Or.inl hc)

/-- what is written: the keys as comma separated text, values untouched, order kept -/
theorem save_keys_values (d : Dict Key) (w : Nat) (hv : Valid d w) (hd : Roundtrippable d w) :
    saveDict d = d.map (fun p => (keyToString p.1, p.2)) := saveDict_eq d w hv hd

/-- negative witness: the one-subsystem outcome 12 comes back as the two-subsystem outcome (1, 2) -/
theorem key_roundtrip_witness : preprocessKey (RawKey.str (keyToString [12])) = .ok [1, 2] := by
  decide +kernel

/-- negative witness: `{(12,): 1/2, (3,): 1/2}` is saved but cannot be loaded (RuntimeError) -/
theorem save_load_witness :
    loadDict pyIsClose1 (saveDict [([12], 1/2), ([3], 1/2)]) = .error .runtime := by
  decide +kernel

/-! ## 4. squared MMD -/

/-- "The squared MMD is … non-negative": for EVERY data (codes, target, measured values) and every
    kernel width σ > 0 -/
theorem mmd_nonneg (σ : ℝ) (hσ : 0 < σ) (data : List Row) : 0 ≤ mmdSingle σ data :=
  quadForm_gauss_nonneg _ (by positivity) data

/-- … and for every list of positive kernel widths (multi-Gaussian kernel) -/
theorem mmd_nonneg_multi (σs : List ℝ) (hσ : ∀ σ ∈ σs, 0 < σ) (data : List Row) :
    0 ≤ mmdMulti σs data := by
  apply quadForm_multi_nonneg
  intro γ hγ
  obtain ⟨σ, hs, rfl⟩ := List.mem_map.1 hγ
  have := hσ σ hs
  positivity

/-- "The squared MMD is symmetric": if it is defined for (p, q) it is defined for (q, p), and the two
    values agree for every kernel – in particular for every σ and every list of σs -/
theorem mmd_symm (p q : Dict Key) (hp : p.keys.Nodup) (hq : q.keys.Nodup) (a : List Row)
    (h : mmdData p q = .ok a) :
    ∃ b, mmdData q p = .ok b ∧ (∀ K, quadForm K b = quadForm K a) ∧
      (∀ σ, mmdSingle σ b = mmdSingle σ a) ∧ (∀ σs, mmdMulti σs b = mmdMulti σs a) := by
  obtain ⟨b, hb, hperm⟩ := mmdData_symm p q hp hq a h
  have hK : ∀ K, quadForm K b = quadForm K a := fun K => by
    rw [quadForm_perm K b _ hperm, quadForm_swap]
  exact ⟨b, hb, hK, fun σ => hK _, fun σs => hK _⟩

/-- "… and zero between a distribution and itself" -/
theorem mmd_self (p : Dict Key) (a : List Row) (h : mmdData p p = .ok a) :
    (∀ K, quadForm K a = 0) ∧ (∀ σ, mmdSingle σ a = 0) ∧ (∀ σs, mmdMulti σs a = 0) := by
  obtain ⟨_, rfl⟩ := (mmdData_ok_iff p p a).1 h
  have hK : ∀ K, quadForm K ((unionKeys p p).map (rowD p p)) = 0 := fun K => by
    apply quadForm_of_diff_zero
    intro r hr
    obtain ⟨k, _, rfl⟩ := List.mem_map.1 hr
    rfl
  exact ⟨hK, fun σ => hK _, fun σs => hK _⟩

/-- the value does not depend on the (arbitrary) iteration order of Python's `set` of outcomes -/
theorem mmd_order_irrelevant (K : ℝ → ℝ → ℝ) (a b : List Row) (h : a.Perm b) :
    quadForm K a = quadForm K b := quadForm_perm K a b h

/-- the MMD is defined (no `ValueError`) on all pairs of bitstring distributions of width ≥ 1 -/
theorem mmd_defined_on_bits (p q : Dict Key)
    (hp : ∀ k ∈ p.keys, k ≠ [] ∧ ∀ e ∈ k, e = 0 ∨ e = 1)
    (hq : ∀ k ∈ q.keys, k ≠ [] ∧ ∀ e ∈ k, e = 0 ∨ e = 1) : ∃ a, mmdData p q = .ok a := by
  refine ⟨_, (mmdData_ok_iff p q _).2 ⟨?_, rfl⟩⟩
  intro k hk
  have hk' : k ≠ [] ∧ ∀ e ∈ k, e = 0 ∨ e = 1 := by
    rcases (mem_unionKeys p q k).1 hk with h | h
    · exact hp k h
    · exact hq k h
  obtain ⟨c, hc⟩ := codeOf_bits k hk'.1 hk'.2
  simp [hc]

/-- negative witness: on an outcome with an entry ≥ 2 the code's base-2 parse fails, so
    `compute_mmd(d, d)` raises `ValueError` instead of returning 0 -/
theorem mmd_nonbinary_witness : mmdData [([2], 1)] [([2], 1)] = .error .value := by
  decide +kernel

/-! ## 5. clipped negative log-likelihood and its symmetrisation -/

/-- "the clipped negative log-likelihood of a target under a model is at least the target's entropy
    (up to the clipping constant)": for all dictionaries with distinct keys and non-negative values
    and every ε > 0,  NLL_ε(p‖q) ≥ H(p) + (Σp − Σq) − |supp p ∪ supp q|·ε. -/
theorem nll_ge_entropy (ε : ℝ) (hε : 0 < ε) (p q : Dict Key) (hp : p.keys.Nodup) (hq : q.keys.Nodup)
    (hpv : ∀ a ∈ p, 0 ≤ a.2) (hqv : ∀ a ∈ q, 0 ≤ a.2) :
    entropyOf p + ((p.total : ℝ) - (q.total : ℝ)) - ((unionKeys p q).length : ℝ) * ε ≤
      nllOf ε (pairData p q) :=
  nll_ge_entropy_aux ε hε p q hp hq hpv hqv

/-- for two normalised distributions: NLL_ε(p‖q) ≥ H(p) − n·ε with n the size of the joint support -/
theorem nll_ge_entropy_normalised (ε : ℝ) (hε : 0 < ε) (p q : Dict Key) (wp wq : Nat)
    (hp : Valid p wp) (hq : Valid q wq) (hp1 : p.total = 1) (hq1 : q.total = 1) :
    entropyOf p - ((unionKeys p q).length : ℝ) * ε ≤ nllOf ε (pairData p q) := by
  have := nll_ge_entropy ε hε p q hp.nodup hq.nodup hp.val hq.val
  rw [hp1, hq1] at this
  simpa using this

/-- the log-likelihood does not depend on the iteration order of the `set` of outcomes either -/
theorem nll_order_irrelevant (ε : ℝ) (a b : List (Rat × Rat)) (h : a.Perm b) : nllOf ε a = nllOf ε b := by
  unfold nllOf
  rw [(h.map _).sum_eq]

/-- "the symmetrised divergence is symmetric" -/
theorem jsd_symm (ε : ℝ) (p q : Dict Key) : jsdOf ε p q = jsdOf ε q p := by
  unfold jsdOf; ring

/-! ## non-vacuity: concrete non-trivial inputs meeting the hypotheses -/

-- mixed string / tuple keys with a collision ("01" and (0,1)), un-normalised weights
example : construct pyIsClose1 true
    [(.str ['0', '1'], 1), (.tup [0, 1], 3), (.str ['1', ',', '1'], 4), (.tup [1, 0], 1)] =
    .ok [([0, 1], 3/8), ([1, 1], 1/2), ([1, 0], 1/8)] := by decide +kernel
example : construct pyIsClose1 true [(.str ['0'], -1), (.str ['1'], 2)] = .error .runtime := by
  decide +kernel
example : construct pyIsClose1 true [(.str ['0'], 1), (.str ['1', '1'], 2)] = .error .runtime := by
  decide +kernel
example : construct pyIsClose1 true [(.str ['0'], 0)] = .error .value := by decide +kernel
example : construct pyIsClose1 true [(.str ['0', 'a'], 1)] = .error .value := by decide +kernel
-- a sum within 1e-9 of 1 is kept as it is; a sum further away is renormalised
example : construct pyIsClose1 true [(.tup [0], 1/2), (.tup [1], 1/2 + 1/2^31)] =
    .ok [([0], 1/2), ([1], 1/2 + 1/2^31)] := by decide +kernel
-- a valid 3-qubit distribution, marginal onto the reordered proper subset [2, 0]
example : Valid [([0, 1, 1], 1/4), ([1, 0, 1], 1/2), ([1, 1, 1], 1/4)] 3 := by
  refine ⟨by decide, by decide, by decide, by decide +kernel, by decide⟩
example : (subdistribution pyIsClose1 [([0, 1, 1], 1/4), ([1, 0, 1], 1/2), ([1, 1, 1], 1/4)] [2, 0]).2 =
    .ok [([1, 0], 1/4), ([1, 1], 3/4)] := by decide +kernel
example : groupSum (proj [2, 0]) [([0, 1, 1], (1/4 : Rat)), ([1, 0, 1], 1/2), ([1, 1, 1], 1/4)] =
    [([1, 0], 1/4), ([1, 1], 3/4)] := by decide +kernel
example : (subdistribution pyIsClose1 [([0, 1], 1/2), ([1, 0], 1/2)] [1, 1]).2 = .error .value := by
  decide +kernel
-- multi-digit entries stay intact (the former defect `subdistribution-multidigit-entry`, fixed b64c4ba)
example : (subdistribution pyIsClose1 [([12, 3], 1/2), ([1, 23], 1/2)] [0, 1]).2 =
    .ok [([12, 3], 1/2), ([1, 23], 1/2)] := by decide +kernel
example : (subdistribution pyIsClose1 [([12, 0], 1/2), ([3, 0], 1/4), ([12, 7], 1/4)] [0]).2 =
    .ok [([12], 3/4), ([3], 1/4)] := by decide +kernel
example : Valid [([12, 0], 1/2), ([3, 0], 1/4), ([12, 7], 1/4)] 2 := by
  refine ⟨by decide, by decide, by decide, by decide +kernel, by decide⟩
-- save / load on a width-2 distribution with two-digit entries
example : loadDict pyIsClose1 (saveDict [([12, 4], 1/2), ([3, 5], 1/2)]) =
    .ok [([12, 4], 1/2), ([3, 5], 1/2)] := by decide +kernel
example : Roundtrippable [([12, 4], 1/2), ([3, 5], 1/2)] 2 := Or.inl (by decide)
-- MMD / NLL data for distributions with different supports
example : mmdData [([0, 1], 1)] [([1, 0], 1/2), ([1, 1], 1/2)] =
    .ok [(1, 1, 0), (2, 0, 1/2), (3, 0, 1/2)] := by decide +kernel
example : pairData [([0, 1], 1)] [([1, 0], 1/2), ([1, 1], 1/2)] = [(1, 0), (0, 1/2), (0, 1/2)] := by
  decide +kernel

end OQ.C17
