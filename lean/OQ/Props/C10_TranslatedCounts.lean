/- C10 — PROPERTY THEOREMS (translation ties): the counting methods of `measurements/measurements.py`: `Measurements.__init__`,
   `get_counts`, `add_counts`, `from_counts`, `get_distribution`.  The definitions `OQ.Generated.Translated.*` are REGENERATED from
   /repo's current Python source on every run (harness/translate_t4.py → OQ/Generated/TranslatedC10.lean); an edit of a Python method
   changes its definition and the equalities below stop checking at build time, for every input.

   Reading of the translated definitions (harness/translate_t4.py's docstring has the details):
   * a METHOD is a function of the attribute it reads / writes: `self.bitstrings` (a list of int tuples, `List (List Int)`) is the
     parameter `self_bitstrings`; `add_counts` (which mutates `self.bitstrings` and returns None) returns the NEW `self.bitstrings`;
     `from_counts` returns the `bitstrings` of the object it builds; `get_distribution` returns the new object's `distribution_dict`.
   * a result `Except OQ.Py.Exc4 τ`: `.error c` = the Python call raises an exception of class `c` (ValueError of `int(bitvalue)`,
     KeyError of `counts[bitstring]`, ZeroDivisionError of `counts[b] / num_measurements`, RuntimeError of the constructor).  The ties
     show that KeyError and ZeroDivisionError never occur.
   * count dictionaries are insertion-ordered association lists `OQ.Py.Dict (List Char) Int` (bitstring ↦ Python int); where a theorem
     needs the list to be a Python dict it says that the keys are distinct.
   * `convert_tuples_to_bitstrings` / `tuple_to_bitstring` (utils.py) are regenerated under C10 as `c10_…` (the same text as under C04).
   * `get_distribution` divides two Python ints: the quotient is a value of the abstract numeric type (exact at `Rat`; FLOAT ROUNDING IS
     NOT MODELLED) and goes through the TRANSLATED C17 constructor `mod_init` (OQ/Generated/TranslatedC17.lean).
   The model (`OQ/Model/C10.lean`) speaks about shots as `List Bool`: the ties are stated through the embeddings `encT` (the tuple of
   0/1 ints) and `encS` (the bitstring), which cover every measurement of bits.  Tuples with other entries (`(12, 3)` and `(1, 23)` both
   give the key "123") and count keys with non-digit characters (ValueError) are outside the model; `translated_counts_sum` is proved
   directly on the translated code for ALL lists of int tuples.
   NOT translated: `get_expectation_value_from_frequencies` (numpy: `np.frombuffer`, `reshape`, fancy indexing, broadcasting) – its tie
   remains the differential correspondence of `./check C10`. -/
import OQ.Lemmas.C10_TranslatedCounts
import OQ.Props.C10
import OQ.Props.C17_TranslatedDist
namespace OQ.C10
open OQ.Generated OQ.Py

/-! ### ties -/

/-- TRANSLATION TIE: `Measurements.__init__(bitstrings=None)` stores `[]` for None and the given list otherwise – all inputs. -/
theorem translated_measurements_init_eq (b : Option (List (List Int))) :
    Translated.measurements_init b = b.getD [] := by
  cases b <;> rfl

/-- TRANSLATION TIE (the C10 copy of utils' `tuple_to_bitstring`, which `get_counts` goes through): a tuple of bits becomes its
    bitstring – every bit shot. -/
theorem translated_c10_tuple_to_bitstring_eq (s : Shot) : Translated.c10_tuple_to_bitstring (encT s) = encS s := by
  unfold Translated.c10_tuple_to_bitstring encT encS
  rw [List.map_map]
  have : (fun (bit : Int) => strOfInt bit) ∘ (fun (b : Bool) => if b then (1 : Int) else 0)
      = (fun c => [c]) ∘ (fun (b : Bool) => if b then '1' else '0') := by
    funext b; cases b <;> rfl
  rw [this, ← List.map_map, join_nil_singletons]

/-- TRANSLATION TIE (the C10 copy of `convert_tuples_to_bitstrings`): the map of the former over the list – every list of bit shots. -/
theorem translated_c10_convert_tuples_to_bitstrings_eq (shots : List Shot) :
    Translated.c10_convert_tuples_to_bitstrings (shots.map encT) = shots.map encS := by
  unfold Translated.c10_convert_tuples_to_bitstrings
  simp [List.map_map, Function.comp_def, translated_c10_tuple_to_bitstring_eq]

/-- TRANSLATION TIE: `Measurements.get_counts` (`dict(Counter(convert_tuples_to_bitstrings(self.bitstrings)))`) regenerated from the
    current Python source IS the model's `getCounts` – for EVERY list of bit shots: same keys (as bitstrings) in the same order
    (first occurrence), same counts. -/
theorem translated_get_counts_eq (shots : List Shot) :
    Translated.measurements_get_counts (shots.map encT) = countsToPy (getCounts shots) := by
  unfold Translated.measurements_get_counts counterOfList getCounts
  rw [translated_c10_convert_tuples_to_bitstrings_eq]
  exact counterOfList_foldl shots []

/-- TRANSLATION TIE: `Measurements.add_counts` (the loop over `counts.keys()`, `int(bitvalue)` per character,
    `self.bitstrings += [tuple(measurement)] * counts[bitstring]`) IS the model's `addCounts` – for EVERY list of bit shots and EVERY
    Python dict of bitstring keys with int counts (zero and negative counts included: they add nothing): the new `self.bitstrings`.
    `counts[bitstring]` never raises KeyError, `int(bitvalue)` never ValueError (keys of '0'/'1'). -/
theorem translated_add_counts_eq (bs : List Shot) (counts : List (Shot × Int)) (hn : (counts.map (fun p => p.1)).Nodup) :
    Translated.measurements_add_counts (bs.map encT) (intCountsToPy counts) = .ok ((addCounts bs counts).map encT) := by
  unfold Translated.measurements_add_counts
  have hget : ∀ p ∈ counts, dictGetE (intCountsToPy counts) (encS p.1) = .ok p.2 := fun p hp =>
    dictGetE_of_mem _ (intCountsToPy_keys_nodup counts hn) _ _ (List.mem_map.mpr ⟨p, hp, rfl⟩)
  have := foldlE_add_counts (intCountsToPy counts) counts bs hget
  simp only [replicate_singleton_flatten] at this ⊢
  rw [this]
  rfl

/-- TRANSLATION TIE: `Measurements.from_counts` (`cls()`, `add_counts`, return the object) IS the model's `fromCounts` – every Python
    dict of bitstring keys with int counts. -/
theorem translated_from_counts_eq (counts : List (Shot × Int)) (hn : (counts.map (fun p => p.1)).Nodup) :
    Translated.measurements_from_counts (intCountsToPy counts) = .ok ((fromCounts counts).map encT) := by
  unfold Translated.measurements_from_counts Translated.measurements_init
  have := translated_add_counts_eq [] counts hn
  simp only [List.map_nil] at this
  simp only [this, bind_ok]
  rfl

/-- TRANSLATION TIE: `Measurements.get_distribution` (`get_counts()`, `len(self.bitstrings)`, the loop
    `distribution[b] = counts[b] / num_measurements`, the constructor `MeasurementOutcomeDistribution(distribution)` = the translated
    C17 `__init__` with `normalize=True`) IS the model's `getDistribution` – for EVERY list of bit shots: the dictionary of counts over
    the number of shots (keys as int tuples) when the shots are non-empty and of one length, RuntimeError otherwise (no shots /
    different lengths), as the model says.  ASSUMED LAW of the external: `math.isclose(1, 1)` is true (`hext`); nothing else is assumed
    about `isclose`.  `counts[b]` never raises KeyError and the division never ZeroDivisionError. -/
theorem translated_get_distribution_eq (ext : Rat → Rat → Bool) (hext : ext 1 1 = true) (shots : List Shot) :
    Translated.measurements_get_distribution ext OQ.C17.floatMin (shots.map encT) = distResult (getDistribution (R := Rat) shots) := by
  unfold Translated.measurements_get_distribution
  rw [translated_get_counts_eq]
  simp only [List.length_map]
  obtain ⟨hnd, hpos, hmem⟩ := getCounts_inv shots
  by_cases hne : shots = []
  · subst hne
    have := OQ.C17.translated_init_eq ext true []
    simp only [OQ.C17.toPyItems, List.map_nil] at this
    simp [getCounts, countsToPy, dictKeys, foldlE, dictStrKeys, this, OQ.C17.construct, OQ.C17.preprocess,
      OQ.C17.constructPre, OQ.C17.isDistribution, OQ.C17.liftE, OQ.C17.toExc, getDistribution, distResult, toExc10]
  · have hn0 : ((shots.length : Nat) : Int) ≠ 0 := by
      have : shots.length ≠ 0 := by simpa using hne
      exact_mod_cast this
    simp only [divIntE_rat _ _ hn0, bind_ok]
    have hget : ∀ p ∈ getCounts shots, dictGetE (countsToPy (getCounts shots)) (encS p.1) = .ok ((p.2 : Nat) : Int) := by
      intro p hp
      apply dictGetE_of_mem
      · simp only [dictKeys, countsToPy, List.map_map]
        have : ((fun (p : List Char × Int) => p.1) ∘ fun (p : Shot × Nat) => (encS p.1, (p.2 : Int))) = encS ∘ (fun p => p.1) := rfl
        rw [this, ← List.map_map]
        exact (show ((getCounts shots).map (fun p => p.1)).Nodup from hnd).map encS_injective
      · exact List.mem_map.mpr ⟨p, hp, rfl⟩
    have hloop := foldlE_dist (countsToPy (getCounts shots)) (shots.length : Int) (getCounts shots) [] hget
      (by simpa using distPy_keys_nodup _ _ hnd)
    simp only [List.nil_append] at hloop
    rw [hloop]
    simp only [bind_ok, dictStrKeys_distPy, OQ.C17.translated_init_eq, bind_ok_right']
    -- the C17 constructor on the distribution
    have hD := distD_keys_nodup (shots.length : Int) (getCounts shots) hnd
    have hpre := OQ.C17.preprocess_distinct (fun k => OQ.C17.RawKey.str (OQ.C17.encDigits k)) (distD (shots.length : Int) (getCounts shots))
      (fun k hk => by
        simp only [OQ.C17.Dict.keys, distD, List.map_map, List.mem_map, Function.comp] at hk
        obtain ⟨p, _, rfl⟩ := hk
        exact OQ.C17.preprocessKey_encDigits _ (isDigits_encT p.1)) hD
    simp only [OQ.C17.construct, hpre, OQ.C17.constructPre, distD_total shots hne, hext, if_true]
    -- validity of the dictionary = the model's two tests
    have hcne : getCounts shots ≠ [] := getCounts_ne_nil shots hne
    unfold getDistribution
    simp only [Int.cast_natCast]
    have hemp : ((getCounts shots).map (fun p => (p.1, ((p.2 : Nat) : Rat) / ((shots.length : Nat) : Rat)))).isEmpty = false := by
      cases h : getCounts shots with
      | nil => exact absurd h hcne
      | cons a b => rfl
    rw [hemp]
    simp only [Bool.false_eq_true, if_false, List.map_map, Function.comp_def]
    by_cases hs : sameLength ((getCounts shots).map (fun p => p.1)) = true
    · have hdist : OQ.C17.isDistribution (distD (shots.length : Int) (getCounts shots)) = true := by
        rw [OQ.C17.isDistribution_iff]
        refine ⟨by simpa [distD] using hcne, ?_, ?_, ?_⟩
        · intro p hp
          simp only [distD, List.mem_map] at hp
          obtain ⟨q, _, rfl⟩ := hp
          positivity
        · intro p hp p' hp'
          simp only [distD, List.mem_map] at hp hp'
          obtain ⟨q, hq, rfl⟩ := hp
          obtain ⟨q', hq', rfl⟩ := hp'
          simp only [encT, List.length_map]
          cases hc : getCounts shots with
          | nil => rw [hc] at hq; cases hq
          | cons a b =>
            rw [hc] at hs hq hq'
            simp only [List.map_cons, sameLength, List.all_eq_true, beq_iff_eq, List.mem_map, forall_exists_index, and_imp,
              forall_apply_eq_imp_iff₂] at hs
            have key : ∀ x ∈ a :: b, x.1.length = a.1.length := by
              intro x hx
              rcases List.mem_cons.mp hx with rfl | hx
              · rfl
              · exact hs x hx
            rw [key q hq, key q' hq']
        · intro p hp e he
          simp only [distD, List.mem_map] at hp
          obtain ⟨q, _, rfl⟩ := hp
          exact (isDigits_encT q.1 e he).1
      rw [if_pos hdist]
      simp only [hs, Bool.not_true, Bool.false_eq_true, if_false, OQ.C17.liftE, distResult, distD,
        List.map_map, Function.comp_def, Int.cast_natCast]
    · have hdist : ¬ OQ.C17.isDistribution (distD (shots.length : Int) (getCounts shots)) = true := by
        rw [OQ.C17.isDistribution_iff]
        rintro ⟨_, _, hl, _⟩
        apply hs
        cases hc : getCounts shots with
        | nil => rfl
        | cons a b =>
          simp only [List.map_cons, sameLength, List.all_eq_true, beq_iff_eq, List.mem_map, forall_exists_index, and_imp,
            forall_apply_eq_imp_iff₂]
          intro x hx
          have h1 := hl (encT x.1, _) (by rw [hc]; exact List.mem_map.mpr ⟨x, by simp [hx], rfl⟩)
            (encT a.1, _) (by rw [hc]; exact List.mem_map.mpr ⟨a, by simp, rfl⟩)
          simpa [encT] using h1
      rw [if_neg hdist]
      simp only [Bool.not_eq_true] at hs
      simp only [hs, Bool.not_false, if_true, OQ.C17.liftE, OQ.C17.toExc, distResult, toExc10]

/-! ### END-TO-END: the property's sentences on the translated code -/

/-- `counts_sum` ON THE TRANSLATED METHOD, for ALL lists of int tuples (not only bits): the counts `get_counts()` returns sum to the
    number of measurements. -/
theorem translated_counts_sum (bitstrings : List (List Int)) :
    pyTotal (Translated.measurements_get_counts bitstrings) = bitstrings.length := by
  unfold Translated.measurements_get_counts
  rw [pyTotal_counterOfList]
  simp [Translated.c10_convert_tuples_to_bitstrings]

/-- `counts_roundtrip`, direction 1, ON THE TRANSLATED METHODS: `from_counts(m.get_counts())` succeeds and holds exactly the shots of
    `m` (the same tuples with the same multiplicities). -/
theorem translated_from_counts_of_get_counts (shots : List Shot) :
    ∃ l, Translated.measurements_from_counts (Translated.measurements_get_counts (shots.map encT)) = .ok l ∧
      l.Perm (shots.map encT) := by
  have hk : ((castCounts (getCounts shots)).map (fun p => p.1)).Nodup := by
    simpa [castCounts, Counts.keys, List.map_map, Function.comp_def] using (getCounts_inv shots).1
  have e : countsToPy (getCounts shots) = intCountsToPy (castCounts (getCounts shots)) := by
    simp [countsToPy, intCountsToPy, castCounts]
  refine ⟨_, by rw [translated_get_counts_eq, e, translated_from_counts_eq _ hk], ?_⟩
  exact (from_counts_of_get_counts shots).map encT

/-- `counts_roundtrip`, direction 2, ON THE TRANSLATED METHODS: for every histogram `c` (distinct bitstrings, positive counts),
    `from_counts(c)` succeeds and `get_counts()` of the result is `c`, key order included. -/
theorem translated_get_counts_of_from_counts (c : Counts) (hn : c.keys.Nodup) (hp : ∀ p ∈ c, 0 < p.2) :
    ∃ l, Translated.measurements_from_counts (countsToPy c) = .ok l ∧ Translated.measurements_get_counts l = countsToPy c := by
  have hk : ((castCounts c).map (fun p => p.1)).Nodup := by
    simpa [castCounts, Counts.keys, List.map_map, Function.comp_def] using hn
  have e : countsToPy c = intCountsToPy (castCounts c) := by simp [countsToPy, intCountsToPy, castCounts]
  refine ⟨_, by rw [e, translated_from_counts_eq _ hk], ?_⟩
  rw [translated_get_counts_eq, get_counts_of_from_counts c hn hp]

/-- `distribution_eq_counts_div` ON THE TRANSLATED METHODS: on a non-empty list of equal-length bit shots the regenerated
    `get_distribution` succeeds and its dictionary is the regenerated `get_counts()` with every key read as its tuple of digits and
    every count divided by the number of shots (same order). -/
theorem translated_distribution_eq_counts_div (ext : Rat → Rat → Bool) (hext : ext 1 1 = true) (shots : List Shot) (w : Nat)
    (hne : shots ≠ []) (hl : ∀ s ∈ shots, s.length = w) :
    Translated.measurements_get_distribution ext OQ.C17.floatMin (shots.map encT) =
      .ok ((Translated.measurements_get_counts (shots.map encT)).map
        (fun p => (p.1.map charDigit, ((p.2 : Int) : Rat) / ((shots.length : Nat) : Rat)))) := by
  rw [translated_get_distribution_eq ext hext, translated_get_counts_eq, distribution_eq_counts_div shots w hne hl]
  simp only [distResult, countsToPy, List.map_map, Function.comp_def, Int.cast_natCast]
  congr 2
  funext p
  have : (encS p.1).map charDigit = encT p.1 := by
    simp only [encS, encT, List.map_map]
    apply List.map_congr_left
    intro b _
    cases b <;> rfl
  rw [this]

/-- … and the reported probabilities sum to exactly 1 (so the constructor never renormalises). -/
theorem translated_distribution_sum_one (ext : Rat → Rat → Bool) (hext : ext 1 1 = true) (shots : List Shot) (w : Nat)
    (hne : shots ≠ []) (hl : ∀ s ∈ shots, s.length = w) (d : OQ.C17.Dict OQ.C17.Key)
    (h : Translated.measurements_get_distribution ext OQ.C17.floatMin (shots.map encT) = .ok d) : d.total = 1 := by
  rw [translated_get_distribution_eq ext hext, distribution_eq_counts_div shots w hne hl] at h
  simp only [distResult, Except.ok.injEq] at h
  subst h
  have := distD_total shots hne
  simpa [distD, OQ.C17.Dict.total, OQ.C17.Dict.vals, List.map_map, Function.comp_def] using this

/-! ## non-vacuity: the TRANSLATED definitions on concrete inputs -/

example : Translated.measurements_get_counts [[0, 1], [1, 1], [0, 1], [1, 0]] =
    [(['0', '1'], 2), (['1', '1'], 1), (['1', '0'], 1)] := by decide
example : Translated.measurements_add_counts [[1]] [(['0', '1'], 2), (['1'], 0), (['0'], -1), ([], 1)] =
    .ok [[1], [0, 1], [0, 1], []] := by decide
example : Translated.measurements_add_counts [] [(['0', 'a'], 1)] = .error .value := by decide
example : Translated.measurements_from_counts [(['1', '0'], 3)] = .ok [[1, 0], [1, 0], [1, 0]] := by decide
example : Translated.measurements_get_distribution ratIsClose OQ.C17.floatMin [[0, 1], [1, 1], [0, 1], [1, 0]] =
    .ok [([0, 1], 1/2), ([1, 1], 1/4), ([1, 0], 1/4)] := by decide +kernel
example : Translated.measurements_get_distribution ratIsClose OQ.C17.floatMin [] = .error .runtime := by decide +kernel
example : Translated.measurements_get_distribution ratIsClose OQ.C17.floatMin [[0, 1], [1]] = .error .runtime := by decide +kernel
example : ratIsClose 1 1 = true := by decide +kernel
example : [[false, true], [true, true]].map encT = [[0, 1], [1, 1]] := by decide

end OQ.C10
